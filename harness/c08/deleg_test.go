package c08

// API-tier replay of the delegation half of Lease.tla (MC_LeaseDeleg /
// Sim_LeaseDeleg behaviours) on the real internal/authority.Cache, composed
// with the resolver's own lease arithmetic (minCut, minNonZero, minRRSetTTL,
// extractDelegationInfo, validReferral -- reached through the C08 overlay
// shim) exactly as Resolver.processDelegation / searchCache /
// resolveWithCachedNameservers / lookupV4Nss compose them.  Answers learned
// through a cut go into the real answer cache (Store.SetFromResponseWithCut)
// and are read back with Store.GetWithContext.
//
// The driver plays the parent side: it owns pub[e], hands out referrals and
// logs the lease every referral granted.  Verdicts are the C08 predicates
// evaluated on what the real cache returned, against that log only:
//
//   GetHonoursLease   a delegation Get returns nothing at/after its deadline,
//                     and whatever it returns is inside the latest lease the
//                     parent side granted for every zone on the path
//   LeaseWithinGrant  a stored ExpiresAt <= observedAt+min(NS,DS), <= every
//                     shallower deadline the resolution inherited, <= 12 h
//                     from the insertion
//   NoSelfExtension   re-storing the same observation never moves the
//                     deadline later; a non-progressing referral is rejected
//   FollowsParent     an answer learned through a cut is not served at/after
//                     the granted lease end of any zone it was learned through
//
// Any other difference from the model state is drift.  Time is virtual:
// "seam" mode drives authority.Cache.now, "shift" mode freezes it and moves
// every stored ExpiresAt instead (VerifC08Shift) -- both must agree.

import (
	"context"
	"encoding/json"
	"fmt"
	"os"
	"path/filepath"
	"strings"
	"testing"
	"time"

	"github.com/miekg/dns"
	"github.com/semihalev/sdns/config"
	"github.com/semihalev/sdns/internal/authority"
	icache "github.com/semihalev/sdns/internal/cache"
	"github.com/semihalev/sdns/middleware"
	mcache "github.com/semihalev/sdns/middleware/cache"
	"github.com/semihalev/sdns/middleware/resolver"
	"github.com/semihalev/sdns/verifharness/vh"
)

const noCut = int64(1000000)
const noDS = int64(-1)

type pubRec struct {
	Present bool  `json:"present"`
	NS      int64 `json:"ns"`
	DS      int64 `json:"ds"`
	Ver     int64 `json:"ver"`
}

type step struct {
	Op   string          `json:"op"`
	Args []any           `json:"args"`
	Exp  json.RawMessage `json:"exp"`
}

type expState struct {
	Now    int64                       `json:"now"`
	Vis    map[string]int64            `json:"vis"` // zone -> remaining (0 = invisible)
	Rs     map[string]map[string]any   `json:"rs"`
	Dreply map[string]any              `json:"dreply"`
	Pub    map[string]pubRec           `json:"pub"`
	Dans   map[string]map[string]int64 `json:"dans"`
}

type behaviour struct {
	ID    string            `json:"id"`
	Pub   map[string]pubRec `json:"pub"`
	Steps []step            `json:"steps"`
}

type input struct {
	Parent     map[string]string `json:"parent"`
	Clock      string            `json:"clock"`
	Behaviours []behaviour       `json:"behaviours"`
	TraceOut   string            `json:"traceOut"`
}

type obsRec struct {
	e      string
	t      int64 // virtual observation instant
	nsTTL  int64 // as extracted by the code from the referral
	dsTTL  int64 // as computed by the code from the DS set (noDS = none)
	grant  int64 // t + min(ns, ds) from the parent's own record
	ver    int64
	dsSet  []dns.RR
	hasObs bool
}

type resState struct {
	st      string
	z, at   string
	cut     int64 // virtual deadline, noCut = unbounded
	cutKey  uint64
	anc     []int64 // deadlines of the shallower delegations this resolution inherited (observed)
	obs     obsRec
	ins     bool
	np      int
}

type run struct {
	in    *input
	res   *vh.Result
	t     *testing.T
	ac    *authority.Cache
	cc    *mcache.Cache
	store *mcache.Store
	base  time.Time
	mode  string
	off   int64 // seam offset (seconds)
	vnow  int64
	pub   map[string]pubRec
	grant map[string]int64 // latest lease end any referral for the zone carried
	rs    map[int]*resState
	// what was last stored per zone, for NoSelfExtension
	last  map[string]lastIns
	ansVia map[string][]string
	events []map[string]any
	hist   []string
	bid    string
	cur    *behaviour
}

type lastIns struct {
	obsT, ver, anc, exp int64
	prov, clamped       bool
}

func zoneName(z string, parent map[string]string) string {
	if z == "root" {
		return "."
	}
	return z + "." + strings.TrimPrefix(zoneName(parent[z], parent), ".")
}

func (r *run) zname(z string) string { return zoneName(z, r.in.Parent) }

func (r *run) path(z string) []string {
	if z == "root" || z == "-" || z == "" {
		return nil
	}
	return append(r.path(r.in.Parent[z]), z)
}

func (r *run) key(z string) uint64 {
	return icache.Key(dns.Question{Name: r.zname(z), Qtype: dns.TypeNS, Qclass: dns.ClassINET}, false)
}

// code-timeline instant of a virtual second
func (r *run) codeNow() time.Time {
	if r.mode == "seam" {
		return r.base.Add(time.Duration(r.off) * time.Second)
	}
	return r.base
}
func (r *run) toCode(v int64) time.Time {
	if v == noCut {
		return time.Time{}
	}
	return r.codeNow().Add(time.Duration(v-r.vnow) * time.Second)
}
func (r *run) toV(t time.Time) int64 {
	if t.IsZero() {
		return noCut
	}
	return r.vnow + int64(t.Sub(r.codeNow())/time.Second)
}

func (r *run) violate(pred, what string) {
	r.res.Violate("c08/api/"+pred, fmt.Sprintf("authority.Cache/lease arithmetic %s (clock=%s) after %v: %s", pred, r.mode, r.hist, what),
		map[string]any{"driver": "c08-deleg", "clock": r.mode, "behaviour": r.bid, "history": r.hist, "events": r.events,
			"input": map[string]any{"parent": r.in.Parent, "clock": r.mode,
				"behaviours": []any{map[string]any{"id": r.bid, "pub": r.cur.Pub, "steps": r.cur.Steps[:len(r.hist)]}}}})
}

func argInt(a any) int64 {
	switch v := a.(type) {
	case float64:
		return int64(v)
	case int:
		return int64(v)
	}
	return 0
}
func argStr(a any) string { s, _ := a.(string); return s }

func minI(a, b int64) int64 {
	if a <= b {
		return a
	}
	return b
}

// every Get that returns a delegation is a use: it must be before the stored
// deadline and inside the parent-granted lease of every zone on the path
func (r *run) get(z string) (*authority.Delegation, bool) {
	d, err := r.ac.Get(r.key(z))
	raw, present := r.ac.VerifC08Peek(r.key(z))
	if err != nil {
		if present && r.toV(raw.ExpiresAt) > r.vnow {
			r.res.DriftNote("Get(%s) hides a delegation that is still inside its deadline (%d > now %d)", z, r.toV(raw.ExpiresAt), r.vnow)
		}
		return nil, false
	}
	exp := r.toV(d.ExpiresAt)
	if exp <= r.vnow {
		r.violate("GetHonoursLease", fmt.Sprintf("Get(%s) returned a delegation at now=%d whose stored deadline is %d", z, r.vnow, exp))
	}
	for _, a := range r.path(z) {
		if r.vnow >= r.grant[a] {
			r.violate("GetHonoursLease", fmt.Sprintf("Get(%s) returned a delegation at now=%d, at/after the end (%d) of the latest lease the parent side granted for %s", z, r.vnow, r.grant[a], a))
		}
	}
	return d, true
}

func (r *run) referral(e string, owner string) *dns.Msg {
	p := r.pub[e]
	m := new(dns.Msg)
	m.SetQuestion("www."+r.zname(e), dns.TypeA)
	m.Response = true
	for i, extra := range []uint32{0, 5} {
		m.Ns = append(m.Ns, &dns.NS{Hdr: dns.RR_Header{Name: owner, Rrtype: dns.TypeNS, Class: dns.ClassINET, Ttl: uint32(p.NS) + extra},
			Ns: fmt.Sprintf("ns%d.v%d.%s", i+1, p.Ver, owner)})
	}
	// the longer-lived record first: the lease must follow the minimum
	m.Ns[0], m.Ns[1] = m.Ns[1], m.Ns[0]
	return m
}

func (r *run) dsSet(e string) []dns.RR {
	p := r.pub[e]
	if p.DS == noDS {
		return nil
	}
	var out []dns.RR
	for _, extra := range []uint32{3, 0} {
		out = append(out, &dns.DS{Hdr: dns.RR_Header{Name: r.zname(e), Rrtype: dns.TypeDS, Class: dns.ClassINET, Ttl: uint32(p.DS) + extra},
			KeyTag: uint16(p.Ver), Algorithm: 13, DigestType: 2, Digest: "00"})
	}
	return out
}

func (r *run) nextHop(s *resState) string {
	p := r.path(s.z)
	if s.at == "root" {
		return p[0]
	}
	for i, z := range p {
		if z == s.at && i+1 < len(p) {
			return p[i+1]
		}
	}
	return ""
}

func (r *run) childDeadline(s *resState) (time.Time, uint64, int64) {
	// processDelegation: leaseDeadline := observedAt + nsTTL; DS bound; minCut with the inherited cut
	observedAt := r.toCode(s.obs.t)
	lease := observedAt.Add(time.Duration(s.obs.nsTTL) * time.Second)
	if len(s.obs.dsSet) > 0 {
		if dsDeadline := observedAt.Add(time.Duration(resolver.VerifC08MinRRSetTTL(s.obs.dsSet)) * time.Second); dsDeadline.Before(lease) {
			lease = dsDeadline
		}
	}
	child, ck := resolver.VerifC08MinCut(r.toCode(s.cut), s.cutKey, lease, r.key(s.obs.e))
	return child, ck, r.toV(child)
}

func (r *run) checkStored(s *resState, prov bool, wantDeadline int64) {
	e := s.obs.e
	raw, ok := r.ac.VerifC08Peek(r.key(e))
	if wantDeadline <= r.vnow {
		// SetUntil must skip a past deadline: whatever is stored is not this observation's
		if ok {
			if exp := r.toV(raw.ExpiresAt); exp > r.vnow {
				if li, had := r.last[e]; !had || li.exp != exp {
					r.violate("LeaseWithinGrant", fmt.Sprintf("a deadline already past (%d <= now %d) for %s was stored as a live lease ending %d", wantDeadline, r.vnow, e, exp))
				}
			}
		}
		return
	}
	if !ok {
		r.res.DriftNote("insert of %s with deadline %d left nothing stored", e, wantDeadline)
		return
	}
	exp := r.toV(raw.ExpiresAt)
	if exp > s.obs.grant {
		r.violate("LeaseWithinGrant", fmt.Sprintf("%s stored until %d but the referral observed at %d granted min(NS %d, DS %d) => %d",
			e, exp, s.obs.t, r.obsNS(s), r.obsDS(s), s.obs.grant))
	}
	for i, a := range s.anc {
		if exp > a {
			r.violate("LeaseWithinGrant", fmt.Sprintf("%s stored until %d, past the shallower delegation deadline %d (#%d) inherited on its path", e, exp, a, i))
		}
	}
	ceil := int64(authority.VerifC08MaximumTTL() / time.Second)
	if exp > r.vnow+ceil {
		r.violate("LeaseWithinGrant", fmt.Sprintf("%s stored until %d, more than the %d s ceiling after its insertion at %d", e, exp, ceil, r.vnow))
	}
	anc := noCut
	for _, a := range s.anc {
		anc = minI(anc, a)
	}
	if li, had := r.last[e]; had && li.obsT == s.obs.t && li.ver == s.obs.ver && !li.prov && !prov && li.anc == anc {
		if exp > li.exp && exp != r.vnow+ceil && !li.clamped {
			r.violate("NoSelfExtension", fmt.Sprintf("%s: the same observation (t=%d, v%d) was stored again and its deadline moved from %d to %d", e, s.obs.t, s.obs.ver, li.exp, exp))
		}
	}
	r.last[e] = lastIns{obsT: s.obs.t, ver: s.obs.ver, anc: anc, exp: exp, prov: prov, clamped: exp == r.vnow+ceil}
}

func (r *run) obsNS(s *resState) int64 { return r.pubAt(s).NS }
func (r *run) obsDS(s *resState) int64 { return r.pubAt(s).DS }
func (r *run) pubAt(s *resState) pubRec { return pubRec{NS: s.obs.nsTTL, DS: s.obs.dsTTL} }

func (r *run) answerMsg(z string, neg bool, ttl uint32) (*dns.Msg, *dns.Msg) {
	name := "www." + r.bid + "." + r.zname(z)
	req := new(dns.Msg)
	req.SetQuestion(name, dns.TypeA)
	req.RecursionDesired = true
	m := new(dns.Msg)
	m.SetReply(req)
	m.RecursionAvailable = true
	if neg {
		m.Rcode = dns.RcodeNameError
		m.Ns = []dns.RR{&dns.SOA{Hdr: dns.RR_Header{Name: r.zname(z), Rrtype: dns.TypeSOA, Class: dns.ClassINET, Ttl: 1},
			Ns: "ns." + r.zname(z), Mbox: "h." + r.zname(z), Serial: 1, Refresh: 60, Retry: 60, Expire: 60, Minttl: 1}}
	} else {
		m.Answer = []dns.RR{&dns.A{Hdr: dns.RR_Header{Name: name, Rrtype: dns.TypeA, Class: dns.ClassINET, Ttl: ttl}, A: []byte{192, 0, 2, 1}}}
	}
	return req, m
}

func (r *run) storeAnswer(z string, neg bool, ttl uint32, cut int64, via []string) {
	_, m := r.answerMsg(z, neg, ttl)
	var cutT time.Time
	if cut != noCut {
		cutT = time.Now().Add(time.Duration(cut-r.vnow) * time.Second)
	}
	r.store.SetFromResponseWithCut(m, false, cutT, 0)
	r.ansVia[z] = via
}

func (r *run) serveAnswer(z string) (bool, int64) {
	req, _ := r.answerMsg(z, false, 0)
	msg, ok := r.store.GetWithContext(context.Background(), req)
	if !ok || msg == nil {
		return false, 0
	}
	for _, a := range r.ansVia[z] {
		if r.vnow >= r.grant[a] {
			r.violate("FollowsParent", fmt.Sprintf("an answer for %s learned through %v was served at now=%d, at/after the end (%d) of the latest lease the parent side granted for %s",
				z, r.ansVia[z], r.vnow, r.grant[a], a))
		}
	}
	var shown int64 = -1
	for _, rr := range append(append([]dns.RR{}, msg.Answer...), msg.Ns...) {
		shown = int64(rr.Header().Ttl)
	}
	return true, shown
}

func (r *run) observe() (map[string]int64, map[string]bool) {
	vis := map[string]int64{}
	ret := map[string]bool{}
	for z := range r.in.Parent {
		raw, ok := r.ac.VerifC08Peek(r.key(z))
		d, err := r.ac.Get(r.key(z))
		ret[z] = err == nil
		switch {
		case err == nil:
			exp := r.toV(d.ExpiresAt)
			vis[z] = exp - r.vnow
			if vis[z] < 0 {
				vis[z] = 0
			}
			if exp <= r.vnow {
				r.violate("GetHonoursLease", fmt.Sprintf("Get(%s) returned a delegation at now=%d whose stored deadline is %d", z, r.vnow, exp))
			}
			for _, a := range r.path(z) {
				if r.vnow >= r.grant[a] {
					r.violate("GetHonoursLease", fmt.Sprintf("Get(%s) returned a delegation at now=%d, at/after the end (%d) of the latest lease granted for %s", z, r.vnow, r.grant[a], a))
				}
			}
		default:
			vis[z] = 0
			if ok && r.toV(raw.ExpiresAt) > r.vnow {
				r.res.DriftNote("Get(%s) hides a live delegation", z)
			}
		}
	}
	return vis, ret
}

func (r *run) tick(d int64) {
	if r.mode == "seam" {
		r.off += d
	} else {
		r.ac.VerifC08Shift(time.Duration(d) * time.Second)
	}
	r.cc.VerifC04Shift(time.Duration(d) * time.Second)
	r.vnow += d
}

func (r *run) doStep(st step) (string, error) {
	a := st.Args
	switch st.Op {
	case "ParentWithdraw":
		e := argStr(a[0])
		p := r.pub[e]
		p.Present, p.Ver = false, p.Ver+1
		r.pub[e] = p
	case "ParentRepoint":
		e := argStr(a[0])
		p := r.pub[e]
		p.Present, p.Ver = true, p.Ver+1
		r.pub[e] = p
	case "ParentRetime":
		e := argStr(a[0])
		p := r.pub[e]
		p.NS, p.DS, p.Ver = argInt(a[1]), argInt(a[2]), p.Ver+1
		r.pub[e] = p
	case "SeedFromDelegCache":
		s := &resState{st: "at", z: argStr(a[1]), at: "root", cut: noCut}
		p := r.path(s.z)
		for i := len(p) - 1; i >= 0; i-- { // searchCache walks up from the deepest name
			if d, ok := r.get(p[i]); ok {
				s.at = p[i]
				ct, ck := resolver.VerifC08MinCut(time.Time{}, 0, d.ExpiresAt, r.key(p[i]))
				s.cut, s.cutKey = r.toV(ct), ck
				s.anc = append(s.anc, r.toV(d.ExpiresAt))
				break
			}
		}
		r.rs[int(argInt(a[0]))] = s
	case "AskZone":
		s := r.rs[int(argInt(a[0]))]
		if s == nil || s.st != "at" || s.at == s.z {
			return "model step AskZone not enabled on the real state", nil
		}
		e := r.nextHop(s)
		if r.pub[e].Present {
			resp := r.referral(e, r.zname(e))
			q := dns.Question{Name: "www." + r.zname(s.z), Qtype: dns.TypeA, Qclass: dns.ClassINET}
			owner, nsTTL, valid := resolver.VerifC08Referral(resp, r.zname(s.at), q)
			if !valid || !strings.EqualFold(owner, r.zname(e)) {
				return fmt.Sprintf("a progressing referral for %s from %s was rejected", e, s.at), nil
			}
			ds := r.dsSet(e)
			p := r.pub[e]
			lease := p.NS
			if p.DS != noDS {
				lease = minI(p.NS, p.DS)
			}
			s.obs = obsRec{e: e, t: r.vnow, nsTTL: int64(nsTTL), dsTTL: noDS, grant: r.vnow + lease, ver: p.Ver, dsSet: ds, hasObs: true}
			if len(ds) > 0 {
				s.obs.dsTTL = int64(resolver.VerifC08MinRRSetTTL(ds))
			}
			if r.vnow+lease > r.grant[e] {
				r.grant[e] = r.vnow + lease
			}
			s.st = "observed"
		} else {
			r.storeAnswer(s.z, true, 0, s.cut, r.path(s.at))
			delete(r.rs, int(argInt(a[0])))
		}
	case "SelfReferral":
		s := r.rs[int(argInt(a[0]))]
		if s == nil || s.st != "at" {
			return "model step SelfReferral not enabled on the real state", nil
		}
		q := dns.Question{Name: "www." + r.zname(s.z), Qtype: dns.TypeA, Qclass: dns.ClassINET}
		// the child refers to itself, to its parent, and to a name off the path
		owners := []string{r.zname(s.at), r.zname(r.in.Parent[s.at]), "other." + r.zname(s.at)[strings.Index(r.zname(s.at), ".")+1:]}
		for _, o := range owners {
			m := new(dns.Msg)
			m.SetQuestion(q.Name, q.Qtype)
			m.Response = true
			m.Ns = []dns.RR{&dns.NS{Hdr: dns.RR_Header{Name: o, Rrtype: dns.TypeNS, Class: dns.ClassINET, Ttl: 86400}, Ns: "ns.ghost." + o}}
			if _, _, valid := resolver.VerifC08Referral(m, r.zname(s.at), q); valid {
				r.violate("NoSelfExtension", fmt.Sprintf("the servers of %s referred %q for %s and the referral was accepted as progressing (it would re-insert a delegation the parent did not grant)", r.zname(s.at), o, q.Name))
			}
		}
		delete(r.rs, int(argInt(a[0])))
	case "DescendCached":
		s := r.rs[int(argInt(a[0]))]
		if s == nil || s.st != "observed" {
			return "model step DescendCached not enabled on the real state", nil
		}
		d, ok := r.get(s.obs.e)
		if !ok {
			return fmt.Sprintf("model expects %s cached and visible, the real cache has nothing", s.obs.e), nil
		}
		child, ck, _ := r.childDeadline(s)
		ct, ck2 := resolver.VerifC08MinCut(child, ck, d.ExpiresAt, r.key(s.obs.e))
		s.anc = append(s.anc, r.toV(d.ExpiresAt))
		s.cut, s.cutKey = r.toV(ct), ck2
		s.st, s.at, s.obs = "at", s.obs.e, obsRec{}
	case "ProvisionalInsert":
		s := r.rs[int(argInt(a[0]))]
		if s == nil || s.st != "observed" {
			return "model step ProvisionalInsert not enabled on the real state", nil
		}
		child, _, _ := r.childDeadline(s)
		dl := resolver.VerifC08MinNonZero(child, r.codeNow().Add(time.Minute))
		r.ac.SetUntil(r.key(s.obs.e), s.obs.dsSet, &authority.Servers{Zone: r.zname(s.obs.e)}, dl)
		r.checkStored(s, true, r.toV(dl))
		s.ins, s.np = true, s.np+1
	case "InsertDeleg":
		s := r.rs[int(argInt(a[0]))]
		if s == nil || s.st != "observed" {
			return "model step InsertDeleg not enabled on the real state", nil
		}
		child, ck, cv := r.childDeadline(s)
		srv := &authority.Servers{Zone: r.zname(s.obs.e)}
		if argStr(a[1]) == "dur" {
			r.ac.Set(r.key(s.obs.e), s.obs.dsSet, srv, child.Sub(r.codeNow()))
		} else {
			r.ac.SetUntil(r.key(s.obs.e), s.obs.dsSet, srv, child)
		}
		r.checkStored(s, false, cv)
		s.anc = append(s.anc, cv)
		s.cut, s.cutKey = cv, ck
		s.st, s.at, s.obs, s.ins, s.np = "at", s.obs.e, obsRec{}, false, 0
	case "AnswerFromLeaf":
		s := r.rs[int(argInt(a[0]))]
		if s == nil || s.st != "at" || s.at != s.z {
			return "model step AnswerFromLeaf not enabled on the real state", nil
		}
		r.storeAnswer(s.z, false, uint32(argInt(a[1])), s.cut, r.path(s.z))
		delete(r.rs, int(argInt(a[0])))
	case "ServeAnswer":
		// evaluated in step()
	case "TickD":
		r.tick(argInt(a[0]))
	default:
		return "", fmt.Errorf("unknown op %q", st.Op)
	}
	return "", nil
}

func (r *run) runBehaviour(b behaviour) error {
	r.bid = b.ID
	r.cur = &b
	r.ac = authority.NewCache()
	r.base = time.Now().Truncate(time.Second)
	r.off, r.vnow = 0, 0
	r.ac.VerifC08SetNow(func() time.Time { return r.codeNow() })
	r.cc = mcache.New(&config.Config{CacheSize: 1024, Expire: 600})
	defer r.cc.Stop()
	r.store = r.cc.VerifC04Store()
	r.pub = map[string]pubRec{}
	for k, v := range b.Pub {
		r.pub[k] = v
	}
	r.grant = map[string]int64{}
	r.rs = map[int]*resState{}
	r.last = map[string]lastIns{}
	r.ansVia = map[string][]string{}
	r.events = []map[string]any{{"ev": "Reset", "pub": b.Pub}}
	r.hist = nil
	start := r.res.NViolations()
	for _, st := range b.Steps {
		label := fmt.Sprintf("%s%v", st.Op, st.Args)
		r.hist = append(r.hist, label)
		why, err := r.doStep(st)
		if err != nil {
			return err
		}
		if why != "" {
			r.res.DriftNote("[%s] %s: %s", b.ID, label, why)
			return nil
		}
		ev := map[string]any{"ev": st.Op, "args": st.Args, "now": r.vnow}
		if st.Op == "ServeAnswer" {
			hit, shown := r.serveAnswer(argStr(st.Args[0]))
			ev["hit"], ev["shown"] = hit, shown
		}
		vis, ret := r.observe()
		ev["vis"], ev["ret"] = vis, ret
		gr := map[string]int64{}
		for z := range r.in.Parent {
			gr[z] = r.grant[z]
		}
		ev["granted"] = gr
		r.events = append(r.events, ev)
		r.res.Count("steps", 1)
		if r.res.NViolations() > start {
			return nil
		}
		// model comparison (drift only)
		var exp expState
		if len(st.Exp) > 0 && json.Unmarshal(st.Exp, &exp) == nil && exp.Vis != nil {
			for z, want := range exp.Vis {
				if vis[z] != want {
					r.res.DriftNote("[%s] after %s: delegation %s has %d s left, the model says %d", b.ID, label, z, vis[z], want)
					return nil
				}
			}
			if st.Op == "ServeAnswer" && exp.Dreply != nil {
				if wh, ok := exp.Dreply["hit"].(bool); ok && wh != ev["hit"].(bool) {
					// the answer cache runs on the real clock: a hit the model expects can
					// only be lost (never gained) to the few microseconds the code is ahead
					if ev["hit"].(bool) {
						r.res.DriftNote("[%s] after %s: answer served, the model says miss", b.ID, label)
					}
				}
			}
		}
	}
	return nil
}

func TestDelegReplay(t *testing.T) {
	var in input
	vh.Input(t, &in)
	res := vh.NewResult()
	defer res.Write(t)
	modes := []string{"seam", "shift"}
	if in.Clock != "" {
		modes = []string{in.Clock}
	}
	var out *os.File
	if in.TraceOut != "" {
		var err error
		out, err = os.Create(filepath.Clean(in.TraceOut))
		if err != nil {
			t.Fatal(err)
		}
		defer out.Close()
	}
	for _, mode := range modes {
		r := &run{in: &in, res: res, t: t, mode: mode}
		for bi, b := range in.Behaviours {
			if err := r.runBehaviour(b); err != nil {
				res.Skip("behaviour %s: %v", b.ID, err)
				return
			}
			ops := make([]string, 0, len(r.hist))
			ops = append(ops, r.hist...)
			res.Case(mode + ":" + strings.Join(ops, ";"))
			if bi < 2 && mode == "seam" {
				res.Sample(map[string]any{"clock": mode, "history": r.hist, "events": r.events})
			}
			if out != nil && mode == "seam" {
				for _, e := range r.events {
					bts, _ := json.Marshal(e)
					out.Write(append(bts, '\n'))
				}
				res.Count("events", len(r.events))
			}
		}
	}
}

// TestShifterSelfTest: after Shift(d) every public lifetime accessor of the
// delegation cache reports exactly d less; the seam and the shifter agree.
func TestShifterSelfTest(t *testing.T) {
	var in struct{}
	vh.Input(t, &in)
	res := vh.NewResult()
	defer res.Write(t)
	base := time.Now().Truncate(time.Second)
	ac := authority.NewCache()
	ac.VerifC08SetNow(func() time.Time { return base })
	keys := []uint64{11, 22, 33}
	ttls := []int{50, 100, 7}
	for i, k := range keys {
		ac.SetUntil(k, nil, &authority.Servers{Zone: fmt.Sprint(k)}, base.Add(time.Duration(ttls[i])*time.Second))
	}
	// raw reads: the self-test judges the shifter, not the cache's expiry rule
	read := func() []int64 {
		var out []int64
		for _, k := range keys {
			d, ok := ac.VerifC08Peek(k)
			if !ok {
				out = append(out, -1<<40)
				continue
			}
			out = append(out, int64(d.ExpiresAt.Sub(ac.VerifC08Now())/time.Second))
		}
		return out
	}
	before := read()
	const d = 7
	if n := ac.VerifC08Shift(d * time.Second); n != len(keys) {
		res.Skip("shifter rewrote %d of %d delegations", n, len(keys))
	}
	after := read()
	for i := range keys {
		if after[i] != before[i]-d {
			res.Skip("shifter self-test: key %d reported %d s left before and %d after Shift(%d), want %d", keys[i], before[i], after[i], d, before[i]-d)
		}
	}
	// the seam must be observationally the same clock
	off := time.Duration(0)
	ac.VerifC08SetNow(func() time.Time { return base.Add(off) })
	off = d * time.Second
	seam := read()
	for i := range keys {
		if seam[i] != after[i]-d {
			res.Skip("clock seam self-test: key %d reported %d s left, want %d", keys[i], seam[i], after[i]-d)
		}
	}
	res.Case("selftest")
	res.Count("selftest_accessors", len(keys))
	_ = middleware.ErrNoResponse
}
