// Package c12aud: audit probes for C12 (bounded work per request). Not part of a tier:
// every test is skipped unless VERIF_AUD12=1 (run: go test -tags verif -overlay ... ./c12aud,
// the same flags checks use; no cNN-tagged shim is needed).
//
// What the probes drive through the real default chain (authkit namespace, packets counted at
// the scripted servers), modes off / shadow / enforce:
//
//	TestProbeEntries   decoded entry (ServeMsg) vs wire entry (ServeRaw), UDP vs TCP, EDNS vs plain:
//	                   same packet count (= max_outbound_queries), SERVFAIL (+EDE only with OPT),
//	                   second client spends upstream packets again (nothing cached). Holds.
//	TestProbeFailover  fallbackservers as a spender (SERVFAIL / answering / truncating fallback):
//	                   every fallback attempt incl. the TCP retry is debited, no fallback attempt
//	                   after the tree is over budget, shadow == off. Holds.
//	TestProbeDNS64     DNS64's A lookup is debited (internal + outbound), over-budget reply is
//	                   SERVFAIL+EDE and client 2 is not served it. Holds.
//	TestProbeCacheSideNSEC3 / TestReproOptionalNSEC3OverBudget
//	                   NSEC3 hashes of the cache-side aggressive-denial synthesis (and of the
//	                   resolver's aggressive-proof classification) are counted in private
//	                   allowances of 32 each, outside the ledger: with enforce and
//	                   max_nsec3_hashes = 8 one request tree starts 14 NSEC3 hash operations and is
//	                   answered NXDOMAIN. The repo pins this as intended
//	                   (middleware/cache TestDenialProofWorkDoesNotDebitRequestLedger: enforce,
//	                   MaxNSEC3Hashes 1, 32 optional hashes must pass), so no repair exists that
//	                   leaves the existing tests alone.
package c12aud

import (
	"context"
	"fmt"
	"net"
	"os"
	"strings"
	"sync"
	"testing"
	"time"

	"github.com/miekg/dns"
	"github.com/semihalev/sdns/config"
	"github.com/semihalev/sdns/middleware/resolver/dnssec"
	"github.com/semihalev/sdns/server"
	"github.com/semihalev/sdns/verifharness/authkit"
	"github.com/semihalev/sdns/verifharness/pipe"
)

func gate(t *testing.T) {
	if os.Getenv("VERIF_AUD12") != "1" {
		t.Skip("audit probe; set VERIF_AUD12=1")
	}
}

type world struct {
	n  *authkit.Net
	fb *fallback
}

// fallback is a scripted "fallback resolver" (failover target): counts what it receives.
type fallback struct {
	pc   net.PacketConn
	ln   net.Listener
	mu   sync.Mutex
	n    int
	tcp  int
	mode string // "servfail" | "answer" | "tc"
}

func newFallback(t *testing.T, mode string) *fallback {
	pc, err := net.ListenPacket("udp", "127.0.0.1:0")
	if err != nil {
		t.Fatal(err)
	}
	ln, err := net.Listen("tcp", pc.LocalAddr().String())
	if err != nil {
		t.Fatal(err)
	}
	f := &fallback{pc: pc, ln: ln, mode: mode}
	reply := func(q *dns.Msg, tcp bool) *dns.Msg {
		m := new(dns.Msg)
		m.SetReply(q)
		m.RecursionAvailable = true
		switch {
		case f.mode == "servfail":
			m.Rcode = dns.RcodeServerFailure
		case f.mode == "tc" && !tcp:
			m.Truncated = true
		default:
			rr, _ := dns.NewRR(q.Question[0].Name + " 60 IN A 192.0.2.222")
			if q.Question[0].Qtype == dns.TypeA {
				m.Answer = append(m.Answer, rr)
			}
		}
		return m
	}
	go func() {
		buf := make([]byte, 4096)
		for {
			n, addr, err := pc.ReadFrom(buf)
			if err != nil {
				return
			}
			q := new(dns.Msg)
			if q.Unpack(buf[:n]) != nil {
				continue
			}
			f.mu.Lock()
			f.n++
			f.mu.Unlock()
			b, _ := reply(q, false).Pack()
			_, _ = pc.WriteTo(b, addr)
		}
	}()
	go func() {
		for {
			c, err := ln.Accept()
			if err != nil {
				return
			}
			go func() {
				defer c.Close()
				co := &dns.Conn{Conn: c}
				q, err := co.ReadMsg()
				if err != nil {
					return
				}
				f.mu.Lock()
				f.n++
				f.tcp++
				f.mu.Unlock()
				_ = co.WriteMsg(reply(q, true))
			}()
		}
	}()
	return f
}

func (f *fallback) count() (int, int) {
	f.mu.Lock()
	defer f.mu.Unlock()
	return f.n, f.tcp
}

func (f *fallback) stop() { _ = f.pc.Close(); _ = f.ln.Close() }

// chain namespace: test. -> z0.test. .. z(k-1).test.; a.z0 CNAME a.z1 ... a.z(k-1) A
func buildChain(t *testing.T, k int) *authkit.Net {
	n, err := authkit.NewNet(false)
	if err != nil {
		t.Fatal(err)
	}
	n.Delegate("test.", authkit.DelegateOpts{})
	for i := 0; i < k; i++ {
		z, _, _ := n.Delegate(fmt.Sprintf("z%d.test.", i), authkit.DelegateOpts{})
		if i+1 < k {
			z.Add(fmt.Sprintf("a.z%d.test. 300 IN CNAME a.z%d.test.", i, i+1))
		} else {
			z.Add(fmt.Sprintf("a.z%d.test. 300 IN A 192.0.2.77", i))
		}
		z.Add(fmt.Sprintf("plain.z%d.test. 300 IN A 192.0.2.%d", i, 10+i))
		z.Add(fmt.Sprintf("only4.z%d.test. 300 IN A 192.0.2.%d", i, 40+i))
	}
	return n
}

func count(n *authkit.Net, since time.Time) (total, tcp int) {
	for _, e := range n.LogAll() {
		if e.At.Before(since) || (e.Q.Name == "." && e.Q.Qtype == dns.TypeNS) {
			continue
		}
		total++
		if e.Proto == "tcp" {
			tcp++
		}
	}
	return
}

func sig(m *dns.Msg) string {
	if m == nil {
		return "<none>"
	}
	var ans []string
	for _, rr := range m.Answer {
		ans = append(ans, strings.TrimSpace(strings.TrimPrefix(rr.String(), rr.Header().String())))
	}
	ede := []string{}
	opt := "noopt"
	if o := m.IsEdns0(); o != nil {
		opt = "opt"
		for _, x := range o.Option {
			if e, ok := x.(*dns.EDNS0_EDE); ok {
				ede = append(ede, fmt.Sprintf("%d:%s", e.InfoCode, e.ExtraText))
			}
		}
	}
	return fmt.Sprintf("%s ad=%v %s ede=%v ans=%v", dns.RcodeToString[m.Rcode], m.AuthenticatedData, opt, ede, ans)
}

type opts struct {
	mode     string
	maxOut   uint32
	maxInt   uint32
	fallback []string
	dns64    bool
}

func newServer(t *testing.T, n *authkit.Net, o opts) (*server.Server, func()) {
	dir, _ := os.MkdirTemp("", "verif-aud12-")
	s, _ := pipe.NewResolverServer(pipe.ResolverOpts{RootAddr: n.RootSrv.Addr, Dir: dir, Mapper: n.Mapper(),
		Mutate: func(cfg *config.Config) {
			cfg.RecursionFirewall.Mode = config.RecursionFirewallMode(o.mode)
			cfg.RecursionFirewall.MaxOutboundQueries = o.maxOut
			cfg.RecursionFirewall.MaxInternalQueries = o.maxInt
			cfg.FallbackServers = o.fallback
			if o.dns64 {
				cfg.DNS64.Enabled = true
				cfg.DNS64.Prefixes = []string{"64:ff9b::/96"}
			}
			cfg.Timeout.Duration = 400 * time.Millisecond
			cfg.QueryTimeout.Duration = 4 * time.Second
		}})
	time.Sleep(300 * time.Millisecond) // root priming
	return s, func() { os.RemoveAll(dir) }
}

func mkq(name string, qt uint16, edns bool) *dns.Msg {
	q := new(dns.Msg)
	q.SetQuestion(name, qt)
	if edns {
		q.SetEdns0(1232, false)
	}
	return q
}

// Probe A: decoded entry vs wire entry, UDP vs TCP, EDNS vs plain; enforce, MaxOut=3 on a tree that needs more.
func TestProbeEntries(t *testing.T) {
	gate(t)
	for _, entry := range []string{"msg", "raw"} {
		for _, proto := range []string{"udp", "tcp"} {
			for _, edns := range []bool{true, false} {
				n := buildChain(t, 4)
				s, done := newServer(t, n, opts{mode: "enforce", maxOut: 3, maxInt: 32})
				t0 := time.Now()
				var m *dns.Msg
				if entry == "raw" {
					m = pipe.AskRaw(s, mkq("a.z0.test.", dns.TypeA, edns), proto, "203.0.113.9")
				} else {
					m = pipe.Ask(s, mkq("a.z0.test.", dns.TypeA, edns), proto, "203.0.113.9")
				}
				time.Sleep(500 * time.Millisecond)
				tot, tcp := count(n, t0)
				t1 := time.Now()
				m2 := pipe.Ask(s, mkq("a.z0.test.", dns.TypeA, edns), proto, "203.0.113.10")
				time.Sleep(300 * time.Millisecond)
				tot2, _ := count(n, t1)
				t.Logf("entry=%s proto=%s edns=%v: packets=%d (tcp %d) reply=%s | second client: packets=%d reply=%s", entry, proto, edns, tot, tcp, sig(m), tot2, sig(m2))
				done()
				n.Stop()
			}
		}
	}
}

// Probe B: failover fallback servers as a spender.
func TestProbeFailover(t *testing.T) {
	gate(t)
	for _, fbmode := range []string{"servfail", "answer", "tc"} {
		for _, mode := range []string{"off", "shadow", "enforce"} {
			for _, maxOut := range []uint32{2, 4, 64} {
				n := buildChain(t, 3)
				fb := newFallback(t, fbmode)
				fb2 := newFallback(t, fbmode)
				// the z1 zone is lame: every query to it is dropped -> genuine SERVFAIL behind the resolver
				n.Servers["z1.test."].SetHook(func(ex *authkit.Exchange) { ex.Drop = true })
				s, done := newServer(t, n, opts{mode: mode, maxOut: maxOut, maxInt: 32,
					fallback: []string{fb.pc.LocalAddr().String(), fb2.pc.LocalAddr().String()}})
				t0 := time.Now()
				m := pipe.Ask(s, mkq("a.z0.test.", dns.TypeA, true), "udp", "203.0.113.9")
				time.Sleep(300 * time.Millisecond)
				tot, _ := count(n, t0)
				f1, f1t := fb.count()
				f2, f2t := fb2.count()
				t.Logf("fb=%s mode=%s maxOut=%d: authority packets=%d fallback packets=%d+%d (tcp %d+%d) total=%d reply=%s", fbmode, mode, maxOut, tot, f1, f2, f1t, f2t, tot+f1+f2, sig(m))
				done()
				fb.stop()
				fb2.stop()
				n.Stop()
			}
		}
	}
}

// Probe C: DNS64's A lookup as a spender.
func TestProbeDNS64(t *testing.T) {
	gate(t)
	for _, mode := range []string{"off", "shadow", "enforce"} {
		for _, b := range [][2]uint32{{3, 32}, {4, 32}, {64, 1}, {64, 32}} {
			n := buildChain(t, 2)
			s, done := newServer(t, n, opts{mode: mode, maxOut: b[0], maxInt: b[1], dns64: true})
			t0 := time.Now()
			m := pipe.Ask(s, mkq("only4.z0.test.", dns.TypeAAAA, true), "udp", "203.0.113.9")
			time.Sleep(300 * time.Millisecond)
			tot, _ := count(n, t0)
			t1 := time.Now()
			m2 := pipe.Ask(s, mkq("only4.z0.test.", dns.TypeAAAA, true), "udp", "203.0.113.10")
			time.Sleep(300 * time.Millisecond)
			tot2, _ := count(n, t1)
			t.Logf("dns64 mode=%s maxOut=%d maxInt=%d: packets=%d reply=%s | second: packets=%d reply=%s", mode, b[0], b[1], tot, sig(m), tot2, sig(m2))
			done()
			n.Stop()
		}
	}
}

// Probe D: NSEC3 hashes spent by the cache-side aggressive-denial synthesis of one request
// tree against the configured max_nsec3_hashes (enforce).
func TestProbeCacheSideNSEC3(t *testing.T) {
	gate(t)
	for _, mode := range []string{"enforce", "shadow", "off"} {
		for _, maxN3 := range []uint32{2, 8, 32} {
			n, err := authkit.NewNet(true)
			if err != nil {
				t.Fatal(err)
			}
			n.Delegate("test.", authkit.DelegateOpts{Signed: true, PublishDS: true})
			nz, _, _ := n.Delegate("n3.test.", authkit.DelegateOpts{Signed: true, PublishDS: true, NSEC3: true})
			nz.Add("www.n3.test. 300 IN A 192.0.2.91")
			dir, _ := os.MkdirTemp("", "verif-aud12-")
			s, _ := pipe.NewResolverServer(pipe.ResolverOpts{RootAddr: n.RootSrv.Addr, RootKeys: []string{n.Root.Keys[0].RR.String()},
				DNSSEC: true, Dir: dir, Mapper: n.Mapper(), Mutate: func(cfg *config.Config) {
					cfg.RecursionFirewall.Mode = config.RecursionFirewallMode(mode)
					cfg.RecursionFirewall.MaxNSEC3Hashes = maxN3
					cfg.RecursionFirewall.MaxSignatureChecks = 64
				}})
			time.Sleep(300 * time.Millisecond)
			ask := func(name string) (*dns.Msg, [3]uint32, int) {
				ctx := dnssec.EnsureNSEC3HashMemo(context.Background())
				q := mkq(name, dns.TypeA, true)
				q.IsEdns0().SetDo()
				sink := &pipe.Sink{Remote: pipe.Addr("udp", "203.0.113.9", 40000)}
				t0 := time.Now()
				s.ServeMsg(ctx, sink, q)
				time.Sleep(200 * time.Millisecond)
				tot, _ := count(n, t0)
				var m *dns.Msg
				if len(sink.Writes) > 0 {
					m = new(dns.Msg)
					_ = m.Unpack(sink.Writes[len(sink.Writes)-1])
				}
				var used [3]uint32
				for i, sc := range []dnssec.NSEC3HashMemoScope{dnssec.NSEC3HashMemoScopeRequired, dnssec.NSEC3HashMemoScopeResolverOptional, dnssec.NSEC3HashMemoScopeCacheOptional} {
					used[i] = dnssec.NSEC3HashMemoFromContextScope(ctx, sc).WorkUsed()
				}
				return m, used, tot
			}
			m1, u1, p1 := ask("nope.n3.test.")
			m2, u2, p2 := ask("a.b.c.d.e.f.g.h.i.j.k.l.n3.test.")
			t.Logf("mode=%s max_nsec3_hashes=%d: q1 %s packets=%d optional-work[req,resolver,cache]=%v | q2 %s packets=%d optional-work=%v",
				mode, maxN3, strings.SplitN(sig(m1), " ans", 2)[0], p1, u1, strings.SplitN(sig(m2), " ans", 2)[0], p2, u2)
			os.RemoveAll(dir)
			n.Stop()
		}
	}
}

// TestReproOptionalNSEC3OverBudget is the decisive reproduction: enforce mode,
// max_nsec3_hashes = 8. Client 1 asks nope.n3.test. (validated NXDOMAIN, NSEC3 proof admitted to the
// aggressive-denial cache). Client 2 asks a 12-label name below the same zone: its request tree is
// answered by cache-side synthesis, which hashes with a fixed private allowance of 32 that the
// configured budget does not bound. Fails when one tree started more NSEC3 hash operations than
// max_nsec3_hashes.
func TestReproOptionalNSEC3OverBudget(t *testing.T) {
	gate(t)
	const budget = 8
	n, err := authkit.NewNet(true)
	if err != nil {
		t.Fatal(err)
	}
	defer n.Stop()
	n.Delegate("test.", authkit.DelegateOpts{Signed: true, PublishDS: true})
	nz, _, _ := n.Delegate("n3.test.", authkit.DelegateOpts{Signed: true, PublishDS: true, NSEC3: true})
	nz.Add("www.n3.test. 300 IN A 192.0.2.91")
	dir, _ := os.MkdirTemp("", "verif-aud12-")
	defer os.RemoveAll(dir)
	s, _ := pipe.NewResolverServer(pipe.ResolverOpts{RootAddr: n.RootSrv.Addr, RootKeys: []string{n.Root.Keys[0].RR.String()},
		DNSSEC: true, Dir: dir, Mapper: n.Mapper(), Mutate: func(cfg *config.Config) {
			cfg.RecursionFirewall.Mode = config.RecursionFirewallModeEnforce
			cfg.RecursionFirewall.MaxNSEC3Hashes = budget
			cfg.RecursionFirewall.MaxSignatureChecks = 64
		}})
	time.Sleep(300 * time.Millisecond)
	ask := func(name, client string) (*dns.Msg, uint32) {
		ctx := dnssec.EnsureNSEC3HashMemo(context.Background())
		q := mkq(name, dns.TypeA, true)
		q.IsEdns0().SetDo()
		sink := &pipe.Sink{Remote: pipe.Addr("udp", client, 40000)}
		s.ServeMsg(ctx, sink, q)
		var m *dns.Msg
		if len(sink.Writes) > 0 {
			m = new(dns.Msg)
			_ = m.Unpack(sink.Writes[len(sink.Writes)-1])
		}
		opt := dnssec.NSEC3HashMemoFromContextScope(ctx, dnssec.NSEC3HashMemoScopeResolverOptional).WorkUsed() +
			dnssec.NSEC3HashMemoFromContextScope(ctx, dnssec.NSEC3HashMemoScopeCacheOptional).WorkUsed()
		return m, opt
	}
	m1, o1 := ask("nope.n3.test.", "203.0.113.9")
	if m1 == nil || m1.Rcode != dns.RcodeNameError {
		t.Skipf("precondition: first client did not get NXDOMAIN: %s", sig(m1))
	}
	m2, o2 := ask("a.b.c.d.e.f.g.h.i.j.k.l.n3.test.", "203.0.113.10")
	t.Logf("client 1: %s optional NSEC3 hashes=%d; client 2: %s optional NSEC3 hashes=%d (max_nsec3_hashes=%d, enforce)", sig(m1), o1, sig(m2), o2, budget)
	if o2 > budget {
		t.Errorf("WithinBudget: one request tree started %d NSEC3 hash operations outside the ledger with max_nsec3_hashes=%d in enforce mode; reply %s", o2, budget, sig(m2))
	}
}
