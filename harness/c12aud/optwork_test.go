package c12aud

// OptWork.tla on the real full pipeline (C12: "the ... DNSSEC operations spent on one request tree ... never exceed
// the configured budgets").  Every Init choice of the model (max_nsec3_hashes x how deep below the NSEC3 zone the
// second client's name lies) is one case: client 1 asks a non-existent name of a really signed NSEC3 zone (validated
// NXDOMAIN, the proof is retained by the aggressive-denial cache), client 2 asks a name `depth` labels below the zone.
// Its request tree is answered by synthesis from the retained proof; the NSEC3 hash operations the tree STARTED are read
// from the production per-tree memo (dnssec.NSEC3HashMemo, scopes required / resolver-optional / cache-optional) passed
// in as the request's parent context.  Verdict WithinBudget: in enforce mode their sum is at most max_nsec3_hashes.

import (
	"context"
	"fmt"
	"os"
	"strings"
	"testing"
	"time"

	"github.com/miekg/dns"
	"github.com/semihalev/sdns/config"
	"github.com/semihalev/sdns/middleware/resolver/dnssec"
	"github.com/semihalev/sdns/verifharness/authkit"
	"github.com/semihalev/sdns/verifharness/pipe"
	"github.com/semihalev/sdns/verifharness/vh"
)

type optIn struct {
	Cases []optCase `json:"cases"`
}

type optCase struct {
	Max   uint32 `json:"max"`   // max_nsec3_hashes
	Depth int    `json:"depth"` // labels of client 2's name below the zone
	Mode  string `json:"mode"`  // enforce | shadow | off
}

func TestOptWork(t *testing.T) {
	var in optIn
	vh.Input(t, &in)
	res := vh.NewResult()
	defer res.Write(t)
	for ci, c := range in.Cases {
		key := fmt.Sprintf("optwork/%s/max%d/depth%d", c.Mode, c.Max, c.Depth)
		res.Case(key)
		n, err := authkit.NewNet(true)
		if err != nil {
			res.Skip("authkit: %v", err)
			return
		}
		n.Delegate("test.", authkit.DelegateOpts{Signed: true, PublishDS: true})
		nz, _, _ := n.Delegate("n3.test.", authkit.DelegateOpts{Signed: true, PublishDS: true, NSEC3: true})
		nz.Add("www.n3.test. 300 IN A 192.0.2.91")
		dir, _ := os.MkdirTemp("", "verif-optwork-")
		s, _ := pipe.NewResolverServer(pipe.ResolverOpts{RootAddr: n.RootSrv.Addr, RootKeys: []string{n.Root.Keys[0].RR.String()},
			DNSSEC: true, Dir: dir, Mapper: n.Mapper(), Mutate: func(cfg *config.Config) {
				cfg.RecursionFirewall.Mode = config.RecursionFirewallMode(c.Mode)
				cfg.RecursionFirewall.MaxNSEC3Hashes = c.Max
				cfg.RecursionFirewall.MaxSignatureChecks = 64
			}})
		time.Sleep(300 * time.Millisecond) // root priming
		ask := func(name, client string) (*dns.Msg, [3]uint32) {
			ctx := dnssec.EnsureNSEC3HashMemo(context.Background())
			q := mkq(name, dns.TypeA, true)
			q.IsEdns0().SetDo()
			sink := &pipe.Sink{Remote: pipe.Addr("udp", client, 40000)}
			s.ServeMsg(ctx, sink, q)
			var m *dns.Msg
			if len(sink.Writes) > 0 {
				m = new(dns.Msg)
				_ = m.Unpack(sink.Writes[len(sink.Writes)-1])
			}
			var used [3]uint32
			for i, sc := range []dnssec.NSEC3HashMemoScope{dnssec.NSEC3HashMemoScopeRequired, dnssec.NSEC3HashMemoScopeResolverOptional, dnssec.NSEC3HashMemoScopeCacheOptional} {
				used[i] = dnssec.NSEC3HashMemoFromContextScope(ctx, sc).WorkUsed()
			}
			return m, used
		}
		m1, u1 := ask(fmt.Sprintf("nope%d.n3.test.", ci), "203.0.113.9")
		labels := make([]string, c.Depth)
		for i := range labels {
			labels[i] = string(rune('a' + i%26))
		}
		name2 := strings.Join(labels, ".") + ".n3.test."
		m2, u2 := ask(name2, "203.0.113.10")
		os.RemoveAll(dir)
		n.Stop()
		if m1 == nil || m2 == nil {
			res.Skip("%s: a client got no reply", key)
			continue
		}
		res.Count("optwork_first_"+strings.ToLower(dns.RcodeToString[m1.Rcode]), 1)
		res.Count("optwork_second_"+strings.ToLower(dns.RcodeToString[m2.Rcode]), 1)
		for who, u := range map[string][3]uint32{"client 1": u1, "client 2": u2} {
			total := u[0] + u[1] + u[2]
			if u[1]+u[2] > 0 {
				res.Count("optwork_trees_with_optional_hashes", 1)
			}
			if c.Mode == "enforce" && total > c.Max {
				res.Count("optwork_over_budget_trees", 1)
				side := "cache"
				if u[1] > u[2] {
					side = "resolver"
				}
				res.Violate("optwork/WithinBudget/optional-"+side,
					fmt.Sprintf("[optional NSEC3 work] enforce, max_nsec3_hashes=%d, second name %d labels below n3.test.: the request tree of %s started %d NSEC3 hash operations "+
						"(required %d, resolver-optional %d, cache-optional %d): the optional spenders count against a private allowance of 32 each and never debit the "+
						"request ledger; replies: client 1 %s, client 2 %s", c.Max, c.Depth, who, total, u[0], u[1], u[2], sig(m1), sig(m2)),
					map[string]any{"driver": "optwork", "case": c})
			}
			if c.Mode == "enforce" && total <= c.Max {
				res.Count("optwork_within_budget_trees", 1)
			}
		}
	}
}
