package c10

// A reply the kernel refuses in the middle of a transmit batch.  A raw socket
// (the rig runs with CAP_NET_RAW) sends a UDP datagram whose SOURCE ADDRESS is
// 203.0.113.7 (own IP header) to the listener on 127.0.0.1: the kernel delivers
// it, but a reply from a loopback-bound socket to a non-loopback address fails
// with EINVAL:
// sendmmsg stops at that message, the engine falls back to sending the rest
// of the batch one by one.  Every other client of the burst must still get
// exactly one reply (C10: a request that ends without a reply never causes a
// leftover reply to be sent to someone else; C11: exactly one reply, never
// two).  The phase runs after the traced load with the trace hook off: the
// ownership-walk trace books "armed for sendmmsg" as a send and cannot know
// which messages of a refused batch left.

import (
	"encoding/binary"
	"fmt"
	"math/rand"
	"net"
	"sync"
	"syscall"
	"time"

	"github.com/miekg/dns"
	"github.com/semihalev/sdns/server"
	"github.com/semihalev/sdns/verifharness/vh"
)

// batchWatch counts, from the engine's own trace points, how the refused destinations met the transmit batches:
// a run of sendBatch events is one sendmmsg group; a sendDirect for a slab armed in the current group is the
// per-reply fallback after a refusal.
type batchWatch struct {
	mu                                  sync.Mutex
	group                               []uintptr
	groups, multi, fallbacks, afterSent int
}

func (b *batchWatch) fn(e *server.VerifUDPEvent) {
	b.mu.Lock()
	defer b.mu.Unlock()
	switch evNames[e.Ev] {
	case "sendBatch":
		b.group = append(b.group, e.Slab)
	case "sendDirect":
		for i, s := range b.group {
			if s == e.Slab {
				b.fallbacks++
				if i > 0 {
					b.afterSent++ // at least one earlier message of the group had been armed ahead of it
				}
				break
			}
		}
	case "release", "take":
		if len(b.group) > 0 {
			b.groups++
			if len(b.group) > 1 {
				b.multi++
			}
			b.group = b.group[:0]
		}
	}
}

func poisonPhase(in *engInput, res *vh.Result, rng *rand.Rand, mk func(int) *udpClient, idx int, uaddr *net.UDPAddr, rounds int) {
	bad, err := syscall.Socket(syscall.AF_INET, syscall.SOCK_RAW, syscall.IPPROTO_RAW) // implies IP_HDRINCL
	if err != nil {
		res.Count("poison_unavailable", 1)
		return
	}
	defer syscall.Close(bad)
	var dst syscall.SockaddrInet4
	copy(dst.Addr[:], uaddr.IP.To4())
	fromBroadcast := func(payload []byte) []byte {
		b := make([]byte, 28+len(payload))
		b[0], b[8], b[9] = 0x45, 64, 17 // IPv4, 5 words; TTL; UDP (length and checksum are the kernel's)
		binary.BigEndian.PutUint16(b[2:], uint16(len(b)))
		copy(b[12:16], []byte{203, 0, 113, 7})     // source: not a loopback address
		copy(b[16:20], uaddr.IP.To4())
		binary.BigEndian.PutUint16(b[20:], 4242) // an ordinary source port
		binary.BigEndian.PutUint16(b[22:], uint16(uaddr.Port))
		binary.BigEndian.PutUint16(b[24:], uint16(8+len(payload)))
		copy(b[28:], payload) // UDP checksum 0: none (IPv4)
		return b
	}
	const ngood = 6
	var good []*udpClient
	for i := 0; i < ngood; i++ {
		good = append(good, mk(idx))
	}
	defer func() {
		for _, c := range good {
			close(c.stop)
		}
		for _, c := range good {
			<-c.done
			_ = c.conn.Close()
		}
	}()
	next := 0
	span := good[0].idSpan
	alloc := func() uint16 {
		next++
		return uint16(good[0].idBase + (next-1)%span)
	}
	hit := func(id uint16, k int) *query {
		q := &query{id: id, kind: "hit", qtype: dns.TypeA, expect: expAnswer, sz: "small"}
		q.name = fmt.Sprintf("h-k%d.%s", k%8, zone)
		m := new(dns.Msg)
		m.SetQuestion(q.name, q.qtype)
		m.Id = id
		q.wire, _ = m.Pack()
		return q
	}
	var bw batchWatch
	server.SetVerifUDPTrace(bw.fn)
	defer func() {
		server.SetVerifUDPTrace(nil)
		res.Count("poison_tx_groups", bw.groups)
		res.Count("poison_tx_groups_of_several", bw.multi)
		res.Count("poison_fallback_sends", bw.fallbacks)
		res.Count("poison_fallback_sends_behind_others", bw.afterSent)
	}()
	for r := 0; r < rounds; r++ {
		// positions of the refused destinations inside the burst
		pois := map[int]bool{2 + rng.Intn(3): true}
		if rng.Intn(2) == 0 {
			pois[6] = true
		}
		type sent struct {
			c *udpClient
			q *query
		}
		var out []sent
		var wires [][]byte
		var from []*net.UDPConn // nil = the spoofing sender
		gi := 0
		for i := 0; i < 9; i++ {
			id := alloc()
			q := hit(id, rng.Intn(8))
			if pois[i] {
				wires, from = append(wires, fromBroadcast(q.wire)), append(from, nil)
				continue
			}
			c := good[gi%ngood]
			gi++
			c.mu.Lock()
			c.out[id] = q
			c.mu.Unlock()
			out = append(out, sent{c, q})
			wires, from = append(wires, q.wire), append(from, c.conn)
		}
		// back to back from one goroutine: they wait in the server's socket buffer together
		for i := range wires {
			if from[i] == nil {
				_ = syscall.Sendto(bad, wires[i], 0, &dst)
				continue
			}
			_, _ = from[i].WriteToUDP(wires[i], uaddr)
		}
		res.Count("poison_bursts", 1)
		ok := waitFor(400*time.Millisecond, func() bool {
			for _, s := range out {
				if s.q.got.Load() == 0 {
					return false
				}
			}
			return true
		})
		time.Sleep(40 * time.Millisecond) // a second copy needs a moment to arrive
		for _, s := range out {
			switch n := s.q.got.Load(); {
			case n == 0:
				res.Count("poison_good_unanswered", 1)
			case n == 1:
				res.Count("poison_good_answered_once", 1)
			}
		}
		_ = ok
	}
}
