package c10

// DoT / DoH / DoH3 / DoQ legs of C10: the same rig with the encrypted
// listeners bound on loopback under a self-generated certificate.  Each leg
// that cannot be brought up offline is reported as skipped (never faked).

import (
	"bytes"
	"context"
	"crypto/ecdsa"
	"crypto/elliptic"
	crand "crypto/rand"
	"crypto/tls"
	"crypto/x509"
	"crypto/x509/pkix"
	"encoding/binary"
	"encoding/json"
	"encoding/pem"
	"fmt"
	"io"
	"math/big"
	"math/rand"
	"net"
	"net/http"
	"os"
	"path/filepath"
	"runtime"
	"sync"
	"sync/atomic"
	"testing"
	"time"

	"github.com/quic-go/quic-go"
	"github.com/quic-go/quic-go/http3"
	"github.com/semihalev/sdns/config"
	"github.com/semihalev/sdns/server"
	"github.com/semihalev/sdns/verifharness/vh"
)

func selfSigned(dir string) (certFile, keyFile string, err error) {
	key, err := ecdsa.GenerateKey(elliptic.P256(), crand.Reader)
	if err != nil {
		return "", "", err
	}
	tmpl := &x509.Certificate{
		SerialNumber: big.NewInt(time.Now().UnixNano()),
		Subject:      pkix.Name{CommonName: "c10.verif.test"},
		NotBefore:    time.Now().Add(-time.Hour),
		NotAfter:     time.Now().Add(24 * time.Hour),
		KeyUsage:     x509.KeyUsageDigitalSignature,
		ExtKeyUsage:  []x509.ExtKeyUsage{x509.ExtKeyUsageServerAuth},
		DNSNames:     []string{"localhost"},
		IPAddresses:  []net.IP{net.IPv4(127, 0, 0, 1)},
	}
	der, err := x509.CreateCertificate(crand.Reader, tmpl, tmpl, &key.PublicKey, key)
	if err != nil {
		return "", "", err
	}
	kb, err := x509.MarshalECPrivateKey(key)
	if err != nil {
		return "", "", err
	}
	certFile, keyFile = filepath.Join(dir, "c10-cert.pem"), filepath.Join(dir, "c10-key.pem")
	if err = os.WriteFile(certFile, pem.EncodeToMemory(&pem.Block{Type: "CERTIFICATE", Bytes: der}), 0o600); err != nil {
		return "", "", err
	}
	err = os.WriteFile(keyFile, pem.EncodeToMemory(&pem.Block{Type: "EC PRIVATE KEY", Bytes: kb}), 0o600)
	return certFile, keyFile, err
}

// freePort finds a port free for both TCP and UDP on loopback.
func freePort() (int, error) {
	for try := 0; try < 50; try++ {
		l, err := net.Listen("tcp", "127.0.0.1:0")
		if err != nil {
			return 0, err
		}
		port := l.Addr().(*net.TCPAddr).Port
		pc, err := net.ListenPacket("udp", fmt.Sprintf("127.0.0.1:%d", port))
		_ = l.Close()
		if err == nil {
			_ = pc.Close()
			return port, nil
		}
	}
	return 0, fmt.Errorf("no port free for tcp+udp")
}

type secInput struct {
	Name      string     `json:"name"`
	Clients   int        `json:"clients"`
	Each      int        `json:"each"`
	TCPOut    string     `json:"tcpTraceOut"`
	OptCheck  bool       `json:"optCheck"`
	Sweep     int        `json:"sweep"`
	Scripts   []scriptIn `json:"scripts"`
	ScriptPar int        `json:"scriptPar"`
}

var exchMix = []string{"hit", "hit", "miss", "miss", "shared", "delay", "fallback", "silentTail", "panicTail",
	"panicHead", "writeHandoff", "big", "huge", "huge", "hugeMiss"}

type legStats struct {
	sent, answered, silentOK, errs, big atomic.Int64
}

// checkExchange evaluates one request/response transport exchange.
func checkExchange(res *vh.Result, leg string, in *secInput, q *query, body []byte, got bool, st *legStats) {
	st.sent.Add(1)
	res.Case(leg + "/" + q.kind)
	rep := map[string]any{"driver": "c10-secure", "leg": leg, "config": in,
		"query": map[string]any{"id": q.id, "kind": q.kind, "name": q.name, "qtype": q.qtype, "wire": fmt.Sprintf("%x", q.wire)},
		"reply": fmt.Sprintf("%x", body)}
	if !got {
		if q.expect == expNone {
			st.silentOK.Add(1)
		} else {
			st.errs.Add(1)
		}
		return
	}
	if q.expect == expNone {
		res.Violate(leg+"/silent-answered", fmt.Sprintf("[%s] %s: a %s query (decided in silence) drew a %d-byte DNS reply: % x",
			in.Name, leg, q.kind, len(body), body[:min(len(body), 48)]), rep)
		return
	}
	st.answered.Add(1)
	why := checkReply(q, body)
	if why != "" && why[:min(6, len(why))] != "rcode:" {
		res.Violate(leg+"/content", fmt.Sprintf("[%s] %s: reply to id %d (%s %s, %s): %s", in.Name, leg, q.id, q.kind, q.name, q.ep.kind(), why), rep)
	}
	if why == "" && q.sz != "small" && sizeClassOfLen(len(body)) == q.sz {
		st.big.Add(1)
	}
}

func TestSecureTransports(t *testing.T) {
	var in secInput
	vh.Input(t, &in)
	res := vh.NewResult()
	defer res.Write(t)
	seed := vh.Seed()

	dir, err := os.MkdirTemp(vh.Scratch(t), "c10tls-")
	if err != nil {
		t.Fatal(err)
	}
	certFile, keyFile, err := selfSigned(dir)
	if err != nil {
		res.Skip("all: cannot self-generate a certificate: %v", err)
		return
	}
	// the three ports are picked free and closed again before the server binds them, so another
	// process can take one in between: a leg that does not come up is retried on fresh ports
	var rg *rig
	var pTLS, pDOH, pDOQ int
	allUp := func() bool {
		return rg.srv.HasListener("tls") && rg.srv.HasListener("doh") && rg.srv.HasListener("doh3") && rg.srv.HasListener("doq")
	}
	for attempt := 0; attempt < 4; attempt++ {
		var e1, e2, e3 error
		pTLS, e1 = freePort()
		pDOH, e2 = freePort()
		pDOQ, e3 = freePort()
		if e1 != nil || e2 != nil || e3 != nil {
			res.Skip("all: no free loopback ports")
			return
		}
		rg, err = newRig(server.VerifC10Opts{UDPSockets: 1, UDPSpare: 0, TCPConns: 256, TCPSmall: 2, TCPLarge: 1}, 1, 1,
			func(c *config.Config) {
				c.BindTLS = fmt.Sprintf("127.0.0.1:%d", pTLS)
				c.BindDOH = fmt.Sprintf("127.0.0.1:%d", pDOH)
				c.BindDOQ = fmt.Sprintf("127.0.0.1:%d", pDOQ)
				c.TLSCertificate, c.TLSPrivateKey = certFile, keyFile
			})
		if err != nil {
			res.Skip("all: rig: %v", err)
			t.Fatalf("rig: %v", err)
		}
		waitFor(5*time.Second, allUp)
		if allUp() || attempt == 3 {
			break
		}
		rg.stop()
	}
	up := map[string]bool{}
	for _, p := range []string{"tls", "doh", "doh3", "doq"} {
		up[p] = rg.srv.HasListener(p)
		if !up[p] {
			res.Skip("%s: listener did not come up on loopback", p)
		}
	}
	time.Sleep(100 * time.Millisecond)
	baseG := runtime.NumGoroutine()
	tlsConf := func(alpn ...string) *tls.Config {
		return &tls.Config{InsecureSkipVerify: true, NextProtos: alpn} //nolint:gosec // loopback test server, self-signed
	}

	optCheck.Store(in.OptCheck)
	nClients := 5*in.Clients + 4
	idSpan := 65536 / nClients
	var idBlock atomic.Int64
	newAlloc := func() (int, func() (uint16, bool)) {
		blk := int(idBlock.Add(1)) - 1
		next := 0
		return blk, func() (uint16, bool) {
			if next >= idSpan {
				return 0, false
			}
			next++
			return uint16(blk*idSpan + next - 1), true
		}
	}

	var wg sync.WaitGroup
	stats := map[string]*legStats{"dot": {}, "doh": {}, "doh3": {}, "doq": {}}
	var tc tcpCounters
	eng := &engInput{Name: in.Name, TCPFrames: 8, Sweep: in.Sweep, Scripts: in.Scripts, ScriptPar: in.ScriptPar}

	// the large / huge TXT answers, primed over plain TCP one exchange at a time
	prng := rand.New(rand.NewSource(seed*43 + 1))
	pblk, palloc := newAlloc()
	if why := primeBig(eng, res, prng, "tcp", func() (net.Conn, error) { return net.DialTimeout("tcp", rg.tcp, 3*time.Second) },
		pblk, func() (uint16, bool) { id, _ := palloc(); return id, true }, &tc); why != "" {
		res.Skip("all: priming the large/huge answers: %s", why)
	}
	dialTLS := func() (net.Conn, error) {
		d := &net.Dialer{Timeout: 3 * time.Second}
		return tls.DialWithDialer(d, "tcp", fmt.Sprintf("127.0.0.1:%d", pTLS), tlsConf())
	}
	wrap := func(a func() (uint16, bool), span int) func() (uint16, bool) {
		n := 0
		base, _ := a()
		return func() (uint16, bool) { n++; return base + uint16((n-1)%(span-1)), true }
	}
	if up["tls"] && in.Sweep > 0 {
		blk, alloc := newAlloc()
		sweepStream(eng, res, rand.New(rand.NewSource(seed*43+3)), "dot", dialTLS, blk, wrap(alloc, idSpan), &tc)
	}
	if up["tls"] && len(in.Scripts) > 0 {
		blk, alloc := newAlloc()
		playScripts(eng, res, seed, "dot", dialTLS, blk, wrap(alloc, idSpan), &tc)
	}

	// ---- DoT: the stream driver over TLS ------------------------------------
	if up["tls"] {
		for i := 0; i < in.Clients; i++ {
			wg.Add(1)
			go func(i int) {
				defer wg.Done()
				rng := rand.New(rand.NewSource(seed*31 + int64(i)))
				_, alloc := newAlloc()
				addr := fmt.Sprintf("127.0.0.1:%d", pTLS)
				for cn := 0; cn < in.Each/4+1; cn++ {
					runStreamConn(eng, res, rng, "dot", func() (net.Conn, error) {
						d := &net.Dialer{Timeout: 3 * time.Second}
						return tls.DialWithDialer(d, "tcp", addr, tlsConf())
					}, i, cn, alloc, cn, &tc)
				}
			}(i)
		}
	}

	// ---- DoH (HTTP/2 or 1.1 over TLS) and DoH3 ------------------------------
	httpLeg := func(leg string, mk func() (http.RoundTripper, func())) {
		for i := 0; i < in.Clients; i++ {
			wg.Add(1)
			go func(i int) {
				defer wg.Done()
				rng := rand.New(rand.NewSource(seed*37 + int64(i)))
				blk, alloc := newAlloc()
				rt, closeRT := mk()
				defer closeRT()
				hc := &http.Client{Transport: rt, Timeout: 8 * time.Second}
				url := fmt.Sprintf("https://127.0.0.1:%d/dns-query", pDOH)
				var inner sync.WaitGroup
				for k := 0; k < in.Each; k++ {
					id, ok := alloc()
					if !ok {
						break
					}
					q := buildQueryOpt(rng, exchMix[rng.Intn(len(exchMix))], 2000+blk, k, k/4, id, true, "")
					do := func(q *query) {
						defer inner.Done()
						req, _ := http.NewRequest(http.MethodPost, url, bytes.NewReader(q.wire))
						req.Header.Set("Content-Type", "application/dns-message")
						resp, err := hc.Do(req)
						if err != nil {
							checkExchange(res, leg, &in, q, nil, false, stats[leg])
							return
						}
						body, _ := io.ReadAll(io.LimitReader(resp.Body, 70000))
						_ = resp.Body.Close()
						isDNS := resp.StatusCode == 200 && resp.Header.Get("Content-Type") == "application/dns-message"
						checkExchange(res, leg, &in, q, body, isDNS, stats[leg])
					}
					inner.Add(1)
					if k%3 == 0 {
						do(q) // sequential
					} else {
						go do(q) // multiplexed on the same connection
					}
				}
				inner.Wait()
			}(i)
		}
	}
	if up["doh"] {
		httpLeg("doh", func() (http.RoundTripper, func()) {
			tr := &http.Transport{TLSClientConfig: tlsConf("h2", "http/1.1"), ForceAttemptHTTP2: true, MaxIdleConnsPerHost: 4}
			return tr, tr.CloseIdleConnections
		})
	}
	if up["doh3"] {
		httpLeg("doh3", func() (http.RoundTripper, func()) {
			tr := &http3.Transport{TLSClientConfig: tlsConf("h3")}
			return tr, func() { _ = tr.Close() }
		})
	}

	// ---- DoQ: one stream per query, message id 0 -----------------------------
	if up["doq"] {
		for i := 0; i < in.Clients; i++ {
			wg.Add(1)
			go func(i int) {
				defer wg.Done()
				rng := rand.New(rand.NewSource(seed*41 + int64(i)))
				blk, _ := newAlloc()
				ctx, cancel := context.WithTimeout(context.Background(), 60*time.Second)
				defer cancel()
				conn, err := quic.DialAddr(ctx, fmt.Sprintf("127.0.0.1:%d", pDOQ), tlsConf("doq"), nil)
				if err != nil {
					stats["doq"].errs.Add(1)
					res.Skip("doq: dial failed: %v", err)
					return
				}
				defer func() { _ = conn.CloseWithError(0, "") }()
				var inner sync.WaitGroup
				for k := 0; k < in.Each; k++ {
					kind := exchMix[rng.Intn(len(exchMix))]
					if kind == "panicHead" {
						// the DoQ stream goroutine has no panic guard of its own (unlike the UDP/TCP engines and
						// net/http): a panic ahead of the recovery middleware would take the test process down
						kind = "panicTail"
					}
					q := buildQueryOpt(rng, kind, 3000+blk, k, k/4, 0, true, "")
					inner.Add(1)
					do := func(q *query) {
						defer inner.Done()
						sctx, scancel := context.WithTimeout(ctx, 8*time.Second)
						defer scancel()
						st, err := conn.OpenStreamSync(sctx)
						if err != nil {
							checkExchange(res, "doq", &in, q, nil, false, stats["doq"])
							return
						}
						_ = st.SetDeadline(time.Now().Add(8 * time.Second))
						_, _ = st.Write(frame(q.wire))
						_ = st.Close()
						data, _ := io.ReadAll(io.LimitReader(st, 70000))
						if len(data) < 2 {
							checkExchange(res, "doq", &in, q, nil, false, stats["doq"])
							return
						}
						l := int(binary.BigEndian.Uint16(data))
						if l != len(data)-2 {
							res.Violate("doq/framing", fmt.Sprintf("[%s] doq: stream carries %d bytes behind a length prefix of %d", in.Name, len(data)-2, l),
								map[string]any{"driver": "c10-secure", "leg": "doq", "stream": fmt.Sprintf("%x", data)})
							return
						}
						checkExchange(res, "doq", &in, q, data[2:], true, stats["doq"])
					}
					if k%3 == 0 {
						do(q)
					} else {
						go do(q)
					}
				}
				inner.Wait()
			}(i)
		}
	}
	wg.Wait()

	quiesced := waitFor(15*time.Second, rg.srv.Quiesced)
	settled := waitFor(10*time.Second, func() bool {
		st := server.VerifC10Snapshot(rg.srv)
		return st.TCPActive == 0 && st.TCPSmallFree == st.TCPSmallCap && st.TCPLargeFree == st.TCPLargeCap
	})
	if !quiesced || !settled {
		st := server.VerifC10Snapshot(rg.srv)
		res.Violate("after/quiescence", fmt.Sprintf("[%s] after the encrypted-transport load the server did not return to quiescence: %+v", in.Name, st),
			map[string]any{"driver": "c10-secure", "config": in})
	}
	gOK := waitFor(4*time.Second, func() bool { return runtime.NumGoroutine() <= baseG })
	if !gOK {
		// client-side QUIC/HTTP goroutines of this test and the servers' idle keep-alive connections are in
		// the count: reported, not judged
		res.Count("goroutines_above_base", runtime.NumGoroutine()-baseG)
	}
	for leg, st := range stats {
		res.Count(leg+"_sent", int(st.sent.Load()))
		res.Count(leg+"_answered", int(st.answered.Load()))
		res.Count(leg+"_silent_ok", int(st.silentOK.Load()))
		res.Count(leg+"_errors", int(st.errs.Load()))
		res.Count(leg+"_big_replies_ok", int(st.big.Load()))
	}
	res.Count("dot_conns", int(tc.conns.Load()))
	res.Count("dot_frames", int(tc.frames.Load()))
	res.Count("dot_expected", int(tc.expected.Load()))
	res.Count("dot_answered", int(tc.answered.Load()))
	res.Count("stream_big_replies_ok", int(tc.bigOK.Load()))
	if n := bareOPT.Load(); n > 0 {
		res.Count("opt_in_reply_to_optless_query", int(n))
		res.DriftNote("%d replies carry a bare OPT although the query had none, e.g. %v", n, bareOPTExample.Load())
	}
	if in.TCPOut != "" {
		f, err := os.OpenFile(in.TCPOut, os.O_CREATE|os.O_WRONLY|os.O_APPEND, 0o644)
		if err == nil {
			enc := json.NewEncoder(f)
			for i := range tc.obs {
				_ = enc.Encode(&tc.obs[i])
			}
			_ = f.Close()
		}
	}
	res.Sample(map[string]any{"config": in.Name, "listeners": up})
	if !rg.stop() {
		res.DriftNote("graceful shutdown did not complete")
	}
}
