package c10

// C10 engine driver: the real server.Server on loopback UDP + TCP sockets with
// tiny ingress limits, the real default chain up to the cache and a scripted
// tail whose answers encode the question.  Many concurrent clients (distinct
// source ports / connections) send mixes of hits, unique and shared misses,
// slow misses, malformed / QR / foreign-opcode / bad-count / bad-body packets,
// names that make the tail stay silent or panic and names that panic ahead of
// the recovery middleware.  Every client checks the byte provenance of every
// datagram / frame it receives.  The engine's verif trace hook is recorded
// (NDJSON) and validated by Trace_UdpJob.tla afterwards.

import (
	"bytes"
	"crypto/sha256"
	"encoding/binary"
	"encoding/json"
	"errors"
	"fmt"
	"io"
	"math/rand"
	"net"
	"os"
	"runtime"
	"strings"
	"sync"
	"sync/atomic"
	"testing"
	"time"

	"github.com/miekg/dns"
	"github.com/semihalev/sdns/server"
	"github.com/semihalev/sdns/verifharness/vh"
)

type engInput struct {
	Name          string `json:"name"`
	Mode          string `json:"mode"` // batch | mixed | portable | retiretx
	Workers       int    `json:"workers"`
	Queue         int    `json:"queue"`
	Sockets       int    `json:"sockets"`
	Spare         int64  `json:"spare"`
	TCPSmall      int    `json:"tcpSmall"`
	TCPLarge      int    `json:"tcpLarge"`
	UDPClients    int    `json:"udpClients"`
	TCPClients    int    `json:"tcpClients"`
	Rounds        int    `json:"rounds"`
	Burst         int    `json:"burst"`
	TCPConnsEach  int    `json:"tcpConnsEach"`
	TCPFrames     int    `json:"tcpFrames"`
	TraceOut      string `json:"traceOut"`
	TCPTraceOut   string `json:"tcpTraceOut"`
	TraceLimit    int    `json:"traceLimit"`
	Perturb       bool   `json:"perturb"`
	Load          int    `json:"load"`
	FallbackRound int    `json:"fallbackRound"`
	// C10 extensions: the OPT provenance predicate, the hygiene sweep (cookie
	// queries, then cookie-less ones, over every slab) and the TLC-enumerated
	// size-class / EDNS scripts played on stream connections
	OptCheck  bool       `json:"optCheck"`
	Sweep     int        `json:"sweep"`
	Scripts   []scriptIn `json:"scripts"`
	// bursts with a destination the kernel refuses (reply to the loopback broadcast address), after the traced load
	Poison int `json:"poison"`
	ScriptPar int        `json:"scriptPar"`
	// gap-closing dimensions (gap_test.go): the flags-word predicate with AD=1 / failure-cache names in the mixes and
	// the sweep; datagrams larger than the slab's RX buffer in the UDP load; pipelines on connections that are not read
	HdrCheck    bool      `json:"hdrCheck"`
	Oversize    bool      `json:"oversize"`
	Stalls      []stallIn `json:"stalls"`
	StallFrames int       `json:"stallFrames"`
	StallHoldMs int       `json:"stallHoldMs"`
}

// scriptIn is one behaviour of TcpConn.tla's ScriptSpec, projected: the frames
// the client pipelines, each with the size class of its reply, its EDNS shape,
// and whether the server had blocked (everything flushed) before it arrived.
type scriptIn struct {
	Fam    string        `json:"fam"`
	Frames []scriptFrame `json:"frames"`
}

type scriptFrame struct {
	Kind string `json:"kind"` // hit | miss ("" = hit)
	Sz   string `json:"sz"`   // small | large | huge
	Opt  string `json:"opt"`  // none | plain | cookie
	Brk  bool   `json:"brk"`  // written only after every earlier reply arrived
}

const (
	expNone = iota
	expAnswer
	expServfail
	expNotimp
	expFormerr
)

type query struct {
	id     uint16
	kind   string
	name   string
	qtype  uint16
	expect int
	wire   []byte
	opt    bool
	got    atomic.Int32
	// what the query's own OPT carried (the only source a reply's OPT may draw on)
	ep optProfile
	// sz is the size class of the answer f(question) makes
	sz string
	// exact > 0: the reply body is meant to be exactly this long (edge scripts)
	exact int
}

// optProfile is the EDNS a query carries.
type optProfile struct {
	has  bool
	ck   []byte // 8-byte client cookie unique to (client, query); nil = none
	do   bool
	nsid bool
	ka   bool // edns-tcp-keepalive (stream transports only)
	size uint16
	pad  int
}

func (p optProfile) kind() string {
	switch {
	case !p.has:
		return "none"
	case p.ck != nil:
		return "cookie"
	}
	return "plain"
}

// clientCookie is the client cookie of (client, query): 8 bytes derived from the
// client id, the query id and the query's sequence number -- nobody else sends them.
func clientCookie(client int, id uint16, seq int) []byte {
	h := sha256.Sum256([]byte(fmt.Sprintf("c10-cookie|%d|%d|%d", client, id, seq)))
	return h[:8]
}

// ownUDPSize is an advertised size no server constant shares: odd, 1233..4093.
func ownUDPSize(client int, id uint16, seq int) uint16 {
	h := sha256.Sum256([]byte(fmt.Sprintf("c10-size|%d|%d|%d", client, id, seq)))
	return uint16(1233+(int(binary.BigEndian.Uint16(h[:2]))%1431)*2) | 1
}

// pickOpt draws the EDNS shape of one query: a third without OPT, a third with a
// cookie-less OPT, a third with a client cookie; DO / NSID / keepalive / sizes mixed in.
func pickOpt(rng *rand.Rand, client int, id uint16, seq int, stream bool, shape string) optProfile {
	var p optProfile
	if shape == "" {
		shape = []string{"none", "plain", "cookie"}[rng.Intn(3)]
	}
	if shape == "none" {
		return p
	}
	p.has = true
	if shape == "cookie" {
		p.ck = clientCookie(client, id, seq)
	}
	p.do = rng.Intn(5) == 0
	p.nsid = rng.Intn(4) == 0
	p.ka = stream && rng.Intn(5) == 0
	switch rng.Intn(4) {
	case 0:
		p.size = 1232
	case 1:
		p.size = []uint16{512, 1400, 4096}[rng.Intn(3)]
	default:
		p.size = ownUDPSize(client, id, seq)
	}
	return p
}

func (p optProfile) apply(m *dns.Msg, rng *rand.Rand) {
	if !p.has {
		return
	}
	opt := &dns.OPT{Hdr: dns.RR_Header{Name: ".", Rrtype: dns.TypeOPT}}
	opt.SetUDPSize(p.size)
	if p.do {
		opt.SetDo()
	}
	if p.pad > 0 {
		opt.Option = append(opt.Option, &dns.EDNS0_PADDING{Padding: make([]byte, p.pad)})
	}
	if p.ck != nil {
		ck := fmt.Sprintf("%x", p.ck)
		if rng.Intn(4) == 0 {
			// a client echoing some server half it remembers: still this query's own bytes
			h := sha256.Sum256(p.ck)
			ck += fmt.Sprintf("%x", h[:8+8*rng.Intn(4)])
		}
		opt.Option = append(opt.Option, &dns.EDNS0_COOKIE{Code: dns.EDNS0COOKIE, Cookie: ck})
	}
	if p.nsid {
		opt.Option = append(opt.Option, &dns.EDNS0_NSID{Code: dns.EDNS0NSID})
	}
	if p.ka {
		opt.Option = append(opt.Option, &dns.EDNS0_TCP_KEEPALIVE{Code: dns.EDNS0TCPKEEPALIVE})
	}
	m.Extra = append(m.Extra, opt)
}

// optCheck switches the OPT provenance predicate on (C10 runs; the C11 engine walk judges its own).
var optCheck atomic.Bool

// bareOPT counts replies that carry an OPT although their query had none, with
// nothing in it that stems from any request (no option, the server's own size):
// not a provenance failure -- the reply holds no byte of anybody else -- but a
// difference worth reporting (RFC 6891 7: no OPT unless the query had one).
var (
	bareOPT        atomic.Int64
	bareOPTExample atomic.Value
)

// checkOPT is ReplyOptIsOwn on one reply: everything in its OPT derives from the
// query it answers -- never from a request served earlier on the same recycled
// job.  A COOKIE option only if this query carried one, starting with this
// query's own client cookie; NSID / edns-tcp-keepalive only if this query asked;
// never the (distinctive) size another query advertised.
func checkOPT(q *query, b []byte) string {
	f, ok := wireOPT(b)
	if !ok || !f.has {
		return ""
	}
	if f.udp != q.ep.size && f.udp&1 == 1 && f.udp >= 1233 && f.udp <= 4095 {
		return fmt.Sprintf("reply OPT advertises %d bytes: the size another query advertised (this one advertised %d)", f.udp, q.ep.size)
	}
	if !q.ep.has && len(f.opts) == 0 {
		if bareOPT.Add(1) == 1 {
			bareOPTExample.Store(fmt.Sprintf("%s %s (no OPT in the query) -> reply rcode %d with OPT udp=%d do=%v", q.kind, q.name, b[3]&0x0F, f.udp, f.do))
		}
	}
	for _, o := range f.opts {
		switch o.code {
		case dns.EDNS0COOKIE:
			if q.ep.ck == nil {
				return fmt.Sprintf("COOKIE option %x in the reply to a query that carried no cookie (%s): the client half is somebody else's", o.data,
					map[bool]string{true: "an OPT without one", false: "no OPT at all"}[q.ep.has])
			}
			if len(o.data) < 8 || !bytes.Equal(o.data[:8], q.ep.ck) {
				return fmt.Sprintf("COOKIE option %x does not start with this query's client cookie %x", o.data, q.ep.ck)
			}
		case dns.EDNS0NSID:
			if !q.ep.nsid {
				return fmt.Sprintf("NSID option %q in the reply to a query that did not ask for it", o.data)
			}
		case dns.EDNS0TCPKEEPALIVE:
			if !q.ep.ka {
				return "edns-tcp-keepalive option in the reply to a query that did not send one"
			}
		}
	}
	return ""
}

// buildQuery makes one packet of the given kind for (client, seq) on a datagram transport.
func buildQuery(rng *rand.Rand, kind string, client, seq, round int, id uint16) *query {
	return buildQueryOpt(rng, kind, client, seq, round, id, false, "")
}

// buildQueryOpt makes one packet of the given kind; shape fixes its EDNS shape
// (none | plain | cookie), "" draws one.
func buildQueryOpt(rng *rand.Rand, kind string, client, seq, round int, id uint16, stream bool, shape string) *query {
	q := &query{id: id, kind: kind, qtype: dns.TypeA, expect: expAnswer}
	if rng.Intn(4) == 0 {
		q.qtype = dns.TypeTXT
	}
	uniq := func(p string) string { return fmt.Sprintf("%s-c%d-q%d.%s", p, client, seq, zone) }
	switch kind {
	case "hit":
		q.name = fmt.Sprintf("h-k%d.%s", rng.Intn(8), zone)
	case "adhit": // a name the tail validates: its answer carries AD=1 (the query sets AD, asking for it)
		q.name = fmt.Sprintf("a-k%d.%s", rng.Intn(4), zone)
	case "failhit": // a name whose resolution fails: the first ask is recorded, the failure cache answers the rest
		q.name, q.expect = fmt.Sprintf("x-k%d.%s", rng.Intn(4), zone), expServfail
	case "oversize": // a well-formed query in a datagram larger than the slab's RX buffer: dropped by the reader
		q.name, q.expect = uniq("o"), expNone
	case "big": // a primed name whose TXT answer fits the drain buffer only when it is empty
		q.name, q.qtype = fmt.Sprintf("b-k%d.%s", rng.Intn(4), zone), dns.TypeTXT
	case "huge": // a primed name whose TXT answer is larger than the whole drain buffer
		q.name, q.qtype = fmt.Sprintf("g-k%d.%s", rng.Intn(4), zone), dns.TypeTXT
	case "hugeMiss":
		q.name, q.qtype = uniq("g"), dns.TypeTXT
	case "miss":
		q.name = uniq("m")
	case "shared":
		q.name = fmt.Sprintf("s-r%d-k%d.%s", round, rng.Intn(2), zone)
	case "delay":
		q.name = uniq("d")
	case "fallback":
		q.name = uniq("f")
	case "large":
		q.name = uniq("l")
	case "silentTail":
		q.name, q.expect = uniq("st"), expNone
	case "panicTail":
		q.name, q.expect = uniq("pt"), expServfail
	case "panicHead":
		q.name, q.expect = uniq("ph"), expNone
	case "writeHandoff":
		q.name = uniq("wh")
	case "qr":
		q.name, q.expect = uniq("m"), expNone
	case "badop":
		q.name, q.expect = uniq("m"), expNotimp
	case "badcnt":
		q.name, q.expect = uniq("m"), expFormerr
	case "badbody":
		q.name, q.expect = uniq("m"), expFormerr
	case "malformed":
		q.expect = expNone
		n := 1 + rng.Intn(11)
		q.wire = make([]byte, n)
		rng.Read(q.wire)
		if n >= 2 {
			binary.BigEndian.PutUint16(q.wire, id)
		}
		return q
	default:
		panic("unknown kind " + kind)
	}
	m := new(dns.Msg)
	m.SetQuestion(q.name, q.qtype)
	m.Id = id
	m.AuthenticatedData = kind == "adhit"
	q.sz = sizeClassOfAnswer(q.name, q.qtype)
	if kind == "oversize" {
		q.ep = optProfile{has: true, size: 1232, pad: 4200 + rng.Intn(600)}
	} else if kind == "large" {
		// a query frame of the large job class: 2200 bytes of padding in its OPT
		if shape == "" || shape == "none" {
			shape = []string{"plain", "cookie"}[rng.Intn(2)]
		}
		q.ep = pickOpt(rng, client, id, seq, stream, shape)
		q.ep.pad = 2200
	} else {
		q.ep = pickOpt(rng, client, id, seq, stream, shape)
	}
	q.ep.apply(m, rng)
	q.opt = q.ep.has
	if kind == "fallback" {
		// a non-OPT additional record: not strict-path eligible, decoded fallback
		m.Extra = append(m.Extra, &dns.A{Hdr: dns.RR_Header{Name: "x." + zone, Rrtype: dns.TypeA,
			Class: dns.ClassINET, Ttl: 1}, A: net.IPv4(192, 0, 2, 9)})
	}
	b, err := m.Pack()
	if err != nil {
		panic(err)
	}
	switch kind {
	case "qr":
		b[2] |= 0x80
	case "badop":
		b[2] = (b[2] &^ 0x78) | (2 << 3) // STATUS
	case "badcnt":
		binary.BigEndian.PutUint16(b[4:], 2)
	case "badbody":
		b = b[:12+3] // accepted header, truncated question
	}
	q.wire = b
	return q
}

// checkReply evaluates the C10 predicate on one received message for query q.
// "" = the bytes are exactly the reply this query may receive.
func checkReply(q *query, b []byte) string {
	if len(b) < 12 {
		return fmt.Sprintf("runt reply of %d bytes", len(b))
	}
	if binary.BigEndian.Uint16(b) != q.id {
		return "reply id differs"
	}
	if b[2]&0x80 == 0 {
		return "reply without QR"
	}
	if hdrCheck.Load() {
		if why := checkHeader(q, b); why != "" {
			return why
		}
	}
	rcode := int(b[3] & 0x0F)
	switch q.expect {
	case expNotimp, expFormerr:
		want := dns.RcodeFormatError
		if q.expect == expNotimp {
			want = dns.RcodeNotImplemented
		}
		if len(b) != 12 {
			return fmt.Sprintf("in-place rejection carries %d bytes, not a bare header", len(b))
		}
		for _, x := range b[4:12] {
			if x != 0 {
				return "in-place rejection with non-zero section counts"
			}
		}
		if rcode != want {
			return fmt.Sprintf("rejection rcode %d, want %d", rcode, want)
		}
		if (b[2]>>3)&0xF != (q.wire[2]>>3)&0xF {
			return "rejection does not echo the opcode"
		}
		return ""
	}
	if end := msgEnd(b); end != len(b) {
		return fmt.Sprintf("reply is not exactly one message: walk ends at %d of %d bytes", end, len(b))
	}
	m := new(dns.Msg)
	if err := m.Unpack(b); err != nil {
		return "reply does not unpack: " + err.Error()
	}
	if len(m.Question) != 1 || !strings.EqualFold(m.Question[0].Name, q.name) ||
		m.Question[0].Qtype != q.qtype || m.Question[0].Qclass != dns.ClassINET {
		return fmt.Sprintf("reply question %v is not the query's (%s type %d)", m.Question, q.name, q.qtype)
	}
	if len(m.Ns) != 0 {
		return "reply carries authority records nobody produced for this query"
	}
	for _, rr := range m.Extra {
		if _, ok := rr.(*dns.OPT); !ok {
			return "reply carries a non-OPT additional record: " + rr.String()
		}
	}
	if optCheck.Load() {
		if why := checkOPT(q, b); why != "" {
			return why
		}
	}
	if q.expect == expServfail {
		if rcode != dns.RcodeServerFailure || len(m.Answer) != 0 {
			return fmt.Sprintf("want a bare SERVFAIL, got rcode %d with %d answers", rcode, len(m.Answer))
		}
		return ""
	}
	if rcode != dns.RcodeSuccess {
		// a resolution failure is C11's business; it is still this client's own reply
		if len(m.Answer) != 0 {
			return "failure reply with answers"
		}
		return "rcode:" + dns.RcodeToString[rcode]
	}
	want := map[string]bool{}
	for _, rr := range answerRRs(q.name, q.qtype) {
		want[rrKey(rr)] = true
	}
	if len(m.Answer) != len(want) {
		return fmt.Sprintf("answer has %d records, f(question) has %d", len(m.Answer), len(want))
	}
	for _, rr := range m.Answer {
		if !want[rrKey(rr)] {
			return "answer record is not f(question): " + rr.String()
		}
		if rr.Header().Ttl > 300 {
			return "answer TTL above what the tail produced"
		}
		delete(want, rrKey(rr))
	}
	return ""
}

// ---------------------------------------------------------------------------

type udpClient struct {
	idx     int
	conn    *net.UDPConn
	mu      sync.Mutex
	out     map[uint16]*query
	all     []*query
	idBase  int
	idNext  int
	idSpan  int
	res     *vh.Result
	in      *engInput
	recvd   atomic.Int64
	strays  atomic.Int64
	server  *net.UDPAddr
	stop    chan struct{}
	done    chan struct{}
	rcFails atomic.Int64
}

func (c *udpClient) violate(key, what string, q *query, b []byte) {
	rep := map[string]any{"driver": "c10-engine", "config": c.in, "client": c.idx,
		"local": c.conn.LocalAddr().String(), "datagram": fmt.Sprintf("%x", b)}
	if q != nil {
		rep["query"] = map[string]any{"id": q.id, "kind": q.kind, "name": q.name, "qtype": q.qtype,
			"wire": fmt.Sprintf("%x", q.wire)}
	}
	c.res.Violate("udp/"+key, fmt.Sprintf("[%s] UDP client %d (%s): %s", c.in.Name, c.idx,
		c.conn.LocalAddr(), what), rep)
}

func (c *udpClient) receiver() {
	defer close(c.done)
	buf := make([]byte, 65535)
	for {
		_ = c.conn.SetReadDeadline(time.Now().Add(100 * time.Millisecond))
		n, from, err := c.conn.ReadFromUDP(buf)
		if err != nil {
			var ne net.Error
			if errors.As(err, &ne) && ne.Timeout() {
				select {
				case <-c.stop:
					return
				default:
					continue
				}
			}
			return
		}
		if from == nil || !from.IP.Equal(c.server.IP) || from.Port != c.server.Port {
			// not from the server under test: some other process of this (shared) machine wrote to a
			// port it knew from before; nothing the engine did
			c.strays.Add(1)
			continue
		}
		b := append([]byte(nil), buf[:n]...)
		c.recvd.Add(1)
		if n < 2 {
			c.violate("runt", fmt.Sprintf("received a %d-byte datagram nobody owes it", n), nil, b)
			continue
		}
		id := binary.BigEndian.Uint16(b)
		c.mu.Lock()
		q := c.out[id]
		c.mu.Unlock()
		if q == nil {
			owner := "nobody"
			if int(id) >= 0 && c.idSpan > 0 {
				owner = fmt.Sprintf("client %d's id range", int(id)/c.idSpan)
			}
			c.violate("foreign", fmt.Sprintf("received a datagram with id %d which is not one of its outstanding ids (%s): % x",
				id, owner, b[:min(n, 48)]), nil, b)
			continue
		}
		if q.expect == expNone {
			c.violate("silent-answered", fmt.Sprintf("a %s packet (decided in silence) drew a %d-byte datagram: % x",
				q.kind, n, b[:min(n, 48)]), q, b)
			continue
		}
		if q.got.Add(1) > 1 {
			c.violate("duplicate", fmt.Sprintf("query id %d (%s %s) was answered twice", q.id, q.kind, q.name), q, b)
			continue
		}
		if why := checkReply(q, b); why != "" {
			if strings.HasPrefix(why, "rcode:") {
				c.rcFails.Add(1)
				continue
			}
			c.violate("content", fmt.Sprintf("reply to id %d (%s %s): %s", q.id, q.kind, q.name, why), q, b)
		}
	}
}

var udpMix = []string{"hit", "hit", "hit", "miss", "miss", "shared", "shared", "delay", "fallback",
	"silentTail", "panicTail", "panicHead", "writeHandoff", "qr", "badop", "badcnt", "badbody",
	"malformed", "malformed"}

// udpMixHdr / tcpMixHdr: the mixes with the names whose replies differ in their flags word (C10 runs)
var udpMixHdr = append(append([]string{}, udpMix...), "adhit", "adhit", "failhit", "failhit")
var tcpMixHdr = append(append([]string{}, tcpMix...), "adhit", "adhit", "failhit", "failhit")

func (c *udpClient) run(rng *rand.Rand, server *net.UDPAddr, rounds, burst int, barrier func(int)) {
	seq := 0
	for r := 0; r < rounds; r++ {
		barrier(r)
		var sent []*query
		for i := 0; i < burst; i++ {
			if c.idNext >= c.idSpan {
				return
			}
			id := uint16(c.idBase + c.idNext)
			c.idNext++
			seq++
			mix := udpMix
			if c.in.HdrCheck {
				mix = udpMixHdr
			}
			kind := mix[rng.Intn(len(mix))]
			if c.in.Oversize && rng.Intn(16) == 0 {
				kind = "oversize"
			}
			// a silent packet right after a burst of answered ones is what a stale slab needs
			if i == burst-1 && rng.Intn(2) == 0 {
				kind = []string{"malformed", "qr", "silentTail", "panicHead"}[rng.Intn(4)]
			}
			q := buildQuery(rng, kind, c.idx, seq, r, id)
			c.mu.Lock()
			if len(q.wire) >= 2 && binary.BigEndian.Uint16(q.wire) == id {
				c.out[id] = q
			}
			c.all = append(c.all, q)
			c.mu.Unlock()
			sent = append(sent, q)
			_, _ = c.conn.WriteToUDP(q.wire, server)
			if rng.Intn(5) == 0 {
				runtime.Gosched()
			}
		}
		// wait for the round's replies (bounded: shed packets never answer)
		deadline := time.Now().Add(400 * time.Millisecond)
		for time.Now().Before(deadline) {
			pending := 0
			for _, q := range sent {
				if q.expect != expNone && q.got.Load() == 0 {
					pending++
				}
			}
			if pending == 0 {
				break
			}
			time.Sleep(2 * time.Millisecond)
		}
	}
}

// ---------------------------------------------------------------------------

type tcpScript struct {
	queries []*query
	ending  string // read-all | panicHead | shortFrame | disconnect
	// breaks[i]: query i is written only after every earlier answerable query was
	// answered (the server has flushed and blocked); nil = cut at random offsets
	breaks []bool
	label  string
	linger time.Duration
}

var tcpMix = []string{"hit", "hit", "miss", "miss", "shared", "delay", "fallback", "large", "large",
	"silentTail", "panicTail", "writeHandoff", "qr", "badop", "badcnt", "badbody",
	"hit", "big", "huge", "huge"}

func frame(b []byte) []byte {
	out := make([]byte, 2+len(b))
	binary.BigEndian.PutUint16(out, uint16(len(b)))
	copy(out[2:], b)
	return out
}

// runTCPConn plays one pipelined connection and checks: whole frames, one per
// answerable query, in query order, each carrying its own query's bytes.
func runTCPConn(in *engInput, res *vh.Result, rng *rand.Rand, addr string, client, connNo int,
	idAlloc func() (uint16, bool), round int, counters *tcpCounters) {
	runStreamConn(in, res, rng, "tcp", func() (net.Conn, error) { return net.DialTimeout("tcp", addr, 3*time.Second) },
		client, connNo, idAlloc, round, counters)
}

// runStreamConn is runTCPConn over any framed stream transport (plain TCP, DoT):
// a random mix of kinds, written in chunks cut at random offsets.
func runStreamConn(in *engInput, res *vh.Result, rng *rand.Rand, proto string, dial func() (net.Conn, error),
	client, connNo int, idAlloc func() (uint16, bool), round int, counters *tcpCounters) {
	sc := tcpScript{label: "random", linger: 60 * time.Millisecond}
	n := 1 + rng.Intn(in.TCPFrames)
	for i := 0; i < n; i++ {
		id, ok := idAlloc()
		if !ok {
			break
		}
		tmix := tcpMix
		if in.HdrCheck {
			tmix = tcpMixHdr
		}
		kind := tmix[rng.Intn(len(tmix))]
		if i > 0 && sc.queries[i-1].kind == "hit" && rng.Intn(3) == 0 {
			kind = "huge" // a small reply is staged when a huge one is produced
		}
		sc.queries = append(sc.queries, buildQueryOpt(rng, kind, 1000+client, connNo*100+i, round, id, true, ""))
	}
	sc.ending = []string{"read-all", "read-all", "read-all", "panicHead", "shortFrame", "disconnect"}[rng.Intn(6)]
	if sc.ending == "panicHead" {
		if id, ok := idAlloc(); ok {
			sc.queries = append(sc.queries, buildQueryOpt(rng, "panicHead", 1000+client, connNo*100+99, round, id, true, ""))
		}
	}
	playStream(in, res, rng, proto, dial, client, connNo, &sc, counters)
}

// scriptQueries turns one projected TcpConn.tla behaviour into queries: every
// frame a cache hit (so nothing flushes the drain buffer behind the model's
// back) whose answer is of the frame's size class, with the frame's EDNS shape.
func scriptQueries(rng *rand.Rand, frames []scriptFrame, client, connNo int, idAlloc func() (uint16, bool)) ([]*query, []bool) {
	var qs []*query
	var brk []bool
	for i, f := range frames {
		id, ok := idAlloc()
		if !ok {
			break
		}
		kind := "hit"
		if strings.HasPrefix(f.Sz, "e") {
			// an exact-size answer, primed, asked without OPT
			q := exactQuery(f.Sz, id)
			qs = append(qs, q)
			brk = append(brk, f.Brk && i > 0)
			continue
		}
		switch {
		case f.Kind == "adhit" || f.Kind == "failhit":
			kind = f.Kind
		case f.Kind == "miss":
			kind = "miss"
		case f.Sz == "large":
			kind = "big"
		case f.Sz == "huge":
			kind = "huge"
		}
		q := buildQueryOpt(rng, kind, 1000+client, connNo*100+i, 0, id, true, f.Opt)
		if q.ep.do {
			// DO is part of the cache identity: keep scripted frames on the primed entries
			q = rebuildWithoutDO(rng, q, 1000+client)
		}
		qs = append(qs, q)
		brk = append(brk, f.Brk && i > 0)
	}
	return qs, brk
}

func exactQuery(sz string, id uint16) *query {
	q := &query{id: id, kind: "exact", qtype: dns.TypeTXT, expect: expAnswer}
	q.name = fmt.Sprintf("%s-k0.%s", sz, zone)
	q.exact = exactBody(q.name)
	q.sz = sizeClassOfAnswer(q.name, q.qtype)
	m := new(dns.Msg)
	m.SetQuestion(q.name, q.qtype)
	m.Id = id
	q.wire, _ = m.Pack()
	return q
}

func rebuildWithoutDO(rng *rand.Rand, q *query, client int) *query {
	m := new(dns.Msg)
	m.SetQuestion(q.name, q.qtype)
	m.Id = q.id
	q.ep.do = false
	q.ep.apply(m, rng)
	q.wire, _ = m.Pack()
	return q
}

// playStream plays one connection and checks: whole frames, one per answerable
// query, in query order, each carrying its own query's bytes.
func playStream(in *engInput, res *vh.Result, rng *rand.Rand, proto string, dial func() (net.Conn, error),
	client, connNo int, sc *tcpScript, counters *tcpCounters) {
	type chunk struct {
		firstQ int
		b      []byte
	}
	var stream []byte
	var chunks []chunk
	for i, q := range sc.queries {
		stream = append(stream, frame(q.wire)...)
		if sc.breaks != nil {
			if i == 0 || sc.breaks[i] {
				chunks = append(chunks, chunk{firstQ: i})
			}
			chunks[len(chunks)-1].b = append(chunks[len(chunks)-1].b, frame(q.wire)...)
		}
	}
	if sc.ending == "shortFrame" {
		stream = append(stream, 0, 5, 1, 2, 3, 4, 5)
	}
	var expected []*query
	owedBefore := make([]int, len(sc.queries)+1) // answerable queries among the first i
	for i, q := range sc.queries {
		owedBefore[i+1] = owedBefore[i]
		if q.expect != expNone {
			expected = append(expected, q)
			owedBefore[i+1]++
		}
	}
	violate := func(key, what string, extra map[string]any) {
		rep := map[string]any{"driver": "c10-engine", "config": in.Name, "mode": in.Mode, "client": client, "conn": connNo,
			"ending": sc.ending, "script": sc.label, "seed": vh.Seed()}
		var qs []map[string]any
		for i, q := range sc.queries {
			e := map[string]any{"id": q.id, "kind": q.kind, "name": q.name, "qtype": q.qtype, "opt": q.ep.kind(),
				"sz": q.sz, "wire": fmt.Sprintf("%x", q.wire)}
			if sc.breaks != nil {
				e["afterBlock"] = sc.breaks[i]
			}
			qs = append(qs, e)
		}
		rep["queries"] = qs
		for k, v := range extra {
			rep[k] = v
		}
		res.Violate(proto+"/"+key, fmt.Sprintf("[%s] %s client %d conn %d (%s): %s", in.Name, strings.ToUpper(proto), client, connNo, sc.label, what), rep)
	}

	conn, err := dial()
	if err != nil {
		counters.dialFail.Add(1)
		return
	}
	defer conn.Close()
	counters.conns.Add(1)

	var got atomic.Int32
	rdone := make(chan struct{})
	wdone := make(chan struct{})
	go func() {
		defer close(wdone)
		write := func(b []byte) bool {
			_ = conn.SetWriteDeadline(time.Now().Add(5 * time.Second))
			_, err := conn.Write(b)
			return err == nil
		}
		if sc.breaks != nil {
			// scripted: one write per chunk; a chunk waits until every reply owed so far has arrived,
			// i.e. the server flushed and went back to blocking on this connection
			for ci, c := range chunks {
				if ci > 0 {
					dl := time.Now().Add(5 * time.Second)
					for int(got.Load()) < owedBefore[c.firstQ] && time.Now().Before(dl) {
						select {
						case <-rdone:
							return
						default:
						}
						time.Sleep(100 * time.Microsecond)
					}
					time.Sleep(300 * time.Microsecond)
				}
				if !write(c.b) {
					return
				}
			}
			return
		}
		// the pipelined stream in chunks cut at arbitrary offsets (half prefixes included)
		rest := stream
		for len(rest) > 0 {
			k := len(rest)
			if rng.Intn(3) != 0 {
				k = 1 + rng.Intn(len(rest))
			}
			if !write(rest[:k]) {
				return
			}
			rest = rest[k:]
			if rng.Intn(4) == 0 {
				time.Sleep(time.Duration(rng.Intn(1500)) * time.Microsecond)
			}
		}
	}()

	if sc.ending == "disconnect" {
		// the client leaves with replies pending; whatever it did read must still be right
		<-wdone
		time.Sleep(time.Duration(rng.Intn(3)) * time.Millisecond)
	}

	cut := false
	ob := tcpObs{Ev: "conn", Conn: fmt.Sprintf("%s/%s/c%d/n%d", in.Name, proto, client, connNo), Whole: true,
		Ending: sc.ending, Script: sc.label, Kinds: []string{}, IDs: []int{}, Sizes: []string{}, Opts: []string{},
		Cks: []string{}, Brk: []bool{}, WN: []bool{}, WK: []bool{}, Recv: []int{}, RSz: []string{}, ROpt: []bool{},
		RCk: []string{}, ROk: []bool{}, RN: []bool{}, RK: []bool{}}
	for i, q := range sc.queries {
		ob.Kinds = append(ob.Kinds, modelKind(q.kind))
		ob.IDs = append(ob.IDs, int(q.id))
		ob.Sizes = append(ob.Sizes, q.sz)
		ob.Opts = append(ob.Opts, q.ep.kind())
		ck := ""
		if q.ep.ck != nil {
			ck = fmt.Sprintf("%x", q.ep.ck)
		}
		ob.Cks = append(ob.Cks, ck)
		ob.Brk = append(ob.Brk, sc.breaks != nil && sc.breaks[i])
		ob.WN = append(ob.WN, q.ep.nsid)
		ob.WK = append(ob.WK, q.ep.ka)
	}
	defer func() {
		close(rdone)
		ob.Done = int(got.Load()) == len(expected)
		counters.mu.Lock()
		counters.obs = append(counters.obs, ob)
		counters.mu.Unlock()
	}()
	var hdr [2]byte
	for {
		g := int(got.Load())
		wait := 6 * time.Second
		if g == len(expected) {
			wait = sc.linger // nothing more is owed: listen briefly for an unsolicited frame
		}
		if sc.ending == "disconnect" {
			wait = 2 * time.Millisecond
		}
		_ = conn.SetReadDeadline(time.Now().Add(wait))
		if _, err := io.ReadFull(conn, hdr[:]); err != nil {
			var ne net.Error
			if errors.As(err, &ne) && ne.Timeout() {
				if g < len(expected) && sc.ending != "disconnect" {
					counters.stalled.Add(1)
				}
			} else {
				cut = true
				if errors.Is(err, io.ErrUnexpectedEOF) {
					ob.Whole = false
					violate("torn-prefix", "the stream ended inside a length prefix", nil)
				}
			}
			break
		}
		l := int(binary.BigEndian.Uint16(hdr[:]))
		body := make([]byte, l)
		_ = conn.SetReadDeadline(time.Now().Add(6 * time.Second))
		if _, err := io.ReadFull(conn, body); err != nil {
			violate("torn-frame", fmt.Sprintf("frame announced %d bytes and the stream ended inside it (%v)", l, err), nil)
			ob.Whole = false
			cut = true
			break
		}
		counters.frames.Add(1)
		if l >= 2 {
			ob.Recv = append(ob.Recv, int(binary.BigEndian.Uint16(body)))
		} else {
			ob.Recv = append(ob.Recv, -1)
		}
		f, _ := wireOPT(body)
		ob.RSz = append(ob.RSz, sizeClassOfLen(l))
		ob.ROpt = append(ob.ROpt, f.has)
		ob.RCk = append(ob.RCk, f.cookieOf())
		ob.RN = append(ob.RN, f.hasOption(dns.EDNS0NSID))
		ob.RK = append(ob.RK, f.hasOption(dns.EDNS0TCPKEEPALIVE))
		ob.ROk = append(ob.ROk, l >= 12 && body[3]&0x0F == 0 && binary.BigEndian.Uint16(body[6:]) > 0)
		if g >= len(expected) {
			violate("unsolicited", fmt.Sprintf("received a frame after every answerable query was answered: % x", body[:min(l, 48)]),
				map[string]any{"frame": fmt.Sprintf("%x", body[:min(l, 600)])})
			break
		}
		q := expected[g]
		g++
		got.Store(int32(g))
		if l < 12 || binary.BigEndian.Uint16(body) != q.id {
			// is it another query of this connection (order), or foreign bytes (cross-talk)?
			what := "a frame that is none of this connection's replies"
			if l >= 2 {
				fid := binary.BigEndian.Uint16(body)
				for _, o := range sc.queries {
					if o.id == fid {
						what = fmt.Sprintf("the %s reply to id %d (%s) where the %s reply to id %d (%s) is due: out of query order, or a silent query was answered",
							sizeClassOfLen(l), o.id, o.kind, q.sz, q.id, q.kind)
					}
				}
			}
			violate("order", fmt.Sprintf("frame %d is %s: % x", g, what, body[:min(l, 48)]),
				map[string]any{"frame": fmt.Sprintf("%x", body[:min(l, 600)]), "position": g})
			break
		}
		if why := checkReply(q, body); why != "" {
			if strings.HasPrefix(why, "rcode:") {
				counters.rcFails.Add(1)
				continue
			}
			violate("content", fmt.Sprintf("frame %d, reply to id %d (%s %s, %s): %s", g, q.id, q.kind, q.name, q.ep.kind(), why),
				map[string]any{"frame": fmt.Sprintf("%x", body[:min(l, 600)]), "position": g})
			break
		}
		if q.sz != "small" {
			counters.bigOK.Add(1)
		}
		if q.exact > 0 {
			if l == q.exact {
				counters.exactOK.Add(1)
			} else {
				counters.exactOff.Add(1)
			}
		}
	}
	g := int(got.Load())
	counters.answered.Add(int64(g))
	counters.expected.Add(int64(len(expected)))
	if g == len(expected) {
		counters.complete.Add(1)
	} else if cut {
		counters.cut.Add(1)
	}
	if sc.breaks != nil {
		res.Case(proto + "/" + sc.label + "/" + scriptKey(sc))
	} else {
		res.Case(proto + "/" + sc.ending)
	}
}

// scriptKey names a scripted connection by its size-class / EDNS order and chunking.
func scriptKey(sc *tcpScript) string {
	var sb strings.Builder
	for i, q := range sc.queries {
		if i > 0 {
			if sc.breaks[i] {
				sb.WriteByte('|')
			} else {
				sb.WriteByte(',')
			}
		}
		sb.WriteString(q.sz[:1] + q.ep.kind()[:1])
	}
	return sb.String()
}

type tcpCounters struct {
	conns, dialFail, frames, answered, expected, complete, cut, stalled, rcFails, bigOK, exactOK, exactOff atomic.Int64
	mu                                                                                  sync.Mutex
	obs                                                                                 []tcpObs
}

// tcpObs is what one connection's client saw, for Trace_TcpConn.tla.
type tcpObs struct {
	Ev     string   `json:"ev"`
	Conn   string   `json:"conn"`
	Kinds  []string `json:"kinds"` // per query, in TcpConn.tla's vocabulary
	IDs    []int    `json:"ids"`
	Recv   []int    `json:"recv"` // ids of the frames received, in order
	Whole  bool     `json:"whole"`
	Done   bool     `json:"done"` // the client read until nothing more was owed
	Ending string   `json:"ending"`
	Script string   `json:"script"` // random | sweep/... | script/<family>
	// per query: the size class of the answer it asks for, its EDNS shape, its client
	// cookie ("" = none), whether it was written only after the server had blocked
	Sizes []string `json:"sizes"`
	Opts  []string `json:"opts"`
	Cks   []string `json:"cks"`
	Brk   []bool   `json:"brk"`
	WN    []bool   `json:"wn"` // the query asks for NSID
	WK    []bool   `json:"wk"` // the query sent edns-tcp-keepalive
	// per frame received: its size class, whether it carries an OPT, the client half of
	// its COOKIE option ("" = none), whether it is a NOERROR answer
	RSz  []string `json:"rsz"`
	ROpt []bool   `json:"ropt"`
	RCk  []string `json:"rck"`
	ROk  []bool   `json:"rok"`
	RN   []bool   `json:"rn"` // the frame carries an NSID option
	RK   []bool   `json:"rk"` // ... an edns-tcp-keepalive option
}

func modelKind(k string) string {
	switch k {
	case "qr", "silentTail":
		return "silent"
	case "badop", "badcnt", "badbody":
		return "reject"
	case "panicHead":
		return "panic"
	}
	return "answer"
}

// ---------------------------------------------------------------------------

// primeBig asks for every large / huge TXT name once, sequentially, until each was answered whole.
func primeBig(in *engInput, res *vh.Result, rng *rand.Rand, proto string, dial func() (net.Conn, error),
	client int, alloc func() (uint16, bool), counters *tcpCounters) string {
	for try := 0; try < 4; try++ {
		sc := tcpScript{ending: "read-all", label: "prime", linger: 5 * time.Millisecond}
		for k := 0; k < 4; k++ {
			for _, pfx := range []string{"b", "g"} {
				id, _ := alloc()
				q := buildQueryOpt(rng, "big", 1000+client, k, 0, id, true, "none")
				q.name = fmt.Sprintf("%s-k%d.%s", pfx, k, zone)
				q.sz = sizeClassOfAnswer(q.name, q.qtype)
				m := new(dns.Msg)
				m.SetQuestion(q.name, q.qtype)
				m.Id = id
				q.wire, _ = m.Pack()
				sc.queries = append(sc.queries, q)
				sc.breaks = append(sc.breaks, true)
			}
		}
		seenExact := map[string]bool{}
		nExact := 0
		for _, si := range in.Scripts {
			for _, f := range si.Frames {
				if strings.HasPrefix(f.Sz, "e") && !seenExact[f.Sz] {
					seenExact[f.Sz] = true
					id, _ := alloc()
					q := exactQuery(f.Sz, id)
					if q.sz == "small" {
						nExact++
					}
					sc.queries = append(sc.queries, q)
					sc.breaks = append(sc.breaks, true)
				}
			}
		}
		before := counters.bigOK.Load()
		beforeX := counters.exactOK.Load()
		playStream(in, res, rng, proto, dial, client, 9000+try, &sc, counters)
		if counters.bigOK.Load()-before == int64(len(sc.queries)-nExact) && counters.exactOK.Load()-beforeX == int64(len(seenExact)) {
			return ""
		}
	}
	return "not every large/huge name was answered"
}

// sweepUDP sends, one exchange at a time so the slabs recycle in order, enough
// cookie queries to pass a cookie through the writer slot of every slab, then
// as many cookie-less OPT queries, then as many without OPT: a slot that keeps
// anything of an earlier request shows it in a later client's reply.
func sweepUDP(in *engInput, res *vh.Result, rng *rand.Rand, c *udpClient, server *net.UDPAddr, slabCap int) {
	n := min(max(2*slabCap+4, 12), 80) * in.Sweep
	seq := 0
	ask := func(kind, shape string) {
		if c.idNext >= c.idSpan {
			return
		}
		id := uint16(c.idBase + c.idNext)
		c.idNext++
		seq++
		q := buildQueryOpt(rng, kind, c.idx, seq, 0, id, false, shape)
		c.mu.Lock()
		c.out[id] = q
		c.all = append(c.all, q)
		c.mu.Unlock()
		_, _ = c.conn.WriteToUDP(q.wire, server)
		waitFor(250*time.Millisecond, func() bool { return q.got.Load() > 0 })
		res.Case("udp/sweep/" + kind + "/" + shape)
	}
	for _, shape := range []string{"cookie", "plain", "cookie", "none", "cookie"} {
		for i := 0; i < n; i++ {
			kind := "hit"
			if i%4 == 3 {
				kind = "miss"
			}
			ask(kind, shape)
			if shape == "cookie" && i%2 == 1 {
				// interleaved: the very next request on the slab that just served a cookie
				ask("hit", []string{"plain", "none"}[(i/2)%2])
			}
		}
	}
}

// sweepStream is the same on one stream connection: sequential exchanges (the
// job goes back to the ring between them and is taken again) and one pipelined
// burst (the job is held across the burst).
func sweepStream(in *engInput, res *vh.Result, rng *rand.Rand, proto string, dial func() (net.Conn, error),
	client int, alloc func() (uint16, bool), counters *tcpCounters) {
	shapes := []string{"cookie", "plain", "cookie", "none", "cookie", "plain", "plain", "none", "cookie", "cookie", "plain", "none"}
	for pass, sequential := range []bool{true, false, true} {
		var frames []scriptFrame
		for rep := 0; rep < in.Sweep; rep++ {
			for i, sh := range shapes {
				kind := "hit"
				if (i+pass)%5 == 4 {
					kind = "miss"
				}
				frames = append(frames, scriptFrame{Kind: kind, Sz: "small", Opt: sh, Brk: sequential})
			}
		}
		qs, brk := scriptQueries(rng, frames, client, 8000+pass, alloc)
		sc := tcpScript{queries: qs, breaks: brk, ending: "read-all", linger: 15 * time.Millisecond,
			label: "sweep/" + map[bool]string{true: "sequential", false: "pipelined"}[sequential]}
		playStream(in, res, rng, proto, dial, client, 8000+pass, &sc, counters)
	}
	if !in.HdrCheck {
		return
	}
	// the flags word: a failing name is recorded, then AD=1 replies and failure-cache replies alternate on the
	// connection's job, one exchange at a time (the job goes back between them) and pipelined (the job is held)
	for pass, sequential := range []bool{true, false} {
		frames := []scriptFrame{{Kind: "failhit", Sz: "small", Opt: "none", Brk: true}, {Kind: "failhit", Sz: "small", Opt: "none", Brk: true},
			{Kind: "failhit", Sz: "small", Opt: "none", Brk: true}, {Kind: "failhit", Sz: "small", Opt: "none", Brk: true}}
		for rep := 0; rep < 6*in.Sweep; rep++ {
			frames = append(frames, scriptFrame{Kind: "adhit", Sz: "small", Opt: []string{"none", "plain"}[rep%2], Brk: sequential},
				scriptFrame{Kind: "failhit", Sz: "small", Opt: []string{"none", "plain", "cookie"}[rep%3], Brk: sequential})
		}
		qs, brk := scriptQueries(rng, frames, client, 8100+pass, alloc)
		sc := tcpScript{queries: qs, breaks: brk, ending: "read-all", linger: 15 * time.Millisecond,
			label: "sweep-hdr/" + map[bool]string{true: "sequential", false: "pipelined"}[sequential]}
		playStream(in, res, rng, proto, dial, client, 8100+pass, &sc, counters)
	}
}

// playScripts plays every projected TcpConn.tla behaviour on its own connection, a few at a time.
func playScripts(in *engInput, res *vh.Result, seed int64, proto string, dial func() (net.Conn, error),
	client int, alloc func() (uint16, bool), counters *tcpCounters) {
	par := max(in.ScriptPar, 1)
	var amu sync.Mutex
	lockedAlloc := func() (uint16, bool) {
		amu.Lock()
		defer amu.Unlock()
		return alloc()
	}
	var wg sync.WaitGroup
	for w := 0; w < par; w++ {
		wg.Add(1)
		go func(w int) {
			defer wg.Done()
			rng := rand.New(rand.NewSource(seed*977 + int64(w)))
			for i := w; i < len(in.Scripts); i += par {
				qs, brk := scriptQueries(rng, in.Scripts[i].Frames, client, i, lockedAlloc)
				sc := tcpScript{queries: qs, breaks: brk, ending: "read-all", linger: 15 * time.Millisecond,
					label: "script/" + in.Scripts[i].Fam}
				playStream(in, res, rng, proto, dial, client, i, &sc, counters)
			}
		}(w)
	}
	wg.Wait()
}

func TestEngineLoad(t *testing.T) {
	var in engInput
	vh.Input(t, &in)
	res := vh.NewResult()
	defer res.Write(t)
	seed := vh.Seed()

	opts := server.VerifC10Opts{UDPSockets: in.Sockets, UDPSpare: in.Spare, TCPConns: 256,
		TCPSmall: in.TCPSmall, TCPLarge: in.TCPLarge}
	switch in.Mode {
	case "portable":
		opts.Portable = true
	case "retiretx":
		opts.RetireTX = true
	}
	sink := newTraceSink(in.Perturb, seed, in.TraceLimit)
	sink.path = in.TraceOut
	server.SetVerifUDPTrace(sink.fn)
	defer server.SetVerifUDPTrace(nil)

	rg, err := newRig(opts, in.Workers, in.Queue, nil)
	if err != nil {
		res.Skip("rig: %v", err)
		t.Fatalf("rig: %v", err)
	}
	st0 := server.VerifC10Snapshot(rg.srv)
	sink.mu.Lock()
	sink.hdr = map[string]any{"cfg_name": in.Name, "cfg_mode": in.Mode, "cfg_cap": st0.UDPSlabCap, "cfg_takers": st0.UDPReaders + 2}
	sink.mu.Unlock()
	res.Sample(map[string]any{"config": in.Name, "udp": rg.udp, "tcp": rg.tcp, "slabCap": st0.UDPSlabCap,
		"batched": st0.UDPBatched, "tcpSmall": st0.TCPSmallCap, "tcpLarge": st0.TCPLargeCap})
	if in.Mode != "portable" && !st0.UDPBatched {
		res.Skip("batched UDP path unavailable on this system; mode %s runs portable", in.Mode)
	}
	uaddr, _ := net.ResolveUDPAddr("udp", rg.udp)

	// CPU load to shake the scheduler
	stopLoad := make(chan struct{})
	for i := 0; i < in.Load; i++ {
		go func() {
			x := uint64(1)
			for {
				select {
				case <-stopLoad:
					return
				default:
				}
				for k := 0; k < 200000; k++ {
					x = x*6364136223846793005 + 1442695040888963407
				}
				if x == 42 {
					runtime.Gosched()
				}
			}
		}()
	}

	optCheck.Store(in.OptCheck)
	hdrCheck.Store(in.HdrCheck)
	leaseProbe := server.VerifC10LeaseProbe(rg.srv)
	failServed0 := failureServed()
	// id blocks: UDP clients, TCP clients, then the sweeper, the script player and the primer
	nClients := in.UDPClients + in.TCPClients + 3
	idSpan := 65536 / nClients
	mk := func(idx int) *udpClient {
		conn, err := net.ListenUDP("udp", &net.UDPAddr{IP: net.IPv4(127, 0, 0, 1)})
		if err != nil {
			t.Fatalf("client socket: %v", err)
		}
		c := &udpClient{idx: idx, conn: conn, out: map[uint16]*query{}, idBase: idx * idSpan, idSpan: idSpan,
			res: res, in: &in, server: uaddr, stop: make(chan struct{}), done: make(chan struct{})}
		go c.receiver()
		return c
	}

	// prime the hit names (client index nClients-1), checking provenance as well
	primer := mk(nClients - 1)
	prng := rand.New(rand.NewSource(seed))
	for k := 0; k < 8; k++ {
		for _, qt := range []uint16{dns.TypeA, dns.TypeTXT} {
			for try := 0; try < 20; try++ {
				id := uint16(primer.idBase + primer.idNext)
				primer.idNext++
				q := buildQuery(prng, "hit", primer.idx, k, 0, id)
				q.name, q.qtype, q.ep, q.opt, q.sz = fmt.Sprintf("h-k%d.%s", k, zone), qt, optProfile{}, false, "small"
				m := new(dns.Msg)
				m.SetQuestion(q.name, qt)
				m.Id = id
				q.wire, _ = m.Pack()
				primer.mu.Lock()
				primer.out[id] = q
				primer.mu.Unlock()
				_, _ = primer.conn.WriteToUDP(q.wire, uaddr)
				if waitFor(300*time.Millisecond, func() bool { return q.got.Load() > 0 }) {
					break
				}
			}
		}
	}
	var tc tcpCounters
	blockAlloc := func(idx int) func() (uint16, bool) {
		next := 0
		return func() (uint16, bool) { // wraps: stream ids only have to be unique on their connection
			next++
			return uint16(idx*idSpan + (next-1)%idSpan), true
		}
	}
	dialTCP := func() (net.Conn, error) { return net.DialTimeout("tcp", rg.tcp, 3*time.Second) }
	// the large / huge TXT answers are primed over TCP (a datagram would be truncated), one exchange at a time
	if why := primeBig(&in, res, prng, "tcp", dialTCP, nClients-1, blockAlloc(nClients-1), &tc); why != "" {
		res.Skip("priming the large/huge answers: %s", why)
	}
	if !waitFor(5*time.Second, rg.srv.Quiesced) {
		res.Skip("server did not quiesce after priming")
	}
	// ---- hygiene sweep: cookie queries over every slab, then cookie-less ones ----
	// ---- clients that stop reading (TcpConn.tla Stall): they sit out the server's write bound while the UDP sweep
	// runs (the sweep uses no stream job), and are joined before the stream sweep
	var stallWG sync.WaitGroup
	stallSem := make(chan struct{}, 2) // two at a time: each holds a small-class job while it is parked in its write
	for i, stl := range in.Stalls {
		stallWG.Add(1)
		go func(i int, stl stallIn) {
			defer stallWG.Done()
			stallSem <- struct{}{}
			defer func() { <-stallSem }()
			playStall(&in, res, rg.tcp, nClients-2, 7000+i, stl, max(in.StallFrames, 200),
				time.Duration(max(in.StallHoldMs, 3200))*time.Millisecond, &tc)
		}(i, stl)
	}
	if in.Sweep > 0 {
		sweeper := mk(nClients - 3)
		sweepUDP(&in, res, rand.New(rand.NewSource(seed*131+7)), sweeper, uaddr, int(st0.UDPSlabCap))
		if in.HdrCheck {
			sweepHeaderUDP(&in, res, rand.New(rand.NewSource(seed*131+8)), sweeper, uaddr, int(st0.UDPSlabCap))
		}
		stallWG.Wait()
		close(sweeper.stop)
		<-sweeper.done
		_ = sweeper.conn.Close()
		sweepStream(&in, res, rand.New(rand.NewSource(seed*131+9)), "tcp", dialTCP, nClients-3, blockAlloc(nClients-3), &tc)
	}
	stallWG.Wait()
	// ---- TLC-enumerated size-class / EDNS orders on quiet connections --------------
	if len(in.Scripts) > 0 {
		playScripts(&in, res, seed, "tcp", dialTCP, nClients-2, blockAlloc(nClients-2), &tc)
	}
	if !waitFor(5*time.Second, rg.srv.Quiesced) {
		res.Skip("server did not quiesce after the scripted phase")
	}
	time.Sleep(50 * time.Millisecond)
	baseG := runtime.NumGoroutine()

	// round barrier so shared names are asked by everybody at once
	var bmu sync.Mutex
	arrived := map[int]int{}
	active := in.UDPClients
	var fallbackOnce sync.Once
	extraReaders := 0
	barrier := func(r int) {
		bmu.Lock()
		arrived[r]++
		bmu.Unlock()
		dl := time.Now().Add(500 * time.Millisecond)
		for {
			bmu.Lock()
			ok := arrived[r] >= active
			bmu.Unlock()
			if ok || time.Now().After(dl) {
				break
			}
			time.Sleep(500 * time.Microsecond)
		}
		if in.Mode == "mixed" && r >= in.FallbackRound {
			fallbackOnce.Do(func() {
				_, _, socks := server.VerifC10Addrs(rg.srv)
				for i := 0; i < socks; i++ {
					if server.VerifC10Fallback(rg.srv, i) {
						extraReaders++
					}
				}
			})
		}
	}

	var wg sync.WaitGroup
	clients := make([]*udpClient, in.UDPClients)
	for i := range clients {
		clients[i] = mk(i)
	}
	for i, c := range clients {
		wg.Add(1)
		go func(i int, c *udpClient) {
			defer wg.Done()
			c.run(rand.New(rand.NewSource(seed*1000+int64(i))), uaddr, in.Rounds, in.Burst, barrier)
			bmu.Lock()
			active--
			bmu.Unlock()
		}(i, c)
	}
	for i := 0; i < in.TCPClients; i++ {
		wg.Add(1)
		go func(i int) {
			defer wg.Done()
			rng := rand.New(rand.NewSource(seed*7919 + int64(i)))
			idx := in.UDPClients + i
			next := 0
			alloc := func() (uint16, bool) {
				if next >= idSpan {
					return 0, false
				}
				next++
				return uint16(idx*idSpan + next - 1), true
			}
			for cn := 0; cn < in.TCPConnsEach; cn++ {
				runTCPConn(&in, res, rng, rg.tcp, i, cn, alloc, cn, &tc)
			}
		}(i)
	}
	wg.Wait()
	close(stopLoad)

	// ---- after load: quiescence, slabs, tokens, goroutines -------------------
	quiesced := waitFor(15*time.Second, rg.srv.Quiesced)
	time.Sleep(300 * time.Millisecond) // stray datagrams
	for _, c := range append(clients, primer) {
		close(c.stop)
	}
	for _, c := range append(clients, primer) {
		<-c.done
		_ = c.conn.Close()
	}
	settled := waitFor(10*time.Second, func() bool {
		st := server.VerifC10Snapshot(rg.srv)
		return st.TCPActive == 0 && st.TCPSmallFree == st.TCPSmallCap && st.TCPLargeFree == st.TCPLargeCap &&
			st.UDPInFlight == 0 && rg.srv.Quiesced()
	})
	gOK := waitFor(10*time.Second, func() bool { return runtime.NumGoroutine() <= baseG+extraReaders })
	// an admitted query of the idle server is answered (exactly once: the prober's receiver judges duplicates)
	probesOK, probesN := 0, 0
	if in.Oversize {
		prober := mk(nClients - 3)
		probesN = 6
		probesOK = afterProbes(rand.New(rand.NewSource(seed*17+3)), prober, uaddr, probesN)
		close(prober.stop)
		<-prober.done
		_ = prober.conn.Close()
		res.Count("after_probes", probesN)
		res.Count("after_probes_answered", probesOK)
		waitFor(2*time.Second, rg.srv.Quiesced)
	}
	st := server.VerifC10Snapshot(rg.srv)
	after := map[string]any{"quiesced": quiesced, "settled": settled, "goroutines": runtime.NumGoroutine(),
		"goroutinesBase": baseG + extraReaders, "stats": st}
	if !quiesced || !settled {
		res.Violate("after/quiescence", fmt.Sprintf("[%s] after the load stopped the server did not return to quiescence: Quiesced=%v leased=%d inFlight=%d "+
			"tcpSmall %d/%d tcpLarge %d/%d tcpActive=%d", in.Name, rg.srv.Quiesced(), st.UDPLeased, st.UDPInFlight,
			st.TCPSmallFree, st.TCPSmallCap, st.TCPLargeFree, st.TCPLargeCap, st.TCPActive),
			map[string]any{"driver": "c10-engine", "config": in, "after": after})
	}
	maxHeld := int64(st.UDPReaders*16 + extraReaders)
	if in.Mode == "portable" {
		maxHeld = int64(st.UDPReaders)
	}
	if quiesced && st.UDPLeased > maxHeld {
		res.Violate("after/held-slabs", fmt.Sprintf("[%s] %d slabs still leased with the engine idle; its readers can hold at most %d",
			in.Name, st.UDPLeased, maxHeld), map[string]any{"driver": "c10-engine", "config": in, "after": after})
	}
	if probesN > 0 && probesOK == 0 {
		res.Violate("after/unanswered", fmt.Sprintf("[%s] with the load stopped and the engine idle (leased=%d of cap %d, inFlight=%d) none of %d "+
			"well-formed queries sent one at a time was answered: every reader sheds", in.Name, st.UDPLeased, st.UDPSlabCap, st.UDPInFlight, probesN),
			map[string]any{"driver": "c10-engine", "config": in, "after": after})
	}
	if !gOK {
		buf := make([]byte, 1<<20)
		buf = buf[:runtime.Stack(buf, true)]
		res.Violate("after/goroutines", fmt.Sprintf("[%s] goroutines did not return to the pre-load count: %d > %d",
			in.Name, runtime.NumGoroutine(), baseG+extraReaders),
			map[string]any{"driver": "c10-engine", "config": in, "after": after, "stacks": string(buf[:min(len(buf), 20000)])})
	}

	// ---- a destination the kernel refuses inside a transmit batch (trace hook off) ----
	if in.Poison > 0 {
		server.SetVerifUDPTrace(nil)
		poisonPhase(&in, res, rand.New(rand.NewSource(seed*31+7)), mk, nClients-3, uaddr, in.Poison)
		if !waitFor(10*time.Second, rg.srv.Quiesced) {
			res.Violate("after/quiescence", fmt.Sprintf("[%s] the server did not return to quiescence after bursts holding a refused destination", in.Name),
				map[string]any{"driver": "c10-engine", "config": in})
		}
	}

	// ---- bookkeeping -------------------------------------------------------
	kinds := map[string][2]int{}
	for _, c := range clients {
		for _, q := range c.all {
			v := kinds[q.kind]
			v[0]++
			if q.got.Load() > 0 {
				v[1]++
			}
			kinds[q.kind] = v
			res.Case("udp/" + q.kind)
		}
	}
	for _, k := range sortedKeys(kinds) {
		res.Count("udp_sent_"+k, kinds[k][0])
		res.Count("udp_answered_"+k, kinds[k][1])
	}
	for _, c := range clients {
		res.Count("udp_datagrams_received", int(c.recvd.Load()))
		res.Count("udp_strays_from_elsewhere", int(c.strays.Load()))
		res.Count("rcode_failures", int(c.rcFails.Load()))
	}
	res.Count("tcp_conns", int(tc.conns.Load()))
	res.Count("tcp_dial_fail", int(tc.dialFail.Load()))
	res.Count("tcp_frames", int(tc.frames.Load()))
	res.Count("tcp_expected", int(tc.expected.Load()))
	res.Count("tcp_answered", int(tc.answered.Load()))
	res.Count("tcp_complete", int(tc.complete.Load()))
	res.Count("tcp_cut", int(tc.cut.Load()))
	res.Count("tcp_stalled", int(tc.stalled.Load()))
	res.Count("tcp_big_replies_ok", int(tc.bigOK.Load()))
	res.Count("tcp_exact_replies_ok", int(tc.exactOK.Load()))
	res.Count("tcp_exact_replies_off", int(tc.exactOff.Load()))
	if n := bareOPT.Load(); n > 0 {
		res.Count("opt_in_reply_to_optless_query", int(n))
		res.DriftNote("%d replies carry a bare OPT although the query had none, e.g. %v", n, bareOPTExample.Load())
	}
	res.Count("rcode_failures", int(tc.rcFails.Load()))
	res.Count("tail_calls", int(rg.tstats.calls.Load()))
	res.Count("tail_silent", int(rg.tstats.silent.Load()))
	res.Count("tail_panics", int(rg.tstats.panics.Load()))
	res.Count("head_panics", int(rg.head.panics.Load()))
	res.Count("mid_write_handoff", int(rg.mid.wrote.Load()))
	res.Count("extra_readers", extraReaders)

	nl, err := sink.write(in.TraceOut, map[string]any{
		"cfg_name": in.Name, "cfg_mode": in.Mode, "cfg_cap": st.UDPSlabCap,
		"cfg_takers": st.UDPReaders + extraReaders,
		"quiesced":   quiesced, "ls": st.UDPLeased, "if": st.UDPInFlight, "idle": st.UDPIdle,
		// what the readers of this run can have armed between them: more slabs than that in `reading` are held by nobody
		"hold": maxHeld})
	if err != nil {
		t.Fatalf("trace: %v", err)
	}
	if in.TCPTraceOut != "" {
		f, err := os.OpenFile(in.TCPTraceOut, os.O_CREATE|os.O_WRONLY|os.O_APPEND, 0o644)
		if err != nil {
			t.Fatalf("tcp trace: %v", err)
		}
		enc := json.NewEncoder(f)
		for i := range tc.obs {
			_ = enc.Encode(&tc.obs[i])
		}
		_ = f.Close()
		res.Count("tcp_trace_lines", len(tc.obs))
	}
	res.Count("trace_lines", nl)
	res.Count("trace_dropped", sink.dropped)
	res.Count("trace_slabs", len(sink.slabs))
	res.Sample(after)

	if fs := failureServed(); failServed0 >= 0 && fs >= 0 {
		res.Count("failure_rung_served", fs-failServed0)
	}
	res.Count("tc_replies_seen", int(tcSeen.Load()))
	stopped := rg.stop()
	if !stopped {
		res.Violate("after/stop", fmt.Sprintf("[%s] graceful shutdown did not complete", in.Name),
			map[string]any{"driver": "c10-engine", "config": in})
	}
	// every reader has released its armed ring, every worker has drained: no slab is held
	if stopped && leaseProbe != nil {
		waitFor(2*time.Second, func() bool { l, _ := leaseProbe(); return l == 0 })
		if l, f := leaseProbe(); l != 0 {
			res.Violate("after/held-slabs", fmt.Sprintf("[%s] %d slabs are still leased (inFlight=%d) after the server stopped: their owners "+
				"are gone, nobody will give them back", in.Name, l, f), map[string]any{"driver": "c10-engine", "config": in, "after": after})
		}
		res.Count("leased_after_stop_checked", 1)
	}
}
