package c10

// Shared kit of the C10 / C11-engine drivers: the scripted handlers standing
// around the real default chain, question-encoding answers, the strict reply
// parser ("these bytes are one whole DNS message and nothing else") and the
// engine trace sink that records the verif trace hook as NDJSON.

import (
	"strconv"
	"context"
	"crypto/sha256"
	"encoding/binary"
	"encoding/json"
	"fmt"
	"net"
	"net/netip"
	"os"
	"runtime"
	"sort"
	"strings"
	"sync"
	"sync/atomic"
	"time"

	"github.com/miekg/dns"
	"github.com/semihalev/sdns/config"
	"github.com/semihalev/sdns/middleware"
	"github.com/semihalev/sdns/middleware/cache"
	"github.com/semihalev/sdns/middleware/defaults"
	"github.com/semihalev/sdns/server"
	"github.com/semihalev/sdns/verifharness/pipe"
)

const zone = "c10.test."

// serverNSID is the name-server identifier the rig is configured with: an NSID
// option in a reply carries these bytes, and only when the query asked.
const serverNSID = "vc10"

// ---------------------------------------------------------------------------
// answers encode the question: rdata = f(qname, qtype)

// Reply size classes of the stream transports (server/tcp_stream.go): a framed
// reply is staged in the 8 KiB drain buffer when it fits what is left (small),
// flushes the buffer first when it fits only an empty one (large: two of them
// never share the buffer), and is written on its own when it is larger than
// the whole buffer (huge).  The class of an answer is a function of the
// question: TXT of a "b-" name is large, TXT of a "g-" name is huge.
const (
	drainSize   = 8 << 10
	largeTXTs   = 22 // ~4.7 kB
	hugeTXTs    = 50 // ~10.7 kB
	bigTXTChunk = 200
)

func sizeClassOfLen(n int) string {
	switch {
	case n+2 > drainSize:
		return "huge"
	case 2*(n+2) > drainSize:
		return "large"
	}
	return "small"
}

// bigTXT is the i-th string of a large/huge TXT RRset: 200 hex digits derived from (name, i).
func bigTXT(name string, i int) string {
	var sb strings.Builder
	for k := 0; sb.Len() < bigTXTChunk; k++ {
		h := sha256.Sum256([]byte(fmt.Sprintf("%s|%d|%d", name, i, k)))
		sb.WriteString(fmt.Sprintf("%x", h[:]))
	}
	return sb.String()[:bigTXTChunk]
}

// exactBody is N for a name "e<N>-...": the TXT answer of such a name makes the whole reply (no OPT, owner
// compressed against the question) exactly N bytes long, so that scripted frames can land on, one below and
// one or two bytes beyond what is left of the drain buffer.
func exactBody(name string) int {
	if !strings.HasPrefix(name, "e") {
		return 0
	}
	i := strings.IndexByte(name, '-')
	if i < 2 {
		return 0
	}
	n, err := strconv.Atoi(name[1:i])
	if err != nil {
		return 0
	}
	return n
}

func exactTXT(name string, n int) []dns.RR {
	// header 12, question wire-name + 4, one RR: pointer 2 + type/class/ttl/rdlen 10, rdata = chunks (1 + len each)
	wl := len(name) + 1
	if name == "." {
		wl = 1
	}
	r := n - 12 - (wl + 4) - 12
	if r < 1 {
		return nil
	}
	var txt []string
	k := 0
	for r > 0 {
		c := min(r-1, 255)
		var sb strings.Builder
		for ; sb.Len() < c; k++ {
			h := sha256.Sum256([]byte(fmt.Sprintf("%s|x|%d", name, k)))
			sb.WriteString(fmt.Sprintf("%x", h[:]))
		}
		txt = append(txt, sb.String()[:c])
		r -= 1 + c
	}
	return []dns.RR{&dns.TXT{Hdr: dns.RR_Header{Name: name, Rrtype: dns.TypeTXT, Class: dns.ClassINET, Ttl: 300}, Txt: txt}}
}

func answerRRs(name string, qtype uint16) []dns.RR {
	name = strings.ToLower(name)
	h := sha256.Sum256([]byte(name))
	if n := exactBody(name); n > 0 && qtype == dns.TypeTXT {
		return exactTXT(name, n)
	}
	switch qtype {
	case dns.TypeA:
		return []dns.RR{
			&dns.A{Hdr: dns.RR_Header{Name: name, Rrtype: dns.TypeA, Class: dns.ClassINET, Ttl: 300},
				A: net.IPv4(10, h[0], h[1], h[2])},
			&dns.A{Hdr: dns.RR_Header{Name: name, Rrtype: dns.TypeA, Class: dns.ClassINET, Ttl: 300},
				A: net.IPv4(10, h[3], h[4], h[5])},
		}
	case dns.TypeTXT:
		n := 0
		switch {
		case strings.HasPrefix(name, "g-"):
			n = hugeTXTs
		case strings.HasPrefix(name, "b-"):
			n = largeTXTs
		}
		if n > 0 {
			out := make([]dns.RR, 0, n)
			for i := 0; i < n; i++ {
				out = append(out, &dns.TXT{Hdr: dns.RR_Header{Name: name, Rrtype: dns.TypeTXT, Class: dns.ClassINET, Ttl: 300},
					Txt: []string{bigTXT(name, i)}})
			}
			return out
		}
		return []dns.RR{
			&dns.TXT{Hdr: dns.RR_Header{Name: name, Rrtype: dns.TypeTXT, Class: dns.ClassINET, Ttl: 300},
				Txt: []string{"c10:" + name, fmt.Sprintf("%x", h[:8])}},
		}
	}
	return nil
}

// sizeClassOfAnswer is the class of the reply f(question) makes.
func sizeClassOfAnswer(name string, qtype uint16) string {
	if n := exactBody(strings.ToLower(name)); n > 0 && qtype == dns.TypeTXT {
		return sizeClassOfLen(n)
	}
	if qtype == dns.TypeTXT {
		switch {
		case strings.HasPrefix(strings.ToLower(name), "g-"):
			return "huge"
		case strings.HasPrefix(strings.ToLower(name), "b-"):
			return "large"
		}
	}
	return "small"
}

func rrKey(rr dns.RR) string {
	switch x := rr.(type) {
	case *dns.A:
		return strings.ToLower(x.Hdr.Name) + "/A/" + x.A.String()
	case *dns.TXT:
		return strings.ToLower(x.Hdr.Name) + "/TXT/" + strings.Join(x.Txt, "|")
	}
	return "other/" + rr.String()
}

func firstLabelOf(name string) string {
	if i := strings.IndexByte(name, '.'); i >= 0 {
		return strings.ToLower(name[:i])
	}
	return strings.ToLower(name)
}

// firstLabel reads the request's first label without decoding a wire-born request.
func firstLabel(ch *middleware.Chain) string {
	if ch.Request == nil {
		return ""
	}
	if ch.Request.Undecoded() {
		wn := ch.Request.WireName()
		if len(wn) > 1 && int(wn[0]) < len(wn) {
			return strings.ToLower(string(wn[1 : 1+int(wn[0])]))
		}
		return ""
	}
	if m := ch.Request.Msg(); m != nil && len(m.Question) == 1 {
		return firstLabelOf(m.Question[0].Name)
	}
	return ""
}

// ---------------------------------------------------------------------------
// scripted handlers

// headHandler stands before the recovery middleware: a panic here is a panic
// "outside the chain" for the engines (abort terminal, no reply).
type headHandler struct{ panics atomic.Int64 }

func (h *headHandler) Name() string { return "verif-c10-head" }
func (h *headHandler) ServeDNS(ctx context.Context, ch *middleware.Chain) {
	if strings.HasPrefix(firstLabel(ch), "ph-") {
		h.panics.Add(1)
		panic("verif c10: scripted panic ahead of the recovery middleware")
	}
	ch.Next(ctx)
}

// midHandler stands right before the cache: for "wh-" names it writes a reply
// on the inline pass although the cache marked handoff (a staged reply plus a
// handoff in one serve).
type midHandler struct{ wrote atomic.Int64 }

func (h *midHandler) Name() string { return "verif-c10-mid" }
func (h *midHandler) ServeDNS(ctx context.Context, ch *middleware.Chain) {
	if !strings.HasPrefix(firstLabel(ch), "wh-") {
		ch.Next(ctx)
		return
	}
	ch.Next(ctx)
	if ch.InlineOnly() && ch.Handoff() && ch.Request != nil && ch.Request.Raw() != nil {
		req := new(dns.Msg)
		if req.Unpack(ch.Request.Raw()) != nil || len(req.Question) != 1 {
			return
		}
		m := new(dns.Msg)
		m.SetReply(req)
		m.RecursionAvailable = true
		m.Answer = answerRRs(req.Question[0].Name, req.Question[0].Qtype)
		h.wrote.Add(1)
		_ = ch.Writer.WriteMsg(m)
	}
}

type tailStats struct {
	calls, silent, panics atomic.Int64
}

func tailRespond(st *tailStats) func(context.Context, *middleware.Chain, *dns.Msg) *dns.Msg {
	return func(_ context.Context, _ *middleware.Chain, req *dns.Msg) *dns.Msg {
		st.calls.Add(1)
		q := req.Question[0]
		lab := firstLabelOf(q.Name)
		switch {
		case strings.HasPrefix(lab, "st-"):
			st.silent.Add(1)
			return nil
		case strings.HasPrefix(lab, "pt-"):
			st.panics.Add(1)
			panic("verif c10: scripted panic in the tail")
		case strings.HasPrefix(lab, "d-"):
			time.Sleep(25 * time.Millisecond)
		case strings.HasPrefix(lab, "s-"):
			time.Sleep(8 * time.Millisecond)
		}
		m := new(dns.Msg)
		m.SetReply(req)
		m.RecursionAvailable = true
		if strings.HasPrefix(lab, "x-") {
			// resolution of these names fails: the cache records the failure (RFC 9520) and answers the next asks itself
			m.Rcode = dns.RcodeServerFailure
			return m
		}
		m.Answer = answerRRs(q.Name, q.Qtype)
		// "a-" names are validated: the only answers of this rig that carry AD=1
		m.AuthenticatedData = strings.HasPrefix(lab, "a-")
		return m
	}
}

type rig struct {
	srv    *server.Server
	cfg    *config.Config
	head   *headHandler
	mid    *midHandler
	tail   *pipe.Tail
	tstats *tailStats
	cancel context.CancelFunc
	udp    string
	tcp    string
}

var rigMu sync.Mutex

// newRig builds head + the real default chain up to and including the cache
// (with the mid handler right before it) + the scripted tail, and runs the real
// server.Server on loopback sockets.
func newRig(o server.VerifC10Opts, workers, queue int, mutate func(*config.Config)) (*rig, error) {
	rigMu.Lock()
	defer rigMu.Unlock()
	cfg := pipe.BaseConfig()
	cfg.Bind = "127.0.0.1:0"
	cfg.AccessList = []string{"0.0.0.0/0", "::0/0"}
	cfg.IngressWorkers = workers
	cfg.IngressQueue = queue
	cfg.QueryTimeout.Duration = 4 * time.Second
	cfg.NSID = serverNSID
	if mutate != nil {
		mutate(cfg)
	}
	r := &rig{cfg: cfg, head: &headHandler{}, mid: &midHandler{}, tstats: &tailStats{}}
	r.tail = &pipe.Tail{Respond: tailRespond(r.tstats)}
	middleware.Reset()
	middleware.Register(r.head.Name(), func(*config.Config) middleware.Handler { return r.head })
	defaults.RegisterUpTo("cache")
	middleware.Register(r.mid.Name(), func(*config.Config) middleware.Handler { return r.mid })
	middleware.Register("cache", func(c *config.Config) middleware.Handler { return cache.New(c) })
	middleware.Register("verif-tail", func(*config.Config) middleware.Handler { return r.tail })
	middleware.Setup(cfg)
	r.srv = server.New(cfg)
	if err := server.VerifC10Tune(r.srv, o); err != nil {
		return nil, err
	}
	ctx, cancel := context.WithCancel(context.Background())
	r.cancel = cancel
	if err := r.srv.Run(ctx); err != nil {
		cancel()
		return nil, err
	}
	deadline := time.Now().Add(5 * time.Second)
	for !(r.srv.HasListener("udp") && r.srv.HasListener("tcp")) && time.Now().Before(deadline) {
		time.Sleep(5 * time.Millisecond)
	}
	r.udp, r.tcp, _ = server.VerifC10Addrs(r.srv)
	if r.udp == "" || r.tcp == "" {
		cancel()
		return nil, fmt.Errorf("listeners did not come up (udp=%q tcp=%q)", r.udp, r.tcp)
	}
	return r, nil
}

func (r *rig) stop() bool {
	r.cancel()
	deadline := time.Now().Add(15 * time.Second)
	for !r.srv.Stopped() && time.Now().Before(deadline) {
		time.Sleep(10 * time.Millisecond)
	}
	ok := r.srv.Stopped()
	rigMu.Lock()
	middleware.Reset()
	rigMu.Unlock()
	return ok
}

// ---------------------------------------------------------------------------
// strict wire walk: the end offset of a DNS message, or -1

func skipName(b []byte, off int) int {
	for {
		if off >= len(b) {
			return -1
		}
		c := int(b[off])
		switch c & 0xC0 {
		case 0x00:
			if c == 0 {
				return off + 1
			}
			off += 1 + c
		case 0xC0:
			if off+1 >= len(b) {
				return -1
			}
			return off + 2
		default:
			return -1
		}
	}
}

// msgEnd walks header, question and every RR; it returns the offset one past
// the last RR, or -1 when the bytes are not one well-formed message.
func msgEnd(b []byte) int {
	if len(b) < 12 {
		return -1
	}
	qd := int(binary.BigEndian.Uint16(b[4:]))
	rr := int(binary.BigEndian.Uint16(b[6:])) + int(binary.BigEndian.Uint16(b[8:])) + int(binary.BigEndian.Uint16(b[10:]))
	off := 12
	for i := 0; i < qd; i++ {
		if off = skipName(b, off); off < 0 || off+4 > len(b) {
			return -1
		}
		off += 4
	}
	for i := 0; i < rr; i++ {
		if off = skipName(b, off); off < 0 || off+10 > len(b) {
			return -1
		}
		rdl := int(binary.BigEndian.Uint16(b[off+8:]))
		off += 10 + rdl
		if off > len(b) {
			return -1
		}
	}
	return off
}

// ednsOpt is one option of an OPT record, as it sits on the wire.
type ednsOpt struct {
	code uint16
	data []byte
}

// optFacts is what a packet's OPT record says (has == false: no OPT).
type optFacts struct {
	has  bool
	udp  uint16
	do   bool
	opts []ednsOpt
}

// wireOPT walks a message to its OPT record without decoding anything else.
// ok == false: the bytes are not a walkable message.
func wireOPT(b []byte) (f optFacts, ok bool) {
	if len(b) < 12 {
		return f, false
	}
	qd := int(binary.BigEndian.Uint16(b[4:]))
	rr := int(binary.BigEndian.Uint16(b[6:])) + int(binary.BigEndian.Uint16(b[8:])) + int(binary.BigEndian.Uint16(b[10:]))
	off := 12
	for i := 0; i < qd; i++ {
		if off = skipName(b, off); off < 0 || off+4 > len(b) {
			return f, false
		}
		off += 4
	}
	for i := 0; i < rr; i++ {
		start := off
		if off = skipName(b, off); off < 0 || off+10 > len(b) {
			return f, false
		}
		typ := binary.BigEndian.Uint16(b[off:])
		rdl := int(binary.BigEndian.Uint16(b[off+8:]))
		if off+10+rdl > len(b) {
			return f, false
		}
		if typ == dns.TypeOPT && b[start] == 0 && !f.has {
			f.has = true
			f.udp = binary.BigEndian.Uint16(b[off+2:])
			f.do = b[off+6]&0x80 != 0
			rd := b[off+10 : off+10+rdl]
			for len(rd) >= 4 {
				code := binary.BigEndian.Uint16(rd)
				l := int(binary.BigEndian.Uint16(rd[2:]))
				if 4+l > len(rd) {
					break
				}
				f.opts = append(f.opts, ednsOpt{code: code, data: rd[4 : 4+l]})
				rd = rd[4+l:]
			}
		}
		off += 10 + rdl
	}
	return f, true
}

// cookieOf is the client half (first 8 bytes, hex) of a packet's COOKIE option, "" without one.
func (f optFacts) cookieOf() string {
	for _, o := range f.opts {
		if o.code == dns.EDNS0COOKIE {
			return fmt.Sprintf("%x", o.data[:min(8, len(o.data))])
		}
	}
	return ""
}

// hasOption reports whether the OPT carries an option of this code.
func (f optFacts) hasOption(code uint16) bool {
	for _, o := range f.opts {
		if o.code == code {
			return true
		}
	}
	return false
}

// optKind is the packet's EDNS shape in the specs' vocabulary.
func (f optFacts) optKind() string {
	switch {
	case !f.has:
		return "none"
	case f.cookieOf() != "":
		return "cookie"
	}
	return "plain"
}

// tagOf is the provenance tag of a packet: id, and lower-cased question
// "name/type" ("" when the packet carries no parseable question).
func tagOf(b []byte) (id int, q string, ok bool) {
	if len(b) < 2 {
		return -1, "", false
	}
	id = int(binary.BigEndian.Uint16(b))
	if len(b) < 12 {
		return id, "", false
	}
	if binary.BigEndian.Uint16(b[4:]) == 0 {
		return id, "", true
	}
	var sb strings.Builder
	off := 12
	for {
		if off >= len(b) {
			return id, "", false
		}
		c := int(b[off])
		if c == 0 {
			off++
			break
		}
		if c&0xC0 != 0 || off+1+c > len(b) {
			return id, "", false
		}
		sb.WriteString(strings.ToLower(string(b[off+1 : off+1+c])))
		sb.WriteByte('.')
		off += 1 + c
	}
	if off+4 > len(b) {
		return id, "", false
	}
	if sb.Len() == 0 {
		sb.WriteByte('.')
	}
	return id, fmt.Sprintf("%s/%d", sb.String(), binary.BigEndian.Uint16(b[off:])), true
}

// rxKind classifies a received packet the way the engine and the scripted
// handlers will treat it.
func rxKind(b []byte) string {
	if len(b) < 12 {
		return "short"
	}
	flags := binary.BigEndian.Uint16(b[2:])
	if flags&0x8000 != 0 {
		return "qr"
	}
	if op := (flags >> 11) & 0xF; op != dns.OpcodeQuery && op != dns.OpcodeNotify {
		return "badop"
	}
	if binary.BigEndian.Uint16(b[4:]) != 1 || binary.BigEndian.Uint16(b[6:]) > 1 ||
		binary.BigEndian.Uint16(b[8:]) > 1 || binary.BigEndian.Uint16(b[10:]) > 2 {
		return "badcnt"
	}
	_, q, ok := tagOf(b)
	if !ok || q == "" {
		return "badbody"
	}
	lab := firstLabelOf(q)
	if i := strings.IndexByte(lab, '-'); i > 0 {
		return lab[:i]
	}
	return "ok"
}

// ---------------------------------------------------------------------------
// engine trace sink

var evNames = map[uint8]string{
	1: "take", 2: "trans", 3: "queued", 4: "overflow", 5: "stage", 6: "burstAdd",
	7: "sendNow", 8: "sendDirect", 9: "sendBatch", 10: "release",
}
var stNames = [...]string{"free", "reading", "queued", "serving"}

func stName(s uint8) string {
	if int(s) < len(stNames) {
		return stNames[s]
	}
	return fmt.Sprintf("state%d", s)
}

type traceLine struct {
	Ev   string `json:"ev"`
	J    int    `json:"j"`
	St   string `json:"st"`
	From string `json:"from"`
	To   string `json:"to"`
	RxID int    `json:"rxid"`
	RxQ  string `json:"rxq"`
	RK   string `json:"rk"`
	Src  string `json:"src"`
	SA   string `json:"sa"`
	TL   int    `json:"tl"`
	TxID int    `json:"txid"`
	TxQ  string `json:"txq"`
	Rp   bool   `json:"rp"`
	B    int    `json:"b"`
	Ls   int    `json:"ls"`
	If   int    `json:"if"`
	Cap  int    `json:"cap"`
	// EDNS provenance: the shape and client cookie of the packet in RX, whether the
	// bytes in TX carry an OPT and the client half of their COOKIE option
	RxOpt string `json:"rxopt"`
	RxCk  string `json:"rxck"`
	RxN   bool   `json:"rxn"` // the packet in RX asks for NSID
	RxK   bool   `json:"rxk"` // ... sent edns-tcp-keepalive
	TxOpt bool   `json:"txopt"`
	TxCk  string `json:"txck"`
	TxN   bool   `json:"txn"` // the bytes in TX carry an NSID option
	TxK   bool   `json:"txk"` // ... an edns-tcp-keepalive option
	// flags-word provenance: AD / TC / Z of the bytes in TX (rk = "a" marks a packet whose answer is validated)
	TxAD bool `json:"txad"`
	TxTC bool `json:"txtc"`
	TxZ  bool `json:"txz"`
	Stamp int64  `json:"-"`
}

type traceSink struct {
	mu      sync.Mutex
	lines   []traceLine
	slabs   map[uintptr]int
	perturb bool
	seed    uint64
	n       uint64
	limit   int
	dropped int
	// where to put the walk at once when an engine assertion is about to fire
	// (the panic that follows takes the process, and the buffered lines, down)
	path    string
	hdr     map[string]any
	flushed int
	hdrDone bool
}

func newTraceSink(perturb bool, seed int64, limit int) *traceSink {
	return &traceSink{slabs: map[uintptr]int{}, perturb: perturb, seed: uint64(seed)*0x9E3779B97F4A7C15 + 1, limit: limit}
}

func decodeSA(sa []byte) string {
	if len(sa) < 2 {
		return ""
	}
	family := binary.NativeEndian.Uint16(sa[0:2])
	switch family {
	case 2: // AF_INET
		if len(sa) < 8 {
			return "?"
		}
		var a [4]byte
		copy(a[:], sa[4:8])
		return netip.AddrPortFrom(netip.AddrFrom4(a), uint16(sa[2])<<8|uint16(sa[3])).String()
	case 10: // AF_INET6
		if len(sa) < 24 {
			return "?"
		}
		var a [16]byte
		copy(a[:], sa[8:24])
		return netip.AddrPortFrom(netip.AddrFrom16(a).Unmap(), uint16(sa[2])<<8|uint16(sa[3])).String()
	}
	return "?"
}

func (t *traceSink) fn(e *server.VerifUDPEvent) {
	ln := traceLine{Ev: evNames[e.Ev], St: stName(e.State), From: stName(e.From), To: stName(e.To),
		Rp: e.Replay, B: e.Burst, Ls: int(e.Leased), If: int(e.InFlight), Cap: int(e.SlabCap),
		RxID: -1, TxID: -1, TL: len(e.Tx)}
	if len(e.Rx) > 0 {
		ln.RxID, ln.RxQ, _ = tagOf(e.Rx)
		ln.RK = rxKind(e.Rx)
		if f, ok := wireOPT(e.Rx); ok {
			ln.RxOpt, ln.RxCk = f.optKind(), f.cookieOf()
			ln.RxN, ln.RxK = f.hasOption(dns.EDNS0NSID), f.hasOption(dns.EDNS0TCPKEEPALIVE)
		}
	}
	if e.Raddr.IsValid() {
		ln.Src = netip.AddrPortFrom(e.Raddr.Addr().Unmap(), e.Raddr.Port()).String()
	}
	ln.SA = decodeSA(e.RawSA)
	tx := e.Tx
	if e.Ev == 7 {
		tx = e.Bytes // a burst-less Write: the bytes leaving now; tl stays the staged length (0)
	}
	if len(tx) > 0 {
		ln.TxID, ln.TxQ, _ = tagOf(tx)
		if len(tx) >= 12 {
			ln.TxAD, ln.TxTC, ln.TxZ = tx[3]&0x20 != 0, tx[2]&0x02 != 0, tx[3]&0x40 != 0
		}
		if f, ok := wireOPT(tx); ok {
			ln.TxOpt, ln.TxCk = f.has, f.cookieOf()
			ln.TxN, ln.TxK = f.hasOption(dns.EDNS0NSID), f.hasOption(dns.EDNS0TCPKEEPALIVE)
		}
	}
	t.mu.Lock()
	j, ok := t.slabs[e.Slab]
	if !ok {
		j = len(t.slabs) + 1
		t.slabs[e.Slab] = j
	}
	ln.J = j
	if t.limit > 0 && len(t.lines) >= t.limit {
		t.dropped++
	} else {
		t.lines = append(t.lines, ln)
	}
	t.n++
	x := (t.n + t.seed) * 0x9E3779B97F4A7C15
	if e.Ev == 2 && e.State != e.From && t.path != "" {
		_, _ = t.flushLocked(nil)
	}
	t.mu.Unlock()
	if t.perturb {
		// seeded schedule perturbation at the ownership changes
		switch (x >> 58) & 0x3F {
		case 0, 1, 2:
			runtime.Gosched()
		case 3:
			time.Sleep(20 * time.Microsecond)
		case 4:
			if e.Ev == 10 || e.Ev == 6 {
				time.Sleep(200 * time.Microsecond)
			}
		}
	}
}

func (t *traceSink) write(path string, final map[string]any) (int, error) {
	t.mu.Lock()
	defer t.mu.Unlock()
	t.path = path
	if t.hdr == nil {
		t.hdr = map[string]any{}
	}
	for k, v := range final {
		if strings.HasPrefix(k, "cfg_") {
			t.hdr[k] = v
		}
	}
	return t.flushLocked(final)
}

// flushLocked appends the reset line (once), the lines not yet written and,
// when final is given, the final line.
func (t *traceSink) flushLocked(final map[string]any) (int, error) {
	f, err := os.OpenFile(t.path, os.O_CREATE|os.O_WRONLY|os.O_APPEND, 0o644)
	if err != nil {
		return 0, err
	}
	defer f.Close()
	enc := json.NewEncoder(f)
	n := 0
	if !t.hdrDone {
		reset := map[string]any{"ev": "reset"}
		for k, v := range t.hdr {
			reset[k] = v
		}
		if err := enc.Encode(reset); err != nil {
			return 0, err
		}
		t.hdrDone = true
		n++
	}
	for i := t.flushed; i < len(t.lines); i++ {
		if err := enc.Encode(&t.lines[i]); err != nil {
			return n, err
		}
		n++
	}
	t.flushed = len(t.lines)
	if final != nil {
		fin := map[string]any{"ev": "final"}
		for k, v := range final {
			if !strings.HasPrefix(k, "cfg_") {
				fin[k] = v
			}
		}
		if err := enc.Encode(fin); err != nil {
			return n, err
		}
		n++
	}
	return n, nil
}

// ---------------------------------------------------------------------------
// small helpers

func sortedKeys[M ~map[string]V, V any](m M) []string {
	out := make([]string, 0, len(m))
	for k := range m {
		out = append(out, k)
	}
	sort.Strings(out)
	return out
}

func waitFor(d time.Duration, cond func() bool) bool {
	deadline := time.Now().Add(d)
	for {
		if cond() {
			return true
		}
		if time.Now().After(deadline) {
			return false
		}
		time.Sleep(5 * time.Millisecond)
	}
}
