package c10

// Gap-closing extensions of the C10 / C11 engine driver (seeded C10-r3-1,
// C10-r3-3, C11-r3-3).  Three dimensions the load did not have:
//
//   - the FLAGS WORD of a reply is its own (UdpSlab.tla txhd / ClearHdr,
//     UdpJob.tla ReplyHeaderIsOwn): "a-" names are answered with AD=1 by the
//     tail, "x-" names with SERVFAIL (recorded by the RFC 9520 failure cache,
//     whose byte rung composes later replies in place in the slab's leased TX
//     buffer); every client checks AD / TC / AA / Z / RD / CD of what it gets;
//     the hygiene sweep passes an AD=1 reply and then a failure-cache reply
//     over every slab.
//   - OVERSIZE DATAGRAMS (UdpJob.tla kind "trunc", NoHeldSlabs): datagrams
//     larger than the slab's RX buffer in the load; after the load no slab is
//     held (the readers' armed rings are the only leases), probes are answered,
//     and after the server stopped the lease count is zero.
//   - a CLIENT THAT STOPS READING (TcpConn.tla Stall / TimeoutSticky,
//     StreamEndsAtFailedWrite): a long pipeline on a connection with a tiny
//     receive buffer, not read until the server's write bound (2 s) has
//     passed, then read to the end: whole replies in query order, then the
//     end of the stream -- never later replies behind a gap.

import (
	"encoding/binary"
	"errors"
	"fmt"
	"io"
	"math/rand"
	"net"
	"strings"
	"sync/atomic"
	"syscall"
	"time"

	"github.com/miekg/dns"
	"github.com/prometheus/client_golang/prometheus"
	"github.com/semihalev/sdns/verifharness/vh"
)

// ---------------------------------------------------------------------------
// header provenance

// hdrCheck switches the flags-word predicate on (C10 runs).
var hdrCheck atomic.Bool

// tcSeen counts TC=1 replies by transport (observation; see checkHeader).
var tcSeen atomic.Int64

func validatedName(name string) bool { return strings.HasPrefix(strings.ToLower(name), "a-") }
func failingName(name string) bool   { return strings.HasPrefix(strings.ToLower(name), "x-") }

// checkHeader is ReplyHeaderIsOwn on one reply: every bit of its flags word
// stems from its own query (RD, CD, opcode) or from the answer produced for
// that query (AD only for the names the tail validates, and only on a
// NOERROR answer; no reply of this rig is authoritative, none is truncated
// unless its own answer does not fit, none carries the reserved bit).
func checkHeader(q *query, b []byte) string {
	if len(b) < 12 || len(q.wire) < 12 {
		return ""
	}
	rcode := int(b[3] & 0x0F)
	if b[3]&0x40 != 0 {
		return "the reserved header bit (Z) is set: not a bit this server sets for any query"
	}
	if b[3]&0x20 != 0 && !(validatedName(q.name) && rcode == dns.RcodeSuccess) {
		return fmt.Sprintf("AD=1 in a %s reply to %s: the tail did not validate this name -- the bit belongs to another reply",
			dns.RcodeToString[rcode], q.name)
	}
	if b[2]&0x04 != 0 {
		return "AA=1: nobody answers authoritatively in this rig"
	}
	if b[2]&0x02 != 0 {
		tcSeen.Add(1)
		if q.sz == "small" && q.exact == 0 {
			return fmt.Sprintf("TC=1 in the reply to %s although its whole answer fits any datagram", q.name)
		}
	}
	if b[2]&0x01 != q.wire[2]&0x01 {
		return "RD differs from the query's"
	}
	if b[3]&0x10 != q.wire[3]&0x10 {
		return "CD differs from the query's"
	}
	if (b[2]>>3)&0xF != (q.wire[2]>>3)&0xF {
		return "opcode differs from the query's"
	}
	return ""
}

// failureServed reads the cache's own counter of replies composed by the
// failure cache's byte rung (dns_cache_wire_fastpath_total{outcome="failure_served"}).
func failureServed() int {
	mfs, err := prometheus.DefaultGatherer.Gather()
	if err != nil {
		return -1
	}
	for _, mf := range mfs {
		if mf.GetName() != "dns_cache_wire_fastpath_total" {
			continue
		}
		for _, m := range mf.GetMetric() {
			for _, l := range m.GetLabel() {
				if l.GetName() == "outcome" && l.GetValue() == "failure_served" {
					return int(m.GetCounter().GetValue())
				}
			}
		}
	}
	return -1
}

// sweepHeaderUDP: one exchange at a time, so the slabs recycle in order.  The
// failing names are recorded first; then an AD=1 reply passes through the TX
// buffer of every slab, then a failure-cache reply; then the two interleaved
// (the very next request on the slab that just sent AD=1).
func sweepHeaderUDP(in *engInput, res *vh.Result, rng *rand.Rand, c *udpClient, server *net.UDPAddr, slabCap int) {
	n := min(max(2*slabCap+4, 12), 80) * max(in.Sweep, 1)
	seq := 5000
	ask := func(kind, shape string) {
		if c.idNext >= c.idSpan {
			return
		}
		id := uint16(c.idBase + c.idNext)
		c.idNext++
		seq++
		q := buildQueryOpt(rng, kind, c.idx, seq, 0, id, false, shape)
		c.mu.Lock()
		c.out[id] = q
		c.all = append(c.all, q)
		c.mu.Unlock()
		_, _ = c.conn.WriteToUDP(q.wire, server)
		waitFor(250*time.Millisecond, func() bool { return q.got.Load() > 0 })
		res.Case("udp/sweep-hdr/" + kind + "/" + shape)
	}
	for k := 0; k < 8; k++ { // record every failing name (both question types are drawn)
		ask("failhit", "none")
	}
	for i := 0; i < n; i++ {
		ask("adhit", []string{"none", "plain"}[i%2])
	}
	for i := 0; i < n; i++ {
		ask("failhit", []string{"none", "plain", "cookie"}[i%3])
	}
	for i := 0; i < n; i++ {
		ask("adhit", "none")
		ask("failhit", []string{"none", "plain"}[i%2])
	}
}

// ---------------------------------------------------------------------------
// after the load: probes

// afterProbes asks a few primed names, one exchange at a time, of the idle
// server: an admitted query receives exactly one reply.  Returns how many were
// answered.
func afterProbes(rng *rand.Rand, c *udpClient, server *net.UDPAddr, n int) int {
	ok := 0
	for i := 0; i < n; i++ {
		if c.idNext >= c.idSpan {
			break
		}
		id := uint16(c.idBase + c.idNext)
		c.idNext++
		q := buildQueryOpt(rng, "hit", c.idx, 9000+i, 0, id, false, "none")
		c.mu.Lock()
		c.out[id] = q
		c.all = append(c.all, q)
		c.mu.Unlock()
		_, _ = c.conn.WriteToUDP(q.wire, server)
		if waitFor(800*time.Millisecond, func() bool { return q.got.Load() > 0 }) {
			ok++
		}
	}
	return ok
}

// ---------------------------------------------------------------------------
// a client that stops reading

// stallIn is one projected TcpConn.tla behaviour in which a write made with
// replies in hand ran into its bound: the size classes staged at that moment
// followed by the one being staged.  The driver pipelines that cycle over and
// over on a connection it does not read.
type stallIn struct {
	Cycle []string `json:"cycle"`
	Site  string   `json:"site"` // the action whose write timed out in the model (Serve = inside stage())
}

const stallSmall = "e2700-k0" // a "small" reply of 2700 bytes: three fit the drain buffer, the fourth displaces them

func stallQuery(sz string, i int, id uint16) *query {
	q := &query{id: id, kind: "stall", qtype: dns.TypeTXT, expect: expAnswer}
	switch sz {
	case "large":
		q.name = fmt.Sprintf("b-k%d.%s", i%4, zone)
	case "huge":
		q.name = fmt.Sprintf("g-k%d.%s", i%4, zone)
	default:
		q.name = stallSmall + "." + zone
		q.exact = exactBody(q.name)
	}
	q.sz = sizeClassOfAnswer(q.name, q.qtype)
	m := new(dns.Msg)
	m.SetQuestion(q.name, q.qtype)
	m.Id = id
	q.wire, _ = m.Pack()
	return q
}

// playStall pipelines `frames` queries of the cycle on a connection with a
// small receive buffer, does not read for `hold`, then reads to the end of the
// stream.  What it reads must be whole replies, one per query, in query order
// -- a prefix of them, then the end of the stream (a frame cut short BY the end
// of the stream is where the stream ended).
func playStall(in *engInput, res *vh.Result, addr string, client, connNo int, st stallIn, frames int,
	hold time.Duration, counters *tcpCounters) {
	label := "stall/" + strings.Join(st.Cycle, ",")
	var qs []*query
	var burst []byte
	for i := 0; i < frames; i++ {
		q := stallQuery(st.Cycle[i%len(st.Cycle)], i, uint16(i+1))
		qs = append(qs, q)
		burst = append(burst, frame(q.wire)...)
	}
	d := net.Dialer{Timeout: 3 * time.Second, Control: func(_, _ string, c syscall.RawConn) error {
		var serr error
		if err := c.Control(func(fd uintptr) {
			serr = syscall.SetsockoptInt(int(fd), syscall.SOL_SOCKET, syscall.SO_RCVBUF, 4096)
		}); err != nil {
			return err
		}
		return serr
	}}
	conn, err := d.Dial("tcp", addr)
	if err != nil {
		counters.dialFail.Add(1)
		res.Count("stall_dial_fail", 1)
		return
	}
	defer conn.Close()
	counters.conns.Add(1)
	go func() {
		// the tail of the burst may never be accepted once the server stops reading
		_ = conn.SetWriteDeadline(time.Now().Add(hold + 20*time.Second))
		_, _ = conn.Write(burst)
	}()
	time.Sleep(hold)

	ob := tcpObs{Ev: "conn", Conn: fmt.Sprintf("%s/tcp/c%d/n%d", in.Name, client, connNo), Whole: true,
		Ending: "stall", Script: label, Kinds: []string{}, IDs: []int{}, Sizes: []string{}, Opts: []string{},
		Cks: []string{}, Brk: []bool{}, WN: []bool{}, WK: []bool{}, Recv: []int{}, RSz: []string{}, ROpt: []bool{},
		RCk: []string{}, ROk: []bool{}, RN: []bool{}, RK: []bool{}}
	for _, q := range qs {
		ob.Kinds = append(ob.Kinds, "answer")
		ob.IDs = append(ob.IDs, int(q.id))
		ob.Sizes = append(ob.Sizes, q.sz)
		ob.Opts = append(ob.Opts, "none")
		ob.Cks = append(ob.Cks, "")
		ob.Brk = append(ob.Brk, false)
		ob.WN = append(ob.WN, false)
		ob.WK = append(ob.WK, false)
	}
	violate := func(key, what string, extra map[string]any) {
		rep := map[string]any{"driver": "c10-engine", "config": in.Name, "mode": in.Mode, "client": client, "conn": connNo,
			"script": label, "cycle": st.Cycle, "frames": frames, "hold_ms": hold.Milliseconds(), "seed": vh.Seed()}
		for k, v := range extra {
			rep[k] = v
		}
		res.Violate("tcp/"+key, fmt.Sprintf("[%s] TCP client %d conn %d (%s, not read for %v): %s", in.Name, client, connNo, label, hold, what), rep)
	}
	got := 0
	ended := "eof"
	var hdr [2]byte
	for got < frames {
		_ = conn.SetReadDeadline(time.Now().Add(6 * time.Second))
		if _, err := io.ReadFull(conn, hdr[:]); err != nil {
			var ne net.Error
			if errors.As(err, &ne) && ne.Timeout() {
				ended = "idle"
				counters.stalled.Add(1)
			}
			break
		}
		l := int(binary.BigEndian.Uint16(hdr[:]))
		body := make([]byte, l)
		if n, err := io.ReadFull(conn, body); err != nil {
			var ne net.Error
			if errors.As(err, &ne) && ne.Timeout() {
				// neither a frame nor the end of the stream: the client sits inside something that is not a frame
				ob.Whole = false
				violate("stall-framing", fmt.Sprintf("after %d whole replies a frame announced %d bytes, %d came and the stream neither "+
					"continued nor ended: the framing is lost behind the interrupted write", got, l, n),
					map[string]any{"position": got + 1})
				ended = "misframed"
			} else {
				ended = "cut-in-frame" // the close cut this frame short: the stream ended here
			}
			break
		}
		counters.frames.Add(1)
		q := qs[got]
		fid := -1
		if l >= 2 {
			fid = int(binary.BigEndian.Uint16(body))
		}
		ob.Recv = append(ob.Recv, fid)
		f, _ := wireOPT(body)
		ob.RSz = append(ob.RSz, sizeClassOfLen(l))
		ob.ROpt = append(ob.ROpt, f.has)
		ob.RCk = append(ob.RCk, f.cookieOf())
		ob.RN = append(ob.RN, false)
		ob.RK = append(ob.RK, false)
		ob.ROk = append(ob.ROk, l >= 12 && body[3]&0x0F == 0 && binary.BigEndian.Uint16(body[6:]) > 0)
		if fid != int(q.id) {
			what := fmt.Sprintf("frame %d is not a DNS reply of this connection (first bytes % x): the stream lost its framing behind "+
				"the interrupted write", got+1, body[:min(l, 24)])
			if fid > int(q.id) && fid <= frames && l >= 12 && body[2]&0x80 != 0 {
				what = fmt.Sprintf("frame %d is the reply to query %d where the reply to query %d is due: %d replies are missing in "+
					"between -- later replies arrived behind a gap instead of the end of the stream", got+1, fid, q.id, fid-int(q.id))
			}
			violate("stall-order", what, map[string]any{"position": got + 1, "frame": fmt.Sprintf("%x", body[:min(l, 200)])})
			ended = "gap"
			break
		}
		if why := checkReply(q, body); why != "" && !strings.HasPrefix(why, "rcode:") {
			violate("stall-content", fmt.Sprintf("frame %d carries query %d's id but is not the reply that query may receive (%s: %s): "+
				"behind a write that met its bound the stream went on -- a frame cut there is continued by the bytes of later replies -- "+
				"instead of ending", got+1, q.id, q.name, why[:min(len(why), 160)]),
				map[string]any{"position": got + 1, "frame": fmt.Sprintf("%x", body[:min(l, 200)])})
			ended = "content"
			break
		}
		got++
	}
	counters.answered.Add(int64(got))
	counters.expected.Add(int64(got)) // what was not delivered before the stream ended is not owed
	counters.mu.Lock()
	counters.obs = append(counters.obs, ob)
	counters.mu.Unlock()
	res.Case("tcp/" + label + "/" + ended)
	res.Count("stall_conns", 1)
	res.Count("stall_frames_received", got)
	// how the stream ended: cut-in-frame / eof = the server ended it (a client whose buffers hold less than one reply sees
	// nothing but the cut); idle = neither continued nor ended within 6 s; gap / misframed / content = a verdict above
	res.Count("stall_ended_"+strings.ReplaceAll(ended, "-", "_"), 1)
	if got == frames {
		res.Count("stall_all_arrived", 1) // the server's write never met its bound: the scenario did not happen
	}
}
