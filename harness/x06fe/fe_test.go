package x06fe

// X06FE drivers.
//
//   TestReplay   spec -> code.  Behaviours of FrontEnd.tla (Atomic = "gate": the schedules a gated
//                tail can force) are replayed on the real server: `start` sends one exchange and runs
//                it to its park point or its end, `release` opens the gate of a parked exchange,
//                `redial` replaces a QUIC connection the server closed.  After every step the
//                observable projection (which exchanges are parked, which connections are closed,
//                what every finished exchange received) is compared with the model (drift), and at
//                the end every exchange is judged by the predicates of judge_test.go (violation).
//   TestStress   code -> spec.  Free-running concurrent exchanges over shared connections; the
//                history (send / park / ret / recv lines under one harness-side sequence) is written
//                as NDJSON for Trace_FrontEnd.tla, and every exchange is judged directly as well.
//   TestAll      both on one rig.

import (
	"encoding/json"
	"fmt"
	"math/rand"
	"os"
	"sort"
	"strings"
	"sync"
	"testing"
	"time"

	"github.com/miekg/dns"
	"github.com/semihalev/sdns/verifharness/vh"
)

// ---------------------------------------------------------------------------
// input

type itemIn struct {
	T       string `json:"t"`
	From    int    `json:"from"`
	ID      int    `json:"id"`
	Rc      string `json:"rc"`
	Code    int    `json:"code"`
	Q       bool   `json:"q"`
	Opt     bool   `json:"opt"`
	Sigs    bool   `json:"sigs"`
	Ad      bool   `json:"ad"`
	Tc      bool   `json:"tc"`
	Ka      bool   `json:"ka"`
	Foreign bool   `json:"foreign"`
	Big     bool   `json:"big"`
}

type postIn struct {
	Parked []int               `json:"parked"`
	Closed []int               `json:"closed"`
	Out    map[string][]itemIn `json:"out"`
}

type stepIn struct {
	Op    string `json:"op"` // start | release | redial
	E     int    `json:"e"`
	C     int    `json:"c"`
	X     *xspec `json:"x,omitempty"`
	Label string `json:"label"`
	Post  postIn `json:"post"`
}

type behIn struct {
	Name  string            `json:"name"`
	Conns map[string]string `json:"conns"`
	Steps []stepIn          `json:"steps"`
}

type replayIn struct {
	Behaviours []behIn `json:"behaviours"`
}

type stressIn struct {
	Rounds   int    `json:"rounds"`
	PerRound int    `json:"perRound"`
	TraceOut string `json:"traceOut"`
}

type allIn struct {
	Replay *replayIn `json:"replay,omitempty"`
	Stress *stressIn `json:"stress,omitempty"`
}

// ---------------------------------------------------------------------------
// signatures: the model's out[e] and a real outcome on one scale

var rcName = map[int]string{dns.RcodeSuccess: "ok", dns.RcodeServerFailure: "servfail", dns.RcodeFormatError: "formerr",
	dns.RcodeNotImplemented: "notimp", dns.RcodeBadVers: "badvers", dns.RcodeRefused: "refused"}

func rcOf(code int) string {
	if s, ok := rcName[code]; ok {
		return s
	}
	return fmt.Sprintf("rcode%d", code)
}

// replyFacts is what a reply says about itself.
type replyFacts struct {
	rc                              string
	id                              int
	q, opt, sigs, ad, tc, ka, other bool
	qname                           string
}

func factsDNS(body []byte) replyFacts {
	f := replyFacts{rc: "undecodable"}
	m := new(dns.Msg)
	if len(body) < 12 || m.Unpack(body) != nil {
		return f
	}
	f.rc, f.id, f.ad, f.tc, f.q = rcOf(m.Rcode), int(m.Id), m.AuthenticatedData, m.Truncated, len(m.Question) > 0
	if f.q {
		f.qname = strings.ToLower(m.Question[0].Name)
	}
	for _, rr := range append(append([]dns.RR{}, m.Answer...), m.Ns...) {
		switch rr.(type) {
		case *dns.RRSIG, *dns.NSEC, *dns.NSEC3:
			f.sigs = true
		}
	}
	if o := m.IsEdns0(); o != nil {
		f.opt = true
		for _, op := range o.Option {
			switch op.(type) {
			case *dns.EDNS0_TCP_KEEPALIVE:
				f.ka = true
			case *dns.EDNS0_SUBNET, *dns.EDNS0_PADDING, *dns.EDNS0_LOCAL:
				f.other = true
			}
		}
	}
	return f
}

func factsJSON(body []byte) replyFacts {
	f := replyFacts{rc: "undecodable"}
	var jm jsonMsg
	if json.Unmarshal(body, &jm) != nil {
		return f
	}
	f.rc, f.ad, f.tc, f.q, f.opt = rcOf(jm.Status), jm.AD, jm.TC, len(jm.Question) > 0, true
	if f.q {
		f.qname = strings.ToLower(jm.Question[0].Name)
	}
	for _, rr := range append(append([]jsonRR{}, jm.Answer...), jm.Authority...) {
		if rr.Type == dns.TypeRRSIG || rr.Type == dns.TypeNSEC || rr.Type == dns.TypeNSEC3 {
			f.sigs = true
		}
	}
	return f
}

func sigReal(o *outcome) string {
	if o == nil {
		return "pending"
	}
	switch o.Class {
	case "dns":
		s := "dns:" + factsDNS(o.Body).rc
		if o.QuicCode != 0 || o.Err != "" {
			s += "+connerr"
		}
		return s
	case "json":
		return "json:" + factsJSON(o.Body).rc
	case "status":
		return fmt.Sprintf("status:%d", o.Status)
	case "connerr":
		return fmt.Sprintf("connerr:%d", o.QuicCode)
	}
	return o.Class
}

// sigModel maps the model's out[e]; final=false while the model has not finished the exchange for the client.
func sigModel(items []itemIn, doq bool) (sig string, final bool) {
	if len(items) == 0 {
		return "pending", false
	}
	last := items[len(items)-1]
	first := items[0]
	if !doq {
		switch first.T {
		case "dns", "json":
			return first.T + ":" + first.Rc, true
		case "status":
			return fmt.Sprintf("status:%d", first.Code), true
		}
		return first.T, true
	}
	switch {
	case first.T == "dns" && last.T == "fin":
		return "dns:" + first.Rc, true
	case first.T == "dns" && last.T == "connerr":
		return "dns:" + first.Rc + "+connerr", true
	case first.T == "dns":
		return "dns:" + first.Rc, false
	case first.T == "fin":
		return "empty", true
	case first.T == "connerr":
		return fmt.Sprintf("connerr:%d", first.Code), true
	}
	return first.T, true
}

// ---------------------------------------------------------------------------
// live connections

type liveConn struct {
	tr   string
	http *httpConn
	doq  *doqConn
	h1mu sync.Mutex
}

func dialConn(r *rig, tr string) (*liveConn, error) {
	lc := &liveConn{tr: tr}
	if tr == "doq" {
		c, err := dialDoQ(r)
		if err != nil {
			return nil, err
		}
		lc.doq = c
		return lc, nil
	}
	lc.http = dialHTTP(r, tr)
	if err := lc.http.warm(); err != nil {
		return nil, err
	}
	return lc, nil
}

func (lc *liveConn) close() {
	if lc.doq != nil {
		lc.doq.close()
	}
	if lc.http != nil {
		lc.http.close()
	}
}

func (lc *liveConn) exchange(b *built) *outcome {
	if lc.doq != nil {
		return lc.doq.exchange(b)
	}
	return lc.http.exchange(b)
}

func (lc *liveConn) closed() bool {
	if lc.doq == nil {
		return false
	}
	c, _, _ := lc.doq.closedByPeer()
	return c
}

// prime fills the cache with the shared "hit" names.
func prime(r *rig) error {
	c := dialHTTP(r, "h2")
	defer c.close()
	for _, qt := range []string{"A", "TXT"} {
		for _, cd := range []bool{false, true} {
			b, err := build(xspec{Tr: "h2", Form: "post", Kind: "hit", Qtype: qt, CD: cd, Edns: "do"})
			if err != nil {
				return err
			}
			if o := c.exchange(b); o.Class != "dns" {
				return fmt.Errorf("priming %s: %s %s", b.name, o.short(), o.Err)
			}
		}
	}
	return nil
}

// ---------------------------------------------------------------------------
// replay

type exRun struct {
	e        int
	c        int
	b        *built
	g        *gate
	res      chan *outcome
	out      *outcome
	released bool
}

func (x *exRun) poll() {
	if x.out == nil {
		select {
		case o := <-x.res:
			x.out = o
		default:
		}
	}
}

func (x *exRun) wait(d time.Duration) bool {
	if x.out != nil {
		return true
	}
	select {
	case o := <-x.res:
		x.out = o
		return true
	case <-time.After(d):
		return false
	}
}

func (x *exRun) parkedNow() bool {
	if x.g == nil || x.released {
		return false
	}
	select {
	case <-x.g.parked:
		return true
	default:
		return false
	}
}

const stepWait = 12 * time.Second

func violate(res *vh.Result, f finding, driver, where string, b *built, o *outcome, extra map[string]any) {
	rep := map[string]any{"driver": driver, "where": where, "exchange": b.x, "name": b.name,
		"queryWire": fmt.Sprintf("%x", b.wire), "payloadLen": len(b.payload), "target": b.target, "method": b.method,
		"outcome": o, "reply": fmt.Sprintf("%x", o.Body[:min(len(o.Body), 600)])}
	for k, v := range extra {
		rep[k] = v
	}
	res.Violate(f.key, fmt.Sprintf("[%s %s] %s %s/%s mal=%q kind=%s: %s", driver, where, b.x.Tr, b.x.Form, b.name, b.x.Mal, b.x.Kind, f.what), rep)
}

func runBehaviour(r *rig, res *vh.Result, bi int, beh *behIn) {
	conns := map[int]*liveConn{}
	runs := map[int]*exRun{}
	defer func() {
		for _, x := range runs {
			if x.g != nil {
				x.g.open()
				r.tail.disarm(x.b.name)
			}
		}
		for _, c := range conns {
			c.close()
		}
	}()
	labels := make([]string, 0, len(beh.Steps))
	drifted, stalled := false, false
	drift := func(format string, a ...any) {
		if !drifted {
			res.DriftNote("%s: "+format, append([]any{beh.Name}, a...)...)
		}
		drifted = true
	}
	getConn := func(c int) *liveConn {
		if lc := conns[c]; lc != nil {
			return lc
		}
		lc, err := dialConn(r, beh.Conns[fmt.Sprint(c)])
		if err != nil {
			res.Skip("%s: dial %s: %v", beh.Name, beh.Conns[fmt.Sprint(c)], err)
			return nil
		}
		conns[c] = lc
		return lc
	}

	for si := range beh.Steps {
		st := &beh.Steps[si]
		labels = append(labels, st.Label)
		switch st.Op {
		case "start":
			lc := getConn(st.C)
			if lc == nil {
				stalled = true
				break
			}
			x := *st.X
			x.Tr, x.E, x.Conn = lc.tr, st.E, st.C
			x.Nonce = fmt.Sprintf("r%dx%dx%d", vh.Seed(), bi, st.E)
			b, err := build(x)
			if err != nil {
				res.Skip("%s: build %+v: %v", beh.Name, x, err)
				stalled = true
				break
			}
			run := &exRun{e: st.E, c: st.C, b: b, res: make(chan *outcome, 1)}
			if x.Kind != "hit" {
				run.g = r.tail.arm(b.name)
			}
			runs[st.E] = run
			go func() { run.res <- lc.exchange(b) }()
			var parked <-chan struct{}
			if run.g != nil {
				parked = run.g.parked
			}
			select {
			case o := <-run.res:
				run.out = o
			case <-parked:
			case <-time.After(stepWait):
				stalled = true
			}
		case "release":
			run := runs[st.E]
			if run == nil || run.g == nil {
				drift("release of exchange %d which has no gate", st.E)
				break
			}
			if !run.parkedNow() {
				drift("step %d %s: the model releases exchange %d, the real handler is not parked at the tail", si, st.Label, st.E)
			}
			wasParked := run.parkedNow()
			run.released = true
			run.g.open()
			if wasParked {
				select {
				case <-run.g.done:
				case <-time.After(stepWait):
					stalled = true
				}
			}
		case "redial":
			if lc := conns[st.C]; lc != nil {
				lc.close()
				delete(conns, st.C)
			}
			if getConn(st.C) == nil {
				stalled = true
			}
		}
		if stalled {
			break
		}
		// ---- settle, then compare the projection with the model's state after this step ----
		for e, items := range st.Post.Out {
			var ei int
			fmt.Sscan(e, &ei)
			run := runs[ei]
			if run == nil {
				continue
			}
			if _, final := sigModel(items, run.b.x.Tr == "doq"); final {
				if run.parkedNow() {
					// its handler sits at the gate: only a connection error can end it for the client
					run.wait(2 * time.Second)
				} else if !run.wait(stepWait) {
					stalled = true
				}
			}
		}
		if stalled {
			break
		}
		// a closed connection shows on the client a moment after the stream error
		for _, c := range st.Post.Closed {
			if lc := conns[c]; lc != nil {
				waitFor(2*time.Second, lc.closed)
			}
		}
		var realParked, realClosed []int
		for e, run := range runs {
			run.poll()
			if run.parkedNow() {
				realParked = append(realParked, e)
			}
		}
		for c, lc := range conns {
			if lc.closed() {
				realClosed = append(realClosed, c)
			}
		}
		sort.Ints(realParked)
		sort.Ints(realClosed)
		mp, mc := append([]int{}, st.Post.Parked...), append([]int{}, st.Post.Closed...)
		sort.Ints(mp)
		sort.Ints(mc)
		if fmt.Sprint(mp) != fmt.Sprint(realParked) {
			drift("step %d %s: parked at the tail: model %v, real %v", si, st.Label, mp, realParked)
		}
		// the model keeps a connection it never dialled "open"; compare the ones in use
		mcUsed := mc[:0]
		for _, c := range mc {
			if conns[c] != nil {
				mcUsed = append(mcUsed, c)
			}
		}
		if fmt.Sprint(mcUsed) != fmt.Sprint(realClosed) {
			drift("step %d %s: connections closed by the server: model %v, real %v", si, st.Label, mcUsed, realClosed)
		}
		for e, items := range st.Post.Out {
			var ei int
			fmt.Sscan(e, &ei)
			run := runs[ei]
			if run == nil {
				continue
			}
			ms, final := sigModel(items, run.b.x.Tr == "doq")
			rs := sigReal(run.out)
			if !final {
				if run.out != nil {
					drift("step %d %s: exchange %d finished for the client (%s), the model has it in flight", si, st.Label, ei, rs)
				}
				continue
			}
			if ms != rs {
				errs := ""
				if run.out != nil {
					errs = run.out.Err
				}
				drift("step %d %s: exchange %d (%s %s mal=%q kind=%s): model %s, real %s %s", si, st.Label, ei, run.b.x.Tr, run.b.x.Form,
					run.b.x.Mal, run.b.x.Kind, ms, rs, errs)
				continue
			}
			// the reply's own facts
			if run.out.Class == "dns" || run.out.Class == "json" {
				it := items[0]
				var f replyFacts
				if run.out.Class == "dns" {
					f = factsDNS(run.out.Body)
				} else {
					f = factsJSON(run.out.Body)
				}
				if f.opt != it.Opt || f.sigs != it.Sigs || f.ad != it.Ad || f.tc != it.Tc || f.ka != it.Ka || f.other != it.Foreign {
					drift("step %d %s: exchange %d reply facts: model opt=%v sigs=%v ad=%v tc=%v ka=%v foreign=%v, real opt=%v sigs=%v ad=%v tc=%v ka=%v foreign=%v",
						si, st.Label, ei, it.Opt, it.Sigs, it.Ad, it.Tc, it.Ka, it.Foreign, f.opt, f.sigs, f.ad, f.tc, f.ka, f.other)
				}
			}
		}
		res.Count("replay_steps", 1)
	}

	// ---- the end: let everything finish, judge every exchange ----
	for _, x := range runs {
		if x.g != nil {
			x.released = true
			x.g.open()
		}
	}
	for _, x := range runs {
		if !x.wait(stepWait) {
			stalled = true
		}
	}
	if stalled {
		res.Count("replay_stalled", 1)
		return
	}
	res.Count("replay_behaviours", 1)
	if drifted {
		res.Count("replay_drifted", 1)
	}
	for _, x := range runs {
		key := fmt.Sprintf("%s/%s/%s/%s/%s/%s", x.b.x.Tr, x.b.x.Form, x.b.x.Mal, x.b.x.Kind, x.b.x.Edns, sigReal(x.out))
		res.Case(key)
		res.Count("replay_exchanges", 1)
		res.Count("replay_"+x.b.x.Tr, 1)
		if x.out.Class == "dns" || x.out.Class == "json" {
			res.Count("replay_replies", 1)
		}
		fs, obs := judgeExchange(x.b, x.out)
		for _, f := range fs {
			violate(res, f, "replay", beh.Name, x.b, x.out, map[string]any{"steps": labels, "behaviour": beh})
		}
		for _, o := range obs {
			res.Count("obs_"+o+"_"+x.b.x.Tr, 1)
		}
	}
	if n := r.tail.secondAccepted.Load(); n > 0 {
		res.Count("second_write_accepted", int(n))
	}
}

func replay(r *rig, res *vh.Result, in *replayIn) {
	for bi := range in.Behaviours {
		if res.NViolations() >= 8 {
			break
		}
		runBehaviour(r, res, bi, &in.Behaviours[bi])
	}
	res.Count("tail_second_refused", int(r.tail.secondRefused.Load()))
	res.Count("tail_second_accepted", int(r.tail.secondAccepted.Load()))
	res.Count("head_panics", int(r.head.panics.Load()))
}

// ---------------------------------------------------------------------------
// stress

type history struct {
	mu    sync.Mutex
	lines []map[string]any
}

func (h *history) log(ev map[string]any) {
	h.mu.Lock()
	h.lines = append(h.lines, ev)
	h.mu.Unlock()
}

func reqJSON(x xspec) map[string]any {
	mal := x.Mal
	if mal == "" {
		mal = "none"
	}
	return map[string]any{"form": x.Form, "mal": mal, "kind": x.Kind, "idnz": x.IDnz, "edns": modelEdns(x.Edns), "ad": x.AD, "cd": x.CD}
}

// modelEdns folds the byte-level EDNS variants into the model's classes.
func modelEdns(e string) string {
	switch e {
	case "", "none":
		return "none"
	case "do", "ka", "all":
		return e
	}
	return "plain"
}

// gotItems renders what the client received in the model's vocabulary.
func gotItems(b *built, o *outcome, owner func(name string) int, self int) []map[string]any {
	item := func(t string, f replyFacts) map[string]any {
		from := self
		if f.qname != "" {
			from = owner(f.qname)
		}
		id := f.id
		switch {
		case id == 0:
		case id == int(b.id):
			id = 7
		default:
			id = 9
		}
		op := "query"
		if t == "dns" && len(o.Body) >= 3 && (o.Body[2]>>3)&0xF != 0 {
			op = "status"
		}
		return map[string]any{"t": t, "from": from, "id": id, "rc": f.rc, "op": op, "q": f.q, "opt": f.opt, "sigs": f.sigs, "ad": f.ad,
			"tc": f.tc, "ka": f.ka, "foreign": f.other, "big": false}
	}
	switch o.Class {
	case "json":
		return []map[string]any{item("json", factsJSON(o.Body))}
	case "status":
		return []map[string]any{{"t": "status", "code": o.Status}}
	case "reset":
		return []map[string]any{{"t": "reset"}}
	case "empty":
		return []map[string]any{{"t": "fin"}}
	case "connerr":
		return []map[string]any{{"t": "connerr", "code": o.QuicCode}}
	case "dns":
		if b.x.Tr != "doq" {
			return []map[string]any{item("dns", factsDNS(o.Body))}
		}
		var out []map[string]any
		for _, fr := range o.Frames {
			out = append(out, item("dns", factsDNS(fr)))
		}
		if o.Err != "" {
			out = append(out, map[string]any{"t": "connerr", "code": o.QuicCode})
		} else {
			out = append(out, map[string]any{"t": "fin"})
		}
		return out
	}
	return []map[string]any{{"t": o.Class}}
}

// stressMenu is what the free-running clients draw from: every kind of answer, and the refusals that matter
// under concurrency (a DoQ refusal closes the connection under the other streams).
func stressSpec(rng *rand.Rand, tr string) xspec {
	ed := []string{"none", "plain", "do", "ka", "all", "cookie", "ecs", "nsid", "pad"}[rng.Intn(9)]
	x := xspec{Tr: tr, IDnz: rng.Intn(3) > 0, Edns: ed, AD: rng.Intn(4) == 0, CD: rng.Intn(5) == 0, Qtype: []string{"A", "TXT"}[rng.Intn(2)]}
	kinds := []string{"a", "a", "hit", "hit", "st", "pt", "dw", "bg", "sg", "op"}
	x.Kind = kinds[rng.Intn(len(kinds))]
	if x.Kind == "bg" {
		x.Qtype = "TXT"
	}
	if tr == "doq" {
		x.Form = "frame"
		switch rng.Intn(12) {
		case 0:
			x.Mal = []string{"two-msgs", "trailing", "garbage", "short", "len-long", "empty"}[rng.Intn(6)]
		case 1:
			x.Mal = []string{"qr", "opcode", "qd0", "qd2", "badvers"}[rng.Intn(5)]
		}
		return x
	}
	x.Form = []string{"get", "post", "post", "json"}[rng.Intn(4)]
	if x.Form == "json" {
		if x.Edns != "do" && x.Edns != "all" {
			x.Edns = "none"
		}
		if x.Edns == "all" {
			x.Edns = "do"
		}
		x.IDnz = false
		if x.Kind == "op" {
			x.Kind = "a"
		}
		if rng.Intn(10) == 0 {
			x.Mal = []string{"json-noname", "json-badtype", "json-type0", "json-post"}[rng.Intn(4)]
		}
		return x
	}
	switch rng.Intn(10) {
	case 0:
		if x.Form == "get" {
			x.Mal = []string{"b64-pad", "b64-junk", "short", "garbage", "method"}[rng.Intn(5)]
		} else {
			x.Mal = []string{"ctype", "noctype", "short", "garbage", "two-msgs", "trailing", "empty"}[rng.Intn(7)]
		}
	case 1:
		x.Mal = []string{"qr", "opcode", "qd0", "qd2", "badvers"}[rng.Intn(5)]
	case 2:
		if x.Kind == "a" {
			x.Kind = "ph"
		}
	}
	return x
}

func stress(r *rig, res *vh.Result, in *stressIn) {
	rng := vh.Rand()
	hist := &history{}
	layout := []string{"doq", "h2", "h3", "h1"} // connection ids 1..4, as AllFour
	var owners sync.Map                         // qname -> exchange id of the current round
	r.tail.mu.Lock()
	r.tail.onCall = func(name string) {
		if e, ok := owners.Load(name); ok {
			hist.log(map[string]any{"ev": "park", "e": e})
		}
	}
	r.tail.onRet = func(name string) {
		if e, ok := owners.Load(name); ok {
			hist.log(map[string]any{"ev": "ret", "e": e})
		}
	}
	r.tail.delay = func(name string) time.Duration {
		return time.Duration(int(name[len(name)/2])%4) * 700 * time.Microsecond
	}
	r.tail.mu.Unlock()
	defer func() {
		r.tail.mu.Lock()
		r.tail.onCall, r.tail.onRet, r.tail.delay = nil, nil, nil
		r.tail.mu.Unlock()
	}()

	for round := 0; round < in.Rounds && res.NViolations() < 8; round++ {
		conns := make([]*liveConn, len(layout))
		ok := true
		for i, tr := range layout {
			lc, err := dialConn(r, tr)
			if err != nil {
				res.Skip("stress round %d: dial %s: %v", round, tr, err)
				ok = false
				break
			}
			conns[i] = lc
		}
		if !ok {
			for _, lc := range conns {
				if lc != nil {
					lc.close()
				}
			}
			continue
		}
		owners.Range(func(k, _ any) bool { owners.Delete(k); return true })
		mark := len(hist.lines)
		hist.log(map[string]any{"ev": "Reset"})
		type job struct {
			e    int
			b    *built
			o    *outcome
			c    int
			fail bool
		}
		// draw the round: most exchanges on the multiplexed connections
		n := in.PerRound
		jobs := make([]*job, n)
		var next int
		var nextMu sync.Mutex
		var wg sync.WaitGroup
		for i := 0; i < n; i++ {
			c := []int{0, 0, 0, 1, 1, 2, 3}[rng.Intn(7)]
			x := stressSpec(rng, layout[c])
			x.Nonce = fmt.Sprintf("s%dr%dk%d", vh.Seed(), round, i)
			j := &job{c: c}
			jobs[i] = j
			jit := time.Duration(rng.Intn(3000)) * time.Microsecond
			wg.Add(1)
			go func(x xspec, j *job) {
				defer wg.Done()
				time.Sleep(jit)
				lc := conns[j.c]
				if lc.tr == "h1" {
					lc.h1mu.Lock()
					defer lc.h1mu.Unlock()
				}
				b, err := build(x)
				if err != nil {
					j.fail = true
					return
				}
				j.b = b
				// the exchange id is taken, and the send line written, under one lock: ids follow the log order
				nextMu.Lock()
				next++
				j.e = next
				b.x.E, b.x.Conn = j.e, j.c+1
				if x.Kind != "hit" {
					owners.Store(strings.ToLower(b.name), j.e)
				}
				hist.log(map[string]any{"ev": "send", "e": j.e, "c": j.c + 1, "r": reqJSON(x)})
				nextMu.Unlock()
				j.o = lc.exchange(b)
				hist.log(map[string]any{"ev": "recv", "e": j.e, "got": gotItems(b, j.o, func(name string) int {
					if strings.HasPrefix(name, "hit-") {
						return j.e
					}
					if e, ok := owners.Load(name); ok {
						return e.(int)
					}
					return 0
				}, j.e)})
			}(x, j)
		}
		wg.Wait()
		// handlers whose client is gone (a connection closed under them) still log: let them finish inside the round
		waitFor(3*time.Second, func() bool { return r.tail.inTail.Load() == 0 })
		for _, lc := range conns {
			lc.close()
		}
		stalled := false
		for _, j := range jobs {
			if j.fail || j.o == nil || j.o.Class == "timeout" || j.o.Class == "neterr" {
				stalled = true
			}
		}
		if stalled {
			// a round the machine could not carry is dropped from the history (never judged)
			owners.Range(func(k, _ any) bool { owners.Delete(k); return true })
			hist.mu.Lock()
			hist.lines = hist.lines[:mark]
			hist.mu.Unlock()
			res.Count("stress_stalled_rounds", 1)
			continue
		}
		res.Count("stress_rounds", 1)
		for _, j := range jobs {
			res.Case(fmt.Sprintf("stress/%s/%s/%s/%s/%s", j.b.x.Tr, j.b.x.Form, j.b.x.Mal, j.b.x.Kind, sigReal(j.o)))
			res.Count("stress_exchanges", 1)
			res.Count("stress_"+j.b.x.Tr, 1)
			if j.o.Class == "dns" || j.o.Class == "json" {
				res.Count("stress_replies", 1)
			}
			if j.o.Class == "connerr" {
				res.Count("stress_connerr", 1)
			}
			fs, obs := judgeExchange(j.b, j.o)
			for _, f := range fs {
				violate(res, f, "stress", fmt.Sprintf("round %d", round), j.b, j.o, map[string]any{"round": round})
			}
			for _, o := range obs {
				res.Count("obs_"+o+"_"+j.b.x.Tr, 1)
			}
		}
	}
	if in.TraceOut != "" {
		f, err := os.Create(in.TraceOut)
		if err != nil {
			res.Skip("stress: trace file: %v", err)
			return
		}
		enc := json.NewEncoder(f)
		hist.mu.Lock()
		for _, ln := range hist.lines {
			_ = enc.Encode(ln)
		}
		res.Count("stress_trace_lines", len(hist.lines))
		hist.mu.Unlock()
		_ = f.Close()
	}
}

// ---------------------------------------------------------------------------

func withRig(t *testing.T, res *vh.Result, f func(r *rig)) {
	r, err := newRig(vh.Scratch(t))
	if err != nil {
		res.Skip("rig: %v", err)
		return
	}
	defer func() {
		if !r.stop() {
			res.Count("shutdown_incomplete", 1)
		}
	}()
	if err := prime(r); err != nil {
		res.Skip("priming the cache: %v", err)
		return
	}
	f(r)
}

func TestReplay(t *testing.T) {
	var in replayIn
	vh.Input(t, &in)
	res := vh.NewResult()
	defer res.Write(t)
	withRig(t, res, func(r *rig) { replay(r, res, &in) })
}

func TestStress(t *testing.T) {
	var in stressIn
	vh.Input(t, &in)
	res := vh.NewResult()
	defer res.Write(t)
	withRig(t, res, func(r *rig) { stress(r, res, &in) })
}

func TestAll(t *testing.T) {
	var in allIn
	vh.Input(t, &in)
	res := vh.NewResult()
	defer res.Write(t)
	withRig(t, res, func(r *rig) {
		if in.Stress != nil {
			stress(r, res, in.Stress)
		}
		if in.Replay != nil && res.NViolations() == 0 {
			replay(r, res, in.Replay)
		}
	})
}
