package x06fe

// Kit of the X06FE drivers: the real server.Server with its DoH (HTTP/1.1 and
// HTTP/2 over TLS), DoH3 and DoQ listeners on loopback under a self-generated
// certificate, the real default chain up to and including the cache, and a
// scripted, gateable tail whose answers encode the question.  Clients speak
// the four framings byte by byte and hand back everything that arrived on the
// exchange / stream.

import (
	"bytes"
	"context"
	"crypto/ecdsa"
	"crypto/elliptic"
	crand "crypto/rand"
	"crypto/sha256"
	"crypto/tls"
	"crypto/x509"
	"crypto/x509/pkix"
	"encoding/base64"
	"encoding/binary"
	"encoding/pem"
	"errors"
	"fmt"
	"io"
	"math/big"
	"net"
	"net/http"
	"net/url"
	"os"
	"path/filepath"
	"strings"
	"sync"
	"sync/atomic"
	"time"

	"github.com/miekg/dns"
	"github.com/quic-go/quic-go"
	"github.com/quic-go/quic-go/http3"
	"github.com/semihalev/sdns/config"
	"github.com/semihalev/sdns/middleware"
	"github.com/semihalev/sdns/middleware/cache"
	"github.com/semihalev/sdns/middleware/defaults"
	"github.com/semihalev/sdns/server"
	"github.com/semihalev/sdns/verifharness/pipe"
)

const zone = "fe.test."

// ---------------------------------------------------------------------------
// certificate and ports

func selfSigned(dir string) (certFile, keyFile string, err error) {
	key, err := ecdsa.GenerateKey(elliptic.P256(), crand.Reader)
	if err != nil {
		return "", "", err
	}
	tmpl := &x509.Certificate{
		SerialNumber: big.NewInt(time.Now().UnixNano()),
		Subject:      pkix.Name{CommonName: "x06fe.verif.test"},
		NotBefore:    time.Now().Add(-time.Hour),
		NotAfter:     time.Now().Add(24 * time.Hour),
		KeyUsage:     x509.KeyUsageDigitalSignature,
		ExtKeyUsage:  []x509.ExtKeyUsage{x509.ExtKeyUsageServerAuth},
		DNSNames:     []string{"localhost"},
		IPAddresses:  []net.IP{net.IPv4(127, 0, 0, 1)},
	}
	der, err := x509.CreateCertificate(crand.Reader, tmpl, tmpl, &key.PublicKey, key)
	if err != nil {
		return "", "", err
	}
	kb, err := x509.MarshalECPrivateKey(key)
	if err != nil {
		return "", "", err
	}
	certFile, keyFile = filepath.Join(dir, "fe-cert.pem"), filepath.Join(dir, "fe-key.pem")
	if err = os.WriteFile(certFile, pem.EncodeToMemory(&pem.Block{Type: "CERTIFICATE", Bytes: der}), 0o600); err != nil {
		return "", "", err
	}
	err = os.WriteFile(keyFile, pem.EncodeToMemory(&pem.Block{Type: "EC PRIVATE KEY", Bytes: kb}), 0o600)
	return certFile, keyFile, err
}

// freePort finds a port free for both TCP and UDP on loopback.
func freePort() (int, error) {
	for try := 0; try < 50; try++ {
		l, err := net.Listen("tcp", "127.0.0.1:0")
		if err != nil {
			return 0, err
		}
		port := l.Addr().(*net.TCPAddr).Port
		pc, err := net.ListenPacket("udp", fmt.Sprintf("127.0.0.1:%d", port))
		_ = l.Close()
		if err == nil {
			_ = pc.Close()
			return port, nil
		}
	}
	return 0, fmt.Errorf("no port free for tcp+udp")
}

func waitFor(d time.Duration, f func() bool) bool {
	deadline := time.Now().Add(d)
	for {
		if f() {
			return true
		}
		if time.Now().After(deadline) {
			return false
		}
		time.Sleep(3 * time.Millisecond)
	}
}

// ---------------------------------------------------------------------------
// answers encode the question: rdata = f(qname, qtype)

const (
	bigTXTs     = 16 // ~3.4 kB: above 1232 and above 512, far below 64 kB
	bigTXTChunk = 200
	serverNSID  = "vx06fe"
	upstreamTTL = 300
	shortTTL    = 7
)

func bigTXT(name string, i int) string {
	var sb strings.Builder
	for k := 0; sb.Len() < bigTXTChunk; k++ {
		h := sha256.Sum256([]byte(fmt.Sprintf("%s|%d|%d", name, i, k)))
		sb.WriteString(fmt.Sprintf("%x", h[:]))
	}
	return sb.String()[:bigTXTChunk]
}

func firstLabelOf(name string) string {
	if i := strings.IndexByte(name, '.'); i >= 0 {
		return strings.ToLower(name[:i])
	}
	return strings.ToLower(name)
}

func kindOfName(name string) string {
	lab := firstLabelOf(name)
	if i := strings.IndexByte(lab, '-'); i > 0 {
		return lab[:i]
	}
	return ""
}

// answerRRs is f(question): the only answer section a reply to (name, qtype) may carry
// (apart from the RRSIG the "sg" kind adds for DO clients).
func answerRRs(name string, qtype uint16) []dns.RR {
	name = strings.ToLower(name)
	h := sha256.Sum256([]byte(name))
	ttl := uint32(upstreamTTL)
	if kindOfName(name) == "tt" {
		ttl = shortTTL
	}
	switch qtype {
	case dns.TypeA:
		return []dns.RR{
			&dns.A{Hdr: dns.RR_Header{Name: name, Rrtype: dns.TypeA, Class: dns.ClassINET, Ttl: ttl}, A: net.IPv4(10, h[0], h[1], h[2])},
			&dns.A{Hdr: dns.RR_Header{Name: name, Rrtype: dns.TypeA, Class: dns.ClassINET, Ttl: ttl + 60}, A: net.IPv4(10, h[3], h[4], h[5])},
		}
	case dns.TypeTXT:
		if kindOfName(name) == "bg" {
			out := make([]dns.RR, 0, bigTXTs)
			for i := 0; i < bigTXTs; i++ {
				out = append(out, &dns.TXT{Hdr: dns.RR_Header{Name: name, Rrtype: dns.TypeTXT, Class: dns.ClassINET, Ttl: ttl},
					Txt: []string{bigTXT(name, i)}})
			}
			return out
		}
		return []dns.RR{&dns.TXT{Hdr: dns.RR_Header{Name: name, Rrtype: dns.TypeTXT, Class: dns.ClassINET, Ttl: ttl},
			Txt: []string{"fe:" + name, fmt.Sprintf("%x", h[:8])}}}
	}
	return nil
}

func rrKey(rr dns.RR) string {
	switch x := rr.(type) {
	case *dns.A:
		return strings.ToLower(x.Hdr.Name) + "/A/" + x.A.String()
	case *dns.TXT:
		return strings.ToLower(x.Hdr.Name) + "/TXT/" + strings.Join(x.Txt, "|")
	}
	return "other/" + rr.String()
}

func fakeSig(name string, covered uint16) dns.RR {
	return &dns.RRSIG{Hdr: dns.RR_Header{Name: name, Rrtype: dns.TypeRRSIG, Class: dns.ClassINET, Ttl: upstreamTTL},
		TypeCovered: covered, Algorithm: 13, Labels: uint8(dns.CountLabel(name)), OrigTtl: upstreamTTL,
		Expiration: 2000000000, Inception: 1000000000, KeyTag: 4711, SignerName: zone, Signature: "c2lnbmF0dXJl"}
}

// ---------------------------------------------------------------------------
// scripted handlers

// headHandler stands before the recovery middleware: for "ph-" names it panics
// where only the transport's own guard (net/http, http3) can catch it.
type headHandler struct{ panics atomic.Int64 }

func (h *headHandler) Name() string { return "verif-x06fe-head" }
func (h *headHandler) ServeDNS(ctx context.Context, ch *middleware.Chain) {
	if ch.Request != nil {
		if m := ch.Request.Msg(); m != nil && len(m.Question) == 1 && kindOfName(m.Question[0].Name) == "ph" {
			h.panics.Add(1)
			panic("verif x06fe: scripted panic ahead of the recovery middleware")
		}
	}
	ch.Next(ctx)
}

// gate parks one tail call until the driver releases it.
type gate struct {
	parked  chan struct{} // closed when the handler goroutine reached the tail
	release chan struct{} // closed by the driver
	done    chan struct{} // closed when the tail returned
	once    sync.Once
}

type feTail struct {
	mu     sync.Mutex
	gates  map[string]*gate // lower-cased qname -> gate
	calls  atomic.Int64
	inTail atomic.Int64 // handlers currently inside the tail
	silent atomic.Int64
	panics atomic.Int64
	double atomic.Int64
	// second-write outcome of the "dw" kind: refused / accepted
	secondRefused, secondAccepted atomic.Int64
	onCall                        func(name string)               // optional: a query reached the tail
	onRet                         func(name string)               // optional: the tail is done with it
	delay                         func(name string) time.Duration // optional: free-running dwell time
}

func (t *feTail) Name() string { return "verif-x06fe-tail" }

func (t *feTail) arm(name string) *gate {
	g := &gate{parked: make(chan struct{}), release: make(chan struct{}), done: make(chan struct{})}
	t.mu.Lock()
	if t.gates == nil {
		t.gates = map[string]*gate{}
	}
	t.gates[strings.ToLower(name)] = g
	t.mu.Unlock()
	return g
}

func (t *feTail) disarm(name string) {
	t.mu.Lock()
	delete(t.gates, strings.ToLower(name))
	t.mu.Unlock()
}

func (g *gate) open() { g.once.Do(func() { close(g.release) }) }

func upstreamAnswer(req *dns.Msg) *dns.Msg {
	q := req.Question[0]
	m := new(dns.Msg)
	m.SetReply(req)
	m.RecursionAvailable = true
	m.Answer = answerRRs(q.Name, q.Qtype)
	switch kindOfName(q.Name) {
	case "sg":
		// a "validated" answer: signatures in the answer, a denial-shaped authority, AD asserted
		m.AuthenticatedData = true
		m.Answer = append(m.Answer, fakeSig(strings.ToLower(q.Name), q.Qtype))
		nsec := &dns.NSEC{Hdr: dns.RR_Header{Name: zone, Rrtype: dns.TypeNSEC, Class: dns.ClassINET, Ttl: upstreamTTL},
			NextDomain: "z." + zone, TypeBitMap: []uint16{dns.TypeSOA, dns.TypeNSEC, dns.TypeRRSIG}}
		m.Ns = []dns.RR{nsec, fakeSig(zone, dns.TypeNSEC)}
	case "op":
		// an upstream reply carrying its own OPT: its options belong to that hop
		o := new(dns.OPT)
		o.Hdr.Name, o.Hdr.Rrtype = ".", dns.TypeOPT
		o.SetUDPSize(4096)
		o.Option = []dns.EDNS0{
			&dns.EDNS0_SUBNET{Code: dns.EDNS0SUBNET, Family: 1, SourceNetmask: 24, SourceScope: 24, Address: net.IPv4(198, 51, 100, 0)},
			&dns.EDNS0_TCP_KEEPALIVE{Code: dns.EDNS0TCPKEEPALIVE, Timeout: 100},
			&dns.EDNS0_COOKIE{Code: dns.EDNS0COOKIE, Cookie: "aaaaaaaaaaaaaaaabbbbbbbbbbbbbbbb"},
			&dns.EDNS0_PADDING{Padding: make([]byte, 11)},
			&dns.EDNS0_LOCAL{Code: 65001, Data: []byte("upstream")},
		}
		m.Extra = append(m.Extra, o)
	}
	return m
}

func (t *feTail) ServeDNS(ctx context.Context, ch *middleware.Chain) {
	ctx, req := ch.Materialize(ctx)
	if req == nil {
		return
	}
	defer ch.Cancel()
	t.calls.Add(1)
	t.inTail.Add(1)
	defer t.inTail.Add(-1)
	if len(req.Question) != 1 {
		return
	}
	name := strings.ToLower(req.Question[0].Name)
	t.mu.Lock()
	g, onCall, onRet, delay := t.gates[name], t.onCall, t.onRet, t.delay
	t.mu.Unlock()
	if onCall != nil {
		onCall(name)
	}
	if onRet != nil {
		defer onRet(name)
	}
	if g != nil {
		defer close(g.done)
		close(g.parked)
		select {
		case <-g.release:
		case <-time.After(30 * time.Second):
		}
	} else if delay != nil {
		time.Sleep(delay(name))
	}
	switch kindOfName(name) {
	case "st":
		t.silent.Add(1)
		return
	case "pt":
		t.panics.Add(1)
		panic("verif x06fe: scripted panic in the tail")
	case "dw":
		t.double.Add(1)
		_ = ch.Writer.WriteMsg(upstreamAnswer(req))
		// a second, different reply for the same request: must be refused by the written-once writer
		second := new(dns.Msg)
		second.SetRcode(req, dns.RcodeRefused)
		if err := ch.Writer.WriteMsg(second); err != nil {
			t.secondRefused.Add(1)
		} else {
			t.secondAccepted.Add(1)
		}
		return
	}
	_ = ch.Writer.WriteMsg(upstreamAnswer(req))
}

// ---------------------------------------------------------------------------
// the rig

type rig struct {
	srv    *server.Server
	cfg    *config.Config
	head   *headHandler
	tail   *feTail
	cancel context.CancelFunc
	pDOH   int
	pDOQ   int
	dir    string
}

var rigMu sync.Mutex

func newRig(scratch string) (*rig, error) {
	dir, err := os.MkdirTemp(scratch, "x06fe-")
	if err != nil {
		return nil, err
	}
	certFile, keyFile, err := selfSigned(dir)
	if err != nil {
		return nil, fmt.Errorf("self-signed certificate: %w", err)
	}
	var last error
	for attempt := 0; attempt < 4; attempt++ {
		pDOH, e1 := freePort()
		pDOQ, e2 := freePort()
		if e1 != nil || e2 != nil {
			return nil, fmt.Errorf("no free loopback ports")
		}
		r, err := startRig(dir, certFile, keyFile, pDOH, pDOQ)
		if err != nil {
			last = err
			continue
		}
		up := func() bool {
			return r.srv.HasListener("doh") && r.srv.HasListener("doh3") && r.srv.HasListener("doq")
		}
		if waitFor(8*time.Second, up) {
			return r, nil
		}
		last = fmt.Errorf("doh=%v doh3=%v doq=%v after 8s", r.srv.HasListener("doh"), r.srv.HasListener("doh3"), r.srv.HasListener("doq"))
		r.stop()
	}
	return nil, fmt.Errorf("listeners did not come up: %v", last)
}

func startRig(dir, certFile, keyFile string, pDOH, pDOQ int) (*rig, error) {
	rigMu.Lock()
	defer rigMu.Unlock()
	cfg := pipe.BaseConfig()
	cfg.Bind = "127.0.0.1:0"
	cfg.AccessList = []string{"0.0.0.0/0", "::0/0"}
	cfg.QueryTimeout.Duration = 20 * time.Second // a parked exchange must not meet its deadline; also the shutdown budget
	cfg.NSID = serverNSID
	cfg.BindDOH = fmt.Sprintf("127.0.0.1:%d", pDOH)
	cfg.BindDOQ = fmt.Sprintf("127.0.0.1:%d", pDOQ)
	cfg.TLSCertificate, cfg.TLSPrivateKey = certFile, keyFile
	cfg.Directory, cfg.BlockListDir = dir, filepath.Join(dir, "blacklists") // nothing is written into the harness tree
	r := &rig{cfg: cfg, head: &headHandler{}, tail: &feTail{}, pDOH: pDOH, pDOQ: pDOQ, dir: dir}
	middleware.Reset()
	middleware.Register(r.head.Name(), func(*config.Config) middleware.Handler { return r.head })
	defaults.RegisterUpTo("cache")
	middleware.Register("cache", func(c *config.Config) middleware.Handler { return cache.New(c) })
	middleware.Register(r.tail.Name(), func(*config.Config) middleware.Handler { return r.tail })
	middleware.Setup(cfg)
	r.srv = server.New(cfg)
	ctx, cancel := context.WithCancel(context.Background())
	r.cancel = cancel
	if err := r.srv.Run(ctx); err != nil {
		cancel()
		middleware.Reset()
		return nil, err
	}
	return r, nil
}

func (r *rig) stop() bool {
	r.cancel()
	ok := waitFor(8*time.Second, r.srv.Stopped)
	rigMu.Lock()
	middleware.Reset()
	rigMu.Unlock()
	return ok
}

func tlsConf(alpn ...string) *tls.Config {
	return &tls.Config{InsecureSkipVerify: true, NextProtos: alpn} //nolint:gosec // loopback test server, self-signed
}

// ---------------------------------------------------------------------------
// what the model (or a generator) asks a client to send

type xspec struct {
	E     int    `json:"e"`    // exchange id inside its behaviour
	Conn  int    `json:"c"`    // connection id inside its behaviour
	Tr    string `json:"tr"`   // h1 | h2 | h3 | doq
	Form  string `json:"form"` // get | post | json | frame
	Mal   string `json:"mal"`  // "" or a malformed kind
	Kind  string `json:"kind"` // a | hit | st | pt | dw | bg | sg | op | tt | ph
	IDnz  bool   `json:"idnz"` // non-zero message ID
	Edns  string `json:"edns"` // none | plain | do | ka | ecs | cookie | pad | nsid | all
	AD    bool   `json:"ad"`
	CD    bool   `json:"cd"`
	Qtype string `json:"qtype"` // A | TXT
	Nonce string `json:"nonce"` // makes the name unique
}

// built is the concrete exchange: the query (when there is a well-formed one)
// and the bytes / URL that go out.
type built struct {
	x       xspec
	name    string
	qtype   uint16
	id      uint16
	wire    []byte // the DNS query message (nil for shapes that have none)
	payload []byte // what is written on the DoQ stream / POSTed
	method  string
	target  string // path?query of the HTTP request
	ctype   string
	accept  string
	ccookie string // 16 hex digits when a cookie was sent
	hasOPT  bool
	do      bool
	opcode  int
	// malformed shapes that still carry a decodable query
	qr bool
}

var xnonce atomic.Int64

func qname(x xspec) string {
	kind := x.Kind
	if kind == "" {
		kind = "a"
	}
	if kind == "hit" {
		// the primed, shared names: answered by the cache without a tail call
		return fmt.Sprintf("hit-%s.%s", strings.ToLower(x.Qtype), zone)
	}
	n := x.Nonce
	if n == "" {
		n = fmt.Sprintf("n%d", xnonce.Add(1))
	}
	return fmt.Sprintf("%s-%s.%s", kind, n, zone)
}

func qtypeOf(s string) uint16 {
	if s == "TXT" {
		return dns.TypeTXT
	}
	return dns.TypeA
}

const clientCookie = "0123456789abcdef"

func buildQuery(x xspec, name string) (*dns.Msg, bool, bool, string) {
	m := new(dns.Msg)
	m.SetQuestion(name, qtypeOf(x.Qtype))
	m.Id = 0
	if x.IDnz {
		h := sha256.Sum256([]byte(name))
		m.Id = binary.BigEndian.Uint16(h[:2]) | 1
	}
	m.RecursionDesired = true
	m.AuthenticatedData = x.AD
	m.CheckingDisabled = x.CD
	hasOPT, do, cookie := false, false, ""
	if x.Edns != "" && x.Edns != "none" {
		o := new(dns.OPT)
		o.Hdr.Name, o.Hdr.Rrtype = ".", dns.TypeOPT
		o.SetUDPSize(1232)
		if x.Edns == "small" {
			o.SetUDPSize(512)
		}
		hasOPT = true
		all := x.Edns == "all"
		if x.Edns == "do" || all {
			o.SetDo()
			do = true
		}
		if x.Edns == "ka" || all {
			o.Option = append(o.Option, &dns.EDNS0_TCP_KEEPALIVE{Code: dns.EDNS0TCPKEEPALIVE})
		}
		if x.Edns == "ecs" || all {
			o.Option = append(o.Option, &dns.EDNS0_SUBNET{Code: dns.EDNS0SUBNET, Family: 1, SourceNetmask: 24, Address: net.IPv4(203, 0, 113, 0)})
		}
		if x.Edns == "cookie" || all {
			o.Option = append(o.Option, &dns.EDNS0_COOKIE{Code: dns.EDNS0COOKIE, Cookie: clientCookie})
			cookie = clientCookie
		}
		if x.Edns == "pad" || all {
			o.Option = append(o.Option, &dns.EDNS0_PADDING{Padding: make([]byte, 17)})
			o.Option = append(o.Option, &dns.EDNS0_LOCAL{Code: 65002, Data: []byte("client")})
		}
		if x.Edns == "nsid" || all {
			o.Option = append(o.Option, &dns.EDNS0_NSID{Code: dns.EDNS0NSID})
		}
		m.Extra = append(m.Extra, o)
	}
	return m, hasOPT, do, cookie
}

func frame(b []byte) []byte {
	out := make([]byte, 2+len(b))
	binary.BigEndian.PutUint16(out, uint16(len(b)))
	copy(out[2:], b)
	return out
}

// build concretises one exchange.
func build(x xspec) (*built, error) {
	b := &built{x: x, name: qname(x), qtype: qtypeOf(x.Qtype)}
	if x.Form == "json" {
		// the JSON API: the server builds the query itself (ID from dns.Id via SetQuestion, AD set, OPT always)
		b.method = http.MethodGet
		v := url.Values{}
		v.Set("name", strings.TrimSuffix(b.name, "."))
		switch x.Qtype {
		case "TXT":
			v.Set("type", "16") // numeric form
		default:
			v.Set("type", "a") // lower case: ParseQTYPE upper-cases
		}
		if x.Edns == "do" || x.Edns == "all" {
			v.Set("do", "true")
			b.do = true
		}
		if x.CD {
			v.Set("cd", "true")
		}
		b.hasOPT = true
		switch x.Mal {
		case "":
		case "json-noname":
			v.Del("name")
		case "json-badtype":
			v.Set("type", "NOSUCHTYPE")
		case "json-type0":
			v.Set("type", "0")
		case "json-type65536":
			v.Set("type", "65536")
		case "json-post":
			b.method = http.MethodPost
			b.ctype = "application/dns-json"
		default:
			return nil, fmt.Errorf("malformed kind %q does not apply to the JSON form", x.Mal)
		}
		b.target = "/dns-query?" + v.Encode()
		if x.AD { // AD doubles as "browser": Accept: text/html switches the content type
			b.accept = "text/html"
		}
		return b, nil
	}

	m, hasOPT, do, cookie := buildQuery(x, b.name)
	b.hasOPT, b.do, b.ccookie, b.id = hasOPT, do, cookie, m.Id
	switch x.Mal {
	case "qr":
		m.Response = true
		b.qr = true
	case "opcode":
		m.Opcode = dns.OpcodeStatus
		b.opcode = dns.OpcodeStatus
	case "qd2":
		m.Question = append(m.Question, dns.Question{Name: "second." + zone, Qtype: dns.TypeA, Qclass: dns.ClassINET})
	case "qd0":
		m.Question = nil
	case "badvers":
		if o := m.IsEdns0(); o != nil {
			o.SetVersion(1)
		} else {
			o := new(dns.OPT)
			o.Hdr.Name, o.Hdr.Rrtype = ".", dns.TypeOPT
			o.SetUDPSize(1232)
			o.SetVersion(1)
			m.Extra = append(m.Extra, o)
			b.hasOPT = true
		}
	}
	w, err := m.Pack()
	if err != nil {
		return nil, err
	}
	b.wire = w
	garbage := func() []byte {
		// a header promising one question, followed by a label that runs past the end
		g := append([]byte(nil), w[:12]...)
		return append(g, 63, 'x', 'y', 'z', 1, 2, 3, 4, 5, 6, 7, 8)
	}
	second := func() []byte {
		m2 := new(dns.Msg)
		m2.SetQuestion("a-second-"+firstLabelOf(b.name)+"."+zone, dns.TypeA)
		m2.Id = 0
		w2, _ := m2.Pack()
		return w2
	}
	oversize := func() []byte {
		// the query followed by filler, more than any DNS message can be
		return append(append([]byte(nil), w...), make([]byte, 66000-len(w))...)
	}

	if x.Form == "frame" {
		switch x.Mal {
		case "", "qr", "opcode", "qd2", "qd0", "badvers":
			b.payload = frame(w)
		case "short":
			b.payload = frame(w[:9]) // 11 bytes on the stream
		case "prefix-only":
			b.payload = []byte{0}
		case "empty":
			b.payload = []byte{}
		case "len-long":
			b.payload = frame(w)
			binary.BigEndian.PutUint16(b.payload, uint16(len(w)+7)) // promises more than is sent
		case "len-short":
			b.payload = frame(w)
			binary.BigEndian.PutUint16(b.payload, uint16(len(w)-3))
		case "two-msgs":
			b.payload = append(frame(w), frame(second())...)
		case "trailing":
			b.payload = append(frame(w), 0xde, 0xad, 0xbe, 0xef)
		case "garbage":
			b.payload = frame(garbage())
		case "oversize":
			b.payload = append([]byte{0xff, 0xff}, oversize()...)
		default:
			return nil, fmt.Errorf("malformed kind %q does not apply to the DoQ framing", x.Mal)
		}
		return b, nil
	}

	enc := base64.RawURLEncoding.EncodeToString
	switch x.Form {
	case "get":
		b.method = http.MethodGet
		arg := enc(w)
		switch x.Mal {
		case "", "qr", "opcode", "qd2", "qd0", "badvers":
		case "b64-pad":
			arg = base64.URLEncoding.EncodeToString(w)
			if !strings.HasSuffix(arg, "=") {
				arg += "="
			}
		case "b64-std":
			// the standard alphabet: '+' and '/' are not base64url
			arg = "+/+/" + arg
		case "b64-junk":
			arg = "!!" + arg
		case "short":
			arg = enc(w[:9])
		case "garbage":
			arg = enc(garbage())
		case "method":
			b.method = http.MethodPut
		case "head":
			b.method = http.MethodHead
		default:
			return nil, fmt.Errorf("malformed kind %q does not apply to the GET form", x.Mal)
		}
		b.target = "/dns-query?dns=" + url.QueryEscape(arg)
	case "post":
		b.method = http.MethodPost
		b.ctype = "application/dns-message"
		b.payload = w
		b.target = "/dns-query"
		switch x.Mal {
		case "", "qr", "opcode", "qd2", "qd0", "badvers":
		case "ctype":
			b.ctype = "application/json"
		case "ctype-param":
			b.ctype = "application/dns-message; charset=utf-8"
		case "noctype":
			b.ctype = ""
		case "short":
			b.payload = w[:9]
		case "empty":
			b.payload = []byte{}
		case "garbage":
			b.payload = garbage()
		case "trailing":
			b.payload = append(append([]byte(nil), w...), 0xde, 0xad, 0xbe, 0xef)
		case "two-msgs":
			b.payload = append(append([]byte(nil), w...), second()...)
		case "oversize":
			b.payload = oversize()
		case "oversize-garbage":
			b.payload = bytes.Repeat([]byte{0xff}, 66000)
		case "method":
			b.method = http.MethodDelete
		default:
			return nil, fmt.Errorf("malformed kind %q does not apply to the POST form", x.Mal)
		}
	default:
		return nil, fmt.Errorf("unknown form %q", x.Form)
	}
	return b, nil
}

// ---------------------------------------------------------------------------
// what came back on one exchange

type outcome struct {
	// class: dns | json | status | reset | empty | connerr | timeout | neterr
	Class  string `json:"class"`
	Status int    `json:"status,omitempty"`
	CType  string `json:"ctype,omitempty"`
	CacheC string `json:"cacheControl,omitempty"`
	Proto  string `json:"proto,omitempty"`
	Body   []byte `json:"-"`
	// DoQ: every whole frame found on the stream, the bytes that follow the last whole frame, and how it ended
	Frames   [][]byte `json:"-"`
	Leftover int      `json:"leftover,omitempty"`
	QuicCode int64    `json:"quicCode,omitempty"`
	QuicMsg  string   `json:"quicMsg,omitempty"`
	Remote   bool     `json:"remote,omitempty"`
	Err      string   `json:"err,omitempty"`
}

func (o *outcome) short() string {
	switch o.Class {
	case "status":
		return fmt.Sprintf("status:%d", o.Status)
	case "connerr":
		return fmt.Sprintf("connerr:%d", o.QuicCode)
	}
	return o.Class
}

// ---- HTTP ------------------------------------------------------------------

type httpConn struct {
	tr      string
	hc      *http.Client
	closeFn func()
	base    string
}

func dialHTTP(r *rig, tr string) *httpConn {
	c := &httpConn{tr: tr, base: fmt.Sprintf("https://127.0.0.1:%d", r.pDOH)}
	switch tr {
	case "h3":
		t := &http3.Transport{TLSClientConfig: tlsConf("h3")}
		c.hc = &http.Client{Transport: t, Timeout: 25 * time.Second}
		c.closeFn = func() { _ = t.Close() }
	case "h1":
		t := &http.Transport{TLSClientConfig: tlsConf("http/1.1"), MaxIdleConnsPerHost: 1, MaxConnsPerHost: 1}
		c.hc = &http.Client{Transport: t, Timeout: 25 * time.Second}
		c.closeFn = t.CloseIdleConnections
	default:
		t := &http.Transport{TLSClientConfig: tlsConf("h2"), ForceAttemptHTTP2: true, MaxIdleConnsPerHost: 1, MaxConnsPerHost: 1}
		c.hc = &http.Client{Transport: t, Timeout: 25 * time.Second}
		c.closeFn = t.CloseIdleConnections
	}
	return c
}

func (c *httpConn) close() { c.closeFn() }

// warm performs one plain exchange so that the multiplexed ones that follow share one connection.
func (c *httpConn) warm() error {
	b, err := build(xspec{Form: "get", Kind: "hit", Qtype: "A"})
	if err != nil {
		return err
	}
	o := c.exchange(b)
	if o.Class != "dns" {
		return fmt.Errorf("warm-up exchange over %s: %s %s", c.tr, o.short(), o.Err)
	}
	return nil
}

func (c *httpConn) exchange(b *built) *outcome {
	var body io.Reader
	if b.method == http.MethodPost || b.method == http.MethodDelete || b.method == http.MethodPut {
		body = bytes.NewReader(b.payload)
	}
	req, err := http.NewRequest(b.method, c.base+b.target, body)
	if err != nil {
		return &outcome{Class: "neterr", Err: err.Error()}
	}
	if b.ctype != "" {
		req.Header.Set("Content-Type", b.ctype)
	}
	if b.accept != "" {
		req.Header.Set("Accept", b.accept)
	}
	resp, err := c.hc.Do(req)
	if err != nil {
		var ne net.Error
		if errors.As(err, &ne) && ne.Timeout() {
			return &outcome{Class: "timeout", Err: err.Error()}
		}
		return &outcome{Class: "reset", Err: err.Error()}
	}
	data, rerr := io.ReadAll(io.LimitReader(resp.Body, 200000))
	_ = resp.Body.Close()
	o := &outcome{Status: resp.StatusCode, CType: resp.Header.Get("Content-Type"), CacheC: resp.Header.Get("Cache-Control"),
		Proto: resp.Proto, Body: data}
	if rerr != nil {
		o.Class, o.Err = "reset", rerr.Error()
		return o
	}
	switch {
	case resp.StatusCode == 200 && o.CType == "application/dns-message":
		o.Class = "dns"
	case resp.StatusCode == 200 && (o.CType == "application/dns-json" || o.CType == "application/x-javascript"):
		o.Class = "json"
	case resp.StatusCode == 200:
		o.Class = "other200"
	default:
		o.Class = "status"
	}
	return o
}

// ---- DoQ -------------------------------------------------------------------

type doqConn struct {
	conn *quic.Conn
}

func dialDoQ(r *rig) (*doqConn, error) {
	ctx, cancel := context.WithTimeout(context.Background(), 10*time.Second)
	defer cancel()
	conn, err := quic.DialAddr(ctx, fmt.Sprintf("127.0.0.1:%d", r.pDOQ), tlsConf("doq"), &quic.Config{MaxIdleTimeout: 60 * time.Second})
	if err != nil {
		return nil, err
	}
	return &doqConn{conn: conn}, nil
}

func (c *doqConn) close() { _ = c.conn.CloseWithError(0, "") }

// closedByPeer reports the application error the server closed the connection with, if it did.
func (c *doqConn) closedByPeer() (bool, int64, string) {
	select {
	case <-c.conn.Context().Done():
	default:
		return false, 0, ""
	}
	var ae *quic.ApplicationError
	if errors.As(context.Cause(c.conn.Context()), &ae) {
		return ae.Remote, int64(ae.ErrorCode), ae.ErrorMessage
	}
	return true, -1, fmt.Sprint(context.Cause(c.conn.Context()))
}

func splitFrames(data []byte) ([][]byte, int) {
	var frames [][]byte
	for len(data) >= 2 {
		l := int(binary.BigEndian.Uint16(data))
		if len(data)-2 < l {
			break
		}
		frames = append(frames, data[2:2+l])
		data = data[2+l:]
	}
	return frames, len(data)
}

func (c *doqConn) exchange(b *built) *outcome {
	ctx, cancel := context.WithTimeout(context.Background(), 25*time.Second)
	defer cancel()
	st, err := c.conn.OpenStreamSync(ctx)
	if err != nil {
		return c.errOutcome(err)
	}
	_ = st.SetDeadline(time.Now().Add(25 * time.Second))
	if _, err := st.Write(b.payload); err != nil {
		// an oversize payload is cut off when the server gives up on the connection
		_ = st.Close()
		o := c.errOutcome(err)
		return o
	}
	_ = st.Close()
	data, rerr := io.ReadAll(io.LimitReader(st, 400000))
	o := &outcome{}
	o.Frames, o.Leftover = splitFrames(data)
	if rerr != nil {
		eo := c.errOutcome(rerr)
		if len(o.Frames) == 0 && o.Leftover == 0 {
			return eo
		}
		// bytes and then an error: keep both
		o.Class, o.QuicCode, o.QuicMsg, o.Remote, o.Err = "dns", eo.QuicCode, eo.QuicMsg, eo.Remote, eo.Err
		return o
	}
	switch {
	case len(data) == 0:
		o.Class = "empty"
	default:
		o.Class = "dns"
	}
	if len(o.Frames) > 0 {
		o.Body = o.Frames[0]
	}
	return o
}

func (c *doqConn) errOutcome(err error) *outcome {
	var ae *quic.ApplicationError
	if errors.As(err, &ae) {
		return &outcome{Class: "connerr", QuicCode: int64(ae.ErrorCode), QuicMsg: ae.ErrorMessage, Remote: ae.Remote, Err: err.Error()}
	}
	var se *quic.StreamError
	if errors.As(err, &se) {
		return &outcome{Class: "reset", QuicCode: int64(se.ErrorCode), Remote: se.Remote, Err: err.Error()}
	}
	var ne net.Error
	if errors.As(err, &ne) && ne.Timeout() {
		return &outcome{Class: "timeout", Err: err.Error()}
	}
	var ie *quic.IdleTimeoutError
	if errors.As(err, &ie) {
		return &outcome{Class: "timeout", Err: err.Error()}
	}
	return &outcome{Class: "neterr", Err: err.Error()}
}
