package x06fe

// The predicates.  Every one is evaluated on the bytes a client received on
// one exchange, against the bytes it sent on that exchange.
//
// Verdict classes (the key prefix):
//   c06/  the reply contract of the C06 statement (QR, ID, opcode, question,
//         OPT / DNSSEC / AD only as negotiated, nothing reflected, no UDP
//         clamp on a stream transport, no keepalive)
//   c10/  one reply per exchange, on the exchange whose query it answers
//   fe/   the module's own framing properties (a refused stream / body draws
//         the documented error and never a DNS reply; Cache-Control never
//         promises more than the smallest TTL; the JSON rendering)
// An observation is counted and reported, never a violation: it is a fact the
// C06 statement does not rule on for these transports.

import (
	"encoding/binary"
	"encoding/hex"
	"encoding/json"
	"fmt"
	"regexp"
	"strconv"
	"strings"

	"github.com/miekg/dns"
)

type finding struct {
	key, what string
}

// rejected: the request never reaches the chain -- only a status or a connection error may come back
func rejected(x xspec) bool {
	if x.Form == "frame" {
		switch x.Mal {
		case "short", "prefix-only", "empty", "oversize", "len-long", "len-short", "two-msgs", "trailing", "garbage":
			return true
		}
		return false
	}
	switch x.Mal {
	case "method", "head", "ctype", "ctype-param", "noctype", "json-post", "b64-pad", "b64-std", "b64-junk", "short", "empty",
		"garbage", "oversize-garbage", "json-noname", "json-badtype", "json-type0", "json-type65536":
		return true
	}
	return false
}

// docStatus is the status doh.go documents for a refused request.
func docStatus(x xspec) int {
	switch x.Mal {
	case "method", "head":
		return 405
	case "ctype", "ctype-param", "noctype", "json-post":
		return 415
	}
	return 400
}

// mustAnswer: the request reaches a handler that answers (responses are left out: the ServeMsg entry
// answers them today, a gate that drops them would be just as good)
func mustAnswer(x xspec) bool {
	switch {
	case rejected(x) || x.Mal == "qr":
		return false
	case x.Mal == "qd0" || x.Mal == "qd2":
		return true // FORMERR ahead of the chain
	case x.Kind == "ph":
		return false
	case x.Mal == "opcode" || x.Mal == "badvers":
		return true
	}
	return x.Kind != "st"
}

func mustStaySilent(x xspec) bool {
	return !rejected(x) && x.Kind == "st" && x.Mal != "qd0" && x.Mal != "qd2" && x.Mal != "opcode" && x.Mal != "badvers"
}

func wantsNSID(x xspec) bool { return x.Edns == "nsid" || x.Edns == "all" }

var maxAgeRE = regexp.MustCompile(`max-age\s*=\s*(\d+)`)

// contractDNS judges one DNS reply received for b over transport tr ("doq" or an HTTP flavour).
func contractDNS(b *built, tr string, body []byte) []finding {
	var out []finding
	add := func(k, w string) { out = append(out, finding{k, w}) }
	if len(body) < 12 {
		add("c06/short", fmt.Sprintf("a %d-byte reply: shorter than a DNS header", len(body)))
		return out
	}
	id := binary.BigEndian.Uint16(body)
	fl := binary.BigEndian.Uint16(body[2:])
	if fl&0x8000 == 0 {
		add("c06/qr", "reply without QR")
	}
	if tr == "doq" {
		if id != 0 {
			add("c06/doq-id", fmt.Sprintf("DoQ reply with message ID %d (query ID %d): RFC 9250 4.2.1 wants 0", id, b.id))
		}
	} else if id != b.id {
		add("c06/id", fmt.Sprintf("reply ID %d, query ID %d", id, b.id))
	}
	if int(fl>>11)&0xF != b.opcode {
		add("c06/opcode", fmt.Sprintf("reply opcode %d, query opcode %d", int(fl>>11)&0xF, b.opcode))
	}
	rcodeLow := int(fl & 0xF)
	if len(body) == 12 && (rcodeLow == dns.RcodeFormatError || rcodeLow == dns.RcodeNotImplemented) {
		return out // a bare-header rejection
	}
	m := new(dns.Msg)
	if err := m.Unpack(body); err != nil {
		add("c06/undecodable", "reply does not decode: "+err.Error())
		return out
	}
	qdOdd := b.x.Mal == "qd0" || b.x.Mal == "qd2"
	if !(m.Rcode == dns.RcodeFormatError && qdOdd) {
		if len(m.Question) != 1 || !strings.EqualFold(m.Question[0].Name, b.name) || m.Question[0].Qtype != b.qtype {
			add("c10/foreign-question", fmt.Sprintf("reply carries the question %v, the query on this exchange asked %s %s",
				m.Question, b.name, dns.TypeToString[b.qtype]))
		}
	}
	ropt := m.IsEdns0()
	if ropt != nil && !b.hasOPT {
		add("c06/opt-unasked", "reply carries an OPT, the query had none")
	}
	if !b.do {
		for _, rr := range append(append([]dns.RR{}, m.Answer...), m.Ns...) {
			switch rr.(type) {
			case *dns.RRSIG, *dns.NSEC, *dns.NSEC3:
				add("c06/dnssec-unasked", "DNSSEC record "+dns.TypeToString[rr.Header().Rrtype]+" sent without DO")
			}
		}
	}
	if m.AuthenticatedData && (b.x.CD || !(b.do || b.x.AD)) {
		add("c06/ad", fmt.Sprintf("AD set toward a client with CD=%v DO=%v AD=%v", b.x.CD, b.do, b.x.AD))
	}
	if ropt != nil {
		for _, o := range ropt.Option {
			switch v := o.(type) {
			case *dns.EDNS0_SUBNET:
				add("c06/ecs-reflected", "client-subnet option in the reply: "+v.String())
			case *dns.EDNS0_COOKIE:
				if b.ccookie == "" {
					add("c06/cookie-unasked", "a cookie in the reply, no client cookie sent: "+v.Cookie)
				} else if len(v.Cookie) < 16 || !strings.EqualFold(v.Cookie[:16], b.ccookie) {
					add("c06/cookie-foreign", "the cookie in the reply does not start with the client cookie: "+v.Cookie)
				}
			case *dns.EDNS0_TCP_KEEPALIVE:
				add("c06/keepalive", "edns-tcp-keepalive sent over "+tr)
			case *dns.EDNS0_NSID:
				if !wantsNSID(b.x) {
					add("c06/nsid-unasked", "NSID returned, not requested")
				} else if v.Nsid != hex.EncodeToString([]byte(serverNSID)) {
					add("c06/nsid-foreign", "NSID is not the server's: "+v.Nsid)
				}
			case *dns.EDNS0_EDE:
			case *dns.EDNS0_PADDING:
				add("c06/foreign-option", "padding option reflected to the client")
			default:
				add("c06/foreign-option", fmt.Sprintf("option %d in the reply", o.Option()))
			}
		}
	}
	if m.Truncated {
		add("c06/stream-truncated", fmt.Sprintf("TC=1 on a %d-byte reply over %s: a stream transport has no size to clamp to", len(body), tr))
	}
	// byte provenance: the answer section is f(question) and nothing else
	if m.Rcode == dns.RcodeSuccess && !qdOdd {
		want := map[string]bool{}
		for _, rr := range answerRRs(b.name, b.qtype) {
			want[rrKey(rr)] = true
		}
		seen := map[string]bool{}
		for _, rr := range m.Answer {
			if _, ok := rr.(*dns.RRSIG); ok {
				continue
			}
			k := rrKey(rr)
			if !want[k] {
				add("c10/foreign-answer", "answer record that is not f(question) of this exchange: "+rr.String())
				break
			}
			seen[k] = true
		}
		if !m.Truncated && len(seen) != len(want) {
			add("c06/answer-incomplete", fmt.Sprintf("%d of the %d answer records arrived (reply of %d bytes, TC=0)", len(seen), len(want), len(body)))
		}
	}
	return out
}

type jsonRR struct {
	Name string `json:"name"`
	Type uint16 `json:"type"`
	TTL  uint32 `json:"TTL"`
	Data string `json:"data"`
}
type jsonMsg struct {
	Status   int
	TC, RD   bool
	RA, AD   bool
	CD       bool
	Question []struct {
		Name string `json:"name"`
		Type uint16 `json:"type"`
	}
	Answer    []jsonRR
	Authority []jsonRR
}

func rrData(rr dns.RR) string { return strings.TrimPrefix(rr.String(), rr.Header().String()) }

// contractJSON judges one JSON API reply.
func contractJSON(b *built, body []byte) ([]finding, *jsonMsg) {
	var out []finding
	add := func(k, w string) { out = append(out, finding{k, w}) }
	var jm jsonMsg
	if err := json.Unmarshal(body, &jm); err != nil {
		add("fe/json-undecodable", "the JSON body does not decode: "+err.Error())
		return out, nil
	}
	if len(jm.Question) != 1 || !strings.EqualFold(jm.Question[0].Name, b.name) || jm.Question[0].Type != b.qtype {
		add("c10/foreign-question", fmt.Sprintf("JSON reply carries the question %v, this exchange asked %s %d", jm.Question, b.name, b.qtype))
	}
	if !b.do {
		for _, rr := range append(append([]jsonRR{}, jm.Answer...), jm.Authority...) {
			if rr.Type == dns.TypeRRSIG || rr.Type == dns.TypeNSEC || rr.Type == dns.TypeNSEC3 {
				add("c06/dnssec-unasked", "DNSSEC record "+dns.TypeToString[rr.Type]+" in a JSON reply without do=true")
			}
		}
	}
	// the JSON handler sets AD on the request it builds: only CD forbids AD in the reply
	if jm.AD && b.x.CD {
		add("c06/ad", "AD set in a JSON reply to a cd=true request")
	}
	if jm.TC {
		add("c06/stream-truncated", "TC set in a JSON reply")
	}
	if jm.Status == dns.RcodeSuccess {
		want := map[string]bool{}
		for _, rr := range answerRRs(b.name, b.qtype) {
			want[strings.ToLower(rr.Header().Name)+"/"+strconv.Itoa(int(rr.Header().Rrtype))+"/"+rrData(rr)] = true
		}
		n := 0
		for _, rr := range jm.Answer {
			if rr.Type == dns.TypeRRSIG {
				continue
			}
			if !want[strings.ToLower(rr.Name)+"/"+strconv.Itoa(int(rr.Type))+"/"+rr.Data] {
				add("c10/foreign-answer", fmt.Sprintf("JSON answer record that is not f(question) of this exchange: %+v", rr))
				break
			}
			n++
		}
		if n != len(want) {
			add("c06/answer-incomplete", fmt.Sprintf("%d of the %d answer records in the JSON reply", n, len(want)))
		}
	}
	return out, &jm
}

// minTTL is the smallest TTL among the answer and authority records of a reply (ok=false: none).
func minTTLDNS(body []byte) (uint32, bool) {
	m := new(dns.Msg)
	if m.Unpack(body) != nil {
		return 0, false
	}
	var min uint32
	ok := false
	for _, rr := range append(append([]dns.RR{}, m.Answer...), m.Ns...) {
		if !ok || rr.Header().Ttl < min {
			min, ok = rr.Header().Ttl, true
		}
	}
	return min, ok
}

func cacheControl(o *outcome, jm *jsonMsg) []finding {
	mm := maxAgeRE.FindStringSubmatch(strings.ToLower(o.CacheC))
	if mm == nil {
		return nil
	}
	age, _ := strconv.ParseUint(mm[1], 10, 64)
	var min uint32
	ok := false
	if jm != nil {
		for _, rr := range append(append([]jsonRR{}, jm.Answer...), jm.Authority...) {
			if !ok || rr.TTL < min {
				min, ok = rr.TTL, true
			}
		}
	} else {
		min, ok = minTTLDNS(o.Body)
	}
	if ok && age > uint64(min) {
		return []finding{{"fe/cache-control", fmt.Sprintf("Cache-Control %q promises %d s, the smallest TTL in the reply is %d s", o.CacheC, age, min)}}
	}
	return nil
}

// judgeExchange evaluates everything that arrived on one exchange.  An exchange whose QUIC connection
// was closed under it (a refused stream of another exchange) ends in the connection error, which no
// predicate here objects to.  Returns the findings and the observations.
func judgeExchange(b *built, o *outcome) (fs []finding, obs []string) {
	x := b.x
	tr := x.Tr
	add := func(k, w string) { fs = append(fs, finding{k, w}) }
	gotReply := o.Class == "dns" || o.Class == "json"

	// ---- one reply per exchange ----
	if tr == "doq" {
		if len(o.Frames) > 1 {
			add("c10/two-replies", fmt.Sprintf("%d framed messages on one QUIC stream", len(o.Frames)))
		}
		if len(o.Frames) >= 1 && o.Leftover > 0 {
			add("c10/two-replies", fmt.Sprintf("%d bytes behind the reply frame on one QUIC stream", o.Leftover))
		}
		if len(o.Frames) == 0 && o.Leftover > 0 {
			add("fe/doq-framing", fmt.Sprintf("%d bytes on the stream that are not one whole length-prefixed message", o.Leftover))
		}
	}
	if o.Class == "other200" {
		add("fe/http-content-type", fmt.Sprintf("200 with Content-Type %q", o.CType))
	}

	// ---- refused requests ----
	if rejected(x) {
		switch {
		case gotReply:
			add("fe/garbage-answered", fmt.Sprintf("a %s request refused by the framing rules (%s) drew a DNS reply of %d bytes: % x",
				x.Form, x.Mal, len(o.Body), o.Body[:min(len(o.Body), 40)]))
		case tr == "doq" && !(o.Class == "connerr" && o.QuicCode == 2):
			// doq.go: every refusal is conn.CloseWithError(ProtocolError = 0x2)
			add("fe/doq-error", fmt.Sprintf("a refused DoQ stream (%s) must end in DOQ_PROTOCOL_ERROR (0x2) on the connection; it ended with %s %s", x.Mal, o.short(), o.Err))
		case tr != "doq" && !(o.Class == "status" && o.Status == docStatus(x)):
			add("fe/http-status", fmt.Sprintf("a refused %s request (%s) must draw HTTP %d; it ended with %s %s", x.Form, x.Mal, docStatus(x), o.short(), o.Err))
		}
		return fs, obs
	}
	if mustStaySilent(x) {
		switch {
		case gotReply:
			add("c10/silent-answered", fmt.Sprintf("the handler wrote nothing for %s, yet a reply of %d bytes arrived: % x", b.name, len(o.Body), o.Body[:min(len(o.Body), 40)]))
		case tr == "doq" && o.Class != "empty" && o.Class != "connerr":
			add("fe/doq-silent", fmt.Sprintf("the handler wrote nothing for %s: the stream must just end; it ended with %s %s", b.name, o.short(), o.Err))
		case tr != "doq" && !(o.Class == "status" && o.Status == 400):
			add("fe/http-status", fmt.Sprintf("the handler wrote nothing for %s: doh.go documents HTTP 400; the exchange ended with %s %s", b.name, o.short(), o.Err))
		}
	}
	if x.Kind == "ph" && x.Mal != "qd0" && x.Mal != "qd2" && gotReply {
		add("c10/panic-answered", fmt.Sprintf("the handler of %s panicked ahead of the recovery middleware, yet a reply arrived: % x", b.name, o.Body[:min(len(o.Body), 40)]))
	}
	if x.Mal == "qr" && gotReply {
		obs = append(obs, "qr-answered")
	}
	if mustAnswer(x) && !gotReply {
		switch o.Class {
		case "status", "empty":
			add("c10/missing-reply", fmt.Sprintf("%s %s (%s) must be answered; the exchange ended with %s and no reply", x.Form, b.name, x.Kind, o.short()))
		}
	}
	if !gotReply {
		return fs, obs
	}

	// ---- the reply itself ----
	if o.Class == "json" {
		jf, jm := contractJSON(b, o.Body)
		fs = append(fs, jf...)
		fs = append(fs, cacheControl(o, jm)...)
		return fs, obs
	}
	fs = append(fs, contractDNS(b, tr, o.Body)...)
	if tr != "doq" {
		fs = append(fs, cacheControl(o, nil)...)
	}
	return fs, obs
}
