package c02

import (
	"fmt"
	"runtime"
	"sort"
	"strings"
	"sync"
	"testing"

	"github.com/miekg/dns"
	"github.com/semihalev/sdns/internal/dnsname"
	"github.com/semihalev/sdns/internal/dnsutil"
	"github.com/semihalev/sdns/middleware/resolver/dnssec"
	"github.com/semihalev/sdns/verifharness/authkit"
	"github.com/semihalev/sdns/verifharness/vh"
)

type verifyInput struct {
	Zones []zoneIn `json:"zones"`
	Cases []caseIn `json:"cases"`
	Concs []string `json:"concs"`
}

// nopWork satisfies dnssec.NSEC3Work without a budget.
type nopWork struct{}

func (nopWork) BeginNSEC3Hash() (func(), error) { return func() {}, nil }

// outcome is one denial the real code accepted.
type outcome struct {
	entry    string // entry point
	claim    string // NX | ND | INSEC
	secure   bool   // false: the code itself flagged the proof as resting on Opt-Out
	shared   bool   // the RFC 8198 classifier (gates shared cache state)
	optProof bool   // the classifier's returned proof contains an Opt-Out NSEC3
}

func qmsg(name string, qtype uint16, rcode int) *dns.Msg {
	m := new(dns.Msg)
	m.SetQuestion(name, qtype)
	m.Response = true
	m.Rcode = rcode
	return m
}

func claimOfRcode(rc int) string {
	if rc == dns.RcodeNameError {
		return "NX"
	}
	return "ND"
}

// evalNSEC runs every NSEC entry point exactly as resolver.authority() /
// validateDelegation call them: records filtered to the signer first.
func evalNSEC(signer string, recs []dns.RR, qname string, qtype uint16) (outs []outcome, notes []string) {
	set := dnsutil.FilterRRsToZone(recs, signer)
	if err := dnssec.VerifyNameErrorNSEC(qmsg(qname, qtype, dns.RcodeNameError), set); err == nil {
		outs = append(outs, outcome{entry: "VerifyNameErrorNSEC", claim: "NX", secure: true})
	}
	if err := dnssec.VerifyNODATANSEC(qmsg(qname, qtype, dns.RcodeSuccess), set); err == nil {
		outs = append(outs, outcome{entry: "VerifyNODATANSEC", claim: "ND", secure: true})
	}
	if qtype == dns.TypeDS {
		if err := dnssec.VerifyDelegationNSEC(qname, set); err == nil {
			outs = append(outs, outcome{entry: "VerifyDelegationNSEC", claim: "INSEC", secure: true})
		}
	}
	q := dns.Question{Name: qname, Qtype: qtype, Qclass: dns.ClassINET}
	plain, perr := dnssec.EvaluateAggressiveNSEC(q, signer, set)
	if perr == nil {
		outs = append(outs, outcome{entry: "EvaluateAggressiveNSEC", claim: claimOfRcode(plain.Rcode), secure: true, shared: true})
	}
	// the prepared / pre-validated forms the denial-proof cache uses must reach the same verdict
	var prepared []dnssec.PreparedNSEC
	prepOK := true
	for _, rr := range set {
		p, err := dnssec.PrepareAggressiveNSEC(rr.(*dns.NSEC))
		if err != nil {
			prepOK = false
			break
		}
		prepared = append(prepared, p)
	}
	if prepOK && len(prepared) > 0 {
		r2, e2 := dnssec.EvaluateAggressiveNSECPrepared(q, signer, prepared)
		if e2 == nil {
			outs = append(outs, outcome{entry: "EvaluateAggressiveNSECPrepared", claim: claimOfRcode(r2.Rcode), secure: true, shared: true})
		}
		if (e2 == nil) != (perr == nil) || (e2 == nil && r2.Rcode != plain.Rcode) {
			notes = append(notes, "EvaluateAggressiveNSECPrepared disagrees with EvaluateAggressiveNSEC")
		}
		if aset, err := dnssec.NewAggressiveNSECSet(prepared, signer); err == nil {
			r3, e3 := dnssec.EvaluateAggressiveNSECSet(q, aset)
			if e3 == nil {
				outs = append(outs, outcome{entry: "EvaluateAggressiveNSECSet", claim: claimOfRcode(r3.Rcode), secure: true, shared: true})
			}
			if (e3 == nil) != (perr == nil) || (e3 == nil && r3.Rcode != plain.Rcode) {
				notes = append(notes, "EvaluateAggressiveNSECSet disagrees with EvaluateAggressiveNSEC")
			}
		}
	}
	return outs, notes
}

func evalNSEC3(signer string, recs []dns.RR, qname string, qtype uint16) (outs []outcome) {
	set := dnsutil.FilterRRsToZone(recs, signer)
	if len(set) == 0 {
		return nil // resolver: "len(nsec3Set) > 0" selects the NSEC3 branch at all
	}
	w := nopWork{}
	if sec, err := dnssec.VerifyNameErrorForZoneWithWork(qmsg(qname, qtype, dns.RcodeNameError), set, signer, w); err == nil {
		outs = append(outs, outcome{entry: "VerifyNameErrorForZoneWithWork", claim: "NX", secure: sec})
	}
	if sec, err := dnssec.VerifyNODATAForZoneWithWork(qmsg(qname, qtype, dns.RcodeSuccess), set, signer, w); err == nil {
		outs = append(outs, outcome{entry: "VerifyNODATAForZoneWithWork", claim: "ND", secure: sec})
	}
	if qtype == dns.TypeDS {
		if err := dnssec.VerifyDelegationForZoneWithWork(qname, signer, set, w); err == nil {
			// no secure flag on this entry point: an Opt-Out based acceptance is judged as insecure
			outs = append(outs, outcome{entry: "VerifyDelegationForZoneWithWork", claim: "INSEC", secure: !dnsutil.HasNSEC3OptOut(set, signer)})
		}
	}
	q := dns.Question{Name: qname, Qtype: qtype, Qclass: dns.ClassINET}
	if res, err := dnssec.EvaluateAggressiveNSEC3(q, signer, set, w); err == nil {
		o := outcome{entry: "EvaluateAggressiveNSEC3", claim: claimOfRcode(res.Rcode), secure: true, shared: true}
		for _, rr := range res.Proof {
			// an exact match is a match whatever its flag; only covering intervals rest on Opt-Out
			if n3, ok := rr.(*dns.NSEC3); ok && n3.Flags&1 == 1 && isCover(n3, qname, signer) {
				o.optProof = true
			}
		}
		outs = append(outs, o)
	}
	return outs
}

// isCover reports whether n3 can only have served as a COVERING interval in a
// proof about qname: its owner hash matches neither an ancestor-or-self of
// qname nor a wildcard child of one.
func isCover(n3 *dns.NSEC3, qname, zone string) bool {
	owner := strings.ToLower(strings.SplitN(n3.Hdr.Name, ".", 2)[0])
	salt := n3.Salt
	name := strings.ToLower(dns.Fqdn(qname))
	for {
		if authkit.Hash3(name, salt, n3.Iterations) == owner {
			return false
		}
		wc := "*." + name
		if name == "." {
			wc = "*."
		}
		if authkit.Hash3(wc, salt, n3.Iterations) == owner {
			return false
		}
		if name == "." || dnsname.CanonicalCompare(name, zone) == 0 {
			return true
		}
		off, end := dns.NextLabel(name, 0)
		if end {
			name = "."
		} else {
			name = name[off:]
		}
	}
}

// compatible is the property predicate for one accepted denial.
func compatible(claim, truth, qtype string) bool {
	switch claim {
	case "NX":
		return truth == "nxdomain"
	case "ND":
		return truth == "nodata" || truth == "wildcard-nodata" || (qtype == "DS" && truth == "insecure-delegation")
	case "INSEC":
		return truth == "insecure-delegation"
	}
	return false
}

// modelClaims maps the model's verdict codes to the claims they justify.
func modelClaims(codes []string) map[string]bool {
	m := map[string]bool{}
	for _, c := range codes {
		switch c[:2] {
		case "nx":
			m["NX"] = true
		case "nd", "wn":
			m["ND"] = true
		case "id":
			m["ND"], m["INSEC"] = true, true
		case "ou":
			m["ND"], m["INSEC"] = true, true
		}
	}
	return m
}

func polKind(cs *caseIn, b *built) string {
	if len(cs.P) > 0 {
		return cs.P[0].S
	}
	pars := map[int]bool{}
	for _, p := range cs.Gp {
		pars[p] = true
	}
	if len(pars) > 1 {
		return "param"
	}
	return "none"
}

func TestDenialCases(t *testing.T) {
	var in verifyInput
	vh.Input(t, &in)
	res := vh.NewResult()
	defer res.Write(t)

	zones := map[string]*zoneIn{}
	for i := range in.Zones {
		zones[in.Zones[i].Z+"|"+in.Zones[i].F] = &in.Zones[i]
	}
	minPar := 1 << 30
	for _, cs := range in.Cases {
		for _, p := range cs.Gp {
			if p > 0 && p < minPar {
				minPar = p
			}
		}
	}

	for _, cn := range in.Concs {
		c, ok := concs[cn]
		if !ok {
			t.Fatalf("unknown concretisation %q", cn)
		}
		builtZones := map[string]*built{}
		for k, zi := range zones {
			b, err := build(zi, c)
			if err != nil {
				t.Fatalf("machinery: %v", err)
			}
			builtZones[k] = b
			checkOrder(res, b)
			vacuity(res, b)
		}

		var wg sync.WaitGroup
		jobs := make(chan *caseIn, 256)
		var cmu sync.Mutex
		counters := map[string]int{}
		for w := 0; w < runtime.GOMAXPROCS(0); w++ {
			wg.Add(1)
			go func() {
				defer wg.Done()
				local := map[string]int{}
				for cs := range jobs {
					runCase(res, builtZones[cs.Z+"|"+cs.F], cs, minPar, local)
				}
				cmu.Lock()
				for k, v := range local {
					counters[k] += v
				}
				cmu.Unlock()
			}()
		}
		for i := range in.Cases {
			if builtZones[in.Cases[i].Z+"|"+in.Cases[i].F] == nil {
				t.Fatalf("machinery: case refers to unknown zone %s|%s", in.Cases[i].Z, in.Cases[i].F)
			}
			jobs <- &in.Cases[i]
		}
		close(jobs)
		wg.Wait()
		for k, v := range counters {
			res.Count(cn+":"+k, v)
			res.Count(k, v)
		}
	}
}

// checkOrder: sdns' canonical comparison against the independent one on every
// pair of concretised names (drift note only; a wrong order surfaces as false denials).
func checkOrder(res *vh.Result, b *built) {
	var names []string
	seen := map[string]bool{}
	add := func(n []string) {
		s := b.c.fqdn(n)
		if !seen[s] {
			seen[s] = true
			names = append(names, s)
		}
	}
	for _, o := range b.zi.Owners {
		add(o.N)
	}
	for _, q := range b.zi.Qs {
		add(q.N)
	}
	for _, x := range names {
		for _, y := range names {
			want := 0
			if authkit.CanonLess(x, y) {
				want = -1
			} else if authkit.CanonLess(y, x) {
				want = 1
			}
			got := dnsname.CanonicalCompare(x, y)
			if got < 0 {
				got = -1
			} else if got > 0 {
				got = 1
			}
			res.Count("order_pairs", 1)
			if got != want {
				res.DriftNote("canonical order: dnsname.CanonicalCompare(%q,%q)=%d, reference %d", x, y, got, want)
			}
		}
	}
}

func (b *built) records(cs *caseIn, minPar int) []dns.RR {
	var recs []dns.RR
	for i, g := range cs.G {
		if cs.F == "nsec" {
			if rr := b.nsec[key(g)]; rr != nil {
				recs = append(recs, dns.Copy(rr))
			}
			continue
		}
		par := 0
		if cs.Gp[i] != minPar {
			par = 1
		}
		if rr := b.nsec3[par][key(g)]; rr != nil {
			recs = append(recs, dns.Copy(rr))
		}
	}
	for _, p := range cs.P {
		recs = append(recs, b.pollution(p, cs.F)...)
	}
	return recs
}

func runCase(res *vh.Result, b *built, cs *caseIn, minPar int, cnt map[string]int) {
	recs := b.records(cs, minPar)
	if len(recs) < len(cs.G) {
		res.Skip("case %s|%s g=%v: a genuine record is missing", cs.Z, cs.F, cs.G)
		return
	}
	pk := polKind(cs, b)
	model := map[int]*accIn{}
	for i := range cs.Acc {
		model[cs.Acc[i].I-1] = &cs.Acc[i]
	}
	// NSEC3 sets that mix parameter tuples or zones must be refused outright
	mixed := false
	if cs.F == "nsec3" {
		mixed = pk == "param" || pk == "child"
	}
	hasOptOut := false
	for _, rr := range recs {
		if n3, ok := rr.(*dns.NSEC3); ok && n3.Flags&1 == 1 {
			hasOptOut = true
		}
	}
	if pk == "none" && len(recs) >= 2 && b.c.Name == "plain" {
		classMix(res, b, cs, recs, cnt)
	}
	caseKey := fmt.Sprintf("%s|%s|%s|g=%v|p=%v", b.c.Name, cs.Z, cs.F, cs.G, cs.P)
	for qi, q := range b.zi.Qs {
		truth := b.zi.Truth[qi]
		qname := b.c.qname(q.N)
		qtype := typeOf[q.T]
		var outs []outcome
		var notes []string
		if cs.F == "nsec" {
			outs, notes = evalNSEC(b.signer, recs, qname, qtype)
		} else {
			outs = evalNSEC3(b.signer, recs, qname, qtype)
		}
		cnt["evaluations"]++
		distinct := ""
		for _, n := range notes {
			res.DriftNote("%s q=%s/%s: %s", caseKey, qname, q.T, n)
		}
		var mv, ma map[string]bool
		if m := model[qi]; m != nil {
			mv, ma = modelClaims(m.V), modelClaims(m.A)
		}
		accepted := map[string]bool{}
		for _, o := range outs {
			accepted[o.entry] = true
			cnt["accepted"]++
			cnt["accepted:"+o.entry]++
			replay := map[string]any{"conc": b.c.Name, "zone": cs.Z, "fam": cs.F, "g": cs.G, "gp": cs.Gp, "p": cs.P,
				"qname": qname, "qtype": q.T, "truth": truth, "entry": o.entry, "claim": o.claim, "secure": o.secure,
				"records": rrStrings(recs)}
			ok := compatible(o.claim, truth, q.T)
			insecureExcuse := !o.secure && hasOptOut && b.unsigned(q.N)
			precond := cs.F == "nsec" && pk == "child" // see below
			switch {
			case mixed:
				res.Violate(fmt.Sprintf("%s|%s|mixed-%s-accepted", cs.F, o.entry, pk),
					fmt.Sprintf("%s accepted a %s denial from an NSEC3 set mixing %s (zone %s, records %v + %v, question %s %s)",
						o.entry, o.claim, map[string]string{"param": "parameter tuples", "child": "signer zones"}[pk], cs.Z, cs.G, cs.P, qname, q.T), replay)
			case o.optProof || (o.shared && !o.secure):
				res.Violate(fmt.Sprintf("%s|%s|optout-shared", cs.F, o.entry),
					fmt.Sprintf("%s returned a shareable %s proof resting on an Opt-Out NSEC3 (zone %s, records %v, question %s %s)",
						o.entry, o.claim, cs.Z, cs.G, qname, q.T), replay)
			case ok || insecureExcuse:
				cnt["true_accepts"]++
				distinct = caseKey + "|" + q.T + "|" + key(q.N)
				if mv != nil || ma != nil {
					src := mv
					if o.shared {
						src = ma
					}
					if b.c.Order && cs.F == "nsec" && !src[o.claim] {
						cnt["code_looser_but_true:"+o.entry]++
					}
				}
			case precond:
				// A child zone's NSECs are named inside the parent, so FilterRRsToZone keeps
				// them; what excludes them in the pipeline is the RRSIG signer binding
				// (VerifyRRSIG, property C01).  Not judged here.
				cnt["precondition_dependent:"+o.entry]++
			default:
				sec := "secure"
				if !o.secure {
					sec = "insecure"
				}
				rootTag := ""
				if b.signer == "." && strings.HasPrefix(truth, "wildcard") {
					rootTag = "|root-zone" // closest encloser "." has its own code path (no wildcard check)
				}
				res.Violate(fmt.Sprintf("%s|%s|claim=%s|truth=%s%s|%s%s", cs.F, o.entry, o.claim, truth, b.reason(q.N, truth), sec, rootTag),
					fmt.Sprintf("%s accepted %s (%s) for %s %s but the zone says %s  [zone %s as %s, %s records of %v, pollution %v]",
						o.entry, o.claim, sec, qname, q.T, truth, cs.Z, b.c.Name, cs.F, cs.G, cs.P), replay)
			}
		}
		res.Case(distinct)
		// drift: the code is stricter than the model (NSEC, order-preserving concretisations only:
		// the NSEC3 ring order depends on the real hash)
		if b.c.Order && cs.F == "nsec" && pk == "none" {
			for claim, entry := range map[string]string{"NX": "VerifyNameErrorNSEC", "ND": "VerifyNODATANSEC"} {
				if mv[claim] && !accepted[entry] {
					cnt["code_stricter:"+entry]++
				}
			}
			for claim := range ma {
				if claim != "INSEC" && !accepted["EvaluateAggressiveNSEC"] {
					cnt["code_stricter:EvaluateAggressiveNSEC"]++
					break
				}
			}
		}
	}
}

// reason refines a truth kind for the violation key (stable, class-level keys:
// the known-findings file matches on them).
func (b *built) reason(n []string, truth string) string {
	owner := false
	for _, o := range b.zi.Owners {
		if key(o.N) == key(n) {
			owner = true
		}
	}
	switch truth {
	case "nodata", "exists":
		if !owner {
			return "/empty-non-terminal"
		}
		return "/owner"
	case "below-cut":
		if owner {
			return "/at-delegation-point"
		}
		return "/below-delegation"
	}
	return ""
}

// classMix: the same genuine records with one of them replayed in class CH.
// A set mixing classes must be refused by every entry point that binds the
// class (NSEC3 verifiers, both RFC 8198 classifiers).
func classMix(res *vh.Result, b *built, cs *caseIn, recs []dns.RR, cnt map[string]int) {
	mixedRecs := make([]dns.RR, len(recs))
	for i, rr := range recs {
		mixedRecs[i] = dns.Copy(rr)
	}
	mixedRecs[0].Header().Class = dns.ClassCHAOS
	for _, q := range b.zi.Qs {
		qname, qtype := b.c.qname(q.N), typeOf[q.T]
		var outs []outcome
		if cs.F == "nsec" {
			all, _ := evalNSEC(b.signer, mixedRecs, qname, qtype)
			for _, o := range all {
				if o.shared {
					outs = append(outs, o)
				}
			}
		} else {
			outs = evalNSEC3(b.signer, mixedRecs, qname, qtype)
		}
		cnt["class_mix_evaluations"]++
		for _, o := range outs {
			res.Violate(fmt.Sprintf("%s|%s|mixed-class-accepted", cs.F, o.entry),
				fmt.Sprintf("%s accepted a %s denial from a record set mixing classes IN and CH (zone %s, records %v, question %s %s)",
					o.entry, o.claim, cs.Z, cs.G, qname, q.T),
				map[string]any{"conc": b.c.Name, "zone": cs.Z, "fam": cs.F, "g": cs.G, "gp": cs.Gp, "p": cs.P, "qname": qname, "qtype": q.T,
					"entry": o.entry, "records": rrStrings(mixedRecs)})
		}
	}
}

func rrStrings(rrs []dns.RR) []string {
	out := make([]string, len(rrs))
	for i, rr := range rrs {
		out[i] = rr.String()
	}
	return out
}

// ---- vacuity guard: genuine COMPLETE proofs must be accepted -------------------------------

// completeProof builds, from the real chain / ring, the complete genuine proof
// an honest server would send for question qi whose truth is a denial; nil
// when there is none to build.
func (b *built) completeProof(qi int) []dns.RR {
	zi := b.zi
	q := zi.Qs[qi]
	truth := zi.Truth[qi]
	var proof []dns.RR
	if zi.F == "nsec" {
		owners := make([]string, 0, len(b.nsec))
		byName := map[string]*dns.NSEC{}
		for _, rr := range b.nsec {
			owners = append(owners, strings.ToLower(rr.Hdr.Name))
			byName[strings.ToLower(rr.Hdr.Name)] = rr
		}
		sort.Slice(owners, func(i, j int) bool { return authkit.CanonLess(owners[i], owners[j]) })
		cover := func(name string) dns.RR {
			name = strings.ToLower(name)
			pick := owners[len(owners)-1]
			for _, o := range owners {
				if authkit.CanonLess(o, name) {
					pick = o
				}
			}
			return byName[pick]
		}
		match := func(n []string) dns.RR {
			if rr := b.nsec[key(n)]; rr != nil {
				return rr
			}
			return nil
		}
		wc := append(append([]string{}, zi.Ce[qi]...), "*")
		switch truth {
		case "nxdomain":
			proof = []dns.RR{cover(b.c.fqdn(q.N)), cover(b.c.fqdn(wc))}
		case "nodata", "insecure-delegation":
			if m := match(q.N); m != nil {
				proof = []dns.RR{m}
			} else {
				proof = []dns.RR{cover(b.c.fqdn(q.N))} // empty non-terminal
			}
		case "wildcard-nodata":
			proof = []dns.RR{cover(b.c.fqdn(q.N)), match(wc)}
		}
		for _, rr := range proof {
			if rr == nil {
				return nil
			}
		}
		return proof
	}
	ring := b.nsec3[0]
	type ent struct {
		h  string
		rr *dns.NSEC3
	}
	var es []ent
	for _, rr := range ring {
		es = append(es, ent{strings.ToLower(strings.SplitN(rr.Hdr.Name, ".", 2)[0]), rr})
	}
	sort.Slice(es, func(i, j int) bool { return es[i].h < es[j].h })
	p := nsec3Params[0]
	cover := func(name string) *dns.NSEC3 {
		h := authkit.Hash3(name, p.Salt, p.Iter)
		pick := es[len(es)-1]
		for _, e := range es {
			if e.h < h {
				pick = e
			}
		}
		return pick.rr
	}
	// closest encloser within the RING (an opted-out name has no NSEC3)
	k := len(q.N)
	for k > 0 && !b.ring[key(q.N[:k])] {
		k--
	}
	var n3 []*dns.NSEC3
	if k == len(q.N) { // exact match: NODATA / insecure delegation / ENT
		n3 = []*dns.NSEC3{ring[key(q.N)]}
	} else {
		rce, nc := q.N[:k], q.N[:k+1]
		wc := append(append([]string{}, rce...), "*")
		n3 = []*dns.NSEC3{ring[key(rce)], cover(b.c.fqdn(nc))}
		if truth == "wildcard-nodata" {
			n3 = append(n3, ring[key(wc)])
		} else if truth == "nxdomain" {
			n3 = append(n3, cover(b.c.fqdn(wc)))
		}
	}
	seen := map[*dns.NSEC3]bool{}
	for _, rr := range n3 {
		if rr == nil {
			return nil
		}
		if !seen[rr] {
			seen[rr] = true
			proof = append(proof, rr)
		}
	}
	return proof
}

func isDenial(truth string) bool {
	return truth == "nxdomain" || truth == "nodata" || truth == "wildcard-nodata" || truth == "insecure-delegation"
}

// vacuity counts whether the matching verifier accepts every complete genuine proof.
func vacuity(res *vh.Result, b *built) {
	zi := b.zi
	for qi, q := range zi.Qs {
		truth := zi.Truth[qi]
		if !isDenial(truth) {
			continue
		}
		proof := b.completeProof(qi)
		if proof == nil {
			res.Count("vacuity_unbuildable", 1)
			continue
		}
		qname, qtype := b.c.qname(q.N), typeOf[q.T]
		var outs []outcome
		nx, nd, agg := "VerifyNameErrorNSEC", "VerifyNODATANSEC", "EvaluateAggressiveNSEC"
		if zi.F == "nsec" {
			outs, _ = evalNSEC(b.signer, proof, qname, qtype)
		} else {
			outs = evalNSEC3(b.signer, proof, qname, qtype)
			nx, nd, agg = "VerifyNameErrorForZoneWithWork", "VerifyNODATAForZoneWithWork", "EvaluateAggressiveNSEC3"
		}
		entry := nd
		if truth == "nxdomain" {
			entry = nx
		}
		accepted, shared := false, false
		for _, o := range outs {
			if o.entry == entry {
				accepted = true
			}
			if o.entry == agg && compatible(o.claim, truth, q.T) {
				shared = true
			}
		}
		res.Count("vacuity_total:"+zi.F, 1)
		if accepted {
			res.Count("vacuity_accepted:"+zi.F, 1)
		} else {
			res.Count("vacuity_rejected:"+zi.F+":"+truth, 1)
		}
		if shared {
			res.Count("vacuity_shared:"+zi.F, 1)
		}
	}
}
