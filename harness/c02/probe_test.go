package c02

import (
	"fmt"
	"testing"

	"github.com/miekg/dns"
	"github.com/semihalev/sdns/middleware/resolver/dnssec"
)

func nsec(owner, next string, types ...uint16) dns.RR {
	return &dns.NSEC{Hdr: dns.RR_Header{Name: owner, Rrtype: dns.TypeNSEC, Class: dns.ClassINET, Ttl: 60}, NextDomain: next, TypeBitMap: append(types, dns.TypeRRSIG, dns.TypeNSEC)}
}

func TestProbe(t *testing.T) {
	q := func(n string, ty uint16, rc int) *dns.Msg {
		m := new(dns.Msg)
		m.SetQuestion(n, ty)
		m.Rcode = rc
		return m
	}
	// ENT: zone z. {z, a.z, c.b.z}; deny b.z
	set := []dns.RR{nsec("z.", "a.z.", dns.TypeSOA, dns.TypeNS), nsec("a.z.", "c.b.z.", dns.TypeA)}
	fmt.Println("ENT NX b.z.:", dnssec.VerifyNameErrorNSEC(q("b.z.", dns.TypeA, dns.RcodeNameError), set))
	r, err := dnssec.EvaluateAggressiveNSEC(dns.Question{Name: "b.z.", Qtype: dns.TypeA, Qclass: 1}, "z.", set)
	fmt.Println("  aggressive:", r.Rcode, err)
	// below delegation: zone {z, a.z NS, b.z A}; deny x.a.z
	set = []dns.RR{nsec("z.", "a.z.", dns.TypeSOA, dns.TypeNS), nsec("a.z.", "b.z.", dns.TypeNS)}
	fmt.Println("below-cut NX x.a.z.:", dnssec.VerifyNameErrorNSEC(q("x.a.z.", dns.TypeA, dns.RcodeNameError), set))
	r, err = dnssec.EvaluateAggressiveNSEC(dns.Question{Name: "x.a.z.", Qtype: dns.TypeA, Qclass: 1}, "z.", set)
	fmt.Println("  aggressive:", r.Rcode, err)
	// at delegation NODATA A
	fmt.Println("at-cut NODATA a.z. A:", dnssec.VerifyNODATANSEC(q("a.z.", dns.TypeA, 0), set))
	// below DNAME
	set = []dns.RR{nsec("z.", "a.z.", dns.TypeSOA, dns.TypeNS), nsec("a.z.", "b.z.", dns.TypeDNAME)}
	fmt.Println("below-dname NX x.a.z.:", dnssec.VerifyNameErrorNSEC(q("x.a.z.", dns.TypeA, dns.RcodeNameError), set))
	// wildcard exists: zone {z, *.z A, b.z}; deny a.z with only covering NSEC *.z -> b.z ; wildcard *.z exists
	set = []dns.RR{nsec("*.z.", "b.z.", dns.TypeA)}
	fmt.Println("wildcard-exists NX a.z.:", dnssec.VerifyNameErrorNSEC(q("a.z.", dns.TypeA, dns.RcodeNameError), set))
}
