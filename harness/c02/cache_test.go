package c02

import (
	"context"
	"fmt"
	"testing"
	"time"

	"github.com/miekg/dns"
	"github.com/semihalev/sdns/config"
	"github.com/semihalev/sdns/internal/dnsutil"
	"github.com/semihalev/sdns/internal/mock"
	"github.com/semihalev/sdns/middleware"
	mcache "github.com/semihalev/sdns/middleware/cache"
	"github.com/semihalev/sdns/middleware/resolver/dnssec"
	"github.com/semihalev/sdns/verifharness/vh"
)

// One TLC behaviour of Denial.tla part 2: Admit / Expire / Synthesise calls in
// a TLC-chosen order.
type stepIn struct {
	Op    string     `json:"op"` // admit | forge | expire | synth
	RC    string     `json:"rc"` // forge: the claimed rcode class (NX | ND)
	G     [][]string `json:"g"`
	Q     queryIn    `json:"q"`
	V     string     `json:"v"`
	TTL   int        `json:"ttl"`
	Model []string   `json:"model"` // what the model synthesises (verdict names), synth steps only
}

type behIn struct {
	Z     string   `json:"z"`
	F     string   `json:"f"`
	Steps []stepIn `json:"steps"`
}

type cacheInput struct {
	Zones      []zoneIn `json:"zones"`
	Behaviours []behIn  `json:"behaviours"`
	Concs      []string `json:"concs"`
}

const tick = 100 * time.Second

func fakeSig(rr dns.RR, signer string, ttl uint32, now time.Time) *dns.RRSIG {
	h := rr.Header()
	return &dns.RRSIG{
		Hdr:         dns.RR_Header{Name: h.Name, Rrtype: dns.TypeRRSIG, Class: h.Class, Ttl: ttl},
		TypeCovered: h.Rrtype, Algorithm: dns.ECDSAP256SHA256, Labels: uint8(dns.CountLabel(h.Name)), OrigTtl: ttl,
		Expiration: uint32(now.Add(30 * 24 * time.Hour).Unix()), Inception: uint32(now.Add(-24 * time.Hour).Unix()),
		KeyTag: 4711, SignerName: signer, Signature: "AAAAAAAAAAAAAAAAAAAAAAAAAAAAAAAAAAAAAAAAAAAAAAAAAAAAAAAAAAAAAAAAAAAAAAAAAAAAAAAAAAAAAA==",
	}
}

// proofMsg is the terminal negative response an authoritative server of the
// zone would send: SOA + the chosen genuine denial records, each with an RRSIG
// naming the zone as signer (signature bytes are not inspected by the caches).
func proofMsg(b *built, recs []dns.RR, qname string, qtype uint16, rcode int, ttl uint32, now time.Time) *dns.Msg {
	m := qmsg(qname, qtype, rcode)
	m.RecursionAvailable = true
	soa := &dns.SOA{Hdr: dns.RR_Header{Name: b.signer, Rrtype: dns.TypeSOA, Class: dns.ClassINET, Ttl: ttl},
		Ns: "ns." + b.signer, Mbox: "hostmaster." + b.signer, Serial: 1, Refresh: 3600, Retry: 600, Expire: 86400, Minttl: ttl}
	if b.signer == "." {
		soa.Ns, soa.Mbox = "ns.root.invalid.", "hostmaster.root.invalid."
	}
	m.Ns = append(m.Ns, soa, fakeSig(soa, b.signer, ttl, now))
	for _, rr := range recs {
		c := dns.Copy(rr)
		c.Header().Ttl = ttl
		m.Ns = append(m.Ns, c, fakeSig(c, b.signer, ttl, now))
	}
	return m
}

// gate mirrors resolver.authority(): exact verifier on the signer-filtered
// records, then (only for a secure denial) the RFC 8198 classifier must reach
// the same rcode for the proof to be marked Aggressive.
func gate(b *built, fam string, resp *dns.Msg) (accepted, aggressive bool, kind middleware.ValidatedNegativeProofKind) {
	q := resp.Question[0]
	if fam == "nsec3" {
		set := dnsutil.FilterRRsToZone(dnsutil.ExtractRRSet(resp.Ns, "", dns.TypeNSEC3), b.signer)
		if len(set) == 0 {
			return false, false, 0
		}
		var secure bool
		var err error
		if resp.Rcode == dns.RcodeNameError {
			secure, err = dnssec.VerifyNameErrorForZoneWithWork(resp, set, b.signer, nopWork{})
		} else {
			secure, err = dnssec.VerifyNODATAForZoneWithWork(resp, set, b.signer, nopWork{})
		}
		if err != nil {
			return false, false, 0
		}
		if !secure {
			return true, false, 0 // accepted without AD: no provenance mark at all
		}
		r, err := dnssec.EvaluateAggressiveNSEC3(q, b.signer, set, nopWork{})
		return true, err == nil && r.Rcode == resp.Rcode, middleware.ValidatedNegativeProofNSEC3
	}
	set := dnsutil.FilterRRsToZone(dnsutil.ExtractRRSet(resp.Ns, "", dns.TypeNSEC), b.signer)
	if len(set) == 0 {
		return false, false, 0
	}
	var err error
	if resp.Rcode == dns.RcodeNameError {
		err = dnssec.VerifyNameErrorNSEC(resp, set)
	} else {
		err = dnssec.VerifyNODATANSEC(resp, set)
	}
	if err != nil {
		return false, false, 0
	}
	r, err := dnssec.EvaluateAggressiveNSEC(q, b.signer, set)
	return true, err == nil && r.Rcode == resp.Rcode, middleware.ValidatedNegativeProofNSEC
}

type rig struct {
	c      *mcache.Cache
	st     *mcache.Store
	offset time.Duration
	// scripted downstream ("resolver"): what it answers on a miss
	answer  *dns.Msg
	mark    *middleware.ValidatedNegativeProof
	reached int
}

func newRig() *rig {
	cfg := &config.Config{CacheSize: 4096, Expire: 900}
	r := &rig{c: mcache.New(cfg)}
	r.c.SetDNSSECCryptoLimiter(dnssec.NewCryptoLimiter(8))
	r.st = r.c.VerifC02Store()
	base := time.Now()
	r.st.VerifC02SetDenialClock(func() time.Time { return base.Add(r.offset) })
	return r
}

func (r *rig) advance(d time.Duration) {
	r.offset += d
	r.st.VerifC02ShiftCuts(d)
}

// serve runs one client question through Cache.ServeDNS with the scripted
// downstream behind it; nil means nothing was written (a miss the resolver
// would now have to answer).
func (r *rig) serve(req *dns.Msg) *dns.Msg {
	term := middleware.HandlerFunc(func(ctx context.Context, ch *middleware.Chain) {
		r.reached++
		if r.answer == nil {
			ch.Cancel()
			return
		}
		resp := r.answer.Copy()
		resp.Id = ch.Request.Msg().Id
		if r.mark != nil {
			middleware.MarkValidatedNegativeProofResponse(ctx, resp, *r.mark)
		}
		_ = ch.Writer.WriteMsg(resp)
		ch.Cancel()
	})
	w := mock.NewWriter("udp", "203.0.113.7:53000")
	ch := middleware.NewChain([]middleware.Handler{r.c, term})
	ch.Reset(w, req.Copy())
	ch.Next(context.Background())
	if !w.Written() {
		return nil
	}
	return w.Msg()
}

func clientReq(qname string, qtype uint16) *dns.Msg {
	m := new(dns.Msg)
	m.SetQuestion(qname, qtype)
	m.RecursionDesired = true
	m.SetEdns0(4096, true)
	return m
}

func TestCacheBehaviours(t *testing.T) {
	var in cacheInput
	vh.Input(t, &in)
	res := vh.NewResult()
	defer res.Write(t)

	zones := map[string]*zoneIn{}
	for i := range in.Zones {
		zones[in.Zones[i].Z+"|"+in.Zones[i].F] = &in.Zones[i]
	}
	for _, cn := range in.Concs {
		c := concs[cn]
		builtZones := map[string]*built{}
		for k, zi := range zones {
			b, err := build(zi, c)
			if err != nil {
				t.Fatalf("machinery: %v", err)
			}
			builtZones[k] = b
		}
		for bi := range in.Behaviours {
			beh := &in.Behaviours[bi]
			b := builtZones[beh.Z+"|"+beh.F]
			if b == nil {
				t.Fatalf("machinery: behaviour refers to unknown zone %s|%s", beh.Z, beh.F)
			}
			replayBehaviour(res, b, beh, bi)
		}
	}
}

func truthOf(b *built, q queryIn) (string, bool) {
	for i, x := range b.zi.Qs {
		if x.T == q.T && key(x.N) == key(q.N) {
			return b.zi.Truth[i], true
		}
	}
	return "", false
}

func replayBehaviour(res *vh.Result, b *built, beh *behIn, bi int) {
	r := newRig()
	defer r.c.Stop()
	pipeline := bi%2 == 1 // odd behaviours go through Cache.ServeDNS / ResponseWriter.WriteMsg
	route := "store"
	if pipeline {
		route = "servedns"
	}
	var trace []string
	forwarded := map[string]bool{} // questions whose exact answer went through the pipeline
	for si, st := range beh.Steps {
		switch st.Op {
		case "expire":
			r.advance(tick)
			trace = append(trace, "expire")
			res.Count("steps_expire", 1)

		case "admit":
			var recs []dns.RR
			if beh.F == "nsec" {
				for _, g := range st.G {
					recs = append(recs, b.nsec[key(g)])
				}
			} else {
				// the model chose its subset under its ABSTRACT hash order; the real ring
				// is ordered by SHA-1, so the admitted bundle is the genuine complete proof
				// for the same question taken from the real ring
				for qi, x := range b.zi.Qs {
					if x.T == st.Q.T && key(x.N) == key(st.Q.N) && isDenial(b.zi.Truth[qi]) {
						recs = b.completeProof(qi)
					}
				}
				if recs == nil {
					res.Count("admit_unbuildable", 1)
					continue
				}
			}
			qname, qtype := b.c.qname(st.Q.N), typeOf[st.Q.T]
			rcode := dns.RcodeSuccess
			if tr, _ := truthOf(b, st.Q); st.V == "nxdomain" || (beh.F == "nsec3" && tr == "nxdomain") {
				rcode = dns.RcodeNameError
			}
			ttl := uint32(st.TTL) * uint32(tick/time.Second)
			resp := proofMsg(b, recs, qname, qtype, rcode, ttl, time.Now())
			accepted, aggressive, kind := gate(b, beh.F, resp)
			trace = append(trace, fmt.Sprintf("admit g=%v q=%s/%s v=%s ttl=%d -> accepted=%v aggressive=%v", st.G, qname, st.Q.T, st.V, st.TTL, accepted, aggressive))
			res.Count("steps_admit", 1)
			if !accepted || !aggressive {
				res.Count("admit_gate_stricter_than_model", 1)
				continue
			}
			res.Count("admitted", 1)
			if pipeline {
				r.answer = resp
				r.mark = &middleware.ValidatedNegativeProof{Subject: qname, Zone: b.signer, Kind: kind, Aggressive: true}
				before := r.reached
				out := r.serve(clientReq(qname, qtype))
				r.answer, r.mark = nil, nil
				if r.reached == before && out != nil {
					// answered from the caches before reaching the resolver: that is a synthesis
					judgeSynth(res, b, beh, route, st.Q, out, nil, trace, si)
				} else {
					forwarded[qname+"/"+st.Q.T] = true
				}
			} else {
				r.st.RecordDenialProof(resp, b.signer, kind, time.Time{})
				if rcode == dns.RcodeNameError {
					r.st.RecordNXDomainCut(resp, qname, b.signer, time.Time{})
				}
			}

		case "forge":
			// genuine records replayed under a question / rcode the zone does not support:
			// pushed through the REAL gate and, if that lets it through, the real admission path
			var recs []dns.RR
			for _, g := range st.G {
				if beh.F == "nsec" {
					recs = append(recs, b.nsec[key(g)])
				} else {
					recs = append(recs, b.nsec3[0][key(g)])
				}
			}
			qname, qtype := b.c.qname(st.Q.N), typeOf[st.Q.T]
			rcode := dns.RcodeSuccess
			if st.RC == "NX" {
				rcode = dns.RcodeNameError
			}
			resp := proofMsg(b, recs, qname, qtype, rcode, 2*uint32(tick/time.Second), time.Now())
			accepted, aggressive, kind := gate(b, beh.F, resp)
			res.Count("steps_forge", 1)
			trace = append(trace, fmt.Sprintf("forge g=%v q=%s/%s rc=%s -> accepted=%v aggressive=%v", st.G, qname, st.Q.T, st.RC, accepted, aggressive))
			if !accepted {
				continue
			}
			res.Count("forged_claim_passed_exact_verifier", 1)
			if aggressive {
				res.Count("forged_claim_marked_aggressive", 1)
			}
			if pipeline {
				r.answer = resp
				if kind != 0 {
					r.mark = &middleware.ValidatedNegativeProof{Subject: qname, Zone: b.signer, Kind: kind, Aggressive: aggressive}
				}
				before := r.reached
				r.serve(clientReq(qname, qtype))
				r.answer, r.mark = nil, nil
				if r.reached != before {
					forwarded[qname+"/"+st.Q.T] = true
				}
			} else if aggressive {
				r.st.RecordDenialProof(resp, b.signer, kind, time.Time{})
				if rcode == dns.RcodeNameError {
					r.st.RecordNXDomainCut(resp, qname, b.signer, time.Time{})
				}
			}

		case "synth":
			qname, qtype := b.c.qname(st.Q.N), typeOf[st.Q.T]
			if forwarded[qname+"/"+st.Q.T] {
				// the exact answer for this very question was relayed earlier: a hit on it is
				// that acceptance (judged by TestDenialCases), not a synthesis
				res.Count("synth_skipped_exact_entry", 1)
				continue
			}
			req := clientReq(qname, qtype)
			var out *dns.Msg
			if pipeline {
				out = r.serve(req)
			} else {
				out, _ = r.st.GetWithContext(context.Background(), req)
			}
			res.Count("steps_synth", 1)
			trace = append(trace, fmt.Sprintf("synth q=%s/%s -> %s", qname, st.Q.T, describe(out)))
			judgeSynth(res, b, beh, route, st.Q, out, st.Model, trace, si)
		}
	}
	res.Case(fmt.Sprintf("beh|%s|%s|%s|%d", b.c.Name, beh.Z, beh.F, bi))
}

func describe(m *dns.Msg) string {
	if m == nil {
		return "miss"
	}
	return fmt.Sprintf("%s an=%d ns=%d ad=%v", dns.RcodeToString[m.Rcode], len(m.Answer), len(m.Ns), m.AuthenticatedData)
}

func judgeSynth(res *vh.Result, b *built, beh *behIn, route string, q queryIn, out *dns.Msg, model []string, trace []string, si int) {
	truth, ok := truthOf(b, q)
	if !ok {
		res.Skip("no truth for %v/%s", q.N, q.T)
		return
	}
	claim := ""
	switch {
	case out == nil:
	case out.Rcode == dns.RcodeNameError:
		claim = "NX"
	case out.Rcode == dns.RcodeSuccess && len(out.Answer) == 0:
		claim = "ND"
	case out.Rcode == dns.RcodeServerFailure:
		res.Count("synth_servfail", 1)
	default:
		res.DriftNote("unexpected cache answer %s for %v/%s", describe(out), q.N, q.T)
	}
	modelClaim := ""
	for _, v := range model {
		if v == "nxdomain" {
			modelClaim = "NX"
		} else {
			modelClaim = "ND"
		}
	}
	if claim == "" {
		if modelClaim != "" {
			res.Count("synth_code_misses_where_model_answers", 1)
		} else {
			res.Count("synth_agree_miss", 1)
		}
		return
	}
	res.Count("synthesised", 1)
	res.Count("synthesised:"+route+":"+claim, 1)
	replay := map[string]any{"conc": b.c.Name, "zone": beh.Z, "fam": beh.F, "route": route, "steps": beh.Steps[:si+1],
		"trace": append([]string(nil), trace...), "qname": b.c.qname(q.N), "qtype": q.T, "truth": truth, "got": describe(out)}
	// a synthesised denial must not rest on an Opt-Out span
	for _, rr := range out.Ns {
		if n3, isN3 := rr.(*dns.NSEC3); isN3 && n3.Flags&1 == 1 && isCover(n3, b.c.qname(q.N), b.signer) {
			res.Violate(fmt.Sprintf("cache|%s|%s|optout-shared", beh.F, route),
				fmt.Sprintf("the %s path synthesised %s for %s %s from an Opt-Out NSEC3 span (zone %s)", route, claim, b.c.qname(q.N), q.T, beh.Z), replay)
			return
		}
	}
	if !compatible(claim, truth, q.T) {
		res.Violate(fmt.Sprintf("cache|%s|%s|claim=%s|truth=%s", beh.F, route, claim, truth),
			fmt.Sprintf("the %s path synthesised %s for %s %s but the zone says %s (zone %s/%s as %s; admissions and expiries: %v)",
				route, claim, b.c.qname(q.N), q.T, truth, beh.Z, beh.F, b.c.Name, trace), replay)
		return
	}
	if modelClaim == claim {
		res.Count("synth_agree", 1)
	} else {
		res.Count("synth_code_answers_where_model_misses", 1)
	}
}
