// Package c02 binds tla/Denial/Denial.tla to the real denial-of-existence code:
// every (zone, family, subset, question) TLC enumerates is built into real
// dns.NSEC / dns.NSEC3 records (authkit chain generation, real SHA-1) and handed
// to the real dnssec verifiers and classifiers; TLC-chosen admission / expiry
// orders are replayed on the real denial-proof index and subtree-cut cache.
// The oracle is the zone model's Truth; the model's own Accepts is used only
// for drift accounting and the vacuity guard.
package c02

import (
	"fmt"
	"sort"
	"strings"

	"github.com/miekg/dns"
	"github.com/semihalev/sdns/verifharness/authkit"
)

// ---- input schema (produced by checks/c02.py from TLC's output) ---------------------

type recIn struct {
	O  []string `json:"o"`
	S  string   `json:"s"`
	P  int      `json:"p"`
	Nx []string `json:"nx"`
	T  []string `json:"t"`
	Oo bool     `json:"oo"`
}

type ownerIn struct {
	N []string `json:"n"`
	T []string `json:"t"`
}

type queryIn struct {
	N []string `json:"n"`
	T string   `json:"t"`
}

type zoneIn struct {
	Z      string     `json:"z"`
	F      string     `json:"f"`
	Optout bool       `json:"optout"`
	Owners []ownerIn  `json:"owners"`
	Chain  []recIn    `json:"chain"`
	Ring   [][]string `json:"ring"`
	Qs     []queryIn  `json:"qs"`
	Truth  []string   `json:"truth"`
	Ce     [][]string `json:"ce"`
}

type polIn struct {
	S string   `json:"s"`
	O []string `json:"o"`
}

// accIn is what the MODEL concludes for one question of a case: v = exact
// verdicts ("nx1" = nxdomain secure, "nx0" = resting on Opt-Out, nd, wn, id, ou),
// a = verdicts of the RFC 8198 classifier.
type accIn struct {
	I int      `json:"i"` // 1-based index into zone.qs
	V []string `json:"v"`
	A []string `json:"a"`
}

type caseIn struct {
	Z   string     `json:"z"`
	F   string     `json:"f"`
	G   [][]string `json:"g"`
	Gp  []int      `json:"gp"`
	P   []polIn    `json:"p"`
	Acc []accIn    `json:"acc"`
}

// ---- concretisation of the model's label alphabet ----------------------------------

type conc struct {
	Name  string
	Zone  string            // apex (signer) name
	Lab   map[string]string // model label -> presentation-format label
	Order bool              // preserves the model's canonical order of labels ('*' < a < b)
	Upper bool              // questions are asked in upper case (records stay lower case)
}

var concs = map[string]conc{
	"plain": {Name: "plain", Zone: "zone.test.", Lab: map[string]string{"a": "alpha", "b": "bravo", "*": "*"}, Order: true},
	"case":  {Name: "case", Zone: "zone.test.", Lab: map[string]string{"a": "alpha", "b": "bravo", "*": "*"}, Order: true, Upper: true},
	"esc":   {Name: "esc", Zone: `c\.d.test.`, Lab: map[string]string{"a": `a\.b`, "b": "b", "*": "*"}, Order: true},
	"bin":   {Name: "bin", Zone: "zone.test.", Lab: map[string]string{"a": `\000x`, "b": `a\.b`, "*": "*"}, Order: false},
	"root":  {Name: "root", Zone: ".", Lab: map[string]string{"a": "alpha", "b": "bravo", "*": "*"}, Order: true},
}

func key(n []string) string { return strings.Join(n, "/") }

// fqdn concretises a model name (labels top-down from the apex).
func (c conc) fqdn(n []string) string {
	var sb strings.Builder
	for i := len(n) - 1; i >= 0; i-- {
		sb.WriteString(c.Lab[n[i]])
		sb.WriteByte('.')
	}
	if c.Zone != "." {
		sb.WriteString(c.Zone)
	}
	s := sb.String()
	if s == "" {
		return "."
	}
	return s
}

func (c conc) qname(n []string) string {
	s := c.fqdn(n)
	if c.Upper {
		return strings.ToUpper(s)
	}
	return s
}

var typeOf = map[string]uint16{"A": dns.TypeA, "TXT": dns.TypeTXT, "NS": dns.TypeNS, "DS": dns.TypeDS, "SOA": dns.TypeSOA,
	"CNAME": dns.TypeCNAME, "DNAME": dns.TypeDNAME}

func has(ts []string, t string) bool {
	for _, x := range ts {
		if x == t {
			return true
		}
	}
	return false
}

// NSEC3 parameter tuples of the zone's two chains (model par = HashSel, HashSel+1).
var nsec3Params = [2]struct {
	Salt string
	Iter uint16
}{{"ab", 1}, {"beef", 2}}

// built is one model zone concretised: the authkit zone(s) and the genuine
// records indexed by the model owner they belong to.
type built struct {
	zi     *zoneIn
	c      conc
	signer string
	nsec   map[string]*dns.NSEC     // model owner key -> record
	nsec3  [2]map[string]*dns.NSEC3 // per parameter tuple
	back   map[string]string        // concrete lower-case name -> model key
	ring   map[string]bool          // model keys that have an NSEC3 (signed presence)
	hdrTTL uint32
}

func hdr(name string, t uint16) dns.RR_Header {
	return dns.RR_Header{Name: name, Rrtype: t, Class: dns.ClassINET, Ttl: 300}
}

func newAuthZone(zi *zoneIn, c conc, nsec3 bool, par int) *authkit.Zone {
	z := authkit.NewZone(c.Zone, false)
	z.NSEC3 = nsec3
	z.OptOut = zi.Optout && nsec3
	z.Salt, z.Iter = nsec3Params[par].Salt, nsec3Params[par].Iter
	for _, o := range zi.Owners {
		if len(o.N) == 0 {
			continue // apex: SOA + NS come with NewZone
		}
		name := c.fqdn(o.N)
		if has(o.T, "NS") {
			cut := &authkit.Cut{Name: name, NS: []dns.RR{&dns.NS{Hdr: hdr(name, dns.TypeNS), Ns: "ns.elsewhere.invalid."}}}
			if has(o.T, "DS") {
				cut.DS = []dns.RR{&dns.DS{Hdr: hdr(name, dns.TypeDS), KeyTag: 4711, Algorithm: dns.ECDSAP256SHA256,
					DigestType: dns.SHA256, Digest: strings.Repeat("ab", 32)}}
			}
			z.Delegate(cut)
			continue
		}
		for _, t := range o.T {
			switch t {
			case "A":
				z.AddRR(&dns.A{Hdr: hdr(name, dns.TypeA), A: []byte{192, 0, 2, 1}})
			case "TXT":
				z.AddRR(&dns.TXT{Hdr: hdr(name, dns.TypeTXT), Txt: []string{"c02"}})
			case "CNAME":
				z.AddRR(&dns.CNAME{Hdr: hdr(name, dns.TypeCNAME), Target: "target.elsewhere.invalid."})
			case "DNAME":
				z.AddRR(&dns.DNAME{Hdr: hdr(name, dns.TypeDNAME), Target: "dname.elsewhere.invalid."})
			default:
				panic("c02: zone library uses a type the driver cannot publish: " + t)
			}
		}
	}
	return z
}

// build concretises zone zi under c.  It fails (machinery) when the chain the
// independent authkit generator produces disagrees with the model's chain
// under an order-preserving concretisation, or when the NSEC3 owner sets differ.
func build(zi *zoneIn, c conc) (*built, error) {
	b := &built{zi: zi, c: c, signer: strings.ToLower(c.Zone), nsec: map[string]*dns.NSEC{}, back: map[string]string{}, ring: map[string]bool{}}
	for _, o := range zi.Owners {
		b.back[strings.ToLower(c.fqdn(o.N))] = key(o.N)
	}
	for _, r := range zi.Ring {
		b.back[strings.ToLower(c.fqdn(r))] = key(r)
		b.ring[key(r)] = true
	}
	if zi.F == "nsec" {
		z := newAuthZone(zi, c, false, 0)
		for _, d := range z.C02NSECChain() {
			k, ok := b.back[d.Owner]
			if !ok {
				return nil, fmt.Errorf("authkit NSEC owner %q is not a model owner (zone %s/%s)", d.Owner, zi.Z, c.Name)
			}
			b.nsec[k] = d.RR.(*dns.NSEC)
		}
		if len(b.nsec) != len(zi.Chain) {
			return nil, fmt.Errorf("zone %s/%s: authkit chain has %d NSECs, model %d", zi.Z, c.Name, len(b.nsec), len(zi.Chain))
		}
		for _, r := range zi.Chain {
			rr := b.nsec[key(r.O)]
			if rr == nil {
				return nil, fmt.Errorf("zone %s/%s: model NSEC owner %v missing from authkit chain", zi.Z, c.Name, r.O)
			}
			if c.Order && strings.ToLower(rr.NextDomain) != strings.ToLower(c.fqdn(r.Nx)) {
				return nil, fmt.Errorf("zone %s/%s: canonical order differs: model %v -> %v, authkit %s -> %s",
					zi.Z, c.Name, r.O, r.Nx, rr.Hdr.Name, rr.NextDomain)
			}
			if err := sameTypes(rr.TypeBitMap, r.T); err != nil {
				return nil, fmt.Errorf("zone %s/%s owner %v: %v", zi.Z, c.Name, r.O, err)
			}
		}
		return b, nil
	}
	for par := 0; par < 2; par++ {
		z := newAuthZone(zi, c, true, par)
		b.nsec3[par] = map[string]*dns.NSEC3{}
		for _, d := range z.C02NSEC3Ring() {
			k, ok := b.back[d.Owner]
			if !ok || !b.ring[k] {
				return nil, fmt.Errorf("authkit NSEC3 owner %q is not in the model ring (zone %s/%s)", d.Owner, zi.Z, c.Name)
			}
			b.nsec3[par][k] = d.RR.(*dns.NSEC3)
		}
		if len(b.nsec3[par]) != len(zi.Ring) {
			return nil, fmt.Errorf("zone %s/%s: authkit ring has %d NSEC3s, model %d", zi.Z, c.Name, len(b.nsec3[par]), len(zi.Ring))
		}
	}
	for _, r := range zi.Chain {
		rr := b.nsec3[0][key(r.O)]
		if rr == nil {
			return nil, fmt.Errorf("zone %s/%s: model NSEC3 owner %v missing", zi.Z, c.Name, r.O)
		}
		if err := sameTypes(rr.TypeBitMap, r.T); err != nil {
			return nil, fmt.Errorf("zone %s/%s ring owner %v: %v", zi.Z, c.Name, r.O, err)
		}
		if (rr.Flags&1 == 1) != r.Oo {
			return nil, fmt.Errorf("zone %s/%s ring owner %v: opt-out flag differs", zi.Z, c.Name, r.O)
		}
	}
	return b, nil
}

// sameTypes: the generated bitmap restricted to the model's type universe equals the model's.
func sameTypes(bm []uint16, model []string) error {
	var got []string
	for name, t := range typeOf {
		for _, x := range bm {
			if x == t {
				got = append(got, name)
			}
		}
	}
	sort.Strings(got)
	want := append([]string(nil), model...)
	sort.Strings(want)
	if strings.Join(got, ",") != strings.Join(want, ",") {
		return fmt.Errorf("type bitmap %v, model %v", got, want)
	}
	return nil
}

// unsigned: the name has no signed presence in an Opt-Out zone (it is at or
// below an opted-out delegation, or an empty non-terminal kept out of the ring).
func (b *built) unsigned(n []string) bool {
	if !b.zi.Optout {
		return false
	}
	for k := 1; k <= len(n); k++ {
		if !b.ring[key(n[:k])] {
			return true
		}
	}
	return false
}

// ---- pollution: concrete foreign records -------------------------------------------------

func mkNSEC(owner, next string, class uint16, types ...uint16) *dns.NSEC {
	bm := append([]uint16{}, types...)
	bm = append(bm, dns.TypeRRSIG, dns.TypeNSEC)
	sort.Slice(bm, func(i, j int) bool { return bm[i] < bm[j] })
	return &dns.NSEC{Hdr: dns.RR_Header{Name: owner, Rrtype: dns.TypeNSEC, Class: class, Ttl: 60}, NextDomain: next, TypeBitMap: bm}
}

func mkNSEC3(ownerHash, zone, nextHash string, par int, flags uint8, types ...uint16) *dns.NSEC3 {
	owner := ownerHash + "." + zone
	if zone == "." {
		owner = ownerHash + "."
	}
	p := nsec3Params[par]
	return &dns.NSEC3{Hdr: dns.RR_Header{Name: owner, Rrtype: dns.TypeNSEC3, Class: dns.ClassINET, Ttl: 60},
		Hash: dns.SHA1, Flags: flags, Iterations: p.Iter, SaltLength: uint8(len(p.Salt) / 2), Salt: p.Salt,
		HashLength: 20, NextDomain: nextHash, TypeBitMap: types}
}

const (
	hashLow  = "00000000000000000000000000000000"
	hashHigh = "VVVVVVVVVVVVVVVVVVVVVVVVVVVVVVVV"
)

// pollution returns the concrete foreign records for a model pollution entry.
// They are shaped as greedily as a replayed genuine record can be: a zone's
// last NSEC (wrap-around to its apex) read naively covers every name of the
// victim zone; an NSEC3 spanning 000..0 -> VVV..V covers nearly every hash.
func (b *built) pollution(p polIn, fam string) []dns.RR {
	zone := b.signer
	var sibs []string
	if zone != "." {
		parent := "."
		for i := 0; i < len(zone); i++ { // first unescaped dot ends the apex label
			if zone[i] == '\\' {
				i++
				continue
			}
			if zone[i] == '.' {
				parent = zone[i+1:]
				break
			}
		}
		// textually ends in "."+zone but is the single label "x.<apex label>" under the parent
		sibs = append(sibs, `x\.`+zone, "zzsibling."+parent)
	}
	var out []dns.RR
	switch p.S {
	case "sibling":
		for _, s := range sibs {
			if fam == "nsec" {
				out = append(out, mkNSEC("zz."+s, s, dns.ClassINET, dns.TypeA), mkNSEC(s, "zz."+s, dns.ClassINET, dns.TypeSOA, dns.TypeNS))
			} else {
				out = append(out, mkNSEC3(hashLow, s, hashHigh, 0, 0, dns.TypeA))
			}
		}
	case "child":
		c := strings.ToLower(b.c.fqdn(p.O))
		if fam == "nsec" {
			// the child zone's apex NSEC and its last NSEC (wraps to the child apex)
			out = append(out, mkNSEC(c, "zz."+c, dns.ClassINET, dns.TypeSOA, dns.TypeNS, dns.TypeDNSKEY),
				mkNSEC("zz."+c, c, dns.ClassINET, dns.TypeA))
		} else {
			out = append(out, mkNSEC3(hashLow, c, hashHigh, 0, 0, dns.TypeA))
		}
	}
	return out
}
