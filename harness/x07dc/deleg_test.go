// Package x07dc drives the gate-level schedules of tla/DelegAssembly through the REAL
// sdns pipeline (cache + resolver) resolving in a scripted namespace:
//
//	.  ->  <tld>.  ->  bank.<tld>.    honest victim zone
//	               ->  hosts.<tld>.   honest zone of the glue-less NS hosts      (HOST gate)
//	               ->  evil<k>.<tld>. = Zk, adversarial server                   (ANSWER gate)
//	                     NS ns1.evil<k>.<tld>. (glued)  NS nsx<k>h<i>.hosts.<tld>. (no glue)
//	       the <tld> server holds back the referral to Zk                        (REFERRAL gate)
//
// A client query is a goroutine entering through Server.ServeMsg; it runs until it is
// parked at a gate (inside the scripted authoritative server it is waiting for) or done.
// The driver performs one gate step of the schedule, waits until the observation is one
// the model allows (or nothing moves any more), records the published server set of every
// (zone, client CD) key through the overlay shim, and goes on.  Verdicts come only from
// predicates on client-visible replies, the trap server and the later victim queries
// (harness/c07's containment predicates); everything else is drift.
package x07dc

import (
	"context"
	"fmt"
	"net"
	"os"
	"sort"
	"strings"
	"sync"
	"sync/atomic"
	"testing"
	"time"

	"github.com/miekg/dns"
	"github.com/semihalev/sdns/config"
	"github.com/semihalev/sdns/middleware/resolver"
	"github.com/semihalev/sdns/server"
	"github.com/semihalev/sdns/verifharness/authkit"
	"github.com/semihalev/sdns/verifharness/pipe"
	"github.com/semihalev/sdns/verifharness/vh"
)

// ---- input ---------------------------------------------------------------------------------

type queryDef struct {
	Zone int    `json:"zone"`
	Name string `json:"name"` // first label of the question (two queries may share it)
	CD   bool   `json:"cd"`
}

type step struct {
	Op   string   `json:"op"` // start | relref | relhost | relans | v6 (wait for the IPv6 enrichment of q's set)
	Q    string   `json:"q,omitempty"`
	Qs   []string `json:"qs,omitempty"`
	Zone int      `json:"zone,omitempty"`
	Host int      `json:"host,omitempty"`
	Out  string   `json:"out,omitempty"`  // relhost: addr | none
	Move string   `json:"move,omitempty"` // relans: adversary move kind
	// observations the model allows after this step (canonical strings, see obsKey);
	// empty = no prediction (replay of a recorded case)
	Expect []string `json:"expect,omitempty"`
}

type caseIn struct {
	ID      string              `json:"id"`
	Hosts   map[string][]string `json:"hosts"` // zone -> kinds of its NS hosts ("glued" | "slow"), in lookup order
	Queries map[string]queryDef `json:"queries"`
	Steps   []step              `json:"steps"`
	Variant string              `json:"variant"` // "unsigned" | "signed" (signed parents, insecure delegations to Zk, DNSSEC on)
	V6      bool                `json:"v6"`      // IPv6 access on: the detached AAAA enrichment of a published set is awaited by "v6" steps
	GateRef bool                `json:"gateRef"`
	GateAns bool                `json:"gateAns"`
	Moves   map[string]string   `json:"moves,omitempty"` // per query, when the answer gate is off
}

type input struct {
	Cases   []caseIn `json:"cases"`
	Workers int      `json:"workers"`
	Verbose bool     `json:"verbose"`
	SettleM int      `json:"settleMs"`
}

// ---- gates ---------------------------------------------------------------------------------

type waiter struct{ ch chan string }

type gate struct {
	mu      sync.Mutex
	parked  map[string][]*waiter
	open    map[string]string // keys released for good: later arrivals pass with this value
	arrived map[string]int
	dead    bool
	drain   *[2]string // set at the end of a case: {host outcome, move} for everything that still arrives
}

func newGate() *gate {
	return &gate{parked: map[string][]*waiter{}, open: map[string]string{}, arrived: map[string]int{}}
}

// park blocks the calling server goroutine until the key is released; "" = world torn down / timeout.
func (g *gate) park(key string) string {
	g.mu.Lock()
	g.arrived[key]++
	if v, ok := g.open[key]; ok {
		g.mu.Unlock()
		return v
	}
	if g.dead {
		g.mu.Unlock()
		return ""
	}
	if g.drain != nil {
		d := *g.drain
		g.mu.Unlock()
		switch {
		case strings.HasPrefix(key, "host|"):
			return d[0]
		case strings.HasPrefix(key, "ans|"):
			return d[1]
		}
		return "go"
	}
	w := &waiter{ch: make(chan string, 1)}
	g.parked[key] = append(g.parked[key], w)
	g.mu.Unlock()
	select {
	case v := <-w.ch:
		return v
	case <-time.After(9 * time.Second):
		return ""
	}
}

// peek: the value a key was released with ("" = not released yet).
func (g *gate) peek(key string) string {
	g.mu.Lock()
	defer g.mu.Unlock()
	if v, ok := g.open[key]; ok {
		return v
	}
	if g.drain != nil && strings.HasPrefix(key, "host|") {
		return g.drain[0]
	}
	return ""
}

func (g *gate) nParked(key string) int {
	g.mu.Lock()
	defer g.mu.Unlock()
	return len(g.parked[key])
}

func (g *gate) nArrived(key string) int {
	g.mu.Lock()
	defer g.mu.Unlock()
	return g.arrived[key]
}

// release lets every parked waiter of key go and keeps the key open.
func (g *gate) release(key, val string) int {
	g.mu.Lock()
	ws := g.parked[key]
	delete(g.parked, key)
	g.open[key] = val
	g.mu.Unlock()
	for _, w := range ws {
		w.ch <- val
	}
	return len(ws)
}

func (g *gate) kill() {
	g.mu.Lock()
	g.dead = true
	all := g.parked
	g.parked = map[string][]*waiter{}
	g.mu.Unlock()
	for _, ws := range all {
		for _, w := range ws {
			w.ch <- ""
		}
	}
}

// ---- world ---------------------------------------------------------------------------------

const (
	truthVictim = "192.0.2.200"
	truthWww    = "192.0.2.201"
	poisonIP    = "6.6.6.6"
	trapServed  = "6.6.6.66"
	trapIP      = "192.0.2.66"
	blackHole   = "127.0.0.1:9"
)

var worldSeq atomic.Uint64

type world struct {
	tld, zTld, zBank, zHosts, victim, wwwBank, nsBank, trapNS string
	c                                                         caseIn
	n                                                         *authkit.Net
	dead                                                      atomic.Bool
	tldSrv                                                    *authkit.Server
	bankSrv                                                   *authkit.Server
	hostsSrv                                                  *authkit.Server
	evilSrv                                                   map[int]*authkit.Server
	trap                                                      *authkit.Server
	gates                                                     *gate
	glueAddr                                                  map[int]string      // zone -> advertised address of ns1 (glue)
	hostAddr                                                  map[string]string   // "z/h" -> advertised address a released host lookup returns
	addrSym                                                   map[string]string   // advertised "ip:53" -> "z/h"
	qOfName                                                   map[string][]string // fqdn -> query ids
	moveOf                                                    map[string]string   // fqdn -> move chosen at release (answer gate) or fixed
	mu                                                        sync.Mutex
	played                                                    map[string]int
	dials                                                     []string
	foreignAsked                                              int // questions outside Zk's authority that reached Zk's server
}

func lc(s string) string { return strings.ToLower(dns.Fqdn(s)) }

func mustRR(s string) dns.RR {
	rr, err := dns.NewRR(s)
	if err != nil {
		panic(err)
	}
	return rr
}

func (w *world) canon(s string) string   { return strings.ReplaceAll(s, w.tld+".", "test.") }
func (w *world) zEvil(k int) string      { return fmt.Sprintf("evil%d.%s", k, w.zTld) }
func (w *world) qname(d queryDef) string { return d.Name + "." + w.zEvil(d.Zone) }
func (w *world) hostName(k, h int) string {
	if w.c.Hosts[fmt.Sprint(k)][h-1] == "glued" {
		return fmt.Sprintf("ns%d.%s", h, w.zEvil(k))
	}
	return fmt.Sprintf("nsx%dh%d.%s", k, h, w.zHosts)
}
func ownAddr(k int, name string) string {
	return fmt.Sprintf("198.51.100.%d", 10*k+int(name[0]-'a')+1)
}

func zonesOf(c caseIn) []int {
	var zs []int
	for k := range c.Hosts {
		var i int
		fmt.Sscan(k, &i)
		zs = append(zs, i)
	}
	sort.Ints(zs)
	return zs
}

// newWorld builds the namespace.  miekg/dns refuses to sign with a key whose tag is 0 (authkit
// panics on it; 1 key in 65536): such a world is thrown away and rebuilt.
func newWorld(c caseIn) (*world, error) {
	for try := 0; ; try++ {
		w, err := newWorldOnce(c)
		if err != nil || try > 5 {
			return w, err
		}
		ok := true
		for _, z := range w.n.Zones {
			if z.Signed && len(z.Keys) > 0 && z.Keys[0].RR.KeyTag() == 0 {
				ok = false
			}
		}
		if ok {
			return w, nil
		}
		w.stop()
	}
}

func newWorldOnce(c caseIn) (*world, error) {
	signed := c.Variant == "signed"
	n, err := authkit.NewNet(signed)
	if err != nil {
		return nil, err
	}
	tld := fmt.Sprintf("d%x-%x", os.Getpid()&0xffffff, worldSeq.Add(1))
	w := &world{tld: tld, zTld: tld + ".", c: c, n: n, gates: newGate(), evilSrv: map[int]*authkit.Server{},
		glueAddr: map[int]string{}, hostAddr: map[string]string{}, addrSym: map[string]string{},
		qOfName: map[string][]string{}, moveOf: map[string]string{}, played: map[string]int{}}
	w.zBank, w.zHosts = "bank."+w.zTld, "hosts."+w.zTld
	w.victim, w.wwwBank, w.nsBank, w.trapNS = "victim."+w.zBank, "www."+w.zBank, "ns."+w.zBank, "nstrap."+w.zTld
	o := authkit.DelegateOpts{Signed: signed, PublishDS: signed}
	tz, tsrv, err := n.Delegate(w.zTld, o)
	if err != nil {
		return nil, err
	}
	w.tldSrv = tsrv
	bank, bsrv, err := n.Delegate(w.zBank, o)
	if err != nil {
		return nil, err
	}
	w.bankSrv = bsrv
	bank.Add(w.victim+" 300 IN A "+truthVictim, w.wwwBank+" 300 IN A "+truthWww)
	hz, hsrv, err := n.Delegate(w.zHosts, o)
	if err != nil {
		return nil, err
	}
	w.hostsSrv = hsrv
	for _, k := range zonesOf(c) {
		zname := w.zEvil(k)
		z := authkit.NewZone(zname, false)
		srv, err := n.AddServer(fmt.Sprintf("evil%d", k), z)
		if err != nil {
			return nil, err
		}
		n.AdoptZone(z, srv)
		w.evilSrv[k] = srv
		cut := &authkit.Cut{Name: zname}
		z.Remove(zname, dns.TypeNS)
		for h := 1; h <= len(c.Hosts[fmt.Sprint(k)]); h++ {
			host := w.hostName(k, h)
			cut.NS = append(cut.NS, authkit.NSRR(zname, host, 300))
			z.AddRR(authkit.NSRR(zname, host, 300))
			ip := n.AllocGlue(srv)
			key := fmt.Sprintf("%d/%d", k, h)
			w.addrSym[net.JoinHostPort(ip.String(), "53")] = key
			if c.Hosts[fmt.Sprint(k)][h-1] == "glued" {
				cut.Glue = append(cut.Glue, authkit.ARR(host, ip, 300))
				z.AddRR(authkit.ARR(host, ip, 300))
				if h == 1 {
					w.glueAddr[k] = ip.String()
				}
			} else {
				// the host's own zone holds its address; the HOST gate decides whether it is served
				hz.AddRR(authkit.ARR(host, ip, 300))
				w.hostAddr[key] = ip.String()
				if c.V6 {
					ip6 := fmt.Sprintf("2001:db8:%d::%d", k, h)
					hz.Add(fmt.Sprintf("%s 300 IN AAAA %s", host, ip6))
					n.MapGlue(ip6, srv)
					w.addrSym[net.JoinHostPort(ip6, "53")] = fmt.Sprintf("%d/6", k)
				}
			}
		}
		tz.Delegate(cut)
		for id, d := range c.Queries {
			if d.Zone == k {
				fq := lc(w.qname(d))
				if len(w.qOfName[fq]) == 0 {
					z.Add(fq + " 300 IN A " + ownAddr(k, d.Name))
				}
				w.qOfName[fq] = append(w.qOfName[fq], id)
				if m, ok := c.Moves[id]; ok {
					w.moveOf[fq] = m
				}
			}
		}
		kk := k
		srv.SetHook(func(ex *authkit.Exchange) { w.evilHook(kk, ex) })
	}
	if w.trap, err = authkit.StartServer("trap"); err != nil {
		return nil, err
	}
	w.trap.SetHook(func(ex *authkit.Exchange) {
		m := new(dns.Msg)
		m.SetReply(ex.Req)
		m.Authoritative = true
		if ex.Q.Qtype == dns.TypeA {
			m.Answer = []dns.RR{mustRR(lc(ex.Q.Name) + " 300 IN A " + trapServed)}
		}
		m.Extra = ex.Resp.Extra
		ex.Resp = m
	})
	n.MapGlue(trapIP, w.trap)
	tsrv.SetHook(w.tldHook)
	hsrv.SetHook(w.hostsHook)
	return w, nil
}

func (w *world) stop() {
	w.dead.Store(true)
	w.gates.kill()
	w.n.Stop()
	w.trap.Stop()
}

// tldReferrals: how often the parent answered a question for fq (with the referral to its zone).
func (w *world) tldReferrals(fq string) int {
	n := 0
	for _, e := range w.tldSrv.Log() {
		if lc(e.Q.Name) == fq && e.Kind == "referral" {
			n++
		}
	}
	return n
}

// tldHook: the parent holds back the referral to Zk for a client query's own name.
func (w *world) tldHook(ex *authkit.Exchange) {
	if !w.c.GateRef || ex.Truth.Kind != "referral" {
		return
	}
	name := lc(ex.Q.Name)
	if _, ok := w.qOfName[name]; !ok || ex.Q.Qtype != dns.TypeA {
		return
	}
	if w.gates.park("ref|"+name) == "" {
		ex.Drop = true
	}
}

// hostsHook: the address lookup of a glue-less NS host is parked; the release decides the outcome.
func (w *world) hostsHook(ex *authkit.Exchange) {
	name := lc(ex.Q.Name)
	if ex.Q.Qtype != dns.TypeA && ex.Q.Qtype != dns.TypeAAAA {
		return
	}
	for _, k := range zonesOf(w.c) {
		for h, kind := range w.c.Hosts[fmt.Sprint(k)] {
			if kind == "glued" || name != lc(w.hostName(k, h+1)) {
				continue
			}
			out := ""
			if ex.Q.Qtype == dns.TypeAAAA {
				// not gated: the name exists iff the address lookup was released with an address
				if out = w.gates.peek(fmt.Sprintf("host|%d/%d", k, h+1)); out == "" {
					out = "addr"
				}
			} else {
				out = w.gates.park(fmt.Sprintf("host|%d/%d", k, h+1))
			}
			switch out {
			case "addr":
			case "none":
				m := new(dns.Msg)
				m.SetReply(ex.Req)
				m.Authoritative = true
				m.Rcode = dns.RcodeNameError
				m.Ns = ex.Zone.RRset(ex.Zone.Name, dns.TypeSOA)
				_, opt := splitOPT(ex.Resp.Extra)
				m.Extra = opt
				ex.Resp = m
			default:
				ex.Drop = true
			}
			return
		}
	}
}

func cdKey(cd bool) string {
	if cd {
		return "1"
	}
	return "0"
}

func splitOPT(extra []dns.RR) (rest []dns.RR, opt []dns.RR) {
	for _, rr := range extra {
		if rr.Header().Rrtype == dns.TypeOPT {
			opt = append(opt, rr)
		} else {
			rest = append(rest, rr)
		}
	}
	return
}

// evilHook is Zk's server: a client query's own name is parked at the ANSWER gate and then
// answered with the adversary move chosen at the release; everything else is served honestly.
func (w *world) evilHook(k int, ex *authkit.Exchange) {
	name := lc(ex.Q.Name)
	if !authkit.IsSub(name, w.zEvil(k)) && authkit.IsSub(name, w.zTld) {
		// a question for a name the adversary has no authority over was brought to its server: it lies
		w.mu.Lock()
		w.foreignAsked++
		w.mu.Unlock()
		m := new(dns.Msg)
		m.SetReply(ex.Req)
		m.Authoritative = true
		if ex.Q.Qtype == dns.TypeA {
			m.Answer = []dns.RR{mustRR(name + " 300 IN A " + poisonIP)}
		}
		_, opt := splitOPT(ex.Resp.Extra)
		m.Extra = opt
		ex.Resp = m
		return
	}
	if _, ok := w.qOfName[name]; !ok || ex.Q.Qtype != dns.TypeA {
		return
	}
	move := ""
	if w.c.GateAns {
		move = w.gates.park("ans|" + name)
		if move == "" {
			ex.Drop = true
			return
		}
	} else {
		move = w.moveOf[name]
	}
	w.mu.Lock()
	w.played[move]++
	w.mu.Unlock()
	w.tamper(k, name, move, ex)
}

func (w *world) tamper(k int, name, move string, ex *authkit.Exchange) {
	r := ex.Resp
	glue, opt := splitOPT(r.Extra)
	poisonV := mustRR(w.victim + " 300 IN A " + poisonIP)
	trapGlue := mustRR(w.trapNS + " 300 IN A " + trapIP)
	nsTo := func(owner string) dns.RR { return mustRR(owner + " 300 IN NS " + w.trapNS) }
	switch move {
	case "honest", "":
	case "ans_foreign":
		r.Answer = append(r.Answer, poisonV)
	case "cname_out":
		r.Answer = []dns.RR{mustRR(name + " 300 IN CNAME " + w.victim), poisonV}
	case "auth_foreign":
		r.Ns = []dns.RR{nsTo(w.zBank)}
		glue = []dns.RR{trapGlue, poisonV}
	case "ref_up": // upward referral: the parent zone "delegated" to the adversary's second server
		r.Answer, r.Authoritative = nil, false
		r.Ns, glue = []dns.RR{nsTo(w.zTld)}, []dns.RR{trapGlue}
	case "ref_self":
		r.Answer, r.Authoritative = nil, false
		r.Ns, glue = []dns.RR{mustRR(w.zEvil(k) + " 300 IN NS nstrap." + w.zEvil(k))}, []dns.RR{mustRR("nstrap." + w.zEvil(k) + " 300 IN A " + trapIP)}
	case "ref_glue_out": // proper referral below Zk, NS host outside Zk, with "glue" for it
		r.Answer, r.Authoritative = nil, false
		r.Ns = []dns.RR{mustRR(name + " 300 IN NS " + w.nsBank)}
		glue = []dns.RR{mustRR(w.nsBank + " 300 IN A " + trapIP)}
	}
	r.Extra = append(glue, opt...)
}

// ---- the run of one case -------------------------------------------------------------------

type running struct {
	id    string
	def   queryDef
	done  chan struct{}
	reply *dns.Msg
}

type pubSet struct {
	Key string                 `json:"key"`
	Set resolver.VerifX07dcSet `json:"set"`
}

type stepLog struct {
	Step   step     `json:"step"`
	Obs    string   `json:"obs"`
	Match  bool     `json:"match"`
	Waited int      `json:"waitedMs"`
	Pub    []pubSet `json:"published,omitempty"`
}

type exchangeLog struct {
	Phase string   `json:"phase"`
	Q     string   `json:"q"`
	CD    bool     `json:"cd"`
	Rcode string   `json:"rcode"`
	Ans   []string `json:"answer"`
}

type runner struct {
	res     *vh.Result
	verbose bool
	settle  time.Duration
	mu      sync.Mutex
	cands   map[string]cand
}

type cand struct {
	rank   string
	what   string
	replay any
}

func (rn *runner) propose(key, rank, what string, replay any) {
	rn.mu.Lock()
	defer rn.mu.Unlock()
	if c, ok := rn.cands[key]; !ok || rank < c.rank {
		rn.cands[key] = cand{rank, what, replay}
	}
}

func (rn *runner) flush() {
	keys := make([]string, 0, len(rn.cands))
	for k := range rn.cands {
		keys = append(keys, k)
	}
	sort.Strings(keys)
	for _, k := range keys {
		rn.res.Violate(k, rn.cands[k].what, rn.cands[k].replay)
	}
}

func rcSym(r *dns.Msg) string {
	if r == nil {
		return "NOREPLY"
	}
	switch r.Rcode {
	case dns.RcodeSuccess:
		return "OK"
	case dns.RcodeNameError:
		return "NXDOMAIN"
	case dns.RcodeServerFailure:
		return "SERVFAIL"
	}
	return dns.RcodeToString[r.Rcode]
}

func (w *world) rrStrings(rrs []dns.RR) []string {
	var out []string
	for _, rr := range rrs {
		if rr.Header().Rrtype == dns.TypeRRSIG || rr.Header().Rrtype == dns.TypeOPT {
			continue
		}
		out = append(out, w.canon(strings.Join(strings.Fields(rr.String()), " ")))
	}
	return out
}

func sameRR(a, b dns.RR) bool {
	x, y := dns.Copy(a), dns.Copy(b)
	x.Header().Ttl, y.Header().Ttl = 0, 0
	x.Header().Name, y.Header().Name = lc(x.Header().Name), lc(y.Header().Name)
	return x.String() == y.String()
}

// foreignLies: answer-section records owned outside zone (the zone whose servers were asked)
// that are not the owner zone's own data.  zone "" = judge against every adversarial zone.
func (w *world) foreignLies(r *dns.Msg, zone string) []dns.RR {
	var bad []dns.RR
	if r == nil {
		return nil
	}
	for _, rr := range r.Answer {
		h := rr.Header()
		if h.Rrtype == dns.TypeRRSIG {
			continue
		}
		if zone != "" && authkit.IsSub(h.Name, zone) {
			continue
		}
		if zone == "" {
			in := false
			for _, k := range zonesOf(w.c) {
				in = in || authkit.IsSub(h.Name, w.zEvil(k))
			}
			if in {
				continue
			}
		}
		tr := w.n.GroundTruth(dns.Question{Name: lc(h.Name), Qtype: h.Rrtype, Qclass: h.Class})
		ok := false
		for _, t := range tr.Answer {
			if sameRR(t, rr) {
				ok = true
				break
			}
		}
		if !ok {
			bad = append(bad, rr)
		}
	}
	return bad
}

// replyClass abstracts a client reply the way the model does: rcode + sorted record classes.
func (w *world) replyClass(r *dns.Msg, d queryDef) string {
	if r == nil {
		return "NOREPLY"
	}
	cls := map[string]bool{}
	for _, rr := range r.Answer {
		switch v := rr.(type) {
		case *dns.A:
			switch {
			case v.A.String() == poisonIP || v.A.String() == trapServed:
				cls["poison"] = true
			case v.A.String() == truthVictim && lc(v.Hdr.Name) == w.victim:
				cls["truth"] = true
			case v.A.String() == ownAddr(d.Zone, d.Name) && lc(v.Hdr.Name) == lc(w.qname(d)):
				cls["own"] = true
			default:
				cls["other"] = true
			}
		case *dns.CNAME:
			cls["cname"] = true
		case *dns.RRSIG, *dns.OPT:
		default:
			cls["other"] = true
		}
	}
	var ks []string
	for k := range cls {
		ks = append(ks, k)
	}
	sort.Strings(ks)
	return rcSym(r) + ":" + strings.Join(ks, "+")
}

func (w *world) mine(s *authkit.Server) int {
	c := 0
	for _, e := range s.Log() {
		if authkit.IsSub(e.Q.Name, w.zTld) {
			c++
		}
	}
	return c
}

// zoneLabel names a Servers.Zone the way the model does.
func (w *world) zoneLabel(z string) string {
	z = strings.ToLower(z)
	switch {
	case z == "":
		return "E"
	case z == w.zTld:
		return "P"
	case z == ".":
		return "R"
	}
	for _, k := range zonesOf(w.c) {
		if z == w.zEvil(k) {
			return fmt.Sprintf("Z%d", k)
		}
	}
	return "?"
}

func (w *world) setDesc(k int, s resolver.VerifX07dcSet) string {
	if !s.Present {
		return "-"
	}
	hosts := ""
	for _, h := range s.Hosts {
		idx := "?"
		for i := range w.c.Hosts[fmt.Sprint(k)] {
			if lc(h) == lc(w.hostName(k, i+1)) {
				idx = fmt.Sprint(i + 1)
			}
		}
		for _, k2 := range zonesOf(w.c) {
			if k2 == k {
				continue
			}
			for i := range w.c.Hosts[fmt.Sprint(k2)] {
				if lc(h) == lc(w.hostName(k2, i+1)) {
					idx = fmt.Sprintf("[%d/%d]", k2, i+1)
				}
			}
		}
		hosts += idx
	}
	var as []string
	for _, a := range s.Addrs {
		sym, ok := w.addrSym[a]
		switch {
		case !ok:
			as = append(as, "?")
		case strings.HasPrefix(sym, fmt.Sprintf("%d/", k)):
			as = append(as, strings.TrimPrefix(sym, fmt.Sprintf("%d/", k)))
		default:
			as = append(as, "["+sym+"]")
		}
	}
	sort.Strings(as)
	return fmt.Sprintf("%s/cd%s/h%s/a%s", w.zoneLabel(s.Zone), cdKey(s.CD), hosts, strings.Join(as, ""))
}

func stopServer(s *server.Server) {
	for _, h := range s.VerifX07dcHandlers() {
		if st, ok := h.(interface{ Stop() }); ok {
			st.Stop()
		}
	}
	s.Stop()
}

func resolverOf(s *server.Server) *resolver.Resolver {
	for _, h := range s.VerifX07dcHandlers() {
		if rh, ok := h.(interface{ VerifResolver() *resolver.Resolver }); ok {
			return rh.VerifResolver()
		}
	}
	return nil
}

func vhScratch() string {
	if d := os.Getenv("VERIF_SCRATCH"); d != "" {
		return d
	}
	return os.TempDir()
}

func (rn *runner) runCase(c caseIn) error {
	w, err := newWorld(c)
	if err != nil {
		return err
	}
	defer w.stop()
	dir, err := os.MkdirTemp(vhScratch(), "x07dc-")
	if err != nil {
		return err
	}
	defer os.RemoveAll(dir)
	inner := w.n.Mapper()
	signed := c.Variant == "signed"
	var keys []string
	if signed {
		keys = []string{w.n.Root.Keys[0].RR.String()}
	}
	srv, _ := pipe.NewResolverServer(pipe.ResolverOpts{RootAddr: w.n.RootSrv.Addr, RootKeys: keys, DNSSEC: signed, Dir: dir,
		Mapper: func(addr string) string {
			if w.dead.Load() {
				return blackHole
			}
			w.mu.Lock()
			w.dials = append(w.dials, addr)
			w.mu.Unlock()
			return inner(addr)
		},
		Mutate: func(cfg *config.Config) {
			cfg.QnameMinLevel = 0
			cfg.CacheSize = 1024
			cfg.Timeout.Duration = 5 * time.Second
			cfg.QueryTimeout.Duration = 12 * time.Second
			cfg.IPv6Access = c.V6
		}})
	defer stopServer(srv)
	res := resolverOf(srv)
	if res == nil {
		return fmt.Errorf("no resolver in the pipeline")
	}

	ids := make([]string, 0, len(c.Queries))
	for id := range c.Queries {
		ids = append(ids, id)
	}
	sort.Strings(ids)
	zs := zonesOf(c)
	run := map[string]*running{}
	var xlog []exchangeLog
	var slog []stepLog

	ask := func(name string, cd bool, client string) *dns.Msg {
		q := new(dns.Msg)
		q.SetQuestion(name, dns.TypeA)
		q.SetEdns0(1232, signed)
		q.CheckingDisabled = cd
		sink := &pipe.Sink{Remote: pipe.Addr("udp", client, 40000)}
		srv.ServeMsg(context.Background(), sink, q)
		if len(sink.Writes) == 0 {
			return nil
		}
		m := new(dns.Msg)
		if err := m.Unpack(sink.Writes[len(sink.Writes)-1]); err != nil {
			return nil
		}
		return m
	}
	published := func() []pubSet {
		var out []pubSet
		for _, k := range zs {
			for _, cd := range []bool{false, true} {
				out = append(out, pubSet{Key: fmt.Sprintf("%d.%s", k, cdKey(cd)), Set: res.VerifX07dcPublished(w.zEvil(k), cd)})
			}
		}
		// a set of Zk filed under the parent's key would shadow the parent's own delegation
		for _, cd := range []bool{false, true} {
			out = append(out, pubSet{Key: "P." + cdKey(cd), Set: res.VerifX07dcPublished(w.zTld, cd)})
		}
		return out
	}
	started := []string{} // query ids in start order
	accounted := true     // is every busy query parked somewhere the driver can see?
	observe := func() (string, []pubSet) {
		var qs, hs, ps, rs []string
		for _, id := range ids {
			r := run[id]
			d := c.Queries[id]
			st := "idle"
			if r != nil {
				select {
				case <-r.done:
					st = "done"
					rs = append(rs, id+"="+w.replyClass(r.reply, d))
				default:
					st = "busy"
				}
			}
			qs = append(qs, id+"="+st)
		}
		for _, k := range zs {
			for h, kind := range c.Hosts[fmt.Sprint(k)] {
				if kind == "slow" {
					key := fmt.Sprintf("%d/%d", k, h+1)
					if w.gates.nParked("host|"+key) > 0 {
						hs = append(hs, key)
					}
				}
			}
		}
		var refs, anss []string
		for fq := range w.qOfName {
			if w.gates.nParked("ref|"+fq) > 0 {
				refs = append(refs, w.labelOfName(fq))
			}
			if w.gates.nParked("ans|"+fq) > 0 {
				anss = append(anss, w.labelOfName(fq))
			}
		}
		sort.Strings(refs)
		sort.Strings(anss)
		// names for which the parent's referral is in the resolver's hands
		var pars []string
		parOf := map[string]bool{}
		for fq := range w.qOfName {
			if w.tldReferrals(fq) > 0 && w.gates.nParked("ref|"+fq) == 0 {
				pars = append(pars, w.labelOfName(fq))
				parOf[fq] = true
			}
		}
		sort.Strings(pars)
		acc := true
		for i, id := range started {
			r := run[id]
			select {
			case <-r.done:
				continue
			default:
			}
			d := c.Queries[id]
			fq := lc(w.qname(d))
			hostParked := false
			for h := range c.Hosts[fmt.Sprint(d.Zone)] {
				hostParked = hostParked || w.gates.nParked(fmt.Sprintf("host|%d/%d", d.Zone, h+1)) > 0
			}
			follower := false
			for _, id2 := range started[:i] {
				d2 := c.Queries[id2]
				if d2.Zone == d.Zone && d2.Name == d.Name && d2.CD == d.CD {
					select {
					case <-run[id2].done:
					default:
						follower = true
					}
				}
			}
			if !(w.gates.nParked("ref|"+fq) > 0 || w.gates.nParked("ans|"+fq) > 0 || (parOf[fq] && hostParked) || follower) {
				acc = false
			}
		}
		accounted = acc
		pub := published()
		for _, p := range pub {
			if strings.HasPrefix(p.Key, "P.") {
				// the parent's own delegation: only its identity is of interest
				if p.Set.Present && w.zoneLabel(p.Set.Zone) != "P" {
					ps = append(ps, p.Key+"="+w.zoneLabel(p.Set.Zone))
				}
				continue
			}
			var k int
			fmt.Sscan(p.Key, &k)
			ps = append(ps, p.Key+"="+w.setDesc(k, p.Set))
		}
		return strings.Join(qs, ",") + "|par:" + strings.Join(pars, ",") + "|ref:" + strings.Join(refs, ",") + "|host:" + strings.Join(hs, ",") + "|ans:" + strings.Join(anss, ",") +
			"|" + strings.Join(ps, ";") + "|" + strings.Join(rs, ","), pub
	}
	activity := func() int {
		t := w.n.TotalQueries() + w.trap.Queries()
		for _, id := range ids {
			if r := run[id]; r != nil {
				select {
				case <-r.done:
					t += 1000
				default:
				}
			}
		}
		return t
	}
	// wait until the observation is one the model allows, or nothing has moved for `settle`
	settle := rn.settle
	await := func(st step) stepLog {
		t0 := time.Now()
		last, lastAt := activity(), time.Now()
		want := map[string]bool{}
		for _, e := range st.Expect {
			want[e] = true
		}
		minStable := 4 * time.Millisecond
		for {
			o, pub := observe()
			a := activity()
			if a != last {
				last, lastAt = a, time.Now()
			}
			stable := time.Since(lastAt)
			if want[o] && stable >= minStable {
				return stepLog{Step: st, Obs: o, Match: true, Waited: int(time.Since(t0).Milliseconds()), Pub: pub}
			}
			if st.Op == "v6" && time.Since(t0) < 3500*time.Millisecond {
				// the timer of the detached job cannot be forced: wait for it
				time.Sleep(5 * time.Millisecond)
				continue
			}
			if (stable >= settle && accounted) || time.Since(t0) > 4*time.Second {
				return stepLog{Step: st, Obs: o, Match: len(st.Expect) == 0, Waited: int(time.Since(t0).Milliseconds()), Pub: pub}
			}
			time.Sleep(time.Millisecond)
		}
	}

	replay := func() any {
		w.mu.Lock()
		d := append([]string(nil), w.dials...)
		w.mu.Unlock()
		var dd []string
		for _, a := range d {
			if s, ok := w.addrSym[a]; ok {
				dd = append(dd, "addr:"+s)
			} else if a == net.JoinHostPort(trapIP, "53") {
				dd = append(dd, "TRAP")
			}
		}
		cc := c
		cc.Steps = append([]step(nil), c.Steps...)
		for i := range cc.Steps {
			cc.Steps[i].Expect = nil
		}
		return map[string]any{"driver": "deleg", "case": cc, "steps": slog, "exchanges": xlog, "dialled_of_interest": dd}
	}
	violate := func(key, what string) {
		rn.propose(key, fmt.Sprintf("%03d/%s", len(c.Steps), c.ID), fmt.Sprintf("%s [case %s]", what, c.ID), replay())
	}
	judge := func(phase string, zone string, culprit string, r *dns.Msg) {
		for _, rr := range w.foreignLies(r, zone) {
			violate("relayed-foreign-answer|"+phase+"|"+culprit,
				fmt.Sprintf("%s reply carries %q in the answer section: owned outside the zone whose servers sent it and not the owner zone's data",
					phase, w.canon(strings.Join(strings.Fields(rr.String()), " "))))
		}
	}
	seenTrap := 0
	checkTrap := func(culprit string) {
		tq := w.mine(w.trap)
		if tq > seenTrap {
			violate("forbidden-server-used|"+culprit,
				fmt.Sprintf("the resolver contacted %s, an address it could learn only from out-of-bailiwick glue or from a referral it must reject (trap got %d queries)", trapIP, tq-seenTrap))
		}
		seenTrap = tq
	}
	judged := map[string]bool{}
	judgeDone := func() {
		for _, id := range ids {
			r := run[id]
			if r == nil || judged[id] {
				continue
			}
			select {
			case <-r.done:
			default:
				continue
			}
			judged[id] = true
			d := c.Queries[id]
			fq := lc(w.qname(d))
			mv := w.moveOf[fq]
			e := exchangeLog{Phase: "query " + id, Q: w.canon(fq), CD: d.CD, Rcode: rcSym(r.reply)}
			if r.reply != nil {
				e.Ans = w.rrStrings(r.reply.Answer)
			}
			xlog = append(xlog, e)
			judge("client", w.zEvil(d.Zone), mv, r.reply)
			rn.res.Count("replies_"+w.replyClass(r.reply, d), 1)
		}
	}

	nClient := 0
	windowReplies := 0
	for _, st := range c.Steps {
		pubBefore := map[string]resolver.VerifX07dcSet{}
		for _, p := range published() {
			pubBefore[p.Key] = p.Set
		}
		switch st.Op {
		case "start":
			d, ok := c.Queries[st.Q]
			if !ok || run[st.Q] != nil {
				return fmt.Errorf("case %s: bad start %q", c.ID, st.Q)
			}
			nClient++
			r := &running{id: st.Q, def: d, done: make(chan struct{})}
			run[st.Q] = r
			started = append(started, st.Q)
			client := fmt.Sprintf("203.0.113.%d", 10+nClient)
			go func() {
				r.reply = ask(w.qname(d), d.CD, client)
				close(r.done)
			}()
		case "relref":
			for _, id := range st.Qs {
				d := c.Queries[id]
				w.gates.release("ref|"+lc(w.qname(d)), "go")
			}
		case "relhost":
			w.gates.release(fmt.Sprintf("host|%d/%d", st.Zone, st.Host), st.Out)
		case "relans":
			d := c.Queries[st.Q]
			fq := lc(w.qname(d))
			w.mu.Lock()
			w.moveOf[fq] = st.Move
			w.mu.Unlock()
			// an answer in the window: another assembly of the same zone is still parked at a host gate
			for _, k := range zs {
				for h := range c.Hosts[fmt.Sprint(k)] {
					if k == d.Zone && w.gates.nParked(fmt.Sprintf("host|%d/%d", k, h+1)) > 0 {
						windowReplies++
					}
				}
			}
			w.gates.release("ans|"+fq, st.Move)
		case "v6":
		default:
			return fmt.Errorf("case %s: unknown op %q", c.ID, st.Op)
		}
		sl := await(st)
		slog = append(slog, sl)
		judgeDone()
		checkTrap("schedule")
		rn.res.Count("steps", 1)
		if st.Op == "v6" && sl.Match && len(st.Expect) > 0 {
			rn.res.Count("v6_steps_matched", 1)
		}
		if !sl.Match {
			settle = rn.settle / 2 // the case has left the model: the later expectations are moot, do not wait long for them
			rn.res.Count("steps_outside_model", 1)
			rn.res.DriftNote("case %s step %d %s: code %s ; model allows %v", c.ID, len(slog), stepName(st), sl.Obs, st.Expect)
		}
		// several queries assembling the same delegation at once: nothing published for the key, and two
		// or more running queries of the zone are neither at the referral nor at the answer gate
		for _, k := range zs {
			for _, cd := range []bool{false, true} {
				if res.VerifX07dcPublished(w.zEvil(k), cd).Present {
					continue
				}
				names := map[string]bool{}
				for _, id := range ids {
					d := c.Queries[id]
					r := run[id]
					if r == nil || d.Zone != k || (d.CD || !signed) != (cd || !signed) {
						continue
					}
					fq := lc(w.qname(d))
					select {
					case <-r.done:
						continue
					default:
					}
					if w.gates.nParked("ref|"+fq) == 0 && w.gates.nParked("ans|"+fq) == 0 && w.gates.nArrived("ref|"+fq)+w.tldReferrals(fq) > 0 {
						names[fq] = true
					}
				}
				if len(names) >= 2 && sl.Match {
					rn.res.Count("concurrent_assemblers", 1)
				}
			}
		}
		// the published set's lease (C08, drift only): never beyond the referral's NS TTL (300 s)
		for _, p := range sl.Pub {
			if p.Set.Present && !strings.HasPrefix(p.Key, "P.") && p.Set.ExpiresIn > 300.5 {
				rn.res.Count("lease_beyond_ns_ttl", 1)
				rn.res.DriftNote("case %s: published set %s expires in %.0fs, the referral's NS TTL is 300s", c.ID, p.Key, p.Set.ExpiresIn)
			}
			if b, ok := pubBefore[p.Key]; ok && b.Present && p.Set.Present && b.Ptr != p.Set.Ptr {
				rn.res.Count("set_replaced_by_another_assembler", 1)
			}
		}
	}
	// drain: release everything still parked so that every query ends, then judge what comes out
	for pass := 0; pass < 6; pass++ {
		left := 0
		for _, id := range ids {
			if r := run[id]; r != nil {
				select {
				case <-r.done:
				default:
					left++
				}
			}
		}
		if left == 0 {
			break
		}
		w.gates.releaseAll("none", "honest")
		deadline := time.Now().Add(1500 * time.Millisecond)
		for time.Now().Before(deadline) {
			all := true
			for _, id := range ids {
				if r := run[id]; r != nil {
					select {
					case <-r.done:
					default:
						all = false
					}
				}
			}
			if all {
				break
			}
			time.Sleep(2 * time.Millisecond)
		}
	}
	for _, id := range ids {
		if r := run[id]; r != nil {
			select {
			case <-r.done:
			case <-time.After(8 * time.Second):
				return fmt.Errorf("case %s: query %s never completed", c.ID, id)
			}
		}
	}
	judgeDone()
	checkTrap("drain")
	w.gates.releaseAll("none", "honest") // later lookups pass

	// afterwards: the same questions from another client (cache), then the victim names
	for _, id := range ids {
		if run[id] == nil {
			continue
		}
		d := c.Queries[id]
		r := ask(w.qname(d), d.CD, "203.0.113.70")
		e := exchangeLog{Phase: "repeat " + id, Q: w.canon(w.qname(d)), CD: d.CD, Rcode: rcSym(r)}
		if r != nil {
			e.Ans = w.rrStrings(r.Answer)
		}
		xlog = append(xlog, e)
		judge("repeat", w.zEvil(d.Zone), w.moveOf[lc(w.qname(d))], r)
	}
	checkTrap("repeat")
	for _, cd := range []bool{false, true} {
		for _, vn := range []string{w.victim, w.wwwBank, w.nsBank} {
			trapBefore := w.mine(w.trap)
			r := ask(vn, cd, "203.0.113.77")
			e := exchangeLog{Phase: "victim", Q: w.canon(vn), CD: cd, Rcode: rcSym(r)}
			if r != nil {
				e.Ans = w.rrStrings(r.Answer)
			}
			xlog = append(xlog, e)
			judge("victim:"+w.canon(vn), "", "after", r)
			if w.mine(w.trap) > trapBefore {
				violate("victim-query-served-by-adversary|"+w.canon(vn), fmt.Sprintf("the later query for %s was taken to the adversary's server", w.canon(vn)))
			}
			got := rcSym(r)
			switch {
			case got == "OK" && r != nil && len(r.Answer) > 0:
				rn.res.Count("victim_truth", 1)
			case got == "SERVFAIL":
				rn.res.Count("victim_servfail", 1)
				rn.res.DriftNote("case %s: victim %s cd=%v SERVFAIL instead of the truth (fail-closed)", c.ID, w.canon(vn), cd)
			default:
				violate("victim-answer-not-truth|"+w.canon(vn), fmt.Sprintf("the later query for %s (cd=%v) returned %s with %d answers; the owner zone's truth is an address", w.canon(vn), cd, got, len(answerOf(r))))
			}
		}
	}
	seenTrap = 0
	checkTrap("after")

	w.mu.Lock()
	if w.foreignAsked > 0 {
		rn.res.Count("foreign_questions_at_adversary", w.foreignAsked)
		rn.res.DriftNote("case %s: %d question(s) for names outside the adversary's zones were taken to its server", c.ID, w.foreignAsked)
	}
	for m, n := range w.played {
		rn.res.Count("moves_played_"+m, n)
	}
	w.mu.Unlock()
	rn.res.Count("answers_released_in_window", windowReplies)
	rn.res.Case(c.ID)
	if rn.verbose {
		rn.res.Sample(replay())
	} else if windowReplies > 0 {
		rn.res.Sample(replay())
	}
	return nil
}

func answerOf(r *dns.Msg) []dns.RR {
	if r == nil {
		return nil
	}
	return r.Answer
}

func stepName(st step) string {
	switch st.Op {
	case "start":
		return "start(" + st.Q + ")"
	case "relref":
		return "relref(" + strings.Join(st.Qs, ",") + ")"
	case "relhost":
		return fmt.Sprintf("relhost(%d/%d,%s)", st.Zone, st.Host, st.Out)
	case "relans":
		return "relans(" + st.Q + "," + st.Move + ")"
	case "v6":
		return "v6(" + st.Q + ")"
	}
	return st.Op
}

// labelOfName spells a client query name as "<zone>.<label>" ("1.a").
func (w *world) labelOfName(fq string) string {
	for _, k := range zonesOf(w.c) {
		if strings.HasSuffix(fq, "."+w.zEvil(k)) {
			return fmt.Sprintf("%d.%s", k, strings.TrimSuffix(fq, "."+w.zEvil(k)))
		}
	}
	return fq
}

// releaseAll opens every gate: host lookups get hostOut, answers the given move, referrals pass.
func (g *gate) releaseAll(hostOut, move string) {
	g.mu.Lock()
	all := g.parked
	g.parked = map[string][]*waiter{}
	g.mu.Unlock()
	val := func(key string) string {
		switch {
		case strings.HasPrefix(key, "host|"):
			return hostOut
		case strings.HasPrefix(key, "ans|"):
			return move
		}
		return "go"
	}
	for key, ws := range all {
		for _, w := range ws {
			w.ch <- val(key)
		}
	}
	g.mu.Lock()
	g.drain = &[2]string{hostOut, move}
	g.mu.Unlock()
}

func TestDelegSchedules(t *testing.T) {
	var in input
	vh.Input(t, &in)
	res := vh.NewResult()
	defer res.Write(t)
	if in.Workers <= 0 {
		in.Workers = 4
	}
	settle := time.Duration(in.SettleM) * time.Millisecond
	if settle <= 0 {
		settle = 400 * time.Millisecond
	}
	rn := &runner{res: res, verbose: in.Verbose, settle: settle, cands: map[string]cand{}}
	jobs := make(chan caseIn)
	var wg sync.WaitGroup
	var errMu sync.Mutex
	var firstErr error
	t0 := time.Now()
	for i := 0; i < in.Workers; i++ {
		wg.Add(1)
		go func() {
			defer wg.Done()
			for c := range jobs {
				if err := rn.runCase(c); err != nil {
					errMu.Lock()
					if firstErr == nil {
						firstErr = err
					}
					errMu.Unlock()
				}
			}
		}()
	}
	for _, c := range in.Cases {
		jobs <- c
	}
	close(jobs)
	wg.Wait()
	rn.flush()
	res.Count("wall_ms", int(time.Since(t0).Milliseconds()))
	if firstErr != nil {
		res.Skip("harness error: %v", firstErr)
	}
}
