package x11fl

// spec -> code for Breaker.tla: sequential call orders chosen by TLC (every
// transition of the one-server model with the code's threshold N = 5, plus
// simulated two-server orders) are replayed call by call on the real
// circuitBreaker.  The clock is the overlay shim moving lastFailure into the
// past in ticks of 16 s (1 tick < 30 s cool-down < 2 ticks; 19 ticks > 300 s
// eviction).  After every call the record (exists, count, disabled) is
// compared with the model and the transitions of the statement are evaluated
// on what the code answered.

import (
	"fmt"
	"runtime"
	"sync"
	"sync/atomic"
	"testing"
	"time"

	"github.com/semihalev/sdns/middleware/resolver"
	"github.com/semihalev/sdns/verifharness/vh"
)

type brRec struct {
	Ex  bool `json:"ex"`
	Cnt int  `json:"cnt"`
	Dis bool `json:"dis"`
}
type brOp struct {
	Op   string           `json:"op"` // can | fail | succ | tick | cleanup
	S    string           `json:"s"`
	D    int              `json:"d"`
	Res  string           `json:"res"`
	Post map[string]brRec `json:"post"`
}
type brBeh struct {
	ID  string `json:"id"`
	Ops []brOp `json:"ops"`
}
type brInput struct {
	Name       string   `json:"name"`
	Servers    []string `json:"servers"`
	Behaviours []brBeh  `json:"behaviours"`
}

const tickSecs = 16

func addrOf(s string) string { return "192.0.2." + s[1:] + ":53" }

func breakerReplay(in *brInput, res *vh.Result) {
	for bi := range in.Behaviours {
		b := &in.Behaviours[bi]
		br := resolver.VerifX11NewBreaker()
		sig := ""
		synced := true
		for i, op := range b.Ops {
			sig += op.Op + op.S + fmt.Sprint(op.D) + ","
			rp := map[string]any{"driver": "breaker-replay", "config": in.Name, "behaviour": b, "failed_at": i}
			switch op.Op {
			case "can":
				got := "false"
				if br.CanQuery(addrOf(op.S)) {
					got = "true"
				}
				if got != op.Res && synced {
					what := "canQuery refused a server the breaker holds closed (never tripped, reset by a success, or past the 30 s cool-down)"
					if got == "true" {
						what = "canQuery admitted a server whose breaker is open and still cooling down (5 consecutive failures, less than 30 s ago)"
					}
					res.Violate("breaker/replay/can-"+got, fmt.Sprintf("%s [%s op %d]", what, b.ID, i), rp)
				}
			case "fail":
				br.RecordFailure(addrOf(op.S))
			case "succ":
				br.RecordSuccess(addrOf(op.S))
			case "tick":
				for _, s := range in.Servers {
					br.Shift(addrOf(s), int64(op.D*tickSecs))
				}
			case "cleanup":
				br.CleanupOnce(time.Now().Unix())
			}
			for s, want := range op.Post {
				ex, cnt, dis, _ := br.State(addrOf(s))
				if !synced {
					continue
				}
				if dis != want.Dis {
					what := fmt.Sprintf("after %s(%s) the breaker of %s is open=%v; the transitions (open after 5 consecutive failures, closed by a success / by the first canQuery after the cool-down) give open=%v",
						op.Op, op.S, s, dis, want.Dis)
					res.Violate(fmt.Sprintf("breaker/replay/open-%v-after-%s", dis, op.Op), fmt.Sprintf("%s [%s op %d]", what, b.ID, i), rp)
					synced = false
				} else if ex != want.Ex || cnt != want.Cnt {
					res.DriftNote("%s op %d %s(%s): record of %s is (exists=%v count=%d), model (exists=%v count=%d)", b.ID, i, op.Op, op.S, s, ex, cnt, want.Ex, want.Cnt)
					synced = false
				}
			}
			res.Count("brk_"+op.Op, 1)
		}
		if synced {
			res.Count("brk_behaviours_complete", 1)
		}
		res.Count("brk_behaviours", 1)
		res.Case(in.Name + ":" + sig)
		if res.NViolations() >= 5 {
			return
		}
	}
}

func TestBreakerReplay(t *testing.T) {
	var in brInput
	vh.Input(t, &in)
	res := vh.NewResult()
	defer res.Write(t)
	breakerReplay(&in, res)
}

// ---- free-running concurrent history (code -> spec, Trace_Breaker.tla) ---------------------

type bsInput struct {
	Rounds   int    `json:"rounds"`
	Procs    int    `json:"procs"`
	Ops      int    `json:"ops"`
	TraceOut string `json:"traceOut"`
}

func breakerStress(in *bsInput, res *vh.Result) {
	rng := vh.Rand()
	var lines []map[string]any
	var mu sync.Mutex
	add := func(m map[string]any) {
		mu.Lock()
		m["seq"] = nextSeq()
		lines = append(lines, m)
		mu.Unlock()
	}
	srv := addrOf("s1")
	for round := 0; round < in.Rounds; round++ {
		if round > 0 {
			add(map[string]any{"ev": "Reset"})
		}
		br := resolver.VerifX11NewBreaker()
		seeds := make([]int64, in.Procs)
		for i := range seeds {
			seeds[i] = rng.Int63()
		}
		var wg sync.WaitGroup
		start := make(chan struct{})
		var arrived, logged atomic.Int64
		for p := 1; p <= in.Procs; p++ {
			wg.Add(1)
			go func(p int) {
				defer wg.Done()
				r := vhRand(seeds[p-1])
				<-start
				for n := 0; n < in.Ops; n++ {
					// all goroutines enter their n-th call together ...
					arrived.Add(1)
					for arrived.Load() < int64((n+1)*in.Procs) {
						runtime.Gosched()
					}
					// ... and on every other step each one logs its invocation before anyone performs the
					// call, so the recorded calls of that step overlap pairwise
					forced := n%2 == 0
					k := r.Intn(10)
					if forced && k >= 9 {
						k = r.Intn(9) // the clock step is not a call
					}
					op := "fail"
					switch {
					case k < 5:
					case k < 7:
						op = "succ"
					case k < 9:
						op = "can"
					default:
						op = "tick"
					}
					if op == "tick" {
						// the clock: one atomic add on lastFailure, 2 ticks
						mu.Lock()
						br.Shift(srv, 2*tickSecs)
						lines = append(lines, map[string]any{"ev": "tick", "d": 2, "seq": nextSeq()})
						mu.Unlock()
						continue
					}
					add(map[string]any{"ev": "inv", "p": p, "op": op})
					if forced {
						logged.Add(1)
						for logged.Load() < int64((n/2+1)*in.Procs) {
							runtime.Gosched()
						}
					}
					got := "done"
					switch op {
					case "fail":
						br.RecordFailure(srv)
					case "succ":
						br.RecordSuccess(srv)
					case "can":
						got = "false"
						if br.CanQuery(srv) {
							got = "true"
						}
					}
					add(map[string]any{"ev": "res", "p": p, "op": op, "res": got})
				}
			}(p)
		}
		close(start)
		wg.Wait()
		ex, cnt, dis, _ := br.State(srv)
		add(map[string]any{"ev": "end", "ex": ex, "cnt": cnt, "dis": dis})
		res.Count("brk_stress_rounds", 1)
		res.Case(fmt.Sprintf("brk-stress/%d", round))
	}
	if in.TraceOut != "" {
		if err := writeNDJSON(in.TraceOut, lines); err != nil {
			res.Skip("trace file: %v", err)
		}
	}
	res.Count("brk_stress_lines", len(lines))
}

func TestBreakerStress(t *testing.T) {
	var in bsInput
	vh.Input(t, &in)
	res := vh.NewResult()
	defer res.Write(t)
	breakerStress(&in, res)
}
