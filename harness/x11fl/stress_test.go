package x11fl

// code -> spec: free-running concurrent callers of the real
// Resolver.groupLookup against a free-running scripted upstream.  Every
// invocation, response, cancellation and upstream event is stamped from one
// harness-side sequence; the history is written as NDJSON and validated by TLC
// against Trace_Flight.tla.  Independently of the model, the C10 / C11
// predicates are evaluated directly on what the code returned (own id, own
// question, private deep copy, private context errors, a finished flight
// never serves a later caller, every slot back at quiescence).

import (
	"context"
	"encoding/json"
	"fmt"
	"math/rand"
	"os"
	"sync"
	"testing"
	"time"

	"github.com/semihalev/sdns/internal/authority"
	"github.com/semihalev/sdns/verifharness/vh"
)

type fsRun struct {
	Name      string            `json:"name"`
	Rounds    int               `json:"rounds"`
	Procs     int               `json:"procs"`
	Ops       int               `json:"ops"`
	Keys      []string          `json:"keys"`
	ZoneOf    map[string]string `json:"zoneOf"`
	ResCap    int               `json:"resCap"`
	ZoneCap   int               `json:"zoneCap"`
	MaxC      int               `json:"maxC"`
	CancelPct int               `json:"cancelPct"`
	FailMax   int               `json:"failMax"` // upstream failures per round (the breaker stays closed below 5)
	TraceOut  string            `json:"traceOut"`
}

type fsInput struct {
	Runs []fsRun `json:"runs"`
}

type fsLog struct {
	mu    sync.Mutex
	lines []map[string]any
	on    bool
}

func (l *fsLog) add(m map[string]any) int64 {
	l.mu.Lock()
	s := nextSeq()
	if l.on {
		m["seq"] = s
		l.lines = append(l.lines, m)
	}
	l.mu.Unlock()
	return s
}

func TestFlightStress(t *testing.T) {
	var in fsInput
	vh.Input(t, &in)
	res := vh.NewResult()
	defer res.Write(t)
	rng := vh.Rand()
	for i := range in.Runs {
		if !stressRun(&in.Runs[i], res, rand.New(rand.NewSource(rng.Int63()))) {
			return
		}
	}
}

func stressRun(run *fsRun, res *vh.Result, rng *rand.Rand) bool {
	g, err := newRig(nil)
	if err != nil {
		res.Skip("rig: %v", err)
		return false
	}
	defer g.up.stop()
	labels := map[string]bool{}
	for _, z := range run.ZoneOf {
		labels[z] = true
	}
	var ls []string
	for l := range labels {
		ls = append(ls, l)
	}
	g.r.VerifX11SetSlots(run.ResCap, run.ZoneCap, run.MaxC, 0, 0)
	zname := g.distinctZones(ls)
	for _, z := range zname {
		g.servers[z] = &authority.Servers{Zone: z, List: []*authority.Server{authority.NewServer(g.up.addr, authority.IPv4)}}
	}
	qname := func(k string) string { return k + "." + zname[run.ZoneOf[k]] }
	keyOf := map[string]string{}
	for _, k := range run.Keys {
		keyOf[qname(k)] = k
	}
	log := &fsLog{on: run.TraceOut != ""}
	var rmu sync.Mutex
	fails := 0
	g.up.mu.Lock()
	g.up.gated = false
	g.up.auto = func(q *upQuery) (string, time.Duration) {
		rmu.Lock()
		defer rmu.Unlock()
		out := "ok"
		if fails < run.FailMax && rng.Intn(100) < 12 {
			fails++
			out = "fail"
		}
		return out, time.Duration(rng.Intn(1500)) * time.Microsecond
	}
	g.up.onEvent = func(kind string, q *upQuery, out string, _ int64) {
		if kind == "upq" {
			log.add(map[string]any{"ev": "upq", "tag": q.tag, "k": keyOf[q.key], "leader": leaderOf(q.ltag), "ln": q.ltag % ltagBase})
		} else {
			log.add(map[string]any{"ev": "upr", "tag": q.tag, "o": out})
		}
	}
	g.up.mu.Unlock()

	violate := func(key, what string, round int) {
		res.Violate("flight/stress/"+key, fmt.Sprintf("[%s round %d] %s", run.Name, round, what),
			map[string]any{"driver": "flight-stress", "run": run, "round": round, "seed": vh.Seed()})
	}
	overlapping := 0
	for round := 0; round < run.Rounds; round++ {
		rmu.Lock()
		fails = 0
		seeds := make([]int64, run.Procs)
		for i := range seeds {
			seeds[i] = rng.Int63()
		}
		rmu.Unlock()
		g.r.VerifX11Breaker().Reset()
		g.up.clearFailing()
		if round > 0 {
			log.add(map[string]any{"ev": "Reset"})
		}
		var wg, cwg sync.WaitGroup
		var cmu sync.Mutex
		var calls []*call
		for p := 1; p <= run.Procs; p++ {
			wg.Add(1)
			go func(p int) {
				defer wg.Done()
				prng := rand.New(rand.NewSource(seeds[p-1]))
				for n := 1; n <= run.Ops; n++ {
					k := run.Keys[prng.Intn(len(run.Keys))]
					c := &call{rc: p, n: round*1000 + n, id: uint16(prng.Intn(65536)), qname: qname(k), zone: zname[run.ZoneOf[k]]} //nolint:gosec
					c.ltag = p*ltagBase + c.n%ltagBase
					c.ctx, c.cancel = contextWithCancel()
					c.done = make(chan struct{})
					cmu.Lock()
					calls = append(calls, c)
					cmu.Unlock()
					c.invSeq = log.add(map[string]any{"ev": "call", "c": p, "n": c.n, "k": k})
					if prng.Intn(100) < run.CancelPct {
						d := time.Duration(prng.Intn(2500)) * time.Microsecond
						cwg.Add(1)
						go func() {
							defer cwg.Done()
							time.Sleep(d)
							c.cancelled.Store(true)
							c.cancelSeq.Store(log.add(map[string]any{"ev": "cancel", "c": p, "n": c.n}))
							c.cancel()
						}()
					}
					g.run(c)
					line := map[string]any{"ev": "ret", "c": p, "n": c.n, "kind": c.kind, "tag": c.tag, "own": len(c.bad) == 0}
					c.retSeq = log.add(line)
					close(c.done)
					if prng.Intn(3) == 0 {
						time.Sleep(time.Duration(prng.Intn(600)) * time.Microsecond)
					}
				}
			}(p)
		}
		doneCh := make(chan struct{})
		go func() { wg.Wait(); cwg.Wait(); close(doneCh) }()
		select {
		case <-doneCh:
		case <-time.After(60 * time.Second):
			for _, c := range calls {
				if !c.returned() {
					violate("caller-never-returned", fmt.Sprintf("caller %d never returned from groupLookup (upstream answers everything within milliseconds)", c.ltag), round)
				}
			}
			return false
		}
		// quiescence
		deadline := time.Now().Add(3 * time.Second)
		sl := g.r.VerifX11Slots()
		st := g.r.VerifX11Flight().VerifX11State()
		for time.Now().Before(deadline) {
			sl = g.r.VerifX11Slots()
			st = g.r.VerifX11Flight().VerifX11State()
			// the scripted upstream may still be answering attempts nobody waits for any more
			if sl.Resolution == 0 && sl.MaxConc == 0 && sl.ZoneSum == 0 && sl.ZoneMin == 0 && sl.ZoneMax == 0 &&
				len(st.Inflight) == 0 && len(st.Current) == 0 && len(st.Tracked) == 0 && g.up.busy() == 0 {
				break
			}
			time.Sleep(500 * time.Microsecond)
		}
		if sl.Resolution != 0 || sl.MaxConc != 0 || sl.ZoneSum != 0 || sl.ZoneMin != 0 || sl.ZoneMax != 0 {
			violate("slots-not-released", fmt.Sprintf("at quiescence the capacity pools are not empty: resolutionSlots=%d maxConcurrent=%d zone buckets sum=%d min=%d max=%d",
				sl.Resolution, sl.MaxConc, sl.ZoneSum, sl.ZoneMin, sl.ZoneMax), round)
		}
		if len(st.Inflight) != 0 {
			violate("flight-not-forgotten", fmt.Sprintf("at quiescence the singleflight group still holds %d finished call(s): a later caller would join a flight that already delivered",
				len(st.Inflight)), round)
		} else if len(st.Current) != 0 || len(st.Tracked) != 0 {
			res.DriftNote("%s round %d: at quiescence the wrapper still holds current=%d tracked=%d bookkeeping entries", run.Name, round, len(st.Current), len(st.Tracked))
		}
		// predicates on the results
		first := map[int]int64{}
		byTag := map[int][]*call{}
		for _, c := range calls {
			if c.kind == "ok" && c.tag != 0 {
				if f, ok := first[c.tag]; !ok || c.retSeq < f {
					first[c.tag] = c.retSeq
				}
				byTag[c.tag] = append(byTag[c.tag], c)
			}
		}
		var oks []*call
		for _, c := range calls {
			for _, b := range c.bad {
				violate("own-reply", fmt.Sprintf("caller %d (query id %d, %s): %s", c.ltag, c.id, c.qname, b), round)
			}
			if c.kind == "ctx" && !c.cancelled.Load() {
				violate("foreign-cancellation", fmt.Sprintf("caller %d returned %v although its own context never ended", c.ltag, c.err), round)
			}
			if c.kind == "nil" {
				violate("nil-result", fmt.Sprintf("caller %d got neither a response nor an error", c.ltag), round)
			}
			if c.kind == "ok" {
				oks = append(oks, c)
				if f, ok := first[c.tag]; ok && f < c.invSeq {
					violate("stale-flight", fmt.Sprintf("caller %d entered groupLookup after the flight with upstream tag %d had already delivered, and was served by it", c.ltag, c.tag), round)
				}
			}
			res.Count("ret_"+c.kind+"_"+run.Name, 1)
		}
		for _, cs := range byTag {
			if len(cs) > 1 {
				overlapping += len(cs)
			}
		}
		iso := isolation(oks)
		for _, b := range iso {
			violate("deep-copy", b, round)
		}
		zl := map[string]int{}
		for l, z := range zname {
			_, v := g.r.VerifX11ZoneBucket(z)
			zl[l] = v
		}
		log.add(map[string]any{"ev": "end", "res": sl.Resolution, "mc": sl.MaxConc, "zone": zl, "zonesum": sl.ZoneSum,
			"zonemin": sl.ZoneMin, "zonemax": sl.ZoneMax, "copyok": len(iso) == 0,
			"inflight": len(st.Inflight), "current": len(st.Current), "tracked": len(st.Tracked)})
		res.Count("rounds_"+run.Name, 1)
		res.Count("calls_"+run.Name, len(calls))
		res.Case(fmt.Sprintf("%s/%d", run.Name, round))
		if res.NViolations() > 0 {
			break
		}
	}
	res.Count("shared_results_"+run.Name, overlapping)
	if run.TraceOut != "" {
		f, err := os.Create(run.TraceOut)
		if err != nil {
			res.Skip("trace file: %v", err)
			return false
		}
		enc := json.NewEncoder(f)
		for _, ln := range log.lines {
			_ = enc.Encode(ln)
		}
		_ = f.Close()
		res.Count("trace_lines_"+run.Name, len(log.lines))
	}
	return res.NViolations() == 0
}

func contextWithCancel() (context.Context, context.CancelFunc) {
	return context.WithCancel(context.Background())
}
