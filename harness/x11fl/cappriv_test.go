package x11fl

// Directed histories of Flight.tla's MC_NegCapShared / MC_NegCapSharedZone counter-examples on the real
// Resolver.groupLookup (C11: "capacity-refused resolution surfaces as SERVFAIL to that client only; it neither wedges
// nor fails other clients waiting on the same name").
//
//   Invoke(H,k2) DoChan LeaderStart AcqRes .. lookup        a holder: its flight owns the (only) slot, upstream silent
//   Invoke(A,k1) DoChan LeaderStart                          A's closure has started, slots not yet asked for  <- the gate
//   Invoke(B,k1) DoChan                                      B joins A's flight (dups = 1)
//   AcqRes(A) refused / ZoneAdd ZoneBack refused             A's own refusal
//   Deliver -> A returns capRes|capZone                      (A's own: allowed)
//             B: as built before the repair returns the SAME refusal although its own closure never ran;
//                repaired: regroups, its own closure starts (gate again); meanwhile the holder finishes and frees
//                the slot; B's closure gets it and B is answered.
//
// The gate is the repository's build-tag hook at the first statement of the leader closure
// (resolver.SetVerifFlightGate): entries are counted per key, each entry parks until the driver releases it.

import (
	"fmt"
	"sync"
	"testing"
	"time"

	"github.com/semihalev/sdns/middleware/resolver"
	"github.com/semihalev/sdns/verifharness/vh"
)

type capIn struct {
	Variants []string `json:"variants"` // "res" | "zone"
	Rounds   int      `json:"rounds"`
}

type gateCtl struct {
	mu      sync.Mutex
	entries []*gateEntry
}

type gateEntry struct {
	key     string
	release chan struct{}
}

func (g *gateCtl) fn(key string) {
	e := &gateEntry{key: key, release: make(chan struct{})}
	g.mu.Lock()
	g.entries = append(g.entries, e)
	g.mu.Unlock()
	select {
	case <-e.release:
	case <-time.After(20 * time.Second): // never wedge the code under test for good
	}
}

func (g *gateCtl) count() int {
	g.mu.Lock()
	defer g.mu.Unlock()
	return len(g.entries)
}

func (g *gateCtl) entry(i int) *gateEntry {
	g.mu.Lock()
	defer g.mu.Unlock()
	if i < len(g.entries) {
		return g.entries[i]
	}
	return nil
}

func capWait(d time.Duration, cond func() bool) bool {
	end := time.Now().Add(d)
	for time.Now().Before(end) {
		if cond() {
			return true
		}
		time.Sleep(200 * time.Microsecond)
	}
	return cond()
}

func TestCapacityPrivate(t *testing.T) {
	var in capIn
	vh.Input(t, &in)
	res := vh.NewResult()
	defer res.Write(t)
	if in.Rounds <= 0 {
		in.Rounds = 1
	}
	for _, variant := range in.Variants {
		for round := 0; round < in.Rounds; round++ {
			res.Case(fmt.Sprintf("cappriv/%s/%d", variant, round))
			capacityPrivateOnce(res, variant, round)
		}
	}
}

func capacityPrivateOnce(res *vh.Result, variant string, round int) {
	zone := fmt.Sprintf("capz%d.test.", round)
	g, err := newRig([]string{zone})
	if err != nil {
		res.Skip("rig: %v", err)
		return
	}
	defer g.up.stop()
	switch variant {
	case "res":
		g.r.VerifX11SetSlots(1, 8, 0, 0, 0)
	default:
		g.r.VerifX11SetSlots(8, 1, 0, 0, 0)
	}
	ctl := &gateCtl{}
	resolver.SetVerifFlightGate(ctl.fn)
	defer resolver.SetVerifFlightGate(nil)
	where := fmt.Sprintf("[capacity privacy, %s slot, round %d] ", variant, round)
	fail := func(f string, a ...any) { res.Skip(where+f, a...) }

	mk := func(rc int, name string) *call {
		return &call{rc: rc, n: 1, ltag: rc*ltagBase + 1, id: uint16(1000*rc + round), qname: name + "." + zone, zone: zone}
	}
	h, a, b := mk(1, "holder"), mk(2, "shared"), mk(3, "shared")
	cleanup := func() {
		for i := 0; i < ctl.count(); i++ {
			e := ctl.entry(i)
			select {
			case <-e.release:
			default:
				close(e.release)
			}
		}
		for _, c := range []*call{h, a, b} {
			if c.cancel != nil {
				c.cancel()
			}
		}
		g.up.releaseAll("ok")
	}
	defer cleanup()

	// the holder: through the gate at once, takes the slot, its upstream query is held
	g.start(h, nil)
	if !capWait(5*time.Second, func() bool { return ctl.count() == 1 }) {
		fail("the holder's closure never started")
		return
	}
	close(ctl.entry(0).release)
	if !capWait(5*time.Second, func() bool { return len(g.up.waiting()) == 1 }) {
		fail("the holder's query never reached the upstream")
		return
	}
	// A: closure started, parked before the slot check
	g.start(a, nil)
	if !capWait(5*time.Second, func() bool { return ctl.count() == 2 }) {
		fail("A's closure never started")
		return
	}
	// B joins A's flight
	g.start(b, nil)
	joined := func() bool {
		st := g.r.VerifX11Flight().VerifX11State()
		for _, d := range st.Dups {
			if d == 1 {
				return true
			}
		}
		return false
	}
	if !capWait(5*time.Second, joined) {
		fail("B never joined A's flight (dups=%v, gate entries %d)", g.r.VerifX11Flight().VerifX11State().Dups, ctl.count())
		return
	}
	if ctl.count() != 2 {
		fail("B started a closure of its own instead of joining (gate entries %d)", ctl.count())
		return
	}
	res.Count("cappriv_follower_joined_before_slot_check", 1)
	// A's slot check: refused (the holder owns the slot)
	close(ctl.entry(1).release)
	if !capWait(5*time.Second, a.returned) {
		fail("A never returned")
		return
	}
	wantKind := map[string]string{"res": "capRes", "zone": "capZone"}[variant]
	if a.kind != wantKind {
		fail("A returned %s (%v), expected its own %s refusal: the history did not happen", a.kind, a.err, wantKind)
		return
	}
	res.Count("cappriv_leader_refused_"+variant, 1)
	// B: either it returns now (the leader's refusal handed on) or its own closure starts
	if !capWait(5*time.Second, func() bool { return b.returned() || ctl.count() >= 3 }) {
		fail("B neither returned nor started a closure of its own")
		return
	}
	if b.returned() {
		ownRuns := ctl.count() - 2
		if (b.kind == "capRes" || b.kind == "capZone") && ownRuns == 0 {
			res.Violate("flight/cappriv/"+variant+"/CapacityPrivate",
				where+fmt.Sprintf("caller B (id %d, question %s) waited on the lookup caller A led; A's closure was refused a %s slot and returned %q - "+
					"and B returned the same refusal (%v) although no closure of B's ever ran (gate entries for the shared key: A's only) and nothing had refused B: "+
					"one client's capacity refusal failed another client waiting on the same name", b.id, b.qname, variant, a.kind, b.err),
				map[string]any{"driver": "cappriv", "variant": variant, "round": round})
			return
		}
		res.DriftNote(where+"B returned %s (%v) with %d closures of its own before the holder finished", b.kind, b.err, ownRuns)
		return
	}
	res.Count("cappriv_follower_regrouped", 1)
	// the holder finishes: the slot is free when B's own closure asks
	g.up.releaseAll("ok")
	if !capWait(5*time.Second, h.returned) {
		fail("the holder never returned")
		return
	}
	if h.kind != "ok" {
		res.DriftNote(where+"the holder returned %s (%v)", h.kind, h.err)
	}
	close(ctl.entry(2).release)
	if !capWait(5*time.Second, func() bool { return len(g.up.waiting()) == 1 || b.returned() }) {
		fail("B's own lookup never reached the upstream")
		return
	}
	g.up.releaseAll("ok")
	if !capWait(5*time.Second, b.returned) {
		res.Violate("flight/cappriv/"+variant+"/caller-never-returned", where+"caller B never returned after regrouping", map[string]any{"driver": "cappriv", "variant": variant, "round": round})
		return
	}
	if b.kind != "ok" {
		res.DriftNote(where+"B, leading its own flight with a free slot, returned %s (%v)", b.kind, b.err)
		return
	}
	for _, s := range b.bad {
		res.Violate("flight/cappriv/"+variant+"/own-reply", where+"B after regrouping: "+s, map[string]any{"driver": "cappriv", "variant": variant, "round": round})
	}
	res.Count("cappriv_follower_answered_after_regroup", 1)
}
