package x11fl

// One entry point that runs every X11FL driver in a single test process (the
// quick tier pays the build / link cost once).  The v6 pool driver, which is
// mostly waiting for detached jobs to end, runs beside the others.

import (
	"sync"
	"testing"

	"github.com/semihalev/sdns/verifharness/vh"
)

type allInput struct {
	Flight        []frInput `json:"flight"`
	Stress        *fsInput  `json:"stress"`
	Breaker       []brInput `json:"breaker"`
	BreakerStress *bsInput  `json:"breakerStress"`
	Pool          *plInput  `json:"pool"`
}

func TestAll(t *testing.T) {
	var in allInput
	vh.Input(t, &in)
	res := vh.NewResult()
	defer res.Write(t)
	var wg sync.WaitGroup
	if in.Pool != nil && in.Pool.V6 {
		wg.Add(1)
		go func() {
			defer wg.Done()
			v6Pool(in.Pool, res)
		}()
	}
	for i := range in.Flight {
		flightReplay(&in.Flight[i], res)
	}
	if in.Pool != nil {
		poolReplay(in.Pool, res)
	}
	for i := range in.Breaker {
		breakerReplay(&in.Breaker[i], res)
	}
	if in.BreakerStress != nil {
		breakerStress(in.BreakerStress, res)
	}
	if in.Stress != nil {
		rng := vh.Rand()
		for i := range in.Stress.Runs {
			if !stressRun(&in.Stress.Runs[i], res, vhRand(rng.Int63())) {
				break
			}
		}
	}
	wg.Wait()
}
