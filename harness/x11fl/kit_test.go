package x11fl

// Shared kit of the X11FL (Flight) drivers: a scripted upstream authority on a
// loopback UDP socket whose replies are held at a gate the driver owns, the
// real resolver wired to it, and the per-invocation record on which the C10
// predicates (own id, own question, own deep copy, private context errors)
// are evaluated.

import (
	"bytes"
	"context"
	"encoding/binary"
	"encoding/json"
	"errors"
	"fmt"
	"math/rand"
	"net"
	"os"
	"reflect"
	"strings"
	"sync"
	"sync/atomic"
	"time"

	"github.com/miekg/dns"
	"github.com/semihalev/sdns/config"
	"github.com/semihalev/sdns/internal/authority"
	"github.com/semihalev/sdns/middleware/resolver"
)

const leaderOptCode = 65001

// seq is the one harness-side sequence every recorded invocation / response /
// upstream event is stamped from.
var seq atomic.Int64

func nextSeq() int64 { return seq.Add(1) }

// ---- scripted upstream -----------------------------------------------------------

type upQuery struct {
	tag     int    // arrival number on the server = the flight's tag
	key     string // lower-cased qname
	ltag    int    // invocation tag of the leader whose request copy was sent (OPT local option)
	release chan string
	seq     int64
	replied atomic.Bool
}

type upstream struct {
	pc   net.PacketConn
	srv  *dns.Server
	addr string

	mu      sync.Mutex
	n       int
	pending map[int]*upQuery
	failing map[int]bool // leader tags whose attempt is failing for good: retries get garbage at once
	gated   bool
	auto    func(q *upQuery) (string, time.Duration) // free-running mode: outcome and delay
	onEvent func(kind string, q *upQuery, out string, s int64)
	retries atomic.Int64
}

func newUpstream() (*upstream, error) {
	pc, err := net.ListenPacket("udp", "127.0.0.1:0")
	if err != nil {
		return nil, err
	}
	u := &upstream{pc: pc, addr: pc.LocalAddr().String(), pending: map[int]*upQuery{}, failing: map[int]bool{}, gated: true}
	u.srv = &dns.Server{PacketConn: pc, Handler: dns.HandlerFunc(u.handle)}
	ready := make(chan struct{})
	u.srv.NotifyStartedFunc = func() { close(ready) }
	go func() { _ = u.srv.ActivateAndServe() }()
	select {
	case <-ready:
	case <-time.After(5 * time.Second):
		return nil, errors.New("scripted upstream did not start")
	}
	return u, nil
}

func (u *upstream) stop() { _ = u.srv.Shutdown() }

func leaderTagOf(m *dns.Msg) int {
	if opt := m.IsEdns0(); opt != nil {
		for _, o := range opt.Option {
			if l, ok := o.(*dns.EDNS0_LOCAL); ok && l.Code == leaderOptCode && len(l.Data) == 4 {
				return int(binary.BigEndian.Uint32(l.Data))
			}
		}
	}
	return 0
}

func tagAnswer(q dns.Question, tag int) *dns.Msg {
	m := new(dns.Msg)
	m.Response = true
	m.Authoritative = true
	m.Question = []dns.Question{q}
	for i := 1; i <= 2; i++ {
		m.Answer = append(m.Answer, &dns.A{Hdr: dns.RR_Header{Name: q.Name, Rrtype: dns.TypeA, Class: dns.ClassINET, Ttl: 300},
			A: net.IPv4(10, byte(tag>>8), byte(tag), byte(i))})
	}
	return m
}

func tagOf(m *dns.Msg) int {
	if m == nil || len(m.Answer) == 0 {
		return 0
	}
	if a, ok := m.Answer[0].(*dns.A); ok {
		ip := a.A.To4()
		if ip != nil && ip[0] == 10 {
			return int(ip[1])<<8 | int(ip[2])
		}
	}
	return 0
}

func (u *upstream) handle(w dns.ResponseWriter, r *dns.Msg) {
	if len(r.Question) != 1 {
		return
	}
	lt := leaderTagOf(r)
	u.mu.Lock()
	if u.failing[lt] {
		u.mu.Unlock()
		u.retries.Add(1)
		_, _ = w.Write([]byte{0xde, 0xad, 0xbe})
		return
	}
	u.n++
	q := &upQuery{tag: u.n, key: strings.ToLower(r.Question[0].Name), ltag: lt, release: make(chan string, 1)}
	q.seq = nextSeq()
	u.pending[q.tag] = q
	gated, auto, onEvent := u.gated, u.auto, u.onEvent
	u.mu.Unlock()
	if onEvent != nil {
		onEvent("upq", q, "", q.seq)
	}
	var out string
	if gated {
		out = <-q.release
	} else {
		var d time.Duration
		out, d = auto(q)
		if d > 0 {
			time.Sleep(d)
		}
	}
	if out == "fail" {
		u.mu.Lock()
		u.failing[lt] = true
		u.mu.Unlock()
	}
	s := nextSeq()
	if onEvent != nil {
		onEvent("upr", q, out, s)
	}
	q.replied.Store(true)
	switch out {
	case "ok":
		m := tagAnswer(r.Question[0], q.tag)
		m.Id = r.Id
		m.RecursionDesired = r.RecursionDesired
		m.CheckingDisabled = r.CheckingDisabled
		m.Ns = append(m.Ns, &dns.NS{Hdr: dns.RR_Header{Name: "z.", Rrtype: dns.TypeNS, Class: dns.ClassINET, Ttl: 300}, Ns: "ns.z."})
		m.Extra = append(m.Extra, &dns.A{Hdr: dns.RR_Header{Name: "ns.z.", Rrtype: dns.TypeA, Class: dns.ClassINET, Ttl: 300}, A: net.IPv4(192, 0, 2, 1)})
		if r.IsEdns0() != nil {
			o := &dns.OPT{Hdr: dns.RR_Header{Name: ".", Rrtype: dns.TypeOPT}}
			o.SetUDPSize(1232)
			o.Option = append(o.Option, &dns.EDNS0_LOCAL{Code: leaderOptCode + 1, Data: []byte{byte(q.tag >> 8), byte(q.tag)}})
			m.Extra = append(m.Extra, o)
		}
		_ = w.WriteMsg(m)
	case "sf":
		m := new(dns.Msg)
		m.SetRcode(r, dns.RcodeServerFailure)
		_ = w.WriteMsg(m)
	case "fail":
		_, _ = w.Write([]byte{0xde, 0xad, 0xbe})
	default: // "drop": say nothing
	}
	u.mu.Lock()
	delete(u.pending, q.tag)
	u.mu.Unlock()
}

// waiting returns the queries held at the gate (not yet released).
func (u *upstream) waiting() []*upQuery {
	u.mu.Lock()
	defer u.mu.Unlock()
	var out []*upQuery
	for _, q := range u.pending {
		if len(q.release) == 0 && !q.replied.Load() {
			out = append(out, q)
		}
	}
	return out
}

// busy is the number of queries the server has received and not finished answering.
func (u *upstream) busy() int {
	u.mu.Lock()
	defer u.mu.Unlock()
	return len(u.pending)
}

func (u *upstream) releaseAll(out string) int {
	n := 0
	for _, q := range u.waiting() {
		select {
		case q.release <- out:
			n++
		default:
		}
	}
	return n
}

func (u *upstream) clearFailing() {
	u.mu.Lock()
	u.failing = map[int]bool{}
	u.mu.Unlock()
}

// ---- the resolver under test -----------------------------------------------------

type rig struct {
	r       *resolver.Resolver
	up      *upstream
	servers map[string]*authority.Servers // by zone
	errRes  error
	errZone error
}

func newRig(zones []string) (*rig, error) {
	up, err := newUpstream()
	if err != nil {
		return nil, err
	}
	cfg := &config.Config{}
	cfg.Timeout.Duration = 20 * time.Second
	cfg.MaxConcurrentQueries = 64
	g := &rig{r: resolver.NewResolver(cfg), up: up, servers: map[string]*authority.Servers{}}
	g.errRes, g.errZone, _ = resolver.VerifX11Errs()
	for _, z := range zones {
		g.servers[z] = &authority.Servers{Zone: z, List: []*authority.Server{authority.NewServer(up.addr, authority.IPv4)}}
	}
	return g, nil
}

// distinctZones picks zone names that hash to pairwise different limiter buckets.
func (g *rig) distinctZones(labels []string) map[string]string {
	out := map[string]string{}
	used := map[int]bool{}
	for _, l := range labels {
		for i := 0; ; i++ {
			z := fmt.Sprintf("%s-%d.test.", l, i)
			b, _ := g.r.VerifX11ZoneBucket(z)
			if !used[b] {
				used[b] = true
				out[l] = z
				break
			}
		}
	}
	return out
}

// ---- one invocation of groupLookup ----------------------------------------------------

type call struct {
	rc     int // real caller number
	n      int // invocation number of that caller
	ltag   int
	id     uint16
	qname  string
	zone   string
	ctx    context.Context
	cancel context.CancelFunc

	cancelled atomic.Bool
	cancelSeq atomic.Int64
	invSeq    int64
	retSeq    int64
	done      chan struct{}

	resp  *dns.Msg
	err   error
	kind  string // ok | fail | capRes | capZone | ctx | nil
	tag   int
	rcode int
	snap  []byte    // wire image of the response as returned
	ptrs  []uintptr // identity of the message and everything it owns
	bad   []string  // predicate failures found at return

	scribbled bool
}

func ptrOf(x any) uintptr     { return reflect.ValueOf(x).Pointer() }
func rrPtr(rr dns.RR) uintptr { return reflect.ValueOf(rr).Pointer() }

func (c *call) returned() bool {
	select {
	case <-c.done:
		return true
	default:
		return false
	}
}

func buildReq(qname string, id uint16, ltag int) *dns.Msg {
	req := new(dns.Msg)
	req.SetQuestion(qname, dns.TypeA)
	req.Id = id
	req.RecursionDesired = false
	req.SetEdns0(1232, false)
	var b [4]byte
	binary.BigEndian.PutUint32(b[:], uint32(ltag)) //nolint:gosec
	req.IsEdns0().Option = append(req.IsEdns0().Option, &dns.EDNS0_LOCAL{Code: leaderOptCode, Data: b[:]})
	return req
}

// run is one synchronous invocation of groupLookup; the per-result predicates
// are evaluated the moment it returns.
func (g *rig) run(c *call) {
	req := buildReq(c.qname, c.id, c.ltag)
	reqWire, _ := req.Pack()
	resp, err := g.r.VerifX11GroupLookup(c.ctx, req, g.servers[c.zone], false)
	c.resp, c.err = resp, err
	c.classify(g)
	if after, perr := req.Pack(); perr != nil || !bytes.Equal(after, reqWire) {
		c.bad = append(c.bad, "the caller's own request was modified by the shared lookup")
	}
	if c.kind == "ok" {
		c.checkOwn()
		c.snap, _ = c.resp.Pack()
		c.ptrs = msgPointers(c.resp)
	}
}

// start runs the invocation in its own goroutine.
func (g *rig) start(c *call, onRet func(*call)) {
	c.ctx, c.cancel = context.WithCancel(context.Background())
	c.done = make(chan struct{})
	c.invSeq = nextSeq()
	go func() {
		g.run(c)
		c.retSeq = nextSeq()
		if onRet != nil {
			onRet(c)
		}
		close(c.done)
	}()
}

const ltagBase = 100000

func leaderOf(ltag int) int { return ltag / ltagBase }

func (c *call) classify(g *rig) {
	switch {
	case c.err != nil && (errors.Is(c.err, context.Canceled) || errors.Is(c.err, context.DeadlineExceeded)):
		c.kind = "ctx"
	case c.err != nil && errors.Is(c.err, g.errRes):
		c.kind = "capRes"
	case c.err != nil && errors.Is(c.err, g.errZone):
		c.kind = "capZone"
	case c.err != nil:
		c.kind = "fail"
	case c.resp == nil:
		c.kind = "nil"
	default:
		c.kind = "ok"
		c.tag = tagOf(c.resp)
		c.rcode = c.resp.Rcode
	}
}

// checkOwn: the response carries this caller's id and answers this caller's question.
func (c *call) checkOwn() {
	if c.resp.Id != c.id {
		c.bad = append(c.bad, fmt.Sprintf("response id %d is not the caller's own query id %d", c.resp.Id, c.id))
	}
	if len(c.resp.Question) != 1 || !strings.EqualFold(c.resp.Question[0].Name, c.qname) ||
		c.resp.Question[0].Qtype != dns.TypeA || c.resp.Question[0].Qclass != dns.ClassINET {
		c.bad = append(c.bad, fmt.Sprintf("response question %v is not the caller's question %s A", c.resp.Question, c.qname))
	}
	for _, rr := range c.resp.Answer {
		if !strings.EqualFold(rr.Header().Name, c.qname) {
			c.bad = append(c.bad, fmt.Sprintf("answer owner %s is not the caller's qname %s", rr.Header().Name, c.qname))
		}
	}
}

func msgPointers(m *dns.Msg) []uintptr {
	var out []uintptr
	out = append(out, ptrOf(m))
	if len(m.Question) > 0 {
		out = append(out, ptrOf(&m.Question[0]))
	}
	for _, sec := range [][]dns.RR{m.Answer, m.Ns, m.Extra} {
		if len(sec) > 0 {
			out = append(out, ptrOf(&sec[0]))
		}
		for _, rr := range sec {
			out = append(out, rrPtr(rr))
			if o, ok := rr.(*dns.OPT); ok {
				for _, e := range o.Option {
					if l, ok := e.(*dns.EDNS0_LOCAL); ok {
						out = append(out, ptrOf(l))
					}
				}
			}
		}
	}
	return out
}

// scribble rewrites everything the caller owns in its response: if any byte
// of it were shared with another caller, that caller's wire image changes.
func scribble(m *dns.Msg) {
	m.Id ^= 0x5a5a
	m.Rcode = dns.RcodeRefused
	for i := range m.Question {
		m.Question[i].Name = "scribbled."
		m.Question[i].Qtype = dns.TypeTXT
	}
	for _, sec := range [][]dns.RR{m.Answer, m.Ns, m.Extra} {
		for _, rr := range sec {
			rr.Header().Ttl = 7
			rr.Header().Name = "scribbled."
			switch x := rr.(type) {
			case *dns.A:
				if ip := x.A.To4(); ip != nil {
					x.A = net.IPv4(203, 0, 113, ip[3])
				}
				for i := range x.A {
					x.A[i] ^= 0xff
				}
			case *dns.NS:
				x.Ns = "scribbled."
			case *dns.OPT:
				x.SetUDPSize(512)
				for _, e := range x.Option {
					if l, ok := e.(*dns.EDNS0_LOCAL); ok {
						for i := range l.Data {
							l.Data[i] ^= 0xff
						}
					}
				}
				x.Option = append(x.Option, &dns.EDNS0_NSID{Code: dns.EDNS0NSID, Nsid: "aa"})
			}
		}
	}
	if len(m.Answer) > 0 {
		m.Answer[0] = &dns.TXT{Hdr: dns.RR_Header{Name: "scribbled.", Rrtype: dns.TypeTXT, Class: dns.ClassINET}, Txt: []string{"x"}}
	}
	m.Answer = append(m.Answer, &dns.TXT{Hdr: dns.RR_Header{Name: "scribbled.", Rrtype: dns.TypeTXT, Class: dns.ClassINET}, Txt: []string{"y"}})
}

// isolation evaluates the deep-copy predicates over the results that came
// from one flight: pairwise disjoint object identity, and every other
// caller's wire image unchanged after each caller scribbled over its own.
func isolation(calls []*call) []string {
	var bad []string
	seen := map[uintptr]*call{}
	for _, c := range calls {
		if c.kind != "ok" {
			continue
		}
		for _, p := range c.ptrs {
			if o, ok := seen[p]; ok && o != c {
				bad = append(bad, fmt.Sprintf("callers %d and %d hold the same object of the shared response (no private deep copy)", o.ltag, c.ltag))
				break
			}
			seen[p] = c
		}
	}
	for _, c := range calls {
		if c.kind == "ok" && c.resp.Id != c.id {
			bad = append(bad, fmt.Sprintf("caller %d's response id became %d (own query id %d) after it returned", c.ltag, c.resp.Id, c.id))
		}
	}
	for _, c := range calls {
		if c.kind != "ok" {
			continue
		}
		// every caller scribbles in turn; all the others must be unaffected
		saved := c.resp
		scribble(saved)
		for _, o := range calls {
			if o == c || o.kind != "ok" || o.scribbled {
				continue
			}
			now, err := o.resp.Pack()
			if err != nil || !bytes.Equal(now, o.snap) {
				bad = append(bad, fmt.Sprintf("mutating caller %d's response changed caller %d's response", c.ltag, o.ltag))
			}
		}
		c.scribbled = true
	}
	return bad
}

func vhRand(seed int64) *rand.Rand { return rand.New(rand.NewSource(seed)) }

func writeNDJSON(path string, lines []map[string]any) error {
	f, err := os.Create(path)
	if err != nil {
		return err
	}
	enc := json.NewEncoder(f)
	for _, ln := range lines {
		if err := enc.Encode(ln); err != nil {
			_ = f.Close()
			return err
		}
	}
	return f.Close()
}
