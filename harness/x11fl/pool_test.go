package x11fl

// spec -> code for Pool.tla on the two try-acquire pools.
//
// probeSlots: every edge of the model's state graph is replayed on the real
// Resolver.queryServer started exactly as Resolver.lookup starts it (overlay
// VerifX11Attempt) with probing = true against the gated scripted upstream:
// TryAcquire(j) = the attempt starts and reaches the upstream, Finish(j) = the
// upstream answers it.  After every step len(probeSlots) and
// len(maxConcurrent) are compared with the model.
//
// v6LookupSlots: real Resolver.Resolve of names below scripted delegations with
// IPv6Access on; every referral wants one detached IPv6 enrichment job, which
// holds its slot for defaultTimeout (2 s) before it looks anything up.  With
// cap(v6LookupSlots) = Cap the jobs beyond Cap are shed, the clients are
// answered all the same, and the pool drains to zero.

import (
	"context"
	"fmt"
	"net"
	"os"
	"strings"
	"sync"
	"testing"
	"time"

	"github.com/miekg/dns"
	"github.com/semihalev/sdns/config"
	"github.com/semihalev/sdns/internal/authority"
	"github.com/semihalev/sdns/middleware/resolver"
	"github.com/semihalev/sdns/verifharness/vh"
)

type plStep struct {
	Act  string            `json:"act"` // TryAcquire | Finish
	J    int               `json:"j"`
	Used int               `json:"used"`
	St   map[string]string `json:"st"`
}
type plBeh struct {
	ID    string   `json:"id"`
	Steps []plStep `json:"steps"`
}
type plInput struct {
	Cap        int     `json:"cap"`
	Jobs       []int   `json:"jobs"`
	Behaviours []plBeh `json:"behaviours"`
	V6         bool    `json:"v6"`
	V6Cap      int     `json:"v6Cap"`
	V6Jobs     int     `json:"v6Jobs"`
}

type attempt struct {
	j    int
	ltag int
	done <-chan resolver.VerifX11AttemptResult
	ctx  context.Context
	stop context.CancelFunc
}

func waitUntil(ms int, f func() bool) bool {
	deadline := time.Now().Add(time.Duration(ms) * time.Millisecond)
	for {
		if f() {
			return true
		}
		if time.Now().After(deadline) {
			return false
		}
		time.Sleep(200 * time.Microsecond)
	}
}

func poolReplay(in *plInput, res *vh.Result) {
	g, err := newRig([]string{"pool.test."})
	if err != nil {
		res.Skip("rig: %v", err)
		return
	}
	defer g.up.stop()
	g.r.VerifX11SetSlots(0, 0, 64, in.Cap, 0)
	server := g.servers["pool.test."].List[0]
	inv := 0
	for bi := range in.Behaviours {
		b := &in.Behaviours[bi]
		at := map[int]*attempt{}
		rp := map[string]any{"driver": "pool-replay", "cap": in.Cap, "jobs": in.Jobs, "behaviour": b}
		ok := true
		sig := ""
		for i, s := range b.Steps {
			sig += fmt.Sprintf("%s%d,", s.Act[:1], s.J)
			switch s.Act {
			case "TryAcquire":
				inv++
				a := &attempt{j: s.J, ltag: s.J*ltagBase + inv%ltagBase}
				a.ctx, a.stop = context.WithCancel(context.Background())
				req := buildReq(fmt.Sprintf("j%d.pool.test.", s.J), uint16(3000+inv%30000), a.ltag) //nolint:gosec
				admitted, done := g.r.VerifX11Attempt(a.ctx, req, server, true)
				if !admitted {
					res.DriftNote("%s step %d: attempt %d not admitted to maxConcurrent", b.ID, i, s.J)
					ok = false
				}
				a.done = done
				at[s.J] = a
				if !waitUntil(2000, func() bool {
					for _, q := range g.up.waiting() {
						if q.ltag == a.ltag {
							return true
						}
					}
					return false
				}) {
					res.DriftNote("%s step %d: attempt %d never reached the upstream", b.ID, i, s.J)
					ok = false
				}
			case "Finish":
				a := at[s.J]
				released := false
				for _, q := range g.up.waiting() {
					if a != nil && q.ltag == a.ltag {
						q.release <- "ok"
						released = true
					}
				}
				if !released {
					res.DriftNote("%s step %d: Finish(%d) but its query is not at the gate", b.ID, i, s.J)
					ok = false
					break
				}
				select {
				case <-a.done:
				case <-time.After(5 * time.Second):
					res.Violate("pool/probe/attempt-wedged", fmt.Sprintf("the upstream answered probe attempt %d and queryServer did not end within 5 s [%s step %d]", s.J, b.ID, i), rp)
					ok = false
				}
			}
			if !ok {
				break
			}
			held := 0
			for _, v := range s.St {
				if v == "held" || v == "shed" {
					held++
				}
			}
			var sl resolver.VerifX11Slots
			match := waitUntil(2000, func() bool {
				sl = g.r.VerifX11Slots()
				return sl.Probe == s.Used && sl.MaxConc == held
			})
			if sl.Probe > sl.ProbeCap || sl.Probe < 0 {
				res.Violate("pool/probe/bounds", fmt.Sprintf("len(probeSlots)=%d outside 0..%d [%s step %d]", sl.Probe, sl.ProbeCap, b.ID, i), rp)
			}
			if !match {
				if sl.Probe != s.Used {
					// an attempt is either in flight (and then holds iff it took a slot) or over (and then holds nothing)
					res.Violate("pool/probe/occupancy", fmt.Sprintf("after %s(%d): len(probeSlots)=%d, but %d probe attempts that took a slot are still in flight (acquire-or-shed, release exactly once when the attempt ends) [%s step %d]",
						s.Act, s.J, sl.Probe, s.Used, b.ID, i), rp)
				} else {
					res.Violate("pool/probe/maxconcurrent", fmt.Sprintf("after %s(%d): len(maxConcurrent)=%d with %d attempts in flight [%s step %d]", s.Act, s.J, sl.MaxConc, held, b.ID, i), rp)
				}
				ok = false
				break
			}
			res.Count("pool_steps", 1)
		}
		// drain
		for _, a := range at {
			for _, q := range g.up.waiting() {
				if q.ltag == a.ltag {
					q.release <- "ok"
				}
			}
		}
		for _, a := range at {
			select {
			case <-a.done:
			case <-time.After(5 * time.Second):
			}
			a.stop()
		}
		var sl resolver.VerifX11Slots
		if !waitUntil(3000, func() bool { sl = g.r.VerifX11Slots(); return sl.Probe == 0 && sl.MaxConc == 0 }) {
			res.Violate("pool/probe/not-released", fmt.Sprintf("every probe attempt ended and len(probeSlots)=%d len(maxConcurrent)=%d [%s]", sl.Probe, sl.MaxConc, b.ID), rp)
		}
		g.r.VerifX11Breaker().Reset()
		res.Case("pool:" + sig)
		res.Count("pool_behaviours", 1)
		if ok {
			res.Count("pool_behaviours_complete", 1)
		}
		if res.NViolations() >= 1 {
			return
		}
	}
}

// ---- v6LookupSlots through the real Resolve ---------------------------------------------------

type authSock struct {
	pc   net.PacketConn
	srv  *dns.Server
	addr string
	mu   sync.Mutex
	n    int
}

func startAuth(h func(w dns.ResponseWriter, r *dns.Msg)) (*authSock, error) {
	pc, err := net.ListenPacket("udp", "127.0.0.1:0")
	if err != nil {
		return nil, err
	}
	a := &authSock{pc: pc, addr: pc.LocalAddr().String()}
	a.srv = &dns.Server{PacketConn: pc, Handler: dns.HandlerFunc(func(w dns.ResponseWriter, r *dns.Msg) {
		a.mu.Lock()
		a.n++
		a.mu.Unlock()
		if os.Getenv("X11_DEBUG") != "" {
			fmt.Println("auth", a.addr, r.Question[0].Name, dns.TypeToString[r.Question[0].Qtype])
		}
		h(w, r)
	})}
	ready := make(chan struct{})
	a.srv.NotifyStartedFunc = func() { close(ready) }
	go func() { _ = a.srv.ActivateAndServe() }()
	<-ready
	return a, nil
}

func v6Pool(in *plInput, res *vh.Result) {
	const childIP = "192.0.2.53"
	soa := func(zone string) dns.RR {
		rr, _ := dns.NewRR(zone + " 60 IN SOA ns." + zone + " h." + zone + " 1 60 60 60 60")
		return rr
	}
	child, err := startAuth(func(w dns.ResponseWriter, r *dns.Msg) {
		m := new(dns.Msg)
		m.SetReply(r)
		m.Authoritative = true
		q := r.Question[0]
		labels := dns.SplitDomainName(q.Name)
		zone := dns.Fqdn(strings.Join(labels[len(labels)-2:], "."))
		if q.Qtype == dns.TypeA && strings.HasPrefix(strings.ToLower(q.Name), "www.") {
			m.Answer = append(m.Answer, &dns.A{Hdr: dns.RR_Header{Name: q.Name, Rrtype: dns.TypeA, Class: dns.ClassINET, Ttl: 60}, A: net.IPv4(198, 51, 100, 7)})
		} else {
			m.Ns = append(m.Ns, soa(zone))
		}
		_ = w.WriteMsg(m)
	})
	if err != nil {
		res.Skip("v6: child authority: %v", err)
		return
	}
	defer child.srv.Shutdown()
	root, err := startAuth(func(w dns.ResponseWriter, r *dns.Msg) {
		m := new(dns.Msg)
		m.SetReply(r)
		q := r.Question[0]
		labels := dns.SplitDomainName(q.Name)
		if len(labels) < 2 || q.Qtype == dns.TypeDS || q.Qtype == dns.TypeDNSKEY {
			m.Authoritative = true
			m.Ns = append(m.Ns, soa("."))
			_ = w.WriteMsg(m)
			return
		}
		zone := dns.Fqdn(strings.Join(labels[len(labels)-2:], "."))
		m.Ns = append(m.Ns, &dns.NS{Hdr: dns.RR_Header{Name: zone, Rrtype: dns.TypeNS, Class: dns.ClassINET, Ttl: 300}, Ns: "ns." + zone})
		m.Extra = append(m.Extra, &dns.A{Hdr: dns.RR_Header{Name: "ns." + zone, Rrtype: dns.TypeA, Class: dns.ClassINET, Ttl: 300}, A: net.ParseIP(childIP)})
		_ = w.WriteMsg(m)
	})
	if err != nil {
		res.Skip("v6: root authority: %v", err)
		return
	}
	defer root.srv.Shutdown()
	cfg := &config.Config{}
	cfg.Timeout.Duration = 3 * time.Second
	cfg.MaxConcurrentQueries = 64
	cfg.IPv6Access = true
	cfg.Maxdepth = 30
	cfg.RootServers = []string{root.addr}
	// processDelegation derives the root's DS set from the configured anchors even with validation off
	ksk := &dns.DNSKEY{Hdr: dns.RR_Header{Name: ".", Rrtype: dns.TypeDNSKEY, Class: dns.ClassINET, Ttl: 3600}, Flags: 257, Protocol: 3, Algorithm: dns.ECDSAP256SHA256}
	if _, kerr := ksk.Generate(256); kerr != nil {
		res.Skip("v6: key generation: %v", kerr)
		return
	}
	cfg.RootKeys = []string{ksk.String()}
	r := resolver.NewResolver(cfg)
	r.VerifX11SetSlots(0, 0, 0, 0, in.V6Cap)
	r.VerifX11SetResolveTarget(func(addr string) string {
		if strings.HasPrefix(addr, childIP+":") {
			return child.addr
		}
		return addr
	})
	roots := &authority.Servers{Zone: ".", List: []*authority.Server{authority.NewServer(root.addr, authority.IPv4)}}
	rp := map[string]any{"driver": "v6-pool", "v6Cap": in.V6Cap, "jobs": in.V6Jobs}
	peak := 0
	for i := 0; i < in.V6Jobs; i++ {
		req := new(dns.Msg)
		req.SetQuestion(fmt.Sprintf("www.c%d.v6pool.", i), dns.TypeA)
		req.SetEdns0(1232, false)
		req.CheckingDisabled = true // no validation: the scripted namespace is unsigned
		ctx, cancel := context.WithTimeout(context.Background(), 5*time.Second)
		resp, err := r.Resolve(ctx, req, roots, true, 30, 0, false, nil, false)
		cancel()
		sl := r.VerifX11Slots()
		if sl.V6 > peak {
			peak = sl.V6
		}
		if sl.V6 > sl.V6Cap || sl.V6 < 0 {
			res.Violate("pool/v6/bounds", fmt.Sprintf("len(v6LookupSlots)=%d outside 0..%d", sl.V6, sl.V6Cap), rp)
		}
		// shedding the enrichment job is never an error to the client
		if err != nil || resp == nil || len(resp.Answer) == 0 {
			res.Violate("pool/v6/client-failed", fmt.Sprintf("resolution %d of %d failed (%v) while the IPv6 enrichment pool (cap %d) held %d jobs: a full pool must shed the optional job, not the client's answer", i+1, in.V6Jobs, err, sl.V6Cap, sl.V6), rp)
			break
		}
		want := i + 1
		if want > in.V6Cap {
			want = in.V6Cap
		}
		if sl.V6 != want {
			res.DriftNote("v6 pool: after referral %d len(v6LookupSlots)=%d, model %d", i+1, sl.V6, want)
		}
		res.Count("v6_resolutions", 1)
	}
	res.Count("v6_peak", peak)
	var sl resolver.VerifX11Slots
	if !waitUntil(8000, func() bool { sl = r.VerifX11Slots(); return sl.V6 == 0 }) {
		res.Violate("pool/v6/not-released", fmt.Sprintf("8 s after the last referral (jobs live about 2 s) len(v6LookupSlots)=%d: a detached IPv6 enrichment job did not return its slot", sl.V6), rp)
	}
	res.Count("v6_drained", 1)
	res.Case("v6pool")
}

func TestPoolReplay(t *testing.T) {
	var in plInput
	vh.Input(t, &in)
	res := vh.NewResult()
	defer res.Write(t)
	poolReplay(&in, res)
	if in.V6 {
		v6Pool(&in, res)
	}
}
