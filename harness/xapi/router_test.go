package xapi

import (
	"fmt"
	"net/http/httptest"
	"os"
	"sort"
	"strings"
	"sync"
	"testing"

	"github.com/semihalev/sdns/api"
	"github.com/semihalev/sdns/verifharness/vh"
)

// Part B: tla/ApiRouter/Router.tla cases (route set x request path -> serving pattern + bindings) on the real api.Router.

type RCase struct {
	Path   []string   `json:"path"`
	Route  []string   `json:"route"`
	Params [][]string `json:"params"`
	Rest   []string   `json:"rest"`
	N      int        `json:"n"` // how many patterns of the set match the path (documented reading)
}

type RSet struct {
	Routes [][]string `json:"routes"`
	Judged bool       `json:"judged"` // the README's own route table: verdict-bearing
	Cases  []RCase    `json:"cases"`
}

var (
	obsMu   sync.Mutex
	obsSeen = map[string]string{}
)

func observe(res *vh.Result, class, format string, a ...any) {
	res.Count("observation_"+class, 1)
	obsMu.Lock()
	defer obsMu.Unlock()
	if _, ok := obsSeen[class]; !ok {
		obsSeen[class] = fmt.Sprintf(format, a...)
	}
}

func writeObservations() {
	p := os.Getenv("XAPI_OBS_OUT")
	if p == "" {
		return
	}
	var ks []string
	for k := range obsSeen {
		ks = append(ks, k)
	}
	sort.Strings(ks)
	var sb strings.Builder
	for _, k := range ks {
		sb.WriteString(k + "\t" + strings.ReplaceAll(obsSeen[k], "\n", " ") + "\n")
	}
	_ = os.WriteFile(p, []byte(sb.String()), 0o644)
}

func pathStr(segs []string) string { return "/" + strings.Join(segs, "/") }

type routed struct {
	idx    int // -1 = not served
	code   int
	params string
}

func build(routes [][]string, order []int) (rt *api.Router, hit *routed, panicked any) {
	hit = &routed{idx: -1}
	defer func() {
		if r := recover(); r != nil {
			panicked = r
		}
	}()
	rt = api.NewRouter()
	for _, i := range order {
		i := i
		rt.GET(pathStr(routes[i]), func(ctx *api.Context) {
			hit.idx = i
			var ps []string
			for _, p := range *ctx.Params {
				ps = append(ps, p.Key+"="+p.Value)
			}
			sort.Strings(ps)
			hit.params = strings.Join(ps, "&")
			ctx.Writer.WriteHeader(204)
		})
	}
	return rt, hit, nil
}

func ask(rt *api.Router, hit *routed, path string) routed {
	hit.idx, hit.params = -1, ""
	w := httptest.NewRecorder()
	rt.ServeHTTP(w, httptest.NewRequest("GET", "http://api.vf"+path, nil))
	return routed{idx: hit.idx, code: w.Code, params: hit.params}
}

func expected(s *RSet, c *RCase) routed {
	if len(c.Route) == 0 {
		return routed{idx: -1, code: 404}
	}
	want := routed{idx: -1, code: 204}
	for i, r := range s.Routes {
		if strings.Join(r, "/") == strings.Join(c.Route, "/") {
			want.idx = i
		}
	}
	var ps []string
	for _, p := range c.Params {
		ps = append(ps, strings.TrimPrefix(p[0], ":")+"="+p[1])
	}
	if c.Route[len(c.Route)-1] == "*" {
		ps = append(ps, "="+strings.Join(c.Rest, "/"))
	}
	sort.Strings(ps)
	want.params = strings.Join(ps, "&")
	return want
}

func routerCases(t *testing.T, res *vh.Result, sets []RSet) {
	for si := range sets {
		s := &sets[si]
		var pats []string
		for _, r := range s.Routes {
			pats = append(pats, pathStr(r))
		}
		fwd := make([]int, len(s.Routes))
		rev := make([]int, len(s.Routes))
		for i := range fwd {
			fwd[i], rev[len(rev)-1-i] = i, i
		}
		rt, hit, pn := build(s.Routes, fwd)
		if pn != nil {
			if s.Judged {
				res.Violate("api/route/register-panic", fmt.Sprintf("api/route/register-panic: registering %v panics: %v", pats, pn), map[string]any{"driver": "router", "case": s})
			} else {
				observe(res, "router-register-panic", "registering %v panics: %v", pats, pn)
			}
			res.Count("router_cases", len(s.Cases))
			continue
		}
		rt2, hit2, pn2 := build(s.Routes, rev)
		for ci := range s.Cases {
			c := &s.Cases[ci]
			res.Count("router_cases", 1)
			p := pathStr(c.Path)
			want := expected(s, c)
			got := ask(rt, hit, p)
			desc := func(r routed) string {
				if r.idx < 0 {
					return fmt.Sprintf("not served (%d)", r.code)
				}
				return fmt.Sprintf("%s {%s}", pats[r.idx], r.params)
			}
			res.Case(fmt.Sprintf("route/%v/%s/%d", pats, p, got.idx))
			same := got.idx == want.idx && got.params == want.params
			one := RSet{Routes: s.Routes, Judged: s.Judged, Cases: []RCase{*c}}
			switch {
			case same:
				res.Count("router_equal", 1)
				if c.N == 1 {
					res.Count("router_unique_routed", 1)
				}
				if want.idx < 0 {
					res.Count("router_none", 1)
				}
			case got.code == 500:
				if s.Judged {
					res.Violate("api/route/lookup-panic", fmt.Sprintf("api/route/lookup-panic: routes %v, GET %s -> 500 (panic recovered)", pats, p), map[string]any{"driver": "router", "case": one})
				} else {
					observe(res, "router-lookup-panic", "routes %v, GET %s -> 500 (panic recovered by ServeHTTP); expected %s", pats, p, desc(want))
				}
			case s.Judged && c.N == 1:
				res.Violate("api/route/unique-match", fmt.Sprintf("api/route/unique-match: with the README's routes GET %s matches only %s but the router answered: %s", p, desc(want), desc(got)),
					map[string]any{"driver": "router", "case": one})
			case s.Judged && c.N == 0:
				res.Violate("api/route/phantom", fmt.Sprintf("api/route/phantom: with the README's routes GET %s matches no pattern but the router answered: %s", p, desc(got)),
					map[string]any{"driver": "router", "case": one})
			case s.Judged:
				res.DriftNote("routes README, GET %s: %d patterns match, model %s, code %s", p, c.N, desc(want), desc(got))
			case c.N == 1 && got.idx < 0:
				observe(res, "router-unique-missed", "routes %v, GET %s: only %s matches, the router answers 404 (no backtracking)", pats, p, desc(want))
			case c.N == 1:
				observe(res, "router-unique-wrong", "routes %v, GET %s: only %s matches, the router answers %s", pats, p, desc(want), desc(got))
			case c.N == 0:
				observe(res, "router-phantom", "routes %v, GET %s: no pattern matches, the router answers %s", pats, p, desc(got))
			default:
				observe(res, "router-priority", "routes %v, GET %s: %d patterns match, static>param>catch-all gives %s, the router answers %s", pats, p, c.N, desc(want), desc(got))
			}
			if !same && !s.Judged {
				res.Count("router_differs", 1)
			}
			// undocumented: the trailing slash
			if len(c.Path) > 0 {
				ts := ask(rt, hit, p+"/")
				switch {
				case ts.idx < 0:
					res.Count("router_ts_none", 1)
				case ts.idx == got.idx && (ts.params == got.params || (got.idx >= 0 && s.Routes[got.idx][len(s.Routes[got.idx])-1] == "*")):
					res.Count("router_ts_same", 1)
				default:
					observe(res, "router-trailing-slash", "routes %v: GET %s -> %s but GET %s/ -> %s", pats, p, desc(got), p, desc(ts))
				}
			}
			if pn2 == nil {
				g2 := ask(rt2, hit2, p)
				if g2.idx != got.idx || g2.params != got.params {
					observe(res, "router-order-dependent", "routes %v registered in this order: GET %s -> %s; in reverse order -> %s", pats, p, desc(got), desc(g2))
				}
			}
		}
	}
}
