// Package xapi binds tla/Api/Api.tla to the real HTTP management API: TLC behaviours are replayed against the real
// api.API (routes registered by the real Run, requests through net/http/httptest into the real Router) wired to the real
// default chain (blocklist ... cache) with a scripted upstream in the resolver's place.
package xapi

import (
	"bytes"
	"context"
	"encoding/json"
	"fmt"
	"net/http"
	"net/http/httptest"
	"os"
	"sort"
	"strings"
	"testing"

	"github.com/miekg/dns"
	"github.com/semihalev/sdns/api"
	"github.com/semihalev/sdns/middleware"
	"github.com/semihalev/sdns/middleware/blocklist"
	"github.com/semihalev/sdns/verifharness/pipe"
	"github.com/semihalev/sdns/verifharness/vh"
)

const token = "s3cret-Tok"

var realName = map[string]string{
	"d": "domain.vf", "s": "sub.domain.vf", "w": "*.evil.vf", "e": "evil.vf", "x": "x.evil.vf", "o": "other.vf", "wl": "white.vf",
}
var exArgs = []string{"d", "s", "w", "e", "x", "o", "wl"}

type Step struct {
	Op     string          `json:"op"`
	Arg    json.RawMessage `json:"arg"`
	Sp     string          `json:"sp"`
	Au     string          `json:"au"`
	Ok     bool            `json:"ok"`
	Status int             `json:"status"`
	Flag   json.RawMessage `json:"flag"`
	Bl     []string        `json:"bl"`    // model blocklist after the step
	Cache  [][]string      `json:"cache"` // model cache after the step
}

type History struct {
	ID    string `json:"id"`
	Tok   bool   `json:"tok"`
	Steps []Step `json:"steps"`
}

type Input struct {
	Histories []History `json:"histories"`
	Probes    bool      `json:"probes"`
	Strict    bool      `json:"strict"`
	Router    []RSet    `json:"router"`
}

func spell(n, sp string) string {
	r := realName[n]
	switch sp {
	case "dot":
		return r + "."
	case "upper":
		return strings.ToUpper(r)
	}
	return r
}

func spellType(t, sp string) string {
	switch sp {
	case "dot":
		return strings.ToLower(t)
	case "upper":
		if len(t) > 1 {
			return t[:1] + strings.ToLower(t[1:])
		}
	}
	return t
}

// the documented matching rule (BlockList doc comment), on abstract names
func blockedDoc(b map[string]bool, n string) bool {
	switch n {
	case "d":
		return b["d"]
	case "s":
		return b["s"] || b["d"]
	case "x", "w":
		return b["w"]
	case "o":
		return b["o"]
	}
	return false
}

type env struct {
	t       *testing.T
	tail    *pipe.Tail
	srv     interface{}
	ask     func(q *dns.Msg) *dns.Msg
	h       http.Handler
	bl      *blocklist.BlockList
	release func()
	cancel  context.CancelFunc
}

func newEnv(t *testing.T, tok bool) *env {
	cfg := pipe.BaseConfig()
	cfg.Nullroute = "0.0.0.0"
	cfg.Nullroutev6 = "::0"
	dir, err := os.MkdirTemp(vh.Scratch(t), "bl")
	if err != nil {
		t.Fatal(err)
	}
	cfg.BlockListDir = dir
	cfg.Directory = dir
	cfg.Whitelist = []string{realName["wl"]}
	cfg.API = "127.0.0.1:0"
	if tok {
		cfg.BearerToken = token
	}
	tail := &pipe.Tail{}
	tail.Respond = func(_ context.Context, _ *middleware.Chain, req *dns.Msg) *dns.Msg {
		m := new(dns.Msg)
		m.SetReply(req)
		m.RecursionAvailable = true
		q := req.Question[0]
		switch q.Qtype {
		case dns.TypeA:
			rr, _ := dns.NewRR(fmt.Sprintf("%s 3600 IN A 192.0.2.1", q.Name))
			m.Answer = append(m.Answer, rr)
		case dns.TypeMX:
			rr, _ := dns.NewRR(fmt.Sprintf("%s 3600 IN MX 10 mail.up.vf.", q.Name))
			m.Answer = append(m.Answer, rr)
		}
		return m
	}
	s, release := pipe.NewServer(cfg, tail, "resolver")
	e := &env{t: t, tail: tail, release: release}
	e.ask = func(q *dns.Msg) *dns.Msg { return pipe.Ask(s, q, "udp", "192.0.2.77") }
	b, _ := middleware.Get("blocklist").(*blocklist.BlockList)
	if b == nil {
		release()
		t.Fatal("no blocklist middleware in the chain")
	}
	e.bl = b
	a := api.New(cfg)
	ctx, cancel := context.WithCancel(context.Background())
	a.Run(ctx) // the real route registration (and a listener on an ephemeral loopback port nobody uses)
	e.cancel = cancel
	e.h = a.VerifHandler()
	return e
}

func (e *env) close() {
	e.cancel()
	e.release()
}

func (e *env) do(method, path, au string, body []byte) (int, map[string]any, string) {
	var rd *bytes.Reader
	if body != nil {
		rd = bytes.NewReader(body)
	} else {
		rd = bytes.NewReader(nil)
	}
	req := httptest.NewRequest(method, "http://api.vf"+path, rd)
	switch au {
	case "good":
		req.Header.Set("Authorization", "Bearer "+token)
	case "bad":
		req.Header.Set("Authorization", "Bearer "+token+"x")
	case "malformed":
		req.Header.Set("Authorization", "Bearer")
	case "basic":
		req.Header.Set("Authorization", "Basic "+token)
	}
	w := httptest.NewRecorder()
	e.h.ServeHTTP(w, req)
	raw := w.Body.String()
	var m map[string]any
	_ = json.Unmarshal(w.Body.Bytes(), &m)
	return w.Code, m, raw
}

// projection of the real blocklist through its own public methods (no side effect)
func (e *env) project() string {
	var sb strings.Builder
	for _, n := range exArgs {
		for _, sp := range []string{"plain", "dot"} {
			if e.bl.Exists(spell(n, sp)) {
				sb.WriteString("1")
			} else {
				sb.WriteString("0")
			}
		}
	}
	return sb.String()
}

func projectDoc(b map[string]bool) string {
	var sb strings.Builder
	for _, n := range exArgs {
		if blockedDoc(b, n) {
			sb.WriteString("11")
		} else {
			sb.WriteString("00")
		}
	}
	return sb.String()
}

func mixCase(s string) string {
	b := []byte(s)
	for i := range b {
		if i%2 == 0 && b[i] >= 'a' && b[i] <= 'z' {
			b[i] -= 32
		}
	}
	return string(b)
}

// query sends one DNS question through the chain: "blocked" | "cache" | "upstream" | "other:<why>"
func (e *env) query(n, typ, sp string) string {
	name := dns.Fqdn(realName[n])
	if sp == "upper" {
		name = mixCase(name)
	}
	qt := dns.StringToType[typ]
	q := new(dns.Msg)
	q.SetQuestion(name, qt)
	q.RecursionDesired = true
	before := e.tail.NCalls()
	r := e.ask(q)
	calls := e.tail.NCalls() - before
	if r == nil {
		return "other:no reply"
	}
	if calls > 0 {
		return "upstream"
	}
	if r.Rcode != dns.RcodeSuccess {
		return "other:rcode " + dns.RcodeToString[r.Rcode]
	}
	switch qt {
	case dns.TypeA:
		if len(r.Answer) == 1 {
			if a, ok := r.Answer[0].(*dns.A); ok {
				if a.A.String() == "0.0.0.0" {
					return "blocked"
				}
				if a.A.String() == "192.0.2.1" {
					return "cache"
				}
			}
		}
	case dns.TypeMX:
		if len(r.Answer) == 0 && len(r.Ns) == 1 {
			if _, ok := r.Ns[0].(*dns.SOA); ok {
				return "blocked"
			}
		}
		if len(r.Answer) == 1 {
			if _, ok := r.Answer[0].(*dns.MX); ok {
				return "cache"
			}
		}
	}
	return "other:" + strings.ReplaceAll(r.String(), "\n", " | ")
}

func setOf(l []string) map[string]bool {
	m := map[string]bool{}
	for _, k := range l {
		m[k] = true
	}
	return m
}

func pairKey(p []string) string { return p[0] + "/" + p[1] }

func boolOf(m map[string]any, k string) (bool, bool) {
	v, ok := m[k]
	if !ok {
		return false, false
	}
	b, ok := v.(bool)
	return b, ok
}

func numOf(m map[string]any, k string) int {
	if f, ok := m[k].(float64); ok {
		return int(f)
	}
	return -1
}

var softSeen = map[string]bool{}

func TestXApiNothing(t *testing.T) {}

func TestXApi(t *testing.T) {
	var in Input
	vh.Input(t, &in)
	res := vh.NewResult()
	defer res.Write(t)
	for i := range in.Histories {
		replay(t, res, &in, &in.Histories[i])
	}
	if in.Probes {
		probes(t, res)
	}
	routerCases(t, res, in.Router)
	writeObservations()
}

func replay(t *testing.T, res *vh.Result, in *Input, h *History) {
	e := newEnv(t, h.Tok)
	defer e.close()
	res.Count("histories", 1)
	preBl := map[string]bool{}
	preCache := map[string]bool{}
	purgedSinceFill := map[string]bool{} // pair -> an accepted purge of exactly this pair since it was filled
	otherPurge := map[string]bool{}      // pair -> an accepted purge of another pair since it was filled
	prevProj := e.project()
	cut := func(i int) *History {
		c := *h
		c.Steps = append([]Step(nil), h.Steps[:i+1]...)
		return &c
	}
	for i, st := range h.Steps {
		failed := false
		viol := func(class, format string, a ...any) {
			failed = true
			what := fmt.Sprintf("api/%s: history %s step %d (%s %s sp=%s auth=%s, token configured=%v): ", class, h.ID, i+1, st.Op, string(st.Arg), st.Sp, st.Au, h.Tok) +
				fmt.Sprintf(format, a...)
			res.Violate("api/"+class, what, map[string]any{"driver": "replay", "history": cut(i)})
		}
		// a wrong success / added field leaves the documented effect intact: reported once per class, the history goes on
		soft := func(class, format string, a ...any) {
			res.Count("soft_"+class, 1)
			if softSeen[class] {
				return
			}
			softSeen[class] = true
			viol(class, format, a...)
			failed = false
		}
		res.Count("steps", 1)
		res.Count("steps_"+st.Op, 1)
		postBl := setOf(st.Bl)
		postCache := map[string]bool{}
		for _, p := range st.Cache {
			postCache[pairKey(p)] = true
		}
		var key string
		var pair []string
		var keys []string
		switch st.Op {
		case "set", "remove", "get", "exists", "purgebad", "emptybatch", "metrics":
			_ = json.Unmarshal(st.Arg, &key)
		case "purge", "query":
			_ = json.Unmarshal(st.Arg, &pair)
		case "setbatch", "removebatch":
			_ = json.Unmarshal(st.Arg, &keys)
		}
		var flagB bool
		var flagS string
		var flagN []int
		_ = json.Unmarshal(st.Flag, &flagB)
		_ = json.Unmarshal(st.Flag, &flagS)
		_ = json.Unmarshal(st.Flag, &flagN)

		if st.Op == "query" {
			out := e.query(pair[0], pair[1], st.Sp)
			pk := pairKey(pair)
			res.Case(fmt.Sprintf("query/%s/%s/%s/%v", pk, st.Sp, out, blockedDoc(preBl, pair[0])))
			res.Count("query_"+strings.SplitN(out, ":", 2)[0], 1)
			wantBlocked := blockedDoc(preBl, pair[0])
			switch {
			case strings.HasPrefix(out, "other:"):
				res.DriftNote("history %s step %d: query %s -> %s", h.ID, i+1, pk, out)
			case wantBlocked && out != "blocked":
				viol("query-not-blocked", "%s %s is covered by the blocklist %v (exists says %v) but the DNS query was answered from %s",
					realName[pair[0]], pair[1], keysOf(preBl), e.bl.Exists(realName[pair[0]]), out)
			case !wantBlocked && out == "blocked":
				viol("query-blocked", "%s %s is not covered by the blocklist %v but the DNS query was blocked", realName[pair[0]], pair[1], keysOf(preBl))
			case !wantBlocked && out == "cache" && !preCache[pk]:
				if purgedSinceFill[pk] {
					viol("purge-kept", "the cached answer for %s %s was purged (200 success:true) but the next query did not go upstream", realName[pair[0]], pair[1])
				} else {
					res.DriftNote("history %s step %d: query %s answered from the cache, the model holds no entry", h.ID, i+1, pk)
				}
			case !wantBlocked && out == "cache" && preCache[pk] && otherPurge[pk]:
				res.Count("survived_other_purge", 1)
			case !wantBlocked && out == "upstream" && preCache[pk]:
				if otherPurge[pk] {
					viol("purge-overreach", "the cached answer for %s %s went away with a purge of another question (the purge drops the answer for one question)", realName[pair[0]], pair[1])
				} else {
					res.DriftNote("history %s step %d: query %s went upstream, the model holds a cached entry", h.ID, i+1, pk)
				}
			}
			if out == flagS {
				res.Count("outcome_equals_model", 1)
			} else {
				res.Count("outcome_differs_from_model", 1)
			}
			if out == "upstream" {
				if purgedSinceFill[pk] {
					res.Count("purged_then_upstream", 1)
				}
				purgedSinceFill[pk], otherPurge[pk] = false, false
			}
		} else {
			method, path := "GET", ""
			var body []byte
			switch st.Op {
			case "set", "remove", "get", "exists":
				path = "/api/v1/block/" + st.Op + "/" + spell(key, st.Sp)
			case "setbatch", "removebatch":
				method = "POST"
				path = "/api/v1/block/" + strings.TrimSuffix(st.Op, "batch") + "/batch"
				var sk []string
				for j, k := range keys {
					sk = append(sk, spell(k, []string{"plain", "dot", "upper"}[(i+j)%3]))
				}
				body, _ = json.Marshal(map[string]any{"keys": sk})
			case "emptybatch":
				method = "POST"
				path = "/api/v1/block/" + key + "/batch"
				body = []byte([]string{`{"keys":[]}`, `{}`}[i%2])
			case "purge":
				path = "/api/v1/purge/" + spell(pair[0], st.Sp) + "/" + spellType(pair[1], st.Sp)
			case "purgebad":
				path = "/api/v1/purge/" + spell(key, st.Sp) + "/" + spellType("FOO", st.Sp)
			case "metrics":
				path = "/metrics"
			}
			code, m, raw := e.do(method, path, st.Au, body)
			res.Case(fmt.Sprintf("%s/%s/%s/%s/%d/%s", st.Op, string(st.Arg), st.Sp, st.Au, code, raw[:min(len(raw), 40)]))
			authOK := !h.Tok || st.Au == "good"
			modelAgrees := code == st.Status
			switch {
			case !authOK:
				res.Count("unauthenticated", 1)
				if code != 401 || m["error"] != "unauthorized" {
					viol("auth-open", "a call without a valid token got %d %s, the README promises 401 {\"error\":\"unauthorized\"}", code, raw)
				}
			case code == 401:
				viol("auth-closed", "a call %s got 401 %s", map[bool]string{true: "with the configured token", false: "to an API without a token"}[h.Tok], raw)
			default:
				switch st.Op {
				case "set":
					got, ok := boolOf(m, "success")
					docFlag := !preBl[key] && key != "wl"
					if code != 200 || !ok {
						viol("set-reply", "got %d %s, want 200 {\"success\":...}", code, raw)
					} else if got != docFlag {
						shape := "fresh"
						if preBl[key] {
							shape = "duplicate"
						} else if key == "wl" {
							shape = "whitelisted"
						}
						soft("set-success/"+shape, "block/set of a %s key answered success:%v; README: \"set returns success:false when the key was already present or sits on the whitelist\" (first failing input: %s, blocklist before %v)",
							shape, got, path, keysOf(preBl))
					}
					modelAgrees = modelAgrees && got == flagB
					if key != "wl" && !e.bl.Exists(realName[key]) {
						viol("set-exists", "after %s the blocklist does not cover %s", path, realName[key])
					}
				case "remove":
					got, ok := boolOf(m, "success")
					if code != 200 || !ok {
						viol("remove-reply", "got %d %s, want 200 {\"success\":...}", code, raw)
					} else if got != preBl[key] {
						viol("remove-success", "block/remove answered success:%v for a key that was %s (blocklist before %v)", got,
							map[bool]string{true: "present", false: "absent"}[preBl[key]], keysOf(preBl))
					}
					modelAgrees = modelAgrees && got == flagB
				case "exists":
					got, ok := boolOf(m, "exists")
					if code != 200 || !ok {
						viol("exists-reply", "got %d %s, want 200 {\"exists\":...}", code, raw)
					} else if got != blockedDoc(preBl, key) {
						viol("exists", "block/exists/%s answered %v, the blocklist %v %s it", spell(key, st.Sp), got, keysOf(preBl),
							map[bool]string{true: "covers", false: "does not cover"}[blockedDoc(preBl, key)])
					}
					modelAgrees = modelAgrees && got == flagB
				case "get":
					want := 404
					if preBl[key] {
						want = 200
					}
					if key == "w" {
						if code != want {
							observe(res, "get-wildcard", "block/get/%s answers %d %s although block/set of that key succeeded and block/exists says true (Get looks at the exact-name map only)", spell(key, st.Sp), code, raw)
							if in.Strict {
								viol("get-wildcard", "block/get of the wildcard entry answered %d %s", code, raw)
							}
						}
					} else if code != want {
						viol("get", "block/get/%s answered %d %s, want %d (blocklist %v)", spell(key, st.Sp), code, raw, want, keysOf(preBl))
					} else if code == 200 {
						if got, ok := boolOf(m, "success"); !ok || !got {
							viol("get-reply", "200 with body %s, want {\"success\":true}", raw)
						}
					} else if m["error"] != spell(key, st.Sp)+" not found" {
						viol("get-reply", "404 with body %s, want {\"error\":\"%s not found\"}", raw, spell(key, st.Sp))
					}
				case "setbatch", "removebatch":
					n2, n3 := "added", "skipped"
					want := 0
					for _, k := range keys {
						if st.Op == "setbatch" && k != "wl" && !preBl[k] {
							want++
						}
						if st.Op == "removebatch" && preBl[k] {
							want++
						}
					}
					if st.Op == "removebatch" {
						n2, n3 = "removed", "missing"
					}
					rq, a2, a3 := numOf(m, "requested"), numOf(m, n2), numOf(m, n3)
					if code != 200 || rq != len(keys) || a2 < 0 || a3 < 0 || a2+a3 != rq {
						viol("batch-reply", "got %d %s, want 200 with requested=%d = %s + %s", code, raw, len(keys), n2, n3)
					} else if a2 != want {
						if st.Op == "setbatch" {
							soft("batch-added/duplicate", "set/batch answered %s for keys %v with the blocklist %v before; README: \"added excludes duplicates and whitelisted keys\" (want added=%d)",
								raw, realKeys(keys), keysOf(preBl), want)
						} else {
							viol("batch-removed", "remove/batch answered %s for keys %v with the blocklist %v before (want removed=%d)", raw, realKeys(keys), keysOf(preBl), want)
						}
					}
					modelAgrees = modelAgrees && len(flagN) == 3 && a2 == flagN[1]
				case "emptybatch":
					if code != 400 || m["error"] != "keys is required and must be non-empty" {
						viol("batch-empty", "an empty keys field got %d %s", code, raw)
					}
				case "purge":
					got, ok := boolOf(m, "success")
					if code != 200 || !ok || !got {
						viol("purge-reply", "got %d %s, want 200 {\"success\":true}", code, raw)
					}
					pk := pairKey(pair)
					for k := range preCache {
						if k == pk {
							purgedSinceFill[k] = true
						} else {
							otherPurge[k] = true
						}
					}
				case "purgebad":
					if code != 400 || m["error"] != "unknown qtype: FOO" {
						viol("purge-badtype", "got %d %s, want 400 {\"error\":\"unknown qtype: FOO\"}", code, raw)
					}
				case "metrics":
					if code != 200 || !strings.Contains(raw, "dns_blocklist_entries") {
						viol("metrics", "got %d, %d bytes without dns_blocklist_entries", code, len(raw))
					}
				}
			}
			if modelAgrees {
				res.Count("outcome_equals_model", 1)
			} else {
				res.Count("outcome_differs_from_model", 1)
				res.DriftNote("history %s step %d %s %s: model %d %s, code %d %s", h.ID, i+1, st.Op, string(st.Arg), st.Status, string(st.Flag), code, raw)
			}
			// the documented effect on the blocklist, projected through the real middleware
			proj := e.project()
			if want := projectDoc(postBl); proj != want && !failed {
				if !authOK {
					viol("auth-mutates", "a rejected call changed the blocklist: coverage of %v was %s, now %s", exArgs, prevProj, proj)
				} else {
					viol("effect/"+st.Op, "after the call the blocklist covers %s of %v, documented effect %s (entries %v)", proj, exArgs, want, keysOf(postBl))
				}
			} else if proj == want {
				res.Count("projections_equal", 1)
			}
			prevProj = proj
		}
		if failed {
			res.Count("histories_cut_at_violation", 1)
			return
		}
		preBl, preCache = postBl, postCache
	}
	// closing sweep: every name of the universe asked over DNS (destroys the cache state, hence last)
	for _, n := range []string{"d", "s", "e", "x", "o", "wl"} {
		out := e.query(n, "A", "plain")
		res.Count("sweep_queries", 1)
		want := blockedDoc(preBl, n)
		res.Case(fmt.Sprintf("sweep/%s/%v/%s", n, want, out))
		if want != (out == "blocked") && !strings.HasPrefix(out, "other:") {
			res.Violate("api/sweep", fmt.Sprintf("api/sweep: history %s: with the entries %v the DNS query for %s A was answered %q (blocked expected: %v)",
				h.ID, keysOf(preBl), realName[n], out, want), map[string]any{"driver": "replay", "history": h})
			return
		}
	}
}

func keysOf(b map[string]bool) []string {
	var l []string
	for k, v := range b {
		if v {
			l = append(l, realName[k])
		}
	}
	sort.Strings(l)
	return l
}

func realKeys(l []string) []string {
	var o []string
	for _, k := range l {
		o = append(o, realName[k])
	}
	return o
}

// probes: the README's explicit statements outside the model
func probes(t *testing.T, res *vh.Result) {
	e := newEnv(t, false)
	defer e.close()
	type probe struct {
		name, method, path, body string
		want                     int
		wantErr                  string
	}
	for _, p := range []probe{
		{"unknown-path", "GET", "/api/v1/nothing", "", 404, ""},
		{"batch-bad-json", "POST", "/api/v1/block/set/batch", `{"keys":`, 400, ""},
		{"batch-unknown-field", "POST", "/api/v1/block/set/batch", `{"keys":["a.vf"],"extra":1}`, 400, ""},
		{"batch-missing-keys", "POST", "/api/v1/block/remove/batch", `{}`, 400, "keys is required and must be non-empty"},
		{"purge-type-lower", "GET", "/api/v1/purge/example.vf/mx", "", 200, ""},
	} {
		var body []byte
		if p.body != "" {
			body = []byte(p.body)
		}
		code, m, raw := e.do(p.method, p.path, "none", body)
		res.Case("probe/" + p.name)
		res.Count("probes", 1)
		if code != p.want || (p.wantErr != "" && m["error"] != p.wantErr) {
			res.Violate("api/probe/"+p.name, fmt.Sprintf("api/probe/%s: %s %s %s -> %d %s, the README promises %d %s", p.name, p.method, p.path, p.body, code, raw, p.want, p.wantErr),
				map[string]any{"driver": "probes"})
		}
	}
	// a rejected batch leaves the list alone
	if e.bl.Exists("a.vf") {
		res.Violate("api/probe/batch-rejected-mutates", "api/probe: a 400 batch added a.vf", map[string]any{"driver": "probes"})
	}
}
