package c13

// "Shed load never becomes shared state", probed through the REAL resolver
// handler: every in-flight resolution slot is occupied (overlay shim), so the
// resolver sheds the lookup before any upstream work; the SERVFAIL it hands to
// the cache must not be recorded in the RFC 9520 failure cache, and an
// independent request for the same question right after the overload must
// reach the resolver again.

import (
	"context"
	"fmt"
	"strings"
	"testing"
	"time"

	"github.com/miekg/dns"
	"github.com/semihalev/sdns/config"
	"github.com/semihalev/sdns/internal/mock"
	"github.com/semihalev/sdns/middleware"
	"github.com/semihalev/sdns/middleware/resolver"
	"github.com/semihalev/sdns/verifharness/vh"
)

func TestResolverShed(t *testing.T) {
	var in mInput
	vh.Input(t, &in)
	res := vh.NewResult()
	defer res.Write(t)
	clock := newClock()
	sh := getShape(0)
	c := newCache(in.Cfg, clock)
	defer c.Stop()
	rcfg := &config.Config{CacheSize: 1024, Expire: 300, RootServers: []string{"192.0.2.1:53"}, DNSSEC: "off", Maxdepth: 30}
	rcfg.Timeout.Duration = time.Second
	rcfg.QueryTimeout.Duration = 3 * time.Second
	rcfg.Directory = vh.Scratch(t)
	h := resolver.New(rcfg)
	defer h.Stop()
	h.SetStore(c.Store())

	ask := func(down middleware.Handler, name string) (reply, *mock.Writer) {
		req := new(dns.Msg)
		req.SetQuestion(name, dns.TypeA)
		req.RecursionDesired = true
		req.SetEdns0(1232, false)
		w := mock.NewWriter("udp", "203.0.113.77:40000")
		ch := middleware.NewChain([]middleware.Handler{ednsLayer, c, down})
		ch.Reset(w, req)
		ch.Next(context.Background())
		return readReply(w), w
	}

	name := sh.names[3]
	release := h.VerifC13FillResolutionSlots()
	first, _ := ask(h, name)
	release()
	res.Count("steps", 1)
	if !first.written || first.rcode != dns.RcodeServerFailure || !strings.Contains(first.text, "capacity") {
		// the overload path could not be provoked in this tree: nothing to judge
		res.Skip("resolver did not shed the lookup at its capacity ceiling: rcode %d ede %d %q", first.rcode, first.ede, first.text)
		return
	}
	res.Case("shed/resolver-capacity")
	res.Sample(map[string]any{"probe": "resolver capacity shed", "reply": fmt.Sprintf("SERVFAIL ede=%d %q", first.ede, first.text)})
	rs := snapshot(c.VerifC13Failure(), sh)
	calls := 0
	second, _ := ask(middleware.HandlerFunc(func(_ context.Context, ch *middleware.Chain) {
		calls++
		ch.CancelWithRcode(dns.RcodeServerFailure, false)
	}), name)
	res.Count("steps", 1)
	if len(rs.q)+len(rs.z) > 0 || second.cachedFailure() {
		q, z := rs.traceRows(clock.Now(), in.Cfg.Max)
		violate(res, "LocalNeverShared/shed-resolver-capacity",
			fmt.Sprintf("the resolver shed a lookup for %s A at its in-flight capacity ceiling (reply SERVFAIL, EDE %d %q); "+
				"the cache recorded it as shared RFC 9520 failure state %v %v, and an independent request for the same question "+
				"after the overload was answered from the failure cache (EDE 13 = %v, downstream calls = %d)",
				name, first.ede, first.text, q, z, second.cachedFailure(), calls),
			map[string]any{"driver": "TestResolverShed", "question": name + " IN A", "first": first.text, "retained": []any{q, z}})
	}
}
