package c13

// Request-level binding of FailureCache.tla: behaviours of the model's
// Request(q, outcome) wrapper (and, for the kill-switch / store configs, the
// Store-level API calls) are replayed through the real cache.New + ServeDNS
// with a scripted downstream handler that fails in every way the model names:
// useful answer, shared SERVFAIL, all-servers-failed zone signal through the
// resolver's real admission filter, and every request-local cause (real
// ledger in enforce mode, real attempt guard, derived / request deadlines,
// cancelled contexts, the probe-limit mark, best-effort branches).
// Downstream invocations are counted, requests are message-born and
// wire-born, and the clock is the failure cache's injected Now.

import (
	"context"
	"errors"
	"fmt"
	"math/rand"
	"net"
	"strings"
	"sync"
	"testing"
	"time"

	"github.com/miekg/dns"
	"github.com/semihalev/sdns/config"
	"github.com/semihalev/sdns/internal/dnsutil"
	"github.com/semihalev/sdns/internal/mock"
	"github.com/semihalev/sdns/middleware"
	mcache "github.com/semihalev/sdns/middleware/cache"
	"github.com/semihalev/sdns/middleware/edns"
	"github.com/semihalev/sdns/middleware/resolver"
	"github.com/semihalev/sdns/verifharness/vh"
)

const probeLimitText = "Failure probe retry limit exceeded"

type reqRun struct {
	in      *mInput
	res     *vh.Result
	tr      *traceWriter
	sh      *shape
	rng     *rand.Rand
	clock   *vclock
	c       *mcache.Cache
	fc      *mcache.FailureCache
	store   *mcache.Store
	o       *oracle
	hist    []string
	id      string
	planted realState
	boKnown map[string]bool
	driver  string
	// alias completion (outcome "aliasfail"): helper alias targets handed out so far, answered
	// by helperDown when the cache's own CNAME chase asks for them through the Queryer
	hmu     sync.Mutex
	helpers map[string]helperInfo
	hseq    int
}

// helperInfo is what the scripted downstream answers for one helper alias target: an alias
// straight back to the owner it was handed out for (spelled exactly as in that request).
type helperInfo struct {
	owner  string
	qtype  uint16
	qclass uint16
}

// chaseQueryer is the middleware.Queryer the cache's alias completion uses: the same cache
// over the scripted helper downstream, entered with an internal writer (as sdns.go wires the
// real one over the real chain).
type chaseQueryer struct{ r *reqRun }

func (q *chaseQueryer) Query(ctx context.Context, req *dns.Msg) (*dns.Msg, error) {
	ctx, _ = middleware.EnsureResolutionAttemptGuard(ctx)
	w := mock.NewWriter("tcp", "127.0.0.255:0") // Internal() == true, like middleware.BufferWriter
	ch := middleware.NewChain([]middleware.Handler{q.r.c, middleware.HandlerFunc(q.r.helperDown)})
	ch.Reset(w, req)
	ch.Next(ctx)
	q.r.res.Count("alias_subqueries", 1)
	if !w.Written() {
		return nil, middleware.ErrNoResponse
	}
	return w.Msg(), nil
}

// helperDown is the downstream of the chase sub-pipeline. A helper target answers with an
// alias back to its owner plus a record of the asked type for the owner, so the sub-query's own
// write-back sees a complete answer and does not start a chase of its own; the outer chase
// then finds that the chain has returned to the name it started from.
func (r *reqRun) helperDown(ctx context.Context, ch *middleware.Chain) {
	req := ch.Request.Msg()
	q := req.Question[0]
	r.hmu.Lock()
	h, ok := r.helpers[strings.ToLower(q.Name)]
	r.hmu.Unlock()
	if !ok {
		// nothing but helper targets may ever be chased in this harness
		r.res.Skip("alias chase asked the sub-pipeline for %s type %d, which is not a helper target", q.Name, q.Qtype)
		ch.CancelWithRcode(dns.RcodeServerFailure, false)
		return
	}
	m := new(dns.Msg)
	m.SetReply(req)
	m.Answer = []dns.RR{&dns.CNAME{Hdr: dns.RR_Header{Name: q.Name, Rrtype: dns.TypeCNAME, Class: q.Qclass, Ttl: 300}, Target: h.owner}}
	if rr := recordOf(h.owner, q.Qtype, q.Qclass); rr != nil {
		m.Answer = append(m.Answer, rr)
	}
	_ = ch.Writer.WriteMsg(m)
	ch.Cancel()
}

func recordOf(name string, t, class uint16) dns.RR {
	hdr := dns.RR_Header{Name: name, Rrtype: t, Class: class, Ttl: 300}
	switch t {
	case dns.TypeA:
		return &dns.A{Hdr: hdr, A: net.IPv4(192, 0, 2, 81).To4()}
	case dns.TypeAAAA:
		return &dns.AAAA{Hdr: hdr, AAAA: net.ParseIP("2001:db8::81")}
	case dns.TypeMX:
		return &dns.MX{Hdr: hdr, Preference: 10, Mx: "mx.example."}
	case dns.TypeTXT:
		return &dns.TXT{Hdr: hdr, Txt: []string{"v=alias"}}
	}
	return nil
}

// aliasReply is the downstream's answer of outcome "aliasfail": NOERROR with a CNAME whose
// completion by the cache must fail.  Variant 0: the alias names its own owner (no sub-query).
// Variant 1: the alias names a fresh helper target outside the modelled name tree; the cache
// asks for it through the Queryer and the helper's answer leads back to the owner.
func (r *reqRun) aliasReply(req *dns.Msg, variant int) *dns.Msg {
	q := req.Question[0]
	m := new(dns.Msg)
	m.SetReply(req)
	target := q.Name
	if variant == 1 && recordOf(q.Name, q.Qtype, q.Qclass) != nil {
		r.hmu.Lock()
		r.hseq++
		target = fmt.Sprintf("t%d.c13-alias-helper.", r.hseq)
		r.helpers[target] = helperInfo{owner: q.Name, qtype: q.Qtype, qclass: q.Qclass}
		r.hmu.Unlock()
		r.res.Count("aliasfail_via_queryer", 1)
	} else {
		r.res.Count("aliasfail_self", 1)
	}
	m.Answer = []dns.RR{&dns.CNAME{Hdr: dns.RR_Header{Name: q.Name, Rrtype: dns.TypeCNAME, Class: q.Qclass, Ttl: 300}, Target: target}}
	return m
}

// sharedFailure: the downstream outcomes that describe shared resolution state.
func sharedFailure(o string) bool { return o == "servfail" || o == "authfail" || o == "aliasfail" }

// the EDNS layer in front of the cache (it owns the OPT / EDE of wire-served replies)
var ednsLayer *edns.EDNS

func newCacheWith(minTTL, maxTTL time.Duration, clock *vclock) *mcache.Cache {
	return newCache(mCfg{Enabled: true, minD: minTTL, maxD: maxTTL}, clock)
}

func newCache(cfg mCfg, clock *vclock) *mcache.Cache {
	c := &config.Config{CacheSize: 1024, Expire: 300}
	c.RecursionFirewall.FailureCacheMinTTL.Duration = time.Duration(cfg.Min) * time.Second
	c.RecursionFirewall.FailureCacheMaxTTL.Duration = time.Duration(cfg.Max) * time.Second
	if cfg.maxD > 0 {
		c.RecursionFirewall.FailureCacheMinTTL.Duration = cfg.minD
		c.RecursionFirewall.FailureCacheMaxTTL.Duration = cfg.maxD
	}
	c.RecursionFirewall.FailureCacheSize = 4096
	c.ECS = config.ECSConfig{Enabled: true, ForwardV4Max: 32, ForwardV6Max: 64, MinScopeV4: 24, MinScopeV6: 56}
	if !cfg.Enabled {
		off := false
		c.RFC9520 = &off
	}
	mc := mcache.New(c)
	mc.VerifC13SetFailureNow(clock.Now)
	if ednsLayer == nil {
		ednsLayer = edns.New(c)
	}
	return mc
}

func newReqRun(in *mInput, res *vh.Result, tr *traceWriter, shapeIdx int, rng *rand.Rand, id, driver string) *reqRun {
	r := &reqRun{in: in, res: res, tr: tr, sh: getShape(shapeIdx), rng: rng, clock: newClock(), id: id, driver: driver,
		boKnown: map[string]bool{}, helpers: map[string]helperInfo{}}
	r.c = newCache(in.Cfg, r.clock)
	r.c.SetQueryer(&chaseQueryer{r: r})
	r.fc = r.c.VerifC13Failure()
	r.store, _ = r.c.Store().(*mcache.Store)
	r.o = newOracle(in.Cfg, r.clock)
	r.planted = realState{q: map[qkey]realEnt{}, z: map[zkey]realEnt{}}
	tr.emit(map[string]any{"op": "Reset", "shape": r.sh.name, "path": id})
	return r
}

func (r *reqRun) replayObj() map[string]any {
	return map[string]any{"driver": r.driver, "path": r.id, "shape": r.sh.name, "cfg": r.in.Cfg,
		"steps": append([]string(nil), r.hist...)}
}

func (r *reqRun) bad(pred, format string, a ...any) {
	violate(r.res, pred, fmt.Sprintf("[%s shape=%s] ", r.id, r.sh.name)+fmt.Sprintf(format, a...)+
		" after "+strings.Join(histTail(r.hist, 6), " "), r.replayObj())
}

func (r *reqRun) drift(format string, a ...any) {
	r.res.DriftNote("[%s shape=%s] %s", r.id, r.sh.name, fmt.Sprintf(format, a...))
}

// ---------------------------------------------------------------- building requests and replies

func (r *reqRun) buildReq(k qkey) *dns.Msg {
	req := new(dns.Msg)
	req.SetQuestion(r.sh.realName(k.n, r.rng), r.sh.types[k.t])
	req.Question[0].Qclass = r.sh.classes[k.c]
	req.RecursionDesired = true
	req.CheckingDisabled = k.cd == 1
	req.SetEdns0(1232, r.rng.Intn(2) == 0)
	if k.s != 0 {
		p := r.sh.scopes[k.s]
		fam := uint16(1)
		ip := net.IP(p.Addr().AsSlice())
		if p.Addr().Is6() {
			fam = 2
		}
		opt := req.IsEdns0()
		opt.Option = append(opt.Option, &dns.EDNS0_SUBNET{Code: dns.EDNS0SUBNET, Family: fam,
			SourceNetmask: uint8(p.Bits()), Address: ip})
	}
	return req
}

func usefulReply(req *dns.Msg, rng *rand.Rand) *dns.Msg {
	m := new(dns.Msg)
	m.SetReply(req)
	q := req.Question[0]
	hdr := dns.RR_Header{Name: q.Name, Rrtype: q.Qtype, Class: q.Qclass, Ttl: 300}
	nodata := rng.Intn(3) == 0
	switch {
	case nodata:
	case q.Qtype == dns.TypeA:
		m.Answer = []dns.RR{&dns.A{Hdr: hdr, A: net.IPv4(192, 0, 2, 80).To4()}}
	case q.Qtype == dns.TypeAAAA:
		m.Answer = []dns.RR{&dns.AAAA{Hdr: hdr, AAAA: net.ParseIP("2001:db8::80")}}
	case q.Qtype == dns.TypeMX:
		m.Answer = []dns.RR{&dns.MX{Hdr: hdr, Preference: 10, Mx: "mx.example."}}
	case q.Qtype == dns.TypeTXT:
		m.Answer = []dns.RR{&dns.TXT{Hdr: hdr, Txt: []string{"v=ok"}}}
	default:
		nodata = true
	}
	if nodata {
		m.Ns = []dns.RR{&dns.SOA{Hdr: dns.RR_Header{Name: q.Name, Rrtype: dns.TypeSOA, Class: q.Qclass, Ttl: 300},
			Ns: "ns.invalid.", Mbox: "h.invalid.", Serial: 1, Refresh: 1, Retry: 1, Expire: 1, Minttl: 60}}
	}
	return m
}

func servfailReply(req *dns.Msg, code uint16, text string, rng *rand.Rand) *dns.Msg {
	m := new(dns.Msg)
	m.SetRcode(req, dns.RcodeServerFailure)
	if rng.Intn(2) == 0 {
		m.AuthenticatedData = true
	}
	if req.IsEdns0() != nil && rng.Intn(3) != 0 {
		m.SetEdns0(1232, true)
		dnsutil.SetEDE(m, code, text)
	}
	return m
}

// outcome is what the scripted downstream does with one request.
type outcome struct {
	O string
	Z int // zone with the all-servers-failed signal, -1 = none
}

type reqCtl struct {
	cancel  context.CancelFunc
	ledger  *middleware.RecursionWorkLedger
	variant int
	// msgOnly: the cause lives on the caller's context, which only a message-born
	// request keeps (a wire-born request is detached onto the chain's own carrier).
	msgOnly bool
}

var budgetPolicy = middleware.RecursionWorkPolicy{Mode: middleware.RecursionWorkEnforce, MaxOutboundQueries: 1, MaxInternalQueries: 32}

// prepareCtx builds the request context an outcome needs before ServeDNS runs.
func prepareCtx(o outcome, rng *rand.Rand) (context.Context, *reqCtl) {
	ctx := context.Background()
	ctl := &reqCtl{variant: rng.Intn(2)}
	switch o.O {
	case "budget":
		if rng.Intn(2) == 0 { // ledger installed above the cache; otherwise the downstream installs it (as the resolver does)
			ctl.ledger = middleware.NewRecursionWorkLedger(budgetPolicy)
			ctx = middleware.WithRecursionWork(ctx, ctl.ledger)
			ctl.msgOnly = true
		}
	case "bestEffort":
		ctx = middleware.WithBestEffortRecursionWork(ctx)
		ctl.msgOnly = true
	case "cancel":
		ctx, ctl.cancel = context.WithCancel(ctx)
		ctl.msgOnly = true
	case "deadline":
		if ctl.variant == 1 {
			ctx, ctl.cancel = context.WithTimeout(ctx, 15*time.Millisecond)
			ctl.msgOnly = true
		}
	}
	return ctx, ctl
}

// scripted downstream: the part of the pipeline below the cache
func (r *reqRun) serveOutcome(ctx context.Context, ch *middleware.Chain, o outcome, ctl *reqCtl) {
	req := ch.Request.Msg()
	q := req.Question[0]
	store := r.c.Store()
	zone := ""
	if o.Z >= 0 {
		zone = r.sh.realName(o.Z, r.rng)
	}
	allFailed := func(c context.Context, cause error) {
		if zone != "" {
			resolver.VerifC13RecordZoneFailure(c, store, q, zone, cause)
		}
	}
	fatal := resolver.VerifC13FatalConnectionFailed()
	var resp *dns.Msg
	switch o.O {
	case "useful":
		resp = usefulReply(req, r.rng)
	case "servfail":
		resp = servfailReply(req, dns.ExtendedErrorCodeDNSBogus, "validation failure", r.rng)
	case "aliasfail":
		resp = r.aliasReply(req, ctl.variant)
	case "authfail":
		switch r.rng.Intn(3) {
		case 0:
			allFailed(ctx, fatal)
		case 1:
			allFailed(ctx, nil) // every server answered with a failure rcode
		default:
			allFailed(ctx, resolver.VerifC13NoReachableAuth())
		}
		resp = servfailReply(req, dns.ExtendedErrorCodeNoReachableAuthority, "All authoritative servers failed", r.rng)
	case "budget":
		ledger, lctx := ctl.ledger, ctx
		if ledger == nil {
			lctx, ledger = middleware.EnsureRecursionWork(ctx, budgetPolicy)
		}
		if ledger == nil {
			r.res.Skip("no recursion-work ledger could be established for the request")
			ledger = middleware.NewRecursionWorkLedger(budgetPolicy)
		}
		_ = ledger.Debit(middleware.RecursionWorkOutboundQuery)
		err := ledger.Debit(middleware.RecursionWorkOutboundQuery)
		if !errors.Is(err, middleware.ErrRecursionWorkLimit) {
			r.res.Skip("ledger in enforce mode did not reject the second debit: %v", err)
		}
		allFailed(lctx, err)
		resp = servfailReply(req, dns.ExtendedErrorCodeOther, "work", r.rng)
		if ctl.variant == 1 {
			mctx, _ := middleware.EnsureResolutionAttemptGuard(ctx)
			middleware.MarkRequestLocalFailureResponse(mctx, resp, err)
		}
	case "attemptLimit":
		mctx, guard := middleware.EnsureResolutionAttemptGuard(ctx)
		var err error
		for i := 0; i < 4; i++ {
			err = guard.Begin(q, "192.0.2.53:53", "udp")
		}
		if !errors.Is(err, middleware.ErrResolutionAttemptLimit) {
			r.res.Skip("attempt guard did not reject the fourth attempt: %v", err)
		}
		allFailed(mctx, err)
		resp = servfailReply(req, dns.ExtendedErrorCodeNoReachableAuthority, "attempts", r.rng)
		middleware.MarkRequestLocalFailureResponse(mctx, resp, err)
	case "deadline":
		if ctl.variant == 1 {
			<-ctx.Done() // the client's own deadline passes while resolving
			allFailed(ctx, fatal)
			resp = servfailReply(req, dns.ExtendedErrorCodeNoReachableAuthority, "timeout", r.rng)
		} else {
			mctx, _ := middleware.EnsureResolutionAttemptGuard(ctx)
			dctx, cancel := context.WithDeadline(mctx, time.Time{})
			defer cancel()
			allFailed(dctx, fatal)
			resp = servfailReply(req, dns.ExtendedErrorCodeNoReachableAuthority, "timeout", r.rng)
			middleware.MarkRequestLocalFailureResponse(dctx, resp, dctx.Err())
		}
	case "cancel":
		ctl.cancel()
		allFailed(ctx, fatal)
		resp = servfailReply(req, dns.ExtendedErrorCodeNetworkError, "gone", r.rng)
	case "shed":
		mctx, _ := middleware.EnsureResolutionAttemptGuard(ctx)
		resp = servfailReply(req, dns.ExtendedErrorCodeOther, probeLimitText, r.rng)
		middleware.MarkRequestLocalFailureResponse(mctx, resp, middleware.ErrFailureProbeLimit)
	case "bestEffort":
		allFailed(ctx, fatal)
		resp = servfailReply(req, dns.ExtendedErrorCodeNetworkError, "enrichment", r.rng)
	default:
		r.res.Skip("unknown outcome %q", o.O)
		resp = servfailReply(req, 0, "", r.rng)
	}
	_ = ch.Writer.WriteMsg(resp)
	ch.Cancel()
}

type reply struct {
	written bool
	rcode   int
	ede     int // -1 none
	text    string
	wire    bool
}

func readReply(w *mock.Writer) reply {
	out := reply{ede: -1}
	m := w.Msg()
	if m == nil {
		return out
	}
	out.written = true
	out.rcode = m.Rcode
	if e := dnsutil.GetEDE(m); e != nil {
		out.ede = int(e.InfoCode)
		out.text = e.ExtraText
	}
	return out
}

func (rp reply) cachedFailure() bool {
	return rp.written && rp.rcode == dns.RcodeServerFailure && rp.ede == int(dns.ExtendedErrorCodeCachedError)
}

// serve runs one request through the real cache; returns the reply and the number of downstream calls.
func (r *reqRun) serve(k qkey, o outcome) (reply, int, string) {
	req := r.buildReq(k)
	ctx, ctl := prepareCtx(o, r.rng)
	if ctl.cancel != nil {
		defer ctl.cancel()
	}
	calls := 0
	down := middleware.HandlerFunc(func(c context.Context, ch *middleware.Chain) {
		calls++
		r.serveOutcome(c, ch, o, ctl)
	})
	w := mock.NewWriter("udp", "203.0.113.9:40000")
	ch := middleware.NewChain([]middleware.Handler{ednsLayer, r.c, down})
	born := "msg"
	if !ctl.msgOnly && r.rng.Intn(2) == 0 {
		if raw, err := req.Pack(); err == nil {
			wr := new(middleware.Request)
			if wr.ParseWire(raw, time.Now(), nil) {
				ch.ResetWire(w, wr)
				ch.AllowDirectPack()
				born = "wire"
			}
		}
	}
	if born == "msg" {
		ch.Reset(w, req)
	}
	ch.Next(ctx)
	rp := readReply(w)
	rp.wire = born == "wire"
	if o.O == "useful" {
		q := req.Question[0]
		r.c.VerifC13DropAnswer(q, req.CheckingDisabled)
	}
	return rp, calls, born
}

// ---------------------------------------------------------------- predicates over the state change of one request

type change struct {
	newQ, newZ []string
	qk         []qkey
	zk         []zkey
}

func (r *reqRun) newGenerations(before *oracle, rs realState) change {
	var ch change
	for k, e := range rs.q {
		old := before.q[k]
		if old == nil || e.ra.After(old.ra) {
			ch.qk = append(ch.qk, k)
			ch.newQ = append(ch.newQ, fmt.Sprintf("question %v (%s)", k, r.sh.names[k.n]))
		}
	}
	for k, e := range rs.z {
		old := before.z[k]
		if old == nil || e.ra.After(old.ra) {
			ch.zk = append(ch.zk, k)
			ch.newZ = append(ch.newZ, fmt.Sprintf("zone %v (%s)", k, r.sh.names[k.z]))
		}
	}
	return ch
}

func (r *reqRun) envelope(what, id string, ra time.Time, prev *oEnt) {
	now := r.clock.Now()
	rem := ra.Sub(now)
	minD := time.Duration(r.in.Cfg.Min) * time.Second
	maxD := time.Duration(r.in.Cfg.Max) * time.Second
	switch {
	case rem > maxD:
		r.bad("Envelope", "%s is suppressed for %v, configured maximum %v", what, rem, maxD)
	case prev == nil && rem != minD:
		r.bad("Envelope", "first failure of %s backs off %v, configured minimum %v", what, rem, minD)
	case prev != nil && rem < minD:
		r.bad("Envelope", "renewed failure of %s backs off %v, below the configured minimum %v", what, rem, minD)
	case prev != nil && r.boKnown[id] && rem > 2*time.Duration(prev.bo)*time.Second:
		r.bad("Envelope", "consecutive failure of %s backs off %v, more than double the previous %ds", what, rem, prev.bo)
	}
	r.boKnown[id] = true
}

// afterRequest evaluates the C13 predicates on one served request.
func (r *reqRun) afterRequest(k qkey, o outcome, rp reply, calls int, covered bool, before *oracle, rs realState) {
	local := o.O != "useful" && !sharedFailure(o.O)
	hit := rp.cachedFailure()
	desc := fmt.Sprintf("request %v (%s type %d cd=%d scope=%d, %s-born) with downstream outcome %s/zone %d",
		k, r.sh.names[k.n], r.sh.types[k.t], k.cd, k.s, map[bool]string{true: "wire", false: "message"}[rp.wire], o.O, o.Z)
	if !r.in.Cfg.Enabled {
		if hit {
			r.bad("KillSwitch", "rfc9520 is off, yet %s was answered from the failure cache", desc)
		}
		if ch := r.newGenerations(before, rs); len(ch.newQ)+len(ch.newZ) > 0 {
			r.bad("KillSwitch", "rfc9520 is off, yet %s recorded %v %v", desc, ch.newQ, ch.newZ)
		}
		return
	}
	if hit {
		if calls > 0 {
			r.bad("NoUpstreamOnHit", "%s was answered SERVFAIL/EDE 13 from the failure cache and still reached downstream %d time(s)", desc, calls)
		}
		if !covered {
			r.bad("Containment", "%s was answered SERVFAIL/EDE 13 although no recorded failure covers it (retained: %v)", desc, describe(before))
		}
		if ch := r.newGenerations(before, rs); len(ch.newQ)+len(ch.newZ) > 0 {
			r.bad("NoUpstreamOnHit", "a cache-served failure for %s changed the shared state: %v %v", desc, ch.newQ, ch.newZ)
		}
		return
	}
	if covered && calls > 0 {
		r.bad("NoUpstreamOnHit", "%s reached downstream although an active recorded failure covers it (retained: %v)", desc, describe(before))
		return
	}
	ch := r.newGenerations(before, rs)
	switch {
	case local:
		if len(ch.newQ)+len(ch.newZ) > 0 {
			r.bad("LocalNeverShared", "request-local failure (%s) became shared state: %s recorded %v %v", o.O, desc, ch.newQ, ch.newZ)
		}
	case o.O == "useful":
		if len(ch.newQ)+len(ch.newZ) > 0 {
			r.bad("Containment", "a useful answer for %s recorded failure state %v %v", desc, ch.newQ, ch.newZ)
		}
		if _, ok := rs.q[k]; ok && calls > 0 {
			r.bad("SuccessResets", "after a useful answer for %s its question failure state is still retained", desc)
		}
		for zz := range rs.z {
			if calls > 0 && zz.c == k.c && r.o.atOrAbove(zz.z, k.n) {
				r.bad("SuccessResets", "after a useful answer for %s the covering zone state %v is still retained", desc, zz)
			}
		}
	default:
		for _, x := range ch.qk {
			if x != k {
				r.bad("Containment", "%s failed, but a failure was recorded for a different question %v", desc, x)
			} else {
				r.envelope(fmt.Sprintf("question %v", x), fmt.Sprint("q", x), rs.q[x].ra, before.q[x])
			}
		}
		for _, x := range ch.zk {
			if o.O != "authfail" || x != (zkey{o.Z, k.c}) {
				r.bad("Containment", "%s recorded a failure for zone %v (%s) whose servers did not all fail", desc, x, r.sh.names[x.z])
			} else {
				r.envelope(fmt.Sprintf("zone %v", x), fmt.Sprint("z", x), rs.z[x].ra, before.z[x])
			}
		}
	}
}

func describe(o *oracle) string {
	q, z := o.project()
	return fmt.Sprintf("questions %v zones %v", q, z)
}

func (o *oracle) clone() *oracle {
	c := &oracle{cfg: o.cfg, clock: o.clock, scap: o.scap, q: map[qkey]*oEnt{}, z: map[zkey]*oEnt{}}
	for k, e := range o.q {
		x := *e
		c.q[k] = &x
	}
	for k, e := range o.z {
		x := *e
		c.z[k] = &x
	}
	return c
}

// applyOutcome advances the reference model by the downstream outcome of a request that missed.
func (o *oracle) applyOutcome(k qkey, out outcome) {
	if !o.cfg.Enabled {
		return
	}
	switch out.O {
	case "useful":
		o.resetMatching(k)
		o.resetQ(qkey{k.n, k.t, k.c, k.cd, 0}) // the answer is global: the shared-key write resets the shared audience too
	case "servfail", "aliasfail":
		o.recordQ(k, "response")
	case "authfail":
		o.recordZ(zkey{out.Z, k.c}, "authority")
		o.recordQ(k, "response")
	}
}

// ---------------------------------------------------------------- one step

func (r *reqRun) withoutPlanted(rs realState) realState {
	out := realState{q: map[qkey]realEnt{}, z: map[zkey]realEnt{}, unknown: rs.unknown}
	for k, e := range rs.q {
		if p, ok := r.planted.q[k]; ok && p.ra.Equal(e.ra) {
			continue
		}
		out.q[k] = e
	}
	for k, e := range rs.z {
		if p, ok := r.planted.z[k]; ok && p.ra.Equal(e.ra) {
			continue
		}
		out.z[k] = e
	}
	return out
}

func (r *reqRun) step(s mStep) bool {
	r.hist = append(r.hist, s.String())
	start := r.res.NViolations()
	ev := map[string]any{"op": s.Op}
	now := r.clock.Now()
	var pred, got obs
	before := r.o.clone()
	switch s.Op {
	case "Request":
		k := qk(s.K)
		out := outcome{s.O, s.Z}
		covered := r.o.covering(k)
		rp, calls, born := r.serve(k, out)
		rs := r.withoutPlanted(snapshot(r.fc, r.sh))
		r.afterRequest(k, out, rp, calls, covered, before, rs)
		hit := rp.cachedFailure()
		if covered != hit || (calls > 0) == hit {
			r.drift("%s: reply cached=%v downstream calls=%d, model hit=%v", s.String(), hit, calls, covered)
		}
		if !covered {
			r.o.applyOutcome(k, out)
		}
		resName := s.O
		if resName != "useful" && !sharedFailure(resName) {
			resName = "local"
		}
		if hit {
			resName = "hit"
		}
		if s.O == "aliasfail" && !hit && calls > 0 {
			if k.s != 0 {
				r.res.Count("aliasfail_scoped", 1)
			}
			if !(rp.written && rp.rcode == dns.RcodeServerFailure) {
				// the scripted alias was meant to fail in the cache's own completion
				r.drift("%s: alias completion did not end in SERVFAIL (written=%v rcode=%d)", s.String(), rp.written, rp.rcode)
				r.res.Count("aliasfail_not_servfail", 1)
			}
		}
		ev["k"], ev["o"], ev["z"], ev["born"], ev["down"], ev["res"] = s.K, s.O, s.Z, born, calls > 0, resName
		got = obs{hit: hit, kind: "-"}
		r.res.Count("requests_"+born, 1)
		r.res.Count("outcome_"+s.O, 1)
		if hit {
			r.res.Count("served_from_failure_cache", 1)
		}
		if !rp.written && s.O != "cancel" {
			r.drift("%s: no reply written", s.String())
		}
	case "RecordQuestion":
		k := qk(s.K)
		req := r.buildReq(k)
		r.store.RecordFailure(req, r.sh.realScope(k.s, r.rng), mcache.FailureProvenance(s.Cause), nil)
		pred, _, _ = r.o.recordQ(k, s.Cause)
		got = pred
		ev["k"], ev["cause"] = s.K, s.Cause
	case "RecordZone":
		k := zk(s.ZK)
		r.store.RecordZoneFailure(dns.Question{Name: "x." + r.sh.realName(k.z, nil), Qtype: dns.TypeA, Qclass: r.sh.classes[k.c]}, r.sh.realName(k.z, r.rng))
		pred, _, _ = r.o.recordZ(k, "authority")
		got = pred
		ev["zk"], ev["cause"] = s.ZK, "authority"
	case "Lookup", "LookupWire":
		k := qk(s.K)
		var hit mcache.FailureHit
		var ok bool
		if s.Op == "Lookup" {
			hit, ok = r.store.LookupFailure(r.buildReq(k), r.sh.realScope(k.s, r.rng))
		} else {
			hit, ok = r.store.LookupFailureWire(wireName(r.sh.realName(k.n, r.rng)), r.sh.types[k.t], r.sh.classes[k.c], k.cd == 1)
		}
		pred = r.o.lookup(k)
		got = obs{kind: "-"}
		if ok {
			got = obs{hit: true, streak: min(capStreak(hit.Streak), r.o.scap), rel: relOf(hit.RetryAfter, now, r.in.Cfg.Max)}
			if hit.Kind == mcache.FailureKindQuestion {
				got.kind = "q"
				got.q, _ = r.sh.modelQ(hit.Question)
			} else {
				got.kind = "z"
				got.z, _ = r.sh.modelZ(hit.Zone)
			}
			if !r.in.Cfg.Enabled {
				r.bad("KillSwitch", "rfc9520 is off, yet Store.%s(%v) returned a cached failure", s.Op, k)
			} else if !pred.hit {
				r.bad("Containment", "Store.%s(%v) returned a cached failure %s%v although no recorded failure covers it (retained: %s)",
					s.Op, k, got.kind, got.src(), describe(before))
			}
		}
		ev["k"] = s.K
	case "RetryKey":
		k := qk(s.K)
		_, ok := r.store.FailureRetryKey(r.buildReq(k), r.sh.realScope(k.s, r.rng))
		pred = r.o.retryKey(k)
		got = pred
		got.hit = ok
		if ok && !r.in.Cfg.Enabled {
			r.bad("KillSwitch", "rfc9520 is off, yet Store.FailureRetryKey(%v) exposed a retry generation", k)
		}
		if ok != pred.hit {
			r.drift("Store.FailureRetryKey(%v) = %v, model %v", k, ok, pred.hit)
		}
		pred = got
		ev["k"] = s.K
	case "ResetZone":
		k := zk(s.ZK)
		r.store.ClearZoneFailure(dns.Question{Name: r.sh.realName(k.z, nil), Qtype: dns.TypeA, Qclass: r.sh.classes[k.c]}, r.sh.realName(k.z, r.rng))
		pred.n = r.o.resetZ(k)
		got = pred
		ev["zk"] = s.ZK
	case "Tick":
		r.clock.Advance(time.Duration(s.D) * time.Second)
		ev["d"] = s.D
	default:
		// ResetQuestion / ResetMatching / Purge have no Store-level entry point of their own
		r.res.Count("steps_not_bound", 1)
		r.hist = r.hist[:len(r.hist)-1]
		return true
	}
	r.res.Count("steps", 1)
	now = r.clock.Now()
	if s.Op != "Request" && s.Op != "RetryKey" && (got.n != pred.n || !obsEqual(got, pred)) {
		r.drift("%s: code hit=%v kind=%s src=%v streak=%d rel=%d, model hit=%v kind=%s src=%v streak=%d rel=%d", s.String(),
			got.hit, got.kind, got.src(), got.streak, got.rel, pred.hit, pred.kind, pred.src(), pred.streak, pred.rel)
	}
	full := snapshot(r.fc, r.sh)
	rs := r.withoutPlanted(full)
	if len(rs.unknown) > 0 {
		r.bad("Containment", "the failure cache retains state under a key nobody failed on: %v", rs.unknown)
	}
	if !r.in.Cfg.Enabled && len(rs.q)+len(rs.z) > 0 {
		r.bad("KillSwitch", "rfc9520 is off, yet %s left shared failure state behind: %v", s.String(), full.VerifDescribe())
	}
	maxD := time.Duration(r.in.Cfg.Max) * time.Second
	for k, e := range rs.q {
		if e.ra.Sub(now) > maxD {
			r.bad("Envelope", "question %v is suppressed for %v, configured maximum %v", k, e.ra.Sub(now), maxD)
		}
	}
	for k, e := range rs.z {
		if e.ra.Sub(now) > maxD {
			r.bad("Envelope", "zone %v is suppressed for %v, configured maximum %v", k, e.ra.Sub(now), maxD)
		}
	}
	if diff := r.o.resync(rs); diff != "" {
		r.drift("%s: state differs: %s", s.String(), diff)
	}
	q, z := rs.traceRows(now, r.in.Cfg.Max)
	ev["hit"], ev["kind"], ev["src"], ev["streak"], ev["rel"], ev["n"] = got.hit, got.kind, got.src(), got.streak, got.rel, got.n
	ev["fq"], ev["fz"] = q, z
	r.tr.emit(ev)
	return r.res.NViolations() == start
}

func (rs realState) VerifDescribe() string {
	q, z := rs.traceRows(time.Time{}, 1<<30)
	return fmt.Sprintf("questions %v zones %v", q, z)
}

// plant puts lower-level state behind a disabled Store (the kill switch must ignore it).
func (r *reqRun) plant() {
	for i := 0; i < 2; i++ {
		k := qkey{r.in.QNames[r.rng.Intn(len(r.in.QNames))], r.in.Types[0], r.in.Classes[0], r.in.CDs[r.rng.Intn(len(r.in.CDs))], 0}
		r.fc.RecordQuestion(r.sh.realQ(k, nil), "planted", nil)
	}
	z := zkey{r.in.ZNames[r.rng.Intn(len(r.in.ZNames))], r.in.Classes[0]}
	r.fc.RecordZone(r.sh.realZ(z, nil), "planted", nil)
	r.planted = snapshot(r.fc, r.sh)
}

func TestRequestReplay(t *testing.T) {
	var in mInput
	vh.Input(t, &in)
	res := vh.NewResult()
	defer res.Write(t)
	tr, err := newTrace(in.TraceOut)
	if err != nil {
		t.Fatal(err)
	}
	defer tr.close()
	for pi, p := range in.Paths {
		if len(res.Skipped) > 0 {
			break
		}
		r := newReqRun(&in, res, tr, pi+in.ShapeBase, pathRand(p.ID), p.ID, "TestRequestReplay")
		if r.store == nil {
			res.Skip("cache.Store() is not a *cache.Store")
			break
		}
		if r.c.VerifC13KillSwitch() == in.Cfg.Enabled {
			res.Skip("kill switch state %v does not match cfg.enabled %v", r.c.VerifC13KillSwitch(), in.Cfg.Enabled)
			break
		}
		if !in.Cfg.Enabled && pathRand(p.ID+"/plant").Intn(2) == 1 {
			r.plant()
		}
		ops := []string{}
		for _, s := range p.Steps {
			ops = append(ops, s.Op)
			if !r.step(s) {
				break
			}
		}
		r.c.Stop()
		res.Case(p.ID + "/" + r.sh.name)
		if len(res.Samples) < 2 {
			res.Sample(map[string]any{"path": p.ID, "shape": r.sh.name, "ops": ops})
		}
	}
	res.Count("trace_lines", tr.n)
}
