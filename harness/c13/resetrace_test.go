package c13

// code -> spec for ResetRace.tla: free-running rounds of overlapping
// RecordZone / ResetZone (and RecordQuestion / ResetQuestion) calls on ONE key
// of the real exported middleware/cache.FailureCache -- one client's probe of a
// flaky zone fails while another client's probe gets a useful answer.
//
// Before a round the slot is put into one of ResetRace.tla's initial kinds with
// the virtual clock (none | active | expired | stale, streak 3); the clock then
// stands still while 2 or 3 callers, started together with a swept skew, make
// their calls.  The round's outcome -- what every call returned and what the
// slot holds afterwards -- is compared with the outcomes TLC found for the
// model (all of them linearizable: the atomic calls in some order):
//
//	ResetWins   a round in which a reset took part leaves no streak above 1:
//	            "a useful answer resets the backoff".  False = VIOLATION.
//	any other outcome outside the model's set = drift.

import (
	"fmt"
	"net/netip"
	"runtime"
	"sort"
	"strings"
	"sync/atomic"
	"testing"
	"time"

	"github.com/miekg/dns"
	mcache "github.com/semihalev/sdns/middleware/cache"
	"github.com/semihalev/sdns/verifharness/vh"
)

type rrInput struct {
	MaxRounds  int                 `json:"maxRounds"`
	BudgetMs   int                 `json:"budgetMs"`
	InitStreak int                 `json:"initStreak"`
	Allowed    map[string][]string `json:"allowed"` // "<init kind>|<ops>" -> outcomes of ResetRace.tla
}

type rrClock struct{ ns atomic.Int64 }

func (c *rrClock) Now() time.Time          { return time.Unix(0, c.ns.Load()).UTC() }
func (c *rrClock) Advance(d time.Duration) { c.ns.Add(int64(d)) }

var rrSink atomic.Int64

const (
	rrMin = 5 * time.Second
	rrMax = 300 * time.Second
)

const rrKeys = 64 // independent slots per round: the callers chase each other through them

type rrWorker struct {
	op   atomic.Int32 // 0 idle, 1 rec, 2 reset
	skew atomic.Int64
	ret  [rrKeys]atomic.Int64
}

func TestResetRace(t *testing.T) {
	var in rrInput
	vh.Input(t, &in)
	res := vh.NewResult()
	defer res.Write(t)
	if runtime.GOMAXPROCS(0) < 2 {
		res.Skip("needs two processors to interleave the callers")
		return
	}
	clock := new(rrClock)
	clock.ns.Store(time.Date(2026, 9, 25, 12, 0, 0, 0, time.UTC).UnixNano())
	fc, err := mcache.NewFailureCache(mcache.FailureCacheConfig{Size: 4096, InitialTTL: rrMin, MaxTTL: rrMax, Now: clock.Now})
	if err != nil {
		res.Skip("NewFailureCache: %v", err)
		return
	}
	defer fc.Stop()
	_ = netip.Prefix{}
	var zkeys [rrKeys]mcache.FailureZoneKey
	var qkeys, below [rrKeys]mcache.FailureQuestionKey
	for k := 0; k < rrKeys; k++ {
		zkeys[k] = mcache.FailureZoneKey{Zone: fmt.Sprintf("flaky%d.example.", k), Qclass: dns.ClassINET}
		qkeys[k] = mcache.FailureQuestionKey{Question: dns.Question{Name: fmt.Sprintf("www.q%d.example.", k), Qtype: dns.TypeA, Qclass: dns.ClassINET}}
		below[k] = mcache.FailureQuestionKey{Question: dns.Question{Name: fmt.Sprintf("other.flaky%d.example.", k), Qtype: dns.TypeAAAA, Qclass: dns.ClassINET}}
	}

	// the two key kinds share the code pattern (record / ResetZone / ResetQuestion)
	record := func(zone bool, k int) int64 {
		if zone {
			return int64(fc.RecordZone(zkeys[k], "verif", nil).Streak)
		}
		return int64(fc.RecordQuestion(qkeys[k], "verif", nil).Streak)
	}
	reset := func(zone bool, k int) int64 {
		ok := false
		if zone {
			ok = fc.ResetZone(zkeys[k])
		} else {
			ok = fc.ResetQuestion(qkeys[k])
		}
		if ok {
			return 1
		}
		return 0
	}
	final := func(zone bool, k int) string {
		var hit mcache.FailureHit
		var ok bool
		if zone {
			hit, ok = fc.Lookup(below[k])
		} else {
			hit, ok = fc.Lookup(qkeys[k])
		}
		if !ok {
			return "0/none"
		}
		return fmt.Sprintf("%d/active", hit.Streak)
	}

	var (
		round    atomic.Int64
		finished atomic.Int64
		stop     atomic.Bool
		useZone  atomic.Bool
	)
	spin := func(n int64) {
		var x int64
		for i := int64(0); i < n; i++ {
			x += i
		}
		rrSink.Add(x)
	}
	workers := make([]*rrWorker, 3)
	for i := range workers {
		w := new(rrWorker)
		workers[i] = w
		go func(idx int64) {
			seen := int64(0)
			for {
				for n := 0; round.Load() == seen; n++ {
					if stop.Load() {
						return
					}
					if n > 1<<14 {
						runtime.Gosched() // a loaded machine: do not burn the slice the other callers are waiting for
					}
				}
				seen++
				op, zone, skew := w.op.Load(), useZone.Load(), w.skew.Load()
				for k := 0; k < rrKeys && op != 0; k++ {
					// the relative position of the callers drifts from slot to slot
					spin((skew + int64(k)*(3+2*idx)) % 37)
					if op == 1 {
						w.ret[k].Store(record(zone, k))
					} else {
						w.ret[k].Store(reset(zone, k))
					}
				}
				finished.Add(1)
			}
		}(int64(i))
	}
	defer stop.Store(true)

	opsets := [][]int32{{1, 2, 0}, {1, 2, 0}, {1, 2, 0}, {1, 1, 2}, {1, 2, 2}} // rec || reset most of the time
	kinds := []string{"expired", "expired", "expired", "active", "stale", "expired", "none", "expired"}
	deadline := time.Now().Add(time.Duration(in.BudgetMs) * time.Millisecond)
	rounds := 0
	for ; rounds*rrKeys < in.MaxRounds && time.Now().Before(deadline) && res.NViolations() == 0; rounds++ {
		zone := rounds%4 != 3
		useZone.Store(zone)
		kind := kinds[rounds%len(kinds)]
		ops := opsets[(rounds/len(kinds))%len(opsets)]
		what := map[bool]string{true: "zone", false: "question"}[zone]
		title := map[bool]string{true: "Zone", false: "Question"}[zone]
		// the slots before the round
		for k := 0; k < rrKeys; k++ {
			reset(true, k)
			reset(false, k)
		}
		if kind != "none" {
			bo := rrMin
			for i := 0; i < in.InitStreak; i++ {
				for k := 0; k < rrKeys; k++ {
					if got := record(zone, k); got != int64(i+1) {
						res.Skip("setup: record %d gave streak %d", i+1, got)
						return
					}
				}
				if i < in.InitStreak-1 || kind != "active" {
					clock.Advance(bo + time.Nanosecond)
				}
				bo *= 2
			}
			if kind == "stale" {
				clock.Advance(rrMax + time.Second)
			}
		}
		if f := final(zone, 0); (kind == "active") != (f != "0/none") {
			res.Skip("setup: slot kind %s reads %s", kind, f)
			return
		}
		// sweep the relative start of the callers
		var names []string
		for i, w := range workers {
			w.op.Store(ops[i])
			for k := range w.ret {
				w.ret[k].Store(-1)
			}
			switch ops[i] {
			case 1:
				names = append(names, "rec")
			case 2:
				names = append(names, "reset")
			}
		}
		sort.Strings(names)
		workers[0].skew.Store(int64(rounds % 97))
		workers[1].skew.Store(int64((rounds / 97) % 89))
		workers[2].skew.Store(int64((rounds / 7) % 61))
		finished.Store(0)
		round.Add(1)
		for n := 0; finished.Load() != int64(len(workers)); n++ {
			if n&1023 == 1023 {
				runtime.Gosched()
			}
		}
		cfg := kind + "|" + strings.Join(names, ",")
		allowed, known := in.Allowed[cfg]
		if !known {
			res.Skip("ResetRace.tla has no outcomes for %s", cfg)
			return
		}
		res.Count("sweeps", 1)
		res.Count("init_"+kind, rrKeys)
		res.Count("rounds_"+what, rrKeys)
		res.Count("rounds", rrKeys)
		// the outcome of every slot
		for k := 0; k < rrKeys; k++ {
			var recs, rsts []int
			for i, w := range workers {
				switch ops[i] {
				case 1:
					recs = append(recs, int(w.ret[k].Load()))
				case 2:
					rsts = append(rsts, int(w.ret[k].Load()))
				}
			}
			sort.Ints(recs)
			sort.Ints(rsts)
			f := final(zone, k)
			outcome := fmt.Sprintf("final=%s;rec=%v;reset=%v", f, recs, rsts)
			res.Case("reset-race/" + what + "/" + cfg + "/" + outcome)
			var streak int
			fmt.Sscanf(f, "%d/", &streak)
			if streak > 1 {
				name := zkeys[k].Zone
				if !zone {
					name = qkeys[k].Question.Name
				}
				res.Violate("c13/reset-race/ResetWins/"+what,
					fmt.Sprintf("ResetWins: a useful answer was lost. The %s failure of %s had streak %d on record (%s). One client's probe failed (Record%s -> returned streak %v) while "+
						"another client's probe got a useful answer (Reset%s -> returned %v, 1 = deleted); afterwards the %s stays suppressed with streak %d, although in every order "+
						"of the calls the state is either gone or restarted at streak 1 (sweep %d slot %d, callers %v, outcomes of ResetRace.tla for such a round: %v)",
						what, name, in.InitStreak, kind, title, recs, title, rsts, what, streak, rounds, k, names, allowed),
					map[string]any{"driver": "TestResetRace", "sweep": rounds, "slot": k, "kind": kind, "ops": names, "outcome": outcome,
						"input": map[string]int{"maxRounds": in.MaxRounds, "budgetMs": in.BudgetMs, "initStreak": in.InitStreak}})
				break
			}
			ok := false
			for _, a := range allowed {
				if a == outcome {
					ok = true
				}
			}
			if !ok {
				res.DriftNote("sweep %d slot %d (%s, %s): outcome %s is not one ResetRace.tla reaches (%v)", rounds, k, what, cfg, outcome, allowed)
			}
		}
		clock.Advance(10 * time.Minute)
	}
	res.Count("sweeps_total", rounds)
}
