package c13

// SingleProbe binding: behaviours of the split request form of
// FailureCache.tla (Begin / Finish / Wake / Tick) are forced on the real
// cache.Cache.  Every request is a real goroutine inside Cache.ServeDNS; the
// scripted downstream parks each request that reaches it at a gate until the
// behaviour's Finish step supplies its outcome, so "how many requests of one
// probe generation are downstream while the outcome is unknown" is observed
// directly.  Which follower wins a re-election is the scheduler's choice; the
// driver follows the observed roles (drift, not a violation).

import (
	"context"
	"fmt"
	"sort"
	"strings"
	"sync"
	"testing"
	"time"

	"github.com/miekg/dns"
	"github.com/semihalev/sdns/internal/mock"
	"github.com/semihalev/sdns/middleware"
	"github.com/semihalev/sdns/verifharness/vh"
)

type pReq struct {
	id     int
	k      qkey
	state  string // idle | down | wait | done
	gk     string
	ld     bool
	rg     int
	gate   chan outcome
	w      *mock.Writer
	cancel context.CancelFunc
	ctl    *reqCtl
	rp     reply
	fin    chan struct{}
	born   string
}

type pEvent struct {
	id   int
	kind string // entered | done
}

type probeRun struct {
	*reqRun
	mu     sync.Mutex
	reqs   map[int]*pReq
	byAddr map[string]int
	events chan pEvent
	serial int
}

type pKeyT struct{}

var pKey = pKeyT{}

const (
	settleLong  = 5 * time.Second
	settleShort = 20 * time.Millisecond
)

func (p *probeRun) downstream(ctx context.Context, ch *middleware.Chain) {
	// a wire-born request is detached from the caller's context: identify it by its client address
	p.mu.Lock()
	id := p.byAddr[ch.Writer.RemoteAddr().String()]
	rq := p.reqs[id]
	p.mu.Unlock()
	if rq == nil {
		ch.CancelWithRcode(dns.RcodeServerFailure, false)
		return
	}
	p.events <- pEvent{id, "entered"}
	o := <-rq.gate
	p.serveOutcome(ctx, ch, o, rq.ctl)
}

func (p *probeRun) start(id int, k qkey) *pReq {
	rq := &pReq{id: id, k: k, state: "idle", gate: make(chan outcome, 1), fin: make(chan struct{})}
	p.serial++
	addr := fmt.Sprintf("203.0.113.%d:%d", 10+id, 20000+p.serial)
	p.mu.Lock()
	p.reqs[id] = rq
	p.byAddr[addr] = id
	p.mu.Unlock()
	req := p.buildReq(k)
	ctx, cancel := context.WithCancel(context.WithValue(context.Background(), pKey, id))
	rq.cancel = cancel
	rq.ctl = &reqCtl{cancel: cancel, variant: p.rng.Intn(2)}
	rq.w = mock.NewWriter("udp", addr)
	ch := middleware.NewChain([]middleware.Handler{ednsLayer, p.c, middleware.HandlerFunc(p.downstream)})
	rq.born = "msg"
	if p.rng.Intn(3) == 0 {
		if raw, err := req.Pack(); err == nil {
			wr := new(middleware.Request)
			if wr.ParseWire(raw, time.Now(), nil) {
				ch.ResetWire(rq.w, wr)
				ch.AllowDirectPack()
				rq.born = "wire"
			}
		}
	}
	if rq.born == "msg" {
		ch.Reset(rq.w, req)
	}
	go func() {
		defer close(rq.fin)
		ch.Next(ctx)
		p.events <- pEvent{id, "done"}
	}()
	return rq
}

// absorb applies one event to the request table.
func (p *probeRun) absorb(e pEvent) {
	rq := p.reqs[e.id]
	if rq == nil {
		return
	}
	switch e.kind {
	case "entered":
		rq.state = "down"
	case "done":
		rq.state = "done"
		rq.rp = readReply(rq.w)
		rq.rp.wire = rq.born == "wire"
	}
}

// collect waits until `want` events arrived (or the long timeout), then keeps
// listening for a short while for events nobody predicted.
func (p *probeRun) collect(want int) []pEvent {
	var got []pEvent
	deadline := time.After(settleLong)
	for len(got) < want {
		select {
		case e := <-p.events:
			p.absorb(e)
			got = append(got, e)
		case <-deadline:
			want = 0
		}
	}
	quiet := time.After(settleShort)
	for {
		select {
		case e := <-p.events:
			p.absorb(e)
			got = append(got, e)
		case <-quiet:
			return got
		}
	}
}

func (p *probeRun) genKey(k qkey) (string, bool) {
	rk := p.o.retryKey(k)
	if rk.hit {
		return fmt.Sprint("p:", rk.kind, rk.src()), true
	}
	return fmt.Sprint("d:", k), false
}

func (p *probeRun) leaderOf(key string, except int) *pReq {
	for _, x := range p.reqs {
		if x.id != except && x.state == "down" && x.ld && x.gk == key {
			return x
		}
	}
	return nil
}

func (p *probeRun) checkSingleProbe() {
	byKey := map[string][]int{}
	for _, x := range p.reqs {
		if x.state == "down" && strings.HasPrefix(x.gk, "p:") {
			byKey[x.gk] = append(byKey[x.gk], x.id)
		}
	}
	for key, ids := range byKey {
		if len(ids) > 1 {
			sort.Ints(ids)
			var names []string
			for _, id := range ids {
				names = append(names, fmt.Sprintf("request %d for %s", id, p.sh.names[p.reqs[id].k.n]))
			}
			p.bad("SingleProbe", "%d requests of one expired failure generation (%s) are downstream at the same time, before any outcome is known: %v",
				len(ids), key, names)
		}
	}
}

func (p *probeRun) busy() bool {
	for _, x := range p.reqs {
		if x.state == "down" || x.state == "wait" {
			return true
		}
	}
	return false
}

func (p *probeRun) emitReq(op string, rq *pReq, hit, down bool, res string, extra map[string]any) {
	rs := snapshot(p.fc, p.sh)
	q, z := rs.traceRows(p.clock.Now(), p.in.Cfg.Max)
	ev := map[string]any{"op": op, "r": rq.id, "k": rq.k.arr(), "hit": hit, "kind": "-", "src": []int{}, "streak": 0, "rel": 0, "n": 0,
		"down": down, "res": res, "fq": q, "fz": z}
	for k, v := range extra {
		ev[k] = v
	}
	p.tr.emit(ev)
}

func (p *probeRun) begin(s mStep) {
	id := s.R
	if old := p.reqs[id]; old != nil && (old.state == "down" || old.state == "wait") {
		p.res.Count("steps_not_enabled", 1)
		return
	}
	k := qk(s.K)
	covered := p.o.covering(k)
	key, _ := p.genKey(k)
	fol := p.leaderOf(key, id) != nil
	rq := p.start(id, k)
	rq.gk = key
	p.hist = append(p.hist, s.String())
	p.res.Count("steps", 1)
	want := 1
	if !covered && fol {
		want = 0
	}
	p.collect(want)
	switch rq.state {
	case "down":
		rq.ld = !fol
		if covered {
			p.bad("NoUpstreamOnHit", "request %d for %v (%s) reached downstream although an active recorded failure covers it (retained: %s)",
				id, k, p.sh.names[k.n], describe(p.o))
		} else if fol && !strings.HasPrefix(key, "p:") {
			p.drift("request %d for %v went downstream beside the leader of the same ordinary dedup key", id, k)
		}
		p.emitReq("Begin", rq, false, true, "down", nil)
	case "done":
		hit := rq.rp.cachedFailure()
		if hit && !covered {
			p.bad("Containment", "request %d for %v (%s) was answered SERVFAIL/EDE 13 although no recorded failure covers it (retained: %s)",
				id, k, p.sh.names[k.n], describe(p.o))
		}
		if !hit {
			p.drift("request %d for %v finished without downstream and without a cached failure: rcode %d ede %d", id, k, rq.rp.rcode, rq.rp.ede)
		}
		p.emitReq("Begin", rq, hit, false, "hit", nil)
		if hit {
			p.res.Count("served_from_failure_cache", 1)
		}
	default:
		rq.state = "wait"
		if covered || !fol {
			p.drift("request %d for %v neither reached downstream nor was answered (model: %s)", id, k, map[bool]string{true: "hit", false: "lead"}[covered])
		}
		p.res.Count("followers_parked", 1)
	}
	p.checkSingleProbe()
}

func (p *probeRun) finish(id int, o outcome, label string) bool {
	rq := p.reqs[id]
	if rq == nil || rq.state != "down" {
		p.res.Count("steps_not_enabled", 1)
		return true
	}
	k := rq.k
	if o.Z >= 0 && !p.o.atOrAbove(o.Z, k.n) {
		o.Z = -1
	}
	if o.O == "authfail" && o.Z < 0 {
		o.O = "servfail"
	}
	if o.O == "aliasfail" {
		o.Z = -1
	}
	if o.O == "cancel" && rq.born == "wire" {
		o.O = "deadline" // a wire-born request is detached from the caller's context: nothing to cancel from here
	}
	if o.O == "deadline" {
		rq.ctl.variant = 0
	}
	p.hist = append(p.hist, mStep{Op: "Finish", R: id, O: o.O, Z: o.Z}.String())
	p.res.Count("steps", 1)
	p.res.Count("outcome_"+o.O, 1)
	before := p.o.clone()
	wasLeader, key := rq.ld, rq.gk
	rq.gate <- o
	// the finishing request and everything its completion releases
	var woken []*pReq
	if wasLeader {
		for _, x := range p.reqs {
			if x.state == "wait" && x.gk == key {
				woken = append(woken, x)
			}
		}
		sort.Slice(woken, func(i, j int) bool { return woken[i].id < woken[j].id })
	}
	select {
	case <-rq.fin:
	case <-time.After(settleLong):
		p.res.Skip("path %s: request %d did not return after its outcome %s", p.id, id, o.O)
		return false
	}
	// state change of the finished request (followers cannot record: they hold no outcome)
	p.o.applyOutcome(k, o)
	rs := snapshot(p.fc, p.sh)
	// predictions for the released followers (any order: one leader per generation)
	type exp struct {
		kind string // hit | solo | shed | regroup
		key  string
	}
	exps := map[int]exp{}
	groups := map[string]bool{}
	want := 1 // the finished request's own "done"
	for _, f := range woken {
		switch {
		case o.O == "useful" && f.k.n == k.n && f.k.t == k.t && f.k.c == k.c && f.k.cd == k.cd:
			exps[f.id] = exp{kind: "answered"} // the leader's answer, from the ordinary answer cache
			want++
		case p.o.covering(f.k):
			exps[f.id] = exp{kind: "hit"}
			want++
		default:
			gk, probe := p.genKey(f.k)
			switch {
			case !probe:
				exps[f.id] = exp{kind: "solo", key: gk}
				want++
			case f.rg >= 1:
				exps[f.id] = exp{kind: "shed"}
				want++
			default:
				exps[f.id] = exp{kind: "regroup", key: gk}
				if !groups[gk] && p.leaderOf(gk, -1) == nil {
					groups[gk] = true
					want++
				}
			}
		}
	}
	p.collect(want)
	rq.state = "done"
	rq.rp = readReply(rq.w)
	rq.rp.wire = rq.born == "wire"
	p.afterRequest(k, o, rq.rp, 1, false, before, rs)
	resName := o.O
	if resName != "useful" && !sharedFailure(resName) {
		resName = "local"
	}
	{
		q, z := rs.traceRows(p.clock.Now(), p.in.Cfg.Max)
		p.tr.emit(map[string]any{"op": "Finish", "r": id, "k": k.arr(), "o": o.O, "z": o.Z, "hit": false, "kind": "-", "src": []int{},
			"streak": 0, "rel": 0, "n": 0, "down": true, "res": resName, "fq": q, "fz": z})
	}
	if diff := p.o.resync(rs); diff != "" {
		p.drift("Finish(%d,%s): state differs: %s", id, o.O, diff)
	}
	if o.O == "useful" {
		p.c.VerifC13DropAnswer(dns.Question{Name: p.sh.names[k.n], Qtype: p.sh.types[k.t], Qclass: p.sh.classes[k.c]}, k.cd == 1)
	}
	// what the released followers did
	for _, f := range woken {
		e := exps[f.id]
		desc := fmt.Sprintf("follower %d for %v (%s), released by request %d's outcome %s", f.id, f.k, p.sh.names[f.k.n], id, o.O)
		switch f.state {
		case "down":
			switch e.kind {
			case "hit":
				p.bad("NoUpstreamOnHit", "%s reached downstream although an active recorded failure covers it (retained: %s)", desc, describe(p.o))
			case "shed":
				p.bad("SingleProbe", "%s went downstream as a third probe of one failure generation instead of being shed", desc)
			case "solo":
				f.gk, f.ld = e.key, false
			case "regroup":
				f.gk, f.ld, f.rg = e.key, true, 1
			}
			p.emitReq("Wake", f, false, true, "down", nil)
		case "done":
			hit := f.rp.cachedFailure()
			shed := f.rp.written && f.rp.rcode == dns.RcodeServerFailure && f.rp.text == probeLimitText
			switch {
			case e.kind == "answered" && f.rp.written && f.rp.rcode == dns.RcodeSuccess:
				p.res.Count("followers_answered", 1)
				continue
			case hit && e.kind != "hit":
				p.bad("Containment", "%s was answered SERVFAIL/EDE 13 although no recorded failure covers it (retained: %s)", desc, describe(p.o))
			case hit:
				p.res.Count("followers_served_from_cache", 1)
			case shed:
				p.res.Count("followers_shed", 1)
				if e.kind != "shed" {
					p.drift("%s was shed with the probe limit, model expected %s", desc, e.kind)
				}
			default:
				p.drift("%s finished with rcode %d ede %d, model expected %s", desc, f.rp.rcode, f.rp.ede, e.kind)
			}
			res := "hit"
			if !hit {
				res = "shed"
			}
			p.emitReq("Wake", f, hit, false, res, nil)
		default: // still parked
			if e.kind == "regroup" {
				f.gk, f.rg = e.key, 1
			} else {
				p.drift("%s is still parked, model expected %s", desc, e.kind)
			}
		}
	}
	// nothing a follower did may have touched the shared state
	after := snapshot(p.fc, p.sh)
	if ch := p.newGenerations(p.o, after); len(ch.newQ)+len(ch.newZ) > 0 {
		p.bad("LocalNeverShared", "followers released by request %d (shed / served from cache) changed the shared failure state: %v %v", id, ch.newQ, ch.newZ)
	}
	p.checkSingleProbe()
	return true
}

func (p *probeRun) drain() {
	for guard := 0; guard < 40; guard++ {
		var next *pReq
		for _, x := range p.reqs {
			if x.state == "down" && (next == nil || x.id < next.id) {
				next = x
			}
		}
		if next == nil {
			break
		}
		if !p.finish(next.id, outcome{"useful", -1}, "drain") {
			break
		}
	}
	for _, x := range p.reqs {
		if x.state == "wait" || x.state == "down" {
			x.cancel()
			select {
			case x.gate <- outcome{"useful", -1}:
			default:
			}
		}
	}
	for _, x := range p.reqs {
		select {
		case <-x.fin:
		case <-time.After(settleLong):
		}
		x.cancel()
	}
	// late events
	for {
		select {
		case <-p.events:
			continue
		default:
		}
		break
	}
}

func TestProbeReplay(t *testing.T) {
	var in mInput
	vh.Input(t, &in)
	res := vh.NewResult()
	defer res.Write(t)
	tr, err := newTrace(in.TraceOut)
	if err != nil {
		t.Fatal(err)
	}
	defer tr.close()
	for pi, path := range in.Paths {
		if len(res.Skipped) > 0 {
			break
		}
		p := &probeRun{reqRun: newReqRun(&in, res, tr, pi+in.ShapeBase, pathRand(path.ID), path.ID, "TestProbeReplay"),
			reqs: map[int]*pReq{}, byAddr: map[string]int{}, events: make(chan pEvent, 256)}
		start := res.NViolations()
		ops := []string{}
		for _, s := range path.Steps {
			ops = append(ops, s.Op)
			switch s.Op {
			case "Begin":
				p.begin(s)
			case "Finish":
				if !p.finish(s.R, outcome{s.O, s.Z}, "Finish") {
					break
				}
			case "Wake":
				// the real followers wake on their own; consumed by the settle after Finish
			case "Tick":
				if p.busy() {
					res.Count("steps_not_enabled", 1)
					continue
				}
				p.hist = append(p.hist, s.String())
				p.clock.Advance(time.Duration(s.D) * time.Second)
				rs := snapshot(p.fc, p.sh)
				q, z := rs.traceRows(p.clock.Now(), in.Cfg.Max)
				tr.emit(map[string]any{"op": "Tick", "d": s.D, "hit": false, "kind": "-", "src": []int{}, "streak": 0, "rel": 0, "n": s.D, "fq": q, "fz": z})
			}
			if res.NViolations() > start || len(res.Skipped) > 0 {
				break
			}
		}
		p.drain()
		p.c.Stop()
		res.Case(path.ID + "/" + p.sh.name)
		if len(res.Samples) < 2 {
			res.Sample(map[string]any{"path": path.ID, "shape": p.sh.name, "ops": ops})
		}
	}
	res.Count("trace_lines", tr.n)
}
