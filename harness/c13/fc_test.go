package c13

// spec -> code replay of FailureCache.tla behaviours on the real exported
// middleware/cache.FailureCache (with its Now hook), and code -> spec trace
// recording of every call.  After every step the C13 predicates are evaluated
// on what the code returned; differences from the model that break no
// predicate are drift.

import (
	"fmt"
	"math/rand"
	"net/netip"
	"strings"
	"testing"
	"time"

	"github.com/miekg/dns"
	mcache "github.com/semihalev/sdns/middleware/cache"
	"github.com/semihalev/sdns/verifharness/vh"
)

type fcRun struct {
	in       *mInput
	res      *vh.Result
	tr       *traceWriter
	sh       *shape
	rng      *rand.Rand
	clock    *vclock
	fc       *mcache.FailureCache
	o        *oracle
	diverged bool
	capped   bool
	hist     []string
	genOf    map[uint64]string
	genObs   map[uint64]obs
	keyOf    map[string]uint64
	boKnown  map[string]bool
	id       string
}

func wireName(name string) []byte {
	buf := make([]byte, 300)
	off, err := dns.PackDomainName(dns.Fqdn(name), buf, 0, nil, false)
	if err != nil {
		return nil
	}
	return buf[:off]
}

func newFcRun(in *mInput, res *vh.Result, tr *traceWriter, shapeIdx int, rng *rand.Rand, id string) (*fcRun, error) {
	r := &fcRun{in: in, res: res, tr: tr, sh: getShape(shapeIdx), rng: rng, clock: newClock(), id: id,
		genOf: map[uint64]string{}, genObs: map[uint64]obs{}, keyOf: map[string]uint64{}, boKnown: map[string]bool{}}
	size := 4096
	if in.Cfg.Cap < 90 {
		size = in.Cfg.Cap
		r.capped = true
		r.diverged = true // eviction victims are the model's free choice: no state-by-state comparison
	}
	fc, err := mcache.NewFailureCache(mcache.FailureCacheConfig{
		Size:       size,
		InitialTTL: time.Duration(in.Cfg.Min) * time.Second,
		MaxTTL:     time.Duration(in.Cfg.Max) * time.Second,
		Now:        r.clock.Now,
	})
	if err != nil {
		return nil, err
	}
	r.fc = fc
	r.o = newOracle(in.Cfg, r.clock)
	tr.emit(map[string]any{"op": "Reset", "shape": r.sh.name, "path": id})
	return r, nil
}

func (r *fcRun) replayObj() map[string]any {
	return map[string]any{"driver": "TestFailureCacheReplay", "path": r.id, "shape": r.sh.name,
		"cfg": r.in.Cfg, "steps": append([]string(nil), r.hist...)}
}

func (r *fcRun) bad(pred, format string, a ...any) {
	violate(r.res, pred, fmt.Sprintf("[%s shape=%s] ", r.id, r.sh.name)+fmt.Sprintf(format, a...)+
		" after "+strings.Join(histTail(r.hist, 6), " "), r.replayObj())
}

func (r *fcRun) secs(d time.Duration) string { return fmt.Sprintf("%.3gs", d.Seconds()) }

// envelope predicate on one record() return
func (r *fcRun) checkRecord(what string, id string, hitRA time.Time, prev *oEnt, prevActive bool) {
	now := r.clock.Now()
	rem := hitRA.Sub(now)
	minD := time.Duration(r.in.Cfg.Min) * time.Second
	maxD := time.Duration(r.in.Cfg.Max) * time.Second
	if rem > maxD {
		r.bad("Envelope", "%s is suppressed for %s, configured maximum %s", what, r.secs(rem), r.secs(maxD))
		return
	}
	if maxD > 300*time.Second {
		r.bad("Envelope", "configured maximum %s above the 5 minute ceiling was accepted", r.secs(maxD))
	}
	switch {
	case prev == nil:
		if rem != minD {
			r.bad("Envelope", "first failure of %s backs off %s, configured minimum %s", what, r.secs(rem), r.secs(minD))
		}
		r.boKnown[id] = true
	case !prevActive:
		if rem < minD {
			r.bad("Envelope", "renewed failure of %s backs off %s, below the configured minimum %s", what, r.secs(rem), r.secs(minD))
		} else if r.boKnown[id] && rem > 2*time.Duration(prev.bo)*time.Second {
			r.bad("Envelope", "consecutive failure of %s backs off %s, more than double the previous %ds", what, r.secs(rem), prev.bo)
		}
		r.boKnown[id] = true
	}
}

// containment predicate on one Lookup / LookupWire hit
func (r *fcRun) checkHit(opname string, k qkey, hit mcache.FailureHit) (obs, bool) {
	now := r.clock.Now()
	maxD := time.Duration(r.in.Cfg.Max) * time.Second
	out := obs{hit: true, streak: min(capStreak(hit.Streak), r.o.scap), rel: relOf(hit.RetryAfter, now, r.in.Cfg.Max)}
	if !now.Before(hit.RetryAfter) {
		r.bad("Containment", "%s(%v) is answered from a failure whose back-off ended %s ago", opname, k, r.secs(now.Sub(hit.RetryAfter)))
		return out, false
	}
	if hit.RetryAfter.Sub(now) > maxD {
		r.bad("Envelope", "%s(%v) is suppressed for another %s, configured maximum %s", opname, k, r.secs(hit.RetryAfter.Sub(now)), r.secs(maxD))
		return out, false
	}
	switch hit.Kind {
	case mcache.FailureKindQuestion:
		mk, known := r.sh.modelQ(hit.Question)
		out.kind, out.q = "q", mk
		if !known || mk != k {
			r.bad("Containment", "%s for question %v (name,type,class,cd,scope) is answered from the failure of a different question %v (%s %d/%d cd=%v scope=%v)",
				opname, k, mk, hit.Question.Question.Name, hit.Question.Question.Qtype, hit.Question.Question.Qclass, hit.Question.CD, hit.Question.Scope)
			return out, false
		}
		e := r.o.q[mk]
		if e == nil {
			r.bad("SuccessResets", "%s(%v) is answered from question failure state that was never recorded or was reset", opname, k)
			return out, false
		}
	case mcache.FailureKindZone:
		mz, known := r.sh.modelZ(hit.Zone)
		out.kind, out.z = "z", mz
		if !known || mz.c != k.c || !r.o.atOrAbove(mz.z, k.n) {
			r.bad("Containment", "%s for %q class %d is answered from the failure of zone %q class %d, which is not at or above the name in the same class",
				opname, r.sh.names[k.n], r.sh.classes[k.c], hit.Zone.Zone, hit.Zone.Qclass)
			return out, false
		}
		e := r.o.z[mz]
		if e == nil {
			r.bad("SuccessResets", "%s(%v) is answered from zone failure state %v that was never recorded or was reset", opname, k, mz)
			return out, false
		}
	default:
		r.bad("Containment", "%s(%v) returned a hit of unknown kind %d", opname, k, hit.Kind)
		return out, false
	}
	return out, true
}

func (r *fcRun) drift(format string, a ...any) {
	r.res.DriftNote("[%s shape=%s] %s", r.id, r.sh.name, fmt.Sprintf(format, a...))
}

func obsEqual(a, b obs) bool {
	if a.hit != b.hit || a.kind != b.kind {
		return false
	}
	if !a.hit {
		return true
	}
	if a.kind == "q" && a.q != b.q || a.kind == "z" && a.z != b.z {
		return false
	}
	return a.streak == b.streak && a.rel == b.rel
}

func (r *fcRun) step(s mStep) bool {
	r.hist = append(r.hist, s.String())
	start := r.res.NViolations()
	ev := map[string]any{"op": s.Op}
	var pred, got obs
	now := r.clock.Now()
	switch s.Op {
	case "RecordQuestion":
		k := qk(s.K)
		prev := r.o.q[k]
		prevActive := r.o.active(prev)
		hit := r.fc.RecordQuestion(r.sh.realQ(k, r.rng), mcache.FailureProvenance(s.Cause), nil)
		pred, _, _ = r.o.recordQ(k, s.Cause)
		mk, known := r.sh.modelQ(hit.Question)
		got = obs{hit: true, kind: "q", q: mk, streak: min(capStreak(hit.Streak), r.o.scap), rel: relOf(hit.RetryAfter, now, r.in.Cfg.Max)}
		if hit.Kind != mcache.FailureKindQuestion || !known || mk != k {
			r.bad("Containment", "RecordQuestion(%v) filed the failure under a different key %v kind %d", k, mk, hit.Kind)
		} else {
			r.checkRecord(fmt.Sprintf("question %v", k), fmt.Sprint("q", k), hit.RetryAfter, prev, prevActive)
		}
		ev["k"], ev["cause"] = s.K, s.Cause
	case "RecordZone":
		k := zk(s.ZK)
		prev := r.o.z[k]
		prevActive := r.o.active(prev)
		hit := r.fc.RecordZone(r.sh.realZ(k, r.rng), mcache.FailureProvenance(s.Cause), nil)
		pred, _, _ = r.o.recordZ(k, s.Cause)
		mz, known := r.sh.modelZ(hit.Zone)
		got = obs{hit: true, kind: "z", z: mz, streak: min(capStreak(hit.Streak), r.o.scap), rel: relOf(hit.RetryAfter, now, r.in.Cfg.Max)}
		if hit.Kind != mcache.FailureKindZone || !known || mz != k {
			r.bad("Containment", "RecordZone(%v) filed the failure under a different key %v kind %d", k, mz, hit.Kind)
		} else {
			r.checkRecord(fmt.Sprintf("zone %v", k), fmt.Sprint("z", k), hit.RetryAfter, prev, prevActive)
		}
		ev["zk"], ev["cause"] = s.ZK, s.Cause
	case "Lookup", "LookupWire":
		k := qk(s.K)
		var hit mcache.FailureHit
		var ok bool
		if s.Op == "Lookup" {
			hit, ok = r.fc.Lookup(r.sh.realQ(k, r.rng))
		} else {
			w := wireName(r.sh.realName(k.n, r.rng))
			hit, ok = r.fc.LookupWire(w, r.sh.types[k.t], r.sh.classes[k.c], k.cd == 1)
		}
		pred = r.o.lookup(k)
		got = obs{kind: "-"}
		if ok {
			got, _ = r.checkHit(s.Op, k, hit)
		}
		ev["k"] = s.K
	case "RetryKey":
		k := qk(s.K)
		key, ok := r.fc.RetryKey(r.sh.realQ(k, r.rng))
		pred = r.o.retryKey(k)
		got = obs{hit: ok, kind: "-"}
		if ok {
			gen := fmt.Sprint(pred.kind, pred.src())
			if g, seen := r.genOf[key]; seen {
				got = r.genObs[key]
				if pred.hit && g != gen {
					r.drift("RetryKey(%v) joins generation %s, the model expects %s", k, g, gen)
				}
			} else if pred.hit {
				if old, dup := r.keyOf[gen]; dup && old != key {
					r.drift("RetryKey(%v): generation %s has two different keys", k, gen)
				}
				r.genOf[key], r.keyOf[gen], r.genObs[key] = gen, key, pred
				got = pred
			} else {
				got.kind = "?"
			}
		}
		if ok != pred.hit {
			r.drift("RetryKey(%v) = %v, model %v", k, ok, pred.hit)
		}
		ev["k"] = s.K
	case "ResetQuestion":
		k := qk(s.K)
		ok := r.fc.ResetQuestion(r.sh.realQ(k, r.rng))
		pred.n = r.o.resetQ(k)
		if ok {
			got.n = 1
		}
		ev["k"] = s.K
	case "ResetZone":
		k := zk(s.ZK)
		ok := r.fc.ResetZone(r.sh.realZ(k, r.rng))
		pred.n = r.o.resetZ(k)
		if ok {
			got.n = 1
		}
		ev["zk"] = s.ZK
	case "ResetMatching":
		k := qk(s.K)
		got.n = r.fc.ResetMatching(r.sh.realQ(k, r.rng))
		pred.n = r.o.resetMatching(k)
		ev["k"] = s.K
	case "Purge":
		got.n = r.fc.PurgeQuestion(dns.Question{Name: r.sh.realName(s.P[0], r.rng), Qtype: r.sh.types[s.P[1]], Qclass: r.sh.classes[s.P[2]]})
		pred.n = r.o.purge(s.P[0], s.P[1], s.P[2])
		ev["p"] = s.P
	case "Tick":
		r.clock.Advance(time.Duration(s.D) * time.Second)
		ev["d"] = s.D
		got.n, pred.n = s.D, s.D
	default:
		r.res.Skip("path %s: unknown op %q", r.id, s.Op)
		return false
	}
	r.res.Count("steps", 1)
	now = r.clock.Now()

	// reference model vs TLC (machinery self-check, only while nothing diverged)
	if !r.diverged && s.Dst != nil {
		if ok, why := r.o.sameAsModel(s.Dst); !ok {
			r.res.Skip("path %s step %s: reference model disagrees with TLC: %s", r.id, s.String(), why)
			return false
		}
		if s.Exp != nil && s.Op != "Tick" {
			e := s.Exp
			if e.Hit != pred.hit || (pred.hit && (e.Kind != pred.kind || fmt.Sprint(e.Src) != fmt.Sprint(pred.src()))) || e.N != pred.n ||
				(pred.hit && s.Op != "RetryKey" && (e.Streak != pred.streak || e.Rel != pred.rel)) {
				r.res.Skip("path %s step %s: reference observation %+v disagrees with TLC %+v", r.id, s.String(), pred, *e)
				return false
			}
		}
	}

	// code vs model
	if s.Op == "RetryKey" {
		// compared above
	} else if got.n != pred.n || !obsEqual(got, pred) {
		r.drift("%s: code returned hit=%v kind=%s src=%v streak=%d rel=%d n=%d, model hit=%v kind=%s src=%v streak=%d rel=%d n=%d",
			s.String(), got.hit, got.kind, got.src(), got.streak, got.rel, got.n, pred.hit, pred.kind, pred.src(), pred.streak, pred.rel, pred.n)
	}

	// projection of the real structure
	rs := snapshot(r.fc, r.sh)
	if len(rs.unknown) > 0 {
		r.bad("Containment", "the failure cache retains state under a key nobody failed on: %v", rs.unknown)
	}
	maxD := time.Duration(r.in.Cfg.Max) * time.Second
	for k, e := range rs.q {
		if e.ra.Sub(now) > maxD {
			r.bad("Envelope", "question %v is suppressed for %s, configured maximum %s", k, r.secs(e.ra.Sub(now)), r.secs(maxD))
		}
	}
	for k, e := range rs.z {
		if e.ra.Sub(now) > maxD {
			r.bad("Envelope", "zone %v is suppressed for %s, configured maximum %s", k, r.secs(e.ra.Sub(now)), r.secs(maxD))
		}
	}
	if s.Op == "ResetMatching" {
		k := qk(s.K)
		if _, ok := rs.q[k]; ok {
			r.bad("SuccessResets", "after ResetMatching(%v) the question's failure state is still retained", k)
		}
		for zz := range rs.z {
			if zz.c == k.c && r.o.atOrAbove(zz.z, k.n) {
				r.bad("SuccessResets", "after ResetMatching(%v) the covering zone state %v is still retained", k, zz)
			}
		}
	}
	if len(rs.q)+len(rs.z) > r.in.Cfg.Cap && r.capped {
		r.drift("%d states retained, capacity %d", len(rs.q)+len(rs.z), r.in.Cfg.Cap)
	}
	if diff := r.o.resync(rs); diff != "" {
		if r.capped && !strings.Contains(diff, "the model lacks") && !strings.Contains(diff, "retryAfter") {
			r.res.Count("evictions", 1)
			ev["evicted"] = true
		} else {
			r.drift("%s: state differs: %s", s.String(), diff)
			r.diverged = true
		}
	}
	q, z := rs.traceRows(now, r.in.Cfg.Max)
	ev["hit"], ev["kind"], ev["src"], ev["streak"], ev["rel"], ev["n"] = got.hit, got.kind, got.src(), got.streak, got.rel, got.n
	ev["fq"], ev["fz"] = q, z
	r.tr.emit(ev)
	return r.res.NViolations() == start
}

// a driver-generated workload over the same key space (trace direction only)
func randomSteps(in *mInput, rng *rand.Rand, n int) []mStep {
	pick := func(a []int) int { return a[rng.Intn(len(a))] }
	rk := func() []int {
		return []int{pick(in.QNames), pick(in.Types), pick(in.Classes), pick(in.CDs), pick(in.Scopes)}
	}
	rz := func() []int { return []int{pick(in.ZNames), pick(in.Classes)} }
	var out []mStep
	for i := 0; i < n; i++ {
		switch x := rng.Intn(20); {
		case x < 5:
			out = append(out, mStep{Op: "RecordQuestion", K: rk(), Cause: "response"})
		case x < 7:
			out = append(out, mStep{Op: "RecordZone", ZK: rz(), Cause: "authority"})
		case x < 11:
			out = append(out, mStep{Op: "Lookup", K: rk()})
		case x < 13:
			k := rk()
			k[4] = 0
			out = append(out, mStep{Op: "LookupWire", K: k})
		case x < 14:
			out = append(out, mStep{Op: "RetryKey", K: rk()})
		case x < 15:
			out = append(out, mStep{Op: "ResetMatching", K: rk()})
		case x < 16:
			if rng.Intn(2) == 0 {
				out = append(out, mStep{Op: "ResetQuestion", K: rk()})
			} else {
				out = append(out, mStep{Op: "ResetZone", ZK: rz()})
			}
		default:
			out = append(out, mStep{Op: "Tick", D: 1 + rng.Intn(in.Cfg.Max)})
		}
	}
	return out
}

func TestFailureCacheReplay(t *testing.T) {
	var in mInput
	vh.Input(t, &in)
	res := vh.NewResult()
	defer res.Write(t)
	tr, err := newTrace(in.TraceOut)
	if err != nil {
		t.Fatal(err)
	}
	defer tr.close()
	shapes := in.Shapes
	if shapes <= 0 {
		shapes = 1
	}
	runPath := func(id string, steps []mStep, shapeIdx int) {
		si := shapeIdx + in.ShapeBase
		r, err := newFcRun(&in, res, tr, si, pathRand(id+"/"+shapeDefs[si%len(shapeDefs)].name), id)
		if err != nil {
			res.Skip("path %s: %v", id, err)
			return
		}
		defer r.fc.Stop()
		ops := make([]string, 0, len(steps))
		for _, s := range steps {
			ops = append(ops, s.Op)
			if !r.step(s) {
				break
			}
		}
		res.Case(id + "/" + r.sh.name)
		if len(res.Samples) < 2 {
			res.Sample(map[string]any{"path": id, "shape": r.sh.name, "ops": ops})
		}
	}
	for pi, p := range in.Paths {
		if len(res.Skipped) > 0 {
			break
		}
		for s := 0; s < shapes; s++ {
			runPath(p.ID, p.Steps, pi+s)
		}
	}
	for i := 0; i < in.Random && len(res.Skipped) == 0; i++ {
		id := fmt.Sprintf("random%d", i)
		runPath(id, randomSteps(&in, pathRand(id), 60), i)
	}
	res.Count("trace_lines", tr.n)
}

// TestCeiling: "never exceeds the configured maximum (hard ceiling 5 minutes)" at the
// configuration boundary: the constructor must refuse a maximum above five minutes, and a
// cache.Cache built from such a configuration must still never suppress longer.
func TestCeiling(t *testing.T) {
	var in mInput
	vh.Input(t, &in)
	res := vh.NewResult()
	defer res.Write(t)
	clock := newClock()
	for _, max := range []time.Duration{5*time.Minute + time.Second, 10 * time.Minute, time.Hour} {
		res.Case(fmt.Sprint("ceiling/", max))
		res.Count("steps", 1)
		fc, err := mcache.NewFailureCache(mcache.FailureCacheConfig{Size: 16, InitialTTL: time.Second, MaxTTL: max, Now: clock.Now})
		if err == nil {
			// accepted: then it must at least never back off beyond five minutes
			k := getShape(0).realQ(qkey{3, 1, 1, 0, 0}, nil)
			for i := 0; i < 14; i++ {
				hit := fc.RecordQuestion(k, "response", nil)
				if rem := hit.RetryAfter.Sub(clock.Now()); rem > 5*time.Minute {
					violate(res, "Envelope", fmt.Sprintf("NewFailureCache accepted a maximum of %v and backs off %v after %d consecutive failures (hard ceiling 5 minutes)", max, rem, i+1),
						map[string]any{"driver": "TestCeiling", "max": max.String()})
					break
				}
				clock.Advance(hit.RetryAfter.Sub(clock.Now()))
			}
			fc.Stop()
		}
		// through cache.New: an invalid configuration falls back, it never widens the envelope
		c := newCacheWith(time.Second, max, clock)
		sh := getShape(0)
		store, _ := c.Store().(*mcache.Store)
		req := new(dns.Msg)
		req.SetQuestion(sh.names[3], dns.TypeA)
		for i := 0; i < 14 && store != nil; i++ {
			store.RecordFailure(req, netip.Prefix{}, "response", nil)
			worst := time.Duration(0)
			for _, e := range c.VerifC13Failure().VerifC13Snapshot() {
				if d := e.RetryAfter.Sub(clock.Now()); d > worst {
					worst = d
				}
			}
			if worst > 5*time.Minute {
				violate(res, "Envelope", fmt.Sprintf("cache.New with failure_cache_max_ttl=%v suppresses a question for %v after %d consecutive failures (hard ceiling 5 minutes)", max, worst, i+1),
					map[string]any{"driver": "TestCeiling", "max": max.String()})
				break
			}
			clock.Advance(worst)
		}
		c.Stop()
	}
}
