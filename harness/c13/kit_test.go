package c13

// Shared kit of the C13 (RFC 9520 failure cache) conformance drivers:
// the model's key space realised as real DNS names / types / classes / ECS
// audiences under several "shapes", the projection of the real FailureCache
// into model terms (overlay shim VerifC13Snapshot), a Go transliteration of
// FailureCache.tla's operators used as the drift reference (it is itself
// checked against TLC's successor state on every replayed step), the property
// predicates evaluated on what the code returned, and the NDJSON trace writer.

import (
	"encoding/json"
	"fmt"
	"hash/fnv"
	"math/rand"
	"net/netip"
	"os"
	"sort"
	"strings"
	"sync"
	"time"

	"github.com/miekg/dns"
	mcache "github.com/semihalev/sdns/middleware/cache"
	"github.com/semihalev/sdns/verifharness/vh"
)

// ---------------------------------------------------------------- model input

type mCfg struct {
	Min     int            `json:"min"`
	Max     int            `json:"max"`
	Cap     int            `json:"cap"`
	Enabled bool           `json:"enabled"`
	Parent  map[string]int `json:"parent"`
	minD    time.Duration  // explicit durations (TestCeiling only)
	maxD    time.Duration
}

type mEnt struct {
	Key    []int  `json:"key"`
	Streak int    `json:"streak"`
	Rel    int    `json:"rel"`
	Bo     int    `json:"bo"`
	Cause  string `json:"cause"`
}

type mReq struct {
	Pc string `json:"pc"`
	Q  []int  `json:"q"`
	Rg int    `json:"rg"`
	Ld bool   `json:"ld"`
}

type mState struct {
	Q    []mEnt          `json:"q"`
	Z    []mEnt          `json:"z"`
	Reqs map[string]mReq `json:"reqs,omitempty"`
}

type mObs struct {
	Hit    bool   `json:"hit"`
	Kind   string `json:"kind"`
	Src    []int  `json:"src"`
	Streak int    `json:"streak"`
	Rel    int    `json:"rel"`
	N      int    `json:"n"`
	Down   bool   `json:"down"`
	Res    string `json:"res"`
}

type mStep struct {
	Op    string  `json:"op"`
	K     []int   `json:"k,omitempty"`
	ZK    []int   `json:"zk,omitempty"`
	P     []int   `json:"p,omitempty"`
	Cause string  `json:"cause,omitempty"`
	D     int     `json:"d,omitempty"`
	O     string  `json:"o,omitempty"`
	Z     int     `json:"z,omitempty"`
	R     int     `json:"r,omitempty"`
	Dst   *mState `json:"dst,omitempty"`
	Exp   *mObs   `json:"exp,omitempty"`
}

type mPath struct {
	ID    string  `json:"id"`
	Steps []mStep `json:"steps"`
}

type mInput struct {
	Cfg      mCfg    `json:"cfg"`
	Shapes   int     `json:"shapes"`
	Paths    []mPath `json:"paths"`
	TraceOut string  `json:"traceOut"`
	Random   int     `json:"random"` // extra driver-generated workloads for the trace direction
	// ShapeBase offsets the shape rotation (a --replay run re-creates the shape of the failing case)
	ShapeBase int   `json:"shapeBase"`
	QNames    []int `json:"qnames"`
	ZNames    []int `json:"znames"`
	Types     []int `json:"types"`
	Classes   []int `json:"classes"`
	CDs       []int `json:"cds"`
	Scopes    []int `json:"scopes"`
}

func (s mStep) String() string {
	b, _ := json.Marshal(struct {
		Op    string `json:"op"`
		K     []int  `json:"k,omitempty"`
		ZK    []int  `json:"zk,omitempty"`
		P     []int  `json:"p,omitempty"`
		Cause string `json:"cause,omitempty"`
		D     int    `json:"d,omitempty"`
		O     string `json:"o,omitempty"`
		Z     *int   `json:"z,omitempty"`
		R     int    `json:"r,omitempty"`
	}{s.Op, s.K, s.ZK, s.P, s.Cause, s.D, s.O, zptr(s), s.R})
	return string(b)
}

func zptr(s mStep) *int {
	if s.Op == "Request" || s.Op == "Finish" {
		z := s.Z
		return &z
	}
	return nil
}

// ---------------------------------------------------------------- key space

type qkey struct{ n, t, c, cd, s int }
type zkey struct{ z, c int }

func qk(a []int) qkey     { return qkey{a[0], a[1], a[2], a[3], a[4]} }
func zk(a []int) zkey     { return zkey{a[0], a[1]} }
func (k qkey) arr() []int { return []int{k.n, k.t, k.c, k.cd, k.s} }
func (k zkey) arr() []int { return []int{k.z, k.c} }

// shape maps the model's ids to real DNS data. Name 5 is always a string
// suffix of zone 2 without a label boundary.
type shape struct {
	name    string
	names   map[int]string
	types   map[int]uint16
	classes map[int]uint16
	scopes  map[int]netip.Prefix
	mixCase bool
	rev     map[string]int
}

var shapeDefs = []shape{
	{name: "plain", names: map[int]string{0: ".", 1: "zed.", 2: "b.zed.", 3: "a.b.zed.", 4: "c.b.zed.", 5: "ab.zed."},
		types: map[int]uint16{1: dns.TypeA, 2: dns.TypeAAAA}, classes: map[int]uint16{1: dns.ClassINET, 2: dns.ClassCHAOS},
		scopes: map[int]netip.Prefix{1: netip.MustParsePrefix("192.0.2.0/24"), 2: netip.MustParsePrefix("198.51.100.0/24")}},
	{name: "words-mixedcase", names: map[int]string{0: ".", 1: "example.", 2: "dead.example.", 3: "www.dead.example.", 4: "mail.dead.example.", 5: "undead.example."},
		types: map[int]uint16{1: dns.TypeAAAA, 2: dns.TypeMX}, classes: map[int]uint16{1: dns.ClassINET, 2: dns.ClassHESIOD},
		scopes: map[int]netip.Prefix{1: netip.MustParsePrefix("2001:db8:1::/56"), 2: netip.MustParsePrefix("203.0.113.0/24")}, mixCase: true},
	{name: "escaped-dot", names: map[int]string{0: ".", 1: "zed.", 2: "b.zed.", 3: "a.b.zed.", 4: "x-1.b.zed.", 5: `a\.b.zed.`},
		types: map[int]uint16{1: dns.TypeTXT, 2: dns.TypeA}, classes: map[int]uint16{1: dns.ClassINET, 2: dns.ClassCHAOS},
		scopes: map[int]netip.Prefix{1: netip.MustParsePrefix("192.0.2.128/25"), 2: netip.MustParsePrefix("192.0.2.0/24")}},
}

func getShape(i int) *shape {
	s := shapeDefs[i%len(shapeDefs)]
	s.rev = map[string]int{}
	for id, n := range s.names {
		s.rev[dns.CanonicalName(n)] = id
	}
	return &s
}

func (s *shape) typeID(t uint16) int {
	for id, v := range s.types {
		if v == t {
			return id
		}
	}
	return -1
}
func (s *shape) classID(c uint16) int {
	for id, v := range s.classes {
		if v == c {
			return id
		}
	}
	return -1
}
func (s *shape) scopeID(p netip.Prefix) int {
	if !p.IsValid() || p.Bits() == 0 {
		return 0
	}
	for id, v := range s.scopes {
		if v == p {
			return id
		}
	}
	return -1
}

func (s *shape) realName(id int, rng *rand.Rand) string {
	n := s.names[id]
	if !s.mixCase || rng == nil {
		return n
	}
	b := []byte(n)
	for i := range b {
		if b[i] >= 'a' && b[i] <= 'z' && rng.Intn(2) == 0 {
			b[i] -= 'a' - 'A'
		}
	}
	return string(b)
}

func (s *shape) realScope(id int, rng *rand.Rand) netip.Prefix {
	if id == 0 {
		if rng != nil && rng.Intn(3) == 0 {
			return netip.MustParsePrefix("0.0.0.0/0") // /0 is the shared audience too
		}
		return netip.Prefix{}
	}
	return s.scopes[id]
}

func (s *shape) realQ(k qkey, rng *rand.Rand) mcache.FailureQuestionKey {
	return mcache.FailureQuestionKey{
		Question: dns.Question{Name: s.realName(k.n, rng), Qtype: s.types[k.t], Qclass: s.classes[k.c]},
		CD:       k.cd == 1,
		Scope:    s.realScope(k.s, rng),
	}
}

func (s *shape) realZ(k zkey, rng *rand.Rand) mcache.FailureZoneKey {
	return mcache.FailureZoneKey{Zone: s.realName(k.z, rng), Qclass: s.classes[k.c]}
}

// back-projection of what the code returned
func (s *shape) modelQ(k mcache.FailureQuestionKey) (qkey, bool) {
	n, ok := s.rev[dns.CanonicalName(k.Question.Name)]
	out := qkey{n, s.typeID(k.Question.Qtype), s.classID(k.Question.Qclass), 0, s.scopeID(k.Scope)}
	if k.CD {
		out.cd = 1
	}
	return out, ok && out.t > 0 && out.c > 0 && out.s >= 0
}

func (s *shape) modelZ(k mcache.FailureZoneKey) (zkey, bool) {
	n, ok := s.rev[dns.CanonicalName(k.Zone)]
	out := zkey{n, s.classID(k.Qclass)}
	return out, ok && out.c > 0
}

// ---------------------------------------------------------------- clock

type vclock struct {
	mu  sync.Mutex
	now time.Time
}

func newClock() *vclock {
	return &vclock{now: time.Date(2026, 9, 25, 12, 0, 0, 0, time.UTC)}
}
func (c *vclock) Now() time.Time {
	c.mu.Lock()
	defer c.mu.Unlock()
	return c.now
}
func (c *vclock) Advance(d time.Duration) {
	c.mu.Lock()
	c.now = c.now.Add(d)
	c.mu.Unlock()
}

// ---------------------------------------------------------------- reference model (FailureCache.tla, transliterated)

type oEnt struct {
	streak int
	ra     time.Time
	bo     int // seconds
	cause  string
}

type oracle struct {
	cfg   mCfg
	clock *vclock
	q     map[qkey]*oEnt
	z     map[zkey]*oEnt
	scap  int
}

func newOracle(cfg mCfg, clock *vclock) *oracle {
	o := &oracle{cfg: cfg, clock: clock, q: map[qkey]*oEnt{}, z: map[zkey]*oEnt{}}
	o.scap = 1
	for o.backoff(o.scap) < cfg.Max && o.scap < 40 {
		o.scap++
	}
	return o
}

func (o *oracle) backoff(streak int) int {
	ttl := o.cfg.Min
	for g := 1; g < streak && ttl < o.cfg.Max; g++ {
		if 2*ttl > o.cfg.Max {
			return o.cfg.Max
		}
		ttl *= 2
	}
	if ttl > o.cfg.Max {
		return o.cfg.Max
	}
	return ttl
}

func (o *oracle) walk(n int) []int {
	out := []int{}
	for guard := 0; guard < 64; guard++ {
		out = append(out, n)
		if n == 0 {
			break
		}
		n = o.cfg.Parent[fmt.Sprint(n)]
	}
	return out
}

func (o *oracle) atOrAbove(z, n int) bool {
	for _, x := range o.walk(n) {
		if x == z {
			return true
		}
	}
	return false
}

func (o *oracle) rel(e *oEnt) int {
	d := e.ra.Sub(o.clock.Now())
	r := int(d / time.Second)
	if d > 0 && d%time.Second != 0 {
		r++ // sub-second remainders count as still active
	}
	if r < -o.cfg.Max {
		r = -o.cfg.Max
	}
	return r
}

func (o *oracle) active(e *oEnt) bool { return e != nil && o.clock.Now().Before(e.ra) }

type obs struct {
	hit    bool
	kind   string // "q" | "z" | "-"
	q      qkey
	z      zkey
	streak int
	rel    int
	n      int
}

func (a obs) src() []int {
	switch a.kind {
	case "q":
		return a.q.arr()
	case "z":
		return a.z.arr()
	}
	return []int{}
}

func (o *oracle) lookup(k qkey) obs {
	if !o.cfg.Enabled {
		return obs{kind: "-"}
	}
	if e := o.q[k]; o.active(e) {
		return obs{hit: true, kind: "q", q: k, streak: min(e.streak, o.scap), rel: o.rel(e)}
	}
	for _, zn := range o.walk(k.n) {
		zz := zkey{zn, k.c}
		if e := o.z[zz]; o.active(e) {
			return obs{hit: true, kind: "z", z: zz, streak: min(e.streak, o.scap), rel: o.rel(e)}
		}
	}
	return obs{kind: "-"}
}

// retryKey returns the predicted probe generation ("" = none).
func (o *oracle) retryKey(k qkey) obs {
	if !o.cfg.Enabled {
		return obs{kind: "-"}
	}
	if o.active(o.q[k]) {
		return obs{kind: "-"}
	}
	var closest *zkey
	for _, zn := range o.walk(k.n) {
		zz := zkey{zn, k.c}
		e := o.z[zz]
		if e == nil {
			continue
		}
		if o.active(e) {
			return obs{kind: "-"}
		}
		if closest == nil {
			c := zz
			closest = &c
		}
	}
	if closest != nil {
		return obs{hit: true, kind: "z", z: *closest}
	}
	if o.q[k] != nil {
		return obs{hit: true, kind: "q", q: k}
	}
	return obs{kind: "-"}
}

// recordEntry returns the new entry, whether it is a new generation and the previous one.
func (o *oracle) recordEntry(cur *oEnt, cause string) (*oEnt, bool) {
	now := o.clock.Now()
	if cur == nil {
		return &oEnt{streak: 1, ra: now.Add(time.Duration(o.cfg.Min) * time.Second), bo: o.cfg.Min, cause: cause}, true
	}
	if now.Before(cur.ra) {
		return cur, false
	}
	s := cur.streak + 1
	if now.Sub(cur.ra) >= time.Duration(o.cfg.Max)*time.Second {
		s = 1
	}
	b := o.backoff(s)
	return &oEnt{streak: s, ra: now.Add(time.Duration(b) * time.Second), bo: b, cause: cause}, true
}

func (o *oracle) recordQ(k qkey, cause string) (obs, bool, *oEnt) {
	if !o.cfg.Enabled {
		return obs{kind: "-"}, false, nil
	}
	prev := o.q[k]
	e, ng := o.recordEntry(prev, cause)
	o.q[k] = e
	return obs{hit: true, kind: "q", q: k, streak: min(e.streak, o.scap), rel: o.rel(e)}, ng, prev
}

func (o *oracle) recordZ(k zkey, cause string) (obs, bool, *oEnt) {
	if !o.cfg.Enabled {
		return obs{kind: "-"}, false, nil
	}
	prev := o.z[k]
	e, ng := o.recordEntry(prev, cause)
	o.z[k] = e
	return obs{hit: true, kind: "z", z: k, streak: min(e.streak, o.scap), rel: o.rel(e)}, ng, prev
}

func (o *oracle) resetQ(k qkey) int {
	if _, ok := o.q[k]; ok {
		delete(o.q, k)
		return 1
	}
	return 0
}
func (o *oracle) resetZ(k zkey) int {
	if _, ok := o.z[k]; ok {
		delete(o.z, k)
		return 1
	}
	return 0
}
func (o *oracle) resetMatching(k qkey) int {
	n := o.resetQ(k)
	for _, zn := range o.walk(k.n) {
		n += o.resetZ(zkey{zn, k.c})
	}
	return n
}
func (o *oracle) purge(n, t, c int) int {
	removed := 0
	for k := range o.q {
		if k.n == n && k.t == t && k.c == c {
			delete(o.q, k)
			removed++
		}
	}
	removed += o.resetZ(zkey{n, c})
	return removed
}

// covering reports whether an active entry legitimately covers k.
func (o *oracle) covering(k qkey) bool { return o.lookup(k).hit }

func (o *oracle) project() (q, z []mEnt) {
	for k, e := range o.q {
		q = append(q, mEnt{Key: k.arr(), Streak: min(e.streak, o.scap), Rel: o.rel(e), Bo: e.bo, Cause: e.cause})
	}
	for k, e := range o.z {
		z = append(z, mEnt{Key: k.arr(), Streak: min(e.streak, o.scap), Rel: o.rel(e), Bo: e.bo, Cause: e.cause})
	}
	sortEnts(q)
	sortEnts(z)
	return
}

func sortEnts(e []mEnt) {
	sort.Slice(e, func(i, j int) bool { return fmt.Sprint(e[i].Key) < fmt.Sprint(e[j].Key) })
}

func entsEqual(a, b []mEnt, withBo bool) bool {
	if len(a) != len(b) {
		return false
	}
	for i := range a {
		if fmt.Sprint(a[i].Key) != fmt.Sprint(b[i].Key) || a[i].Streak != b[i].Streak || a[i].Rel != b[i].Rel || a[i].Cause != b[i].Cause {
			return false
		}
		if withBo && a[i].Bo != b[i].Bo {
			return false
		}
	}
	return true
}

// sameAsModel compares the reference model with TLC's successor state.
func (o *oracle) sameAsModel(dst *mState) (bool, string) {
	q, z := o.project()
	dq := append([]mEnt(nil), dst.Q...)
	dz := append([]mEnt(nil), dst.Z...)
	sortEnts(dq)
	sortEnts(dz)
	if !entsEqual(q, dq, true) || !entsEqual(z, dz, true) {
		return false, fmt.Sprintf("reference %v %v vs TLC %v %v", q, z, dq, dz)
	}
	return true, ""
}

// ---------------------------------------------------------------- projection of the real structure

type realEnt struct {
	streak uint32
	ra     time.Time
	prov   string
}

type realState struct {
	q       map[qkey]realEnt
	z       map[zkey]realEnt
	unknown []string
}

func snapshot(fc *mcache.FailureCache, sh *shape) realState {
	rs := realState{q: map[qkey]realEnt{}, z: map[zkey]realEnt{}}
	for _, e := range fc.VerifC13Snapshot() {
		switch e.Kind {
		case mcache.FailureKindQuestion:
			k, ok := sh.modelQ(mcache.FailureQuestionKey{Question: e.Question, CD: e.CD, Scope: e.Scope})
			if !ok {
				rs.unknown = append(rs.unknown, fmt.Sprintf("question %v cd=%v scope=%v", e.Question, e.CD, e.Scope))
				continue
			}
			rs.q[k] = realEnt{e.Streak, e.RetryAfter, e.Provenance}
		case mcache.FailureKindZone:
			k, ok := sh.modelZ(mcache.FailureZoneKey{Zone: e.Zone, Qclass: e.Qclass})
			if !ok {
				rs.unknown = append(rs.unknown, fmt.Sprintf("zone %q class %d", e.Zone, e.Qclass))
				continue
			}
			rs.z[k] = realEnt{e.Streak, e.RetryAfter, e.Provenance}
		}
	}
	return rs
}

func relOf(ra, now time.Time, max int) int {
	d := ra.Sub(now)
	r := int(d / time.Second)
	if d > 0 && d%time.Second != 0 {
		r++
	}
	if r < -max {
		r = -max
	}
	return r
}

func capStreak(s uint32) int {
	if s > 99 {
		return 99
	}
	return int(s)
}

// traceRows renders a snapshot as the q / z arrays of a trace line.
func (rs realState) traceRows(now time.Time, max int) (q, z [][]any) {
	q, z = [][]any{}, [][]any{}
	qs := make([]qkey, 0, len(rs.q))
	for k := range rs.q {
		qs = append(qs, k)
	}
	sort.Slice(qs, func(i, j int) bool { return fmt.Sprint(qs[i]) < fmt.Sprint(qs[j]) })
	for _, k := range qs {
		e := rs.q[k]
		q = append(q, []any{k.n, k.t, k.c, k.cd, k.s, capStreak(e.streak), relOf(e.ra, now, max), e.prov})
	}
	zs := make([]zkey, 0, len(rs.z))
	for k := range rs.z {
		zs = append(zs, k)
	}
	sort.Slice(zs, func(i, j int) bool { return fmt.Sprint(zs[i]) < fmt.Sprint(zs[j]) })
	for _, k := range zs {
		e := rs.z[k]
		z = append(z, []any{k.z, k.c, capStreak(e.streak), relOf(e.ra, now, max), e.prov})
	}
	return
}

// resync makes the reference model follow the real structure (after drift);
// returns a description of the differences ("" = none).
func (o *oracle) resync(rs realState) string {
	var diffs []string
	for k, r := range rs.q {
		e := o.q[k]
		if e == nil {
			diffs = append(diffs, fmt.Sprintf("code has question %v the model lacks", k))
			o.q[k] = &oEnt{streak: int(r.streak), ra: r.ra, bo: max(o.cfg.Min, relOf(r.ra, o.clock.Now(), o.cfg.Max)), cause: r.prov}
			continue
		}
		if !e.ra.Equal(r.ra) || min(e.streak, o.scap) != min(int(r.streak), o.scap) {
			diffs = append(diffs, fmt.Sprintf("question %v: model streak %d retryAfter %s, code streak %d retryAfter %s", k, e.streak, e.ra.Format("15:04:05"), r.streak, r.ra.Format("15:04:05")))
			e.ra, e.streak = r.ra, int(r.streak)
		}
	}
	for k := range o.q {
		if _, ok := rs.q[k]; !ok {
			diffs = append(diffs, fmt.Sprintf("model has question %v the code lacks", k))
			delete(o.q, k)
		}
	}
	for k, r := range rs.z {
		e := o.z[k]
		if e == nil {
			diffs = append(diffs, fmt.Sprintf("code has zone %v the model lacks", k))
			o.z[k] = &oEnt{streak: int(r.streak), ra: r.ra, bo: max(o.cfg.Min, relOf(r.ra, o.clock.Now(), o.cfg.Max)), cause: r.prov}
			continue
		}
		if !e.ra.Equal(r.ra) || min(e.streak, o.scap) != min(int(r.streak), o.scap) {
			diffs = append(diffs, fmt.Sprintf("zone %v: model streak %d retryAfter %s, code streak %d retryAfter %s", k, e.streak, e.ra.Format("15:04:05"), r.streak, r.ra.Format("15:04:05")))
			e.ra, e.streak = r.ra, int(r.streak)
		}
	}
	for k := range o.z {
		if _, ok := rs.z[k]; !ok {
			diffs = append(diffs, fmt.Sprintf("model has zone %v the code lacks", k))
			delete(o.z, k)
		}
	}
	sort.Strings(diffs)
	return strings.Join(diffs, "; ")
}

// ---------------------------------------------------------------- trace writer

type traceWriter struct {
	f *os.File
	n int
}

func newTrace(path string) (*traceWriter, error) {
	if path == "" {
		return &traceWriter{}, nil
	}
	f, err := os.Create(path)
	if err != nil {
		return nil, err
	}
	return &traceWriter{f: f}, nil
}

func (t *traceWriter) emit(e map[string]any) {
	if t.f == nil {
		return
	}
	b, _ := json.Marshal(e)
	t.f.Write(append(b, '\n'))
	t.n++
}

func (t *traceWriter) close() {
	if t.f != nil {
		t.f.Close()
	}
}

// ---------------------------------------------------------------- misc

// pathRand is the per-path random source: every choice a driver makes for one
// path (spelling, audience spelling, wire/message birth, cause variants)
// depends only on VERIF_SEED and the path id, so a single path replays alike.
func pathRand(id string) *rand.Rand {
	h := fnv.New64a()
	h.Write([]byte(id))
	return rand.New(rand.NewSource(vh.Seed()*1_000_003 + int64(h.Sum64()>>1)))
}

func shapeIndex(name string) int {
	for i, s := range shapeDefs {
		if s.name == name {
			return i
		}
	}
	return 0
}

func violate(res *vh.Result, pred, what string, replay any) {
	res.Violate("c13/"+pred, pred+": "+what, replay)
}

func histTail(h []string, n int) []string {
	if len(h) > n {
		return h[len(h)-n:]
	}
	return h
}
