package x13zb

// X13ZB -- ZoneBrk.tla histories on the REAL full pipeline (serves C11, C12, C13).
//
// A history of ZoneBrk.tla is a sequence of request trees of several clients
// against ONE zone with N scripted authoritative servers, interleaved with the
// adversary's moves (a server changes its behaviour, 32 s pass).  Every history
// gets a zone of its own (own advertised server addresses, so the resolver's
// per-address circuit breaker and the RFC 9520 zone failure are private to the
// history) and is played request by request through pipe.NewResolverServer:
// default chain incl. cache + resolver, DNSSEC off, rfc9520 on, recursion
// firewall in ENFORCE mode with a small outbound-query budget.
//
// Request kinds (ZoneBrk.tla):
//
//	patient    x<i>.<zone> A, context.Background(): waits for any healthy server
//	impatient  the same with the client's own deadline (ImpatientMs) on the request
//	           context (ServeMsg's parent context, as DoH / an embedder hands it in)
//	hangup     the same, the client cancels after ImpatientMs
//	deep       d<i>-<zone>-<L>.h1.test. A: a CNAME chain over L healthy zones (one
//	           outbound query each) whose last target is x<i>.<zone>.  L is found by
//	           calibration so that the chain spends exactly the tree's budget: the
//	           attempt aimed at <zone>'s servers is refused by the tree's own ledger
//	           before anything is sent.
//
// Server modes: fast | late (a correct answer after LateMs: longer than an
// impatient client waits, far inside the upstream attempt timeout) | garbage
// (an unusable datagram on every attempt) | servfail.
//
// The oracle is the scripted servers' own record (which packet reached which
// server for which client's question, what it was made to answer) and the
// client-visible replies; nothing of the resolver's internals:
//
//	OthersNotFailed  a PATIENT client answered SERVFAIL while not one packet for its
//	                 question reached the zone's servers -- it was failed without
//	                 the authority being asked -- is legal only if every server of
//	                 the zone genuinely failed (garbage / failure rcode) in at least
//	                 Trip earlier request trees, or a zone failure is legally cached.
//	OnlyWhatFailed   any client answered SERVFAIL + EDE 13 without a packet for its
//	                 (never asked before) name reaching the zone's servers -- a ZONE
//	                 failure is being served -- is legal only if in some earlier
//	                 request tree EVERY server of the zone failed to give a usable
//	                 response (asked and answered garbage / a failure rcode on every
//	                 attempt, or legitimately skipped as above).
//
// Request-local endings of earlier clients (their deadline, their hang-up, their
// tree's budget, a faster peer) are never a reason.  "Legitimately skipped" is
// deliberately generous (failing trees are counted without resets or cool-down),
// so a verdict never hinges on the breaker's own arithmetic (Breaker.tla, X11FL).
// A flagged history is re-run alone on a fresh zone; only a reproduced predicate
// failure is reported.  Differences from the model's predicted verdicts are drift.

import (
	"context"
	"fmt"
	"net"
	"sort"
	"strconv"
	"strings"
	"sync"
	"testing"
	"time"

	"github.com/miekg/dns"
	"github.com/semihalev/sdns/config"
	"github.com/semihalev/sdns/middleware"
	"github.com/semihalev/sdns/middleware/resolver"
	"github.com/semihalev/sdns/server"
	"github.com/semihalev/sdns/verifharness/authkit"
	"github.com/semihalev/sdns/verifharness/pipe"
	"github.com/semihalev/sdns/verifharness/vh"
)

type hExp struct {
	Verdict string   `json:"verdict"`
	End     []string `json:"end"`
	Cnt     []int    `json:"cnt"`
	Open    []bool   `json:"open"`
}

type hStep struct {
	Op   string `json:"op"` // req | mode | tick
	Kind string `json:"kind,omitempty"`
	S    int    `json:"s,omitempty"` // 1-based
	M    string `json:"m,omitempty"`
	Exp  *hExp  `json:"exp,omitempty"`
}

type hist struct {
	ID    string   `json:"id"`
	N     int      `json:"n"`
	Init  []string `json:"init"`
	Steps []hStep  `json:"steps"`
	Src   string   `json:"src"`
}

type bInput struct {
	Histories      []hist `json:"histories"`
	Prop           string `json:"prop"` // the property the tier is judged for (wording of the violation)
	LateMs         int    `json:"lateMs"`
	ImpatientMs    int    `json:"impatientMs"`
	UpTimeoutMs    int    `json:"upTimeoutMs"`
	QueryTimeoutMs int    `json:"queryTimeoutMs"`
	BackoffS       int    `json:"backoffS"`
	Budget         int    `json:"budget"`
	Trip           int    `json:"trip"`
	Parallel       int    `json:"parallel"`
	Confirm        bool   `json:"confirm"`
}

const (
	maxServers   = 2
	maxChain     = 10
	tickSecs     = 32
	starvedAfter = 400 * time.Millisecond
)

var truthIP = net.IPv4(10, 13, 7, 1)

// ------------------------------------------------------------------ scripted zone

type attempt struct {
	Epoch int
	Srv   int
	Proto string
	Beh   string
	At    time.Time
	Wrote time.Time
	Delay time.Duration
}

type zoneState struct {
	mu    sync.Mutex
	name  string
	n     int
	mode  []string
	epoch int
	qname string
	log   []*attempt
	other int
	addrs []string // advertised addresses (the breaker's keys)
}

func (z *zoneState) begin(qname string) int {
	z.mu.Lock()
	defer z.mu.Unlock()
	z.epoch++
	z.qname = strings.ToLower(qname)
	return z.epoch
}

func (z *zoneState) setMode(s int, m string) {
	z.mu.Lock()
	z.mode[s] = m
	z.mu.Unlock()
}

type player struct {
	mu    sync.Mutex
	zones map[string]*zoneState
	late  time.Duration
}

func (p *player) zone(name string) *zoneState {
	p.mu.Lock()
	defer p.mu.Unlock()
	return p.zones[name]
}

func (p *player) hook(j int) func(*authkit.Exchange) {
	return func(ex *authkit.Exchange) {
		if ex.Zone == nil {
			return
		}
		zs := p.zone(ex.Zone.Name)
		if zs == nil || j >= zs.n {
			return
		}
		name := strings.ToLower(ex.Q.Name)
		zs.mu.Lock()
		if name != zs.qname || ex.Q.Qtype != dns.TypeA {
			zs.other++ // NS / address look-ups and stragglers of earlier questions: answered honestly
			zs.mu.Unlock()
			return
		}
		beh := zs.mode[j]
		rec := &attempt{Epoch: zs.epoch, Srv: j, Proto: ex.Proto, Beh: beh, At: time.Now()}
		zs.log = append(zs.log, rec)
		zs.mu.Unlock()
		switch beh {
		case "fast":
		case "late":
			rec.Delay = p.late
			time.Sleep(p.late)
		case "servfail":
			m := new(dns.Msg)
			m.SetRcode(ex.Req, dns.RcodeServerFailure)
			ex.Resp = m
		case "garbage":
			ex.Garbage = true
		}
		zs.mu.Lock()
		rec.Wrote = time.Now()
		zs.mu.Unlock()
	}
}

// ------------------------------------------------------------------ world

type world struct {
	in     *bInput
	n      *authkit.Net
	tz     *authkit.Zone
	fault  []*authkit.Server
	okSrv  *authkit.Server
	p      *player
	srv    *server.Server
	res    *resolver.Resolver
	serial int
	mu     sync.Mutex
	hops   map[string]int // chain label -> hops served
	deepL  int            // calibrated chain length
}

func newWorld(in *bInput) (*world, error) {
	n, err := authkit.NewNet(false)
	if err != nil {
		return nil, err
	}
	w := &world{in: in, n: n, hops: map[string]int{},
		p: &player{zones: map[string]*zoneState{}, late: time.Duration(in.LateMs) * time.Millisecond}}
	if w.tz, _, err = n.Delegate("test.", authkit.DelegateOpts{}); err != nil {
		return nil, err
	}
	for j := 0; j < maxServers; j++ {
		s, err := n.AddServer(fmt.Sprintf("zb-%d", j+1))
		if err != nil {
			return nil, err
		}
		s.SetHook(w.p.hook(j))
		w.fault = append(w.fault, s)
	}
	if w.okSrv, err = n.AddServer("zb-ok"); err != nil {
		return nil, err
	}
	w.okSrv.SetHook(w.chainHook)
	srv, _ := pipe.NewResolverServer(pipe.ResolverOpts{RootAddr: n.RootSrv.Addr, Mapper: n.Mapper(), Dir: "",
		Mutate: func(c *config.Config) {
			c.Timeout.Duration = time.Duration(in.UpTimeoutMs) * time.Millisecond
			c.QueryTimeout.Duration = time.Duration(in.QueryTimeoutMs) * time.Millisecond
			c.RecursionFirewall.Mode = config.RecursionFirewallModeEnforce
			c.RecursionFirewall.MaxOutboundQueries = uint32(in.Budget)
			c.RecursionFirewall.FailureCacheSize = 1 << 14
			c.RecursionFirewall.FailureCacheMinTTL.Duration = time.Duration(in.BackoffS) * time.Second
			c.RecursionFirewall.FailureCacheMaxTTL.Duration = 5 * time.Minute
		}})
	w.srv = srv
	h, ok := middleware.Get("resolver").(interface{ VerifResolver() *resolver.Resolver })
	if !ok {
		return nil, fmt.Errorf("the resolver handler does not expose VerifResolver (overlay shim missing)")
	}
	w.res = h.VerifResolver()
	// the healthy chain zones h1 .. h10 of the deep (over-budget) trees
	for j := 1; j <= maxChain; j++ {
		w.addHonestZone(fmt.Sprintf("h%d", j))
	}
	return w, nil
}

func (w *world) stop() {
	w.n.Stop()
	middleware.Reset()
}

func (w *world) addHonestZone(label string) {
	zn := label + ".test."
	z := authkit.NewZone(zn, false)
	z.Remove(zn, dns.TypeNS)
	h := "ns1." + zn
	ip := w.n.AllocGlue(w.okSrv)
	z.AddRR(authkit.NSRR(zn, h, 3600))
	z.AddRR(authkit.ARR(h, ip, 3600))
	z.AddRR(authkit.ARR("*."+zn, truthIP, 300))
	w.okSrv.AddZone(z)
	w.n.AdoptZone(z, w.okSrv)
	w.tz.Delegate(&authkit.Cut{Name: zn, NS: []dns.RR{authkit.NSRR(zn, h, 3600)}, Glue: []dns.RR{authkit.ARR(h, ip, 3600)}})
}

// chainHook: d<i>-<zone label>-<L>.h<J>.test. is an alias of the same label in h<J+1>, and at J = L of
// x<i>.<zone label>.test. -- one outbound query per hop.
func (w *world) chainHook(ex *authkit.Exchange) {
	if ex.Zone == nil || !strings.HasPrefix(ex.Zone.Name, "h") {
		return
	}
	name := strings.ToLower(ex.Q.Name)
	label := strings.SplitN(name, ".", 2)[0]
	if !strings.HasPrefix(label, "d") || name != label+"."+ex.Zone.Name {
		return
	}
	parts := strings.Split(label, "-")
	if len(parts) != 3 {
		return
	}
	j, err1 := strconv.Atoi(strings.TrimSuffix(strings.TrimPrefix(ex.Zone.Name, "h"), ".test."))
	l, err2 := strconv.Atoi(parts[2])
	if err1 != nil || err2 != nil {
		return
	}
	target := fmt.Sprintf("%s.h%d.test.", label, j+1)
	if j >= l {
		target = fmt.Sprintf("x%s.%s.test.", strings.TrimPrefix(parts[0], "d"), parts[1])
	}
	m := new(dns.Msg)
	m.SetReply(ex.Req)
	m.Authoritative = true
	m.Answer = []dns.RR{&dns.CNAME{Hdr: dns.RR_Header{Name: ex.Q.Name, Rrtype: dns.TypeCNAME, Class: dns.ClassINET, Ttl: 60}, Target: target}}
	ex.Resp = m
	w.mu.Lock()
	w.hops[label]++
	w.mu.Unlock()
}

// addZone creates <label>.test. hosted on the first n fault servers, each under an advertised address of its own.
func (w *world) addZone(label string, modes []string) *zoneState {
	zn := label + ".test."
	z := authkit.NewZone(zn, false)
	z.Remove(zn, dns.TypeNS)
	cut := &authkit.Cut{Name: zn}
	zs := &zoneState{name: zn, n: len(modes), mode: append([]string(nil), modes...)}
	for j := 0; j < len(modes); j++ {
		h := fmt.Sprintf("ns%d.%s", j+1, zn)
		ip := w.n.AllocGlue(w.fault[j])
		z.AddRR(authkit.NSRR(zn, h, 3600))
		z.AddRR(authkit.ARR(h, ip, 3600))
		cut.NS = append(cut.NS, authkit.NSRR(zn, h, 3600))
		cut.Glue = append(cut.Glue, authkit.ARR(h, ip, 3600))
		zs.addrs = append(zs.addrs, net.JoinHostPort(ip.String(), "53"))
	}
	z.AddRR(authkit.ARR("*."+zn, truthIP, 300))
	w.p.mu.Lock()
	w.p.zones[zn] = zs
	w.p.mu.Unlock()
	for j := 0; j < len(modes); j++ {
		w.fault[j].AddZone(z)
	}
	w.n.AdoptZone(z, w.fault[0])
	w.tz.Delegate(cut)
	return zs
}

type rep struct {
	Name   string `json:"name"`
	Got    bool   `json:"got"`
	Rcode  string `json:"rcode"`
	EDE    int    `json:"ede"`
	Text   string `json:"edeText,omitempty"`
	Cached bool   `json:"cached"` // SERVFAIL + EDE 13
	Ans    int    `json:"answers"`
	Ms     int64  `json:"ms"`
	rcode  int
}

// ask sends one query through Server.ServeMsg under the client's context.
func (w *world) ask(ctx context.Context, name string, qt uint16, client string) rep {
	q := new(dns.Msg)
	q.SetQuestion(name, qt)
	q.RecursionDesired = true
	q.SetEdns0(1232, false)
	sink := &pipe.Sink{Remote: pipe.Addr("udp", client, 40000)}
	t0 := time.Now()
	w.srv.ServeMsg(ctx, sink, q)
	out := rep{Name: name, EDE: -1, rcode: -1, Ms: time.Since(t0).Milliseconds()}
	if len(sink.Writes) == 0 {
		return out
	}
	m := new(dns.Msg)
	if err := m.Unpack(sink.Writes[len(sink.Writes)-1]); err != nil {
		return out
	}
	out.Got, out.rcode, out.Rcode, out.Ans = true, m.Rcode, dns.RcodeToString[m.Rcode], len(m.Answer)
	if opt := m.IsEdns0(); opt != nil {
		for _, o := range opt.Option {
			if e, ok := o.(*dns.EDNS0_EDE); ok {
				out.EDE, out.Text = int(e.InfoCode), e.ExtraText
			}
		}
	}
	out.Cached = m.Rcode == dns.RcodeServerFailure && out.EDE == int(dns.ExtendedErrorCodeCachedError)
	return out
}

func (w *world) askKind(kind, name string, client string) rep {
	switch kind {
	case "impatient":
		ctx, cancel := context.WithTimeout(context.Background(), time.Duration(w.in.ImpatientMs)*time.Millisecond)
		defer cancel()
		return w.ask(ctx, name, dns.TypeA, client)
	case "hangup":
		ctx, cancel := context.WithCancel(context.Background())
		t := time.AfterFunc(time.Duration(w.in.ImpatientMs)*time.Millisecond, cancel)
		defer t.Stop()
		defer cancel()
		return w.ask(ctx, name, dns.TypeA, client)
	}
	return w.ask(context.Background(), name, dns.TypeA, client)
}

// calibrate finds the chain length L whose tree spends exactly the budget before the attempt aimed at the
// final zone: L hops are served, the final zone's servers see nothing, the client gets SERVFAIL; L-1 resolves.
func (w *world) calibrate() error {
	for j := 1; j <= maxChain; j++ { // warm the delegations of the chain zones
		if r := w.ask(context.Background(), fmt.Sprintf("warm.h%d.test.", j), dns.TypeA, "198.51.100.253"); !r.Got || r.rcode != dns.RcodeSuccess {
			return fmt.Errorf("chain zone h%d does not resolve: %+v", j, r)
		}
	}
	cal := w.addZone("zbcal", []string{"fast"})
	if r := w.ask(context.Background(), cal.name, dns.TypeNS, "198.51.100.253"); !r.Got || r.rcode != dns.RcodeSuccess {
		return fmt.Errorf("calibration zone does not resolve: %+v", r)
	}
	prevOK := false
	for l := 1; l <= maxChain; l++ {
		label := fmt.Sprintf("d%d-zbcal-%d", l, l)
		e := cal.begin(fmt.Sprintf("x%d.zbcal.test.", l))
		r := w.ask(context.Background(), label+".h1.test.", dns.TypeA, "198.51.100.253")
		time.Sleep(20 * time.Millisecond)
		pk := cal.packets(e)
		w.mu.Lock()
		hops := w.hops[label]
		w.mu.Unlock()
		if !r.Got {
			return fmt.Errorf("no reply to the calibration chain of length %d", l)
		}
		if r.rcode == dns.RcodeSuccess && r.Ans > 0 {
			prevOK = true
			continue
		}
		if r.rcode == dns.RcodeServerFailure && prevOK && pk == 0 && hops == l {
			w.deepL = l
			return nil
		}
		return fmt.Errorf("calibration chain of length %d: reply %s (ede %d), hops served %d, packets at the final zone %d, shorter chain resolved=%v",
			l, r.Rcode, r.EDE, hops, pk, prevOK)
	}
	return fmt.Errorf("no chain length up to %d exhausts a budget of %d outbound queries", maxChain, w.in.Budget)
}

func (z *zoneState) packets(epoch int) int {
	z.mu.Lock()
	defer z.mu.Unlock()
	n := 0
	for _, a := range z.log {
		if a.Epoch == epoch {
			n++
		}
	}
	return n
}

// settle waits until every scripted reply of the zone has left.
func (z *zoneState) settle(max time.Duration) {
	deadline := time.Now().Add(max)
	for time.Now().Before(deadline) {
		pending := false
		z.mu.Lock()
		for _, a := range z.log {
			if a.Wrote.IsZero() {
				pending = true
			}
		}
		z.mu.Unlock()
		if !pending {
			return
		}
		time.Sleep(10 * time.Millisecond)
	}
}

// ------------------------------------------------------------------ one history

type reqObs struct {
	I       int        `json:"i"`
	Kind    string     `json:"kind"`
	Q       string     `json:"q"`
	Reply   rep        `json:"reply"`
	Epoch   int        `json:"epoch"`
	Modes   []string   `json:"modes"`
	Played  [][]string `json:"played"` // per server: behaviour/proto of every packet for this client's question
	Packets int        `json:"packets"`
	Brk     []string   `json:"breaker"` // the real breaker after the request: count/open per server (diagnostics)
	Exp     *hExp      `json:"model,omitempty"`
}

type flag struct {
	Pred string `json:"pred"`
	At   int    `json:"at"`
	Sig  string `json:"sig"`
	What string `json:"what"`
}

type histObs struct {
	Hist    hist     `json:"history"`
	Zone    string   `json:"zone"`
	Reqs    []reqObs `json:"requests"`
	Flags   []flag   `json:"flags,omitempty"`
	Starved bool     `json:"starved"`
	Infra   string   `json:"infra,omitempty"`
}

func (w *world) runHistory(h hist, tag string) histObs {
	w.mu.Lock()
	w.serial++
	label := fmt.Sprintf("zb%s%d", tag, w.serial)
	client := fmt.Sprintf("198.51.100.%d", 1+w.serial%250)
	w.mu.Unlock()
	zs := w.addZone(label, h.Init)
	obs := histObs{Hist: h, Zone: zs.name}
	// the zone's delegation is learnt before the history starts (its servers answer the NS question honestly)
	if r := w.ask(context.Background(), zs.name, dns.TypeNS, client); !r.Got || r.rcode != dns.RcodeSuccess {
		obs.Infra = fmt.Sprintf("the zone's delegation does not resolve: %+v", r)
		return obs
	}
	i := 0
	for _, st := range h.Steps {
		switch st.Op {
		case "mode":
			zs.setMode(st.S-1, st.M)
		case "tick":
			for _, a := range zs.addrs {
				w.res.VerifX13zbBreakerShift(a, tickSecs)
			}
		case "req":
			i++
			name := fmt.Sprintf("x%d.%s", i, zs.name)
			e := zs.begin(name)
			qname := name
			if st.Kind == "deep" {
				qname = fmt.Sprintf("d%d-%s-%d.h1.test.", i, label, w.deepL)
			}
			zs.mu.Lock()
			modes := append([]string(nil), zs.mode...)
			zs.mu.Unlock()
			r := w.askKind(st.Kind, qname, client)
			// abandoned attempts finish their bookkeeping (the breaker is written when the exchange returns)
			time.Sleep(25 * time.Millisecond)
			o := reqObs{I: i, Kind: st.Kind, Q: name, Reply: r, Epoch: e, Modes: modes, Exp: st.Exp}
			for _, a := range zs.addrs {
				ex, c, d := w.res.VerifX13zbBreakerState(a)
				o.Brk = append(o.Brk, fmt.Sprintf("%v/%d/%v", ex, c, d))
			}
			obs.Reqs = append(obs.Reqs, o)
			if !r.Got && st.Kind != "hangup" {
				obs.Infra = fmt.Sprintf("no reply to request %d (%s %s)", i, st.Kind, qname)
				return obs
			}
		}
	}
	zs.settle(time.Duration(w.in.LateMs)*time.Millisecond + 2*time.Second)
	zs.mu.Lock()
	for k := range obs.Reqs {
		o := &obs.Reqs[k]
		o.Played = make([][]string, zs.n)
		for _, a := range zs.log {
			if a.Epoch != o.Epoch {
				continue
			}
			o.Packets++
			o.Played[a.Srv] = append(o.Played[a.Srv], a.Beh+"/"+a.Proto)
			if (a.Beh == "fast" || a.Beh == "late") && (a.Wrote.IsZero() || a.Wrote.Sub(a.At)-a.Delay > starvedAfter) {
				obs.Starved = true
			}
		}
	}
	zs.mu.Unlock()
	obs.judge(w.in)
	return obs
}

func failing(b string) bool { return strings.HasPrefix(b, "garbage/") || strings.HasPrefix(b, "servfail/") }

// judge evaluates the predicates on the scripted servers' record and the replies.
func (o *histObs) judge(in *bInput) {
	n := o.Hist.N
	upfails := make([]int, n) // earlier trees in which the server answered garbage (generous: never reset)
	legalZone := false        // some earlier tree had every server failing
	var locals []string       // request-local endings seen so far (what the flagged client must not pay for)
	why := func() string {
		if len(locals) == 0 {
			return "no earlier client's request ended request-locally"
		}
		cnt := map[string]int{}
		for _, l := range locals {
			cnt[l]++
		}
		var parts []string
		for _, k := range []string{"deadline", "hangup", "budget"} {
			if cnt[k] > 0 {
				parts = append(parts, fmt.Sprintf("%d %s", cnt[k], map[string]string{"deadline": "client deadline(s) expired while a healthy but slow server was still answering",
					"hangup": "client(s) went away", "budget": "request tree(s) were refused by their own outbound-query budget before anything was sent"}[k]))
			}
		}
		return strings.Join(parts, ", ")
	}
	sig := func() string {
		set := map[string]bool{}
		for _, l := range locals {
			set[l] = true
		}
		var ks []string
		for k := range set {
			ks = append(ks, k)
		}
		sort.Strings(ks)
		if len(ks) == 0 {
			return "none"
		}
		return strings.Join(ks, "+")
	}
	for k := range o.Reqs {
		r := &o.Reqs[k]
		servfail := r.Reply.Got && r.Reply.rcode == dns.RcodeServerFailure
		health := func() string {
			var parts []string
			for s := 0; s < n; s++ {
				parts = append(parts, fmt.Sprintf("server %d is %q and answered garbage in %d earlier tree(s)", s+1, r.Modes[s], upfails[s]))
			}
			return strings.Join(parts, "; ")
		}
		if r.Packets == 0 && servfail && r.Reply.Cached && !legalZone {
			o.Flags = append(o.Flags, flag{"OnlyWhatFailed", r.I, sig(), fmt.Sprintf(
				"request %d (%s client, %s, a name never asked before) was answered SERVFAIL/EDE 13 from the failure cache without a packet reaching the zone's %d server(s): "+
					"a ZONE failure is being served although in no earlier request tree every server failed to give a usable response (%s). Before it: %s",
				r.I, r.Kind, r.Q, n, health(), why())})
		}
		if r.Packets == 0 && servfail && !r.Reply.Cached && r.Kind == "patient" && !legalZone {
			skipped := true
			for s := 0; s < n; s++ {
				if upfails[s] < in.Trip {
					skipped = false
				}
			}
			if !skipped {
				o.Flags = append(o.Flags, flag{"OthersNotFailed", r.I, sig(), fmt.Sprintf(
					"request %d (patient client, %s) was answered SERVFAIL (ede %d %q) after %d ms without a single packet for it reaching the zone's %d server(s): "+
						"the client was failed without the authority being asked although the servers did not fail (%s). Before it: %s",
					r.I, r.Q, r.Reply.EDE, r.Reply.Text, r.Reply.Ms, n, health(), why())})
			}
		}
		// fold this tree into the facts
		all := true
		for s := 0; s < n; s++ {
			pl := r.Played[s]
			if len(pl) == 0 {
				if upfails[s] < in.Trip {
					all = false
				}
				continue
			}
			bad, garb := true, false
			for _, b := range pl {
				if !failing(b) {
					bad = false
				}
				if strings.HasPrefix(b, "garbage/") {
					garb = true
				}
			}
			if !bad {
				all = false
			}
			if garb {
				upfails[s]++
			}
		}
		if all {
			legalZone = true
		}
		if servfail && !r.Reply.Cached {
			switch {
			case r.Kind == "deep" && r.Packets == 0:
				locals = append(locals, "budget")
			case r.Kind == "impatient" && r.Packets > 0:
				locals = append(locals, "deadline")
			}
		}
		if r.Kind == "hangup" && r.Packets > 0 && (!r.Reply.Got || servfail) {
			locals = append(locals, "hangup")
		}
	}
}

// ------------------------------------------------------------------ driver

func classify(r *reqObs) string {
	switch {
	case !r.Reply.Got:
		return "local"
	case r.Reply.Cached:
		return "cached"
	case r.Reply.rcode == dns.RcodeSuccess && r.Reply.Ans > 0:
		return "answer"
	case r.Reply.rcode == dns.RcodeServerFailure && r.Packets == 0 && r.Kind != "deep":
		return "failed"
	case r.Reply.rcode == dns.RcodeServerFailure:
		return "servfail"
	}
	return r.Reply.Rcode
}

func account(res *vh.Result, o *histObs) {
	var sig []string
	for _, s := range o.Hist.Steps {
		sig = append(sig, s.Op+s.Kind+s.M+fmt.Sprint(s.S))
	}
	res.Case(fmt.Sprintf("hist/%d/%s/%s", o.Hist.N, strings.Join(o.Hist.Init, ","), strings.Join(sig, ",")))
	res.Count("histories", 1)
	if o.Infra != "" {
		res.Skip("history %s: %s", o.Hist.ID, o.Infra)
		return
	}
	if o.Starved {
		res.Count("histories_starved_not_judged", 1)
		return
	}
	res.Count("histories_judged", 1)
	res.Count(fmt.Sprintf("n%d", o.Hist.N), 1)
	for k := range o.Reqs {
		r := &o.Reqs[k]
		got := classify(r)
		res.Count("req_"+r.Kind, 1)
		res.Count("reply_"+got, 1)
		res.Count("upstream_packets", r.Packets)
		for _, pl := range r.Played {
			for _, b := range pl {
				res.Count("played_"+strings.SplitN(b, "/", 2)[0], 1)
			}
		}
		switch {
		case r.Kind == "deep" && r.Packets == 0 && got == "servfail":
			res.Count("deep_refused_before_send", 1)
		case r.Kind == "deep" && r.Packets > 0:
			res.DriftNote("history %s request %d: the over-budget tree reached the zone's servers (%d packet(s)): budget calibration is off", o.Hist.ID, r.I, r.Packets)
		case r.Kind == "impatient" && got == "servfail" && r.Packets > 0:
			res.Count("impatient_expired_in_flight", 1)
		case r.Kind == "hangup" && r.Packets > 0 && got != "answer":
			res.Count("hangup_in_flight", 1)
		}
		if r.Exp != nil {
			want := r.Exp.Verdict
			ok := want == got || (want == "local" && (got == "servfail" || got == "local")) || (want == "failed" && got == "servfail") ||
				// the alias chain of a deep tree whose last target sits under a cached zone failure comes back as the bare chain
				(want == "cached" && r.Kind == "deep" && got == "answer" && r.Packets == 0)
			if !ok {
				res.Count("verdict_not_in_model", 1)
				res.DriftNote("history %s request %d (%s, modes %v): ZoneBrk.tla predicts %s (endings %v), the client saw %s (rcode %s ede %d, %d packet(s), played %v)",
					o.Hist.ID, r.I, r.Kind, r.Modes, want, r.Exp.End, got, r.Reply.Rcode, r.Reply.EDE, r.Packets, r.Played)
			} else {
				res.Count("verdict_as_model", 1)
			}
		}
	}
	if len(o.Flags) > 0 {
		res.Count("histories_flagged", 1)
	}
	if len(res.Samples) < 3 && len(o.Flags) > 0 {
		res.Sample(o)
	}
}

func propWords(prop, pred string) string {
	switch prop {
	case "C11":
		return "C11 (an expired / cancelled resolution surfaces as SERVFAIL to that client only; it does not fail other clients): "
	case "C12":
		return "C12 (the over-budget SERVFAIL is request-local, nothing of it is kept for other clients): "
	case "C13":
		if pred == "OnlyWhatFailed" {
			return "C13 (a zone failure only for a zone every one of whose servers failed; request-local endings never become shared state): "
		}
		return "C13 (failures local to one request never become shared state): "
	}
	return ""
}

func TestZoneBreaker(t *testing.T) {
	var in bInput
	vh.Input(t, &in)
	res := vh.NewResult()
	defer res.Write(t)
	if in.LateMs < 2*in.ImpatientMs || in.UpTimeoutMs < 3*in.LateMs || in.QueryTimeoutMs < 3*in.UpTimeoutMs || in.Trip < 1 || in.Budget < 2 {
		res.Skip("parameters leave no margin: %+v", in)
		return
	}
	w, err := newWorld(&in)
	if err != nil {
		res.Skip("world: %v", err)
		return
	}
	defer w.stop()
	if err := w.calibrate(); err != nil {
		res.Skip("budget calibration: %v", err)
		return
	}
	res.Count("deep_chain_length", w.deepL)
	var flagged []histObs
	if !in.Confirm {
		pass := func(hs []hist, par int) []histObs {
			jobs := make(chan hist)
			out := make(chan histObs, len(hs))
			var wg sync.WaitGroup
			for i := 0; i < par; i++ {
				wg.Add(1)
				go func() {
					defer wg.Done()
					for h := range jobs {
						out <- w.runHistory(h, "")
					}
				}()
			}
			for _, h := range hs {
				jobs <- h
			}
			close(jobs)
			wg.Wait()
			close(out)
			var all []histObs
			for o := range out {
				all = append(all, o)
			}
			return all
		}
		first := pass(in.Histories, max(1, in.Parallel))
		var judged []histObs
		var again []hist
		for _, o := range first {
			if o.Infra == "" && o.Starved {
				again = append(again, o.Hist)
				res.Count("histories_starved_replayed", 1)
				continue
			}
			judged = append(judged, o)
		}
		if len(again) > 0 {
			judged = append(judged, pass(again, 3)...)
		}
		for i := range judged {
			account(res, &judged[i])
			if judged[i].Infra == "" && !judged[i].Starved && len(judged[i].Flags) > 0 {
				flagged = append(flagged, judged[i])
			}
		}
	} else {
		for _, h := range in.Histories {
			flagged = append(flagged, histObs{Hist: h, Flags: []flag{{Pred: "-"}}})
		}
	}
	// a flagged history is re-run alone on a fresh zone; only a reproduced predicate failure counts
	sort.Slice(flagged, func(i, j int) bool { return flagged[i].Hist.ID < flagged[j].Hist.ID })
	for i, f := range flagged {
		if i >= 10 {
			break
		}
		var again histObs
		for try := 0; try < 3; try++ {
			again = w.runHistory(f.Hist, "r")
			if again.Infra == "" && !again.Starved {
				break
			}
		}
		res.Count("histories_rerun", 1)
		if in.Confirm {
			account(res, &again)
		}
		if again.Infra != "" || again.Starved {
			res.Skip("history %s: the confirmation run could not be judged (infra=%q starved=%v)", f.Hist.ID, again.Infra, again.Starved)
			continue
		}
		if len(again.Flags) == 0 {
			if !in.Confirm {
				res.DriftNote("history %s: %s was not reproduced when run alone", f.Hist.ID, f.Flags[0].Pred)
				res.Count("flags_not_reproduced", 1)
			}
			continue
		}
		for _, fl := range again.Flags {
			res.Violate("x13zb/"+fl.Pred+"/after-"+fl.Sig, propWords(in.Prop, fl.Pred)+fl.Pred+": zone "+again.Zone+" ["+f.Hist.ID+"]: "+fl.What,
				map[string]any{"driver": "TestZoneBreaker", "history": f.Hist, "first": f, "confirmed": again,
					"params": map[string]int{"lateMs": in.LateMs, "impatientMs": in.ImpatientMs, "upTimeoutMs": in.UpTimeoutMs,
						"queryTimeoutMs": in.QueryTimeoutMs, "backoffS": in.BackoffS, "budget": in.Budget, "trip": in.Trip}})
		}
	}
}
