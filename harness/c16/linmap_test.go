package c16

// Free-running concurrent histories of the real internal/cache.Cache (code ->
// spec).  Nothing is gated: P goroutines are released together on a handful
// of keys (same-segment, cross-segment, the zero key) and call Add / Get /
// Remove / CompareAndSwap / CompareAndDelete as fast as they can.  Every call
// logs an invocation line before it starts and a response line after it
// returned, both stamped from one harness-side atomic sequence, so the line
// order respects real time.  After the goroutines have stopped a quiescent
// line records Get of every key, what ForEach yields and Len.
//
// The history is judged by TLC against Trace_LinMap.tla: the abstract map of
// SegCache.tla with each call taking effect atomically at some point between
// its two lines (an Add may in addition evict other keys before it returns).
// A history that admits no such placement is a violation of C16's map
// semantics (a value that was never current, two winners of one
// compare-and-swap, a length that disagrees with the reachable entries).

import (
	"encoding/json"
	"fmt"
	"os"
	"runtime"
	"sort"
	"sync"
	"sync/atomic"
	"testing"

	icache "github.com/semihalev/sdns/internal/cache"
	"github.com/semihalev/sdns/verifharness/vh"
)

type linInput struct {
	Rounds   int    `json:"rounds"`
	Procs    int    `json:"procs"`
	Ops      int    `json:"ops"`
	NK       int    `json:"nk"`
	TraceOut string `json:"traceOut"`
}

type linLine struct {
	Seq  int64  `json:"-"`
	T    string `json:"t"`
	P    int    `json:"p,omitempty"`
	Op   string `json:"op,omitempty"`
	K    int    `json:"k,omitempty"`
	A    int    `json:"a"`
	B    int    `json:"b"`
	OK   bool   `json:"ok"`
	V    int    `json:"v"`
	Get  []int  `json:"get,omitempty"`
	Iter []int  `json:"iter,omitempty"`
	Len  int    `json:"len"`
	Rnd  int    `json:"round"`
	Kind string `json:"kind,omitempty"`
	Cap  int    `json:"cap,omitempty"`
}

type linOp struct {
	op   string
	k    int
	a, b int
}

// keys of one shape: same segment / different segments, with or without the zero key
func linKeys(t *testing.T, nk int) map[string][]uint64 {
	c := icache.New(64)
	m := c.VerifSegments()
	bySeg := map[uint][]uint64{}
	var same []uint64
	for k := uint64(1); k < 200000 && same == nil; k++ {
		s := m.VerifSegmentIndex(k)
		bySeg[s] = append(bySeg[s], k)
		if len(bySeg[s]) == nk {
			same = bySeg[s]
		}
	}
	if same == nil {
		t.Fatalf("no %d keys in one segment", nk)
	}
	var diff []uint64
	seen := map[uint]bool{}
	for k := uint64(1000003); len(diff) < nk; k += 7919 {
		if s := m.VerifSegmentIndex(k); !seen[s] {
			seen[s] = true
			diff = append(diff, k)
		}
	}
	// the zero key with partners of its own segment
	zseg := m.VerifSegmentIndex(0)
	zero := []uint64{0}
	for k := uint64(1); len(zero) < nk; k++ {
		if m.VerifSegmentIndex(k) == zseg {
			zero = append(zero, k)
		}
	}
	// high-bits-only differences (clustered probe chains inside one segment)
	var high []uint64
	for k := uint64(1); len(high) < nk; k++ {
		cand := k << 40
		if len(high) == 0 || m.VerifSegmentIndex(cand) == m.VerifSegmentIndex(high[0]) {
			high = append(high, cand)
		}
		if k > 1<<22 {
			high = same
			break
		}
	}
	return map[string][]uint64{"same": same, "diff": diff, "zero": zero, "high": high}
}

func TestLinMapStress(t *testing.T) {
	var in linInput
	vh.Input(t, &in)
	res := vh.NewResult()
	defer res.Write(t)
	rnd := vh.Rand()
	shapes := linKeys(t, in.NK)
	shapeNames := []string{"same", "diff", "zero", "high"}
	kinds := []string{"mixed", "casstorm", "cadstorm", "churn", "smallcap"}

	f, err := os.Create(in.TraceOut)
	if err != nil {
		t.Fatal(err)
	}
	defer f.Close()
	enc := json.NewEncoder(f)
	overlaps := 0

	for round := 0; round < in.Rounds; round++ {
		shape := shapeNames[round%len(shapeNames)]
		kind := kinds[(round/len(shapeNames))%len(kinds)]
		keys := shapes[shape]
		capacity := 4096
		if kind == "smallcap" {
			capacity = 1 + rnd.Intn(in.NK)
		}
		c := icache.New(capacity)
		var seq atomic.Int64
		// value ids: 1..; the pointer is the identity the cache compares
		nvals := 2 + in.Procs*in.Ops*2 + in.NK
		vals := make([]*int, nvals+1)
		for i := range vals {
			v := i
			vals[i] = &v
		}
		valID := func(x any) int {
			p, ok := x.(*int)
			if !ok || p == nil {
				return -1
			}
			return *p
		}
		var lines []linLine
		lines = append(lines, linLine{Seq: seq.Add(1), T: "reset", Rnd: round, Kind: kind + "/" + shape, Cap: capacity})
		next := 1
		call := func(p int, o linOp, buf *[]linLine) {
			*buf = append(*buf, linLine{Seq: seq.Add(1), T: "inv", P: p, Op: o.op, K: o.k, A: o.a, B: o.b, Rnd: round})
			var ok bool
			var v int
			key := keys[o.k-1]
			switch o.op {
			case "add":
				c.Add(key, vals[o.a])
				ok = true
			case "get":
				x, found := c.Get(key)
				ok = found
				if found {
					v = valID(x)
				}
			case "rem":
				c.Remove(key)
				ok = true
			case "cas":
				ok = c.CompareAndSwap(key, vals[o.a], vals[o.b])
			case "cad":
				ok = c.CompareAndDelete(key, vals[o.a])
			}
			*buf = append(*buf, linLine{Seq: seq.Add(1), T: "res", P: p, Op: o.op, OK: ok, V: v, Rnd: round})
		}
		// sequential prelude: every key holds a known initial value
		init := make([]int, in.NK+1)
		for k := 1; k <= in.NK; k++ {
			if kind == "churn" && k%2 == 0 {
				continue
			}
			init[k] = next
			call(1, linOp{op: "add", k: k, a: next}, &lines)
			next++
		}
		// programs
		progs := make([][]linOp, in.Procs)
		for p := range progs {
			for i := 0; i < in.Ops; i++ {
				k := 1 + rnd.Intn(in.NK)
				var o linOp
				switch kind {
				case "casstorm":
					// everybody swaps away from the same initial value of one or two keys
					k = 1 + rnd.Intn(2)
					if i == 0 || rnd.Intn(3) > 0 {
						o = linOp{op: "cas", k: k, a: init[k], b: next}
						next++
					} else {
						o = linOp{op: "get", k: k}
					}
				case "cadstorm":
					k = 1 + rnd.Intn(2)
					switch rnd.Intn(4) {
					case 0:
						o = linOp{op: "cad", k: k, a: init[k]}
					case 1:
						o = linOp{op: "cas", k: k, a: init[k], b: next}
						next++
					case 2:
						o = linOp{op: "rem", k: k}
					default:
						o = linOp{op: "add", k: k, a: init[k]} // the same identity comes back
					}
				default:
					switch rnd.Intn(6) {
					case 0, 1:
						o = linOp{op: "add", k: k, a: next}
						next++
					case 2:
						o = linOp{op: "get", k: k}
					case 3:
						o = linOp{op: "rem", k: k}
					case 4:
						o = linOp{op: "cas", k: k, a: init[k], b: next}
						next++
					default:
						o = linOp{op: "cad", k: k, a: init[k]}
					}
				}
				progs[p] = append(progs[p], o)
			}
		}
		bufs := make([][]linLine, in.Procs)
		start := make(chan struct{})
		var ready atomic.Int32
		var wg sync.WaitGroup
		for p := 0; p < in.Procs; p++ {
			wg.Add(1)
			go func(p int) {
				defer wg.Done()
				<-start
				// spin barrier: the goroutines enter their first call within nanoseconds of one another
				ready.Add(1)
				for int(ready.Load()) < in.Procs {
				}
				for _, o := range progs[p] {
					call(p+1, o, &bufs[p])
					if p%2 == 1 {
						runtime.Gosched()
					}
				}
			}(p)
		}
		close(start)
		wg.Wait()
		for _, b := range bufs {
			lines = append(lines, b...)
		}
		// quiescent observation
		q := linLine{Seq: seq.Add(1), T: "q", Rnd: round, Get: make([]int, in.NK), Iter: make([]int, in.NK)}
		for k := 1; k <= in.NK; k++ {
			if x, ok := c.Get(keys[k-1]); ok {
				q.Get[k-1] = valID(x)
			}
		}
		dups := 0
		c.VerifSegments().ForEach(func(key uint64, x any) bool {
			for k := 1; k <= in.NK; k++ {
				if keys[k-1] == key {
					if q.Iter[k-1] != 0 {
						dups++
					}
					q.Iter[k-1] = valID(x)
				}
			}
			return true
		})
		q.Len = c.Len() - dups // a duplicated key shows as iter/len disagreement below
		if dups > 0 {
			q.Len = c.Len() + 1000 // never equal to the reachable count
		}
		lines = append(lines, q)
		sort.SliceStable(lines, func(i, j int) bool { return lines[i].Seq < lines[j].Seq })
		// overlap witness: an inv line between another call's inv and res
		open := 0
		for _, ln := range lines {
			switch ln.T {
			case "inv":
				if open > 0 {
					overlaps++
				}
				open++
			case "res":
				open--
			}
		}
		for _, ln := range lines {
			if err := enc.Encode(ln); err != nil {
				t.Fatal(err)
			}
		}
		res.Case(fmt.Sprintf("lin:%s/%s", kind, shape))
		res.Count("calls", (len(lines)-2)/2)
		c.Stop()
	}
	res.Count("overlapping_calls", overlaps)
	res.Count("rounds", in.Rounds)
}
