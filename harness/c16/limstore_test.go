package c16

// LimStore.tla <-> middleware/ratelimit.LimiterStore (one of C16's "limiter
// stores").  TLC-generated call sequences (Get k / Cleanup d) run on the real
// store in two regimes: exact (the store holds fewer than 1000 entries, the
// least recently seen one is evicted) and sampled (the store is pre-filled
// with 1000 anonymous entries, evictOne takes the first entry the map
// iteration yields).  After every call the table is observed through the
// overlay accessors and C16's predicates are judged on what the REAL store
// did; the same observations are written out as a trace that TLC validates
// against Trace_LimStore.tla (the code chooses the victim, the model says
// which choices are allowed).  A volume stage repeats the one question that
// needs luck in the sampled regime - does the entry just written survive its
// own insert - over tens of thousands of fresh keys.

import (
	"encoding/json"
	"fmt"
	"os"
	"sort"
	"testing"
	"time"

	"github.com/semihalev/sdns/middleware/ratelimit"
	"github.com/semihalev/sdns/verifharness/vh"
)

type lsStep struct {
	Op     string `json:"op"`
	K      int    `json:"k"`
	ID     int    `json:"id"`
	Hit    bool   `json:"hit"`
	Victim string `json:"victim"`
	VK     int    `json:"vk"`
}

type lsInput struct {
	Regime     string     `json:"regime"` // exact | sampled
	Fill       int        `json:"fill"`
	Room       int        `json:"room"`
	Keys       []uint64   `json:"keys"` // concretisation of model keys 0..n-1
	Behaviours [][]lsStep `json:"behaviours"`
	Volume     int        `json:"volume"`
	TraceOut   string     `json:"traceOut"`
}

const lsFillBase = uint64(0xF111000000000000)

func TestLimStore(t *testing.T) {
	var in lsInput
	vh.Input(t, &in)
	res := vh.NewResult()
	defer res.Write(t)
	var out *os.File
	if in.TraceOut != "" {
		f, err := os.Create(in.TraceOut)
		if err != nil {
			t.Fatal(err)
		}
		defer f.Close()
		out = f
	}
	emit := func(m map[string]any) {
		if out != nil {
			b, _ := json.Marshal(m)
			out.Write(append(b, '\n'))
		}
	}
	isModel := map[uint64]int{}
	for i, k := range in.Keys {
		isModel[k] = i
	}
	maxSize := in.Fill + in.Room
	for bi, beh := range in.Behaviours {
		s := ratelimit.NewLimiterStore(maxSize, 60)
		for i := 0; i < in.Fill; i++ {
			s.VerifGet(lsFillBase + uint64(i))
		}
		s.VerifAge(time.Hour)
		emit(map[string]any{"ev": "Reset"})
		ids := map[any]int{} // limiter identity -> number in order of creation (held: never collected)
		hist := []string{}
		key := ""
		bad := false
		for _, st := range beh {
			if st.Op == "none" {
				continue
			}
			hist = append(hist, fmt.Sprintf("%s(%d)", st.Op, st.K))
			violate := func(pred, what string) {
				res.Violate("limstore/"+in.Regime+"/"+pred, fmt.Sprintf("LimiterStore %s (%s regime, maxSize %d) after %v: %s", pred, in.Regime, maxSize, hist, what),
					map[string]any{"driver": "limstore", "regime": in.Regime, "fill": in.Fill, "room": in.Room, "keys": in.Keys, "behaviour": beh, "history": hist})
				bad = true
			}
			before := map[uint64]any{}
			for _, k := range in.Keys {
				if l, ok := s.VerifPeek(k); ok {
					before[k] = l
				}
			}
			lenBefore := s.Len()
			line := map[string]any{"k": st.K, "id": 0, "hit": false, "victim": "none", "vk": 0}
			switch st.Op {
			case "get":
				k := in.Keys[st.K]
				was, hit := before[k]
				l := s.VerifGet(k)
				now, mapped := s.VerifPeek(k)
				if !mapped || now != l {
					violate("JustWrittenStays", fmt.Sprintf("Get(%#x) handed out a limiter the store does not map afterwards (mapped=%v): an insert evicted the key it was writing", k, mapped))
				}
				if hit && was != l {
					violate("HitIsCurrent", fmt.Sprintf("Get(%#x) on a mapped key handed out a different limiter than the one stored", k))
				}
				if _, known := ids[l]; !known {
					if hit {
						// a fresh identity on a hit was already reported above
					}
					ids[l] = len(ids) + 1
				}
				line["ev"], line["id"], line["hit"] = "get", ids[l], hit
				gone := []uint64{}
				for j, lj := range before {
					nj, ok := s.VerifPeek(j)
					if !ok {
						gone = append(gone, j)
						continue
					}
					if nj != lj {
						violate("OthersSurvive", fmt.Sprintf("Get(%#x) changed the limiter mapped under %#x", k, j))
					}
				}
				lenAfter := s.Len()
				lost := lenBefore - lenAfter
				if !hit {
					lost++ // one entry came in
				}
				if lost < 0 || lost > 1 || len(gone) > lost {
					violate("OthersSurvive", fmt.Sprintf("Get(%#x): length %d -> %d, model keys gone %v: more than one entry disappeared", k, lenBefore, lenAfter, gone))
				} else if lost == 1 {
					if lenBefore != maxSize {
						violate("EvictsOnlyAtBound", fmt.Sprintf("Get(%#x) evicted an entry at length %d, bound %d", k, lenBefore, maxSize))
					}
					if len(gone) == 1 {
						line["victim"], line["vk"] = "key", isModel[gone[0]]
					} else {
						line["victim"] = "fill"
					}
				}
				if lenAfter > maxSize {
					violate("Bounded", fmt.Sprintf("length %d exceeds maxSize %d with a single writer", lenAfter, maxSize))
				}
				res.Count("gets", 1)
				if lost == 1 {
					res.Count("evictions_"+line["victim"].(string), 1)
				}
				// exact regime: the step is deterministic, the model's outcome must be the code's
				if in.Regime == "exact" && !bad {
					if st.Hit != hit || (st.Victim == "key") != (line["victim"] == "key") || (st.Victim == "key" && st.VK != line["vk"].(int)) || st.ID != ids[l] {
						res.DriftNote("exact regime, %v: model says %+v, the store did hit=%v id=%d victim=%v/%v", hist, st, hit, ids[l], line["victim"], line["vk"])
					}
				}
			case "cleanup":
				// model: entries seen during the last d-1 ticks survive; one tick = 1 ms of VerifAge
				s.Cleanup(time.Duration(st.K)*time.Millisecond - 500*time.Microsecond)
				line["ev"] = "cleanup"
				res.Count("cleanups", 1)
			default:
				t.Fatalf("unknown op %q", st.Op)
			}
			store := map[string]int{}
			nmodel := 0
			for i, k := range in.Keys {
				store[fmt.Sprint(i)] = 0
				if l, ok := s.VerifPeek(k); ok {
					if _, known := ids[l]; !known {
						ids[l] = len(ids) + 1
					}
					store[fmt.Sprint(i)] = ids[l]
					nmodel++
				}
			}
			line["store"] = store
			line["nfill"] = s.Len() - nmodel
			emit(line)
			s.VerifAge(time.Millisecond)
			key += fmt.Sprintf("%s%d:%v:%v;", st.Op, st.K, line["hit"], line["victim"])
			if bad {
				break
			}
		}
		res.Case(fmt.Sprintf("%s|%s", in.Regime, key))
		_ = bi
	}
	// volume: fresh keys into a full store
	if in.Volume > 0 {
		s := ratelimit.NewLimiterStore(maxSize, 60)
		for i := 0; i < maxSize; i++ {
			s.VerifGet(lsFillBase + uint64(i))
		}
		keep := make([]any, 0, in.Volume)
		for i := 0; i < in.Volume; i++ {
			k := uint64(i)*0x9E3779B97F4A7C15 + 1
			if i%97 == 0 {
				k = 0
				if _, ok := s.VerifPeek(0); ok {
					continue
				}
			}
			l := s.VerifGet(k)
			keep = append(keep, l)
			if now, ok := s.VerifPeek(k); !ok || now != l {
				res.Violate("limstore/volume/JustWrittenStays", fmt.Sprintf("LimiterStore JustWrittenStays (maxSize %d, full store, insert #%d of a fresh key %#x): the limiter handed out is not mapped afterwards (mapped=%v)", maxSize, i, k, ok),
					map[string]any{"driver": "limstore", "regime": in.Regime, "fill": in.Fill, "room": in.Room, "keys": in.Keys, "volume": in.Volume})
				break
			}
			if n := s.Len(); n != maxSize {
				res.Violate("limstore/volume/Bounded", fmt.Sprintf("LimiterStore length %d after insert #%d into a full store of maxSize %d", n, i, maxSize),
					map[string]any{"driver": "limstore", "regime": in.Regime, "fill": in.Fill, "room": in.Room, "keys": in.Keys, "volume": in.Volume})
				break
			}
			res.Count("volume_inserts", 1)
		}
		_ = keep
		sort.Ints(nil)
	}
}
