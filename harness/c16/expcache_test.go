package c16

// ExpCache.tla <-> middleware/cache.PositiveCache / NegativeCache (anchors of
// C16: the bounded tables behind the answer cache).
//
// TLC-generated behaviours of ExpCache.tla (SpecBatched in MC_Exp.tla) are run
// on the real sub-caches.  A behaviour is a list of groups of calls: a
// sequential group is one call on the driver's goroutine; a concurrent group
// ("batch") is the part of the behaviour where readers have loaded an entry
// whose lifetime is over and writers act before the readers clean up.
//
// The code has no hook between Get's load and its expiry cleanup, so a batch
// is steered with the table's own locks: the driver takes the write lock of
// the keys' segments (overlay accessor), starts the batch's goroutines and
// waits until all of them are parked on those locks (goroutine dump), then
// releases.  sync.RWMutex admits every parked reader before any writer, so
// every Get loads what was stored BEFORE the batch's writers act.  The first
// Set of the batch is then held at SetWithCap's own `verifLocked` gate (write
// lock held, nothing stored yet) until every reader has either returned or is
// parked on the segment lock inside its expiry cleanup; those cleanups
// therefore run after the fresh entry has been published ("steered").
// Whatever order the real goroutines end up in, nothing is assumed: every
// call logs an invocation and a response line stamped from one atomic
// sequence, and the history is judged by TLC against Trace_ExpMap.tla.
//
// The virtual clock is the `exp` step: the entry's lifetime is ended through
// the overlay accessor while no call is in flight.

import (
	"encoding/json"
	"fmt"
	"os"
	"runtime"
	"sort"
	"strings"
	"sync"
	"sync/atomic"
	"testing"
	"time"

	icache "github.com/semihalev/sdns/internal/cache"
	mcache "github.com/semihalev/sdns/middleware/cache"
	"github.com/semihalev/sdns/verifharness/vh"
)

type expOp struct {
	Op string `json:"op"` // get | set | rem | exp
	P  int    `json:"p"`  // goroutine id of the call (history line `p`)
	K  int    `json:"k"`  // model key 1..NK
	E  int    `json:"e"`  // entry id (set, exp)
}

type expGroup struct {
	Conc bool    `json:"conc"`
	Ops  []expOp `json:"ops"`
}

type expInput struct {
	NK         int          `json:"nk"`
	NEnts      int          `json:"nents"`
	Dead       []int        `json:"dead"`
	Behaviours [][]expGroup `json:"behaviours"`
	Kinds      []string     `json:"kinds"` // positive | negative
	TraceOut   string       `json:"traceOut"`
}

type expLine struct {
	Seq  int64  `json:"-"`
	T    string `json:"t"`
	P    int    `json:"p,omitempty"`
	Op   string `json:"op,omitempty"`
	K    int    `json:"k,omitempty"`
	A    int    `json:"a"`
	OK   bool   `json:"ok"`
	V    int    `json:"v"`
	Raw  []int  `json:"raw,omitempty"`
	Len  int    `json:"len"`
	Dead []int  `json:"dead,omitempty"`
	Rnd  int    `json:"round"`
	Kind string `json:"kind,omitempty"`
}

// the two sub-caches behind one interface
type expSub interface {
	Get(key uint64) (*mcache.CacheEntry, bool)
	Set(key uint64, entry *mcache.CacheEntry)
	Remove(key uint64)
	Len() int
	VerifC16Table() *icache.Cache
}

// expParked counts the batch's goroutines (entry function expWorker) that are
// blocked on a lock, split by where: before the load (RLock inside table.Get),
// inside the expiry cleanup (CompareAndDelete / Remove called from Get), or
// inside a writer call.
func expParked(buf []byte) (load, cleanup, writer int) {
	n := runtime.Stack(buf, true)
	for _, g := range strings.Split(string(buf[:n]), "\n\n") {
		if !strings.Contains(g, "c16.expWorker") {
			continue
		}
		head, _, _ := strings.Cut(g, "\n")
		if !strings.Contains(head, "[sync.") && !strings.Contains(head, "[semacquire") {
			continue
		}
		isGet := strings.Contains(g, "Cache).Get(") && strings.Contains(g, "middleware/cache.")
		switch {
		case isGet && strings.Contains(g, "RLock"):
			load++
		case isGet:
			cleanup++
		default:
			writer++
		}
	}
	return
}

//go:noinline
func expWorker(f func()) { f() }

func TestExpCacheBatches(t *testing.T) {
	var in expInput
	vh.Input(t, &in)
	res := vh.NewResult()
	defer res.Write(t)

	f, err := os.Create(in.TraceOut)
	if err != nil {
		t.Fatal(err)
	}
	defer f.Close()
	enc := json.NewEncoder(f)

	// the Set that is held at SetWithCap's first gate (write lock held, nothing stored yet)
	var (
		gateArmed atomic.Bool
		gateIn    = make(chan struct{}, 1)
		gateGo    = make(chan struct{})
	)
	icache.SetVerifGate(func(point int, seg uint, key uint64, n int) {
		if point == 1 && gateArmed.CompareAndSwap(true, false) {
			gateIn <- struct{}{}
			<-gateGo
		}
	})
	defer icache.SetVerifGate(nil)

	dump := make([]byte, 1<<20)
	round := 0
	for _, kind := range in.Kinds {
		for bi, beh := range in.Behaviours {
			var sub expSub
			if kind == "positive" {
				sub = mcache.NewPositiveCache(1024, 0, time.Hour, &mcache.CacheMetrics{})
			} else {
				sub = mcache.NewNegativeCache(1024, 0, time.Hour, &mcache.CacheMetrics{})
			}
			tbl := sub.VerifC16Table()
			// real keys: same segment / different segments / the zero key with a partner
			keys := make([]uint64, in.NK)
			shape := []string{"same", "diff", "zero"}[bi%3]
			switch shape {
			case "same":
				keys[0] = 0x5eedc16 + uint64(bi)
				for k, c := 1, keys[0]+1; k < in.NK; c++ {
					if tbl.VerifC16SegIndex(c) == tbl.VerifC16SegIndex(keys[0]) {
						keys[k] = c
						k++
					}
				}
			case "diff":
				for k := range keys {
					keys[k] = uint64(1000003+bi) + uint64(k)*7919
				}
			default:
				for k := range keys {
					keys[k] = uint64(k) << 40 // key 0 first
				}
			}
			now := time.Now()
			ents := make([]*mcache.CacheEntry, in.NEnts+1)
			id := map[*mcache.CacheEntry]int{}
			isDead := map[int]bool{}
			for _, d := range in.Dead {
				isDead[d] = true
			}
			for e := 1; e <= in.NEnts; e++ {
				if isDead[e] {
					ents[e] = mcache.VerifC16Entry(now.Add(-2*time.Hour), time.Second)
				} else {
					ents[e] = mcache.VerifC16Entry(now, time.Hour)
				}
				id[ents[e]] = e
			}
			var seq atomic.Int64
			lines := []expLine{{Seq: seq.Add(1), T: "reset", Rnd: round, Kind: kind + "/" + shape, Dead: in.Dead}}
			call := func(o expOp, buf *[]expLine) {
				*buf = append(*buf, expLine{Seq: seq.Add(1), T: "inv", P: o.P, Op: o.Op, K: o.K, A: o.E, Rnd: round})
				ok, v := true, 0
				switch o.Op {
				case "get":
					e, found := sub.Get(keys[o.K-1])
					ok = found
					if found {
						v = id[e]
						if v == 0 {
							v = -1 // an entry nobody stored
						}
					}
				case "set":
					sub.Set(keys[o.K-1], ents[o.E])
				case "rem":
					sub.Remove(keys[o.K-1])
				}
				*buf = append(*buf, expLine{Seq: seq.Add(1), T: "res", P: o.P, Op: o.Op, OK: ok, V: v, Rnd: round})
			}
			quiescent := func() {
				q := expLine{Seq: seq.Add(1), T: "q", Rnd: round, Raw: make([]int, in.NK), Len: sub.Len()}
				for k := range keys {
					if x, ok := tbl.Get(keys[k]); ok {
						if e, isEnt := x.(*mcache.CacheEntry); isEnt && id[e] != 0 {
							q.Raw[k] = id[e]
						} else {
							q.Raw[k] = -1
						}
					}
				}
				lines = append(lines, q)
			}
			sig := []string{}
			for _, g := range beh {
				if !g.Conc {
					for _, o := range g.Ops {
						if o.Op == "exp" {
							ents[o.E].VerifC16Expire()
							lines = append(lines, expLine{Seq: seq.Add(1), T: "exp", A: o.E, Rnd: round})
							continue
						}
						call(o, &lines)
					}
					continue
				}
				// ---- a batch ----
				segs := map[uint]uint64{}
				readers, sets := 0, 0
				for _, o := range g.Ops {
					segs[tbl.VerifC16SegIndex(keys[o.K-1])] = keys[o.K-1]
					switch o.Op {
					case "get":
						readers++
					case "set":
						sets++
					}
				}
				order := make([]int, 0, len(segs))
				for s := range segs {
					order = append(order, int(s))
				}
				sort.Ints(order)
				for _, s := range order {
					tbl.VerifC16SegLock(segs[uint(s)])
				}
				bufs := make([][]expLine, len(g.Ops))
				var wg sync.WaitGroup
				var readersDone atomic.Int32
				for i, o := range g.Ops {
					wg.Add(1)
					go expWorker(func() {
						defer wg.Done()
						call(o, &bufs[i])
						if o.Op == "get" {
							readersDone.Add(1)
						}
					})
				}
				// every goroutine of the batch is parked on a segment lock the driver holds
				parkedAll := false
				for dl := time.Now().Add(2 * time.Second); time.Now().Before(dl); {
					l, c, w := expParked(dump)
					if l+c+w == len(g.Ops) {
						parkedAll = true
						break
					}
					time.Sleep(20 * time.Microsecond)
				}
				if sets > 0 {
					gateArmed.Store(true)
				}
				for i := len(order) - 1; i >= 0; i-- {
					tbl.VerifC16SegUnlock(segs[uint(order[i])])
				}
				steered := 0
				if sets > 0 {
					select {
					case <-gateIn:
						// a Set holds its segment's write lock and has not stored yet: wait for the readers
						for dl := time.Now().Add(100 * time.Millisecond); time.Now().Before(dl); {
							_, c, _ := expParked(dump)
							if c+int(readersDone.Load()) >= readers {
								steered = c
								break
							}
							time.Sleep(20 * time.Microsecond)
						}
						gateGo <- struct{}{}
					case <-time.After(2 * time.Second):
						if gateArmed.CompareAndSwap(true, false) {
							res.Skip("round %d: no Set of the batch reached its gate", round)
						} else { // it arrived this instant
							<-gateIn
							gateGo <- struct{}{}
						}
					}
				}
				wg.Wait()
				gateArmed.Store(false)
				for _, b := range bufs {
					lines = append(lines, b...)
				}
				res.Count("batches", 1)
				if !parkedAll {
					res.Count("batches_not_parked", 1)
				}
				if steered > 0 {
					res.Count("batches_steered", 1)
					res.Count("cleanups_after_fresh_set", steered)
				}
				sig = append(sig, fmt.Sprintf("b%d/%d/%d", readers, sets, len(g.Ops)-readers-sets))
				quiescent()
			}
			quiescent()
			sort.SliceStable(lines, func(i, j int) bool { return lines[i].Seq < lines[j].Seq })
			for _, ln := range lines {
				if err := enc.Encode(ln); err != nil {
					t.Fatal(err)
				}
			}
			res.Case(fmt.Sprintf("exp:%s/%s:%s", kind, shape, strings.Join(sig, ",")))
			res.Count("calls", (len(lines)-1)/2)
			res.Count("rounds", 1)
			tbl.Stop()
			round++
		}
	}
}
