package c16

// Replay of TLC-generated ProbeMap behaviours (spec -> code) on the real
// internal/cache.UInt64Map.  The property predicates (C16: map semantics,
// no aliasing, removal/eviction never loses or duplicates another key,
// Len = reachable entries, eviction spares the key being written) are
// evaluated on what the code did, against a reference map advanced by the
// driver.  Differences from the model that do not break a predicate (slot
// layout, a different eviction victim) are drift.

import (
	"fmt"
	"math/rand"
	"regexp"
	"strconv"
	"strings"
	"testing"

	icache "github.com/semihalev/sdns/internal/cache"
	"github.com/semihalev/sdns/verifharness/vh"
)

type pmNode struct {
	Am      []int `json:"am"`    // index = model key (0 = zero key), 0 = absent
	Slots   []int `json:"slots"` // model key per slot
	N       int   `json:"n"`
	Size    int   `json:"size"`
	Ideal8  []int `json:"ideal8"`  // index = model key-1
	Ideal16 []int `json:"ideal16"` // index = model key-1
}

type pmStep struct {
	Label string `json:"l"`
	Dst   string `json:"d"`
}

type pmInput struct {
	NK      int               `json:"nk"`
	UseZero bool              `json:"useZero"`
	Nodes   map[string]pmNode `json:"nodes"`
	Paths   []struct {
		Init  string   `json:"init"`
		Steps []pmStep `json:"steps"`
	} `json:"paths"`
	Shapes int `json:"shapes"`
}

var labelRe = regexp.MustCompile(`^(\w+)(?:\(([^)]*)\))?$`)

func parseLabel(l string) (string, []int, error) {
	m := labelRe.FindStringSubmatch(strings.TrimSpace(l))
	if m == nil {
		return "", nil, fmt.Errorf("bad label %q", l)
	}
	var args []int
	if m[2] != "" {
		for _, a := range strings.Split(m[2], ",") {
			v, err := strconv.Atoi(strings.TrimSpace(a))
			if err != nil {
				return "", nil, fmt.Errorf("bad label %q", l)
			}
			args = append(args, v)
		}
	}
	return m[1], args, nil
}

// keyShape generates candidate 64-bit keys.
type keyShape struct {
	name string
	gen  func(r *rand.Rand, i uint64) uint64
}

var shapes = []keyShape{
	{"sequential", func(_ *rand.Rand, i uint64) uint64 { return i + 1 }},
	{"random64", func(r *rand.Rand, _ uint64) uint64 { return r.Uint64() | 1 }},
	{"highbits", func(r *rand.Rand, i uint64) uint64 { return (i+1)<<12 | 0x555 }},
	{"clustered", func(r *rand.Rand, i uint64) uint64 { return 0xDEADBEEF00000000 + i }},
}

// findKeys searches real keys whose ideal slots (mask 7 and mask 15) equal the
// model's.  extra keys (never inserted) share ideal slots with model keys.
func findKeys(r *rand.Rand, sh keyShape, ideal8, ideal16 []int) (keys []uint64, extras []uint64, err error) {
	m8 := icache.NewUInt64Map[int](0)
	m16 := icache.NewUInt64Map[int](9)
	if len(m8.VerifSlots()) != 8 || len(m16.VerifSlots()) != 16 {
		return nil, nil, fmt.Errorf("unexpected table sizes %d/%d", len(m8.VerifSlots()), len(m16.VerifSlots()))
	}
	used := map[uint64]bool{0: true}
	pick := func(i8, i16 int, start *uint64) (uint64, error) {
		for tries := 0; tries < 300_000; tries++ {
			k := sh.gen(r, *start)
			*start++
			if used[k] {
				continue
			}
			if m8.VerifPrimaryIndex(k) == i8 && m16.VerifPrimaryIndex(k) == i16 {
				used[k] = true
				return k, nil
			}
		}
		return 0, fmt.Errorf("no key with ideals %d/%d in shape %s", i8, i16, sh.name)
	}
	var cur uint64
	for i := range ideal8 {
		k, e := pick(ideal8[i], ideal16[i], &cur)
		if e != nil {
			return nil, nil, e
		}
		keys = append(keys, k)
	}
	for i := 0; i < 2 && i < len(ideal8); i++ {
		k, e := pick(ideal8[i], ideal16[i], &cur)
		if e != nil {
			return nil, nil, e
		}
		extras = append(extras, k)
	}
	return keys, extras, nil
}

type pmRun struct {
	res    *vh.Result
	in     *pmInput
	shape  string
	keys   []uint64 // index = model key-1
	extras []uint64
}

func (p *pmRun) real(k int) uint64 {
	if k == 0 {
		return 0
	}
	return p.keys[k-1]
}

func (p *pmRun) allKeys() []int {
	var ks []int
	if p.in.UseZero {
		ks = append(ks, 0)
	}
	for k := 1; k <= p.in.NK; k++ {
		ks = append(ks, k)
	}
	return ks
}

// checkState evaluates the state predicates of C16 against ref.
func (p *pmRun) checkState(m *icache.UInt64Map[int], ref map[int]int, op string) (string, bool) {
	for _, k := range p.allKeys() {
		v, ok := m.Get(p.real(k))
		want, wok := ref[k]
		if ok != wok || (ok && v != want) {
			return fmt.Sprintf("Get(key %d) = (%d,%v), reference map has (%d,%v)", k, v, ok, want, wok), false
		}
		if m.Has(p.real(k)) != wok {
			return fmt.Sprintf("Has(key %d) = %v, reference map has %v", k, !wok, wok), false
		}
	}
	for _, x := range p.extras {
		if _, ok := m.Get(x); ok {
			return fmt.Sprintf("never-stored key %#x is reported present (aliasing)", x), false
		}
	}
	if m.Len() != len(ref) {
		return fmt.Sprintf("Len() = %d, reachable entries = %d", m.Len(), len(ref)), false
	}
	seen := map[uint64]int{}
	bad := ""
	m.ForEach(func(k uint64, v int) bool {
		seen[k]++
		return true
	})
	for _, k := range p.allKeys() {
		c := seen[p.real(k)]
		_, wok := ref[k]
		if wok && c != 1 {
			bad = fmt.Sprintf("ForEach yields key %d %d times (stored once)", k, c)
		}
		if !wok && c != 0 {
			bad = fmt.Sprintf("ForEach yields removed key %d", k)
		}
		delete(seen, p.real(k))
	}
	if len(seen) != 0 {
		bad = fmt.Sprintf("ForEach yields %d foreign keys", len(seen))
	}
	if bad != "" {
		return bad, false
	}
	return "", true
}

// runPath replays one behaviour; returns false when a violation was recorded.
func (p *pmRun) runPath(pi int) {
	path := p.in.Paths[pi]
	m := icache.NewUInt64Map[int](0)
	ref := map[int]int{}
	history := []string{}
	violate := func(pred, what string) {
		p.res.Violate("probemap/"+pred, fmt.Sprintf("UInt64Map %s after %v (key shape %s): %s", pred, history, p.shape, what),
			map[string]any{"driver": "probemap", "shape": p.shape, "keys": p.keys, "history": history,
				"ideal8": p.in.Nodes[path.Init].Ideal8, "ideal16": p.in.Nodes[path.Init].Ideal16})
	}
	for _, st := range path.Steps {
		op, a, err := parseLabel(st.Label)
		if err != nil {
			p.res.Skip("%v", err)
			return
		}
		history = append(history, st.Label)
		dst := p.in.Nodes[st.Dst]
		switch op {
		case "Put":
			m.Put(p.real(a[0]), a[1])
			ref[a[0]] = a[1]
		case "PutIfNotExists":
			got, ins := m.PutIfNotExists(p.real(a[0]), a[1])
			old, had := ref[a[0]]
			if had {
				if ins || got != old {
					violate("PutIfNotExists", fmt.Sprintf("returned (%d,%v) for a present key holding %d", got, ins, old))
					return
				}
			} else {
				if !ins || got != a[1] {
					violate("PutIfNotExists", fmt.Sprintf("returned (%d,%v) for an absent key", got, ins))
					return
				}
				ref[a[0]] = a[1]
			}
		case "Del":
			ok := m.Del(p.real(a[0]))
			_, had := ref[a[0]]
			if ok != had {
				violate("Del", fmt.Sprintf("Del(key %d) returned %v, key present = %v", a[0], ok, had))
				return
			}
			delete(ref, a[0])
		case "Evict":
			skip := a[2]
			d := m.EvictKeysAt(a[0], a[1], p.real(skip))
			// observe survivors; predicates: survivors keep values, skip survives,
			// d = number removed, d <= cnt
			removed := 0
			for _, k := range p.allKeys() {
				want, had := ref[k]
				v, ok := m.Get(p.real(k))
				switch {
				case ok && !had:
					violate("Evict", fmt.Sprintf("eviction made absent key %d appear", k))
					return
				case ok && v != want:
					violate("Evict", fmt.Sprintf("eviction changed key %d: %d -> %d", k, want, v))
					return
				case !ok && had:
					if k == skip {
						violate("EvictSpares", fmt.Sprintf("EvictKeysAt(%d,%d,skip=key %d) removed the key being written", a[0], a[1], skip))
						return
					}
					removed++
					delete(ref, k)
				}
			}
			if d != removed || d > a[1] {
				violate("EvictCount", fmt.Sprintf("EvictKeysAt(%d,%d,skip=%d) returned %d, %d entries became unreachable", a[0], a[1], skip, d, removed))
				return
			}
		case "Clear":
			m.Clear()
			ref = map[int]int{}
		default:
			p.res.Skip("unknown op %s", op)
			return
		}
		if what, ok := p.checkState(m, ref, op); !ok {
			violate("MapSemantics", what)
			return
		}
		// drift accounting against the model's prediction
		for _, k := range p.allKeys() {
			if (dst.Am[k] != 0) != (func() bool { _, ok := ref[k]; return ok })() || (dst.Am[k] != 0 && dst.Am[k] != ref[k]) {
				p.res.DriftNote("model/code abstract state differ after %v: model am=%v code=%v", history, dst.Am, ref)
				return
			}
		}
		slots := m.VerifSlots()
		if len(slots) != dst.N {
			p.res.DriftNote("table length %d, model %d after %v", len(slots), dst.N, history)
			return
		}
		for i, rk := range slots {
			mk := dst.Slots[i]
			if (mk == 0) != (rk == 0) || (mk != 0 && p.real(mk) != rk) {
				p.res.DriftNote("slot layout differs from the model after %v", history)
				return
			}
		}
	}
}

func TestProbeMapReplay(t *testing.T) {
	var in pmInput
	vh.Input(t, &in)
	res := vh.NewResult()
	defer res.Write(t)
	r := vh.Rand()
	nsh := in.Shapes
	if nsh <= 0 || nsh > len(shapes) {
		nsh = len(shapes)
	}
	type ik struct{ a, b string }
	cache := map[ik]*pmRun{}
	for pi, path := range in.Paths {
		init := in.Nodes[path.Init]
		for si := 0; si < nsh; si++ {
			sh := shapes[si]
			key := ik{fmt.Sprint(init.Ideal8, init.Ideal16), sh.name}
			run := cache[key]
			if run == nil {
				keys, extras, err := findKeys(r, sh, init.Ideal8, init.Ideal16)
				if err != nil {
					// this key shape cannot realise the assignment: not a fault
					res.Count("shape_unrealisable:"+sh.name, 1)
					run = &pmRun{}
					cache[key] = run
					continue
				}
				run = &pmRun{res: res, in: &in, shape: sh.name, keys: keys, extras: extras}
				cache[key] = run
			}
			if run.res == nil {
				continue
			}
			run.runPath(pi)
			res.Case("")
		}
		if pi < 2 {
			var ls []string
			for _, s := range path.Steps {
				ls = append(ls, s.Label)
			}
			res.Sample(map[string]any{"behaviour": ls, "ideal8": init.Ideal8, "ideal16": init.Ideal16})
		}
		res.Count("steps", len(path.Steps))
	}
}
