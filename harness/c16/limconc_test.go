package c16

// LimConc.tla <-> middleware/ratelimit.LimiterStore with several clients
// inside Get at once.
//
// TLC-generated behaviours of LimConc.tla (SpecBatched in MC_LimConc.tla) are
// run on the real store.  A behaviour is a list of groups of calls: a
// sequential group is one call (Get k / Cleanup d) on the driver's goroutine;
// a concurrent group ("batch") is the stretch of the behaviour in which
// clients sit between Get's read-locked look-up and its write-locked insert.
//
// LimiterStore.Get has no hook between the two sections, so a batch is forced
// with the store's own lock: the driver takes the write lock (overlay
// accessor), starts one goroutine per client, waits until all of them are
// parked in RLock (goroutine dump), and releases.  sync.RWMutex admits every
// parked reader before any writer, so ALL look-ups of the batch happen before
// ANY client takes the write lock - exactly the model's RLook+ ; WIns+.  The
// order of the write-locked sections is the mutex's choice.
//
// Every call logs an invocation and a response line stamped from one atomic
// sequence; after each group the table is observed through the overlay
// accessors.  The history is judged by TLC against Trace_LimConc.tla.

import (
	"encoding/json"
	"fmt"
	"os"
	"runtime"
	"sort"
	"strings"
	"sync"
	"sync/atomic"
	"testing"
	"time"

	"github.com/semihalev/sdns/middleware/ratelimit"
	"github.com/semihalev/sdns/verifharness/vh"
)

type lcOp struct {
	Op string `json:"op"` // get | cleanup
	P  int    `json:"p"`  // goroutine id of the call (history line `p`)
	K  int    `json:"k"`  // model key 0..n-1 (get) / d (cleanup)
}

type lcGroup struct {
	Conc bool   `json:"conc"`
	Ops  []lcOp `json:"ops"`
}

type lcInput struct {
	Regime     string      `json:"regime"` // exact | sampled
	Fill       int         `json:"fill"`
	Room       int         `json:"room"`
	Keys       []uint64    `json:"keys"`
	Behaviours [][]lcGroup `json:"behaviours"`
	TraceOut   string      `json:"traceOut"`
}

type lcLine struct {
	Seq   int64  `json:"-"`
	T     string `json:"t"`
	P     int    `json:"p,omitempty"`
	K     int    `json:"k,omitempty"` // 1-based in the history (TLA+ sequences)
	Rid   int    `json:"rid"`
	Store []int  `json:"store,omitempty"`
	NFill int    `json:"nfill"`
	Len   int    `json:"len"`
	Fill  int    `json:"fill"`
	Max   int    `json:"max"`
	Rnd   int    `json:"round"`
	Kind  string `json:"kind,omitempty"`
	got   any
}

//go:noinline
func limWorker(f func()) { f() }

// lcParked counts the batch's goroutines that are blocked on a lock.
func lcParked(buf []byte) int {
	n := runtime.Stack(buf, true)
	c := 0
	for _, g := range strings.Split(string(buf[:n]), "\n\n") {
		if !strings.Contains(g, "c16.limWorker") {
			continue
		}
		head, _, _ := strings.Cut(g, "\n")
		if strings.Contains(head, "[sync.") || strings.Contains(head, "[semacquire") {
			c++
		}
	}
	return c
}

func TestLimConc(t *testing.T) {
	var in lcInput
	vh.Input(t, &in)
	res := vh.NewResult()
	defer res.Write(t)
	f, err := os.Create(in.TraceOut)
	if err != nil {
		t.Fatal(err)
	}
	defer f.Close()
	enc := json.NewEncoder(f)
	dump := make([]byte, 1<<20)
	maxSize := in.Fill + in.Room

	for round, beh := range in.Behaviours {
		s := ratelimit.NewLimiterStore(maxSize, 60)
		for i := 0; i < in.Fill; i++ {
			s.VerifGet(lsFillBase + uint64(i))
		}
		s.VerifAge(time.Hour)
		var seq atomic.Int64
		lines := []lcLine{{Seq: seq.Add(1), T: "reset", Fill: in.Fill, Max: maxSize, Rnd: round, Kind: in.Regime}}
		ids := map[any]int{} // limiter identity -> number in order of first sight (held: never collected)
		num := func(l any) int {
			if _, known := ids[l]; !known {
				ids[l] = len(ids) + 1
			}
			return ids[l]
		}
		observe := func(t string) lcLine {
			o := lcLine{Seq: seq.Add(1), T: t, Rnd: round, Store: make([]int, len(in.Keys)), Len: s.Len()}
			nmodel := 0
			for i, k := range in.Keys {
				if l, ok := s.VerifPeek(k); ok {
					o.Store[i] = num(l)
					nmodel++
				}
			}
			o.NFill = o.Len - nmodel
			return o
		}
		call := func(o lcOp, buf *[]lcLine) {
			*buf = append(*buf, lcLine{Seq: seq.Add(1), T: "inv", P: o.P, K: o.K + 1, Rnd: round})
			l := s.VerifGet(in.Keys[o.K])
			*buf = append(*buf, lcLine{Seq: seq.Add(1), T: "res", P: o.P, Rnd: round, got: l})
		}
		// the limiter a call returned is written on its invocation line
		annotate := func(buf []lcLine) {
			for i := 0; i+1 < len(buf); i += 2 {
				buf[i].Rid = num(buf[i+1].got)
			}
		}
		sig := []string{}
		for _, g := range beh {
			if !g.Conc {
				for _, o := range g.Ops {
					switch o.Op {
					case "get":
						var b []lcLine
						call(o, &b)
						annotate(b)
						lines = append(lines, b...)
						res.Count("gets", 1)
					case "cleanup":
						// model: entries seen during the last d-1 ticks survive; one tick = 1 ms of VerifAge
						s.Cleanup(time.Duration(o.K)*time.Millisecond - 500*time.Microsecond)
						lines = append(lines, observe("cleanup"))
						res.Count("cleanups", 1)
					default:
						t.Fatalf("unknown op %q", o.Op)
					}
					s.VerifAge(time.Millisecond)
				}
				continue
			}
			// ---- a batch ----
			absent := map[int]int{}
			for _, o := range g.Ops {
				if _, ok := s.VerifPeek(in.Keys[o.K]); !ok {
					absent[o.K]++
				}
			}
			atBound := s.Len() >= maxSize
			s.VerifC16Lock()
			bufs := make([][]lcLine, len(g.Ops))
			var wg sync.WaitGroup
			for i, o := range g.Ops {
				wg.Add(1)
				go limWorker(func() {
					defer wg.Done()
					call(o, &bufs[i])
				})
			}
			parked := false
			for dl := time.Now().Add(5 * time.Second); time.Now().Before(dl); {
				if lcParked(dump) == len(g.Ops) {
					parked = true
					break
				}
				time.Sleep(20 * time.Microsecond)
			}
			s.VerifC16Unlock()
			wg.Wait()
			if !parked {
				res.Skip("round %d: the clients of a batch did not park on the store's lock", round)
			}
			var all []lcLine
			for _, b := range bufs {
				all = append(all, b...)
			}
			sort.SliceStable(all, func(i, j int) bool { return all[i].Seq < all[j].Seq })
			// number the identities in response order, then annotate
			for _, ln := range all {
				if ln.T == "res" {
					num(ln.got)
				}
			}
			for _, b := range bufs {
				annotate(b)
				lines = append(lines, b...)
			}
			res.Count("batches", 1)
			res.Count("gets", len(g.Ops))
			contended := false
			for _, n := range absent {
				if n >= 2 {
					contended = true
				}
			}
			if contended {
				res.Count("batches_contended_creation", 1)
				if atBound {
					res.Count("batches_contended_creation_at_bound", 1)
				}
			}
			sig = append(sig, fmt.Sprintf("b%d/%d/%v", len(g.Ops), len(absent), atBound))
			lines = append(lines, observe("q"))
			s.VerifAge(time.Millisecond)
		}
		lines = append(lines, observe("q"))
		sort.SliceStable(lines, func(i, j int) bool { return lines[i].Seq < lines[j].Seq })
		for _, ln := range lines {
			if err := enc.Encode(ln); err != nil {
				t.Fatal(err)
			}
		}
		res.Case(fmt.Sprintf("limconc:%s:%s", in.Regime, strings.Join(sig, ",")))
		res.Count("rounds", 1)
	}
}
