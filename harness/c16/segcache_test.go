package c16

// Gated schedule replay (spec -> code) and trace recording (code -> spec) for
// SegCache.tla on the real internal/cache.Cache.
//
// Each schedule is a TLC behaviour of SegCache.tla; only its *order of steps*
// is used: "writer p takes its next step" / "environment does Del/CAS/CAD".
// Writer goroutines run the real Cache.Add and park at the verifGate points
// of SetWithCap; the driver releases exactly one step at a time, so the
// recorded event order is the real order.  After every step the driver
// evaluates the C16 predicates on the real (parked) state, and the recorded
// trace is later validated by TLC against Trace_SegCache.tla.

import (
	"encoding/json"
	"fmt"
	"os"
	"path/filepath"
	"strings"
	"testing"
	"time"

	icache "github.com/semihalev/sdns/internal/cache"
	"github.com/semihalev/sdns/verifharness/vh"
)

type scOp struct {
	K int `json:"k"`
	V int `json:"v"`
}

type scInput struct {
	Cap       int               `json:"cap"`
	S         int               `json:"s"`
	NK        int               `json:"nk"`
	NV        int               `json:"nv"`
	SegOf     []int             `json:"segOf"` // index = key-1
	Prog      map[string][]scOp `json:"prog"`
	Schedules [][]string        `json:"schedules"`
	TraceOut  string            `json:"traceOut"`
}

type arrival struct {
	point int
	seg   uint
	key   uint64
	n     int
	ret   bool
}

type scWriter struct {
	id      int
	opi     int // next op index
	active  bool
	at      int // last gate point (0 = not started)
	atSeg   uint
	release chan struct{}
}

type scRun struct {
	in      *scInput
	res     *vh.Result
	c       *icache.Cache
	m       *icache.SegmentUInt64Map[any]
	keys    []uint64 // index = key-1
	realSeg []uint   // index = model segment
	vals    []*int   // index = value id
	arrive  chan arrival
	writers map[int]*scWriter
	current *scWriter
	events  []map[string]any
	hist    []string
	ref     map[int]int
}

const scBase = 17

func (r *scRun) modelSeg(real uint) int {
	for i, s := range r.realSeg {
		if s == real {
			return i
		}
	}
	return -1
}

func (r *scRun) gate(point int, seg uint, key uint64, n int) {
	if r.modelSeg(seg) < 0 {
		return // an unmodelled (empty) segment of the spill walk: stuttering
	}
	w := r.current
	r.arrive <- arrival{point: point, seg: seg, key: key, n: n}
	<-w.release
}

func (r *scRun) valID(v any) int {
	for i, p := range r.vals {
		if v == any(p) {
			return i
		}
	}
	return -1
}

// snapshot of the parked state
func (r *scRun) state() (tbl []int, count int64, locks []bool) {
	for k := 1; k <= r.in.NK; k++ {
		v, ok := r.m.VerifPeek(r.keys[k-1])
		if !ok {
			tbl = append(tbl, 0)
		} else {
			tbl = append(tbl, r.valID(v))
		}
	}
	for _, s := range r.realSeg {
		locks = append(locks, !r.m.VerifLockFree(s))
	}
	return tbl, r.m.VerifCount(), locks
}

func (r *scRun) violate(pred, what string) {
	r.res.Violate("segcache/"+pred, fmt.Sprintf("cache.Cache %s under schedule %v (cap=%d): %s", pred, r.hist, r.in.Cap, what),
		map[string]any{"driver": "segcache", "cap": r.in.Cap, "schedule": r.hist, "events": r.events})
}

// wait for the stepped writer to park or return
func (r *scRun) await(w *scWriter) (arrival, error) {
	select {
	case a := <-r.arrive:
		if a.ret {
			w.active = false
			w.at = 0
		} else {
			w.at = a.point
			w.atSeg = a.seg
		}
		return a, nil
	case <-time.After(10 * time.Second):
		return arrival{}, fmt.Errorf("writer %d did not reach a gate (blocked?)", w.id)
	}
}

func (r *scRun) stepWriter(p int) (bool, error) {
	w := r.writers[p]
	prog := r.in.Prog[fmt.Sprint(p)]
	if !w.active {
		if w.opi >= len(prog) {
			return false, nil
		}
		op := prog[w.opi]
		seg := r.realSeg[r.in.SegOf[op.K-1]]
		if !r.m.VerifLockFree(seg) {
			return false, nil // Lock(p) not enabled in the real state
		}
		w.opi++
		w.active = true
		r.current = w
		key, val := r.keys[op.K-1], r.vals[op.V]
		go func() {
			r.c.Add(key, val)
			r.arrive <- arrival{ret: true, key: key}
		}()
	} else {
		if w.at == 6 && !r.m.VerifLockFree(w.atSeg) { // about to lock a spill segment
			return false, nil
		}
		r.current = w
		w.release <- struct{}{}
	}
	a, err := r.await(w)
	if err != nil {
		return false, err
	}
	op := prog[w.opi-1]
	tbl, count, locks := r.state()
	e := map[string]any{"ev": "gate", "p": p, "g": a.point, "k": op.K, "v": op.V, "n": a.n,
		"tbl": tbl, "count": count, "locks": locks}
	if a.ret {
		e["ev"] = "ret"
	} else {
		e["seg"] = r.modelSeg(a.seg)
	}
	r.events = append(r.events, e)
	// reference map: evictions may only remove other keys, at eviction steps
	for k := 1; k <= r.in.NK; k++ {
		had := r.ref[k]
		now := tbl[k-1]
		if a.point == 2 && !a.ret && k == op.K {
			if now != op.V {
				r.violate("MapSemantics", fmt.Sprintf("after Put(key %d, value %d) the key holds %d", k, op.V, now))
				return true, nil
			}
			r.ref[k] = now
			continue
		}
		if now == had {
			continue
		}
		evictStep := !a.ret && (a.point == 4 || a.point == 7)
		if now == 0 && evictStep && k != op.K {
			delete(r.ref, k)
			r.ref[k] = 0
			continue
		}
		if now == 0 && evictStep && k == op.K {
			r.violate("NeverEvictSelf", fmt.Sprintf("writer %d's insert of key %d evicted that same key", p, k))
			return true, nil
		}
		r.violate("MapSemantics", fmt.Sprintf("key %d changed %d -> %d at a step (gate %d) that may not change it", k, had, now, a.point))
		return true, nil
	}
	return true, nil
}

func (r *scRun) checkInvariants() bool {
	tbl, _, locks := r.state()
	present := 0
	for _, v := range tbl {
		if v != 0 {
			present++
		}
	}
	inflight := 0
	wantLock := make([]bool, len(r.realSeg))
	for p, w := range r.writers {
		if !w.active {
			continue
		}
		prog := r.in.Prog[fmt.Sprint(p)]
		op := prog[w.opi-1]
		if w.at >= 2 {
			inflight++
		}
		if w.at >= 1 && w.at <= 4 {
			wantLock[r.in.SegOf[op.K-1]] = true
		}
		if w.at >= 2 && w.at <= 4 && tbl[op.K-1] != op.V {
			r.violate("NeverEvictSelf", fmt.Sprintf("writer %d still holds its segment lock after storing key %d=%d but the key holds %d", p, op.K, op.V, tbl[op.K-1]))
			return false
		}
	}
	if present > r.in.Cap+inflight {
		r.violate("OccupancyBound", fmt.Sprintf("%d entries present, capacity %d, %d writers in flight", present, r.in.Cap, inflight))
		return false
	}
	for i := range locks {
		if locks[i] != wantLock[i] {
			if locks[i] {
				r.violate("OneLockAtATime", fmt.Sprintf("segment %d is locked while no writer is inside its own-segment critical section", i))
			} else {
				r.violate("OneLockAtATime", fmt.Sprintf("segment %d is unlocked while a writer is inside its critical section", i))
			}
			return false
		}
	}
	return true
}

func (r *scRun) envOp(op string, a []int) bool {
	k := a[0]
	seg := r.realSeg[r.in.SegOf[k-1]]
	if !r.m.VerifLockFree(seg) {
		return false
	}
	before := r.ref[k]
	e := map[string]any{"k": k}
	switch op {
	case "EnvDel":
		r.c.Remove(r.keys[k-1])
		e["ev"] = "Del"
		r.ref[k] = 0
	case "EnvCAS":
		ok := r.c.CompareAndSwap(r.keys[k-1], r.vals[a[1]], r.vals[a[2]])
		e["ev"], e["old"], e["new"], e["ok"] = "CAS", a[1], a[2], ok
		if ok != (before == a[1]) {
			r.violate("CASIdentity", fmt.Sprintf("CompareAndSwap(key %d, old %d, new %d) returned %v while the key held %d", k, a[1], a[2], ok, before))
			return true
		}
		if ok {
			r.ref[k] = a[2]
		}
	case "EnvCAD":
		ok := r.c.CompareAndDelete(r.keys[k-1], r.vals[a[1]])
		e["ev"], e["old"], e["ok"] = "CAD", a[1], ok
		if ok != (before == a[1]) {
			r.violate("CASIdentity", fmt.Sprintf("CompareAndDelete(key %d, old %d) returned %v while the key held %d", k, a[1], ok, before))
			return true
		}
		if ok {
			r.ref[k] = 0
		}
	}
	tbl, count, locks := r.state()
	e["tbl"], e["count"], e["locks"] = tbl, count, locks
	r.events = append(r.events, e)
	for kk := 1; kk <= r.in.NK; kk++ {
		if tbl[kk-1] != r.ref[kk] {
			r.violate("MapSemantics", fmt.Sprintf("after %s%v key %d holds %d, expected %d", op, a, kk, tbl[kk-1], r.ref[kk]))
			return true
		}
	}
	return true
}

func (r *scRun) runSchedule(sched []string) error {
	r.c = icache.New(r.in.Cap)
	r.m = r.c.VerifSegments()
	r.writers = map[int]*scWriter{}
	for ps := range r.in.Prog {
		var p int
		fmt.Sscan(ps, &p)
		r.writers[p] = &scWriter{id: p, release: make(chan struct{})}
	}
	r.events = nil
	r.hist = nil
	r.ref = map[int]int{}
	r.events = append(r.events, map[string]any{"ev": "Reset"})
	start := r.res.NViolations()
	for _, lab := range sched {
		op, a, err := parseLabelSets(lab)
		if err != nil {
			return err
		}
		stepped := false
		if strings.HasPrefix(op, "Env") {
			stepped = r.envOp(op, a)
		} else {
			stepped, err = r.stepWriter(a[0])
			if err != nil {
				return err
			}
		}
		if !stepped {
			r.res.Count("steps_not_enabled", 1)
			continue
		}
		r.hist = append(r.hist, lab)
		r.res.Count("steps", 1)
		if r.res.NViolations() > start || !r.checkInvariants() {
			break
		}
	}
	// drain: let every started call finish, then run the rest of each program
	for guard := 0; guard < 10000; guard++ {
		progress := false
		for p, w := range r.writers {
			if w.active || w.opi < len(r.in.Prog[fmt.Sprint(p)]) {
				ok, err := r.stepWriter(p)
				if err != nil {
					return err
				}
				if ok {
					progress = true
					r.hist = append(r.hist, fmt.Sprintf("drain(%d)", p))
					if r.res.NViolations() == start {
						r.checkInvariants()
					}
				}
			}
		}
		if !progress {
			break
		}
	}
	for _, w := range r.writers {
		if w.active {
			return fmt.Errorf("writer %d never returned", w.id)
		}
	}
	if r.res.NViolations() > start {
		return nil
	}
	// quiescent: Len = reachable entries, Get agrees with the last stores
	reach := 0
	r.c.ForEach(func(k uint64, v any) bool { reach++; return true })
	present := 0
	for k := 1; k <= r.in.NK; k++ {
		v, ok := r.c.Get(r.keys[k-1])
		id := 0
		if ok {
			id = r.valID(v)
			present++
		}
		if id != r.ref[k] {
			r.violate("MapSemantics", fmt.Sprintf("quiescent Get(key %d) = %d, last stored/evicted state %d", k, id, r.ref[k]))
			return nil
		}
	}
	if r.c.Len() != reach || reach != present {
		r.violate("QuiescentLen", fmt.Sprintf("writers stopped: Len()=%d, ForEach reaches %d, %d model keys present", r.c.Len(), reach, present))
	}
	return nil
}

func parseLabelSets(l string) (string, []int, error) {
	// labels like EvictOwn(1,{2, 3}) : drop set arguments
	if i := strings.Index(l, "{"); i >= 0 {
		j := strings.LastIndex(l, "}")
		l = strings.TrimRight(strings.TrimSpace(l[:i]), ",") + l[j+1:]
	}
	return parseLabel(l)
}

func TestSegCacheSchedules(t *testing.T) {
	var in scInput
	vh.Input(t, &in)
	res := vh.NewResult()
	defer res.Write(t)
	r := &scRun{in: &in, res: res, arrive: make(chan arrival)}
	// real keys: model segment s -> real segment scBase+s (adjacent, so the
	// cyclic spill order of the model is the code's order)
	probe := icache.New(1).VerifSegments()
	for s := 0; s < in.S; s++ {
		r.realSeg = append(r.realSeg, uint(scBase+s))
	}
	x := uint64(vh.Seed()) * 1_000_003
	for k := 1; k <= in.NK; k++ {
		want := r.realSeg[in.SegOf[k-1]]
		for {
			x++
			if x != 0 && probe.VerifSegmentIndex(x) == want {
				r.keys = append(r.keys, x)
				break
			}
		}
	}
	r.vals = []*int{nil}
	for v := 1; v <= in.NV; v++ {
		n := v
		r.vals = append(r.vals, &n)
	}
	icache.SetVerifGate(r.gate)
	defer icache.SetVerifGate(nil)

	var out *os.File
	if in.TraceOut != "" {
		var err error
		out, err = os.Create(filepath.Clean(in.TraceOut))
		if err != nil {
			t.Fatal(err)
		}
		defer out.Close()
	}
	for si, sched := range in.Schedules {
		if err := r.runSchedule(sched); err != nil {
			res.Skip("schedule %d: %v", si, err)
			break
		}
		res.Case(strings.Join(r.hist, ";"))
		if si < 2 {
			res.Sample(map[string]any{"schedule": r.hist, "cap": in.Cap})
		}
		if out != nil {
			for _, e := range r.events {
				b, _ := json.Marshal(e)
				out.Write(append(b, '\n'))
			}
		}
		res.Count("events", len(r.events))
	}
}
