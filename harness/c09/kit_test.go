// Package c09 binds tla/RFC5011/RFC5011.tla to the real Resolver.AutoTA.
//
// kit_test.go: real keys (Ed25519 KSKs found by key-generation search so that
// their RFC 4034 key tags reproduce the model's tag relations), a scripted
// root on loopback publishing really signed DNSKEY RRsets, file-level fault
// injection, inotify observation of the persistence tail, and gob access to
// the two state files (the types are exported by the repository).
package c09

import (
	"crypto/ed25519"
	"encoding/base64"
	"encoding/binary"
	"encoding/gob"
	"encoding/json"
	"errors"
	"fmt"
	"math/rand"
	"net"
	"os"
	"path/filepath"
	"sort"
	"strings"
	"sync"
	"syscall"
	"time"
	"unsafe"

	"github.com/miekg/dns"
	"github.com/semihalev/sdns/config"
	"github.com/semihalev/sdns/middleware/resolver"
)

const (
	flagPlain   = 257
	flagRevoked = 257 | 128
	day         = 24 * time.Hour
)

// ---------------------------------------------------------------------------
// keys
// ---------------------------------------------------------------------------

type realKey struct {
	Name   string
	Seed   []byte
	priv   ed25519.PrivateKey
	pub    string // base64
	Tag    uint16 // plain form
	RevTag uint16 // REVOKE form
}

func newRealKey(seed []byte) *realKey {
	priv := ed25519.NewKeyFromSeed(seed)
	k := &realKey{Seed: append([]byte(nil), seed...), priv: priv,
		pub: base64.StdEncoding.EncodeToString(priv.Public().(ed25519.PublicKey))}
	k.Tag = k.rr(false).KeyTag()
	k.RevTag = k.rr(true).KeyTag()
	return k
}

func (k *realKey) rr(revoked bool) *dns.DNSKEY {
	fl := uint16(flagPlain)
	if revoked {
		fl = flagRevoked
	}
	return &dns.DNSKEY{
		Hdr:       dns.RR_Header{Name: ".", Rrtype: dns.TypeDNSKEY, Class: dns.ClassINET, Ttl: 3600},
		Flags:     fl,
		Protocol:  3,
		Algorithm: dns.ED25519,
		PublicKey: k.pub,
	}
}

// tagModel is the model's tag structure (constants Tag, RevTag, Delta).
type tagModel struct {
	Keys   []string       `json:"keys"`
	Tag    map[string]int `json:"tag"`
	RevTag map[string]int `json:"revtag"`
	Delta  int            `json:"delta"`
}

type form struct {
	k   string
	rev bool
}

func (tm *tagModel) mtag(f form) int {
	if f.rev {
		return tm.RevTag[f.k]
	}
	return tm.Tag[f.k]
}

func rtag(keys map[string]*realKey, f form) uint16 {
	if f.rev {
		return keys[f.k].RevTag
	}
	return keys[f.k].Tag
}

// consistent reports whether the real tags of the assigned keys stand in
// exactly the relations the model's tags do: equality, and "is Delta below".
func (tm *tagModel) consistent(keys map[string]*realKey) bool {
	var fs []form
	for name := range keys {
		fs = append(fs, form{name, false}, form{name, true})
	}
	for _, a := range fs {
		for _, b := range fs {
			if (tm.mtag(a) == tm.mtag(b)) != (rtag(keys, a) == rtag(keys, b)) {
				return false
			}
			if (tm.mtag(a)-tm.Delta == tm.mtag(b)) != (rtag(keys, a)-128 == rtag(keys, b)) {
				return false
			}
		}
	}
	return true
}

// findKeys searches real keys for the model's tag structure. The search is
// seeded, so a (seed, tag structure) pair always yields the same keys.
func findKeys(tm *tagModel, seed int64, budget int) (map[string]*realKey, int, error) {
	rng := rand.New(rand.NewSource(seed*7919 + 17))
	keys := map[string]*realKey{}
	tries := 0
	names := append([]string(nil), tm.Keys...)
	sort.Strings(names)
	buf := make([]byte, ed25519.SeedSize)
	for _, name := range names {
		found := false
		for tries < budget {
			tries++
			binary.LittleEndian.PutUint64(buf[0:], rng.Uint64())
			binary.LittleEndian.PutUint64(buf[8:], rng.Uint64())
			binary.LittleEndian.PutUint64(buf[16:], rng.Uint64())
			binary.LittleEndian.PutUint64(buf[24:], rng.Uint64())
			k := newRealKey(buf)
			k.Name = name
			keys[name] = k
			if tm.consistent(keys) {
				found = true
				break
			}
			delete(keys, name)
		}
		if !found {
			return nil, tries, fmt.Errorf("no real key for %s within %d key generations", name, budget)
		}
	}
	return keys, tries, nil
}

// ---------------------------------------------------------------------------
// publication
// ---------------------------------------------------------------------------

// zonePub is one root DNSKEY publication of the model, plus the answer order
// (for two DNSKEYs with one tag the code keeps the later one).
type zonePub struct {
	Keys    []string `json:"keys"`
	Revoked []string `json:"revoked"`
	SignedN []string `json:"signedN"`
	SignedR []string `json:"signedR"`
	Order   []string `json:"order,omitempty"`
}

func has(s []string, x string) bool {
	for _, y := range s {
		if y == x {
			return true
		}
	}
	return false
}

func (e *env) sign(k *realKey, revokedForm bool, rrset []dns.RR, corrupt bool) *dns.RRSIG {
	now := time.Now()
	tag := k.Tag
	if revokedForm {
		tag = k.RevTag
	}
	sig := &dns.RRSIG{
		Hdr:         dns.RR_Header{Name: ".", Rrtype: dns.TypeRRSIG, Class: dns.ClassINET, Ttl: 3600},
		TypeCovered: dns.TypeDNSKEY,
		Algorithm:   dns.ED25519,
		OrigTtl:     3600,
		Expiration:  uint32(now.Add(2 * time.Hour).Unix()),
		Inception:   uint32(now.Add(-2 * time.Hour).Unix()),
		KeyTag:      tag,
		SignerName:  ".",
	}
	if err := sig.Sign(k.priv, rrset); err != nil {
		panic(err)
	}
	if corrupt {
		raw, _ := base64.StdEncoding.DecodeString(sig.Signature)
		raw[len(raw)/2] ^= 0x40
		sig.Signature = base64.StdEncoding.EncodeToString(raw)
	}
	return sig
}

// answer builds the DNSKEY response of a publication: the keys in answer
// order, one valid RRSIG per (key, form) the model lists, and -- seeded --
// forged RRSIGs (right tag, broken signature) for forms the model does not
// list, so "not signed" and "badly signed" are both exercised.
func (e *env) answer(z *zonePub, forge *rand.Rand) []dns.RR {
	order := z.Order
	if len(order) == 0 {
		order = append([]string(nil), z.Keys...)
		sort.Strings(order)
	}
	var rrset []dns.RR
	for _, name := range order {
		rrset = append(rrset, e.keys[name].rr(has(z.Revoked, name)))
	}
	out := append([]dns.RR(nil), rrset...)
	if len(rrset) == 0 {
		return out
	}
	names := make([]string, 0, len(e.keys))
	for n := range e.keys {
		names = append(names, n)
	}
	sort.Strings(names)
	for _, name := range names {
		k := e.keys[name]
		if has(z.SignedN, name) {
			out = append(out, e.sign(k, false, rrset, false))
		} else if forge != nil && forge.Intn(3) == 0 {
			out = append(out, e.sign(k, false, rrset, true))
		}
		if has(z.SignedR, name) {
			out = append(out, e.sign(k, true, rrset, false))
		} else if forge != nil && has(z.Revoked, name) && forge.Intn(3) == 0 {
			out = append(out, e.sign(k, true, rrset, true))
		}
	}
	return out
}

// ---------------------------------------------------------------------------
// scripted root
// ---------------------------------------------------------------------------

type root struct {
	mu      sync.Mutex
	addr    string
	udp     *dns.Server
	tcp     *dns.Server
	mode    string   // "answer" | "empty" | "servfail" | "drop"
	rrs     []dns.RR // for mode answer
	onFetch func()   // runs once, before the first reply of a run
	queries int
}

func startRoot() (*root, error) {
	for attempt := 0; attempt < 20; attempt++ {
		l, err := net.Listen("tcp", "127.0.0.1:0")
		if err != nil {
			return nil, err
		}
		pc, err := net.ListenPacket("udp", l.Addr().String())
		if err != nil {
			_ = l.Close()
			continue
		}
		r := &root{addr: l.Addr().String(), mode: "empty"}
		h := dns.HandlerFunc(r.serve)
		r.udp = &dns.Server{PacketConn: pc, Handler: h}
		r.tcp = &dns.Server{Listener: l, Handler: h}
		go func() { _ = r.udp.ActivateAndServe() }()
		go func() { _ = r.tcp.ActivateAndServe() }()
		return r, nil
	}
	return nil, errors.New("no loopback port pair")
}

func (r *root) stop() {
	_ = r.udp.Shutdown()
	_ = r.tcp.Shutdown()
}

func (r *root) set(mode string, rrs []dns.RR, onFetch func()) {
	r.mu.Lock()
	r.mode, r.rrs, r.onFetch, r.queries = mode, rrs, onFetch, 0
	r.mu.Unlock()
}

func (r *root) serve(w dns.ResponseWriter, req *dns.Msg) {
	r.mu.Lock()
	r.queries++
	hook := r.onFetch
	r.onFetch = nil
	mode, rrs := r.mode, r.rrs
	r.mu.Unlock()
	if hook != nil {
		hook()
	}
	m := new(dns.Msg)
	m.SetReply(req)
	m.Authoritative = true
	if opt := req.IsEdns0(); opt != nil {
		m.SetEdns0(4096, true)
	}
	isKeyQ := len(req.Question) == 1 && req.Question[0].Qtype == dns.TypeDNSKEY && req.Question[0].Name == "."
	switch {
	case !isKeyQ:
		m.Rcode = dns.RcodeRefused
	case mode == "drop":
		return
	case mode == "servfail":
		m.Rcode = dns.RcodeServerFailure
	case mode == "answer":
		m.Answer = append(m.Answer, rrs...)
	}
	_ = w.WriteMsg(m)
}

// ---------------------------------------------------------------------------
// environment: one directory, one resolver process at a time
// ---------------------------------------------------------------------------

type env struct {
	tm         *tagModel
	keys       map[string]*realKey
	byPub      map[string]string // base64 public key -> model name
	configured []string
	root       *root
	base       string // scratch for this behaviour
	dir        string // cfg.Directory of the current process
	gen        int
	res        *resolver.Resolver
}

func (e *env) statePath() string { return filepath.Join(e.dir, resolver.VerifC09StateFile) }
func (e *env) tombPath() string  { return filepath.Join(e.dir, resolver.VerifC09TombstoneFile) }

// boot starts a fresh resolver process on e.dir (NewResolver: rootKeys := cfg.RootKeys).
func (e *env) boot() {
	cfg := new(config.Config)
	cfg.RootServers = []string{e.root.addr}
	for _, name := range e.configured {
		cfg.RootKeys = append(cfg.RootKeys, e.keys[name].rr(false).String())
	}
	cfg.Maxdepth = 30
	cfg.Expire = 600
	cfg.CacheSize = 1024
	cfg.Timeout.Duration = 1500 * time.Millisecond
	cfg.Directory = e.dir
	cfg.DNSSEC = "on"
	cfg.IPv6Access = false
	e.res = resolver.NewResolver(cfg)
}

func (e *env) nameOf(rr dns.RR) string {
	k, ok := rr.(*dns.DNSKEY)
	if !ok {
		return "?" + rr.String()
	}
	if n, ok := e.byPub[k.PublicKey]; ok {
		if k.Flags&128 != 0 {
			return n + "/revoked"
		}
		return n
	}
	return "?" + k.PublicKey
}

func (e *env) trusted() []string {
	out := []string{}
	for _, rr := range e.res.VerifC09RootKeys() {
		out = append(out, e.nameOf(rr))
	}
	sort.Strings(out)
	return out
}

// ---------------------------------------------------------------------------
// the two files
// ---------------------------------------------------------------------------

type entryObs struct {
	K   string `json:"k"`
	St  string `json:"st"`
	Age int    `json:"age"` // whole days since FirstSeen
	Tag int    `json:"tag"` // real tag the entry is filed under
}

type stateObs struct {
	Kind string              `json:"kind"` // missing | corrupt | ok
	M    map[string]entryObs `json:"m"`    // model key name -> entry (entries are filed by tag; see Tag)
	Dup  []string            `json:"dup,omitempty"`
}

type tombObs struct {
	Kind string   `json:"kind"` // missing | corrupt | unreadable | ok
	S    []string `json:"s"`
}

func stName(s resolver.State) string {
	switch s {
	case resolver.StateStart:
		return "Start"
	case resolver.StateAddPend:
		return "AddPend"
	case resolver.StateValid:
		return "Valid"
	case resolver.StateMissing:
		return "Missing"
	case resolver.StateRevoked:
		return "Revoked"
	case resolver.StateRemoved:
		return "Removed"
	}
	return fmt.Sprintf("State(%d)", int(s))
}

func readStateFile(path string) (resolver.TrustAnchors, string) {
	f, err := os.Open(path)
	if err != nil {
		if os.IsNotExist(err) {
			return nil, "missing"
		}
		return nil, "corrupt"
	}
	defer f.Close()
	m := make(resolver.TrustAnchors)
	if err := gob.NewDecoder(f).Decode(&m); err != nil {
		return nil, "corrupt"
	}
	return m, "ok"
}

func readTombFile(path string) (resolver.Tombstones, string) {
	f, err := os.Open(path)
	if err != nil {
		if os.IsNotExist(err) {
			return nil, "missing"
		}
		return nil, "unreadable"
	}
	defer f.Close()
	m := make(resolver.Tombstones)
	if err := gob.NewDecoder(f).Decode(&m); err != nil {
		return nil, "corrupt"
	}
	return m, "ok"
}

func writeGob(path string, v any) error {
	tmp := path + ".c09w"
	f, err := os.Create(tmp)
	if err != nil {
		return err
	}
	if err := gob.NewEncoder(f).Encode(v); err != nil {
		_ = f.Close()
		return err
	}
	if err := f.Close(); err != nil {
		return err
	}
	return os.Rename(tmp, path)
}

func ageDays(t time.Time) int {
	d := time.Since(t)
	if d < 0 {
		return 0
	}
	return int((d + time.Hour) / day) // FirstSeen values are whole days (+ seconds of run time) old
}

func (e *env) observeState() stateObs {
	m, kind := readStateFile(e.statePath())
	o := stateObs{Kind: kind, M: map[string]entryObs{}}
	for tag, ta := range m {
		if ta == nil || ta.DNSKey == nil {
			o.Dup = append(o.Dup, fmt.Sprintf("nil@%d", tag))
			continue
		}
		n := e.nameOf(ta.DNSKey)
		if _, dup := o.M[n]; dup {
			o.Dup = append(o.Dup, n)
		}
		o.M[n] = entryObs{K: n, St: stName(ta.State), Age: ageDays(ta.FirstSeen), Tag: int(tag)}
	}
	return o
}

func (e *env) observeTomb() tombObs {
	m, kind := readTombFile(e.tombPath())
	o := tombObs{Kind: kind, S: []string{}}
	for fp, tb := range m {
		n := "?" + fp
		if tb != nil && tb.DNSKey != nil {
			n = strings.TrimSuffix(e.nameOf(tb.DNSKey), "/revoked")
			if resolver.VerifC09MaterialFP(tb.DNSKey) != fp {
				n = "?misfiled:" + n
			}
		}
		o.S = append(o.S, n)
	}
	sort.Strings(o.S)
	return o
}

// passDays makes d days pass for everything at rest: every FirstSeen in the
// two files moves d days into the past (the types are exported; no hook).
func (e *env) passDays(d int) {
	if d == 0 {
		return
	}
	if m, kind := readStateFile(e.statePath()); kind == "ok" {
		for _, ta := range m {
			if ta != nil {
				ta.FirstSeen = ta.FirstSeen.Add(-time.Duration(d) * day)
			}
		}
		if err := writeGob(e.statePath(), &m); err != nil {
			panic(err)
		}
	}
	if m, kind := readTombFile(e.tombPath()); kind == "ok" {
		for _, tb := range m {
			if tb != nil {
				tb.FirstSeen = tb.FirstSeen.Add(-time.Duration(d) * day)
			}
		}
		if err := writeGob(e.tombPath(), &m); err != nil {
			panic(err)
		}
	}
}

// ---- read faults ----------------------------------------------------------

func corruptFile(path string) {
	_ = os.RemoveAll(path)
	if err := os.WriteFile(path, []byte("\x07this is not a gob stream\xff\xfe\x00\x01"), 0o600); err != nil {
		panic(err)
	}
}

// makeUnreadable turns path into a symlink loop: open(2) fails with ELOOP
// (not ENOENT), rename(2) over it still works. The content is kept aside and
// comes back if the run does not replace the file.
type unreadable struct {
	path, keep string
	active     bool
}

func makeUnreadable(path, keepDir string) *unreadable {
	u := &unreadable{path: path, keep: filepath.Join(keepDir, filepath.Base(path)+".unreadable-keep")}
	if err := os.Rename(path, u.keep); err != nil {
		panic(err)
	}
	if err := os.Symlink(filepath.Base(path), path); err != nil {
		panic(err)
	}
	u.active = true
	return u
}

func (u *unreadable) restore() {
	if u == nil || !u.active {
		return
	}
	u.active = false
	if fi, err := os.Lstat(u.path); err == nil && fi.Mode()&os.ModeSymlink != 0 {
		_ = os.Remove(u.path)
		if err := os.Rename(u.keep, u.path); err != nil {
			panic(err)
		}
		return
	}
	_ = os.Remove(u.keep)
}

// ---- write faults ---------------------------------------------------------

// blockWrite makes rename(tmp, path) fail: a non-empty directory sits at
// path. What was there is kept aside and put back by release(), because a
// failed atomic replace leaves the old file in place.
type blocked struct {
	path, keep string
	had        bool
}

func blockWrite(path, keepDir string) *blocked {
	b := &blocked{path: path, keep: filepath.Join(keepDir, filepath.Base(path)+".blocked-keep")}
	if _, err := os.Lstat(path); err == nil {
		if err := os.Rename(path, b.keep); err != nil {
			panic(err)
		}
		b.had = true
	}
	if err := os.Mkdir(path, 0o700); err != nil {
		panic(err)
	}
	if err := os.WriteFile(filepath.Join(path, "occupied"), []byte("x"), 0o600); err != nil {
		panic(err)
	}
	return b
}

func (b *blocked) release() {
	if b == nil {
		return
	}
	_ = os.RemoveAll(b.path)
	if b.had {
		if err := os.Rename(b.keep, b.path); err != nil {
			panic(err)
		}
	}
}

// ---- snapshots ------------------------------------------------------------

// snapshot copies the two files (as they are: regular file, garbage, absent).
type snapshot map[string][]byte // base name -> content; absent = no key

func takeSnapshot(dir string) snapshot {
	s := snapshot{}
	for _, n := range []string{resolver.VerifC09StateFile, resolver.VerifC09TombstoneFile} {
		p := filepath.Join(dir, n)
		fi, err := os.Lstat(p)
		if err != nil || !fi.Mode().IsRegular() {
			continue
		}
		b, err := os.ReadFile(p)
		if err != nil {
			panic(err)
		}
		s[n] = b
	}
	return s
}

func (s snapshot) materialise(dir string) {
	if err := os.MkdirAll(dir, 0o750); err != nil {
		panic(err)
	}
	for n, b := range s {
		if err := os.WriteFile(filepath.Join(dir, n), b, 0o600); err != nil {
			panic(err)
		}
	}
}

// ---------------------------------------------------------------------------
// inotify: the persistence tail as the kernel saw it
// ---------------------------------------------------------------------------

type fsEvent struct {
	Op     string `json:"op"` // create | modify | close_write | moved_from | moved_to | delete
	Name   string `json:"name"`
	Cookie uint32 `json:"cookie,omitempty"`
}

type watcher struct {
	fd int
}

func newWatcher(dir string) (*watcher, error) {
	fd, err := syscall.InotifyInit1(syscall.IN_NONBLOCK | syscall.IN_CLOEXEC)
	if err != nil {
		return nil, err
	}
	mask := uint32(syscall.IN_CREATE | syscall.IN_MODIFY | syscall.IN_CLOSE_WRITE | syscall.IN_MOVED_FROM |
		syscall.IN_MOVED_TO | syscall.IN_DELETE)
	if _, err := syscall.InotifyAddWatch(fd, dir, mask); err != nil {
		_ = syscall.Close(fd)
		return nil, err
	}
	return &watcher{fd: fd}, nil
}

func (w *watcher) close() { _ = syscall.Close(w.fd) }

// drain returns every event queued so far.
func (w *watcher) drain() []fsEvent {
	var out []fsEvent
	buf := make([]byte, 64*1024)
	for {
		n, err := syscall.Read(w.fd, buf)
		if n <= 0 || err != nil {
			return out
		}
		off := 0
		for off+syscall.SizeofInotifyEvent <= n {
			raw := (*syscall.InotifyEvent)(unsafe.Pointer(&buf[off]))
			nameLen := int(raw.Len)
			name := ""
			if nameLen > 0 {
				b := buf[off+syscall.SizeofInotifyEvent : off+syscall.SizeofInotifyEvent+nameLen]
				name = strings.TrimRight(string(b), "\x00")
			}
			for _, m := range []struct {
				bit uint32
				op  string
			}{
				{syscall.IN_CREATE, "create"}, {syscall.IN_MODIFY, "modify"}, {syscall.IN_CLOSE_WRITE, "close_write"},
				{syscall.IN_MOVED_FROM, "moved_from"}, {syscall.IN_MOVED_TO, "moved_to"}, {syscall.IN_DELETE, "delete"},
			} {
				if raw.Mask&m.bit != 0 {
					out = append(out, fsEvent{Op: m.op, Name: name, Cookie: raw.Cookie})
				}
			}
			off += syscall.SizeofInotifyEvent + nameLen
		}
	}
}

// tail is what one run did to the two final names.
type tail struct {
	Attempted   bool     `json:"attempted"` // a temp file of either store was created
	Replaced    []string `json:"replaced"`  // final names in the order they were renamed into place
	NotAtomic   []string `json:"notAtomic"` // final names created/modified in place
	TombFirst   bool     `json:"tombFirst"` // tombstones were replaced before the state file (when both were)
	TombLanded  bool     `json:"tombLanded"`
	StateLanded bool     `json:"stateLanded"`
}

func analyseTail(evs []fsEvent) tail {
	t := tail{Replaced: []string{}, NotAtomic: []string{}, TombFirst: true}
	from := map[uint32]string{}
	sf, tf := resolver.VerifC09StateFile, resolver.VerifC09TombstoneFile
	for _, ev := range evs {
		final := ev.Name == sf || ev.Name == tf
		isTmp := strings.HasPrefix(ev.Name, sf+".tmp.") || strings.HasPrefix(ev.Name, tf+".tmp.")
		switch ev.Op {
		case "create":
			if isTmp {
				t.Attempted = true
			}
			if final {
				t.NotAtomic = append(t.NotAtomic, ev.Name)
			}
		case "modify":
			if final {
				t.NotAtomic = append(t.NotAtomic, ev.Name)
			}
		case "moved_from":
			from[ev.Cookie] = ev.Name
		case "moved_to":
			if final {
				src := from[ev.Cookie]
				if !strings.HasPrefix(src, ev.Name+".tmp.") {
					t.NotAtomic = append(t.NotAtomic, ev.Name)
				}
				t.Replaced = append(t.Replaced, ev.Name)
				t.Attempted = true
			}
		}
	}
	for i, n := range t.Replaced {
		if n == tf {
			t.TombLanded = true
		}
		if n == sf {
			t.StateLanded = true
			for _, later := range t.Replaced[i+1:] {
				if later == tf {
					t.TombFirst = false
				}
			}
		}
	}
	return t
}

func mustJSON(v any) string {
	b, err := json.Marshal(v)
	if err != nil {
		return err.Error()
	}
	return string(b)
}
