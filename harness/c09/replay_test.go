package c09

// replay_test.go: spec -> code.  Every behaviour of RFC5011.tla handed over by
// checks/c09.py (TLC -simulate behaviours, TLC counter-examples of the
// hypothesis configurations) is executed on a real resolver.Resolver whose
// root is the scripted loopback server; after every AutoTA run and restart the
// live trust set and both files are read back, the C09 predicates are
// evaluated by an oracle that only knows what was published, what the
// resolver trusted when it fetched and which writes reached the disk, and the
// observation is compared with the model's prediction (drift).  One NDJSON
// event per run is recorded for Trace_RFC5011.tla.

import (
	"bufio"
	"encoding/json"
	"fmt"
	"math/rand"
	"os"
	"path/filepath"
	"sort"
	"strings"
	"sync"
	"testing"

	"github.com/semihalev/sdns/middleware/resolver"
	"github.com/semihalev/sdns/verifharness/vh"
	"github.com/semihalev/zlog/v2"
)

type expEntry struct {
	K   string `json:"k"`
	St  string `json:"st"`
	Age int    `json:"age"`
}

type expect struct {
	AtFetch []string            `json:"atFetch"` // rootKeys when the fetch went out (nil: no fetch)
	Cand    []string            `json:"cand"`
	Trusted []string            `json:"trusted"`
	StateK  string              `json:"stateKind"`
	State   map[string]expEntry `json:"state"` // by key name
	TombK   string              `json:"tombKind"`
	Tomb    []string            `json:"tomb"`
}

type step struct {
	Op        string   `json:"op"` // run | restart
	D         int      `json:"d"`
	RF        string   `json:"rf"`    // none | tombCorrupt | tombUnreadable | stateCorrupt (restart: none | tombUnreadable)
	Fetch     string   `json:"fetch"` // answer | empty | servfail | drop | none (run ends before the fetch)
	Z         *zonePub `json:"z"`
	TombFail  bool     `json:"tombFail"`
	StateFail bool     `json:"stateFail"`
	Crash     int      `json:"crash"` // -1 none; k: the process dies before its (k+1)-th write attempt (2: after both)
	Exp       *expect  `json:"exp"`
}

type behaviour struct {
	ID    string `json:"id"`
	Steps []step `json:"steps"`
}

type script struct {
	Name       string      `json:"name"`
	Model      tagModel    `json:"model"`
	Configured []string    `json:"configured"`
	AgeCap     int         `json:"ageCap"`
	Behaviours []behaviour `json:"behaviours"`
	TraceOut   string      `json:"traceOut"`
	Forge      bool        `json:"forge"`
	KeyBudget  int         `json:"keyBudget"`
}

type set map[string]bool

func toSet(xs []string) set {
	s := set{}
	for _, x := range xs {
		s[x] = true
	}
	return s
}

func (s set) list() []string {
	out := make([]string, 0, len(s))
	for k := range s {
		out = append(out, k)
	}
	sort.Strings(out)
	return out
}

func sameList(a, b []string) bool {
	a, b = append([]string{}, a...), append([]string{}, b...)
	sort.Strings(a)
	sort.Strings(b)
	return strings.Join(a, ",") == strings.Join(b, ",")
}

// oracle: the ghost variables of RFC5011.tla, advanced by the driver from
// what it published and from what it observed, never from the code's files.
type oracle struct {
	seen, miss             map[string]int
	earned, revAcc, revVol set
	// the files as they were before this run's read fault was injected
	statePre stateObs
	tombPre  tombObs
}

func newOracle(keys []string) *oracle {
	o := &oracle{seen: map[string]int{}, miss: map[string]int{}, earned: set{}, revAcc: set{}, revVol: set{}}
	for _, k := range keys {
		o.seen[k], o.miss[k] = -1, -1
	}
	return o
}

func (o *oracle) age(d int) {
	for k, v := range o.seen {
		if v >= 0 {
			o.seen[k] = v + d
		}
	}
	for k, v := range o.miss {
		if v >= 0 {
			o.miss[k] = v + d
		}
	}
}

type traceEvent struct {
	Ev        string            `json:"ev"` // reset | run | restart
	B         string            `json:"b,omitempty"`
	D         int               `json:"d"`
	RF        string            `json:"rf"`
	Fetch     bool              `json:"fetch"`         // the DNSKEY RRset was delivered
	Z         *zonePub          `json:"z,omitempty"`   // what was delivered
	Win       map[string]string `json:"win,omitempty"` // model tag -> key kept in kskFetched for a contested tag
	TombFail  bool              `json:"tombFail"`
	StateFail bool              `json:"stateFail"`
	Crash     int               `json:"crash"`
	// observations
	AtFetch []string `json:"atFetch"` // rootKeys seen by the root server when the query arrived
	Fetched bool     `json:"fetched"` // a query arrived
	Trusted []string `json:"trusted"`
	State   stateObs `json:"state"`
	Tomb    tombObs  `json:"tomb"`
	Tail    tail     `json:"tail"`
}

type runner struct {
	t     *testing.T
	sc    *script
	res   *vh.Result
	keys  map[string]*realKey
	root  *root
	trace *bufio.Writer
	forge *rand.Rand
	// a predicate failed in the behaviour being replayed: what follows is a
	// consequence of that state, so the behaviour ends there
	violated bool
}

func TestReplay(t *testing.T) {
	var in struct {
		script
		Suites []script `json:"suites"`
	}
	vh.Input(t, &in)
	res := vh.NewResult()
	defer res.Write(t)
	zlog.SetLevel(zlog.LevelFatal)
	suites := in.Suites
	if len(suites) == 0 {
		suites = []script{in.script}
	}
	scratch := filepath.Join(vh.Scratch(t), fmt.Sprintf("c09-%d", os.Getpid()))
	if shm := "/dev/shm"; dirExists(shm) {
		scratch = filepath.Join(shm, fmt.Sprintf("verif-c09-%d", os.Getpid()))
	}
	defer os.RemoveAll(scratch)

	// suites are independent (own keys, own root, own directories): run a few side by side
	sem := make(chan struct{}, 4)
	var wg sync.WaitGroup
	for i := range suites {
		wg.Add(1)
		sem <- struct{}{}
		go func(i int) {
			defer wg.Done()
			defer func() { <-sem }()
			runSuite(t, &suites[i], res, filepath.Join(scratch, fmt.Sprintf("s%d", i)))
		}(i)
	}
	wg.Wait()
}

func runSuite(t *testing.T, sc *script, res *vh.Result, scratch string) {
	if sc.KeyBudget == 0 {
		sc.KeyBudget = 3000000
	}
	keys, tries, err := findKeys(&sc.Model, vh.Seed(), sc.KeyBudget)
	if err != nil {
		res.Skip("suite %s: key search: %v", sc.Name, err)
		return
	}
	res.Count("keygen_tries", tries)
	rt, err := startRoot()
	if err != nil {
		res.Skip("suite %s: scripted root: %v", sc.Name, err)
		return
	}
	defer rt.stop()

	r := &runner{t: t, sc: sc, res: res, keys: keys, root: rt}
	if sc.Forge {
		r.forge = rand.New(rand.NewSource(vh.Seed() + 99))
	}
	if sc.TraceOut != "" {
		f, err := os.Create(sc.TraceOut)
		if err != nil {
			res.Skip("suite %s: trace file: %v", sc.Name, err)
			return
		}
		defer f.Close()
		r.trace = bufio.NewWriter(f)
		defer r.trace.Flush()
	}
	info := map[string]any{}
	for n, k := range keys {
		info[n] = map[string]int{"tag": int(k.Tag), "revtag": int(k.RevTag)}
	}
	res.Sample(map[string]any{"suite": sc.Name, "real_key_tags": info})
	for i := range sc.Behaviours {
		r.replay(&sc.Behaviours[i], filepath.Join(scratch, fmt.Sprintf("b%d", i)))
	}
}

func dirExists(p string) bool {
	fi, err := os.Stat(p)
	return err == nil && fi.IsDir()
}

// count books a counter for the whole run and for this suite.
func (r *runner) count(name string, n int) {
	r.res.Count(name, n)
	if r.sc.Name != "" {
		r.res.Count(r.sc.Name+":"+name, n)
	}
}

func (r *runner) drift(format string, a ...any) {
	if r.sc.Name != "" {
		r.res.Count(r.sc.Name+":drift", 1)
	}
	r.res.DriftNote("["+r.sc.Name+"] "+format, a...)
}

func (r *runner) emit(ev *traceEvent) {
	if r.trace == nil {
		return
	}
	// the TLA+ Json module has no null
	if ev.AtFetch == nil {
		ev.AtFetch = []string{}
	}
	if ev.Trusted == nil {
		ev.Trusted = []string{}
	}
	if ev.Tail.Replaced == nil {
		ev.Tail.Replaced = []string{}
	}
	if ev.Tail.NotAtomic == nil {
		ev.Tail.NotAtomic = []string{}
	}
	if ev.State.M == nil {
		ev.State.M = map[string]entryObs{}
	}
	if ev.Tomb.S == nil {
		ev.Tomb.S = []string{}
	}
	b, _ := json.Marshal(ev)
	_, _ = r.trace.Write(b)
	_ = r.trace.WriteByte('\n')
}

func (r *runner) violate(b *behaviour, upto int, pred, cause, what string) {
	r.violated = true
	key := "c09/" + pred
	if cause != "" {
		key += "/" + cause
	}
	r.count("violations_"+pred, 1)
	r.res.Violate(key, fmt.Sprintf("[%s] %s: %s [behaviour %s, step %d]", r.sc.Name, pred, what, b.ID, upto),
		map[string]any{"model": r.sc.Model, "configured": r.sc.Configured, "ageCap": r.sc.AgeCap,
			"behaviours": []behaviour{{ID: b.ID, Steps: b.Steps[:upto+1]}}, "forge": r.sc.Forge, "name": r.sc.Name})
}

func (r *runner) replay(b *behaviour, base string) {
	sc := r.sc
	e := &env{tm: &sc.Model, keys: r.keys, byPub: map[string]string{}, configured: sc.Configured, root: r.root, base: base}
	for n, k := range r.keys {
		e.byPub[k.pub] = n
	}
	e.dir = filepath.Join(base, "gen0")
	keep := filepath.Join(base, "keep")
	if err := os.MkdirAll(e.dir, 0o750); err != nil {
		r.res.Skip("mkdir: %v", err)
		return
	}
	if err := os.MkdirAll(keep, 0o750); err != nil {
		r.res.Skip("mkdir: %v", err)
		return
	}
	defer os.RemoveAll(base)
	e.boot()
	o := newOracle(sc.Model.Keys)
	conf := toSet(sc.Configured)
	drifted := false
	down := false
	r.emit(&traceEvent{Ev: "reset", B: b.ID, Crash: -1, State: stateObs{Kind: "missing", M: map[string]entryObs{}}, Tomb: tombObs{Kind: "missing", S: []string{}}, Trusted: e.trusted()})
	labels := []string{}

	r.violated = false
	for si := range b.Steps {
		if r.violated {
			break
		}
		st := &b.Steps[si]
		if st.Op == "restart" {
			// NewResolver on what the previous process left behind.  rf = tombUnreadable:
			// open() of the tombstone file fails while the process starts, and works again
			// when its start-up run begins.
			rf := st.RF
			if rf == "" {
				rf = "none"
			}
			o.statePre, o.tombPre = e.observeState(), e.observeTomb()
			var unr *unreadable
			if rf == "tombUnreadable" {
				if fi, err := os.Lstat(e.tombPath()); err == nil && fi.Mode().IsRegular() {
					unr = makeUnreadable(e.tombPath(), keep)
				} else {
					r.drift("behaviour %s step %d: tombstone file absent, cannot be made unreadable", b.ID, si)
					drifted = true
				}
			}
			e.boot()
			unr.restore()
			down = false
			labels = append(labels, "restart(rf="+rf+")")
			booted := e.trusted()
			r.emit(&traceEvent{Ev: "restart", RF: rf, Crash: -1, Trusted: booted, State: e.observeState(), Tomb: e.observeTomb()})
			r.count("restarts", 1)
			r.res.Case(strings.Join(labels, ";"))
			// RevokedNeverAgain, "not after restarts ... configuration that still lists it": what
			// NewResolver publishes is the live trust set until the first AutoTA run publishes
			// (after middleware.Ready and checkPriming's round trips), and validation uses it.
			if len(o.revAcc) > 0 {
				r.count("restarts_with_recorded_revocation", 1)
			}
			for _, k := range booted {
				if o.revAcc[k] {
					// the defect judged here is "the disk records the revocation and NewResolver does
					// not look"; a revocation the code never recorded (tag carry, masked by a
					// collision: Hyp_H2/H3) keeps its own classification
					cause := "restart-window"
					if !has(o.tombPre.S, k) && o.statePre.M[k].St != "Revoked" {
						cause = "revocation-ignored/at-restart"
					}
					r.violate(b, si, "RevokedNeverAgain", cause, fmt.Sprintf(
						"%s is in the live trust set of the restarted process (rootKeys=%v) although its self-signed revocation was "+
							"accepted and recorded (tombstones on disk %v, state file %s); it stays there until the first AutoTA run publishes",
						k, booted, o.tombPre.S, mustJSON(o.statePre)))
				}
			}
			// drift: the start-up set the specification predicts (BootCandidate; nothing if the
			// store cannot be read)
			if st.Exp != nil && !drifted && !sameList(booted, st.Exp.Trusted) {
				drifted = true
				r.drift("behaviour %s step %d (restart rf=%s): rootKeys %v, model %v", b.ID, si, rf, booted, st.Exp.Trusted)
			}
			continue
		}
		if down {
			r.res.Skip("behaviour %s: run scheduled while the process is down", b.ID)
			return
		}
		// ---- time and read faults ------------------------------------
		e.passDays(st.D)
		o.age(st.D)
		o.statePre, o.tombPre = e.observeState(), e.observeTomb()
		var unr *unreadable
		switch st.RF {
		case "tombCorrupt":
			corruptFile(e.tombPath())
		case "stateCorrupt":
			corruptFile(e.statePath())
		case "tombUnreadable":
			if fi, err := os.Lstat(e.tombPath()); err == nil && fi.Mode().IsRegular() {
				unr = makeUnreadable(e.tombPath(), keep)
			} else {
				r.drift("behaviour %s step %d: tombstone file absent, cannot be made unreadable", b.ID, si)
				drifted = true
			}
		}
		stateBefore := e.observeState()
		tombBefore := e.observeTomb()
		trustedBefore := e.trusted()

		// ---- the run ---------------------------------------------------
		var (
			atFetch []string
			fetched bool
			snap    snapshot
			blocks  []*blocked
			w       *watcher
		)
		w, err := newWatcher(e.dir)
		if err != nil {
			r.res.Skip("inotify: %v", err)
			return
		}
		hook := func() {
			fetched = true
			atFetch = e.trusted()
			if unr != nil { // at rest the file is what was kept aside
				snap = snapshot{}
				if b, err := os.ReadFile(unr.keep); err == nil {
					snap[resolver.VerifC09TombstoneFile] = b
				}
				if b, err := os.ReadFile(e.statePath()); err == nil {
					snap[resolver.VerifC09StateFile] = b
				}
			} else {
				snap = takeSnapshot(e.dir)
			}
			if st.TombFail {
				blocks = append(blocks, blockWrite(e.tombPath(), keep))
			}
			if st.StateFail {
				blocks = append(blocks, blockWrite(e.statePath(), keep))
			}
			w.drain()
		}
		delivered := false
		switch st.Fetch {
		case "answer":
			r.root.set("answer", e.answer(st.Z, r.forge), hook)
			delivered = true
		case "servfail", "drop", "empty":
			r.root.set(st.Fetch, nil, hook)
		default:
			r.root.set("empty", nil, hook)
		}
		e.res.VerifC09AutoTA()
		tl := analyseTail(w.drain())
		w.close()
		for _, bl := range blocks {
			bl.release()
		}
		unr.restore()
		delivered = delivered && fetched

		trustedAfter := e.trusted()
		stateAfter := e.observeState()
		tombAfter := e.observeTomb()
		lab := fmt.Sprintf("run(d=%d,rf=%s,%s,tf=%v,sf=%v,crash=%d)", st.D, st.RF, st.Fetch, st.TombFail, st.StateFail, st.Crash)
		labels = append(labels, lab)
		r.count("runs", 1)

		// ---- crash: rebuild the directory the process would have left ----
		landedTomb, landedState := tl.TombLanded, tl.StateLanded
		if st.Crash >= 0 {
			if fetched && len(tl.NotAtomic) > 0 {
				r.drift("behaviour %s step %d: %v not replaced atomically; crash state not constructible", b.ID, si, tl.NotAtomic)
				return
			}
			after := takeSnapshot(e.dir)
			post := snapshot{}
			for n, c := range snap {
				post[n] = c
			}
			if !fetched {
				post = takeSnapshot(e.dir)
			}
			applied := r.prefixReplacements(tl, st, fetched)
			landedTomb, landedState = false, false
			for _, n := range applied {
				post[n] = after[n]
				if n == resolver.VerifC09TombstoneFile {
					landedTomb = true
				} else {
					landedState = true
				}
			}
			e.gen++
			e.dir = filepath.Join(base, fmt.Sprintf("gen%d", e.gen))
			post.materialise(e.dir)
			e.res = nil
			down = true
			r.count("crashes", 1)
			// what a process starting now would find
			trustedAfter = []string{}
			stateAfter = e.observeState()
			tombAfter = e.observeTomb()
		}

		// ---- oracle ---------------------------------------------------------
		evaluable := true
		T := toSet(atFetch)
		if delivered && len(atFetch) == 0 {
			if st.Exp != nil && !drifted {
				T = toSet(st.Exp.Cand)
			} else {
				evaluable = false
			}
		}
		full, revSet := false, set{}
		plain := set{}
		if delivered && st.Z != nil {
			for _, k := range st.Z.Keys {
				if !has(st.Z.Revoked, k) {
					plain[k] = true
				}
			}
			if len(st.Z.Keys) > 0 {
				for _, k := range st.Z.SignedN {
					if T[k] {
						full = true
					}
				}
				for _, k := range st.Z.Revoked {
					if T[k] && has(st.Z.SignedR, k) {
						revSet[k] = true
					}
				}
			}
		}
		revAccBefore, revVolBefore := set{}, set{}
		for k := range o.revAcc {
			revAccBefore[k] = true
		}
		for k := range o.revVol {
			revVolBefore[k] = true
		}
		// timer STARTS are booked whenever the code may have accepted the refresh (if what it
		// trusted at the fetch is unknown, any signature may have counted); RESETS below only
		// when it certainly did and recorded the outcome
		mayFull := full
		if delivered && !evaluable && st.Z != nil && len(st.Z.Keys) > 0 && len(st.Z.SignedN) > 0 {
			mayFull = true
		}
		if delivered && mayFull {
			for _, k := range sc.Model.Keys {
				if plain[k] && o.seen[k] < 0 {
					o.seen[k] = 0
				}
				if plain[k] && !conf[k] && o.seen[k] >= 30 {
					o.earned[k] = true
				}
				if (T[k] || !evaluable) && !plain[k] && o.miss[k] < 0 {
					o.miss[k] = 0
				}
			}
		}
		missAtPublish := map[string]int{}
		for k, v := range o.miss {
			missAtPublish[k] = v
		}
		if delivered && evaluable {
			if landedTomb || landedState {
				for k := range revSet {
					o.revAcc[k] = true
				}
			} else if tl.Attempted && st.Crash < 0 {
				for k := range revSet {
					o.revVol[k] = true
				}
			}
			if landedState && full {
				for _, k := range sc.Model.Keys {
					if plain[k] {
						o.miss[k] = -1
					} else {
						o.seen[k] = -1
					}
				}
			}
		}

		ev := &traceEvent{Ev: "run", D: st.D, RF: st.RF, Fetch: delivered, TombFail: st.TombFail, StateFail: st.StateFail,
			Crash: st.Crash, AtFetch: atFetch, Fetched: fetched, Trusted: trustedAfter, State: stateAfter, Tomb: tombAfter, Tail: tl}
		if delivered {
			ev.Z = st.Z
			ev.Win = r.winners(st.Z)
		}
		if ev.AtFetch == nil {
			ev.AtFetch = []string{}
		}
		r.emit(ev)
		if st.Crash >= 0 {
			continue // nothing to observe on a dead process
		}

		// ---- predicates (the process is alive and quiescent) ---------------
		r.res.Case(strings.Join(labels, ";"))
		tr := toSet(trustedAfter)
		if fetched && !tl.TombFirst {
			r.drift("behaviour %s step %d: state file replaced before the tombstones", b.ID, si)
		}
		if fetched && len(tl.NotAtomic) > 0 {
			r.drift("behaviour %s step %d: %v written in place", b.ID, si, tl.NotAtomic)
		}
		// TrustOnlyByRFC
		for k := range tr {
			if !conf[k] && !o.earned[k] {
				cause := ""
				base := strings.TrimSuffix(k, "/revoked")
				for _, j := range sc.Model.Keys {
					if j != base && sc.Model.Tag[j] == sc.Model.Tag[base] {
						cause = "tag-collision"
					}
				}
				r.violate(b, si, "TrustOnlyByRFC", cause, fmt.Sprintf(
					"%s is trusted (rootKeys=%v) without 30 days of presence in every accepted refresh (continuous presence: %d days)",
					k, trustedAfter, o.seen[base]))
			}
		}
		// RevokedNeverAgain (recorded revocations), at the fetch and at rest
		for k := range T {
			if len(atFetch) > 0 && revAccBefore[k] {
				r.violate(b, si, "RevokedNeverAgain", o.cause(sc, k, st, nil), fmt.Sprintf(
					"%s was trusted when the refresh went out although its self-signed revocation had been accepted and recorded", k))
			}
		}
		for k := range tr {
			if o.revAcc[k] {
				r.violate(b, si, "RevokedNeverAgain", o.cause(sc, k, st, revSet), fmt.Sprintf(
					"%s is trusted (rootKeys=%v) after its self-signed revocation was accepted and recorded", k, trustedAfter))
			} else if revVolBefore[k] {
				r.violate(b, si, "RevokedNeverAgainStrict", "after-failclosed", fmt.Sprintf(
					"%s is trusted again (rootKeys=%v): its self-signed revocation was accepted, neither record could be written, "+
						"the resolver failed closed, and a later refresh forgot the revocation", k, trustedAfter))
			}
		}
		if delivered && evaluable {
			r.count("refreshes_delivered", 1)
			if full {
				r.count("refreshes_full_auth", 1)
			}
			// UnauthenticatedChangesNothing
			if !full && len(revSet) == 0 {
				r.count("refreshes_unauthenticated", 1)
				same := sameList(trustedAfter, atFetch) && len(tl.Replaced) == 0 &&
					mustJSON(stateAfter) == mustJSON(stateBefore) && mustJSON(tombAfter) == mustJSON(tombBefore)
				if !same {
					r.violate(b, si, "UnauthenticatedChangesNothing", "", fmt.Sprintf(
						"a DNSKEY response no trusted key authenticates changed something: rootKeys %v -> %v, files replaced %v, state %s -> %s, tombstones %s -> %s",
						atFetch, trustedAfter, tl.Replaced, mustJSON(stateBefore), mustJSON(stateAfter), mustJSON(tombBefore), mustJSON(tombAfter)))
				}
			}
			// RevokedOnlyRevokes
			if !full && len(revSet) > 0 {
				r.count("refreshes_revocation_only", 1)
				bad := ""
				if len(trustedAfter) > 0 {
					for k := range tr {
						if !T[k] {
							bad = k + " became trusted"
						}
					}
					for k := range T {
						if !tr[k] && !revSet[k] {
							bad = k + " lost trust without being revoked"
						}
					}
				}
				if stateAfter.Kind == "ok" && tl.StateLanded {
					for n, en := range stateAfter.M {
						old, was := stateBefore.M[n]
						switch {
						case en.St == "AddPend" && !(was && old.St == "AddPend"):
							bad = n + " entered AddPend"
						case en.St == "Missing" && !(was && old.St == "Missing"):
							bad = n + " was marked Missing"
						case en.St == "Valid" && was && old.St == "AddPend":
							bad = n + " was promoted from AddPend"
						}
					}
				}
				if bad != "" {
					r.violate(b, si, "RevokedOnlyRevokes", "", fmt.Sprintf(
						"a response authenticated only by revoked key(s) %v did more than complete the revocation: %s (rootKeys %v -> %v, state %s -> %s)",
						revSet.list(), bad, atFetch, trustedAfter, mustJSON(stateBefore), mustJSON(stateAfter)))
				}
			}
			// FailClosed (a): a new revocation neither write recorded
			if len(revSet) > 0 && tl.Attempted && !tl.TombLanded && !tl.StateLanded {
				r.count("failclosed_double_write_failure", 1)
				if len(trustedAfter) != 0 {
					r.violate(b, si, "FailClosed", "double-write-failure"+o.causeSuffix(sc, st, revSet), fmt.Sprintf(
						"revocation of %v accepted, neither the tombstones nor the state file could be written, but rootKeys=%v instead of failing closed",
						revSet.list(), trustedAfter))
				}
			}
			// MissingKeepsTrust / ReappearRestores
			if full {
				for k := range T {
					if revSet[k] || strings.Contains(k, "/") || strings.HasPrefix(k, "?") {
						continue
					}
					// whole days; the real clock is a positive instant further, so day 90 is past the hold-down
					owed := plain[k] || missAtPublish[k] < 0 || missAtPublish[k] < 90
					if !owed {
						if !tr[k] {
							r.count("removed_after_holddown", 1)
						}
						continue
					}
					if !plain[k] {
						r.count("missing_kept", 1)
					}
					closed := tl.Attempted && !tl.TombLanded && !tl.StateLanded && len(trustedAfter) == 0
					if !tr[k] && !closed {
						r.violate(b, si, "MissingKeepsTrust", "", fmt.Sprintf(
							"%s was trusted at the fetch, is %s, and lost trust (rootKeys %v -> %v)", k,
							map[bool]string{true: "present in the accepted refresh", false: fmt.Sprintf("absent for only %d days", missAtPublish[k])}[plain[k]],
							atFetch, trustedAfter))
					}
					if plain[k] && tl.StateLanded && stateAfter.Kind == "ok" {
						if was, ok := stateBefore.M[k]; ok && was.St == "Missing" {
							r.count("reappeared", 1)
						}
						if en, ok := stateAfter.M[k]; ok && en.St != "Valid" {
							r.violate(b, si, "ReappearRestores", "", fmt.Sprintf(
								"%s is trusted and present in the accepted refresh but recorded as %s", k, en.St))
						}
					}
				}
			}
		} else if delivered {
			r.count("runs_unevaluable", 1)
		}
		// FailClosed (b): undecodable tombstone store
		if tombBefore.Kind == "corrupt" {
			r.count("failclosed_corrupt_tombstones", 1)
			if len(trustedAfter) != 0 {
				r.violate(b, si, "FailClosed", "corrupt-tombstones", fmt.Sprintf(
					"the tombstone store was undecodable but rootKeys=%v (before: %v)", trustedAfter, trustedBefore))
			}
		}
		// FailClosed (c): the tombstone store exists but could not be opened.  What it holds is
		// unknowable to the run, so the outcome may not depend on it: no trust, and the store
		// the run could not read is not replaced.
		if unr != nil {
			r.count("failclosed_unreadable_tombstones", 1)
			if len(trustedAfter) != 0 {
				r.violate(b, si, "FailClosed", "unreadable-tombstones", fmt.Sprintf(
					"the tombstone store could not be opened (ELOOP) but rootKeys=%v instead of failing closed (before: %v; store held %v, "+
						"after the run it holds %v, files replaced %v)", trustedAfter, trustedBefore, o.tombPre.S, tombAfter.S, tl.Replaced))
			} else if tl.TombLanded {
				// not a clause of the statement by itself (a later republication would be)
				r.drift("behaviour %s step %d: the unreadable tombstone store was replaced: it held %v, now %v", b.ID, si, o.tombPre.S, tombAfter.S)
			}
		}
		for k := range o.earned {
			if tr[k] {
				r.count("earned_trusted", 1)
			}
		}
		if len(o.revAcc) > 0 {
			r.count("quiescent_with_recorded_revocation", 1)
		}

		// ---- drift against the model's prediction -----------------------------
		if st.Exp != nil && !drifted {
			if d := r.diff(st.Exp, atFetch, fetched, trustedAfter, stateAfter, tombAfter); d != "" {
				drifted = true
				r.drift("behaviour %s step %d (%s): %s", b.ID, si, lab, d)
			}
		}
	}
	r.res.Sample(map[string]any{"behaviour": b.ID, "steps": labels})
}

// prefixReplacements: the final names replaced before the process died.
func (r *runner) prefixReplacements(tl tail, st *step, fetched bool) []string {
	if !fetched || st.Crash >= 2 {
		return tl.Replaced
	}
	if st.Crash == 0 {
		return nil
	}
	// crash between the first and the second write attempt: whatever the
	// first attempt replaced
	first := resolver.VerifC09TombstoneFile
	if !tl.TombFirst {
		first = resolver.VerifC09StateFile
	}
	for _, n := range tl.Replaced {
		if n == first {
			return []string{n}
		}
	}
	return nil
}

func (o *oracle) cause(sc *script, k string, st *step, revSet set) string {
	base := strings.TrimSuffix(k, "/revoked")
	if revSet != nil && revSet[base] {
		return o.causeIgnored(sc, st, set{base: true})
	}
	switch {
	case st.RF == "tombUnreadable" && has(o.tombPre.S, base):
		// the tombstone was on disk; open() failed and the run went on with none
		return "tombstones-unreadable"
	case st.RF == "stateCorrupt" && o.statePre.M[base].St == "Revoked" && !has(o.tombPre.S, base):
		// the StateRevoked marker was the only record (the tombstone write had failed) and is gone
		return "sole-record-corrupted"
	}
	return ""
}

func (o *oracle) causeSuffix(sc *script, st *step, revSet set) string {
	if c := o.causeIgnored(sc, st, revSet); c != "revocation-ignored" {
		return "/" + c
	}
	return ""
}

// causeIgnored classifies a revocation the code did not act upon.
func (o *oracle) causeIgnored(sc *script, st *step, revSet set) string {
	for k := range revSet {
		if sc.Model.RevTag[k]-sc.Model.Delta != sc.Model.Tag[k] {
			return "revocation-ignored/revoked-tag-carry"
		}
		if st.Z != nil {
			for _, j := range st.Z.Keys {
				if j == k {
					continue
				}
				jt := sc.Model.Tag[j]
				if has(st.Z.Revoked, j) {
					jt = sc.Model.RevTag[j]
				}
				if jt == sc.Model.RevTag[k] {
					return "revocation-ignored/tag-collision-in-rrset"
				}
			}
		}
	}
	return "revocation-ignored"
}

// winners: for every tag two published DNSKEYs share, the one later in the answer.
func (r *runner) winners(z *zonePub) map[string]string {
	out := map[string]string{}
	order := z.Order
	if len(order) == 0 {
		order = append([]string(nil), z.Keys...)
		sort.Strings(order)
	}
	for _, k := range order {
		t := r.sc.Model.Tag[k]
		if has(z.Revoked, k) {
			t = r.sc.Model.RevTag[k]
		}
		out[fmt.Sprint(t)] = k
	}
	return out
}

func (r *runner) diff(x *expect, atFetch []string, fetched bool, trusted []string, s stateObs, tb tombObs) string {
	if fetched != (x.AtFetch != nil) {
		return fmt.Sprintf("fetch happened=%v, model=%v", fetched, x.AtFetch != nil)
	}
	if fetched && !sameList(atFetch, x.AtFetch) {
		return fmt.Sprintf("rootKeys at fetch %v, model %v", atFetch, x.AtFetch)
	}
	if !sameList(trusted, x.Trusted) {
		return fmt.Sprintf("rootKeys %v, model %v", trusted, x.Trusted)
	}
	if s.Kind != x.StateK {
		return fmt.Sprintf("state file %s, model %s", s.Kind, x.StateK)
	}
	if s.Kind == "ok" {
		if len(s.M) != len(x.State) || len(s.Dup) > 0 {
			return fmt.Sprintf("state file %s, model %s", mustJSON(s), mustJSON(x.State))
		}
		for n, en := range s.M {
			m, ok := x.State[n]
			if !ok || m.St != en.St {
				return fmt.Sprintf("state entry %s %s, model %s", n, mustJSON(en), mustJSON(x.State))
			}
			if en.St == "AddPend" || en.St == "Missing" {
				a := en.Age
				if a > r.sc.AgeCap {
					a = r.sc.AgeCap
				}
				if a != m.Age {
					return fmt.Sprintf("state entry %s age %d, model %d", n, a, m.Age)
				}
			}
			if en.Tag != int(r.keys[strings.TrimSuffix(n, "/revoked")].Tag) {
				return fmt.Sprintf("state entry %s filed under tag %d", n, en.Tag)
			}
		}
	}
	tk := tb.Kind
	if tk == "unreadable" {
		tk = "ok"
	}
	if tk != x.TombK {
		return fmt.Sprintf("tombstone file %s, model %s", tb.Kind, x.TombK)
	}
	if tk == "ok" && !sameList(tb.S, x.Tomb) {
		return fmt.Sprintf("tombstones %v, model %v", tb.S, x.Tomb)
	}
	return ""
}
