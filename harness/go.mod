module github.com/semihalev/sdns/verifharness

// Stub marking the module root. The real go.mod (the repository's requirements +
// replace github.com/semihalev/sdns => $VERIF_REPO) is generated per run and passed
// with -modfile, see lib/vf.py write_harness_mod.

go 1.26.0
