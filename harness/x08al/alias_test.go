// Package x08al binds tla/AliasLease to the real default chain: delegation
// leases across alias chases served from cache (derived entries).
//
//	root   delegates stable. (NS TTL = sLease) and ghost. (NS TTL = lease)
//	stable alias.stable. CNAME t.ghost.      d.stable. DNAME ghost.      h<v>.stable. A
//	ghost  version v of the zone lives on its own socket; every datum it serves
//	       carries v: t.ghost. A 10.0.v.1 (kind a), t.ghost. TXT (kind nodata:
//	       the SOA serial in the denial is v) or nothing (kind nx: SOA serial v);
//	       the root's own denial after a removal carries SOA serial 100.  Every
//	       version also holds back.ghost. CNAME h<v>.stable. (an alias IN the
//	       leased zone whose chase ends in the stable one).
//
// A scenario is a TLC-generated history of client questions (target or alias,
// decoded or wire-born), clock advances and parent actions (re-point ghost. to
// version v+1 hosted elsewhere with other data / remove the delegation; the old
// servers stay alive).  It runs on the real edns+cache+resolver chain against
// authkit authorities under a VIRTUAL clock: between two questions the answer
// cache's and the delegation cache's timestamps are moved into the past
// (overlay shifters), nothing else in the chain keeps absolute deadlines that
// matter here.
//
// Oracle (independent of the model; built from the authorities' logs only):
//
//	every ghost datum in a reply (A / SOA, version v) needs a justification:
//	a fetch of t.ghost. from the version-v servers, not later than the reply,
//	whose lifetime  min(fetch + max(ttl, 5 s floor), referral + lease)  has not
//	ended when the client question started -- where "referral" is the latest
//	referral for version v the root handed out at or before that fetch.
//	  ghost     v is no longer what the parent says and no justification's
//	            LEASE is still running                            (C08, C04)
//	  overlife  no justification is still running at all          (C04)
//	  ttl       the TTL shown exceeds what the best justification
//	            has left                                          (C04)
//
// Times are compared with measured slack only: a fetch / referral is taken to
// have happened at the END of the client question during which the authority
// served it (the resolver cannot have observed it later).
package x08al

import (
	"encoding/json"
	"fmt"
	"math"
	"net"
	"os"
	"sort"
	"strings"
	"sync"
	"testing"
	"time"

	"github.com/miekg/dns"
	"github.com/semihalev/sdns/config"
	"github.com/semihalev/sdns/middleware"
	"github.com/semihalev/sdns/middleware/cache"
	"github.com/semihalev/sdns/middleware/resolver"
	"github.com/semihalev/sdns/server"
	"github.com/semihalev/sdns/verifharness/authkit"
	"github.com/semihalev/sdns/verifharness/pipe"
	"github.com/semihalev/sdns/verifharness/vh"
)

const (
	rootSerial = 100
	floorSec   = 5
	cnameTTL   = 600
	soaTTL     = 600
)

type Ent struct {
	Live bool `json:"live"`
	Rem  int  `json:"rem"` // whole seconds until the hard expiry (model)
}

type Proj struct {
	T  Ent `json:"t"`  // t.ghost. A, CD=0 partition
	T2 Ent `json:"t2"` // t.ghost. A, CD=1 partition (the resolver's DNAME leg when DNSSEC is off)
	A  Ent `json:"a"`  // the alias question
	B  Ent `json:"b"`  // back.ghost. A
}

type Exp struct {
	Kind string `json:"kind"` // a | nodata | nx
	Vers []int  `json:"vers"` // ghost versions the reply's data carry (0 = the parent's own denial), ascending
}

type Step struct {
	Op    string `json:"op"`   // ask | tick | repoint | remove
	Name  string `json:"name"` // ask: t | a | b
	Wire  bool   `json:"wire"`
	D     int    `json:"d"`     // tick: seconds
	Exp   *Exp   `json:"exp"`   // ask: model prediction
	Cache *Proj  `json:"cache"` // model's cache after the step
}

type Scenario struct {
	ID     string `json:"id"`
	Alias  string `json:"alias"` // cname | dname
	Kind1  string `json:"kind1"` // target in ghost version 1
	Kind2  string `json:"kind2"` // target in ghost version 2 (after a re-point)
	Lease  int    `json:"lease"`
	SLease int    `json:"sLease"`
	OwnTTL int    `json:"ownTTL"` // TTL of the target's records
	NegTTL int    `json:"negTTL"` // SOA minimum of the ghost zones
	Steps  []Step `json:"steps"`
}

type Input struct {
	Scenarios []Scenario `json:"scenarios"`
	Workers   int        `json:"workers"`
}

// ---------------------------------------------------------------------------------------------

type indicator struct {
	What string `json:"what"` // A | SOA | CNAME
	Ver  int    `json:"ver"`
	TTL  uint32 `json:"ttl"`
}

type askRec struct {
	Step       int         `json:"step"`
	Name       string      `json:"name"`
	Wire       bool        `json:"wire"`
	Start, End float64     // virtual seconds
	Rcode      string      `json:"rcode"`
	Kind       string      `json:"kind"` // a | nodata | nx | fail
	Vers       []int       `json:"vers"`
	Inds       []indicator `json:"inds"`
	Upstream   int         `json:"upstream"` // questions the ghost / root servers saw during this ask
	Seen       []string    `json:"seen,omitempty"`
	Class      []string    `json:"class"`
}

type refEvent struct {
	At  time.Time
	Ver int
}

type world struct {
	sc      *Scenario
	n       *authkit.Net
	srv     *server.Server
	ch      *cache.Cache
	rh      *resolver.DNSHandler
	mu      sync.Mutex
	refs    []refEvent
	glueVer map[string]int
	gsrv    map[int]*authkit.Server
	cur     int // ghost version the parent currently delegates to (0 = removed)
	maxVer  int
	t0      time.Time
	shifts  []shiftEv // cumulative virtual offset over real time
	off     time.Duration
	changes []changeEv
	qname   string
}

type shiftEv struct {
	at  time.Time
	off time.Duration
}

type changeEv struct {
	at  float64 // virtual time the change was complete
	ver int
}

var buildMu sync.Mutex

func (w *world) kindOf(v int) string {
	if v == 1 {
		return w.sc.Kind1
	}
	return w.sc.Kind2
}

func (w *world) newGhost(v int) error {
	z, srv, err := w.n.NewDetachedZone(fmt.Sprintf("ghost%d", v), "ghost.", false)
	if err != nil {
		return err
	}
	z.Remove("ghost.", dns.TypeSOA)
	z.AddRR(&dns.SOA{Hdr: dns.RR_Header{Name: "ghost.", Rrtype: dns.TypeSOA, Class: dns.ClassINET, Ttl: uint32(w.sc.NegTTL)}, Ns: "ns.ghost.", Mbox: "hostmaster.ghost.",
		Serial: uint32(v), Refresh: 3600, Retry: 600, Expire: 86400, Minttl: uint32(w.sc.NegTTL)})
	switch w.kindOf(v) {
	case "a":
		z.AddRR(authkit.ARR("t.ghost.", net.IPv4(10, 0, byte(v), 1), uint32(w.sc.OwnTTL)))
	case "nodata":
		z.Add(fmt.Sprintf("t.ghost. %d IN TXT \"v%d\"", w.sc.OwnTTL, v))
	case "nx":
	default:
		return fmt.Errorf("unknown target kind %q", w.kindOf(v))
	}
	z.Add(fmt.Sprintf("back.ghost. %d IN CNAME h%d.stable.", w.sc.OwnTTL, v))
	cut := w.n.CutFor(z, srv, uint32(w.sc.Lease), uint32(w.sc.Lease), false)
	w.mu.Lock()
	w.glueVer[cut.Glue[0].(*dns.A).A.String()] = v
	w.gsrv[v] = srv
	w.mu.Unlock()
	w.n.Root.Delegate(cut)
	w.cur = v
	if v > w.maxVer {
		w.maxVer = v
	}
	return nil
}

func build(t *testing.T, sc *Scenario) (*world, error) {
	n, err := authkit.NewNet(false)
	if err != nil {
		return nil, err
	}
	w := &world{sc: sc, n: n, glueVer: map[string]int{}, gsrv: map[int]*authkit.Server{}}
	n.Root.Remove(".", dns.TypeSOA)
	n.Root.AddRR(&dns.SOA{Hdr: dns.RR_Header{Name: ".", Rrtype: dns.TypeSOA, Class: dns.ClassINET, Ttl: soaTTL}, Ns: "ns.root-servers.test.", Mbox: "hostmaster.",
		Serial: rootSerial, Refresh: 3600, Retry: 600, Expire: 86400, Minttl: 60})
	n.RootSrv.SetHook(func(ex *authkit.Exchange) {
		if ex.Truth.Kind != "referral" || ex.Resp == nil || ex.Truth.Cut != "ghost." {
			return
		}
		for _, rr := range ex.Resp.Extra {
			if a, ok := rr.(*dns.A); ok {
				w.mu.Lock()
				if v, ok := w.glueVer[a.A.String()]; ok {
					w.refs = append(w.refs, refEvent{At: time.Now(), Ver: v})
				}
				w.mu.Unlock()
			}
		}
	})
	sz, _, err := n.Delegate("stable.", authkit.DelegateOpts{NSTTL: uint32(sc.SLease)})
	if err != nil {
		return nil, err
	}
	sz.Add(fmt.Sprintf("alias.stable. %d IN CNAME t.ghost.", cnameTTL), fmt.Sprintf("d.stable. %d IN DNAME ghost.", cnameTTL))
	for v := 1; v <= 4; v++ {
		sz.AddRR(authkit.ARR(fmt.Sprintf("h%d.stable.", v), net.IPv4(10, 9, byte(v), 1), cnameTTL))
	}
	w.qname = "alias.stable."
	if sc.Alias == "dname" {
		w.qname = "t.d.stable."
	}
	if err := w.newGhost(1); err != nil {
		return nil, err
	}
	dir, _ := os.MkdirTemp(vh.Scratch(t), "x08al-")
	buildMu.Lock()
	w.srv, _ = pipe.NewResolverServer(pipe.ResolverOpts{RootAddr: n.RootSrv.Addr, DNSSEC: false, Dir: dir, Mapper: n.Mapper(),
		Mutate: func(cfg *config.Config) {
			cfg.RecursionFirewall.Mode = config.RecursionFirewallModeOff
			cfg.QnameMinLevel = 0
			cfg.Timeout.Duration = 1500 * time.Millisecond
			cfg.QueryTimeout.Duration = 6 * time.Second
			cfg.Prefetch = 0
		}})
	w.ch, _ = middleware.Get("cache").(*cache.Cache)
	w.rh, _ = middleware.Get("resolver").(*resolver.DNSHandler)
	buildMu.Unlock()
	if w.ch == nil || w.rh == nil {
		return nil, fmt.Errorf("cache / resolver handlers not found in the registry")
	}
	return w, nil
}

func (w *world) virt(t time.Time) float64 {
	off := time.Duration(0)
	for _, s := range w.shifts {
		if !s.at.After(t) {
			off = s.off
		}
	}
	return float64(t.Add(off).Sub(w.t0).Microseconds()) / 1e6
}

func (w *world) vnow() float64 { return w.virt(time.Now()) }

func (w *world) tick(d int) {
	dd := time.Duration(d) * time.Second
	w.ch.VerifX08alShift(dd)
	w.rh.VerifX08alShift(dd)
	w.off += dd
	w.shifts = append(w.shifts, shiftEv{at: time.Now(), off: w.off})
}

func (w *world) upstreamCount() int {
	c := w.n.RootSrv.Queries()
	w.mu.Lock()
	defer w.mu.Unlock()
	for _, s := range w.gsrv {
		c += s.Queries()
	}
	return c
}

func (w *world) ask(i int, st *Step) askRec {
	name := w.nameOf(st.Name)
	q := new(dns.Msg)
	q.SetQuestion(name, dns.TypeA)
	q.SetEdns0(1232, false)
	rec := askRec{Step: i, Name: st.Name, Wire: st.Wire}
	up0 := w.upstreamCount()
	rec.Start = w.vnow()
	chn := make(chan *dns.Msg, 1)
	go func() {
		if st.Wire {
			chn <- pipe.AskRaw(w.srv, q, "udp", "203.0.113.7")
		} else {
			chn <- pipe.Ask(w.srv, q, "udp", "203.0.113.7")
		}
	}()
	var m *dns.Msg
	select {
	case m = <-chn:
	case <-time.After(12 * time.Second):
	}
	rec.End = w.vnow()
	rec.Upstream = w.upstreamCount() - up0
	if os.Getenv("X08AL_TRACE") != "" {
		for _, s := range w.n.AllServers() {
			for _, e := range s.Log() {
				if vt := w.virt(e.At); vt >= rec.Start && vt <= rec.End {
					rec.Seen = append(rec.Seen, fmt.Sprintf("%s<-%s/%s:%s", s.Label, e.Q.Name, dns.TypeToString[e.Q.Qtype], e.Kind))
				}
			}
		}
	}
	if m == nil {
		rec.Rcode, rec.Kind = "NONE", "fail"
		return rec
	}
	rec.Rcode = dns.RcodeToString[m.Rcode]
	hasA := false
	for _, rr := range m.Answer {
		switch x := rr.(type) {
		case *dns.A:
			hasA = true
			if ip := x.A.To4(); ip != nil && ip[0] == 10 && strings.EqualFold(x.Hdr.Name, "t.ghost.") {
				rec.Inds = append(rec.Inds, indicator{What: "A", Ver: int(ip[2]), TTL: x.Hdr.Ttl})
			}
		case *dns.CNAME:
			var v int
			if strings.EqualFold(x.Hdr.Name, "back.ghost.") {
				if _, err := fmt.Sscanf(strings.ToLower(x.Target), "h%d.stable.", &v); err == nil {
					rec.Inds = append(rec.Inds, indicator{What: "CNAME", Ver: v, TTL: x.Hdr.Ttl})
				}
			}
		}
	}
	for _, rr := range m.Ns {
		if soa, ok := rr.(*dns.SOA); ok {
			v := -1
			switch {
			case strings.EqualFold(soa.Hdr.Name, "ghost."):
				v = int(soa.Serial)
			case soa.Hdr.Name == "." && soa.Serial == rootSerial:
				v = 0
			}
			if v >= 0 {
				rec.Inds = append(rec.Inds, indicator{What: "SOA", Ver: v, TTL: soa.Hdr.Ttl})
			}
		}
	}
	vs := map[int]bool{}
	for _, ind := range rec.Inds {
		if !vs[ind.Ver] {
			vs[ind.Ver] = true
			rec.Vers = append(rec.Vers, ind.Ver)
		}
	}
	sort.Ints(rec.Vers)
	switch {
	case m.Rcode == dns.RcodeNameError:
		rec.Kind = "nx"
	case m.Rcode != dns.RcodeSuccess:
		rec.Kind = "fail"
	case hasA:
		rec.Kind = "a"
	default:
		rec.Kind = "nodata"
	}
	return rec
}

// ---- oracle -------------------------------------------------------------------------------------

type fetch struct {
	at  float64 // virtual time the authority served it
	ver int     // ghost version (0 = the root's denial)
}

type justification struct {
	life  float64 // end of the record's own lifetime (fetch + max(ttl, floor))
	lease float64 // end of the delegation lease the fetch was made under (+Inf for the root's denial)
}

func (w *world) judge(asks []askRec) (viol []map[string]any) {
	// the resolver saw what an authority served no later than the end of the client question it was served in
	upper := func(at float64) float64 {
		for _, a := range asks {
			if at >= a.Start && at <= a.End {
				return a.End
			}
		}
		return at + 0.4
	}
	fetchesOf := map[string][]fetch{}
	w.mu.Lock()
	refs := append([]refEvent(nil), w.refs...)
	gsrv := map[int]*authkit.Server{}
	for v, s := range w.gsrv {
		gsrv[v] = s
	}
	w.mu.Unlock()
	for _, qn := range []string{"t.ghost.", "back.ghost."} {
		var fetches []fetch
		for v, s := range gsrv {
			for _, e := range s.Log() {
				if strings.EqualFold(e.Q.Name, qn) && e.Q.Qtype == dns.TypeA {
					fetches = append(fetches, fetch{at: w.virt(e.At), ver: v})
				}
			}
		}
		for _, e := range w.n.RootSrv.Log() {
			if strings.EqualFold(e.Q.Name, qn) && e.Q.Qtype == dns.TypeA && e.Kind == "nxdomain" {
				fetches = append(fetches, fetch{at: w.virt(e.At), ver: 0})
			}
		}
		sort.Slice(fetches, func(i, j int) bool { return fetches[i].at < fetches[j].at })
		fetchesOf[qn] = fetches
	}
	ttlOf := func(v int, what string) float64 {
		t := float64(w.sc.OwnTTL)
		if what == "SOA" {
			t = float64(w.sc.NegTTL)
			if v == 0 {
				t = 60
			}
		}
		return math.Max(t, floorSec)
	}
	curAt := func(t float64) int {
		v := 1
		for _, c := range w.changes {
			if c.at <= t {
				v = c.ver
			}
		}
		return v
	}
	for i := range asks {
		a := &asks[i]
		fetches := fetchesOf["t.ghost."]
		if a.Name == "b" {
			fetches = fetchesOf["back.ghost."]
		}
		for _, ind := range a.Inds {
			var js []justification
			for _, f := range fetches {
				if f.ver != ind.Ver || f.at > a.End {
					continue
				}
				j := justification{life: upper(f.at) + ttlOf(ind.Ver, ind.What), lease: math.Inf(1)}
				if f.ver > 0 {
					j.lease = math.Inf(-1)
					for _, r := range refs {
						if rt := w.virt(r.At); r.Ver == f.ver && rt <= f.at {
							j.lease = upper(rt) + float64(w.sc.Lease)
						}
					}
				}
				js = append(js, j)
			}
			stale := ind.Ver != curAt(a.Start)
			leaseRuns, runs, best := false, false, math.Inf(-1)
			fresh := false // fetched during this very question: the reply is the authority's, not the cache's
			for _, f := range fetches {
				if f.ver == ind.Ver && f.at >= a.Start && f.at <= a.End {
					fresh = true
				}
			}
			for _, j := range js {
				if a.Start < j.lease {
					leaseRuns = true
				}
				if end := math.Min(j.life, j.lease); a.Start < end {
					runs = true
					if end > best {
						best = end
					}
				}
			}
			cls := "current"
			switch {
			case stale && !leaseRuns:
				cls = "ghost"
			case !runs:
				cls = "overlife"
			case !fresh && float64(ind.TTL) > math.Ceil(best-a.Start):
				cls = "ttl"
			case stale:
				cls = "leased"
			case fresh:
				cls = "fresh"
			}
			a.Class = append(a.Class, cls)
			if cls == "ghost" || cls == "overlife" || cls == "ttl" {
				viol = append(viol, map[string]any{"class": cls, "ask": *a, "indicator": ind, "bestEnd": best, "current": curAt(a.Start), "justifications": len(js)})
			}
		}
		if len(a.Inds) == 0 {
			a.Class = append(a.Class, "nodatum")
		}
	}
	return viol
}

// ---- projected cache state ----------------------------------------------------------------------

func (w *world) proj() (p Proj, tf, t2f, af, bf float64) {
	now := time.Now()
	one := func(name string, cd bool) (Ent, float64) {
		e := w.ch.VerifX08alPeek(dns.Question{Name: name, Qtype: dns.TypeA, Qclass: dns.ClassINET}, cd)
		if !e.Found {
			return Ent{}, 0
		}
		rem := e.TTL - now.Sub(e.Stored)
		if !e.CutUntil.IsZero() {
			if c := e.CutUntil.Sub(now); c < rem {
				rem = c
			}
		}
		if rem <= 0 {
			return Ent{}, rem.Seconds()
		}
		return Ent{Live: true, Rem: int(math.Ceil(rem.Seconds()))}, rem.Seconds()
	}
	p.T, tf = one("t.ghost.", false)
	p.T2, t2f = one("t.ghost.", true)
	p.A, af = one(w.qname, false)
	p.B, bf = one("back.ghost.", false)
	return
}

func (w *world) nameOf(n string) string {
	switch n {
	case "a":
		return w.qname
	case "b":
		return "back.ghost."
	}
	return "t.ghost."
}

func runScenario(t *testing.T, sc *Scenario, res *vh.Result, det *[]map[string]any, dmu *sync.Mutex) {
	w, err := build(t, sc)
	if err != nil {
		res.Skip("%s: build: %v", sc.ID, err)
		return
	}
	defer w.n.Stop()
	time.Sleep(150 * time.Millisecond) // priming
	w.t0 = time.Now()
	var asks []askRec
	drift := []string{}
	for i := range sc.Steps {
		st := &sc.Steps[i]
		switch st.Op {
		case "ask":
			rec := w.ask(i, st)
			asks = append(asks, rec)
			if rec.Kind == "fail" {
				res.Count("ask_failed", 1)
			}
			if st.Exp != nil && rec.Kind != "fail" && (st.Exp.Kind != rec.Kind || fmt.Sprint(st.Exp.Vers) != fmt.Sprint(rec.Vers)) {
				drift = append(drift, fmt.Sprintf("step %d ask %s at %.2f s: model predicts %s v%v, code replied %s v%v (%s)", i, st.Name, rec.Start, st.Exp.Kind, st.Exp.Vers, rec.Kind, rec.Vers, rec.Rcode))
			}
		case "tick":
			w.tick(st.D)
		case "repoint":
			if err := w.newGhost(w.maxVer + 1); err != nil {
				res.Skip("%s: repoint: %v", sc.ID, err)
				return
			}
			w.changes = append(w.changes, changeEv{at: w.vnow(), ver: w.cur})
		case "remove":
			w.n.Root.Undelegate("ghost.")
			w.cur = 0
			w.changes = append(w.changes, changeEv{at: w.vnow(), ver: 0})
		default:
			res.Skip("%s: unknown op %q", sc.ID, st.Op)
			return
		}
		if st.Cache != nil {
			pp, tf, t2f, af, bf := w.proj()
			cmp := func(which string, m, o Ent, of float64) {
				if m.Live != o.Live || (m.Live && (of > float64(m.Rem)+0.5 || of < float64(m.Rem)-2.0)) {
					drift = append(drift, fmt.Sprintf("step %d (%s): cache entry %s: model live=%v rem=%d, code live=%v rem=%.2f", i, st.Op, which, m.Live, m.Rem, o.Live, of))
				}
			}
			cmp("target", st.Cache.T, pp.T, tf)
			cmp("target(cd)", st.Cache.T2, pp.T2, t2f)
			cmp("alias", st.Cache.A, pp.A, af)
			cmp("back", st.Cache.B, pp.B, bf)
			res.Count("cache_states_compared", 1)
		}
	}
	if real := time.Since(w.t0); real > 900*time.Millisecond {
		res.Count("slow_scenarios", 1)
	}
	viol := w.judge(asks)
	classes := map[string]int{}
	for _, a := range asks {
		for _, c := range a.Class {
			classes[c]++
			res.Count("datum_"+c, 1)
		}
		if a.Name == "a" && a.Upstream == 0 && len(a.Inds) > 0 {
			res.Count("alias_served_from_cache", 1)
		}
		if a.Name == "a" && a.Upstream > 0 {
			res.Count("alias_resolved_upstream", 1)
		}
		if a.Name == "b" {
			res.Count("asks_back", 1)
		}
		if a.Wire {
			res.Count("asks_wire", 1)
		}
	}
	res.Count("asks", len(asks))
	res.Count("referrals_logged", len(w.refs))
	res.Case(fmt.Sprintf("%s:%v", sc.ID, classes))
	if len(drift) > 0 {
		res.Count("scenarios_drifted", 1)
		res.DriftNote("%s: %s", sc.ID, strings.Join(drift, " | "))
	}
	out := map[string]any{"id": sc.ID, "asks": asks, "classes": classes, "drift": drift}
	dmu.Lock()
	*det = append(*det, out)
	dmu.Unlock()
	seen := map[string]bool{}
	for _, v := range viol {
		cls := v["class"].(string)
		if seen[cls] {
			continue
		}
		seen[cls] = true
		a := v["ask"].(askRec)
		ind := v["indicator"].(indicator)
		var what string
		switch cls {
		case "ghost":
			what = fmt.Sprintf("FollowsParent: the reply to %s (step %d, virtual %.2f s, %s) carries %s of ghost. version %d although the parent now says version %d and no lease "+
				"the parent granted for version %d was still running (lease %d s)", askName(w, a), a.Step, a.Start, a.Rcode, ind.What, ind.Ver, v["current"], ind.Ver, sc.Lease)
		case "overlife":
			what = fmt.Sprintf("ServedLive: the reply to %s (step %d, virtual %.2f s, %s) carries %s of ghost. version %d whose lifetime (record TTL floored at 5 s, delegation lease %d s) "+
				"had ended for every fetch that could justify it", askName(w, a), a.Step, a.Start, a.Rcode, ind.What, ind.Ver, sc.Lease)
		case "ttl":
			what = fmt.Sprintf("TTLShown: the reply to %s (step %d, virtual %.2f s) shows TTL %d on %s of ghost. version %d, more than the %.2f s its best justification has left",
				askName(w, a), a.Step, a.Start, ind.TTL, ind.What, ind.Ver, v["bestEnd"].(float64)-a.Start)
		}
		what += fmt.Sprintf("; scenario %s alias=%s kind1=%s kind2=%s lease=%d sLease=%d ownTTL=%d negTTL=%d", sc.ID, sc.Alias, sc.Kind1, sc.Kind2, sc.Lease, sc.SLease, sc.OwnTTL, sc.NegTTL)
		res.Violate(cls+"/"+sc.ID, what, map[string]any{"driver": "x08al", "scenario": sc, "asks": asks})
	}
	res.Sample(out)
}

func askName(w *world, a askRec) string { return w.nameOf(a.Name) }

func TestAliasLease(t *testing.T) {
	var in Input
	vh.Input(t, &in)
	res := vh.NewResult()
	defer res.Write(t)
	if in.Workers <= 0 {
		in.Workers = 6
	}
	var det []map[string]any
	var dmu sync.Mutex
	jobs := make(chan *Scenario)
	var wg sync.WaitGroup
	for i := 0; i < in.Workers; i++ {
		wg.Add(1)
		go func() {
			defer wg.Done()
			for sc := range jobs {
				runScenario(t, sc, res, &det, &dmu)
			}
		}()
	}
	for i := range in.Scenarios {
		jobs <- &in.Scenarios[i]
	}
	close(jobs)
	wg.Wait()
	if p := os.Getenv("VERIF_OUT"); p != "" {
		if b, err := json.Marshal(det); err == nil {
			_ = os.WriteFile(p+".detail", b, 0o644)
		}
	}
}
