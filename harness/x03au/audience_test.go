package x03au

// Replay of Ecs.tla behaviours (audience and checking-disabled clauses of C03)
// on the real default chain in FORWARDER mode: recovery .. edns .. cache ..
// failover, then the real middleware/forwarder talking to a scripted upstream
// on a loopback UDP socket.  The upstream plays the ECS-aware recursive /
// authority: it records the subnet option that reached it, answers with rdata
// that encodes the exchange number (gen), returns the SCOPE the behaviour chose
// and leaves the CD bit of its reply as the behaviour says (echoed, cleared,
// set -- copying CD into a reply is only a SHOULD).
//
// Dimensions taken from the model: address family (own ceiling / floor, left
// UNSET in the configuration unless the group says otherwise), the
// client_networks allow-list together with the form in which the transport
// reports an IPv4 peer (4 bytes / 16 bytes IPv4-mapped), the client's CD bit,
// the upstream's CD behaviour, dnssec on / off.  The entry route of every
// query (decoded Server.ServeMsg / wire-born Server.ServeRaw) is drawn from
// VERIF_SEED.
//
// Predicates (C03), judged on every reply that was served from the cache, from
// the provenance in its rdata:
//   - cd-partition:    the entry was obtained for a client question with the
//                      same CD bit;
//   - scoped-audience: if the authority scoped the answer (SCOPE > 0 on an
//                      exchange that carried a subnet), the client sent ECS,
//                      is eligible, is of the same family and lies inside
//                      min(scope, forwarded, configured floor) -- an unset
//                      floor is the forwarding ceiling OF THAT FAMILY (24 /
//                      56 when that is unset too), as config documents;
//   - the data belongs to this behaviour's question at all.
// Model hit/miss differences that break no predicate are drift.

import (
	"context"
	"fmt"
	"math/rand"
	"net"
	"net/netip"
	"strconv"
	"sync"
	"testing"
	"time"

	"github.com/miekg/dns"
	"github.com/semihalev/sdns/config"
	"github.com/semihalev/sdns/middleware"
	"github.com/semihalev/sdns/middleware/defaults"
	"github.com/semihalev/sdns/middleware/forwarder"
	"github.com/semihalev/sdns/server"
	"github.com/semihalev/sdns/verifharness/pipe"
	"github.com/semihalev/sdns/verifharness/vh"
)

type audStep struct {
	C      int    `json:"c"`
	Sent   int    `json:"sent"`
	Scope  int    `json:"scope"`
	CD     bool   `json:"cd"`
	Up     string `json:"up"`
	ExpHit bool   `json:"expHit"`
	Route  string `json:"route,omitempty"` // "msg" | "raw"; empty = drawn from the seed (recorded in replays)
}

type audBeh struct {
	Steps []audStep `json:"steps"`
}

type audClient struct {
	Addr   string `json:"addr"`
	Mapped bool   `json:"mapped"`
}

type audGroup struct {
	Name       string               `json:"name"`
	Enabled    bool                 `json:"enabled"`
	Fwd4       int                  `json:"fwd4"` // 0 = left unset
	Floor4     int                  `json:"floor4"`
	Fwd6       int                  `json:"fwd6"`
	Floor6     int                  `json:"floor6"`
	Allow      []string             `json:"allow"`
	Dnssec     bool                 `json:"dnssec"`
	Failover   bool                 `json:"failover"` // the forwarder's upstream answers SERVFAIL; a fallbackserver (middleware/failover) answers
	Clients    map[string]audClient `json:"clients"`
	Behaviours []audBeh             `json:"behaviours,omitempty"`
}

type audInput struct {
	Groups []audGroup `json:"groups"`
}

// one upstream exchange
type audGen struct {
	fwd      netip.Prefix // the subnet the upstream query carried (invalid = none)
	scope    int          // SCOPE returned (0 when no subnet was carried)
	clientCD bool         // CD bit of the client question that caused the exchange
	upCD     bool         // CD bit of the upstream query
	client   int
	name     string
	up       string // what the upstream did with the CD bit of its reply
}

type audUpstream struct {
	mu    sync.Mutex
	pc    net.PacketConn // the forwarder's upstream
	pc2   net.PacketConn // the fallback server (failover groups only)
	srvs  []*dns.Server
	gens  []audGen
	cur   audStep
	stray int
	down  int // SERVFAILs played by the primary of a failover group
}

// primaryDown: the forwarder's upstream of a failover group -- SERVFAIL to everything (with the CD bit the
// behaviour chose), so that the answer the cache stores is the one middleware/failover fetched.
func (u *audUpstream) primaryDown(w dns.ResponseWriter, r *dns.Msg) {
	u.mu.Lock()
	defer u.mu.Unlock()
	m := new(dns.Msg)
	m.SetRcode(r, dns.RcodeServerFailure)
	switch u.cur.Up {
	case "clear":
		m.CheckingDisabled = false
	case "set":
		m.CheckingDisabled = true
	}
	u.down++
	_ = w.WriteMsg(m)
}

func (u *audUpstream) handle(w dns.ResponseWriter, r *dns.Msg) {
	u.mu.Lock()
	defer u.mu.Unlock()
	if len(r.Question) != 1 {
		u.stray++
		return
	}
	g := audGen{clientCD: u.cur.CD, upCD: r.CheckingDisabled, client: u.cur.C, name: r.Question[0].Name, up: u.cur.Up}
	m := new(dns.Msg)
	m.SetReply(r) // copies CD: "echo"
	m.RecursionAvailable = true
	switch u.cur.Up {
	case "clear":
		m.CheckingDisabled = false
	case "set":
		m.CheckingDisabled = true
	}
	if ro := r.IsEdns0(); ro != nil {
		o := &dns.OPT{Hdr: dns.RR_Header{Name: ".", Rrtype: dns.TypeOPT}}
		o.SetUDPSize(1232)
		for _, e := range ro.Option {
			s, ok := e.(*dns.EDNS0_SUBNET)
			if !ok {
				continue
			}
			var a netip.Addr
			if s.Family == 1 {
				a, _ = netip.AddrFromSlice(s.Address.To4())
			} else {
				a, _ = netip.AddrFromSlice(s.Address.To16())
			}
			if p, err := a.Prefix(int(s.SourceNetmask)); err == nil && s.SourceNetmask > 0 {
				g.fwd = p
			}
			g.scope = u.cur.Scope
			o.Option = append(o.Option, &dns.EDNS0_SUBNET{Code: dns.EDNS0SUBNET, Family: s.Family,
				SourceNetmask: s.SourceNetmask, SourceScope: uint8(u.cur.Scope), Address: s.Address})
		}
		m.Extra = []dns.RR{o}
	}
	if !g.fwd.IsValid() {
		g.scope = 0
	}
	u.gens = append(u.gens, g)
	n := len(u.gens)
	m.Answer = []dns.RR{&dns.A{Hdr: dns.RR_Header{Name: r.Question[0].Name, Rrtype: dns.TypeA, Class: dns.ClassINET, Ttl: 300},
		A: net.IPv4(192, 0, byte(n>>8), byte(n))}}
	_ = w.WriteMsg(m)
}

func startAudUpstream(failover bool) (*audUpstream, error) {
	u := &audUpstream{}
	listen := func(h dns.HandlerFunc) (net.PacketConn, error) {
		pc, err := net.ListenPacket("udp", "127.0.0.1:0")
		if err != nil {
			return nil, err
		}
		srv := &dns.Server{Net: "udp", PacketConn: pc, Handler: h}
		started := make(chan struct{})
		srv.NotifyStartedFunc = func() { close(started) }
		go func() { _ = srv.ActivateAndServe() }()
		select {
		case <-started:
		case <-time.After(5 * time.Second):
			return nil, fmt.Errorf("scripted upstream did not start")
		}
		u.srvs = append(u.srvs, srv)
		return pc, nil
	}
	var err error
	if failover {
		if u.pc, err = listen(u.primaryDown); err != nil {
			return nil, err
		}
		u.pc2, err = listen(u.handle)
		return u, err
	}
	u.pc, err = listen(u.handle)
	return u, err
}

func (u *audUpstream) stop() {
	for _, s := range u.srvs {
		_ = s.Shutdown()
	}
}

// buildAudServer: the default chain up to (not including) the resolver -- which the real chain
// constructs and skips per query in forwarder mode -- followed by the real forwarder.
func buildAudServer(g *audGroup, up *audUpstream) *server.Server {
	cfg := &config.Config{ //nolint:gosec
		Bind:         "127.0.0.1:0",
		Expire:       600,
		CacheSize:    10240,
		CookieSecret: "6c6f6f6b61686172646c6f6f6b6168617264",
		Maxdepth:     30,
		RateLimit:    0,
		DNSSEC:       "off",
		AccessList:   []string{"0.0.0.0/0", "::0/0"},
	}
	if g.Dnssec {
		cfg.DNSSEC = "on"
	}
	cfg.QueryTimeout.Duration = 6 * time.Second
	cfg.Timeout.Duration = 2 * time.Second
	cfg.ForwarderServers = []string{up.pc.LocalAddr().String()}
	if up.pc2 != nil {
		cfg.FallbackServers = []string{up.pc2.LocalAddr().String()}
	}
	cfg.RootServers = []string{"127.0.0.1:9"}
	cfg.ECS.Enabled = g.Enabled
	cfg.ECS.ForwardV4Max = uint8(g.Fwd4)
	cfg.ECS.ForwardV6Max = uint8(g.Fwd6)
	cfg.ECS.MinScopeV4 = uint8(g.Floor4)
	cfg.ECS.MinScopeV6 = uint8(g.Floor6)
	cfg.ECS.ClientNetworks = g.Allow
	middleware.Reset()
	defaults.RegisterUpTo("resolver")
	middleware.Register("forwarder", func(c *config.Config) middleware.Handler { return forwarder.New(c) })
	middleware.Setup(cfg)
	s := server.New(cfg)
	middleware.Reset()
	return s
}

func audAsk(s *server.Server, q *dns.Msg, ip net.IP, route string, res *vh.Result) *dns.Msg {
	remote := &net.UDPAddr{IP: ip, Port: 40000}
	var last []byte
	if route == "raw" {
		raw, err := q.Pack()
		if err != nil {
			return nil
		}
		job := &server.VerifStrictJob{Remote: remote}
		s.ServeRaw(job, raw, time.Now())
		if job.VerifTookWirePath() {
			res.Count("aud_wire_born", 1)
		}
		if len(job.Writes) > 0 {
			last = job.Writes[len(job.Writes)-1]
		}
	} else {
		sink := &pipe.Sink{Remote: remote}
		s.ServeMsg(context.Background(), sink, q)
		if len(sink.Writes) > 0 {
			last = sink.Writes[len(sink.Writes)-1]
		}
	}
	if last == nil {
		return nil
	}
	m := new(dns.Msg)
	if err := m.Unpack(last); err != nil {
		return nil
	}
	return m
}

// ceilOf / floorOf: the policy the configuration documents (unset = default of the SAME family).
func (g *audGroup) ceilOf(v6 bool) int {
	if v6 {
		if g.Fwd6 == 0 {
			return 56
		}
		return g.Fwd6
	}
	if g.Fwd4 == 0 {
		return 24
	}
	return g.Fwd4
}

func (g *audGroup) floorOf(v6 bool) int {
	if v6 {
		if g.Floor6 == 0 {
			return g.ceilOf(true)
		}
		return g.Floor6
	}
	if g.Floor4 == 0 {
		return g.ceilOf(false)
	}
	return g.Floor4
}

func (g *audGroup) eligible(a netip.Addr) bool {
	if !g.Enabled {
		return false
	}
	if len(g.Allow) == 0 {
		return true
	}
	for _, s := range g.Allow {
		if p, err := netip.ParsePrefix(s); err == nil && p.Contains(a) {
			return true
		}
	}
	return false
}

func (g *audGroup) describe() string {
	mode := "forwarder mode"
	if g.Failover {
		mode = "forwarder mode, upstream SERVFAILs and a fallbackserver answers,"
	}
	return fmt.Sprintf("%s: "+mode+" dnssec=%v ecs{forward_v4=%d forward_v6=%d min_scope_v4=%d min_scope_v6=%d (0=unset) client_networks=%v}",
		g.Name, g.Dnssec, g.Fwd4, g.Fwd6, g.Floor4, g.Floor6, g.Allow)
}

func TestAudienceReplay(t *testing.T) {
	var in audInput
	vh.Input(t, &in)
	res := vh.NewResult()
	defer res.Write(t)
	rng := rand.New(rand.NewSource(vh.Seed()*7919 + 3))

	for gi := range in.Groups {
		g := &in.Groups[gi]
		up, err := startAudUpstream(g.Failover)
		if err != nil {
			res.Skip("group %s: %v", g.Name, err)
			continue
		}
		s := buildAudServer(g, up)
		addr := map[int]netip.Addr{}
		for k, c := range g.Clients {
			id, _ := strconv.Atoi(k)
			a, err := netip.ParseAddr(c.Addr)
			if err != nil {
				t.Fatalf("group %s: bad client address %q", g.Name, c.Addr)
			}
			addr[id] = a
		}
		for bi := range g.Behaviours {
			b := &g.Behaviours[bi]
			name := fmt.Sprintf("aud-%s-%d.verif.test.", g.Name, bi)
			up.mu.Lock()
			base := len(up.gens)
			up.mu.Unlock()
			var hist []string
			played := audBeh{}
			for si, st := range b.Steps {
				cl, ok := g.Clients[strconv.Itoa(st.C)]
				if !ok {
					t.Fatalf("group %s: step names unknown client %d", g.Name, st.C)
				}
				a := addr[st.C]
				ip := net.IP(a.AsSlice())
				form := ""
				if a.Is4() && cl.Mapped {
					ip = ip.To16()
					form = " peer-as-::ffff:" + a.String()
				}
				route := st.Route
				if route == "" {
					route = []string{"msg", "raw"}[rng.Intn(2)]
				}
				st.Route = route
				played.Steps = append(played.Steps, st)
				q := new(dns.Msg)
				q.SetQuestion(name, dns.TypeA)
				q.CheckingDisabled = st.CD
				q.SetEdns0(1232, rng.Intn(2) == 0)
				if st.Sent > 0 {
					// the client's own address, host bits set beyond the netmask
					sub := &dns.EDNS0_SUBNET{Code: dns.EDNS0SUBNET, Family: 1, SourceNetmask: uint8(st.Sent), Address: net.IP(a.AsSlice())}
					if a.Is6() {
						sub.Family = 2
					}
					o := q.IsEdns0()
					o.Option = append(o.Option, sub)
				}
				hist = append(hist, fmt.Sprintf("Query(c%d %s%s ecs=/%d cd=%v via %s; upstream would scope=/%d cd-bit=%s)", st.C, a, form, st.Sent, st.CD, route, st.Scope, st.Up))
				up.mu.Lock()
				up.cur = st
				before := len(up.gens)
				up.mu.Unlock()
				r := audAsk(s, q, ip, route, res)
				up.mu.Lock()
				gens := append([]audGen(nil), up.gens...)
				up.mu.Unlock()
				missed := len(gens) > before
				res.Case(fmt.Sprintf("%s|%v", g.Name, hist))
				res.Count("aud_queries", 1)
				res.Count("aud_route_"+route, 1)
				res.Count("aud_group_"+g.Name, 1)
				violate := func(clause, what string) {
					res.Violate("audience/"+clause+"/"+g.Name, fmt.Sprintf("[%s] %v: %s", g.describe(), hist, what),
						map[string]any{"driver": "audience", "group": audGroup{Name: g.Name, Enabled: g.Enabled, Fwd4: g.Fwd4, Floor4: g.Floor4, Fwd6: g.Fwd6,
							Floor6: g.Floor6, Allow: g.Allow, Dnssec: g.Dnssec, Failover: g.Failover, Clients: g.Clients}, "behaviour": played, "history": hist, "seed": vh.Seed()})
				}
				if r == nil {
					res.Count("aud_no_reply", 1)
					res.DriftNote("[%s] no reply at step %d of %v", g.Name, si, hist)
					break
				}
				if len(gens)-before > 1 {
					res.Count("aud_multi_exchange", 1)
				}
				if len(r.Answer) != 1 {
					res.Count("aud_odd_answer", 1)
					res.DriftNote("[%s] reply without the single A record (rcode %d) at step %d of %v", g.Name, r.Rcode, si, hist)
					break
				}
				rr, ok := r.Answer[0].(*dns.A)
				if !ok {
					res.Count("aud_odd_answer", 1)
					break
				}
				n := int(rr.A.To4()[2])<<8 | int(rr.A.To4()[3])
				if missed {
					res.Count("aud_miss", 1)
					gg := gens[len(gens)-1]
					if gg.fwd.IsValid() {
						res.Count("aud_ecs_forwarded", 1)
						if gg.fwd.Addr().Is6() {
							res.Count("aud_ecs_forwarded_v6", 1)
						}
					}
					if gg.upCD != st.CD {
						res.Count("aud_upstream_cd_differs_from_client", 1)
					}
				} else {
					res.Count("aud_hit", 1)
					// served from the cache: which exchange produced the data?
					if n <= base || n > len(gens) || gens[n-1].name != name {
						violate("foreign-entry", fmt.Sprintf("cache hit carries the data of upstream exchange %d, which was not made for this question", n))
						break
					}
					gg := gens[n-1]
					if gg.clientCD != st.CD {
						res.Count("aud_cd_cross", 1)
						violate("cd-partition", fmt.Sprintf("a CD=%v question was answered from the cache with the response obtained for a CD=%v question (exchange %d; CD bit of that upstream reply: %s)",
							st.CD, gg.clientCD, n-base, gg.up))
					}
					if gg.scope != 0 && gg.fwd.IsValid() {
						res.Count("aud_hit_scoped", 1)
						v6 := gg.fwd.Addr().Is6()
						bits := gg.scope
						if gg.fwd.Bits() < bits {
							bits = gg.fwd.Bits()
						}
						if fl := g.floorOf(v6); fl < bits {
							bits = fl
						}
						want, _ := gg.fwd.Addr().Prefix(bits)
						switch {
						case st.Sent == 0:
							violate("scoped-to-nonecs", fmt.Sprintf("an answer the authority scoped /%d for %s was served to a client that sent no ECS", gg.scope, gg.fwd))
						case !g.eligible(a):
							violate("scoped-to-ineligible", fmt.Sprintf("an answer the authority scoped /%d for %s was served to a client outside client_networks", gg.scope, gg.fwd))
						case a.Is6() != v6 || !want.Contains(a):
							violate("scoped-audience", fmt.Sprintf("an answer obtained for %s that the authority scoped /%d (audience %s) was served to %s", gg.fwd, gg.scope, want, a))
						}
					} else {
						res.Count("aud_hit_shared", 1)
					}
				}
				if missed == st.ExpHit {
					res.Count("aud_drift_"+g.Name, 1)
					res.DriftNote("[%s] model hit=%v, code reached upstream=%v at step %d of %v", g.Name, st.ExpHit, missed, si, hist)
					break // the cache contents no longer follow the model
				}
			}
			res.Count("aud_behaviours", 1)
			if bi < 1 {
				res.Sample(map[string]any{"group": g.describe(), "history": hist})
			}
		}
		up.mu.Lock()
		if up.stray > 0 {
			res.Count("aud_stray_upstream_packets", up.stray)
		}
		if g.Failover {
			res.Count("aud_primary_servfail_then_fallback", up.down)
		}
		up.mu.Unlock()
		up.stop()
	}
}
