package x11dr

import (
	"testing"

	"github.com/semihalev/sdns/verifharness/vh"
)

// TestDrainAll runs whichever of the four drivers the input carries in one
// test binary run (the quick tier pays the link and start-up once).
type allInput struct {
	Replay      *replayInput      `json:"replay"`
	Stress      *stressInput      `json:"stress"`
	CacheReplay *cacheReplayInput `json:"cacheReplay"`
	CacheStress *cacheStressInput `json:"cacheStress"`
}

func TestDrainAll(t *testing.T) {
	var in allInput
	vh.Input(t, &in)
	res := vh.NewResult()
	defer res.Write(t)
	if in.CacheReplay != nil {
		runCacheReplay(t, in.CacheReplay, res)
	}
	if in.CacheStress != nil {
		runCacheStress(t, in.CacheStress, res)
	}
	if in.Replay != nil {
		runReplay(t, in.Replay, res)
	}
	if in.Stress != nil {
		runStress(t, in.Stress, res)
	}
}
