package x11dr

// The idle slab cache (server/slab_cache.go) through its exported face
// (overlay: VerifX11drCache = slabCache[VerifX11drSlab]).
//
//   TestSlabCacheReplay  spec -> code: call orders chosen by TLC (SlabCache.tla with Atomic gets) on the real
//                        cache; after every call the shard contents are compared with the model and the
//                        predicates evaluated (one taker per slab, put parks what it was given, trim drops
//                        exactly the parked slabs and never one somebody holds).
//   TestSlabCacheStress  free-running takers with the engines' admission protocol in front (fetch-add, roll
//                        back, get-or-allocate; put, then count down) and a trimmer; every slab carries an
//                        ownership word, so a slab handed to two takers is seen at once.

import (
	"fmt"
	"math/rand"
	"sync"
	"sync/atomic"
	"testing"

	"github.com/semihalev/sdns/server"
	"github.com/semihalev/sdns/verifharness/vh"
)

type cacheOp struct {
	Op     string  `json:"op"` // get | put | trim
	P      string  `json:"p"`
	Hint   int     `json:"hint"`
	Slab   int     `json:"slab"`   // model slab the op returns / parks (get: 0 = none parked anywhere, allocate)
	Fresh  bool    `json:"fresh"`  // get: the model allocates
	Shards [][]int `json:"shards"` // model shard contents after the op
	N      int     `json:"n"`      // trim: slabs dropped
}

type cacheBehaviour struct {
	ID  string    `json:"id"`
	Ops []cacheOp `json:"ops"`
}

type cacheReplayInput struct {
	Behaviours []cacheBehaviour `json:"behaviours"`
}

func TestSlabCacheReplay(t *testing.T) {
	var in cacheReplayInput
	vh.Input(t, &in)
	res := vh.NewResult()
	defer res.Write(t)
	runCacheReplay(t, &in, res)
}

func runCacheReplay(t *testing.T, in *cacheReplayInput, res *vh.Result) {
	for _, b := range in.Behaviours {
		var c server.VerifX11drCache
		m2r := map[int]*server.VerifX11drSlab{}
		r2m := map[*server.VerifX11drSlab]int{}
		holder := map[*server.VerifX11drSlab]string{}
		has := map[string]*server.VerifX11drSlab{}
		dropped := map[*server.VerifX11drSlab]bool{}
		parked := map[*server.VerifX11drSlab]bool{}
		violate := func(k int, key, what string) {
			res.Violate("cache/"+key, fmt.Sprintf("[cache replay %s op %d] %s", b.ID, k, what),
				map[string]any{"driver": "cache-replay", "behaviour": b, "at": k})
		}
		drifted := false
		for k, op := range b.Ops {
			switch op.Op {
			case "get":
				x := c.Get(op.Hint)
				if x == nil {
					if !op.Fresh && !drifted {
						res.DriftNote("[cache replay %s op %d] get(%d) found nothing, the model pops slab %d", b.ID, k, op.Hint, op.Slab)
						drifted = true
					}
					x = &server.VerifX11drSlab{ID: len(r2m) + 1}
					if _, ok := m2r[op.Slab]; !ok {
						m2r[op.Slab], r2m[x] = x, op.Slab
					}
				} else {
					if h, ok := holder[x]; ok {
						violate(k, "two-takers", fmt.Sprintf("get(%d) handed out a slab that taker %s is holding", op.Hint, h))
					}
					if dropped[x] {
						violate(k, "trimmed-returned", fmt.Sprintf("get(%d) handed out a slab an earlier trim dropped", op.Hint))
					}
					if !parked[x] {
						violate(k, "never-parked", fmt.Sprintf("get(%d) handed out a slab nobody had parked", op.Hint))
					}
					if (op.Fresh || m2r[op.Slab] != x) && !drifted {
						res.DriftNote("[cache replay %s op %d] get(%d) returned slab %d, the model %d (fresh=%v)", b.ID, k, op.Hint, r2m[x], op.Slab, op.Fresh)
						drifted = true
					}
				}
				delete(parked, x)
				holder[x], has[op.P] = op.P, x
			case "put":
				x := has[op.P]
				if x == nil {
					t.Fatalf("behaviour %s op %d: put by a taker that holds nothing", b.ID, k)
				}
				before := c.Size()
				c.Put(op.Hint, x)
				delete(holder, x)
				delete(has, op.P)
				parked[x] = true
				if c.Size() != before+1 || c.ShardLens()[op.Hint&(server.VerifX11drShardCount-1)] < 1 {
					violate(k, "put-lost", fmt.Sprintf("put(%d) did not park the slab: size %d -> %d", op.Hint, before, c.Size()))
				}
			case "trim":
				before := c.Size()
				n := c.Trim()
				for x := range parked {
					dropped[x] = true
				}
				parked = map[*server.VerifX11drSlab]bool{}
				if n != before || c.Size() != 0 {
					violate(k, "trim-count", fmt.Sprintf("trim reported %d with %d parked, %d left", n, before, c.Size()))
				}
				if n != op.N && !drifted {
					res.DriftNote("[cache replay %s op %d] trim dropped %d, the model %d", b.ID, k, n, op.N)
					drifted = true
				}
			}
			// the shard picture
			lens := c.ShardLens()
			for s, want := range op.Shards {
				if lens[s] != len(want) && !drifted {
					res.DriftNote("[cache replay %s op %d %s] shard %d holds %d, the model %v", b.ID, k, op.Op, s, lens[s], want)
					drifted = true
				}
			}
			total := 0
			for _, n := range lens {
				total += n
			}
			if total != c.Size() || total != len(parked) {
				violate(k, "size", fmt.Sprintf("size() = %d, shards hold %d, %d slabs were parked and not taken", c.Size(), total, len(parked)))
			}
			res.Count("cache_calls", 1)
		}
		res.Case("cache/" + b.ID)
		res.Count("cache_behaviours", 1)
	}
}

type cacheStressInput struct {
	Takers int `json:"takers"`
	Cap    int `json:"cap"`
	Iters  int `json:"iters"`
	Rounds int `json:"rounds"`
}

func TestSlabCacheStress(t *testing.T) {
	var in cacheStressInput
	vh.Input(t, &in)
	res := vh.NewResult()
	defer res.Write(t)
	runCacheStress(t, &in, res)
}

func runCacheStress(t *testing.T, in *cacheStressInput, res *vh.Result) {
	seed := vh.Seed()
	type tagged struct {
		s     *server.VerifX11drSlab
		owner atomic.Int32
		gone  atomic.Bool
	}
	for round := 0; round < in.Rounds; round++ {
		var c server.VerifX11drCache
		var leased, live, maxLive, maxLeased atomic.Int64
		var allocs, takes, sheds atomic.Int64
		var reg sync.Map // *VerifX11drSlab -> *tagged
		viol := func(key, what string) {
			res.Violate("cache/"+key, fmt.Sprintf("[cache stress round %d] %s", round, what),
				map[string]any{"driver": "cache-stress", "seed": seed, "round": round, "config": in})
		}
		stop := make(chan struct{})
		var trimmed atomic.Int64
		var wg, twg sync.WaitGroup
		trimming := round%2 == 0 // without a trimmer nothing is ever freed: allocations == slabs live at the end
		twg.Add(1)
		go func() {
			defer twg.Done()
			rng := rand.New(rand.NewSource(seed + int64(round)))
			for trimming {
				select {
				case <-stop:
					return
				default:
				}
				for i := 0; i < 2000+rng.Intn(4000); i++ {
					_ = i
				}
				n := c.Trim()
				trimmed.Add(int64(n))
				live.Add(-int64(n))
			}
		}()
		for g := 0; g < in.Takers; g++ {
			wg.Add(1)
			go func(g int) {
				defer wg.Done()
				rng := rand.New(rand.NewSource(seed*131 + int64(round*64+g)))
				hint := g
				for i := 0; i < in.Iters; i++ {
					if rng.Intn(4) == 0 {
						hint = rng.Intn(16)
					}
					if n := leased.Add(1); n > int64(in.Cap) {
						leased.Add(-1)
						sheds.Add(1)
						continue
					}
					x := c.Get(hint)
					var tg *tagged
					if x == nil {
						x = &server.VerifX11drSlab{}
						tg = &tagged{s: x}
						reg.Store(x, tg)
						allocs.Add(1)
						if n := live.Add(1); n > maxLive.Load() {
							maxLive.Store(n)
						}
					} else {
						v, ok := reg.Load(x)
						if !ok {
							viol("unknown-slab", "get handed out a slab that was never allocated by a taker")
							continue
						}
						tg = v.(*tagged)
					}
					if !tg.owner.CompareAndSwap(0, int32(g+1)) {
						viol("two-takers", fmt.Sprintf("a slab was handed to taker %d while taker %d held it", g+1, tg.owner.Load()))
					}
					if n := leased.Load(); n > maxLeased.Load() {
						maxLeased.Store(n)
					}
					takes.Add(1)
					x.ID++ // the taker's own write: two owners would race here
					if !tg.owner.CompareAndSwap(int32(g+1), 0) {
						viol("two-takers", "a slab changed hands while a taker held it")
					}
					c.Put(hint, x)
					leased.Add(-1)
				}
			}(g)
		}
		wg.Wait()
		close(stop)
		twg.Wait()
		size := c.Size()
		sum := 0
		for _, n := range c.ShardLens() {
			sum += n
		}
		if size != sum {
			viol("size", fmt.Sprintf("size() = %d, shards hold %d", size, sum))
		}
		if int64(size)+trimmed.Load() != allocs.Load() {
			viol("slab-lost", fmt.Sprintf("%d slabs were allocated, %d were trimmed and %d are parked with nobody holding one", allocs.Load(), trimmed.Load(), size))
		}
		if !trimming {
			// observation, not a property of C11: the cache's stated memory contract
			if allocs.Load() > int64(in.Cap) {
				res.DriftNote("[cache stress round %d] %d slabs exist under an admission cap of %d with nothing ever trimmed (the sweep "+
					"of get missed a slab parked behind it; SlabCache.tla: LiveWithinCap is not an invariant, LiveBounded is)",
					round, allocs.Load(), in.Cap)
				res.Count("cache_rounds_over_cap", 1)
			}
			if int(allocs.Load()) > res.Counters["cache_max_live"] {
				res.Counters["cache_max_live"] = int(allocs.Load())
			}
			if allocs.Load() > int64(in.Cap+in.Takers-1) {
				res.DriftNote("[cache stress round %d] %d live slabs exceed cap + takers - 1 = %d", round, allocs.Load(), in.Cap+in.Takers-1)
			}
		}
		res.Case(fmt.Sprintf("cache-stress/%d", round))
		res.Count("cache_takes", int(takes.Load()))
		res.Count("cache_sheds", int(sheds.Load()))
		res.Count("cache_allocs", int(allocs.Load()))
		res.Count("cache_trimmed", int(trimmed.Load()))
	}
}
