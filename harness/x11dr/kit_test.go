package x11dr

// Shared kit of the X11DR (shutdown / drain barrier) drivers: the real
// server.Server on loopback with tiny limits, a scripted handler at the end of
// the real default chain that parks chosen queries (the "slow handler"), the
// UDP trace hook used both as a recorder and as a schedule gate, UDP / TCP
// clients that count every reply, and the observable projection the model is
// compared with.

import (
	"context"
	"encoding/binary"
	"encoding/json"
	"fmt"
	"io"
	"net"
	"os"
	"runtime"
	"sort"
	"strings"
	"sync"
	"sync/atomic"
	"time"

	"github.com/miekg/dns"
	"github.com/semihalev/sdns/config"
	"github.com/semihalev/sdns/middleware"
	"github.com/semihalev/sdns/middleware/cache"
	"github.com/semihalev/sdns/middleware/defaults"
	"github.com/semihalev/sdns/server"
	"github.com/semihalev/sdns/verifharness/pipe"
)

const zone = "x11dr.test."

// ---------------------------------------------------------------------------
// event log: one harness-side sequence for everything that is recorded

type evlog struct {
	mu    sync.Mutex
	seq   int64
	lines []map[string]any
}

func (l *evlog) add(m map[string]any) int64 {
	l.mu.Lock()
	l.seq++
	m["seq"] = l.seq
	l.lines = append(l.lines, m)
	s := l.seq
	l.mu.Unlock()
	return s
}

func (l *evlog) snapshot() []map[string]any {
	l.mu.Lock()
	defer l.mu.Unlock()
	return append([]map[string]any(nil), l.lines...)
}

func (l *evlog) appendTo(path string) (int, error) {
	f, err := os.OpenFile(path, os.O_CREATE|os.O_WRONLY|os.O_APPEND, 0o644)
	if err != nil {
		return 0, err
	}
	defer f.Close()
	enc := json.NewEncoder(f)
	n := 0
	for _, ln := range l.snapshot() {
		if err := enc.Encode(ln); err != nil {
			return n, err
		}
		n++
	}
	return n, nil
}

// ---------------------------------------------------------------------------
// the handler at the end of the chain

func firstLabelOf(name string) string {
	if i := strings.IndexByte(name, '.'); i >= 0 {
		return strings.ToLower(name[:i])
	}
	return strings.ToLower(name)
}

// tailGate parks the queries whose first label starts with "m-" (UDP miss) or
// "t-" (TCP frame) until the driver lets them go; "d<ms>-" names sleep.
type tailGate struct {
	mu      sync.Mutex
	open    bool
	waiting map[string]chan struct{}
	arrived map[string]bool
	left    map[string]bool
	entered atomic.Int64
	log     *evlog
	note    chan struct{}
}

func newTailGate(log *evlog) *tailGate {
	return &tailGate{waiting: map[string]chan struct{}{}, arrived: map[string]bool{}, left: map[string]bool{},
		log: log, note: make(chan struct{}, 1)}
}

func (g *tailGate) ping() {
	select {
	case g.note <- struct{}{}:
	default:
	}
}

func (g *tailGate) respond(_ context.Context, _ *middleware.Chain, req *dns.Msg) *dns.Msg {
	q := req.Question[0]
	lab := firstLabelOf(q.Name)
	g.entered.Add(1)
	switch {
	case strings.HasPrefix(lab, "m-") || strings.HasPrefix(lab, "t-"):
		g.mu.Lock()
		g.arrived[lab] = true
		var ch chan struct{}
		if !g.open {
			ch = make(chan struct{})
			g.waiting[lab] = ch
		}
		g.mu.Unlock()
		hk := "udp"
		if strings.HasPrefix(lab, "t-") {
			hk = "tcp"
		}
		g.log.add(map[string]any{"ev": "hEnter", "q": lab, "k": hk})
		g.ping()
		if ch != nil {
			<-ch
		}
		if i := strings.LastIndex(lab, "-d"); i > 0 { // t-<conn>-<n>-d<ms>: a slow handler that needs no driver
			ms := 0
			_, _ = fmt.Sscanf(lab[i:], "-d%d", &ms)
			time.Sleep(time.Duration(ms) * time.Millisecond)
		}
		k, c := "udp", ""
		if strings.HasPrefix(lab, "t-") {
			k = "tcp"
			if p := strings.Split(lab, "-"); len(p) >= 3 {
				c = p[1]
			}
		}
		g.log.add(map[string]any{"ev": "hExit", "q": lab, "k": k, "c": c, "parked": ch != nil})
		g.mu.Lock()
		g.left[lab] = true
		g.mu.Unlock()
	case strings.HasPrefix(lab, "d"):
		ms := 0
		_, _ = fmt.Sscanf(lab, "d%d-", &ms)
		g.log.add(map[string]any{"ev": "hEnter", "q": lab, "k": "udp"})
		time.Sleep(time.Duration(ms) * time.Millisecond)
		g.log.add(map[string]any{"ev": "hExit", "q": lab, "k": "udp", "c": "", "parked": false})
	}
	m := new(dns.Msg)
	m.SetReply(req)
	m.RecursionAvailable = true
	m.Answer = []dns.RR{&dns.A{Hdr: dns.RR_Header{Name: q.Name, Rrtype: dns.TypeA, Class: dns.ClassINET, Ttl: 300},
		A: net.IPv4(10, 9, 8, 7)}}
	return m
}

// release lets one parked query go; false when it is not parked.
func (g *tailGate) release(lab string) bool {
	g.mu.Lock()
	ch, ok := g.waiting[lab]
	if ok {
		delete(g.waiting, lab)
	}
	g.mu.Unlock()
	if ok {
		close(ch)
	}
	return ok
}

func (g *tailGate) openAll() {
	g.mu.Lock()
	g.open = true
	w := g.waiting
	g.waiting = map[string]chan struct{}{}
	for lab := range w {
		k, c := "udp", ""
		if strings.HasPrefix(lab, "t-") {
			k = "tcp"
			if p := strings.Split(lab, "-"); len(p) >= 3 {
				c = p[1]
			}
		}
		g.log.add(map[string]any{"ev": "hRel", "k": k, "j": 0, "c": c, "q": lab})
	}
	g.mu.Unlock()
	for _, ch := range w {
		close(ch)
	}
}

// parked returns the labels blocked in the handler right now, sorted.
func (g *tailGate) parked() []string {
	g.mu.Lock()
	defer g.mu.Unlock()
	out := make([]string, 0, len(g.waiting))
	for k := range g.waiting {
		out = append(out, k)
	}
	sort.Strings(out)
	return out
}

// ---------------------------------------------------------------------------
// the UDP trace hook: recorder + gate

var evNames = map[uint8]string{
	1: "take", 2: "trans", 3: "queued", 4: "overflow", 5: "stage", 6: "burstAdd",
	7: "sendNow", 8: "sendDirect", 9: "sendBatch", 10: "release",
}
var stNames = [...]string{"free", "reading", "queued", "serving"}

func stName(s uint8) string {
	if int(s) < len(stNames) {
		return stNames[s]
	}
	return fmt.Sprintf("state%d", s)
}

// sig names a gate: the hook point, the transition asked for, the slab
// (0: any).
type sig struct {
	Ev   string `json:"ev"`
	From string `json:"from"`
	To   string `json:"to"`
	Slab int    `json:"slab"`
}

func (s sig) String() string { return fmt.Sprintf("%s(%s->%s)#%d", s.Ev, s.From, s.To, s.Slab) }

type parkedEv struct {
	sig  sig
	name string
	ch   chan struct{}
}

type hooks struct {
	mu      sync.Mutex
	engine  uintptr
	gating  bool
	slabs   map[uintptr]int
	rxName  map[int]string // the query sitting in a slab's RX right now
	parked  []*parkedEv
	note    chan struct{}
	log     *evlog
	foreign int
}

func newHooks(log *evlog, gating bool) *hooks {
	return &hooks{slabs: map[uintptr]int{}, rxName: map[int]string{}, note: make(chan struct{}, 1), log: log, gating: gating}
}

func (h *hooks) ping() {
	select {
	case h.note <- struct{}{}:
	default:
	}
}

// qLabel extracts the first label of the question of a raw packet.
func qLabel(b []byte) string {
	if len(b) < 13 {
		return ""
	}
	n := int(b[12])
	if n == 0 || n&0xC0 != 0 || 13+n > len(b) {
		return ""
	}
	return strings.ToLower(string(b[13 : 13+n]))
}

func isGate(ev uint8, from, to uint8) bool {
	switch ev {
	case 3, 4, 10:
		return true
	case 2:
		return to != 0 // every transition but the one at the top of release()
	}
	return false
}

func (h *hooks) fn(e *server.VerifUDPEvent) {
	h.mu.Lock()
	if h.engine == 0 {
		h.engine = e.Engine
	}
	if e.Engine != h.engine {
		h.foreign++
		h.mu.Unlock()
		return
	}
	j, ok := h.slabs[e.Slab]
	if !ok {
		j = len(h.slabs) + 1
		h.slabs[e.Slab] = j
	}
	name := ""
	if len(e.Rx) > 0 {
		name = qLabel(e.Rx)
		if len(e.Rx) >= 3 && e.Rx[2]&0x80 != 0 {
			name = "qr"
		}
		h.rxName[j] = name
	}
	ln := map[string]any{"ev": evNames[e.Ev], "j": j, "st": stName(e.State), "from": stName(e.From), "to": stName(e.To),
		"ls": e.Leased, "if": e.InFlight, "q": name, "b": e.Burst, "rp": e.Replay, "tl": len(e.Tx)}
	h.log.add(ln)
	var p *parkedEv
	if h.gating && isGate(e.Ev, e.From, e.To) {
		s := sig{Ev: evNames[e.Ev], Slab: j}
		if e.Ev == 2 || e.Ev == 10 {
			s.From, s.To = stName(e.From), stName(e.To)
		}
		p = &parkedEv{sig: s, name: name, ch: make(chan struct{})}
		h.parked = append(h.parked, p)
	}
	h.mu.Unlock()
	if p != nil {
		h.ping()
		<-p.ch
	}
}

func (h *hooks) parkedSigs() []sig {
	h.mu.Lock()
	defer h.mu.Unlock()
	out := make([]sig, len(h.parked))
	for i, p := range h.parked {
		out[i] = p.sig
	}
	return out
}

func sigMatch(want, have sig) bool {
	if want.Ev != have.Ev || want.From != have.From || want.To != have.To {
		return false
	}
	return want.Slab == 0 || want.Slab == have.Slab
}

// grant lets the goroutine parked at a gate matching want pass; it returns
// the gate it opened.
func (h *hooks) grant(want sig) (sig, bool) {
	h.mu.Lock()
	for i, p := range h.parked {
		if sigMatch(want, p.sig) {
			h.parked = append(h.parked[:i], h.parked[i+1:]...)
			h.mu.Unlock()
			close(p.ch)
			return p.sig, true
		}
	}
	h.mu.Unlock()
	return sig{}, false
}

func (h *hooks) openAll() {
	h.mu.Lock()
	ps := h.parked
	h.parked = nil
	for _, p := range ps {
		h.log.add(map[string]any{"ev": "grant", "a": "open", "j": p.sig.Slab, "gev": p.sig.Ev, "from": p.sig.From, "to": p.sig.To})
	}
	if h.gating {
		h.log.add(map[string]any{"ev": "ungated"})
	}
	h.gating = false
	h.mu.Unlock()
	for _, p := range ps {
		close(p.ch)
	}
}

func (h *hooks) slabQuery(j int) string {
	h.mu.Lock()
	defer h.mu.Unlock()
	return h.rxName[j]
}

// ---------------------------------------------------------------------------
// the rig

type rigOpts struct {
	Portable  bool
	Cap       int // UDP slab cap
	Workers   int
	Queue     int
	TimeoutMs int
	TCPSmall  int
	TCPLarge  int
	TCPConns  int
	Gating    bool
}

type rig struct {
	o        rigOpts
	srv      *server.Server
	cfg      *config.Config
	tail     *pipe.Tail
	gate     *tailGate
	hk       *hooks
	log      *evlog
	cancel   context.CancelFunc
	udp      string
	tcp      string
	baseG    int
	t0       time.Time
	tCancel  time.Time
	cancelNs atomic.Int64 // tCancel for goroutines other than the driver's
}

var rigMu sync.Mutex

func newRig(o rigOpts) (*rig, error) {
	rigMu.Lock()
	defer rigMu.Unlock()
	if o.Workers <= 0 {
		o.Workers = 1
	}
	if o.Queue <= 0 {
		o.Queue = 1
	}
	cfg := pipe.BaseConfig()
	cfg.Bind = "127.0.0.1:0"
	cfg.AccessList = []string{"0.0.0.0/0", "::0/0"}
	cfg.IngressWorkers = o.Workers
	cfg.IngressQueue = o.Queue
	cfg.QueryTimeout.Duration = time.Duration(o.TimeoutMs) * time.Millisecond
	r := &rig{o: o, cfg: cfg, log: &evlog{}, t0: time.Now()}
	r.gate = newTailGate(r.log)
	r.hk = newHooks(r.log, o.Gating)
	r.tail = &pipe.Tail{Respond: r.gate.respond}
	middleware.Reset()
	defaults.RegisterUpTo("cache")
	middleware.Register("cache", func(c *config.Config) middleware.Handler { return cache.New(c) })
	middleware.Register("verif-tail", func(*config.Config) middleware.Handler { return r.tail })
	middleware.Setup(cfg)
	r.srv = server.New(cfg)
	// slabCap = queue + workers + sockets*reserve + spare; reserve is 16 on the
	// batched platforms and 1 elsewhere, whatever reader ends up running
	probe := server.VerifC10Opts{UDPSockets: 1, TCPConns: o.TCPConns, TCPSmall: o.TCPSmall, TCPLarge: o.TCPLarge,
		Portable: o.Portable}
	probe.UDPSpare = int64(o.Cap - (o.Queue + o.Workers + server.VerifX11drReaderReserve))
	if err := server.VerifC10Tune(r.srv, probe); err != nil {
		return nil, err
	}
	time.Sleep(2 * time.Millisecond)
	r.baseG = runtime.NumGoroutine()
	server.SetVerifUDPTrace(r.hk.fn)
	ctx, cancel := context.WithCancel(context.Background())
	r.cancel = cancel
	if err := r.srv.Run(ctx); err != nil {
		cancel()
		server.SetVerifUDPTrace(nil)
		return nil, err
	}
	deadline := time.Now().Add(5 * time.Second)
	for !(r.srv.HasListener("udp") && r.srv.HasListener("tcp")) && time.Now().Before(deadline) {
		time.Sleep(time.Millisecond)
	}
	r.udp, r.tcp, _ = server.VerifC10Addrs(r.srv)
	if r.udp == "" || r.tcp == "" {
		cancel()
		return nil, fmt.Errorf("listeners did not come up (udp=%q tcp=%q)", r.udp, r.tcp)
	}
	st := server.VerifC10Snapshot(r.srv)
	if int(st.UDPSlabCap) != o.Cap {
		cancel()
		return nil, fmt.Errorf("slab cap is %d, wanted %d", st.UDPSlabCap, o.Cap)
	}
	if st.UDPBatched == o.Portable {
		cancel()
		return nil, fmt.Errorf("reader kind: batched=%v, wanted portable=%v", st.UDPBatched, o.Portable)
	}
	return r, nil
}

// doCancel cancels the server's context (the shutdown begins).
func (r *rig) doCancel() {
	r.log.add(map[string]any{"ev": "cancel"})
	r.tCancel = time.Now()
	r.cancelNs.Store(r.tCancel.UnixNano())
	r.cancel()
}

// teardown opens every gate, cancels if that has not happened, waits for
// Stopped and unregisters the chain.
func (r *rig) teardown() (stopped bool) {
	r.hk.openAll()
	r.gate.openAll()
	if r.tCancel.IsZero() {
		r.doCancel()
	}
	stopped = waitFor(time.Duration(r.o.TimeoutMs)*time.Millisecond+8*time.Second, r.srv.Stopped)
	server.SetVerifUDPTrace(nil)
	rigMu.Lock()
	middleware.Reset()
	rigMu.Unlock()
	return stopped
}

// ---------------------------------------------------------------------------
// what the model is compared with

type obs struct {
	Leased    int  `json:"leased"`
	InFlight  int  `json:"inFlight"`
	Idle      int  `json:"idle"`
	Quiesced  bool `json:"quiesced"`
	Stopped   bool `json:"stopped"`
	SmallFree int  `json:"smallFree"`
	LargeFree int  `json:"largeFree"`
	Active    int  `json:"active"`
	Handlers  int  `json:"handlers"`
	// the shutdown's own progress, as far as it can be seen from outside
	RdExpired  bool `json:"rdExpired"`
	SockClosed bool `json:"sockClosed"`
	LnClosed   bool `json:"lnClosed"`
	TCPStopped bool `json:"tcpStopped"`
}

func (r *rig) observe() obs {
	st := server.VerifC10Snapshot(r.srv)
	o := r.observeCounters(st)
	if !r.tCancel.IsZero() {
		x := server.VerifX11drSnapshot(r.srv)
		o.SockClosed, o.LnClosed, o.TCPStopped = x.UDPSockClosed, x.TCPLnClosed, x.TCPStopped
		o.RdExpired = x.UDPClosing && r.readExpired()
	}
	return o
}

// readExpired probes the read deadline; the probe may have to wait for the
// engine's own read to be woken by that deadline, so it runs on the side.
func (r *rig) readExpired() bool {
	done := make(chan bool, 1)
	go func() { done <- server.VerifX11drReadExpired(r.srv) }()
	select {
	case v := <-done:
		return v
	case <-time.After(500 * time.Millisecond):
		return false
	}
}

func (r *rig) observeCounters(st server.VerifC10Stats) obs {
	return obs{Leased: int(st.UDPLeased), InFlight: int(st.UDPInFlight), Idle: st.UDPIdle,
		Quiesced: r.srv.Quiesced(), Stopped: r.srv.Stopped(),
		SmallFree: st.TCPSmallFree, LargeFree: st.TCPLargeFree, Active: int(st.TCPActive),
		Handlers: len(r.gate.parked())}
}

// ---------------------------------------------------------------------------
// clients

type udpClient struct {
	conn   *net.UDPConn
	server *net.UDPAddr
	mu     sync.Mutex
	got    map[uint16]int
	names  map[uint16]string
	nextID uint16
	log    *evlog
	done   chan struct{}
}

func newUDPClient(addr string, log *evlog) (*udpClient, error) {
	ua, err := net.ResolveUDPAddr("udp", addr)
	if err != nil {
		return nil, err
	}
	conn, err := net.ListenUDP("udp", &net.UDPAddr{IP: net.IPv4(127, 0, 0, 1)})
	if err != nil {
		return nil, err
	}
	c := &udpClient{conn: conn, server: ua, got: map[uint16]int{}, names: map[uint16]string{}, nextID: 100, log: log,
		done: make(chan struct{})}
	go c.receiver()
	return c, nil
}

func (c *udpClient) receiver() {
	defer close(c.done)
	buf := make([]byte, 4096)
	for {
		n, _, err := c.conn.ReadFromUDP(buf)
		if err != nil {
			return
		}
		if n < 12 {
			continue
		}
		id := binary.BigEndian.Uint16(buf)
		c.mu.Lock()
		c.got[id]++
		c.mu.Unlock()
		c.log.add(map[string]any{"ev": "recv", "id": int(id), "q": qLabel(buf[:n])})
	}
}

// send transmits one query for label.zone (qr: a packet with QR set, which the
// engine ignores in silence) and returns its id.
func (c *udpClient) send(label string, qr bool) (uint16, error) {
	c.mu.Lock()
	id := c.nextID
	c.nextID++
	c.names[id] = label
	c.mu.Unlock()
	m := new(dns.Msg)
	m.SetQuestion(label+"."+zone, dns.TypeA)
	m.Id = id
	m.Response = qr
	b, err := m.Pack()
	if err != nil {
		return 0, err
	}
	c.log.add(map[string]any{"ev": "send", "id": int(id), "q": label, "qr": qr})
	_, err = c.conn.WriteToUDP(b, c.server)
	return id, err
}

func (c *udpClient) count(id uint16) int {
	c.mu.Lock()
	defer c.mu.Unlock()
	return c.got[id]
}

func (c *udpClient) close() {
	_ = c.conn.Close()
	<-c.done
}

type tcpClient struct {
	name   string
	conn   net.Conn
	mu     sync.Mutex
	frames []uint16 // ids of the frames received, in order
	eof    bool
	log    *evlog
	done   chan struct{}
}

func dialTCP(name, addr string, log *evlog) (*tcpClient, error) {
	conn, err := net.DialTimeout("tcp", addr, 3*time.Second)
	if err != nil {
		return nil, err
	}
	c := &tcpClient{name: name, conn: conn, log: log, done: make(chan struct{})}
	go c.reader()
	return c, nil
}

func (c *tcpClient) reader() {
	defer close(c.done)
	var pre [2]byte
	for {
		if _, err := io.ReadFull(c.conn, pre[:]); err != nil {
			c.mu.Lock()
			c.eof = true
			c.mu.Unlock()
			c.log.add(map[string]any{"ev": "tcpEOF", "c": c.name})
			return
		}
		body := make([]byte, binary.BigEndian.Uint16(pre[:]))
		if _, err := io.ReadFull(c.conn, body); err != nil {
			c.mu.Lock()
			c.eof = true
			c.mu.Unlock()
			c.log.add(map[string]any{"ev": "tcpEOF", "c": c.name, "mid": true})
			return
		}
		id := uint16(0)
		if len(body) >= 2 {
			id = binary.BigEndian.Uint16(body)
		}
		c.mu.Lock()
		c.frames = append(c.frames, id)
		c.mu.Unlock()
		c.log.add(map[string]any{"ev": "tcpRecv", "c": c.name, "id": int(id), "q": qLabel(body)})
	}
}

// frame builds one framed query; a large one carries EDNS padding that puts it
// in the engine's large class (> 2 KiB).
func frame(label string, id uint16, large bool) []byte {
	m := new(dns.Msg)
	m.SetQuestion(label+"."+zone, dns.TypeA)
	m.Id = id
	if large {
		o := &dns.OPT{Hdr: dns.RR_Header{Name: ".", Rrtype: dns.TypeOPT}}
		o.SetUDPSize(1232)
		o.Option = append(o.Option, &dns.EDNS0_PADDING{Padding: make([]byte, 2300)})
		m.Extra = append(m.Extra, o)
	}
	b, err := m.Pack()
	if err != nil {
		panic(err)
	}
	out := make([]byte, 2+len(b))
	binary.BigEndian.PutUint16(out, uint16(len(b)))
	copy(out[2:], b)
	return out
}

func (c *tcpClient) received() (ids []uint16, eof bool) {
	c.mu.Lock()
	defer c.mu.Unlock()
	return append([]uint16(nil), c.frames...), c.eof
}

func (c *tcpClient) close() {
	_ = c.conn.Close()
	<-c.done
}

// ---------------------------------------------------------------------------

func waitFor(d time.Duration, cond func() bool) bool {
	deadline := time.Now().Add(d)
	for i := 0; ; i++ {
		if cond() {
			return true
		}
		if time.Now().After(deadline) {
			return false
		}
		if i < 50 {
			time.Sleep(200 * time.Microsecond)
		} else {
			time.Sleep(2 * time.Millisecond)
		}
	}
}

func stacks() string {
	buf := make([]byte, 1<<20)
	buf = buf[:runtime.Stack(buf, true)]
	if len(buf) > 24000 {
		buf = buf[:24000]
	}
	return string(buf)
}

func goroutines() int { return runtime.NumGoroutine() }
