package x11dr

// spec -> code: behaviours of Drain.tla under SchedNext (TLC-chosen schedules:
// which gate opens next, when the clients send, when the handler returns,
// where in all that the cancel falls, whether the deadline passes) forced on
// the real server.Server.  After every controlled step the driver waits for
// the observable projection of the real server to reach the model's stable
// state (a difference that stays is drift), and evaluates the property
// predicates on what the real server did.

import (
	"fmt"
	"os"
	"sort"
	"strings"
	"testing"
	"time"

	"github.com/semihalev/sdns/server"
	"github.com/semihalev/sdns/verifharness/vh"
)

type expect struct {
	Obs    obs      `json:"obs"`
	Parked []sig    `json:"parked"`
	Closed []string `json:"closed"` // TCP connections the server has closed
}

type step struct {
	A      string   `json:"a"`
	Args   []string `json:"args"`
	Slab   int      `json:"slab"` // model slab the step is about (0: none)
	Gate   *sig     `json:"gate"`
	Expect expect   `json:"expect"`
}

type scenario struct {
	ID        string   `json:"id"`
	Mode      string   `json:"mode"` // portable | batch
	Cap       int      `json:"cap"`
	TimeoutMs int      `json:"timeoutMs"`
	TCPSmall  int      `json:"tcpSmall"`
	TCPLarge  int      `json:"tcpLarge"`
	TCPConns  int      `json:"tcpConns"`
	Tags      []string `json:"tags"`
	NoUDP     bool     `json:"noUDP"` // the model has no UDP side: the real engine runs free and is not compared
	Init      expect   `json:"init"`
	Steps     []step   `json:"steps"`
}

type replayInput struct {
	Scenarios []scenario `json:"scenarios"`
	TraceOut  string     `json:"traceOut"`
	SettleMs  int        `json:"settleMs"`
}

const clockMargin = 250 * time.Millisecond

type runner struct {
	sc      *scenario
	r       *rig
	res     *vh.Result
	uc      *udpClient
	tcs     map[string]*tcpClient
	tsent   map[string][]string // frames sent per connection (labels)
	tlast   map[string]time.Time
	m2r     map[int]int
	sentQ   []sentQuery
	nmiss   int
	settle  time.Duration
	late    bool
	aborted string
	stepNo  int
}

type sentQuery struct {
	id    uint16
	label string
	kind  string
}

func (x *runner) replayObj(what string) map[string]any {
	return map[string]any{"driver": "drain-replay", "scenario": x.sc, "at_step": x.stepNo, "what": what}
}

func (x *runner) violate(key, what string) {
	x.res.Violate("replay/"+key, fmt.Sprintf("[%s %s step %d] %s", x.sc.Mode, x.sc.ID, x.stepNo, what), x.replayObj(what))
}

// realSig translates a model gate into what the hook will show.
func (x *runner) realSig(s sig) sig {
	out := s
	out.Slab = 0
	if s.Slab != 0 && !(s.Ev == "trans" && s.From == "free") {
		out.Slab = x.m2r[s.Slab]
	}
	return out
}

func sigKey(s sig) string { return fmt.Sprintf("%s/%s/%s/%d", s.Ev, s.From, s.To, s.Slab) }

func (x *runner) parkedMatches(want []sig) bool {
	have := x.r.hk.parkedSigs()
	if len(have) != len(want) {
		return false
	}
	used := make([]bool, len(have))
	for _, w := range want {
		rw := x.realSig(w)
		found := false
		for i, h := range have {
			if !used[i] && sigMatch(rw, h) {
				used[i], found = true, true
				break
			}
		}
		if !found {
			return false
		}
	}
	return true
}

func (x *runner) closedSet() []string {
	var out []string
	for name, c := range x.tcs {
		if _, eof := c.received(); eof {
			out = append(out, name)
		}
	}
	sort.Strings(out)
	return out
}

// outstanding is what the driver itself is holding back right now: goroutines
// parked at a gate inside a counted job, and queries parked in the handler.
func (x *runner) outstanding() (counted []string, any []string) {
	for _, s := range x.r.hk.parkedSigs() {
		any = append(any, s.String())
		switch {
		case s.Ev == "queued" || s.Ev == "overflow":
			counted = append(counted, s.String())
		case (s.Ev == "trans" || s.Ev == "release") && (s.From == "queued" || s.From == "serving"):
			counted = append(counted, s.String())
		}
	}
	for _, q := range x.r.gate.parked() {
		counted = append(counted, "handler:"+q)
		any = append(any, "handler:"+q)
	}
	return counted, any
}

// check evaluates the predicates that need no model: Quiesced() / Stopped()
// against the work the driver is provably holding back.
func (x *runner) check() obs {
	counted, held := x.outstanding()
	o := x.r.observe()
	if o.Quiesced && len(counted) > 0 {
		x.violate("quiesced-while-owed", fmt.Sprintf("Quiesced() is true while work is outstanding (held back by the driver: %v); "+
			"inFlight=%d tcp small %d large %d", counted, o.InFlight, o.SmallFree, o.LargeFree))
	}
	if o.Stopped && len(held) > 0 && !x.late && !x.r.tCancel.IsZero() &&
		time.Since(x.r.tCancel) < time.Duration(x.sc.TimeoutMs)*time.Millisecond-clockMargin {
		x.violate("stopped-while-owed", fmt.Sprintf("Stopped() is true %v after the cancel (drain deadline %d ms) while the shutdown "+
			"still has work to wait for (held back by the driver: %v)", time.Since(x.r.tCancel).Round(time.Millisecond), x.sc.TimeoutMs, held))
	}
	x.r.log.add(map[string]any{"ev": "obs", "quiesced": o.Quiesced, "stopped": o.Stopped, "ls": o.Leased, "if": o.InFlight,
		"idle": o.Idle, "small": o.SmallFree, "large": o.LargeFree, "active": o.Active, "handlers": o.Handlers})
	return o
}

func (x *runner) matches(e *expect) (bool, obs) {
	o := x.r.observe()
	if x.sc.NoUDP {
		// the free-running engine's readers hold their armed slabs
		o.Leased, o.Idle = e.Obs.Leased, e.Obs.Idle
	}
	if o != e.Obs {
		return false, o
	}
	if !x.sc.NoUDP && !x.parkedMatches(e.Parked) {
		return false, o
	}
	want := append([]string(nil), e.Closed...)
	sort.Strings(want)
	if strings.Join(want, ",") != strings.Join(x.closedSet(), ",") {
		return false, o
	}
	return true, o
}

// settleTo waits for the real server to reach the model's stable state.
func (x *runner) settleTo(e *expect, what string) bool {
	var last obs
	ok := waitFor(x.settle, func() bool {
		m, o := x.matches(e)
		last = o
		return m
	})
	x.check()
	if !ok {
		var ps []string
		for _, s := range x.r.hk.parkedSigs() {
			ps = append(ps, s.String())
		}
		var want []string
		for _, s := range e.Parked {
			want = append(want, x.realSig(s).String())
		}
		x.res.DriftNote("[%s %s step %d %s] model %+v parked %v closed %v; code %+v parked %v closed %v handlers %v",
			x.sc.Mode, x.sc.ID, x.stepNo, what, e.Obs, want, e.Closed, last, ps, x.closedSet(), x.r.gate.parked())
		x.aborted = "drift"
	}
	return ok
}

func (x *runner) remap(model, real int) {
	if old, ok := x.m2r[model]; ok && old != real {
		for k, v := range x.m2r {
			if v == real {
				x.m2r[k] = old
			}
		}
	}
	x.m2r[model] = real
}

func (x *runner) clockOK() bool {
	if !x.r.tCancel.IsZero() && !x.late &&
		time.Since(x.r.tCancel) > time.Duration(x.sc.TimeoutMs)*time.Millisecond-clockMargin {
		return false
	}
	for name, t := range x.tlast {
		if _, eof := x.tcs[name].received(); !eof && time.Since(t) > 1500*time.Millisecond {
			return false // the engine's own first-read / idle timer is about to fire
		}
	}
	return true
}

func (x *runner) do(s *step) error {
	switch s.A {
	case "eClientSend":
		kind := s.Args[0]
		label, qr := "h-0", false
		switch kind {
		case "miss":
			x.nmiss++
			label = fmt.Sprintf("m-%d", x.nmiss)
		case "silent":
			label, qr = "x", true
		}
		id, err := x.uc.send(label, qr)
		if err != nil {
			return err
		}
		x.sentQ = append(x.sentQ, sentQuery{id, label, kind})
	case "eHandlerW", "eHandlerO":
		real := x.m2r[s.Slab]
		q := x.r.hk.slabQuery(real)
		x.r.log.add(map[string]any{"ev": "hRel", "k": "udp", "j": real, "c": "", "q": q})
		if !waitFor(x.settle, func() bool { return x.r.gate.release(q) }) {
			return fmt.Errorf("handler of %q (slab %d/%d) is not parked", q, s.Slab, real)
		}
	case "eHandlerC":
		c := s.Args[0]
		pre := "t-" + c + "-"
		x.r.log.add(map[string]any{"ev": "hRel", "k": "tcp", "j": 0, "c": c, "q": pre})
		ok := waitFor(x.settle, func() bool {
			for _, q := range x.r.gate.parked() {
				if strings.HasPrefix(q, pre) {
					return x.r.gate.release(q)
				}
			}
			return false
		})
		if !ok {
			return fmt.Errorf("no handler of connection %s is parked", c)
		}
		x.tlast[c] = time.Now()
	case "eDial":
		c := s.Args[0]
		tc, err := dialTCP(c, x.r.tcp, x.r.log)
		if err != nil {
			return err
		}
		x.r.log.add(map[string]any{"ev": "dial", "c": c})
		x.tcs[c] = tc
		x.tlast[c] = time.Now()
	case "eSendFrames":
		c := s.Args[0]
		var b []byte
		var labs, classes []string
		for _, cls := range s.Args[1:] {
			classes = append(classes, cls)
			n := len(x.tsent[c]) + 1
			lab := fmt.Sprintf("t-%s-%d", c, n)
			x.tsent[c] = append(x.tsent[c], lab)
			labs = append(labs, lab+":"+cls)
			b = append(b, frame(lab, uint16(n), cls == "large")...)
		}
		x.r.log.add(map[string]any{"ev": "frames", "c": c, "f": labs, "k": classes})
		if _, err := x.tcs[c].conn.Write(b); err != nil {
			return err
		}
		x.tlast[c] = time.Now()
	case "eClientClose":
		c := s.Args[0]
		x.r.log.add(map[string]any{"ev": "clientClose", "c": c})
		_ = x.tcs[c].conn.Close()
	case "eCancel":
		x.r.doCancel()
	case "eDeadlinePass":
		d := time.Until(x.r.tCancel.Add(time.Duration(x.sc.TimeoutMs)*time.Millisecond + 60*time.Millisecond))
		if d > 0 {
			time.Sleep(d)
		}
		x.late = true
		x.r.log.add(map[string]any{"ev": "late"})
	case "eGiveUpPass":
		time.Sleep(2100 * time.Millisecond)
		x.r.log.add(map[string]any{"ev": "late2"})
	case "eTrim":
		n := server.VerifX11drTrim(x.r.srv)
		x.r.log.add(map[string]any{"ev": "trim", "n": n})
	default:
		if s.Gate == nil {
			return fmt.Errorf("unknown step %s", s.A)
		}
		want := x.realSig(*s.Gate)
		var got sig
		ok := waitFor(x.settle, func() bool {
			g, ok := x.r.hk.grant(want)
			got = g
			return ok
		})
		if !ok {
			return fmt.Errorf("no goroutine parked at gate %s", want)
		}
		if s.A == "gArm" {
			x.remap(s.Slab, got.Slab)
		}
		// what the goroutine does up to its next blocking point may be invisible (a take
		// that fails on the cap): give it a moment before the next gate opens
		time.Sleep(400 * time.Microsecond)
		x.r.log.add(map[string]any{"ev": "grant", "a": s.A, "j": got.Slab, "gev": got.Ev, "from": got.From, "to": got.To})
	}
	return nil
}

func (x *runner) run() {
	sc := x.sc
	r, err := newRig(rigOpts{Portable: sc.Mode == "portable", Cap: sc.Cap, TimeoutMs: sc.TimeoutMs,
		TCPSmall: sc.TCPSmall, TCPLarge: sc.TCPLarge, TCPConns: sc.TCPConns, Gating: !sc.NoUDP})
	if err != nil {
		x.res.Skip("rig %s: %v", sc.ID, err)
		return
	}
	x.r = r
	x.uc, err = newUDPClient(r.udp, r.log)
	if err != nil {
		x.res.Skip("udp client: %v", err)
		r.teardown()
		return
	}
	// prime the hit name through TCP: the UDP engine is already held at its first gate
	primed := false
	if pc, err := dialTCP("prime", r.tcp, &evlog{}); err == nil {
		_, _ = pc.conn.Write(frame("h-0", 7, false))
		primed = waitFor(3*time.Second, func() bool { ids, _ := pc.received(); return len(ids) == 1 })
		pc.close()
	}
	if !primed || !waitFor(3*time.Second, func() bool {
		o := r.observe()
		return o.Active == 0 && o.SmallFree == sc.TCPSmall && o.LargeFree == sc.TCPLarge
	}) {
		x.res.Skip("priming failed in %s", sc.ID)
		x.uc.close()
		r.teardown()
		return
	}
	r.log.add(map[string]any{"ev": "begin", "id": sc.ID, "mode": sc.Mode})

	x.stepNo = 0
	if x.settleTo(&sc.Init, "init") {
		for i := range sc.Steps {
			x.stepNo = i + 1
			s := &sc.Steps[i]
			if s.A != "eDeadlinePass" && !x.clockOK() {
				x.aborted = "clock"
				break
			}
			if err := x.do(s); err != nil {
				x.res.DriftNote("[%s %s step %d %s] cannot be forced on the code: %v", sc.Mode, sc.ID, x.stepNo, s.A, err)
				x.aborted = "drift"
				break
			}
			if !x.settleTo(&s.Expect, s.A) {
				break
			}
			x.res.Count("steps", 1)
		}
	}
	x.finish()
}

// finish lets everything go, stops the server and evaluates what must hold
// after any load and any stop point.
func (x *runner) finish() {
	r, sc := x.r, x.sc
	x.stepNo = -1
	midCancel := !r.tCancel.IsZero()
	r.hk.openAll()
	r.gate.openAll()
	if !midCancel {
		// a behaviour that ended before the cancel: let the load finish, then stop
		waitFor(3*time.Second, func() bool { return r.srv.Quiesced() })
	}
	for _, c := range x.tcs {
		_ = c.conn.Close()
	}
	stopped := r.teardown()
	elapsed := time.Since(r.tCancel)
	r.log.add(map[string]any{"ev": "stopped", "ok": stopped, "ms": elapsed.Milliseconds()})
	if !stopped {
		x.violate("never-stopped", fmt.Sprintf("Stopped() is still false %v after the cancel with every handler returned and every client gone "+
			"(drain deadline %d ms): %+v %+v\n%s", elapsed.Round(time.Millisecond), sc.TimeoutMs, r.observe(), server.VerifX11drSnapshot(r.srv), stacks()))
	}
	st := server.VerifX11drSnapshot(r.srv)
	// every reply at most once; exactly once for what a clean drain admitted
	time.Sleep(5 * time.Millisecond)
	sends := map[string]int{}
	admitted := map[string]bool{}
	admittedHits := 0
	for _, ln := range r.log.snapshot() {
		ev, _ := ln["ev"].(string)
		q, _ := ln["q"].(string)
		switch ev {
		case "sendBatch", "sendDirect", "sendNow":
			sends[q]++
		case "queued":
			admitted[q] = true
			if q == "h-0" && ln["rp"] != true {
				admittedHits++
			}
		case "trans":
			if ln["from"] == "reading" && ln["to"] == "serving" {
				admitted[q] = true
				if q == "h-0" {
					admittedHits++
				}
			}
		}
	}
	cleanUDP := stopped && st.UDPDrainErr == ""
	if cleanUDP {
		waitFor(2*time.Second, func() bool {
			for _, q := range x.sentQ {
				if q.kind != "silent" && admitted[q.label] && x.uc.count(q.id) == 0 {
					return false
				}
			}
			return true
		})
	}
	hits := 0
	for _, q := range x.sentQ {
		n := x.uc.count(q.id)
		if n > 1 {
			x.violate("reply-twice", fmt.Sprintf("UDP query %s (id %d) was answered %d times", q.label, q.id, n))
		}
		if q.kind == "silent" && n > 0 {
			x.violate("silent-answered", fmt.Sprintf("a packet with QR set (id %d) was answered", q.id))
		}
		if q.kind == "hit" {
			hits++
			continue // several hit queries share the label: counted together below
		}
		if cleanUDP && q.kind == "miss" && admitted[q.label] && n != 1 {
			x.violate("reply-lost", fmt.Sprintf("UDP query %s (id %d) was read and queued by the engine, the listener drained without "+
				"a deadline error, and the client has %d replies (engine sends recorded: %d)", q.label, q.id, n, sends[q.label]))
		}
	}
	if cleanUDP && hits > 0 {
		got := 0
		for _, q := range x.sentQ {
			if q.kind == "hit" {
				got += x.uc.count(q.id)
			}
		}
		if got != admittedHits {
			x.violate("reply-lost", fmt.Sprintf("the engine admitted %d queries for the cached name (sends recorded: %d) and the client "+
				"has %d replies; the listener drained without a deadline error", admittedHits, sends["h-0"], got))
		}
	}
	for name, c := range x.tcs {
		c.close()
		ids, _ := c.received()
		seen := map[uint16]int{}
		for k, id := range ids {
			seen[id]++
			if seen[id] > 1 {
				x.violate("tcp-reply-twice", fmt.Sprintf("connection %s: frame %d was answered twice (%v)", name, id, ids))
			}
			if int(id) != k+1 {
				x.violate("tcp-order", fmt.Sprintf("connection %s: replies out of query order: %v", name, ids))
				break
			}
		}
	}
	x.uc.close()

	home := waitFor(4*time.Second, func() bool {
		o := r.observe()
		return o.Leased == 0 && o.InFlight == 0 && o.SmallFree == sc.TCPSmall && o.LargeFree == sc.TCPLarge &&
			o.Active == 0 && o.Quiesced && o.Handlers == 0
	})
	o := r.observe()
	st = server.VerifX11drSnapshot(r.srv)
	if stopped && !home {
		x.violate("not-home", fmt.Sprintf("after the stop, with every handler returned: leased=%d inFlight=%d tcp small %d/%d large %d/%d "+
			"active=%d Quiesced=%v (want 0, 0, all tokens, 0, true)", o.Leased, o.InFlight, o.SmallFree, sc.TCPSmall, o.LargeFree,
			sc.TCPLarge, o.Active, o.Quiesced))
	}
	if stopped && (st.Running != 0 || !st.SupDone || !st.UDPSockClosed || !st.TCPLnClosed || !st.TCPStopped || st.TCPRegistry != 0) {
		x.violate("stopped-unsound", fmt.Sprintf("Stopped() is true with %+v", st))
	}
	if stopped {
		acc, lnClosed, err := server.VerifX11drStartAccepting(r.srv)
		if err == nil && (acc || !lnClosed) {
			x.violate("accept-after-stop", fmt.Sprintf("startAccepting after the shutdown: accepted=%v, refused listener closed=%v", acc, lnClosed))
		}
	}
	gOK := waitFor(5*time.Second, func() bool { return goroutines() <= r.baseG })
	if stopped && !gOK {
		x.violate("goroutines", fmt.Sprintf("goroutines did not return to the count before Run: %d > %d\n%s", goroutines(), r.baseG, stacks()))
	}
	r.log.add(map[string]any{"ev": "final", "ls": o.Leased, "if": o.InFlight, "idle": o.Idle, "small": o.SmallFree,
		"large": o.LargeFree, "active": o.Active, "stopped": stopped, "goroutines": goroutines() - r.baseG,
		"udpErr": st.UDPDrainErr, "tcpErr": st.TCPDrainErr})
}

func TestDrainReplay(t *testing.T) {
	var in replayInput
	vh.Input(t, &in)
	res := vh.NewResult()
	defer res.Write(t)
	runReplay(t, &in, res)
}

func runReplay(t *testing.T, in *replayInput, res *vh.Result) {
	if in.TraceOut != "" {
		_ = os.Remove(in.TraceOut)
	}
	for i := range in.Scenarios {
		sc := &in.Scenarios[i]
		x := &runner{sc: sc, res: res, tcs: map[string]*tcpClient{}, tsent: map[string][]string{}, tlast: map[string]time.Time{},
			m2r: map[int]int{}, settle: time.Duration(in.SettleMs) * time.Millisecond}
		if x.settle <= 0 {
			x.settle = 3 * time.Second
		}
		x.run()
		if x.r == nil {
			continue
		}
		res.Case(sc.Mode + "/" + strings.Join(sc.Tags, "+"))
		res.Count("scenarios_"+sc.Mode, 1)
		switch x.aborted {
		case "":
			res.Count("completed", 1)
		case "clock":
			res.Count("aborted_clock", 1)
		default:
			res.Count("aborted_drift", 1)
		}
		for _, tg := range sc.Tags {
			res.Count("tag_"+tg, 1)
		}
		if i < 2 {
			res.Sample(map[string]any{"scenario": sc.ID, "mode": sc.Mode, "tags": sc.Tags, "steps": len(sc.Steps), "aborted": x.aborted})
		}
		if in.TraceOut != "" {
			hdr := &evlog{}
			hdr.add(map[string]any{"ev": "reset", "id": sc.ID, "mode": sc.Mode, "cap": sc.Cap, "small": sc.TCPSmall, "large": sc.TCPLarge,
				"conns": sc.TCPConns, "aborted": x.aborted, "gated": !sc.NoUDP, "free": false})
			if _, err := hdr.appendTo(in.TraceOut); err != nil {
				t.Fatalf("trace: %v", err)
			}
			n, err := x.r.log.appendTo(in.TraceOut)
			if err != nil {
				t.Fatalf("trace: %v", err)
			}
			res.Count("trace_lines", n+1)
		}
	}
}
