package x11dr

// code -> spec: a free-running concurrent load (one UDP sender, TCP clients
// that pipeline / stay silent / leave) against the real server, cancelled at a
// seeded random point.  Nothing is gated: the hook only records.  Every event
// carries one harness-side sequence number; a sampler brackets its
// Quiesced() / Stopped() calls.  The recorded run is judged directly here
// (predicates on the history) and by TLC against Trace_Drain.tla.

import (
	"fmt"
	"math/rand"
	"os"
	"strings"
	"sync"
	"testing"
	"time"

	"github.com/semihalev/sdns/server"
	"github.com/semihalev/sdns/verifharness/vh"
)

type stressInput struct {
	Rounds    int    `json:"rounds"`
	Packets   int    `json:"packets"`
	TimeoutMs int    `json:"timeoutMs"`
	TraceOut  string `json:"traceOut"` // <TraceOut>.<mode>.ndjson per reader kind
}

type window struct {
	a, b int64
	what string
}

func TestDrainStress(t *testing.T) {
	var in stressInput
	vh.Input(t, &in)
	res := vh.NewResult()
	defer res.Write(t)
	runStress(t, &in, res)
}

func runStress(t *testing.T, in *stressInput, res *vh.Result) {
	seed := vh.Seed()
	for _, m := range []string{"portable", "batch"} {
		_ = os.Remove(in.TraceOut + "." + m + ".ndjson")
	}
	for round := 0; round < in.Rounds; round++ {
		rng := rand.New(rand.NewSource(seed*7919 + int64(round)))
		mode := []string{"portable", "batch"}[round%2]
		stressRound(t, in, res, rng, round, mode)
	}
}

func stressRound(t *testing.T, in *stressInput, res *vh.Result, rng *rand.Rand, round int, mode string) {
	const capSlabs = 3
	r, err := newRig(rigOpts{Portable: mode == "portable", Cap: capSlabs, TimeoutMs: in.TimeoutMs,
		TCPSmall: 1, TCPLarge: 1, TCPConns: 2, Gating: false})
	if err != nil {
		res.Skip("rig: %v", err)
		return
	}
	r.gate.openAll()
	viol := func(key, what string) {
		res.Violate("stress/"+key, fmt.Sprintf("[stress %s round %d] %s", mode, round, what),
			map[string]any{"driver": "drain-stress", "seed": vh.Seed(), "round": round, "mode": mode, "what": what,
				"tail": tailOf(r.log, 120)})
	}
	// prime the hit name through TCP, before anything is recorded as load
	if pc, err := dialTCP("prime", r.tcp, &evlog{}); err == nil {
		_, _ = pc.conn.Write(frame("h-0", 7, false))
		waitFor(3*time.Second, func() bool { ids, _ := pc.received(); return len(ids) == 1 })
		pc.close()
	}
	if !waitFor(3*time.Second, func() bool { o := r.observe(); return o.Active == 0 && o.SmallFree == 1 && o.LargeFree == 1 }) {
		res.Skip("priming failed")
		r.teardown()
		return
	}
	uc, err := newUDPClient(r.udp, r.log)
	if err != nil {
		res.Skip("udp client: %v", err)
		r.teardown()
		return
	}
	r.log.add(map[string]any{"ev": "begin", "id": fmt.Sprintf("stress-%d", round), "mode": mode})

	// sampler: brackets every call
	var wmu sync.Mutex
	var qTrue, sTrue []window
	srng := rand.New(rand.NewSource(rng.Int63()))
	stopSampler := make(chan struct{})
	samplerDone := make(chan struct{})
	go func() {
		defer close(samplerDone)
		for {
			select {
			case <-stopSampler:
				return
			default:
			}
			a := r.log.add(map[string]any{"ev": "qs"})
			q := r.srv.Quiesced()
			if q {
				b := r.log.add(map[string]any{"ev": "oq"})
				wmu.Lock()
				qTrue = append(qTrue, window{a, b, ""})
				wmu.Unlock()
			} else {
				r.log.add(map[string]any{"ev": "qf"})
			}
			if r.srv.Stopped() {
				b := r.log.add(map[string]any{"ev": "os"})
				wmu.Lock()
				sTrue = append(sTrue, window{a, b, ""})
				wmu.Unlock()
				return
			}
			if ns := r.cancelNs.Load(); ns != 0 && time.Since(time.Unix(0, ns)) > 60*time.Millisecond {
				time.Sleep(15 * time.Millisecond) // a long drain (a silent client): sample sparsely
			} else {
				time.Sleep(time.Duration(300+srng.Intn(1500)) * time.Microsecond)
			}
		}
	}()

	var wg sync.WaitGroup
	var sent []sentQuery
	var smu sync.Mutex
	cancelAfter := time.Duration(3+rng.Intn(25)) * time.Millisecond
	wg.Add(1)
	go func() { // the one UDP sender: kernel order == log order
		defer wg.Done()
		prng := rand.New(rand.NewSource(rng.Int63()))
		for i := 1; i <= in.Packets; i++ {
			var label, kind string
			qr := false
			switch prng.Intn(10) {
			case 0, 1, 2:
				label, kind = "h-0", "hit"
			case 3:
				label, kind, qr = "x", "silent", true
			case 4, 5, 6:
				label, kind = fmt.Sprintf("m-%d", i), "miss"
			default:
				label, kind = fmt.Sprintf("d%d-%d", 1+prng.Intn(4), i), "miss"
			}
			id, err := uc.send(label, qr)
			if err != nil {
				return
			}
			smu.Lock()
			sent = append(sent, sentQuery{id, label, kind})
			smu.Unlock()
			if round%4 >= 2 { // sparse rounds: the engine mostly sees one datagram at a time
				time.Sleep(time.Duration(300+prng.Intn(1500)) * time.Microsecond)
			} else if prng.Intn(3) == 0 {
				time.Sleep(time.Duration(prng.Intn(1500)) * time.Microsecond)
			}
		}
	}()
	tcs := map[string]*tcpClient{}
	var tmu sync.Mutex
	tframes := map[string]int{}
	// TCP clients act before the cancel only (afterwards they may leave): every TCP step of the server is
	// unobserved, and a trace with client activity racing the shutdown chain costs the validation a search
	// through all of their interleavings
	for _, name := range []string{"c1", "c2", "c3"} {
		wg.Add(1)
		go func(name string, prng *rand.Rand) {
			defer wg.Done()
			time.Sleep(time.Duration(prng.Intn(2500)) * time.Microsecond)
			if r.cancelNs.Load() != 0 {
				return
			}
			c, err := dialTCP(name, r.tcp, r.log)
			if err != nil {
				r.log.add(map[string]any{"ev": "dialFailed", "c": name}) // the listener is already closed
				return
			}
			r.log.add(map[string]any{"ev": "dial", "c": name})
			tmu.Lock()
			tcs[name] = c
			tmu.Unlock()
			n := 0
			for burst := 0; burst < 1+prng.Intn(3); burst++ {
				k := 1 + prng.Intn(2)
				var b []byte
				var classes []string
				for i := 0; i < k; i++ {
					n++
					cls := "small"
					if prng.Intn(4) == 0 {
						cls = "large"
					}
					classes = append(classes, cls)
					lab := fmt.Sprintf("t-%s-%d-d%d", name, n, prng.Intn(3))
					b = append(b, frame(lab, uint16(n), cls == "large")...)
				}
				if r.cancelNs.Load() != 0 {
					break
				}
				r.log.add(map[string]any{"ev": "frames", "c": name, "k": classes})
				if _, err := c.conn.Write(b); err != nil {
					break
				}
				tmu.Lock()
				tframes[name] = n
				tmu.Unlock()
				if prng.Intn(2) == 0 {
					want := n
					waitFor(200*time.Millisecond, func() bool { ids, eof := c.received(); return eof || len(ids) >= want })
				}
			}
			// most clients leave (some before, some after the cancel); the rest stay silent and are
			// the shutdown's to deal with (first-read / idle timer, or the force at the deadline)
			if prng.Intn(5) != 0 {
				time.Sleep(time.Duration(prng.Intn(30000)) * time.Microsecond)
				r.log.add(map[string]any{"ev": "clientClose", "c": name})
				_ = c.conn.Close()
			}
		}(name, rand.New(rand.NewSource(rng.Int63())))
	}
	time.Sleep(cancelAfter)
	r.doCancel()
	wg.Wait()
	stopped := waitFor(time.Duration(in.TimeoutMs)*time.Millisecond+6*time.Second, r.srv.Stopped)
	<-samplerDone
	close(stopSampler)
	tStop := time.Since(r.tCancel)
	st := server.VerifX11drSnapshot(r.srv)
	time.Sleep(3 * time.Millisecond)

	// ---- the history, judged directly --------------------------------------
	lines := r.log.snapshot()
	type span struct{ a, b int64 }
	udpJobs := map[int]span{} // slab -> counted from its queued / inline-begin hook ...
	var udpSpans []span       // ... to its release hook (the count goes down after that)
	handler := map[string]int64{}
	var tcpSpans []span
	admitted := map[string]int{}
	sends := map[string]int{}
	var lastHook int64
	for _, ln := range lines {
		ev, _ := ln["ev"].(string)
		seq, _ := ln["seq"].(int64)
		q, _ := ln["q"].(string)
		j, _ := ln["j"].(int)
		switch ev {
		case "queued":
			if rp, _ := ln["rp"].(bool); !rp {
				udpJobs[j] = span{seq, 0}
				admitted[q]++
			}
		case "trans":
			if ln["from"] == "reading" && ln["to"] == "serving" {
				udpJobs[j] = span{seq, 0}
				admitted[q]++
			}
		case "release":
			if ln["from"] == "serving" {
				if s, ok := udpJobs[j]; ok {
					udpSpans = append(udpSpans, span{s.a, seq})
					delete(udpJobs, j)
				}
			}
		case "sendBatch", "sendDirect", "sendNow":
			sends[q]++
		case "hEnter":
			if strings.HasPrefix(q, "t-") {
				handler[q] = seq
			}
		case "hExit":
			if a, ok := handler[q]; ok {
				tcpSpans = append(tcpSpans, span{a, seq})
				delete(handler, q)
			}
		}
		switch ev {
		case "take", "trans", "queued", "overflow", "stage", "burstAdd", "sendNow", "sendDirect", "sendBatch", "release":
			lastHook = seq
		}
	}
	for _, s := range udpJobs {
		udpSpans = append(udpSpans, span{s.a, 1 << 62})
	}
	for _, a := range handler {
		tcpSpans = append(tcpSpans, span{a, 1 << 62})
	}
	for _, w := range qTrue {
		for _, s := range udpSpans {
			if s.a < w.a && s.b > w.b {
				viol("quiesced-while-owed", fmt.Sprintf("Quiesced() returned true (call between seq %d and %d) while a UDP job was counted "+
					"in flight the whole time (queued at seq %d, released at seq %d)", w.a, w.b, s.a, s.b))
			}
		}
		for _, s := range tcpSpans {
			if s.a < w.a && s.b > w.b {
				viol("quiesced-while-owed", fmt.Sprintf("Quiesced() returned true (call between seq %d and %d) while a TCP frame was in "+
					"its handler, holding a job token, the whole time (seq %d to %d)", w.a, w.b, s.a, s.b))
			}
		}
	}
	clean := stopped && st.UDPDrainErr == ""
	if clean && len(sTrue) > 0 && lastHook > sTrue[0].b {
		viol("work-after-stopped", fmt.Sprintf("Stopped() was true at seq %d, the UDP listener drained without a deadline error, and the "+
			"engine still moved a job afterwards (last hook event at seq %d)", sTrue[0].b, lastHook))
	}
	if !stopped {
		viol("never-stopped", fmt.Sprintf("Stopped() is still false %v after the cancel (drain deadline %d ms), every handler returns within "+
			"milliseconds: %+v %+v\n%s", tStop.Round(time.Millisecond), in.TimeoutMs, r.observe(), st, stacks()))
	}
	// replies
	if clean {
		waitFor(time.Second, func() bool {
			for _, q := range sent {
				if q.kind == "miss" && admitted[q.label] > 0 && uc.count(q.id) == 0 {
					return false
				}
			}
			return true
		})
	}
	hitReplies := 0
	for _, q := range sent {
		n := uc.count(q.id)
		if n > 1 {
			viol("reply-twice", fmt.Sprintf("UDP query %s (id %d) was answered %d times", q.label, q.id, n))
		}
		if q.kind == "silent" && n > 0 {
			viol("silent-answered", fmt.Sprintf("a packet with QR set (id %d) was answered", q.id))
		}
		if q.kind == "hit" {
			hitReplies += n
		}
		if clean && q.kind == "miss" && admitted[q.label] > 0 && n != 1 {
			viol("reply-lost", fmt.Sprintf("UDP query %s (id %d) was admitted by the engine, the listener drained without a deadline "+
				"error, and the client has %d replies (engine sends recorded: %d)", q.label, q.id, n, sends[q.label]))
		}
	}
	if clean && hitReplies != admitted["h-0"] {
		viol("reply-lost", fmt.Sprintf("the engine admitted %d queries for the cached name and the client has %d replies; the listener "+
			"drained without a deadline error", admitted["h-0"], hitReplies))
	}
	for name, c := range tcs {
		c.close()
		ids, _ := c.received()
		for k, id := range ids {
			if int(id) != k+1 {
				viol("tcp-order", fmt.Sprintf("connection %s: replies are not one per query in order: %v", name, ids))
				break
			}
		}
		if len(ids) > tframes[name] {
			viol("tcp-reply-twice", fmt.Sprintf("connection %s: %d replies to %d frames", name, len(ids), tframes[name]))
		}
	}
	uc.close()
	stoppedT := r.teardown()
	home := waitFor(4*time.Second, func() bool {
		o := r.observe()
		return o.Leased == 0 && o.InFlight == 0 && o.SmallFree == 1 && o.LargeFree == 1 && o.Active == 0 && o.Quiesced
	})
	o := r.observe()
	st = server.VerifX11drSnapshot(r.srv)
	if stoppedT && !home {
		viol("not-home", fmt.Sprintf("after the stop: leased=%d inFlight=%d tcp small %d/1 large %d/1 active=%d Quiesced=%v",
			o.Leased, o.InFlight, o.SmallFree, o.LargeFree, o.Active, o.Quiesced))
	}
	if stoppedT && (st.Running != 0 || !st.SupDone || !st.UDPSockClosed || !st.TCPLnClosed || !st.TCPStopped || st.TCPRegistry != 0) {
		viol("stopped-unsound", fmt.Sprintf("Stopped() is true with %+v", st))
	}
	if stoppedT {
		if acc, lnClosed, err := server.VerifX11drStartAccepting(r.srv); err == nil && (acc || !lnClosed) {
			viol("accept-after-stop", fmt.Sprintf("startAccepting after the shutdown: accepted=%v, refused listener closed=%v", acc, lnClosed))
		}
	}
	if stoppedT && !waitFor(5*time.Second, func() bool { return goroutines() <= r.baseG }) {
		viol("goroutines", fmt.Sprintf("goroutines did not return to the count before Run: %d > %d\n%s", goroutines(), r.baseG, stacks()))
	}
	r.log.add(map[string]any{"ev": "final", "ls": o.Leased, "if": o.InFlight, "idle": o.Idle, "small": o.SmallFree,
		"large": o.LargeFree, "active": o.Active, "stopped": stoppedT, "udpErr": st.UDPDrainErr, "tcpErr": st.TCPDrainErr})

	res.Case(fmt.Sprintf("stress/%s/%s", mode, map[bool]string{true: "clean", false: "deadline"}[clean]))
	res.Count("rounds", 1)
	res.Count("rounds_"+mode, 1)
	res.Count("udp_sent", len(sent))
	res.Count("udp_admitted", len(udpSpans))
	res.Count("quiesced_true_samples", len(qTrue))
	res.Count("stopped_ms_max", 0)
	if clean {
		res.Count("clean_drains", 1)
	}
	if in.TraceOut != "" {
		hdr := &evlog{}
		hdr.add(map[string]any{"ev": "reset", "id": fmt.Sprintf("stress-%d", round), "mode": mode, "cap": capSlabs, "small": 1,
			"large": 1, "conns": 2, "gated": false, "free": true,
			"late": st.UDPDrainErr != "" || st.TCPDrainErr != "", "tmo": tStop > 1500*time.Millisecond})
		path := in.TraceOut + "." + mode + ".ndjson"
		if _, err := hdr.appendTo(path); err != nil {
			t.Fatalf("trace: %v", err)
		}
		n, err := r.log.appendTo(path)
		if err != nil {
			t.Fatalf("trace: %v", err)
		}
		res.Count("trace_lines", n+1)
		res.Count("traces", 1)
	}
}

func tailOf(l *evlog, n int) []map[string]any {
	s := l.snapshot()
	if len(s) > n {
		s = s[len(s)-n:]
	}
	return s
}
