// Package vh holds the small shared kit of the conformance drivers: JSON in /
// out, the result record the Python runner folds into the evidence file, and
// a seeded RNG.  Drivers are `go test` functions run by bin/check with
// VERIF_IN / VERIF_OUT set; a driver that cannot produce a result file is a
// machinery fault (exit 2), never a violation.
package vh

import (
	"encoding/json"
	"fmt"
	"math/rand"
	"os"
	"strconv"
	"sync"
	"testing"
)

// Violation is one property predicate that was false on the real code.
type Violation struct {
	Key    string `json:"key"`    // stable digest key (known-findings are matched on it)
	What   string `json:"what"`   // human readable
	Replay any    `json:"replay"` // enough to re-run exactly this case
}

// Result is what a driver reports.
type Result struct {
	mu         sync.Mutex
	Cases      int            `json:"cases"`
	Distinct   []string       `json:"distinct"`
	Drift      int            `json:"drift"`
	DriftNotes []string       `json:"drift_notes,omitempty"`
	Samples    []any          `json:"samples"`
	Violations []Violation    `json:"violations"`
	Counters   map[string]int `json:"counters,omitempty"`
	Skipped    []string       `json:"skipped,omitempty"`
	seen       map[string]bool
}

func NewResult() *Result {
	return &Result{seen: map[string]bool{}, Counters: map[string]int{}}
}

func (r *Result) Case(distinctKey string) {
	r.mu.Lock()
	defer r.mu.Unlock()
	r.Cases++
	if distinctKey != "" && !r.seen[distinctKey] && len(r.seen) < 200000 {
		r.seen[distinctKey] = true
		if len(r.Distinct) < 50000 {
			r.Distinct = append(r.Distinct, distinctKey)
		}
	}
}

func (r *Result) Count(name string, n int) {
	r.mu.Lock()
	r.Counters[name] += n
	r.mu.Unlock()
}

func (r *Result) Sample(s any) {
	r.mu.Lock()
	if len(r.Samples) < 4 {
		r.Samples = append(r.Samples, s)
	}
	r.mu.Unlock()
}

func (r *Result) DriftNote(format string, a ...any) {
	r.mu.Lock()
	r.Drift++
	if len(r.DriftNotes) < 10 {
		r.DriftNotes = append(r.DriftNotes, fmt.Sprintf(format, a...))
	}
	r.mu.Unlock()
}

func (r *Result) Skip(format string, a ...any) {
	r.mu.Lock()
	if len(r.Skipped) < 20 {
		r.Skipped = append(r.Skipped, fmt.Sprintf(format, a...))
	}
	r.mu.Unlock()
}

// Violate records a violation (at most 20 are kept, duplicates by key dropped).
func (r *Result) Violate(key, what string, replay any) {
	r.mu.Lock()
	defer r.mu.Unlock()
	for _, v := range r.Violations {
		if v.Key == key {
			return
		}
	}
	if len(r.Violations) < 20 {
		r.Violations = append(r.Violations, Violation{Key: key, What: what, Replay: replay})
	}
}

func (r *Result) NViolations() int {
	r.mu.Lock()
	defer r.mu.Unlock()
	return len(r.Violations)
}

// Input decodes VERIF_IN into v.
func Input(t testing.TB, v any) {
	p := os.Getenv("VERIF_IN")
	if p == "" {
		t.Skip("VERIF_IN not set: conformance drivers are run by /verif/bin/check")
	}
	b, err := os.ReadFile(p)
	if err != nil {
		t.Fatalf("read VERIF_IN: %v", err)
	}
	if err := json.Unmarshal(b, v); err != nil {
		t.Fatalf("decode VERIF_IN: %v", err)
	}
}

// Write stores the result at VERIF_OUT; the test fails (rc 1) iff there are violations.
func (r *Result) Write(t testing.TB) {
	p := os.Getenv("VERIF_OUT")
	if p == "" {
		t.Fatalf("VERIF_OUT not set")
	}
	r.mu.Lock()
	if r.Distinct == nil {
		r.Distinct = []string{}
	}
	if r.Samples == nil {
		r.Samples = []any{}
	}
	if r.Violations == nil {
		r.Violations = []Violation{}
	}
	b, err := json.Marshal(r)
	r.mu.Unlock()
	if err != nil {
		t.Fatalf("encode result: %v", err)
	}
	if err := os.WriteFile(p, b, 0o644); err != nil {
		t.Fatalf("write VERIF_OUT: %v", err)
	}
	if len(r.Violations) > 0 {
		t.Errorf("%d violation(s)", len(r.Violations))
	}
}

func Seed() int64 {
	s, err := strconv.ParseInt(os.Getenv("VERIF_SEED"), 10, 64)
	if err != nil {
		return 1
	}
	return s
}

func Rand() *rand.Rand { return rand.New(rand.NewSource(Seed())) }

func Thorough() bool { return os.Getenv("VERIF_TIER") == "thorough" }

func Scratch(t testing.TB) string {
	if d := os.Getenv("VERIF_SCRATCH"); d != "" {
		return d
	}
	return t.TempDir()
}
