package c19

// C19, last clause, RESOLVER tier of EcsDenial.tla: "... neither consumes nor creates shared synthesised denials,
// even through ... internal sub-queries".  The whole default chain (edns, cache, resolver, DNSSEC on) resolves
// against a scripted signed namespace (authkit):  . -> zc. -> b<i>.zc. (one zone per behaviour, so the proofs of one
// history never cover another's names).  Nothing exists below gone.b<i>.zc. at first: a plain query there comes back
// as a validated NXDOMAIN and the cache publishes the RFC 8020 cut (and the NSEC proof for RFC 8198).  The model's
// Birth step is the parent changing its mind: b<i>.zc. now DELEGATES gone.b<i>.zc. to a signed child that has the
// names asked for.  A validating request tree that gets past the cache's hit ladder after that is referred to the
// new zone, and to validate its answer the resolver reads the new zone's DNSKEY through the cache Store
// (Resolver.subQuery -> ContextStore.GetWithContext) -- a name that lies under the cut recorded before.
//
// What is judged (the statement's words only): during the request of a client that carried ECS (any option shape)
// or CD, the cache's own counters of answers synthesised from shared denial state (RFC 8020 cut hits incl. the
// Store's, RFC 8198 hits) do not move -- read through overlay/middleware/cache/verif_c19_shim.go, one client query
// in flight at a time; and a plain query is never answered from shared denial state that only ECS / CD trees can
// have created.  Replies and the authorities' query logs only tell the two sites apart and feed the counters.

import (
	"fmt"
	"os"
	"strings"
	"testing"
	"time"

	"github.com/miekg/dns"
	"github.com/semihalev/sdns/config"
	"github.com/semihalev/sdns/middleware/cache"
	"github.com/semihalev/sdns/verifharness/authkit"
	"github.com/semihalev/sdns/verifharness/pipe"
	"github.com/semihalev/sdns/verifharness/vh"
)

type denResIn struct {
	// steps as in TestEcsDenialBypass plus {"kind": "birth"}; Out is the model's expectation
	// (down | synth | pos | subsynth), Sub = the model has the tree read the new zone's DNSKEY under the cut
	Behaviours []denBehaviour `json:"behaviours"`
}

func denSharedHits() int64 {
	c, a := cache.VerifC19SharedDenialHits()
	return c + a
}

func TestEcsDenialResolver(t *testing.T) {
	var in denResIn
	vh.Input(t, &in)
	res := vh.NewResult()
	defer res.Write(t)
	// one scripted namespace per 50 behaviours: authkit hands out 245 glue addresses per Net, and every behaviour
	// takes up to four (a zone and a Birth for either policy)
	for off := 0; off < len(in.Behaviours); off += 50 {
		denResolverBatch(res, in.Behaviours[off:min(off+50, len(in.Behaviours))])
	}
}

func denResolverBatch(res *vh.Result, behaviours []denBehaviour) {
	n, err := authkit.NewNet(true)
	if err != nil {
		res.Skip("authkit: %v", err)
		return
	}
	defer n.Stop()
	if _, _, err := n.Delegate("zc.", authkit.DelegateOpts{Signed: true, PublishDS: true}); err != nil {
		res.Skip("authkit: %v", err)
		return
	}
	// every behaviour (x policy) owns a zone; all of them exist before the first query so zc. never changes
	type world struct {
		zone  *authkit.Zone
		apex  string
		alive bool
	}
	policies := []string{"off", "on"}
	worlds := map[string]*world{}
	var bsrv, gsrv *authkit.Server
	for _, p := range policies {
		for bi := range behaviours {
			apex := fmt.Sprintf("b%d%s.zc.", bi, p)
			z, srv, err := n.Delegate(apex, authkit.DelegateOpts{Signed: true, PublishDS: true, OnServer: bsrv})
			if err != nil {
				res.Skip("authkit: %v", err)
				return
			}
			bsrv = srv
			z.Add("www." + apex + " 300 IN A 192.0.2.10")
			worlds[p+fmt.Sprint(bi)] = &world{zone: z, apex: apex}
		}
	}
	for _, policy := range policies {
		dir, _ := os.MkdirTemp("", "verif-c19-dr-")
		s, _ := pipe.NewResolverServer(pipe.ResolverOpts{RootAddr: n.RootSrv.Addr, RootKeys: []string{n.Root.Keys[0].RR.String()},
			DNSSEC: true, Dir: dir, Mapper: n.Mapper(),
			Mutate: func(cfg *config.Config) {
				if policy == "on" {
					cfg.ECS.Enabled = true
					cfg.ECS.ClientNetworks = []string{"0.0.0.0/0", "::/0"}
				}
			}})
		for bi, b := range behaviours {
			w := worlds[policy+fmt.Sprint(bi)]
			gone := "gone." + w.apex
			hist := []string{}
			sharedByPlain := false // a plain, CD=0 tree has resolved a denial here: shared denial state may rightly exist
			for si, st := range b.Steps {
				if st.Kind == "birth" {
					gz, srv, err := n.Delegate(gone, authkit.DelegateOpts{Signed: true, PublishDS: true, OnServer: gsrv})
					if err != nil {
						res.Skip("authkit birth: %v", err)
						break
					}
					gsrv = srv
					for k := range b.Steps {
						gz.Add(fmt.Sprintf("s%d.%s 300 IN A 192.0.2.%d", k, gone, 20+k))
					}
					w.alive = true
					hist = append(hist, "birth")
					res.Count("births", 1)
					continue
				}
				qname := fmt.Sprintf("s%d.%s", si, gone)
				q := new(dns.Msg)
				q.SetQuestion(qname, dns.TypeA)
				q.RecursionDesired = true
				q.SetEdns0(1232, st.DO)
				q.AuthenticatedData = st.AD
				if st.Kind == "ecs" || st.Kind == "ecscd" {
					o := q.IsEdns0()
					o.Option = append(o.Option, denSubnet(st.Shape))
				}
				q.CheckingDisabled = st.Kind == "cd" || st.Kind == "ecscd"
				n.ResetLogs()
				before := denSharedHits()
				var r *dns.Msg
				if st.Born == "wire" {
					r = pipe.AskRaw(s, q, "udp", "203.0.113.5")
				} else {
					r = pipe.Ask(s, q, "udp", "203.0.113.5")
				}
				synth := denSharedHits() - before
				upstream, keyAsked := 0, false
				for _, e := range n.LogAll() {
					upstream++
					if e.Q.Qtype == dns.TypeDNSKEY && strings.EqualFold(e.Q.Name, gone) {
						keyAsked = true
					}
				}
				got := "none"
				if r != nil {
					switch {
					case r.Rcode == dns.RcodeNameError:
						got = "nx"
					case r.Rcode == dns.RcodeSuccess && len(r.Answer) > 0:
						got = "pos"
					default:
						got = strings.ToLower(dns.RcodeToString[r.Rcode])
					}
				}
				// what the real run did, in the model's vocabulary
				obs := map[string]string{"nx": "down", "pos": "pos"}[got]
				if synth > 0 && upstream == 0 {
					obs = "synth"
				} else if synth > 0 {
					obs = "subsynth"
				} else if obs == "" {
					obs = got
				}
				hist = append(hist, fmt.Sprintf("%s/%s->%s", denTag(st), st.Born, obs))
				res.Case(fmt.Sprintf("denres:%s:%v", policy, hist))
				res.Count("steps", 1)
				res.Count("obs/"+obs, 1)
				if r == nil {
					res.DriftNote("no reply for %s/%s (%v)", denTag(st), st.Born, hist)
					continue
				}
				replay := map[string]any{"driver": "ecs-denial-resolver", "policy": policy, "steps": b.Steps[:si+1], "history": hist}
				carried := st.Kind != "plain"
				switch {
				case carried && synth > 0 && upstream > 0:
					// resolution ran (the hit ladder let the tree through) and yet shared denial state was handed out:
					// only the Store the resolver reads for its private DS / DNSKEY look-ups can have done that
					res.Violate("c19/denial/consumed-subquery/"+policy+"/"+denTag(st)+"/"+st.Born,
						fmt.Sprintf("[resolver pipeline, ecs forwarding %s] %v: the request tree of a query that carried %s was handed %d answer(s) "+
							"synthesised from shared denial state through an internal sub-query (the client's question went upstream: %d authority "+
							"queries; DNSKEY %s asked of the new zone: %v; client reply %s)", policy, hist, denTag(st), synth, upstream, gone, keyAsked, got), replay)
				case carried && synth > 0:
					res.Violate("c19/denial/consumed/"+policy+"/"+denTag(st)+"/"+st.Born,
						fmt.Sprintf("[resolver pipeline, ecs forwarding %s] %v: a query that carried %s was answered from shared synthesised denial "+
							"state (no authority was asked, reply %s)", policy, hist, denTag(st), got), replay)
				case !carried && synth > 0 && !sharedByPlain:
					res.Violate("c19/denial/created/"+policy+"/"+st.Born,
						fmt.Sprintf("[resolver pipeline, ecs forwarding %s] %v: a plain query was answered from shared denial state although only ECS- or "+
							"CD-carrying queries have resolved a denial so far: one of them created it", policy, hist), replay)
				}
				if carried {
					res.Count("carried/"+denTag(st)+"/"+st.Born, 1)
					if w.alive && sharedByPlain && !q.CheckingDisabled {
						res.Count("validating_carried_tree_below_live_cut", 1)
						if keyAsked {
							res.Count("sub_site_passed_under_cut", 1) // the DNSKEY read got past the shared cut and went to the new zone
						}
					}
				} else {
					if synth > 0 {
						res.Count("synthesised", 1)
					}
					if got == "nx" && synth == 0 {
						sharedByPlain = true
					}
				}
				// model conformance (drift only): reply class per step
				want := st.Out
				if want != "" && want != obs && !(want == "subsynth") {
					res.DriftNote("%s step %d: model %s, real %s (%v)", policy, si, want, obs, hist)
				}
			}
		}
		_ = os.RemoveAll(dir)
		time.Sleep(10 * time.Millisecond)
	}
}
