package c19

// OBSERVATION driver (no verdict unless the input says judge=true): the same audience clause in RESOLVER
// (iterative) mode.  The whole default chain resolves against a scripted authoritative namespace (authkit) whose
// servers honour ECS: they echo the subnet they were sent with SCOPE = SOURCE and hand every subnet its own
// answer.  With [ecs] enabled the client's clamped subnet travels to every authority of the walk (root, TLD, the
// zone itself); resolver.answer() -> clearAdditional then REPLACES the additional section of a positive answer
// with the request's own OPT (subnet option with SCOPE 0), so the cache writer reads "global" and stores the
// subnet-specific answer under the shared key.  Reported as counters; see checks/c19.py resolver_scope_observation.

import (
	"fmt"
	"net"
	"os"
	"sync"
	"testing"

	"github.com/miekg/dns"
	"github.com/semihalev/sdns/config"
	"github.com/semihalev/sdns/verifharness/authkit"
	"github.com/semihalev/sdns/verifharness/pipe"
	"github.com/semihalev/sdns/verifharness/vh"
)

type resolverScopeIn struct {
	Judge bool `json:"judge"`
}

func TestResolverScopeObservation(t *testing.T) {
	var in resolverScopeIn
	vh.Input(t, &in)
	res := vh.NewResult()
	defer res.Write(t)

	n, err := authkit.NewNet(false)
	if err != nil {
		res.Skip("authkit: %v", err)
		return
	}
	defer n.Stop()
	_, tsrv, _ := n.Delegate("test.", authkit.DelegateOpts{Signed: false})
	ez, esrv, _ := n.Delegate("scoped.test.", authkit.DelegateOpts{Signed: false})
	ez.Add("www.scoped.test. 300 IN A 192.0.2.80")
	var mu sync.Mutex
	answered := map[string]byte{} // subnet -> last octet handed to it
	sawECS := map[string]int{}    // authority label -> queries that carried a subnet
	hook := func(ex *authkit.Exchange) {
		if ex.Resp == nil || ex.Req == nil {
			return
		}
		ro := ex.Req.IsEdns0()
		if ro == nil {
			return
		}
		for _, o := range ro.Option {
			e, ok := o.(*dns.EDNS0_SUBNET)
			if !ok {
				continue
			}
			mu.Lock()
			sawECS[ex.Server.Label]++
			key := e.Address.String()
			if _, ok := answered[key]; !ok {
				answered[key] = byte(100 + len(answered))
			}
			oct := answered[key]
			mu.Unlock()
			op := &dns.OPT{Hdr: dns.RR_Header{Name: ".", Rrtype: dns.TypeOPT}}
			op.SetUDPSize(1232)
			op.Option = append(op.Option, &dns.EDNS0_SUBNET{Code: dns.EDNS0SUBNET, Family: e.Family,
				SourceNetmask: e.SourceNetmask, SourceScope: e.SourceNetmask, Address: e.Address})
			var keep []dns.RR
			for _, rr := range ex.Resp.Extra {
				if _, isOpt := rr.(*dns.OPT); !isOpt {
					keep = append(keep, rr)
				}
			}
			ex.Resp.Extra = append(keep, op)
			if len(ex.Resp.Answer) == 1 {
				if a, ok := ex.Resp.Answer[0].(*dns.A); ok {
					tailored := *a
					tailored.A = net.IPv4(192, 0, 2, oct)
					ex.Resp.Answer[0] = &tailored
				}
			}
		}
	}
	n.RootSrv.SetHook(hook)
	tsrv.SetHook(hook)
	esrv.SetHook(hook)
	dir, _ := os.MkdirTemp("", "verif-c19-rs-")
	defer os.RemoveAll(dir)
	s, _ := pipe.NewResolverServer(pipe.ResolverOpts{RootAddr: n.RootSrv.Addr, DNSSEC: false, Dir: dir, Mapper: n.Mapper(),
		Mutate: func(cfg *config.Config) {
			cfg.ECS.Enabled = true
			cfg.ECS.ForwardV4Max = 24
			cfg.ECS.ForwardV6Max = 56
			cfg.ECS.MinScopeV4 = 16
			cfg.ECS.MinScopeV6 = 32
			cfg.ECS.ClientNetworks = []string{"0.0.0.0/0", "::/0"}
		}})
	type cl struct{ ip, subnet string }
	clients := []cl{{"198.51.100.7", "198.51.100.0"}, {"203.0.113.9", "203.0.113.0"}, {"192.0.2.200", ""}}
	var first string
	for i, c := range clients {
		q := new(dns.Msg)
		q.SetQuestion("www.scoped.test.", dns.TypeA)
		q.SetEdns0(1232, false)
		if c.subnet != "" {
			o := q.IsEdns0()
			o.Option = append(o.Option, &dns.EDNS0_SUBNET{Code: dns.EDNS0SUBNET, Family: 1, SourceNetmask: 24, Address: net.ParseIP(c.subnet).To4()})
		}
		r := pipe.Ask(s, q, "udp", c.ip)
		res.Case(fmt.Sprintf("resolver-scope/%d", i))
		if r == nil || len(r.Answer) != 1 {
			res.Count("no_answer", 1)
			continue
		}
		got := r.Answer[0].(*dns.A).A.String()
		if i == 0 {
			first = got
			continue
		}
		if got == first {
			// the answer the authority tailored to 198.51.100.0/24 (SCOPE /24) reached a client of another subnet
			res.Count("scoped_answer_served_outside_its_scope", 1)
			what := fmt.Sprintf("resolver mode, ecs on: the answer %s, obtained for 198.51.100.0/24 with authority scope /24, was served from cache to %s (subnet sent: %q)", got, c.ip, c.subnet)
			if in.Judge {
				res.Violate("c19/resolver-scope-lost/"+c.subnet, what, map[string]any{"driver": "resolver-scope"})
			} else {
				res.Sample(map[string]any{"observation": what})
			}
		} else {
			res.Count("own_answer", 1)
		}
	}
	mu.Lock()
	for label, k := range sawECS {
		res.Count("authority_saw_client_subnet/"+label, k)
	}
	mu.Unlock()
}
