package c19

// The audience clause in RESOLVER (iterative) mode under CONCURRENCY: the resolver collapses concurrent identical
// wire look-ups onto one leader (groupLookup, singleflight).  The cache's own dedup key carries the client's subnet,
// so two clients of different audiences both reach the resolver; groupLookup's key is question | zone | CD | server
// fingerprint - no subnet.  A follower therefore receives a copy of the response the LEADER obtained with the
// leader's subnet option.  When the follower sent no subnet itself its cache writer has no scope to hold the echo
// against (ResponseEchoes is skipped, ReadResponseScope is skipped) and files the tailored answer under the shared
// key - every later client is served it.
//
// Schedule (forced with the resolver's verif flight gate, hook a4a1ff9): the delegation walk is warmed with another
// name; L (subnet 198.51.100.0/24) asks www.scoped.test and is parked at the start of its leader closure; F (no
// subnet option) asks the same question and joins the flight; the gate opens.  Then a third client, again without a
// subnet, asks: a cache hit.  The scripted authority tailors: every subnet gets its own address and SCOPE = SOURCE,
// a query without the option gets 192.0.2.80.
//
// Cases come from checks/c19.py flight_family (EcsFlight.tla: Open / Arrive / Land / Late): leader and follower are
// (client, announced bits) pairs, the late client asks after both were answered.  The verdict is the statement's own
// predicate, judged on every reply: an answer the authority tailored to a subnet S (declared SCOPE = SOURCE) reaches
// only clients that announced a subnet inside S.

import (
	"fmt"
	"net"
	"net/netip"
	"os"
	"strings"
	"sync"
	"testing"
	"time"

	"github.com/miekg/dns"
	"github.com/semihalev/sdns/config"
	"github.com/semihalev/sdns/middleware/resolver"
	"github.com/semihalev/sdns/verifharness/authkit"
	"github.com/semihalev/sdns/verifharness/pipe"
	"github.com/semihalev/sdns/verifharness/vh"
)

type flightParty struct {
	C    int `json:"c"`    // index into addrs
	Sent int `json:"sent"` // announced source prefix length, 0 = no subnet option
}

type flightCase struct {
	Leader   flightParty `json:"leader"`
	Follower flightParty `json:"follower"`
	Late     flightParty `json:"late"`
}

type resolverFlightIn struct {
	Judge  bool         `json:"judge"`
	FwdMax int          `json:"fwdMax"`
	Addrs  []string     `json:"addrs"`
	Cases  []flightCase `json:"cases"`
}

func TestResolverFlightAudience(t *testing.T) {
	var in resolverFlightIn
	vh.Input(t, &in)
	res := vh.NewResult()
	defer res.Write(t)
	if in.FwdMax == 0 {
		in.FwdMax = 24
	}

	n, err := authkit.NewNet(false)
	if err != nil {
		res.Skip("authkit: %v", err)
		return
	}
	defer n.Stop()
	_, tsrv, _ := n.Delegate("test.", authkit.DelegateOpts{Signed: false})
	ez, esrv, _ := n.Delegate("scoped.test.", authkit.DelegateOpts{Signed: false})
	ez.Add("warm.scoped.test. 300 IN A 192.0.2.81")
	for i := range in.Cases {
		ez.Add(fmt.Sprintf("www%d.scoped.test. 300 IN A 192.0.2.80", i))
	}
	var mu sync.Mutex
	answered := map[string]byte{}      // "addr/bits" -> last octet handed to that subnet
	tailoredFor := map[string]string{} // answer address -> "addr/bits" it was tailored to
	queries := map[string]int{}        // qname -> queries at scoped.test.'s server
	hook := func(ex *authkit.Exchange) {
		if ex.Resp == nil || ex.Req == nil {
			return
		}
		if len(ex.Req.Question) == 1 && ex.Server == esrv {
			mu.Lock()
			queries[strings.ToLower(ex.Req.Question[0].Name)]++
			mu.Unlock()
		}
		ro := ex.Req.IsEdns0()
		if ro == nil {
			return
		}
		for _, o := range ro.Option {
			e, ok := o.(*dns.EDNS0_SUBNET)
			if !ok {
				continue
			}
			key := fmt.Sprintf("%s/%d", e.Address.String(), e.SourceNetmask)
			mu.Lock()
			if _, ok := answered[key]; !ok {
				answered[key] = byte(100 + len(answered))
			}
			oct := answered[key]
			tailoredFor[net.IPv4(192, 0, 2, oct).String()] = key
			mu.Unlock()
			op := &dns.OPT{Hdr: dns.RR_Header{Name: ".", Rrtype: dns.TypeOPT}}
			op.SetUDPSize(1232)
			op.Option = append(op.Option, &dns.EDNS0_SUBNET{Code: dns.EDNS0SUBNET, Family: e.Family,
				SourceNetmask: e.SourceNetmask, SourceScope: e.SourceNetmask, Address: e.Address})
			var keep []dns.RR
			for _, rr := range ex.Resp.Extra {
				if _, isOpt := rr.(*dns.OPT); !isOpt {
					keep = append(keep, rr)
				}
			}
			ex.Resp.Extra = append(keep, op)
			if len(ex.Resp.Answer) == 1 {
				if a, ok := ex.Resp.Answer[0].(*dns.A); ok {
					tailored := *a
					tailored.A = net.IPv4(192, 0, 2, oct)
					ex.Resp.Answer[0] = &tailored
				}
			}
		}
	}
	n.RootSrv.SetHook(hook)
	tsrv.SetHook(hook)
	esrv.SetHook(hook)
	dir, _ := os.MkdirTemp("", "verif-c19-rf-")
	defer os.RemoveAll(dir)
	s, _ := pipe.NewResolverServer(pipe.ResolverOpts{RootAddr: n.RootSrv.Addr, DNSSEC: false, Dir: dir, Mapper: n.Mapper(),
		Mutate: func(cfg *config.Config) {
			cfg.ECS.Enabled = true
			cfg.ECS.ForwardV4Max = uint8(in.FwdMax)
			cfg.ECS.ForwardV6Max = 56
			cfg.ECS.MinScopeV4 = uint8(in.FwdMax)
			cfg.ECS.MinScopeV6 = 56
			cfg.ECS.ClientNetworks = []string{"0.0.0.0/0", "::/0"}
		}})

	ask := func(name string, p flightParty) *dns.Msg {
		q := new(dns.Msg)
		q.SetQuestion(name, dns.TypeA)
		q.SetEdns0(1232, false)
		ip := in.Addrs[p.C]
		if p.Sent > 0 {
			// the client announces its own address with p.Sent bits (host bits set: the clamp must zero them)
			o := q.IsEdns0()
			o.Option = append(o.Option, &dns.EDNS0_SUBNET{Code: dns.EDNS0SUBNET, Family: 1, SourceNetmask: uint8(p.Sent), Address: net.ParseIP(ip).To4()})
		}
		return pipe.Ask(s, q, "udp", ip)
	}
	addr := func(r *dns.Msg) string {
		if r == nil || len(r.Answer) != 1 {
			return ""
		}
		if a, ok := r.Answer[0].(*dns.A); ok {
			return a.A.String()
		}
		return ""
	}
	if got := addr(ask("warm.scoped.test.", flightParty{C: 0})); got != "192.0.2.81" {
		res.Skip("warm-up answered %q", got)
		return
	}

	// the statement's predicate on one reply
	judge := func(ci int, role string, p flightParty, got string) {
		if got == "" {
			res.Count("no_answer/"+role, 1) // SERVFAIL (a dropped echo mismatch) serves nobody a foreign answer
			return
		}
		mu.Lock()
		sub, tailored := tailoredFor[got]
		mu.Unlock()
		if !tailored {
			res.Count("global_answer/"+role, 1)
			return
		}
		pfx, err := netip.ParsePrefix(sub)
		inside := err == nil && p.Sent > 0 && pfx.Contains(netip.MustParseAddr(in.Addrs[p.C]))
		if inside {
			res.Count("tailored_answer_inside_scope/"+role, 1)
			return
		}
		res.Count("scoped_answer_served_outside_its_scope", 1)
		c := in.Cases[ci]
		what := fmt.Sprintf("resolver mode, ecs on: leader %s/%d and follower %s/%d in one wire look-up: the answer %s, which the authority tailored to %s (SCOPE = SOURCE), was served to the %s %s (announced /%d)",
			in.Addrs[c.Leader.C], c.Leader.Sent, in.Addrs[c.Follower.C], c.Follower.Sent, got, sub, role, in.Addrs[p.C], p.Sent)
		if in.Judge {
			res.Violate(fmt.Sprintf("c19/resolver-flight-audience/%s/l%d.%d-f%d.%d", role, c.Leader.C, c.Leader.Sent, c.Follower.C, c.Follower.Sent), what,
				map[string]any{"driver": "resolver-flight", "fwdMax": in.FwdMax, "addrs": in.Addrs, "cases": []flightCase{c}})
		} else {
			res.Sample(map[string]any{"observation": what})
		}
	}

	var (
		gmu     sync.Mutex
		armed   bool
		entered int
		parked  chan struct{}
		release chan struct{}
	)
	resolver.SetVerifFlightGate(func(key string) {
		if !strings.Contains(key, "|scoped.test.|") {
			return
		}
		gmu.Lock()
		entered++
		park := armed
		armed = false
		pk, rl := parked, release
		gmu.Unlock()
		if park {
			close(pk)
			<-rl
		}
	})
	defer resolver.SetVerifFlightGate(nil)

	for ci, c := range in.Cases {
		name := fmt.Sprintf("www%d.scoped.test.", ci)
		gmu.Lock()
		armed, entered = true, 0
		parked, release = make(chan struct{}), make(chan struct{})
		pk, rl := parked, release
		gmu.Unlock()
		var leaderAns, followerAns string
		var wg sync.WaitGroup
		wg.Add(1)
		go func() {
			defer wg.Done()
			leaderAns = addr(ask(name, c.Leader))
		}()
		select {
		case <-pk:
		case <-time.After(10 * time.Second):
			gmu.Lock()
			armed = false
			gmu.Unlock()
			wg.Wait()
			res.Skip("case %d: the leader never reached the flight gate", ci)
			return
		}
		wg.Add(1)
		go func() {
			defer wg.Done()
			followerAns = addr(ask(name, c.Follower))
		}()
		// the follower walks edns -> cache (own dedup key unless it announces the leader's subnet) -> resolver and
		// either joins the parked flight or runs a closure of its own
		time.Sleep(300 * time.Millisecond)
		close(rl)
		wg.Wait()
		gmu.Lock()
		closures := entered
		gmu.Unlock()
		mu.Lock()
		nq := queries[name]
		mu.Unlock()
		lateAns := addr(ask(name, c.Late))
		res.Case(fmt.Sprintf("resolver-flight/l%d.%d-f%d.%d-late%d.%d", c.Leader.C, c.Leader.Sent, c.Follower.C, c.Follower.Sent, c.Late.C, c.Late.Sent))
		if closures == 1 && nq == 1 {
			res.Count("follower_shared_the_wire_lookup", 1)
		} else {
			res.Count("follower_ran_its_own_lookup", 1)
		}
		res.Sample(map[string]any{"case": c, "leader": leaderAns, "follower": followerAns, "late": lateAns, "closures": closures, "authority_queries": nq})
		judge(ci, "leader", c.Leader, leaderAns)
		judge(ci, "follower", c.Follower, followerAns)
		judge(ci, "late", c.Late, lateAns)
	}
}
