package c19

// Replay of Ecs.tla behaviours on the real default chain (up to the cache) with
// a scripted tail that plays the authority: it records the upstream query's
// OPT, answers with rdata that encodes the exchange number (gen) and returns
// the SCOPE the behaviour chose.  Predicates (C19):
//   - ECS leaves only when forwarding is enabled and the client sent ECS,
//     truncated to <= the configured length, host bits zero, and no other
//     client option reaches the upstream;
//   - no ECS option is ever returned to a client;
//   - an answer whose authority scope was non-zero is served from cache only
//     to clients that sent ECS and lie inside min(scope, forwarded, floor);
//   - scoped hits respect the scoped TTL cap;
//   - the authority may echo ANOTHER subnet than the one it was sent (step.echo = client whose subnet it names):
//     an answer whose authority scope was non-zero is then served neither to the client that asked (it lies outside
//     the scope the authority declared) nor, later, from cache to the clients of the named subnet (the answer was
//     obtained for the asker's subnet).  RFC 7871 7.3 has such a reply dropped.

import (
	"context"
	"fmt"
	"net"
	"testing"
	"time"

	"github.com/miekg/dns"
	"github.com/semihalev/sdns/middleware"
	"github.com/semihalev/sdns/verifharness/pipe"
	"github.com/semihalev/sdns/verifharness/vh"
)

type stepT struct {
	C      int  `json:"c"`
	Sent   int  `json:"sent"`
	Scope  int  `json:"scope"`
	Echo   int  `json:"echo"` // 0 = the authority echoes what it was sent; k = it echoes client k's subnet
	ExpHit bool `json:"expHit"`
	// ExpKind: the model's outcome ("hit" | "miss" | "dropped"), compared for drift only
	ExpKind string `json:"expKind"`
}

type behT struct {
	Steps []stepT `json:"steps"`
}

type inputT struct {
	Enabled    bool     `json:"enabled"`
	FwdMax     int      `json:"fwdMax"`
	Floor      int      `json:"floor"`
	Addrs      []string `json:"addrs"` // index = client-1
	Behaviours []behT   `json:"behaviours"`
}

type genT struct {
	fwd   *net.IPNet // what the upstream query carried (nil = no ECS)
	scope int
	echo  net.IP // the address the authority's option named (nil = none sent back)
}

const ttlCap = 30

func mask(ip net.IP, bits int) net.IP { return ip.To4().Mask(net.CIDRMask(bits, 32)) }

func TestEcsReplay(t *testing.T) {
	var in inputT
	vh.Input(t, &in)
	res := vh.NewResult()
	defer res.Write(t)

	curScope := 0
	var curEcho net.IP // non-nil: the authority names this address instead of the one it was sent
	var gens []genT
	tail := &pipe.Tail{}
	tail.Respond = func(_ context.Context, _ *middleware.Chain, req *dns.Msg) *dns.Msg {
		g := genT{scope: curScope}
		resp := new(dns.Msg)
		resp.SetReply(req)
		resp.RecursionAvailable = true
		o := &dns.OPT{Hdr: dns.RR_Header{Name: ".", Rrtype: dns.TypeOPT}}
		o.SetUDPSize(1232)
		if ro := req.IsEdns0(); ro != nil {
			for _, e := range ro.Option {
				if s, ok := e.(*dns.EDNS0_SUBNET); ok && s.Family == 1 {
					g.fwd = &net.IPNet{IP: s.Address.To4(), Mask: net.CIDRMask(int(s.SourceNetmask), 32)}
					// an authority is free to put other options in front of the subnet option
					switch len(gens) % 3 {
					case 1:
						o.Option = append(o.Option, &dns.EDNS0_NSID{Code: dns.EDNS0NSID, Nsid: "6175746831"})
					case 2:
						o.Option = append(o.Option, &dns.EDNS0_COOKIE{Code: dns.EDNS0COOKIE, Cookie: "00112233445566778899aabbccddeeff"},
							&dns.EDNS0_EDE{InfoCode: dns.ExtendedErrorCodeOther, ExtraText: "x"})
					}
					echoed := s.Address
					if curEcho != nil {
						echoed = mask(curEcho, int(s.SourceNetmask))
					}
					g.echo = echoed.To4()
					o.Option = append(o.Option, &dns.EDNS0_SUBNET{Code: dns.EDNS0SUBNET, Family: 1,
						SourceNetmask: s.SourceNetmask, SourceScope: uint8(curScope), Address: echoed})
				}
			}
		}
		if g.fwd == nil {
			g.scope = 0
		}
		gens = append(gens, g)
		n := len(gens)
		resp.Answer = []dns.RR{&dns.A{Hdr: dns.RR_Header{Name: req.Question[0].Name, Rrtype: dns.TypeA, Class: dns.ClassINET, Ttl: 300},
			A: net.IPv4(192, 0, byte(n>>8), byte(n))}}
		resp.Extra = []dns.RR{o}
		return resp
	}
	cfg := pipe.BaseConfig()
	cfg.ECS.Enabled = in.Enabled
	cfg.ECS.ForwardV4Max = uint8(in.FwdMax)
	cfg.ECS.ForwardV6Max = 56
	cfg.ECS.MinScopeV4 = uint8(in.Floor)
	cfg.ECS.MinScopeV6 = 48
	cfg.ECS.ClientNetworks = []string{"0.0.0.0/0"}
	cfg.ECS.CacheLimitTTL.Duration = ttlCap * time.Second
	s, release := pipe.NewServer(cfg, tail, "failover")
	release()

	for bi, b := range in.Behaviours {
		name := fmt.Sprintf("ecs-%d.verif.test.", bi)
		base := len(gens)
		hist := []string{}
		for si, st := range b.Steps {
			ip := net.ParseIP(in.Addrs[st.C-1]).To4()
			q := new(dns.Msg)
			q.SetQuestion(name, dns.TypeA)
			q.SetEdns0(1232, false)
			if st.Sent > 0 {
				o := q.IsEdns0()
				// the client's own address with host bits set beyond the netmask, plus unrelated options
				o.Option = append(o.Option, &dns.EDNS0_SUBNET{Code: dns.EDNS0SUBNET, Family: 1, SourceNetmask: uint8(st.Sent), Address: ip},
					&dns.EDNS0_PADDING{Padding: make([]byte, 3)}, &dns.EDNS0_COOKIE{Code: dns.EDNS0COOKIE, Cookie: "0011223344556677"})
			}
			h := fmt.Sprintf("Query(c%d %s sent=/%d scope=/%d)", st.C, in.Addrs[st.C-1], st.Sent, st.Scope)
			curEcho = nil
			if st.Echo > 0 {
				curEcho = net.ParseIP(in.Addrs[st.Echo-1]).To4()
				h = fmt.Sprintf("Query(c%d %s sent=/%d scope=/%d echo=c%d %s)", st.C, in.Addrs[st.C-1], st.Sent, st.Scope, st.Echo, in.Addrs[st.Echo-1])
			}
			hist = append(hist, h)
			curScope = st.Scope
			before := len(gens)
			tail.Reset()
			r := pipe.Ask(s, q, "udp", in.Addrs[st.C-1])
			res.Case(fmt.Sprintf("%v", hist))
			violate := func(clause, what string) {
				res.Violate("c19/"+clause+"/"+fmt.Sprint(in.Enabled, in.Floor, hist), fmt.Sprintf("[ecs enabled=%v fwd=/%d floor=/%d] %v: %s", in.Enabled, in.FwdMax, in.Floor, hist, what),
					map[string]any{"driver": "ecs", "enabled": in.Enabled, "floor": in.Floor, "fwdMax": in.FwdMax, "addrs": in.Addrs,
						"history": hist, "steps": b.Steps[:si+1]})
			}
			if r == nil {
				res.Count("no_reply", 1)
				continue
			}
			// reply side: never ECS toward the client
			if o := r.IsEdns0(); o != nil {
				for _, e := range o.Option {
					if _, ok := e.(*dns.EDNS0_SUBNET); ok {
						violate("ecs-to-client", "the reply carries a client-subnet option: "+e.String())
					}
				}
			}
			missed := len(gens) > before
			if missed {
				// upstream side
				up := tail.Last()
				g := gens[len(gens)-1]
				if uo := up.IsEdns0(); uo != nil {
					for _, e := range uo.Option {
						switch v := e.(type) {
						case *dns.EDNS0_SUBNET:
							if !in.Enabled || st.Sent == 0 {
								violate("ecs-leaked", fmt.Sprintf("ECS %s forwarded (enabled=%v, client sent=%d)", v.String(), in.Enabled, st.Sent))
							}
							if int(v.SourceNetmask) > in.FwdMax {
								violate("ecs-too-long", fmt.Sprintf("forwarded /%d exceeds /%d", v.SourceNetmask, in.FwdMax))
							}
							if !mask(v.Address, int(v.SourceNetmask)).Equal(v.Address.To4()) {
								violate("ecs-hostbits", "forwarded ECS has host bits set: "+v.String())
							}
							if !mask(ip, int(v.SourceNetmask)).Equal(v.Address.To4()) {
								violate("ecs-wrong-subnet", fmt.Sprintf("forwarded ECS %s is not the client's subnet (%s)", v.String(), ip))
							}
						default:
							violate("client-option-leaked", fmt.Sprintf("client option %d reached the upstream query", e.Option()))
						}
					}
				}
				if in.Enabled && st.Sent > 0 && g.fwd == nil {
					res.DriftNote("enabled and client sent ECS, nothing forwarded: %v", hist)
				}
				// the exchange itself: was the asker served an answer whose declared scope it lies outside of?
				if g.fwd != nil && g.echo != nil && g.scope != 0 {
					fb, _ := g.fwd.Mask.Size()
					b := min(g.scope, fb)
					if !mask(g.echo, b).Equal(mask(g.fwd.IP, b)) {
						res.Count("echo_mismatch_scoped_exchanges", 1)
						served := r.Rcode == dns.RcodeSuccess && len(r.Answer) > 0
						if served {
							violate("declared-scope", fmt.Sprintf("the authority was sent %s and declared its answer valid for %s/%d (scope /%d): the answer was served to %s, a client outside that scope (RFC 7871 7.3: such a reply MUST be dropped)",
								g.fwd.String(), g.echo, fb, g.scope, ip))
						} else {
							res.Count("echo_mismatch_not_served", 1)
						}
						if st.ExpKind != "" && (st.ExpKind == "dropped") == served {
							res.DriftNote("model %s, code served=%v (rcode %d) for a mismatching echo at step %d of %v", st.ExpKind, served, r.Rcode, si, hist)
						}
					}
				} else if g.fwd != nil && g.echo != nil && !g.echo.Equal(g.fwd.IP.To4()) {
					res.Count("echo_mismatch_scope0_exchanges", 1) // scope 0: outside the statement's clause (RFC: dropped all the same)
				}
			} else {
				// served from cache: which exchange produced it?
				if len(r.Answer) != 1 {
					res.Count("odd_answer", 1)
					continue
				}
				a, ok := r.Answer[0].(*dns.A)
				if !ok {
					continue
				}
				gi := int(a.A.To4()[2])<<8 | int(a.A.To4()[3])
				if gi <= base || gi > len(gens) {
					violate("foreign-entry", fmt.Sprintf("cache hit carries data of exchange %d which does not belong to this question", gi))
					continue
				}
				g := gens[gi-1]
				if g.scope != 0 && g.fwd != nil {
					fb, _ := g.fwd.Mask.Size()
					b := g.scope
					if fb < b {
						b = fb
					}
					if in.Floor < b {
						b = in.Floor
					}
					if st.Sent == 0 {
						violate("scoped-to-nonecs", fmt.Sprintf("an answer scoped /%d by its authority was served to a client that sent no ECS", g.scope))
					} else if !mask(ip, b).Equal(mask(g.fwd.IP, b)) {
						violate("scoped-audience", fmt.Sprintf("an answer obtained for %s with authority scope /%d (stored at /%d) was served to %s", g.fwd.String(), g.scope, b, ip))
					}
					if a.Hdr.Ttl > ttlCap {
						violate("scoped-ttl-cap", fmt.Sprintf("scoped hit shows TTL %d, cap is %d", a.Hdr.Ttl, ttlCap))
					}
				}
			}
			if missed == st.ExpHit {
				res.DriftNote("model hit=%v, code missed=%v at step %d of %v", st.ExpHit, missed, si, hist)
			}
		}
		if bi < 2 {
			res.Sample(map[string]any{"history": hist, "enabled": in.Enabled, "floor": in.Floor})
		}
	}
}
