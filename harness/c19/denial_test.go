package c19

// C19, last clause, on the real edns + cache handlers (EcsDenial.tla): a query that carried ECS or CD neither
// consumes nor creates shared synthesised denials.  The handler in the resolver's place answers every question
// below gone.zc. with an NXDOMAIN carrying the resolver-to-cache validation seam (ValidatedNegativeProof,
// Aggressive), so an unscoped CD=0 request makes the cache publish the RFC 8020 cut; whether a later request was
// answered from it is read off the handler's call counter.  Requests enter message-born and wire-born
// (Chain.ResetWire), with the ECS forwarding policy off (edns strips the option: only the marker remembers it)
// and on.  The client's subnet option comes in four shapes (EcsDenial.tla Shapes): a real IPv4 / IPv6 prefix, family 1
// with source prefix 0, and the RFC 7871 empty option (family 0, prefix 0, no address); each is "a query that carried
// ECS", whichever parser (the library's for message-born, Request.parseWireOPT for wire-born requests) reads it.

import (
	"context"
	"fmt"
	"net"
	"sync/atomic"
	"testing"
	"time"

	"github.com/miekg/dns"
	"github.com/semihalev/sdns/config"
	"github.com/semihalev/sdns/internal/mock"
	"github.com/semihalev/sdns/middleware"
	"github.com/semihalev/sdns/middleware/cache"
	"github.com/semihalev/sdns/middleware/edns"
	"github.com/semihalev/sdns/verifharness/vh"
)

type denStep struct {
	Kind string `json:"kind"` // plain | ecs | cd | ecscd
	Born string `json:"born"` // msg | wire
	// Shape of the subnet option of an ecs / ecscd step: v4 | v6 | zero | empty ("" = v4)
	Shape string `json:"shape"`
	DO    bool   `json:"do"`
	AD    bool   `json:"ad"`
	Out   string `json:"out"` // model: down | synth
	Cut   bool   `json:"cut"` // model: shared cut exists BEFORE the step
}

type denBehaviour struct {
	Steps []denStep `json:"steps"`
}

type denInput struct {
	Behaviours []denBehaviour `json:"behaviours"`
	// Focus "c06": only the AD discipline of the replies is judged (C06); "" (C19): the denial-bypass clauses
	Focus string `json:"focus"`
}

func denProof(qname string) *dns.Msg {
	m := new(dns.Msg)
	m.SetQuestion(qname, dns.TypeA)
	m.Response = true
	m.RecursionAvailable = true
	m.Rcode = dns.RcodeNameError
	m.AuthenticatedData = true
	exp := uint32(time.Now().Add(48 * time.Hour).Unix())
	sig := func(owner string, covered uint16) dns.RR {
		return &dns.RRSIG{Hdr: dns.RR_Header{Name: owner, Rrtype: dns.TypeRRSIG, Class: dns.ClassINET, Ttl: 300},
			TypeCovered: covered, Algorithm: dns.ECDSAP256SHA256, Labels: uint8(dns.CountLabel(owner)), OrigTtl: 300,
			Expiration: exp, Inception: exp - 200000, KeyTag: 4711, SignerName: "zc.",
			Signature: "Tm90QVJlYWxTaWduYXR1cmVCdXRWYWxpZEJhc2U2NA=="}
	}
	m.Ns = []dns.RR{
		&dns.SOA{Hdr: dns.RR_Header{Name: "zc.", Rrtype: dns.TypeSOA, Class: dns.ClassINET, Ttl: 300},
			Ns: "ns.zc.", Mbox: "h.zc.", Serial: 1, Refresh: 3600, Retry: 600, Expire: 86400, Minttl: 300},
		sig("zc.", dns.TypeSOA),
		&dns.NSEC{Hdr: dns.RR_Header{Name: "zc.", Rrtype: dns.TypeNSEC, Class: dns.ClassINET, Ttl: 300},
			NextDomain: "zz.zc.", TypeBitMap: []uint16{dns.TypeNS, dns.TypeSOA, dns.TypeRRSIG, dns.TypeNSEC}},
		sig("zc.", dns.TypeNSEC),
	}
	return m
}

// denSubnet is the client-subnet option of the given shape (EcsDenial.tla Shapes).
func denSubnet(shape string) *dns.EDNS0_SUBNET {
	switch shape {
	case "v6":
		return &dns.EDNS0_SUBNET{Code: dns.EDNS0SUBNET, Family: 2, SourceNetmask: 56, Address: net.ParseIP("2001:db8:77::")}
	case "zero":
		return &dns.EDNS0_SUBNET{Code: dns.EDNS0SUBNET, Family: 1, SourceNetmask: 0, Address: net.IPv4zero.To4()}
	case "empty":
		return &dns.EDNS0_SUBNET{Code: dns.EDNS0SUBNET, Family: 0, SourceNetmask: 0}
	}
	return &dns.EDNS0_SUBNET{Code: dns.EDNS0SUBNET, Family: 1, SourceNetmask: 24, Address: net.IPv4(203, 0, 113, 0).To4()}
}

// denTag names a step in histories and violation keys: the kind, plus the option's shape when it is not the v4 prefix.
func denTag(st denStep) string {
	if (st.Kind == "ecs" || st.Kind == "ecscd") && st.Shape != "" && st.Shape != "v4" {
		return st.Kind + "-" + st.Shape
	}
	return st.Kind
}

func TestEcsDenialBypass(t *testing.T) {
	var in denInput
	vh.Input(t, &in)
	res := vh.NewResult()
	defer res.Write(t)
	for _, policy := range []string{"off", "on"} {
		for bi, b := range in.Behaviours {
			cfg := &config.Config{CacheSize: 1024, Expire: 600, CookieSecret: "6c6f6f6b61686172646c6f6f6b6168617264"}
			if policy == "on" {
				cfg.ECS.Enabled = true
			}
			c := cache.New(cfg)
			ed := edns.New(cfg)
			var calls atomic.Int64
			down := middleware.HandlerFunc(func(ctx context.Context, ch *middleware.Chain) {
				calls.Add(1)
				req := ch.Request.Msg()
				m := denProof(req.Question[0].Name)
				m.Id = req.Id
				m.CheckingDisabled = req.CheckingDisabled
				middleware.MarkValidatedNegativeProofResponse(ctx, m, middleware.ValidatedNegativeProof{
					Subject: "gone.zc.", Zone: "zc.", Kind: middleware.ValidatedNegativeProofNSEC, Aggressive: true})
				_ = ch.Writer.WriteMsg(m)
				ch.Cancel()
			})
			hist := []string{}
			modelCut := false
			for si, st := range b.Steps {
				q := new(dns.Msg)
				q.SetQuestion(fmt.Sprintf("x%d-%d.gone.zc.", bi, si), dns.TypeA)
				q.RecursionDesired = true
				q.SetEdns0(1232, st.DO)
				q.AuthenticatedData = st.AD
				if st.Kind == "ecs" || st.Kind == "ecscd" {
					o := q.IsEdns0()
					if st.Shape == "dup" {
						// (audit probe, not produced by the model) two OPT records: the subnet option rides in the FIRST,
						// IsEdns0 selects the last
						o.Option = append(o.Option, denSubnet("v4"))
						second := &dns.OPT{Hdr: dns.RR_Header{Name: ".", Rrtype: dns.TypeOPT}}
						second.SetUDPSize(1232)
						second.SetDo(st.DO)
						q.Extra = append(q.Extra, second)
					} else {
						o.Option = append(o.Option, denSubnet(st.Shape))
					}
				}
				q.CheckingDisabled = st.Kind == "cd" || st.Kind == "ecscd"
				w := mock.NewWriter("udp", "203.0.113.5:53000")
				ch := middleware.NewChain([]middleware.Handler{ed, c, down})
				before := calls.Load()
				var meta middleware.ResponseMeta
				ctx := middleware.WithResponseMeta(context.Background(), &meta)
				if st.Born == "wire" {
					raw, err := q.Pack()
					if err != nil {
						t.Fatal(err)
					}
					req := new(middleware.Request)
					if !req.ParseWire(raw, time.Now(), nil) {
						res.Skip("ParseWire refused an ordinary query (%s)", denTag(st))
						continue
					}
					ch.ResetWire(w, req)
					ch.AllowDirectPack() // the owned transports are raw byte sinks: the cache may answer from bytes
				} else {
					ch.Reset(w, q)
				}
				ch.Next(ctx)
				ch.Finish()
				reached := calls.Load() > before
				hist = append(hist, fmt.Sprintf("%s/%s->%s", denTag(st), st.Born, map[bool]string{true: "down", false: "synth"}[reached]))
				res.Case(fmt.Sprintf("den:%s:%v", policy, hist))
				res.Count("steps", 1)
				violate := func(clause, what string) {
					if (in.Focus == "c06") != (clause == "ad") {
						res.DriftNote("%s (judged by another check): %s", clause, what)
						return
					}
					res.Violate("c19/denial/"+clause+"/"+policy+"/"+denTag(st)+"/"+st.Born,
						fmt.Sprintf("[ecs forwarding %s] %v: %s", policy, hist, what),
						map[string]any{"driver": "ecs-denial", "policy": policy, "steps": b.Steps[:si+1], "history": hist})
				}
				if !w.Written() {
					res.DriftNote("no reply for %s/%s", denTag(st), st.Born)
					continue
				}
				if rm := w.Msg(); rm != nil && rm.AuthenticatedData && (q.CheckingDisabled || (!st.DO && !st.AD)) {
					violate("ad", fmt.Sprintf("the %s reply carries AD=1 toward a client with CD=%v DO=%v AD=%v",
						map[bool]string{true: "resolved", false: "synthesised"}[reached], q.CheckingDisabled, st.DO, st.AD))
				}
				bypass := st.Kind != "plain"
				switch {
				case bypass && !reached:
					violate("consumed", "a query that carried "+denTag(st)+" was answered from shared synthesised denial state (the resolver position was not reached)")
				case !bypass && !reached && !modelCut:
					// a plain query answered from a cut nobody but an ECS/CD tree can have created
					violate("created", "a shared subtree cut exists although only ECS- or CD-carrying queries have been resolved so far: one of them created it")
				case !bypass && reached && modelCut:
					res.DriftNote("plain query below an existing cut reached the resolver position (%v)", hist)
				}
				if bypass {
					res.Count("carried/"+denTag(st)+"/"+st.Born, 1)
				}
				if !bypass {
					if !reached {
						res.Count("synthesised", 1)
					}
					modelCut = true
				}
			}
			c.Stop()
		}
	}
}
