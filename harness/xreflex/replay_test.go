package xreflex

// spec -> code: TLC behaviours of Reflex.tla (call orders, bursts, ticks, cleanups) replayed on the real pipeline.
// After every request the projection of the real per-IP table is compared with the model (differences are drift)
// and the predicates are evaluated on what the real code did (a false predicate is a violation):
//
//  c17/...     the C17 statement: an internal sub-query is never refused or scored by the reflection policy; a source
//              outside the access list gets no reply and causes no upstream work, on every entry
//  c11/...     the C11 statement: a query the reflection policy admits receives exactly one reply, never two
//  reflex/...  the middleware's own documentation: proven transports and loopback are never scored or refused, a proof
//              on an existing entry clears suspicion, low volume is never suspicious, only block mode refuses and only
//              at the threshold, one scoring and one response record per query whichever entry serves it, no entry
//              but the client's own moves (eviction: exactly the least recently seen one, only when the table is
//              full), the table stays within its bound, cleanup removes exactly what idled ten minutes.

import (
	"encoding/hex"
	"fmt"
	"strings"
	"testing"
	"time"

	"github.com/semihalev/sdns/middleware"
	"github.com/semihalev/sdns/verifharness/vh"
)

type behaviour struct {
	Name  string   `json:"name"`
	Cfg   rigCfg   `json:"cfg"`
	Keys  []string `json:"keys"`
	Types []string `json:"types"`
	Steps []step   `json:"steps"`
}

type replayInput struct {
	Behaviours []behaviour `json:"behaviours"`
	Twin       bool        `json:"twin"`
}

const minVol = 10 // "Need significant query volume to judge" (tracker.go)

type judge struct {
	res     sink
	r       *rig
	b       *behaviour
	variant string
	quiet   bool
	drifted bool
}

func (j *judge) replayOf(si int, what string, extra map[string]any) map[string]any {
	m := map[string]any{"driver": "pipeline-" + j.variant, "behaviour": j.b.Name, "step": si, "what": what,
		"cfg": j.b.Cfg, "keys": j.b.Keys, "types": j.b.Types, "steps": j.b.Steps[:min(si+1, len(j.b.Steps))]}
	for k, v := range extra {
		m[k] = v
	}
	return m
}

func (j *judge) violate(si int, key, what string, extra map[string]any) {
	lab := ""
	if si < len(j.b.Steps) {
		lab = j.b.Steps[si].Label
	}
	j.res.Violate(key, fmt.Sprintf("%s [%s step %d %s, %s]", what, j.b.Name, si, lab, j.variant), j.replayOf(si, what, extra))
}

func (j *judge) drift(si int, format string, a ...any) {
	if j.drifted {
		return
	}
	j.drifted = true
	if !j.quiet {
		j.res.DriftNote("%s step %d (%s): %s", j.b.Name, si, j.b.Steps[si].Label, fmt.Sprintf(format, a...))
	}
}

// inlineFacts: what the inline pass of a handed-off query already did.
type inlineFacts struct {
	scored  int
	resp    int
	replied bool
}

// verdicts evaluates every predicate on one request (one entry-point call).
func (j *judge) verdicts(si int, q *request, o observation, before, after tableObs, isReplay bool, inl inlineFacts) {
	st, cl := q.st, q.cl
	seen := o.seen()
	thr := j.b.Cfg.Thr
	ctx := map[string]any{"seen": seen, "client": st.C, "proto": st.Proto, "type": st.T, "entry": st.Entry, "name": q.name,
		"before": before.String(), "after": after.String(), "query": hex.EncodeToString(q.raw), "reply": hex.EncodeToString(o.Reply)}
	own := cl.Key
	bb, ab := before.E[own], after.E[own]

	// ---- C11: one reply, never two -------------------------------------------------------------------------
	if o.NWrites > 1 {
		j.violate(si, "c11/two-replies", fmt.Sprintf("%d replies to one query", o.NWrites), ctx)
	}
	if o.Handoff && o.Replied {
		j.violate(si, "c11/two-replies", "the inline pass wrote a reply and handed the query off as well", ctx)
	}
	for _, b := range o.Bad {
		j.violate(si, "c11/reply-not-for-query", "the reply is not a reply to the query: "+b, ctx)
	}
	// admitted by the reflection policy = reflex did not turn it away.  A query that got nothing although its entry
	// (unchanged by any response) scores below the threshold, or in a mode that never blocks, was admitted and lost.
	if seen == "silent" && cl.Origin != "denied" {
		policy := cl.Origin == "client" && st.Proto == "udp" && j.b.Cfg.Mode == "block" && ab.On && ab.Score >= thr
		if policy {
			j.violate(si, "reflex/blocked-without-reply", "a blocked query was dropped instead of refused (the code documents a REFUSED reply)", ctx)
		} else {
			j.violate(si, "c11/no-reply", "a query the reflection policy admits received no reply", ctx)
		}
	}
	if strings.HasPrefix(seen, "rcode-") || seen == "tc" {
		j.violate(si, "c11/unexpected-reply", "the scripted upstream answered NOERROR and the client received "+seen, ctx)
	}

	// ---- C17: internal sub-queries, denied sources --------------------------------------------------------------
	changed := !sameTable(before, after)
	switch cl.Origin {
	case "internal":
		if seen == "refused" || seen == "silent" {
			j.violate(si, "c17/internal-subjected", "an internal query was turned away by the reflection policy ("+seen+")", ctx)
		}
		if changed {
			j.violate(si, "c17/internal-scored", "an internal query changed the reflection table", ctx)
		}
	case "denied":
		if o.Replied {
			j.violate(si, "c17/denied-replied", "a source outside the access list received a reply ("+seen+")", ctx)
		}
		if o.TailDelta != 0 {
			j.violate(si, "c17/denied-work", "a query from outside the access list reached the upstream", ctx)
		}
		if o.Handoff {
			j.violate(si, "c17/denied-work", "a query from outside the access list was handed off for resolution", ctx)
		}
		if changed {
			j.violate(si, "reflex/denied-scored", "a source outside the access list changed the reflection table (reflex stands behind accesslist)", ctx)
		}
	case "loopback":
		if seen == "refused" || seen == "silent" {
			j.violate(si, "reflex/loopback-subjected", "a loopback query was turned away ("+seen+")", ctx)
		}
		if changed {
			j.violate(si, "reflex/loopback-scored", "a loopback query changed the reflection table", ctx)
		}
	}
	if cl.Origin != "client" {
		return
	}

	// ---- reflex: proven transports --------------------------------------------------------------------------------
	if st.Proto != "udp" {
		if seen == "refused" || seen == "silent" {
			j.violate(si, "reflex/proven-subjected", "a query over "+st.Proto+" (source proven) was turned away ("+seen+")", ctx)
		}
		want := bb
		if bb.On {
			want.Tcp = true
			want.Score = ab.Score
		}
		if !sameEntry(want, ab) || after.Len != before.Len {
			j.violate(si, "reflex/proven-scored", fmt.Sprintf("a query over %s changed the client's entry beyond the proof: %s -> %s", st.Proto, bb, ab), ctx)
		}
		if bb.On && (!ab.On || !ab.Tcp) {
			j.violate(si, "reflex/proof-not-recorded", "a query over "+st.Proto+" did not leave the proof on the client's existing entry", ctx)
		}
		if ab.On && ab.Tcp && ab.Score != 0 {
			j.violate(si, "reflex/proof-does-not-clear", fmt.Sprintf("an entry carrying the proof scores %d", ab.Score), ctx)
		}
		j.frame(si, own, before, after, false, ctx)
		return
	}

	// ---- reflex: UDP clients ------------------------------------------------------------------------------------------
	dq := ab.Tq
	if bb.On && ab.On {
		dq = ab.Tq - bb.Tq
	}
	scored := dq
	if !ab.On {
		scored = 0
	}
	if isReplay {
		if inl.scored+scored > 1 || scored > 0 {
			j.violate(si, "reflex/double-score", fmt.Sprintf("one query was scored %d times (inline pass %d + replay pass %d)", inl.scored+scored, inl.scored, scored), ctx)
		}
		if seen != "pass" {
			j.violate(si, "reflex/replay-decided", "the replay pass of a query the inline pass admitted ended "+seen, ctx)
		}
	} else if o.WirePath || st.Entry == "msg" {
		if scored != 1 {
			j.violate(si, "reflex/score-count", fmt.Sprintf("one UDP query changed the client's query count by %d", scored), ctx)
		}
		if ab.On && ab.Ls != 0 {
			j.violate(si, "reflex/last-seen", fmt.Sprintf("the entry of a client that was just seen is %d s old", ab.Ls), ctx)
		}
		dreq := ab.Req
		if bb.On && ab.On {
			dreq = ab.Req - bb.Req
		}
		if ab.On && scored == 1 && o.WirePath && dreq != len(q.raw) {
			j.violate(si, "reflex/request-bytes", fmt.Sprintf("a wire-born request of %d bytes was recorded as %d request bytes (documented: exact)", len(q.raw), dreq), ctx)
		}
		if bb.On && ab.On && ab.Fs != bb.Fs {
			j.violate(si, "reflex/first-seen-moved", fmt.Sprintf("first seen moved from %d s to %d s ago", bb.Fs, ab.Fs), ctx)
		}
	}
	// the response record: nothing or exactly the bytes that left, once
	dr := ab.Resp
	if bb.On && ab.On {
		dr = ab.Resp - bb.Resp
	}
	if ab.On && dr != 0 && dr != len(o.Reply) {
		j.violate(si, "reflex/response-miscounted", fmt.Sprintf("a reply of %d bytes was recorded as %d response bytes", len(o.Reply), dr), ctx)
	}
	if ab.On && dr != 0 && (seen != "pass") {
		j.violate(si, "reflex/response-miscounted", fmt.Sprintf("%d response bytes recorded for a query that ended %s", dr, seen), ctx)
	}
	if isReplay && inl.resp != 0 && dr != 0 {
		j.violate(si, "reflex/double-response", "one response was recorded by the inline pass and by the replay pass", ctx)
	}
	// decisions
	if seen == "refused" {
		if j.b.Cfg.Mode != "block" {
			j.violate(si, "reflex/refused-outside-block-mode", "a query was refused in "+j.b.Cfg.Mode+" mode", ctx)
		}
		if bb.On && bb.Tcp {
			j.violate(si, "reflex/refused-proven-client", "a client whose entry carries the proof of a non-UDP query was refused", ctx)
		}
		if ab.On && ab.Tq < minVol {
			j.violate(si, "reflex/refused-low-volume", fmt.Sprintf("a client was refused at %d queries (low volume is never suspicious)", ab.Tq), ctx)
		}
		if ab.On && ab.Score < thr {
			j.violate(si, "reflex/refused-below-threshold", fmt.Sprintf("a client was refused with score %d below the threshold %d", ab.Score, thr), ctx)
		}
		if !ab.On {
			j.violate(si, "reflex/refused-untracked", "a client without an entry was refused", ctx)
		}
		if o.TailDelta != 0 {
			j.violate(si, "reflex/refused-and-resolved", "a refused query reached the upstream", ctx)
		}
	}
	if (seen == "pass" || seen == "handoff") && !isReplay && j.b.Cfg.Mode == "block" && ab.On && dr == 0 && ab.Score >= thr {
		// no response was recorded, so the score the shim shows is the score the decision saw
		j.violate(si, "reflex/served-over-threshold", fmt.Sprintf("block mode served a client whose score %d is at the threshold %d", ab.Score, thr), ctx)
	}
	j.frame(si, own, before, after, !bb.On && !isReplay, ctx)
}

// frame: nothing but the client's own entry moves; a new entry in a full table costs exactly the least recently seen one.
func (j *judge) frame(si int, own string, before, after tableObs, created bool, ctx map[string]any) {
	capacity := j.b.Cfg.Cap
	var gone []string
	for _, k := range sortedKeys(before.E) {
		if k == own {
			continue
		}
		x, y := before.E[k], after.E[k]
		switch {
		case x.On && !y.On:
			gone = append(gone, k)
		case !sameEntry(x, y):
			j.violate(si, "reflex/cross-talk", fmt.Sprintf("a request of %s changed the entry of %s: %s -> %s", own, k, x, y), ctx)
		}
	}
	if len(gone) > 1 {
		j.violate(si, "reflex/evicted-many", fmt.Sprintf("one request removed the entries of %v", gone), ctx)
	}
	if len(gone) == 1 {
		if !created || (capacity > 0 && before.Len < capacity) {
			j.violate(si, "reflex/evicted-without-need", fmt.Sprintf("the entry of %s vanished although the table had room or no entry was created", gone[0]), ctx)
		}
		if len(before.Lru) > 0 && before.Lru[0] != gone[0] {
			j.violate(si, "reflex/evicted-not-oldest", fmt.Sprintf("the entry of %s was evicted, the least recently seen was %s", gone[0], before.Lru[0]), ctx)
		}
	}
	if capacity > 0 && after.Len > capacity {
		j.violate(si, "reflex/over-capacity", fmt.Sprintf("the table holds %d entries, its bound is %d", after.Len, capacity), ctx)
	}
}

// compare: model vs code; any difference is drift.
func (j *judge) compare(si int, want string, tailWant int, o observation) {
	if j.drifted {
		return
	}
	if want != o.seen() {
		j.drift(si, "model %s, code %s", want, o.seen())
	}
}

func (j *judge) comparePost(si int, st step, after tableObs) {
	if st.Post == nil || j.drifted {
		return
	}
	for _, k := range sortedKeys(st.Post.E) {
		want := st.Post.E[k]
		have, ok := after.E[k]
		if !ok {
			continue
		}
		want.Score, have.Score = 0, 0
		if !sameEntry(want, have) {
			j.drift(si, "model %s: %s, code: %s", k, want, have)
			return
		}
	}
	if strings.Join(st.Post.Lru, ",") != strings.Join(after.Lru, ",") {
		j.drift(si, "model last-seen order %v, code %v", st.Post.Lru, after.Lru)
	}
}

type stepRecord struct {
	Seen  []string
	Tail  int
	Tab   tableObs
	Valid bool
}

var errDrift = fmt.Errorf("drift")

// runBehaviour replays one behaviour; forceMsg runs the decoded entry for every call (an inline call and the replay
// that follows it at once collapse into one ServeMsg).
func runBehaviour(res sink, b *behaviour, forceMsg bool) (recs []stepRecord, stalled bool, err error) {
	variant := "replay"
	if forceMsg {
		variant = "replay-msg-twin"
	}
	r, rerr := newRig(b.Cfg, b.Keys)
	if rerr != nil {
		return nil, false, rerr
	}
	defer r.close()
	j := &judge{res: res, r: r, b: b, variant: variant, quiet: forceMsg}
	if co, ok := interface{}(r.rfx).(middleware.ClientOnly); !ok || !co.ClientOnly() {
		j.violate(0, "c17/not-client-only", "reflex does not declare itself client-only: internal sub-pipelines would run it", nil)
	}
	if got := int(r.rfx.VerifThreshold()*100 + 0.5); got != b.Cfg.Thr {
		j.violate(0, "reflex/threshold-config", fmt.Sprintf("reflexthreshold = %.2f is read as %.2f", float64(b.Cfg.Thr)/100, r.rfx.VerifThreshold()), nil)
	}
	wantMode := map[string]string{"block": "blocking", "monitor": "monitor", "learning": "learning"}[b.Cfg.Mode]
	if got := r.rfx.VerifMode(); got != wantMode {
		j.violate(0, "reflex/mode-config", "mode configured "+b.Cfg.Mode+", the handler runs "+got, nil)
	}
	// the hot name is cached for every type of the behaviour before it starts (a loopback client: nobody's entry)
	for _, t := range b.Types {
		q, err := r.build(step{C: "lo", Proto: "tcp", T: t, Entry: "msg", N: "hot"})
		if err != nil {
			return nil, false, err
		}
		if o := r.serve(q); !o.Answered {
			return nil, false, fmt.Errorf("warming %s: %s %v", t, o.seen(), o.Bad)
		}
	}
	if r.rfx.VerifLen() != 0 {
		j.violate(0, "reflex/loopback-scored", "warming the cache from loopback left entries in the table", nil)
	}
	recs = make([]stepRecord, len(b.Steps))
	inline := map[int]inlineFacts{}
	skip := map[int]bool{}
	t0 := time.Now()
	for si := range b.Steps {
		st := b.Steps[si]
		if time.Since(t0) > 5*time.Second {
			return recs, true, nil
		}
		switch st.Op {
		case "tick":
			ref := r.rfx.VerifSnap(time.Second)
			before := r.tableAt(ref)
			r.rfx.VerifAdvance(time.Duration(st.K) * time.Second)
			after := r.tableAt(ref)
			for _, k := range sortedKeys(before.E) {
				x, y := before.E[k], after.E[k]
				x.Fs, x.Ls, x.Score, y.Score = x.Fs+st.K, x.Ls+st.K, 0, 0
				if x.On && !sameEntry(x, y) {
					j.violate(si, "reflex/harness-clock", fmt.Sprintf("advancing the clock by %d s took %s from %s to %s", st.K, k, before.E[k], after.E[k]), nil)
				}
			}
			j.comparePost(si, st, after)
			recs[si] = stepRecord{Seen: []string{"tick"}, Tab: after, Valid: true}
		case "cleanup":
			ref := r.rfx.VerifSnap(time.Second)
			before := r.tableAt(ref)
			r.rfx.VerifCleanup()
			after := r.tableAt(ref)
			for _, k := range sortedKeys(before.E) {
				x, y := before.E[k], after.E[k]
				switch {
				case x.On && x.Ls >= 600 && y.On:
					j.violate(si, "reflex/cleanup-kept", fmt.Sprintf("cleanup kept the entry of %s, idle for %d s (entries expire after ten minutes)", k, x.Ls), nil)
				case x.On && x.Ls < 600 && !y.On:
					j.violate(si, "reflex/cleanup-removed", fmt.Sprintf("cleanup removed the entry of %s, idle for only %d s", k, x.Ls), nil)
				case x.On && y.On && !sameEntry(x, y), !x.On && y.On:
					j.violate(si, "reflex/cleanup-changed", fmt.Sprintf("cleanup changed the entry of %s: %s -> %s", k, x, y), nil)
				}
			}
			j.comparePost(si, st, after)
			recs[si] = stepRecord{Seen: []string{"cleanup"}, Tab: after, Valid: true}
		case "call":
			eff := st
			folded := false
			if forceMsg && st.Entry != "msg" {
				eff.Entry = "msg"
				if st.Entry == "inline" && si+1 < len(b.Steps) && b.Steps[si+1].Op == "replay" && b.Steps[si+1].ID == st.ID {
					skip[si+1] = true
					folded = true
				}
			}
			rec := stepRecord{Valid: !folded}
			var after tableObs
			for i := 0; i < max(st.Cnt, 1); i++ {
				q, err := r.build(eff)
				if err != nil {
					return recs, false, err
				}
				ref := r.rfx.VerifSnap(time.Second)
				before := r.tableAt(ref)
				o := r.serve(q)
				after = r.tableAt(ref)
				own := q.cl.Key
				if time.Since(ref) > 400*time.Millisecond {
					return recs, true, nil // the machine stalled inside a request: ages can no longer be told in whole seconds
				}
				if o.Handoff {
					f := inlineFacts{replied: o.Replied}
					if after.E[own].On {
						f.scored = after.E[own].Tq
						if before.E[own].On {
							f.scored -= before.E[own].Tq
						}
						f.resp = after.E[own].Resp
						if before.E[own].On {
							f.resp -= before.E[own].Resp
						}
					}
					inline[st.ID] = f
				}
				j.verdicts(si, q, o, before, after, false, inlineFacts{})
				if !forceMsg {
					if st.Exp != nil && i < len(st.Exp.Decs) {
						j.compare(si, st.Exp.Decs[i], 0, o)
					}
					if (st.Entry == "wire" || st.Entry == "inline") && o.WirePath {
						res.Count("wire_born", 1)
					}
					res.Count("seen_"+o.seen(), 1)
					res.Count("entry_"+st.Entry, 1)
					res.Count("requests", 1)
					if jit := after.E[own].Jit; after.E[own].On && q.st.Proto == "udp" && jit > 30*time.Millisecond {
						res.Count("clock_jitter_over_30ms", 1)
					}
				}
				rec.Seen = append(rec.Seen, o.seen())
				rec.Tail += o.TailDelta
			}
			if !forceMsg {
				if st.Exp != nil && !j.drifted && st.Exp.Tail != rec.Tail {
					j.drift(si, "model asks the upstream %d times, code %d", st.Exp.Tail, rec.Tail)
				}
				j.comparePost(si, st, after)
			}
			rec.Tab = after
			recs[si] = rec
			if folded {
				recs[si+1] = stepRecord{Seen: rec.Seen, Tail: rec.Tail, Tab: after, Valid: true}
			}
		case "replay":
			if skip[si] {
				continue
			}
			ref := r.rfx.VerifSnap(time.Second)
			before := r.tableAt(ref)
			o, q, ok := r.replay(st.ID)
			if !ok {
				if forceMsg {
					return recs, false, nil
				}
				j.drift(si, "model replays job %d, the code never handed it off", st.ID)
				continue
			}
			after := r.tableAt(ref)
			if time.Since(ref) > 400*time.Millisecond {
				return recs, true, nil
			}
			j.verdicts(si, q, o, before, after, true, inline[st.ID])
			if !forceMsg {
				if st.Exp != nil && len(st.Exp.Decs) > 0 {
					j.compare(si, st.Exp.Decs[0], 0, o)
					if !j.drifted && st.Exp.Tail != o.TailDelta {
						j.drift(si, "model asks the upstream %d times, code %d", st.Exp.Tail, o.TailDelta)
					}
				}
				j.comparePost(si, st, after)
				res.Count("seen_"+o.seen(), 1)
				res.Count("entry_replay", 1)
				res.Count("requests", 1)
			}
			recs[si] = stepRecord{Seen: []string{o.seen()}, Tail: o.TailDelta, Tab: after, Valid: true}
		default:
			return recs, false, fmt.Errorf("unknown op %q", st.Op)
		}
	}
	if len(r.jobs) > 0 && !forceMsg {
		res.Count("jobs_left_pending", len(r.jobs))
	}
	if j.drifted {
		return recs, false, errDrift
	}
	return recs, time.Since(t0) > 5*time.Second, nil
}

// twinEligible: every handoff of the model is replayed by the very next step.
func twinEligible(b *behaviour) bool {
	open := map[int]bool{}
	for i, st := range b.Steps {
		switch st.Op {
		case "call":
			if st.Entry == "inline" && st.Exp != nil && len(st.Exp.Decs) == 1 && st.Exp.Decs[0] == "handoff" {
				if i+1 >= len(b.Steps) || b.Steps[i+1].Op != "replay" || b.Steps[i+1].ID != st.ID {
					return false
				}
				open[st.ID] = true
			}
		case "replay":
			if !open[st.ID] {
				return false
			}
		}
	}
	return true
}

func TestReplay(t *testing.T) {
	var in replayInput
	vh.Input(t, &in)
	res := vh.NewResult()
	defer res.Write(t)
	if err := calibrate(); err != nil {
		res.Skip("calibration: %v", err)
		return
	}
	doReplay(sink{res, ""}, in)
}

func doReplay(res sink, in replayInput) {
	for bi := range in.Behaviours {
		b := &in.Behaviours[bi]
		recs, stalled, err := runBehaviour(res, b, false)
		if err != nil && err != errDrift {
			res.Skip("%s: %v", b.Name, err)
			continue
		}
		if stalled {
			res.Count("stalled", 1)
			continue
		}
		key := b.Cfg.Mode + fmt.Sprint(b.Cfg.Thr, b.Cfg.Cap) + ":"
		for _, st := range b.Steps {
			key += st.Label + ";"
		}
		res.Case(key)
		res.Count("behaviours", 1)
		res.Count("steps", len(b.Steps))
		if err == errDrift {
			res.Count("drifted", 1)
		}
		if bi < 3 && len(recs) > 0 {
			res.Sample(map[string]any{"behaviour": b.Name, "steps": len(b.Steps), "last": recs[len(recs)-1].Seen})
		}
		if !in.Twin || !twinEligible(b) || err == errDrift {
			continue
		}
		// the decoded and the wire-born entries decide and account alike: the same history through ServeMsg only.
		// This is C05's statement; here a difference is drift, counted and described.
		twin, tstalled, terr := runBehaviour(res, b, true)
		if terr != nil || tstalled {
			res.Count("twin_skipped", 1)
			continue
		}
		res.Count("twins", 1)
		for si := range recs {
			x, y := recs[si], twin[si]
			if !x.Valid || !y.Valid {
				continue
			}
			st := b.Steps[si]
			if len(x.Seen) == 1 && x.Seen[0] == "handoff" {
				if si+1 < len(b.Steps) && b.Steps[si+1].Op == "replay" && b.Steps[si+1].ID == st.ID {
					continue
				}
				break
			}
			diff, class := "", ""
			switch {
			case strings.Join(x.Seen, ",") != strings.Join(y.Seen, ","):
				diff, class = fmt.Sprintf("entry %s: %v, decoded entry: %v", st.Entry, x.Seen, y.Seen), "twin_decides_differently"
			case x.Tail != y.Tail:
				diff, class = fmt.Sprintf("entry %s asks the upstream %d times, decoded entry %d times", st.Entry, x.Tail, y.Tail), "twin_upstream_differs"
			case !sameTable(x.Tab, y.Tab):
				diff, class = fmt.Sprintf("table after entry %s: %s; after the decoded entry: %s", st.Entry, x.Tab, y.Tab), "twin_accounts_differently"
			}
			if diff != "" {
				res.Count(class, 1)
				res.DriftNote("%s step %d (%s) [%s mode]: the same request history differs by entry point: %s", b.Name, si, st.Label, b.Cfg.Mode, diff)
				break
			}
		}
	}
}
