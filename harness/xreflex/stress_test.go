package xreflex

// code -> spec: free-running concurrency, and a handful of fixed scenarios.
//
// TestStress: a few goroutines fire requests of two clients, a loopback client, the internal sentinel and a denied
// source at one real server through every entry point at once (inline passes whose replay comes later), all inside
// one second of the tracker's clock and below the byte thresholds of the score.  Every call logs an invocation line
// before it starts and a response line after it returned, both stamped under one harness-side lock; the quiescent
// table closes the round.  TLC validates the log against Trace_Reflex.tla (linearizability with respect to
// Reflex.tla, Obs* invariants on the lines).  The order-independent totals are judged here as well: every UDP query
// of a client is scored once, every watched response that left is recorded once, whatever the interleaving.

import (
	"encoding/base64"
	"encoding/json"
	"fmt"
	"math/rand"
	"os"
	"path/filepath"
	"sync"
	"testing"
	"time"

	"github.com/semihalev/sdns/config"
	"github.com/semihalev/sdns/verifharness/vh"
)

func toBase64(b []byte) string { return base64.StdEncoding.EncodeToString(b) }

type stressInput struct {
	Rounds   int    `json:"rounds"`
	Procs    int    `json:"procs"`
	Ops      int    `json:"ops"`
	TraceOut string `json:"traceOut"`
}

type tracer struct {
	mu    sync.Mutex
	lines []map[string]any
	nid   int
	open  int
	over  int
}

func (t *tracer) inv(p int, op string, st *step) {
	t.mu.Lock()
	defer t.mu.Unlock()
	if op == "call" {
		t.nid++
		st.ID = t.nid
	}
	if t.open > 0 {
		t.over++
	}
	t.open++
	t.lines = append(t.lines, map[string]any{"ev": "inv", "op": op, "p": p, "id": st.ID, "c": st.C, "proto": st.Proto, "t": st.T,
		"entry": st.Entry, "n": st.N})
}

func (t *tracer) res(p int, o observation) {
	t.mu.Lock()
	defer t.mu.Unlock()
	t.open--
	t.lines = append(t.lines, map[string]any{"ev": "res", "p": p, "kind": o.seen(), "nw": o.NWrites})
}

func TestStress(t *testing.T) {
	var in stressInput
	vh.Input(t, &in)
	res := vh.NewResult()
	defer res.Write(t)
	if err := calibrate(); err != nil {
		res.Skip("calibration: %v", err)
		return
	}
	runStress(t, sink{res, ""}, in)
}

func runStress(t *testing.T, res sink, in stressInput) {
	rnd := rand.New(rand.NewSource(vh.Seed()*7919 + 23))
	keys := []string{"k1", "k2", "kd"}
	var all []map[string]any
	for round := 0; round < in.Rounds; round++ {
		b := &behaviour{Name: fmt.Sprintf("stress-%d", round), Cfg: rigCfg{Thr: 33, Mode: "block", Cap: 8}, Keys: keys, Types: []string{"TXT", "A"}}
		r, err := newRig(b.Cfg, keys)
		if err != nil {
			res.Skip("stress rig: %v", err)
			return
		}
		j := &judge{res: res, r: r, b: b, variant: "stress"}
		for _, ty := range b.Types {
			q, _ := r.build(step{C: "lo", Proto: "tcp", T: ty, Entry: "msg", N: "hot"})
			if o := r.serve(q); !o.Answered {
				res.Skip("stress warm-up: %s", o.seen())
				r.close()
				return
			}
		}
		tr := &tracer{}
		tr.lines = append(tr.lines, map[string]any{"ev": "Reset"})
		plans := make([][]step, in.Procs)
		for p := range plans {
			for k := 0; k < in.Ops; k++ {
				st := step{Op: "call", Cnt: 1, C: []string{"c1", "c1", "c1", "c2", "c2", "lo", "ints", "den"}[rnd.Intn(8)],
					Proto: []string{"udp", "udp", "udp", "udp", "tcp"}[rnd.Intn(5)], T: []string{"TXT", "TXT", "TXT", "A"}[rnd.Intn(4)],
					Entry: []string{"msg", "wire", "inline"}[rnd.Intn(3)], N: []string{"hot", "fresh"}[rnd.Intn(2)]}
				if st.Proto != "udp" && st.Entry == "inline" {
					st.Entry = "wire"
				}
				st.Label = fmt.Sprintf("%s/%s/%s/%s/%s", st.C, st.Proto, st.T, st.Entry, st.N)
				plans[p] = append(plans[p], st)
			}
		}
		b.Steps = nil
		for _, pl := range plans {
			b.Steps = append(b.Steps, pl...)
		}
		var tot sync.Mutex
		scored := map[string]int{}
		bytes := map[string]int{}
		note := func(q *request, o observation, isReplay bool) {
			// c11 / c17 / exemption predicates that need no table (the table moves under other goroutines)
			ctx := map[string]any{"seen": o.seen(), "client": q.st.C, "proto": q.st.Proto, "entry": q.st.Entry}
			if o.NWrites > 1 || (o.Handoff && o.Replied) {
				j.violate(0, "c11/two-replies", fmt.Sprintf("%d replies to one query under concurrency", o.NWrites), ctx)
			}
			for _, bad := range o.Bad {
				j.violate(0, "c11/reply-not-for-query", "the reply is not a reply to the query: "+bad, ctx)
			}
			seen := o.seen()
			switch q.cl.Origin {
			case "internal":
				if seen == "refused" || seen == "silent" {
					j.violate(0, "c17/internal-subjected", "an internal query was turned away by the reflection policy ("+seen+")", ctx)
				}
			case "loopback":
				if seen == "refused" || seen == "silent" {
					j.violate(0, "reflex/loopback-subjected", "a loopback query was turned away ("+seen+")", ctx)
				}
			case "denied":
				if o.Replied || o.TailDelta != 0 || o.Handoff {
					j.violate(0, "c17/denied-replied", "a source outside the access list was served ("+seen+")", ctx)
				}
			case "client":
				if q.st.Proto != "udp" && (seen == "refused" || seen == "silent") {
					j.violate(0, "reflex/proven-subjected", "a query over "+q.st.Proto+" was turned away ("+seen+")", ctx)
				}
				if isReplay && seen != "pass" {
					j.violate(0, "reflex/replay-decided", "the replay pass of an admitted query ended "+seen, ctx)
				}
				tot.Lock()
				if q.st.Proto == "udp" && !isReplay {
					scored[q.cl.Key]++
				}
				if q.st.Proto == "udp" && seen == "pass" && respLen[q.st.T] > 0 {
					bytes[q.cl.Key] += len(o.Reply)
				}
				tot.Unlock()
			}
		}
		var wg sync.WaitGroup
		start := make(chan struct{})
		for p := range plans {
			wg.Add(1)
			go func(p int) {
				defer wg.Done()
				lr := rand.New(rand.NewSource(int64(round*100 + p)))
				<-start
				var owed []step
				flush := func() {
					for _, st := range owed {
						st := st
						tr.inv(p+1, "replay", &st)
						o, q, ok := r.replay(st.ID)
						if !ok {
							panic("stress: lost a handed-off job")
						}
						tr.res(p+1, o)
						note(q, o, true)
					}
					owed = nil
				}
				for k := range plans[p] {
					st := plans[p][k]
					tr.inv(p+1, "call", &st)
					q, err := r.build(st)
					if err != nil {
						panic(err)
					}
					o := r.serve(q)
					tr.res(p+1, o)
					note(q, o, false)
					if o.Handoff {
						owed = append(owed, st)
					}
					if len(owed) > 0 && lr.Intn(2) == 0 {
						flush()
					}
				}
				flush()
			}(p)
		}
		t0 := time.Now()
		close(start)
		wg.Wait()
		took := time.Since(t0)
		tab := r.table()
		r.close()
		if took > 700*time.Millisecond {
			res.Count("stalled_rounds", 1) // the tracker's real clock may have crossed a second: not recorded
			continue
		}
		end := map[string]any{"ev": "end"}
		tq, resp, tcp := map[string]int{}, map[string]int{}, map[string]bool{}
		for _, k := range keys {
			e := tab.E[k]
			tq[k], resp[k], tcp[k] = e.Tq, e.Resp, e.Tcp
			if k == "kd" {
				if e.On {
					j.violate(0, "reflex/denied-scored", "a source outside the access list has an entry in the reflection table", nil)
				}
				continue
			}
			ctx := map[string]any{"table": tab.String(), "udp_queries": scored[k], "response_bytes_sent": bytes[k]}
			if e.Tq != scored[k] {
				j.violate(0, "reflex/concurrent-score-count", fmt.Sprintf("%s sent %d UDP queries concurrently, its entry counts %d", k, scored[k], e.Tq), ctx)
			}
			if e.On && e.Resp != bytes[k] {
				j.violate(0, "reflex/concurrent-response-bytes", fmt.Sprintf("%s received %d bytes of watched responses, its entry records %d", k, bytes[k], e.Resp), ctx)
			}
		}
		if tab.Len > 2 {
			j.violate(0, "reflex/exempt-tracked", fmt.Sprintf("two clients sent tracked traffic, the table holds %d entries: %s", tab.Len, tab), nil)
		}
		end["tq"], end["resp"], end["tcp"] = tq, resp, tcp
		tr.lines = append(tr.lines, end)
		all = append(all, tr.lines...)
		res.Count("rounds", 1)
		res.Count("calls", len(tr.lines)/2)
		res.Count("overlapping_calls", tr.over)
		res.Case(fmt.Sprintf("stress-round-%d-%d", vh.Seed(), round))
	}
	if in.TraceOut != "" {
		f, err := os.Create(in.TraceOut)
		if err != nil {
			t.Fatalf("trace file: %v", err)
		}
		enc := json.NewEncoder(f)
		for _, l := range all {
			_ = enc.Encode(l)
		}
		_ = f.Close()
		res.Count("trace_lines", len(all))
	}
}

// ---- fixed scenarios --------------------------------------------------------------------------------------------

func runFixed(res sink) {
	// F1: reflex stands behind the rate limiter (doc.go: accesslist, ratelimit, reflex): a query the limiter drops is not scored
	{
		b := &behaviour{Name: "fixed-position", Cfg: rigCfg{Thr: 33, Mode: "block", RateLimit: 3}, Keys: []string{"k1"}, Types: []string{"TXT"}}
		r, err := newRig(b.Cfg, b.Keys)
		if err != nil {
			res.Skip("fixed: %v", err)
			return
		}
		j := &judge{res: res, r: r, b: b, variant: "fixed"}
		replies := 0
		for i := 0; i < 8; i++ {
			q, _ := r.build(step{ID: i + 1, C: "c1", Proto: "udp", T: "TXT", Entry: []string{"msg", "wire", "inline"}[i%3], N: "fresh"})
			o := r.serve(q)
			if o.Handoff {
				o, _, _ = r.replay(i + 1)
			}
			if o.Replied {
				replies++
			}
		}
		e := r.entry("k1")
		res.Count("position_replies", replies)
		if replies == 0 || replies == 8 {
			res.Skip("fixed-position: the rate limiter admitted %d of 8 queries (clientratelimit = 3)", replies)
		} else if e.Tq != replies {
			j.violate(0, "reflex/scored-rate-limited", fmt.Sprintf("clientratelimit admitted %d of 8 queries, reflex scored %d: a query the limiter dropped reached reflex", replies, e.Tq),
				map[string]any{"entry": e.String()})
		}
		r.close()
		res.Case("fixed-position")
	}
	// F2 (observation): a proof that arrives before the first UDP query is not remembered
	{
		b := &behaviour{Name: "fixed-tcp-first", Cfg: rigCfg{Thr: 33, Mode: "block"}, Keys: []string{"k2"}, Types: []string{"TXT"}}
		r, err := newRig(b.Cfg, b.Keys)
		if err != nil {
			res.Skip("fixed: %v", err)
			return
		}
		q, _ := r.build(step{C: "c2", Proto: "tcp", T: "TXT", Entry: "msg", N: "fresh"})
		r.serve(q)
		refused := 0
		for i := 0; i < 12; i++ {
			q, _ := r.build(step{C: "c2", Proto: "udp", T: "TXT", Entry: "msg", N: "fresh"})
			if r.serve(q).seen() == "refused" {
				refused++
			}
		}
		if refused > 0 {
			res.Count("obs_tcp_first_proof_lost", 1)
		}
		// ... and the same client is served again once it comes back over TCP
		q, _ = r.build(step{C: "c2", Proto: "tcp", T: "TXT", Entry: "wire", N: "fresh"})
		r.serve(q)
		q, _ = r.build(step{C: "c2", Proto: "udp", T: "TXT", Entry: "msg", N: "fresh"})
		if o := r.serve(q); refused > 0 && o.seen() != "pass" {
			j := &judge{res: res, r: r, b: b, variant: "fixed"}
			j.violate(0, "reflex/refused-proven-client", "a refused client came back over TCP and was still turned away over UDP ("+o.seen()+")", nil)
		}
		r.close()
		res.Case("fixed-tcp-first")
	}
	// F5 (observation, C05's subject): in a mode that only logs, the response of a suspicious query is recorded on the
	// replay pass of the inline entry and on no other entry
	{
		got := map[string]int{}
		for _, entry := range []string{"msg", "wire", "inline"} {
			r, err := newRig(rigCfg{Thr: 33, Mode: "monitor"}, []string{"k1"})
			if err != nil {
				res.Skip("fixed: %v", err)
				return
			}
			q, _ := r.build(step{C: "lo", Proto: "tcp", T: "TXT", Entry: "msg", N: "hot"})
			r.serve(q)
			for i := 0; i < 11; i++ {
				q, _ := r.build(step{C: "c1", Proto: "udp", T: "TXT", Entry: "msg", N: "hot"})
				r.serve(q)
			}
			before := r.entry("k1")
			q, _ = r.build(step{ID: 99, C: "c1", Proto: "udp", T: "TXT", Entry: entry, N: "hot"})
			o := r.serve(q)
			if o.Handoff {
				r.replay(99)
			}
			got[entry] = r.entry("k1").Resp - before.Resp
			r.close()
		}
		if got["inline"] != got["msg"] || got["wire"] != got["msg"] {
			res.Count("obs_monitor_mode_logged_query_response_recorded_only_by_inline_replay", 1)
			res.Count(fmt.Sprintf("obs_monitor_resp_delta_msg_%d_wire_%d_inline_%d", got["msg"], got["wire"], got["inline"]), 1)
		}
		res.Case("fixed-monitor-inline")
	}
	// F3 (observation): the threshold's documented range is 0.0-1.0
	for _, c := range []struct {
		thr  float64
		want float64
	}{{0, 0}, {1.0, 1.0}, {1.5, 1.5}, {-0.2, -0.2}} {
		r, err := newRig(rigCfg{Thr: int(c.thr * 100), Mode: "block"}, nil)
		if err != nil {
			res.Skip("fixed: %v", err)
			return
		}
		if got := r.rfx.VerifThreshold(); got != c.want {
			res.Count(fmt.Sprintf("obs_threshold_%g_read_as_%g", c.thr, got), 1)
		}
		r.close()
	}
	// F4 (observation): "reflexblockmode ... Default: true" -- a configuration file that enables reflex and omits the key
	if dir := os.Getenv("VERIF_SCRATCH"); dir != "" {
		_ = os.MkdirAll(dir, 0o755)
		p := filepath.Join(dir, "reflex-default.conf")
		work := filepath.Join(dir, "reflex-default-dir")
		_ = os.WriteFile(p, []byte(fmt.Sprintf("version = \"1.8.0\"\ndirectory = %q\nbind = \"127.0.0.1:0\"\nipv6access = true\nreflexenabled = true\n", work)), 0o644)
		if cfg, err := config.Load(p, "verif"); err == nil {
			if cfg.ReflexEnabled && !cfg.ReflexBlockMode {
				res.Count("obs_blockmode_default_false_when_omitted", 1)
			}
		} else {
			res.Count("obs_config_load_failed", 1)
		}
	}
	res.Case("fixed-config")
}

func TestFixed(t *testing.T) {
	res := vh.NewResult()
	defer res.Write(t)
	if os.Getenv("VERIF_IN") == "" {
		t.Skip("run by bin/check")
	}
	if err := calibrate(); err != nil {
		res.Skip("calibration: %v", err)
		return
	}
	runFixed(sink{res, ""})
}

// TestAll runs the free-running stage, the sequential replay and the fixed scenarios in one process.
func TestAll(t *testing.T) {
	var in struct {
		Replay *replayInput `json:"replay"`
		Stress *stressInput `json:"stress"`
		Fixed  bool         `json:"fixed"`
	}
	vh.Input(t, &in)
	res := vh.NewResult()
	defer res.Write(t)
	if err := calibrate(); err != nil {
		res.Skip("calibration: %v", err)
		return
	}
	if in.Stress != nil {
		runStress(t, sink{res, "stress_"}, *in.Stress)
	}
	if in.Replay != nil {
		doReplay(sink{res, "replay_"}, *in.Replay)
	}
	if in.Fixed {
		runFixed(sink{res, "fixed_"})
	}
}
