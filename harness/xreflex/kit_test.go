package xreflex

// XREFLEX: the reflex (amplification / reflection detection) middleware -- the shared kit of the drivers.
//
// A rig is ONE real server: the default chain recovery .. cache (accesslist, ratelimit, reflex, edns, ... in the
// documented order) with a scripted tail in the resolver's place (pipe.NewServer(cfg, tail, "failover")), reflex
// enabled with the model's threshold and mode.  Every entry of the model is an entry point of that server:
//
//   msg     Server.ServeMsg with the library-decoded message on a plain transport double (udp / tcp / doh / doq)
//   wire    Server.ServeRaw on a strict-slot transport (server.VerifStrictJob)
//   inline  Server.ServeRawInline on a strict-slot transport; a false return is the handoff
//   replay  Server.ServeRawReplay on the SAME job and packet
//
// The per-IP table is observed (never touched) through the overlay shim Reflex.VerifPeek / VerifKeys; time is moved
// by Reflex.VerifAdvance (stored stamps shifted into the past) and the real time that leaks in between two steps is
// removed by Reflex.VerifSnap right before every request, so an entry's age is a whole number of seconds plus the
// microseconds the request itself takes to reach the tracker.

import (
	"context"
	"fmt"
	"net"
	"os"
	"sort"
	"strings"
	"sync"
	"sync/atomic"
	"time"

	"github.com/miekg/dns"
	"github.com/semihalev/sdns/middleware"
	"github.com/semihalev/sdns/middleware/reflex"
	"github.com/semihalev/sdns/server"
	"github.com/semihalev/sdns/verifharness/pipe"
	"github.com/semihalev/sdns/verifharness/vh"
)

// sink is the driver result with a counter prefix (several drivers share one result file).
type sink struct {
	*vh.Result
	pfx string
}

func (s sink) Count(name string, n int) { s.Result.Count(s.pfx+name, n) }

// ---- model vocabulary -------------------------------------------------------------------------------

// reqLen is the wire length of every request the drivers send (header 12 + 23-byte name + 4 + 11-byte OPT).
const reqLen = 50

// respLen is the wire length of the reply a client receives per question type (types reflex watches the response of).
var respLen = map[string]int{"DNSKEY": 1200, "TXT": 400, "MX": 150, "SOA": 150}

var qtypeOf = map[string]uint16{"A": dns.TypeA, "AAAA": dns.TypeAAAA, "TXT": dns.TypeTXT, "DNSKEY": dns.TypeDNSKEY,
	"MX": dns.TypeMX, "SOA": dns.TypeSOA, "PTR": dns.TypePTR}

// the bit reflex's type bitmap uses per type (middleware/reflex/tracker.go qtypeToBit), to name what the shim shows
var bitName = map[int]string{0: "A", 1: "NS", 2: "CNAME", 3: "SOA", 4: "PTR", 5: "MX", 6: "TXT", 7: "AAAA", 8: "SRV", 9: "DS",
	10: "RRSIG", 11: "NSEC", 12: "DNSKEY", 13: "NSEC3", 14: "TLSA", 15: "other"}

// client: who sends.  Key is the model's name of the table key the code should use for it ("" = never tracked).
type client struct {
	IP       net.IP
	Key      string
	Origin   string // client | loopback | internal | denied
	Internal bool   // the transport reports Internal()
	Port     int    // 0 = pick one
}

var clients = map[string]client{
	"c1":   {IP: net.IPv4(198, 51, 100, 11).To4(), Key: "k1", Origin: "client"},
	"c1m":  {IP: net.IPv4(198, 51, 100, 11).To16(), Key: "k1", Origin: "client"}, // the SAME address, 16-byte v4-mapped form
	"c2":   {IP: net.IPv4(198, 51, 100, 12).To4(), Key: "k2", Origin: "client"},
	"c3":   {IP: net.IPv4(198, 51, 100, 13).To4(), Key: "k3", Origin: "client"},
	"c4":   {IP: net.IPv4(198, 51, 100, 14).To4(), Key: "k4", Origin: "client"},
	"v6a":  {IP: net.ParseIP("2001:db8:0:1::a"), Key: "k6a", Origin: "client"},
	"v6b":  {IP: net.ParseIP("2001:db8:0:1::b"), Key: "k6b", Origin: "client"}, // same /64 as v6a
	"lo":   {IP: net.IPv4(127, 0, 0, 21).To4(), Key: "", Origin: "loopback"},
	"lo6":  {IP: net.ParseIP("::1"), Key: "", Origin: "loopback"},
	"int":  {IP: net.IPv4(198, 51, 100, 11).To4(), Key: "", Origin: "internal", Internal: true}, // c1's address, internal transport
	"ints": {IP: net.IPv4(127, 0, 0, 255).To4(), Key: "", Origin: "internal", Port: -1},         // the sentinel of synthesised queries
	"den":  {IP: net.IPv4(203, 0, 113, 9).To4(), Key: "kd", Origin: "denied"},                   // outside the access list
}

// keyIP: the table key the code derives (RemoteIP().String()) for each model key.
var keyIP = map[string]string{"k1": "198.51.100.11", "k2": "198.51.100.12", "k3": "198.51.100.13", "k4": "198.51.100.14",
	"k6a": "2001:db8:0:1::a", "k6b": "2001:db8:0:1::b", "kd": "203.0.113.9"}

var accessList = []string{"198.51.100.0/24", "2001:db8::/32", "127.0.0.0/8", "::1/128"}

type entryObs struct {
	On    bool   `json:"on"`
	Fs    int    `json:"fs"` // age of FirstSeen in whole seconds
	Ls    int    `json:"ls"` // age of LastSeen
	Tq    int    `json:"tq"`
	Haq   int    `json:"haq"`
	Amp   int    `json:"amp"`
	Req   int    `json:"req"`
	Resp  int    `json:"resp"`
	Tcp   bool   `json:"tcp"`
	Norm  bool   `json:"norm"`
	Types string `json:"types"` // sorted type names, comma separated
	Score int    `json:"score"` // hundredths
	Jit   time.Duration
}

func (e entryObs) String() string {
	if !e.On {
		return "absent"
	}
	return fmt.Sprintf("{age %d/%d tq %d haq %d amp %d req %d resp %d tcp %v norm %v types %s score %d}",
		e.Fs, e.Ls, e.Tq, e.Haq, e.Amp, e.Req, e.Resp, e.Tcp, e.Norm, e.Types, e.Score)
}

func sameEntry(a, b entryObs) bool {
	a.Jit, b.Jit = 0, 0
	return a == b
}

type tableObs struct {
	E   map[string]entryObs // model key -> entry
	Lru []string            // model keys (or raw addresses the model has no name for), least recently seen first
	Len int
}

func (t tableObs) String() string {
	s := ""
	for _, k := range sortedKeys(t.E) {
		s += k + ":" + t.E[k].String() + " "
	}
	return s + "lru=" + strings.Join(t.Lru, ",")
}

func sameTable(a, b tableObs) bool {
	if a.Len != b.Len || strings.Join(a.Lru, ",") != strings.Join(b.Lru, ",") {
		return false
	}
	for k, x := range a.E {
		if !sameEntry(x, b.E[k]) {
			return false
		}
	}
	return true
}

// ---- the rig --------------------------------------------------------------------------------------------

type rigCfg struct {
	Thr       int    `json:"thr"`  // threshold in hundredths
	Mode      string `json:"mode"` // block | monitor | learning
	Cap       int    `json:"cap"`  // table bound (0 = production)
	RateLimit int    `json:"rateLimit"`
}

type pendingJob struct {
	job *server.VerifStrictJob
	raw []byte
	req *request
}

type rig struct {
	cfg   rigCfg
	srv   *server.Server
	rfx   *reflex.Reflex
	tail  *pipe.Tail
	tag   string
	keys  []string // model keys watched
	mu    sync.Mutex
	hits  map[string]int
	jobs  map[int]*pendingJob
	fresh atomic.Int64
	seq   atomic.Int64

	gated  bool
	gates  map[string]chan struct{}
	parked chan string
}

var rigSeq atomic.Int64

// pads: rdata filler per watched type so that a client receives exactly respLen[type] bytes; calibrated once per process.
var (
	padMu   sync.Mutex
	pads    = map[string]int{"DNSKEY": 1100, "TXT": 330, "MX": 60, "SOA": 40}
	padDone bool
)

func newRig(c rigCfg, keys []string) (*rig, error) {
	r := &rig{cfg: c, keys: keys, hits: map[string]int{}, jobs: map[int]*pendingJob{}, gates: map[string]chan struct{}{},
		parked: make(chan string, 256)}
	r.tag = fmt.Sprintf("r%04d", rigSeq.Add(1)%10000)
	r.tail = &pipe.Tail{Respond: r.respond}
	cfg := pipe.BaseConfig()
	if d := os.Getenv("VERIF_SCRATCH"); d != "" {
		cfg.Directory = d
	} else {
		cfg.Directory = os.TempDir()
	}
	cfg.AccessList = append([]string(nil), accessList...)
	cfg.ClientRateLimit = c.RateLimit
	cfg.ReflexEnabled = true
	cfg.ReflexThreshold = float64(c.Thr) / 100
	cfg.ReflexBlockMode = c.Mode != "monitor" // learning: the shipped default (block mode on) with learning mode switched on
	cfg.ReflexLearningMode = c.Mode == "learning"
	srv, release := pipe.NewServer(cfg, r.tail, "failover")
	r.srv = srv
	r.rfx, _ = middleware.Get("reflex").(*reflex.Reflex)
	release()
	if r.rfx == nil {
		return nil, fmt.Errorf("pipeline has no reflex handler")
	}
	if c.Cap > 0 {
		r.rfx.VerifSetMax(c.Cap)
	}
	return r, nil
}

func (r *rig) close() {
	r.releaseAll()
	_ = r.rfx.Close()
}

func (r *rig) respond(_ context.Context, _ *middleware.Chain, req *dns.Msg) *dns.Msg {
	q := req.Question[0]
	name := strings.ToLower(q.Name)
	r.mu.Lock()
	r.hits[name]++
	gated := r.gated
	var g chan struct{}
	if gated {
		var ok bool
		if g, ok = r.gates[name]; !ok {
			g = make(chan struct{})
			r.gates[name] = g
		}
	}
	r.mu.Unlock()
	if gated {
		r.parked <- name
		<-g
	}
	m := new(dns.Msg)
	m.SetReply(req)
	m.RecursionAvailable = true
	m.Compress = true
	m.Answer = answerFor(q)
	return m
}

func (r *rig) release(name string) {
	r.mu.Lock()
	g, ok := r.gates[name]
	if !ok {
		g = make(chan struct{})
		r.gates[name] = g
	}
	r.mu.Unlock()
	select {
	case <-g:
	default:
		close(g)
	}
}

func (r *rig) releaseAll() {
	r.mu.Lock()
	defer r.mu.Unlock()
	r.gated = false
	for _, g := range r.gates {
		select {
		case <-g:
		default:
			close(g)
		}
	}
}

func padName(n int) string {
	// a name of exactly n wire bytes (n >= 3) under a TLD nothing else uses
	n-- // root
	var labels []string
	for n > 0 {
		l := n - 1
		if l > 60 {
			l = 60
		}
		if n-1-l == 1 { // a 0-length label cannot follow
			l--
		}
		labels = append(labels, strings.Repeat("p", l))
		n -= l + 1
	}
	return strings.Join(labels, ".") + "."
}

// answerFor is what the scripted upstream answers: one RRset of the type asked, padded for the watched types.
func answerFor(q dns.Question) []dns.RR {
	h := dns.RR_Header{Name: q.Name, Rrtype: q.Qtype, Class: dns.ClassINET, Ttl: 300}
	padMu.Lock()
	p := pads[dns.TypeToString[q.Qtype]]
	padMu.Unlock()
	switch q.Qtype {
	case dns.TypeA:
		return []dns.RR{&dns.A{Hdr: h, A: net.IPv4(10, 1, 2, 3).To4()}}
	case dns.TypeAAAA:
		return []dns.RR{&dns.AAAA{Hdr: h, AAAA: net.ParseIP("2001:db8::53")}}
	case dns.TypePTR:
		return []dns.RR{&dns.PTR{Hdr: h, Ptr: "host.example."}}
	case dns.TypeTXT:
		var ss []string
		for p > 0 {
			n := p - 1
			if n > 255 {
				n = 255
			}
			ss = append(ss, strings.Repeat("t", n))
			p -= n + 1
		}
		return []dns.RR{&dns.TXT{Hdr: h, Txt: ss}}
	case dns.TypeDNSKEY:
		key := make([]byte, p)
		for i := range key {
			key[i] = byte(i*7 + 1)
		}
		return []dns.RR{&dns.DNSKEY{Hdr: h, Flags: 256, Protocol: 3, Algorithm: 13, PublicKey: toBase64(key)}}
	case dns.TypeMX:
		return []dns.RR{&dns.MX{Hdr: h, Preference: 10, Mx: padName(p)}}
	case dns.TypeSOA:
		return []dns.RR{&dns.SOA{Hdr: h, Ns: "ns.pad.", Mbox: padName(p), Serial: 1, Refresh: 3600, Retry: 600, Expire: 86400, Minttl: 60}}
	}
	return nil
}

func (r *rig) asked(name string) int {
	r.mu.Lock()
	defer r.mu.Unlock()
	return r.hits[strings.ToLower(name)]
}

// qname: a 23-byte name; "hot" is one name per rig (cached after its first answer), "fresh" a new one every time.
func (r *rig) qname(n string) string {
	if n == "hot" {
		return fmt.Sprintf("hot000.%s.rfx.test.", r.tag)
	}
	return fmt.Sprintf("f%05d.%s.rfx.test.", r.fresh.Add(1)%100000, r.tag)
}

// ---- requests --------------------------------------------------------------------------------------------

type step struct {
	Op    string   `json:"op"` // call | replay | tick | cleanup | warm
	ID    int      `json:"id"`
	C     string   `json:"c"`
	Proto string   `json:"proto"`
	T     string   `json:"t"`
	Entry string   `json:"entry"`
	N     string   `json:"n"` // hot | fresh
	Cnt   int      `json:"cnt"`
	K     int      `json:"k"`
	Exp   *expect  `json:"exp"`
	Post  *postTab `json:"post"`
	Label string   `json:"label"`
}

// expect: the model's outcome of one call (a burst of Cnt identical requests).
type expect struct {
	Decs []string `json:"decs"` // per request: pass | refused | silent | handoff
	Tail int      `json:"tail"`
}

type postTab struct {
	E   map[string]entryObs `json:"e"`
	Lru []string            `json:"lru"`
}

type request struct {
	st    step
	cl    client
	id    uint16
	name  string
	qtype uint16
	addr  net.Addr
	raw   []byte
}

type protoSink struct {
	*pipe.Sink
	intern bool
}

func (p protoSink) Internal() bool { return p.intern }

func (r *rig) build(st step) (*request, error) {
	cl, ok := clients[st.C]
	if !ok {
		return nil, fmt.Errorf("unknown client %q", st.C)
	}
	qt, ok := qtypeOf[st.T]
	if !ok {
		return nil, fmt.Errorf("unknown type %q", st.T)
	}
	seq := int(r.seq.Add(1))
	q := &request{st: st, cl: cl, qtype: qt, name: r.qname(st.N)}
	q.id = uint16(0x1000 + (seq*7919)%0xe000)
	port := 20000 + seq%20000
	if cl.Port < 0 {
		port = 0
	}
	if st.Proto == "udp" {
		q.addr = &net.UDPAddr{IP: cl.IP, Port: port}
	} else {
		q.addr = &net.TCPAddr{IP: cl.IP, Port: port}
	}
	m := new(dns.Msg)
	m.Id = q.id
	m.RecursionDesired = true
	m.Question = []dns.Question{{Name: q.name, Qtype: qt, Qclass: dns.ClassINET}}
	o := &dns.OPT{Hdr: dns.RR_Header{Name: ".", Rrtype: dns.TypeOPT}}
	o.SetUDPSize(1232)
	m.Extra = append(m.Extra, o)
	raw, err := m.Pack()
	if err != nil {
		return nil, err
	}
	if len(raw) != reqLen {
		return nil, fmt.Errorf("request is %d bytes, the model assumes %d", len(raw), reqLen)
	}
	q.raw = raw
	return q, nil
}

// ---- observations ------------------------------------------------------------------------------------------

type observation struct {
	Replied   bool
	NWrites   int
	Rcode     int
	TC        bool
	Handoff   bool
	WirePath  bool
	TailDelta int
	Reply     []byte
	Bad       []string // the reply is not a reply to this query
	Answered  bool     // NOERROR with the upstream's answer
}

func (o observation) seen() string {
	switch {
	case o.Handoff:
		return "handoff"
	case !o.Replied:
		return "silent"
	case o.Rcode == dns.RcodeRefused:
		return "refused"
	case o.Rcode == dns.RcodeSuccess && !o.TC:
		return "pass"
	case o.Rcode == dns.RcodeSuccess:
		return "tc"
	}
	return "rcode-" + dns.RcodeToString[o.Rcode]
}

func (r *rig) serve(q *request) observation {
	var o observation
	before := r.asked(q.name)
	var writes [][]byte
	switch q.st.Entry {
	case "msg":
		m := new(dns.Msg)
		if err := m.Unpack(q.raw); err != nil {
			panic("harness packet does not decode: " + err.Error())
		}
		s := &pipe.Sink{Remote: q.addr}
		if q.st.Proto != "udp" && q.st.Proto != "tcp" {
			s.ProtoName = q.st.Proto // doh, doq
		}
		if q.cl.Internal {
			r.srv.ServeMsg(context.Background(), protoSink{s, true}, m)
		} else {
			r.srv.ServeMsg(context.Background(), s, m)
		}
		writes = s.Writes
	case "wire":
		job := &server.VerifStrictJob{Remote: q.addr}
		r.srv.ServeRaw(job, q.raw, time.Now())
		writes = job.Writes
		o.WirePath = job.VerifTookWirePath()
	case "inline":
		job := &server.VerifStrictJob{Remote: q.addr}
		handled := r.srv.ServeRawInline(job, q.raw, time.Now())
		writes = job.Writes
		o.WirePath = job.VerifTookWirePath()
		if !handled {
			o.Handoff = true
			r.mu.Lock()
			r.jobs[q.st.ID] = &pendingJob{job: job, raw: q.raw, req: q}
			r.mu.Unlock()
		}
	default:
		panic("unknown entry " + q.st.Entry)
	}
	r.finishObs(&o, q, writes, before)
	return o
}

func (r *rig) replay(id int) (observation, *request, bool) {
	r.mu.Lock()
	pj := r.jobs[id]
	delete(r.jobs, id)
	r.mu.Unlock()
	if pj == nil {
		return observation{}, nil, false
	}
	var o observation
	before := r.asked(pj.req.name)
	n0 := len(pj.job.Writes)
	r.srv.ServeRawReplay(pj.job, pj.raw, time.Now())
	o.WirePath = pj.job.VerifTookWirePath()
	r.finishObs(&o, pj.req, pj.job.Writes[n0:], before)
	if n0 > 0 {
		o.NWrites += n0
		o.Bad = append(o.Bad, "the inline pass had already written a reply for a query it handed off")
	}
	return o, pj.req, true
}

func (r *rig) finishObs(o *observation, q *request, writes [][]byte, tailBefore int) {
	o.TailDelta = r.asked(q.name) - tailBefore
	o.NWrites = len(writes)
	if len(writes) == 0 {
		return
	}
	o.Replied = true
	o.Reply = writes[len(writes)-1]
	m := new(dns.Msg)
	if err := m.Unpack(o.Reply); err != nil {
		o.Bad = append(o.Bad, "reply does not decode: "+err.Error())
		return
	}
	o.Rcode, o.TC = m.Rcode, m.Truncated
	if !m.Response {
		o.Bad = append(o.Bad, "QR clear")
	}
	if m.Id != q.id {
		o.Bad = append(o.Bad, fmt.Sprintf("ID %d, the query had %d", m.Id, q.id))
	}
	if len(m.Question) != 1 || !strings.EqualFold(m.Question[0].Name, q.name) || m.Question[0].Qtype != q.qtype {
		o.Bad = append(o.Bad, "question not echoed")
	}
	if m.Rcode == dns.RcodeSuccess && !m.Truncated {
		if len(m.Answer) == 1 && m.Answer[0].Header().Rrtype == q.qtype && strings.EqualFold(m.Answer[0].Header().Name, q.name) {
			o.Answered = true
		} else {
			o.Bad = append(o.Bad, fmt.Sprintf("NOERROR with %d answer records that are not the upstream's answer", len(m.Answer)))
		}
	}
	if m.Rcode == dns.RcodeRefused && len(m.Answer)+len(m.Ns) > 0 {
		o.Bad = append(o.Bad, "REFUSED carries records")
	}
}

// table: the projection of the real table onto the model's keys, ages as of ref.
func (r *rig) table() tableObs { return r.tableAt(time.Now()) }

func (r *rig) tableAt(ref time.Time) tableObs {
	t := tableObs{E: map[string]entryObs{}, Len: r.rfx.VerifLen()}
	for _, k := range r.keys {
		t.E[k] = r.entryAt(k, ref)
	}
	rev := map[string]string{}
	for k, ip := range keyIP {
		rev[ip] = k
	}
	for _, ip := range r.rfx.VerifKeys() {
		if k, ok := rev[ip]; ok {
			t.Lru = append(t.Lru, k)
		} else {
			t.Lru = append(t.Lru, "?"+ip)
		}
	}
	return t
}

func (r *rig) entry(k string) entryObs { return r.entryAt(k, time.Now()) }

func (r *rig) entryAt(k string, ref time.Time) entryObs {
	v := r.rfx.VerifPeekAt(keyIP[k], ref)
	if !v.Present {
		return entryObs{}
	}
	secs := func(d time.Duration) int {
		if d < 0 {
			return -int((-d + time.Second/2) / time.Second)
		}
		return int((d + time.Second/2) / time.Second)
	}
	var names []string
	for b := 0; b < 16; b++ {
		if v.Types&(1<<b) != 0 {
			names = append(names, bitName[b])
		}
	}
	sort.Strings(names)
	jit := -v.LastAge // how long after ref the entry was last stamped (meaningful for the entry a request just touched)
	return entryObs{On: true, Fs: secs(v.FirstAge), Ls: secs(v.LastAge), Tq: int(v.Queries), Haq: int(v.HighAmp), Amp: int(v.AmpSum + 0.5),
		Req: int(v.ReqBytes), Resp: int(v.RespBytes), Tcp: v.HasTCP, Norm: v.HasNormal, Types: strings.Join(names, ","),
		Score: int(v.Score*100 + 0.5), Jit: jit}
}

// calibrate makes the scripted upstream's answers arrive at exactly respLen[type] bytes (loopback TCP: nobody's entry).
func calibrate() error {
	padMu.Lock()
	done := padDone
	padMu.Unlock()
	if done {
		return nil
	}
	r, err := newRig(rigCfg{Thr: 70, Mode: "block"}, nil)
	if err != nil {
		return err
	}
	defer r.close()
	for _, t := range []string{"DNSKEY", "TXT", "MX", "SOA"} {
		ok := false
		for it := 0; it < 6; it++ {
			q, err := r.build(step{C: "lo", Proto: "tcp", T: t, Entry: "msg", N: "fresh"})
			if err != nil {
				return err
			}
			o := r.serve(q)
			if !o.Answered {
				return fmt.Errorf("calibration query for %s was not answered (%s %v)", t, o.seen(), o.Bad)
			}
			d := respLen[t] - len(o.Reply)
			if d == 0 {
				ok = true
				break
			}
			padMu.Lock()
			pads[t] += d
			padMu.Unlock()
		}
		if !ok {
			return fmt.Errorf("cannot pad a %s answer to %d bytes", t, respLen[t])
		}
	}
	padMu.Lock()
	padDone = true
	padMu.Unlock()
	return nil
}

func sortedKeys[V any](m map[string]V) []string {
	out := make([]string, 0, len(m))
	for k := range m {
		out = append(out, k)
	}
	sort.Strings(out)
	return out
}
