package c18

// Free-running concurrent stress (code -> property): several goroutines issue
// Set / Remove / SetBatch / RemoveBatch through the real HTTP API (api.API on
// a loopback port; direct method calls if it cannot listen) against one
// BlockList.  No schedule is forced; the persist gate only counts how often
// a snapshot lost the race (PersistSkipped) and adds small random delays
// between snapshot and persist.  When every call has returned the end state
// must satisfy Converged: lines of `local` = entries in memory, and a fresh
// BlockList loaded from the directory answers every name as memory does.

import (
	"bytes"
	"context"
	"encoding/json"
	"fmt"
	"io"
	"math/rand"
	"net"
	"net/http"
	"net/url"
	"os"
	"path/filepath"
	"strings"
	"sync"
	"sync/atomic"
	"testing"
	"time"

	"github.com/semihalev/sdns/api"
	"github.com/semihalev/sdns/config"
	"github.com/semihalev/sdns/middleware"
	"github.com/semihalev/sdns/middleware/blocklist"
	"github.com/semihalev/sdns/verifharness/vh"
)

type sInput struct {
	Shape      map[string]string `json:"shape"`
	Universe   [][]string        `json:"universe"`
	Whitelist  [][]string        `json:"whitelist"`
	Rounds     int               `json:"rounds"`
	Goroutines int               `json:"goroutines"`
	Ops        int               `json:"ops"`
}

type sRound struct {
	dir    string
	bl     *blocklist.BlockList
	base   string // http://127.0.0.1:port, "" = direct calls
	cancel context.CancelFunc
}

func freeAddr() (string, error) {
	l, err := net.Listen("tcp", "127.0.0.1:0")
	if err != nil {
		return "", err
	}
	defer l.Close()
	return l.Addr().String(), nil
}

func concreteName(shape map[string]string, n []string) string {
	if len(n) == 0 {
		return "."
	}
	parts := make([]string, len(n))
	for i, l := range n {
		parts[i] = shape[l]
	}
	return strings.Join(parts, ".") + "."
}

func TestPersistStress(t *testing.T) {
	var in sInput
	vh.Input(t, &in)
	res := vh.NewResult()
	defer res.Write(t)
	rng := vh.Rand()

	var universe, wl, pool []string
	for _, n := range in.Universe {
		universe = append(universe, concreteName(in.Shape, n))
	}
	for _, n := range in.Whitelist {
		wl = append(wl, concreteName(in.Shape, n))
	}
	for _, n := range in.Universe {
		if len(n) == 0 || n[0] == "z" {
			continue
		}
		c := concreteName(in.Shape, n)
		pool = append(pool, c, "*."+c)
	}

	var snapshots, skipped atomic.Int64
	var delay atomic.Bool
	blocklist.SetVerifGate(func(point int, ver uint64) {
		switch point {
		case gEnter:
			snapshots.Add(1)
			if delay.Load() {
				// widen the window between snapshot and persist
				time.Sleep(time.Duration(ver%7) * 40 * time.Microsecond)
			}
		case gSkipped:
			skipped.Add(1)
		}
	})
	defer blocklist.SetVerifGate(nil)
	delay.Store(true)

	rounds := make([]*sRound, in.Rounds)
	root := filepath.Join(vh.Scratch(t), fmt.Sprintf("c18-stress-%d", os.Getpid()))
	for i := range rounds {
		r := &sRound{dir: filepath.Join(root, fmt.Sprint(i))}
		if err := os.MkdirAll(r.dir, 0o750); err != nil {
			t.Fatal(err)
		}
		cfg := new(config.Config)
		cfg.Nullroute, cfg.Nullroutev6 = nullV4, nullV6
		cfg.BlockListDir = r.dir
		cfg.Whitelist = wl
		middleware.Reset()
		middleware.Register("blocklist", func(c *config.Config) middleware.Handler { return blocklist.New(c) })
		if addr, err := freeAddr(); err == nil {
			cfg.API = addr
		}
		middleware.Setup(cfg)
		r.bl = middleware.Get("blocklist").(*blocklist.BlockList)
		if cfg.API != "" {
			ctx, cancel := context.WithCancel(context.Background())
			r.cancel = cancel
			api.New(cfg).Run(ctx)
			r.base = "http://" + cfg.API
		}
		rounds[i] = r
	}
	middleware.Reset()
	// New()'s one-shot background refresh re-reads the directory after 1 s
	time.Sleep(1400 * time.Millisecond)
	client := &http.Client{Timeout: 20 * time.Second}
	for _, r := range rounds {
		if r.base == "" {
			continue
		}
		up := false
		for k := 0; k < 40 && !up; k++ {
			resp, err := client.Get(r.base + "/api/v1/block/exists/probe.invalid")
			if err == nil {
				io.Copy(io.Discard, resp.Body)
				resp.Body.Close()
				up = resp.StatusCode == http.StatusOK
			}
			if !up {
				time.Sleep(50 * time.Millisecond)
			}
		}
		if up {
			// is it OUR server behind that port (another process may have taken it)?
			marker := fmt.Sprintf("verif-probe-%d.invalid.", os.Getpid())
			if resp, err := client.Get(r.base + "/api/v1/block/set/" + url.PathEscape(marker)); err == nil {
				io.Copy(io.Discard, resp.Body)
				resp.Body.Close()
			}
			up = r.bl.Exists(marker)
			r.bl.Remove(marker)
		}
		if !up {
			r.base = ""
		}
	}

	spell := func(g *rand.Rand, s string) string {
		b := []byte(s)
		for i := range b {
			if b[i] >= 'a' && b[i] <= 'z' && g.Intn(3) == 0 {
				b[i] -= 32
			}
		}
		if g.Intn(3) == 0 {
			return strings.TrimSuffix(string(b), ".")
		}
		return string(b)
	}

	for ri, r := range rounds {
		var wg sync.WaitGroup
		var calls, httpCalls atomic.Int64
		var failed atomic.Value
		for g := 0; g < in.Goroutines; g++ {
			wg.Add(1)
			grng := rand.New(rand.NewSource(rng.Int63()))
			go func() {
				defer wg.Done()
				for k := 0; k < in.Ops; k++ {
					op := grng.Intn(4)
					n := 1
					if op >= 2 {
						n = 1 + grng.Intn(4)
					}
					keys := make([]string, n)
					for i := range keys {
						keys[i] = spell(grng, pool[grng.Intn(len(pool))])
					}
					calls.Add(1)
					if r.base == "" {
						switch op {
						case 0:
							r.bl.Set(keys[0])
						case 1:
							r.bl.Remove(keys[0])
						case 2:
							r.bl.SetBatch(keys)
						case 3:
							r.bl.RemoveBatch(keys)
						}
						continue
					}
					var resp *http.Response
					var err error
					switch op {
					case 0:
						resp, err = client.Get(r.base + "/api/v1/block/set/" + url.PathEscape(keys[0]))
					case 1:
						resp, err = client.Get(r.base + "/api/v1/block/remove/" + url.PathEscape(keys[0]))
					default:
						body, _ := json.Marshal(map[string]any{"keys": keys})
						path := "/api/v1/block/set/batch"
						if op == 3 {
							path = "/api/v1/block/remove/batch"
						}
						resp, err = client.Post(r.base+path, "application/json", bytes.NewReader(body))
					}
					if err != nil {
						failed.Store(err.Error())
						return
					}
					io.Copy(io.Discard, resp.Body)
					resp.Body.Close()
					if resp.StatusCode != http.StatusOK {
						failed.Store(fmt.Sprintf("HTTP %d for op %d keys %v", resp.StatusCode, op, keys))
						return
					}
					httpCalls.Add(1)
				}
			}()
		}
		wg.Wait()
		if r.cancel != nil {
			r.cancel()
		}
		if f := failed.Load(); f != nil {
			res.Skip("round %d: API call failed: %v", ri, f)
			return
		}
		res.Count("api_calls", int(calls.Load()))
		res.Count("over_http", int(httpCalls.Load()))

		// ---- Converged
		mem := memEntries(r.bl)
		local, err := readListFile(filepath.Join(r.dir, "local"))
		if err != nil {
			t.Fatal(err)
		}
		rep := map[string]any{"driver": "stress", "round": ri, "seed": vh.Seed(), "goroutines": in.Goroutines, "ops": in.Ops}
		tmps, _ := filepath.Glob(filepath.Join(r.dir, "local.tmp.*"))
		ver, _ := r.bl.VerifVersions()
		if ver < 2 {
			res.Skip("round %d: the API traffic did not reach the BlockList (version %d)", ri, ver)
			return
		}
		switch {
		case len(tmps) > 0:
			res.Violate("stress/Converged", fmt.Sprintf("every API call returned but temp files are left behind: %v", tmps), rep)
		case ver > 0 && !local.Ex:
			res.Violate("stress/Converged", fmt.Sprintf("%d snapshots taken, every API call returned, no file `local`", ver), rep)
		case setKey(local.raw) != setKey(mem):
			rep["local"], rep["mem"] = local.raw, mem
			res.Violate("stress/Converged", fmt.Sprintf("every API call returned: `local` lists %d entries, memory holds %d; only on disk %v, only in memory %v",
				len(local.raw), len(mem), minus(local.raw, mem), minus(mem, local.raw)), rep)
		default:
			cp := filepath.Join(root, fmt.Sprintf("%d-reload", ri))
			if err := copyDir(r.dir, cp, ""); err != nil {
				t.Fatal(err)
			}
			fresh := newBlockList(cp, wl)
			fm := memEntries(fresh)
			for _, n := range universe {
				got, want := fresh.Exists(n), r.bl.Exists(n)
				if got != want || want != refBlocked(mem, wl, n) {
					res.Violate("stress/Converged", fmt.Sprintf("the reloaded list answers Exists(%q) = %v, memory %v, the statement %v (memory %v)",
						n, got, want, refBlocked(mem, wl, n), mem), rep)
					break
				}
			}
			for _, e := range fm {
				if !contains(mem, e) {
					res.Violate("stress/Converged", fmt.Sprintf("the reloaded list holds %q which memory does not", e), rep)
				}
			}
			for _, e := range mem {
				if !contains(fm, e) && !fresh.Exists(e) {
					res.Violate("stress/Converged", fmt.Sprintf("the reloaded list dropped %q although nothing it kept covers it", e), rep)
				}
			}
		}
		res.Case(fmt.Sprintf("stress:%d:%d", vh.Seed(), ri))
		if ri == 0 {
			res.Sample(map[string]any{"stress_round": ri, "entries_in_memory": len(mem), "lines_on_disk": len(local.raw), "over_http": r.base != ""})
		}
		if res.NViolations() > 0 {
			break
		}
	}
	res.Count("snapshots", int(snapshots.Load()))
	res.Count("persist_skipped", int(skipped.Load()))
}

func minus(a, b []string) []string {
	out := []string{}
	for _, x := range a {
		if !contains(b, x) {
			out = append(out, x)
		}
	}
	return out
}
