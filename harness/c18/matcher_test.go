package c18

// Matcher replay (spec -> code) for BlMatch.tla on the real
// middleware/blocklist.BlockList.
//
// Input: (1) the full TLC state graph of a small configuration (every node =
// a triple of lists with the statement's table `blk`, every edge = one Set /
// Remove / Inject / DropW call), (2) simulated behaviours of a larger
// configuration.  For every state the real lists are put in place and EVERY
// query name of the universe goes through the real Exists and the real
// ServeDNS (A, AAAA and one other type) under several concretisations of the
// opaque labels (label-boundary near-misses, mixed case, missing trailing
// dot, deep subdomains, root).  Predicates (C18, first sentence):
//
//   Exists(name) = Blocked(name)                                  MatchExact
//   blocked A/AAAA -> exactly the configured null-route address    NullRoute
//   blocked other  -> empty authoritative answer                   EmptyAuth
//   blocked        -> downstream handler never invoked             NoDownstream
//   not blocked    -> downstream invoked once, its reply unmodified Untouched
//
// Return values of Set/Remove and the lists they leave behind are compared
// with the model too; a difference there that leaves the table intact is
// drift.

import (
	"context"
	"fmt"
	"math/rand"
	"net"
	"os"
	"path/filepath"
	"sort"
	"strings"
	"testing"
	"time"

	"github.com/miekg/dns"
	"github.com/semihalev/sdns/config"
	"github.com/semihalev/sdns/internal/mock"
	"github.com/semihalev/sdns/middleware"
	"github.com/semihalev/sdns/middleware/blocklist"
	"github.com/semihalev/sdns/verifharness/vh"
)

const (
	nullV4 = "192.0.2.66"
	nullV6 = "2001:db8::66"
)

type mNode struct {
	M    [][]string `json:"m"`
	Wild [][]string `json:"wild"`
	W    [][]string `json:"w"`
	Blk  [][]string `json:"blk"`
}

type mCall struct {
	Op  string   `json:"op"` // Set Remove Inject DropW Query Init
	K   string   `json:"k"`  // "p" | "w" (Set/Remove)
	L   string   `json:"l"`  // "m" | "wild" | "w" (Inject)
	N   []string `json:"n"`
	Ret *bool    `json:"ret"`
}

type mEdge struct {
	Src  string `json:"s"`
	Dst  string `json:"d"`
	Call mCall  `json:"c"`
}

type mStep struct {
	Call mCall `json:"c"`
	Node mNode `json:"node"`
}

type mInput struct {
	Shapes     []map[string]string `json:"shapes"`
	QNames     [][]string          `json:"qnames"`
	Nodes      map[string]mNode    `json:"nodes"`
	Edges      []mEdge             `json:"edges"`
	Behaviours [][]mStep           `json:"behaviours"`
	ServeEvery int                 `json:"serveEvery"` // ServeDNS on every k-th state of a behaviour (1 = all)
}

type matcher struct {
	cur   map[string]any // model-level material to re-run the case at hand
	t     *testing.T
	res   *vh.Result
	in    *mInput
	rng   *rand.Rand
	shape map[string]string
	si    int
	bl    *blocklist.BlockList
	down  *downstream
	chain *middleware.Chain
}

// downstream stands for "cache or upstream": it counts invocations and
// answers with a fixed message.
type downstream struct {
	calls int
	reply *dns.Msg
}

func (d *downstream) Name() string { return "verifdownstream" }
func (d *downstream) ServeDNS(ctx context.Context, ch *middleware.Chain) {
	d.calls++
	req := ch.Request.Msg()
	m := new(dns.Msg)
	m.SetReply(req)
	m.RecursionAvailable = true
	rr, _ := dns.NewRR(fmt.Sprintf("%s 300 IN TXT \"from-downstream\"", dns.Fqdn("reply.invalid")))
	m.Answer = append(m.Answer, rr)
	d.reply = m
	_ = ch.Writer.WriteMsg(m)
	ch.Cancel()
}

func newBlockList(dir string, whitelist []string) *blocklist.BlockList {
	cfg := new(config.Config)
	cfg.Nullroute = nullV4
	cfg.Nullroutev6 = nullV6
	cfg.BlockListDir = dir
	cfg.Whitelist = whitelist
	return blocklist.New(cfg)
}

// canonical concrete name of a label sequence under the current shape
func (x *matcher) name(n []string) string {
	if len(n) == 0 {
		return "."
	}
	parts := make([]string, len(n))
	for i, l := range n {
		c, ok := x.shape[l]
		if !ok {
			x.t.Fatalf("label %q has no concretisation", l)
		}
		parts[i] = c
	}
	return strings.Join(parts, ".") + "."
}

func (x *matcher) names(ns [][]string) []string {
	out := make([]string, 0, len(ns))
	for _, n := range ns {
		out = append(out, x.name(n))
	}
	sort.Strings(out)
	return out
}

// the way a client / operator might spell a canonical name
func (x *matcher) spell(canon string, allowNoDot bool) string {
	b := []byte(canon)
	switch x.rng.Intn(4) {
	case 0: // as is
	case 1:
		for i := range b {
			if b[i] >= 'a' && b[i] <= 'z' {
				b[i] -= 32
			}
		}
	default:
		for i := range b {
			if b[i] >= 'a' && b[i] <= 'z' && x.rng.Intn(2) == 0 {
				b[i] -= 32
			}
		}
	}
	s := string(b)
	if allowNoDot && len(s) > 1 && x.rng.Intn(3) == 0 {
		s = s[:len(s)-1]
	}
	return s
}

func (x *matcher) inject(n mNode) {
	x.bl.VerifSetLists(x.names(n.M), x.names(n.Wild), x.names(n.W))
}

func key(n []string) string { return strings.Join(n, ".") }

func nodeDesc(x *matcher, n mNode) map[string]any {
	return map[string]any{"m": x.names(n.M), "wild": x.names(n.Wild), "whitelist": x.names(n.W)}
}

var otherTypes = []uint16{dns.TypeMX, dns.TypeTXT, dns.TypeNS, dns.TypeSOA, dns.TypeHTTPS, dns.TypeCNAME, dns.TypeANY, dns.TypePTR}

// checkState puts every query name through Exists (and ServeDNS) on the
// current real lists and compares with the statement's table.
func (x *matcher) checkState(n mNode, how string, serve bool) bool {
	blocked := map[string]bool{}
	for _, b := range n.Blk {
		blocked[key(b)] = true
	}
	ok := true
	for _, q := range x.in.QNames {
		want := blocked[key(q)]
		canon := x.name(q)
		// self-check of the Go reference matcher the persistence drivers use
		// (harness fault, not a verdict, if it disagrees with TLC's table)
		ents := x.names(n.M)
		for _, s := range x.names(n.Wild) {
			ents = append(ents, "*."+s)
		}
		if refBlocked(ents, x.names(n.W), canon) != want {
			x.t.Fatalf("harness reference matcher disagrees with the specification's table on %q with %v", canon, nodeDesc(x, n))
		}
		asked := x.spell(canon, true)
		got := x.bl.Exists(asked)
		x.res.Count("exists_calls", 1)
		if got != want {
			x.res.Violate("matcher/MatchExact",
				fmt.Sprintf("Exists(%q) = %v but the statement says blocked = %v with lists %v (%s)", asked, got, want, nodeDesc(x, n), how),
				map[string]any{"driver": "matcher", "shape": x.shape, "lists": nodeDesc(x, n), "query": asked, "want": want, "got": got, "how": how, "model": x.cur})
			ok = false
			continue
		}
		if !serve {
			continue
		}
		for _, qt := range []uint16{dns.TypeA, dns.TypeAAAA, otherTypes[x.rng.Intn(len(otherTypes))]} {
			if !x.serve(n, how, x.spell(canon, false), qt, want) {
				ok = false
			}
		}
	}
	return ok
}

func (x *matcher) serve(n mNode, how, qname string, qtype uint16, want bool) bool {
	req := new(dns.Msg)
	req.SetQuestion(qname, qtype)
	req.Id = uint16(x.rng.Intn(65536))
	mw := mock.NewWriter("udp", "203.0.113.9:5353")
	x.chain.Reset(mw, req)
	x.down.calls = 0
	x.down.reply = nil
	x.chain.Next(context.Background())
	x.res.Count("servedns_calls", 1)
	resp := mw.Msg()
	tname := dns.TypeToString[qtype]
	viol := func(pred, what string) bool {
		x.res.Violate("matcher/"+pred,
			fmt.Sprintf("ServeDNS(%s %s) with lists %v (%s): %s", qname, tname, nodeDesc(x, n), how, what),
			map[string]any{"driver": "matcher", "shape": x.shape, "lists": nodeDesc(x, n), "query": qname, "qtype": tname, "blocked": want, "how": how, "model": x.cur})
		return false
	}
	if !want {
		if x.down.calls != 1 {
			return viol("Untouched", fmt.Sprintf("name is not blocked but the downstream handler ran %d times", x.down.calls))
		}
		if resp != x.down.reply {
			return viol("Untouched", "name is not blocked but the client did not get the downstream reply")
		}
		if len(resp.Answer) != 1 || resp.Answer[0].Header().Rrtype != dns.TypeTXT || resp.Authoritative {
			return viol("Untouched", "name is not blocked but the downstream reply was modified: "+strings.ReplaceAll(resp.String(), "\n", " | "))
		}
		return true
	}
	if x.down.calls != 0 {
		return viol("NoDownstream", fmt.Sprintf("name is blocked but the downstream handler (cache/upstream side) ran %d times", x.down.calls))
	}
	if resp == nil {
		return viol("BlockedReply", "name is blocked but no reply was written")
	}
	switch qtype {
	case dns.TypeA:
		if len(resp.Answer) != 1 {
			return viol("NullRoute", fmt.Sprintf("blocked A query got %d answers", len(resp.Answer)))
		}
		a, isA := resp.Answer[0].(*dns.A)
		if !isA || !a.A.Equal(net.ParseIP(nullV4)) {
			return viol("NullRoute", "blocked A query did not get the configured null-route address: "+resp.Answer[0].String())
		}
	case dns.TypeAAAA:
		if len(resp.Answer) != 1 {
			return viol("NullRoute", fmt.Sprintf("blocked AAAA query got %d answers", len(resp.Answer)))
		}
		a, isA := resp.Answer[0].(*dns.AAAA)
		if !isA || !a.AAAA.Equal(net.ParseIP(nullV6)) {
			return viol("NullRoute", "blocked AAAA query did not get the configured null-route address: "+resp.Answer[0].String())
		}
	default:
		if len(resp.Answer) != 0 || !resp.Authoritative || resp.Rcode != dns.RcodeSuccess {
			return viol("EmptyAuth", fmt.Sprintf("blocked %s query did not get an empty authoritative answer: answers=%d aa=%v rcode=%s",
				tname, len(resp.Answer), resp.Authoritative, dns.RcodeToString[resp.Rcode]))
		}
	}
	return true
}

func sameNames(a, b []string) bool {
	if len(a) != len(b) {
		return false
	}
	for i := range a {
		if a[i] != b[i] {
			return false
		}
	}
	return true
}

// apply performs one model call on the real BlockList; dst is the model's
// next state.
func (x *matcher) apply(c mCall, src, dst mNode, how string) {
	canon := ""
	if c.Op != "Init" {
		canon = x.name(c.N)
	}
	switch c.Op {
	case "Set", "Remove":
		k := x.spell(canon, true)
		if c.K == "w" {
			k = "*." + k
		}
		var got bool
		if c.Op == "Set" {
			got = x.bl.Set(k)
		} else {
			got = x.bl.Remove(k)
		}
		if c.Ret != nil && got != *c.Ret {
			// the return value is not part of the statement; the table check
			// below decides whether the difference matters
			x.res.DriftNote("%s(%q) returned %v, model %v (lists %v)", c.Op, k, got, *c.Ret, nodeDesc(x, src))
		}
	case "Inject", "DropW", "Init":
		x.inject(dst)
	case "Query":
		got := x.bl.Exists(x.spell(canon, true))
		if c.Ret != nil && got != *c.Ret {
			// reported by checkState with the statement's verdict
			x.res.Count("query_ret_mismatch", 1)
		}
	default:
		x.t.Fatalf("unknown call %q", c.Op)
	}
	m, wild, _ := x.bl.VerifLists()
	if !sameNames(m, x.names(dst.M)) || !sameNames(wild, x.names(dst.Wild)) {
		x.res.DriftNote("after %s the lists are m=%v wild=%v, model m=%v wild=%v", how, m, wild, x.names(dst.M), x.names(dst.Wild))
		x.inject(dst) // re-synchronise with the model and go on
	}
}

func callDesc(c mCall) string {
	switch c.Op {
	case "Set", "Remove":
		return fmt.Sprintf("%s(%s,%s)", c.Op, c.K, key(c.N))
	case "Inject":
		return fmt.Sprintf("Inject(%s,%s)", c.L, key(c.N))
	case "Init":
		return "Init"
	}
	return fmt.Sprintf("%s(%s)", c.Op, key(c.N))
}

func TestMatcherReplay(t *testing.T) {
	var in mInput
	vh.Input(t, &in)
	res := vh.NewResult()
	defer res.Write(t)
	if in.ServeEvery <= 0 {
		in.ServeEvery = 1
	}
	// every successful Set/Remove persists (temp file + fsync + rename); the
	// matcher replay makes ~10^5 of them and does not care where they land
	dir, err := os.MkdirTemp("/dev/shm", "verif-c18-matcher-")
	if err != nil {
		dir = filepath.Join(vh.Scratch(t), fmt.Sprintf("c18-matcher-%d", time.Now().UnixNano()))
	}
	defer os.RemoveAll(dir)
	x := &matcher{t: t, res: res, in: &in, rng: vh.Rand()}
	x.bl = newBlockList(dir, nil)
	// the background refresh of New() re-reads the (empty) directory once
	// after a second; let it pass so nothing touches the lists behind us
	time.Sleep(1300 * time.Millisecond)
	x.down = &downstream{}
	x.chain = middleware.NewChain([]middleware.Handler{x.bl, x.down})

	ids := make([]string, 0, len(in.Nodes))
	for id := range in.Nodes {
		ids = append(ids, id)
	}
	sort.Strings(ids)
	bySrc := map[string][]mEdge{}
	for _, e := range in.Edges {
		bySrc[e.Src] = append(bySrc[e.Src], e)
	}
	for si, shape := range in.Shapes {
		x.shape, x.si = shape, si
		// ---- every state of the graph, every query name
		for _, id := range ids {
			n := in.Nodes[id]
			x.inject(n)
			x.cur = map[string]any{"nodes": map[string]mNode{"r": n}}
			x.checkState(n, "lists put in place", true)
			res.Case(fmt.Sprintf("state:%d:%s", si, id))
			// ---- every mutating edge out of it, through the real API
			for _, e := range bySrc[id] {
				if e.Call.Op == "Query" {
					continue // covered by checkState: every name in every state
				}
				x.inject(n)
				dst := in.Nodes[e.Dst]
				how := callDesc(e.Call)
				x.cur = map[string]any{"nodes": map[string]mNode{"r": n, "d": dst}, "edges": []mEdge{{Src: "r", Dst: "d", Call: e.Call}}}
				x.apply(e.Call, n, dst, how)
				x.checkState(dst, "after "+how, false)
				res.Case(fmt.Sprintf("edge:%d:%s:%s", si, id, how))
				res.Count("edges", 1)
			}
			if res.NViolations() >= 20 {
				return
			}
		}
		// ---- behaviours: API histories from the empty list
		for bi, b := range in.Behaviours {
			x.inject(mNode{})
			hist := []string{}
			prev := mNode{}
			for i, st := range b {
				how := callDesc(st.Call)
				hist = append(hist, how)
				x.cur = map[string]any{"behaviours": [][]mStep{b[:i+1]}}
				x.apply(st.Call, prev, st.Node, how)
				x.checkState(st.Node, "history "+strings.Join(hist, ";"), i%in.ServeEvery == 0)
				prev = st.Node
				res.Count("behaviour_steps", 1)
			}
			res.Case(fmt.Sprintf("beh:%d:%s", si, strings.Join(hist, ";")))
			if bi == 0 && si == 0 {
				res.Sample(map[string]any{"behaviour": hist, "shape": shape})
			}
			if res.NViolations() >= 20 {
				return
			}
		}
	}
}
