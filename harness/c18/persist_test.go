package c18

// Gated schedule replay (spec -> code), crash points, and trace recording
// (code -> spec) for BlPersist.tla on the real middleware/blocklist.BlockList.
//
// A schedule is a TLC behaviour of BlPersist.tla; only its order of steps is
// used: "writer p takes its next step" / "Crash".  Writer goroutines run the
// real Set / Remove / SetBatch / RemoveBatch and park at the verifGate points
// of persist(); the driver releases exactly one step at a time, so the
// recorded order is the real order.  After every step, with every goroutine
// parked, the driver reads the real directory and evaluates the C18
// predicates (second sentence of the statement):
//
//   DiskIsASnapshot   `local` is absent or holds exactly the entries of one
//                     complete snapshot taken so far (never a partial file)
//   NeverBackwards    a rename never replaces a newer snapshot by an older
//   CrashLeavesSnapshot  (at Crash: the directory is copied as it is) a fresh
//                     BlockList loading that `local` answers every name of
//                     the universe exactly as the snapshot it holds
//   Converged         every call returned => lines of `local` = entries in
//                     memory, a fresh BlockList loaded from the directory
//                     answers every name as memory does, and only entries
//                     covered by others were dropped by the loader
//   NewestWins        every call returned => `local` is the last snapshot
//   PreviousFileKept  no step takes an existing `local` away: a persist that
//                     is interrupted or FAILS (fault_test.go: the labels
//                     Vanish and FailWrite(p) of BlRefresh.tla's fault steps)
//                     leaves the previous complete file
//
// The same steps are written as NDJSON and validated by TLC against
// Trace_BlPersist.tla (the invariants of the spec on the observed states).

import (
	"bufio"
	"encoding/json"
	"fmt"
	"os"
	"path/filepath"
	"regexp"
	"sort"
	"strconv"
	"strings"
	"testing"
	"time"

	"github.com/semihalev/sdns/middleware/blocklist"
	"github.com/semihalev/sdns/verifharness/vh"
	"github.com/semihalev/zlog/v2"
)

func init() { zlog.SetLevel(zlog.LevelWarn) }

const (
	gEnter = iota + 1
	gSkipped
	gTempCreated
	gWroteHeader
	gWroteLine
	gSynced
	gClosed
	gRenamed
)

var gatePC = map[int]string{gEnter: "snapped", gTempCreated: "tmp", gWroteHeader: "hdr", gWroteLine: "hdr",
	gSynced: "synced", gClosed: "closed", gRenamed: "renamed"}

type pEntry struct {
	K string   `json:"k"`
	N []string `json:"n"`
}

type pOp struct {
	Op   string   `json:"op"`
	Keys []string `json:"keys"` // entry ids
}

type pInput struct {
	Entries   map[string]pEntry `json:"entries"`
	WL        [][]string        `json:"wl"`
	InitMem   []string          `json:"initMem"`
	Prog      map[string][]pOp  `json:"prog"`
	Shape     map[string]string `json:"shape"`
	Universe  [][]string        `json:"universe"`
	Schedules [][]string        `json:"schedules"`
	TraceOut  string            `json:"traceOut"`
	StrictDir bool              `json:"strictDir"`
	Model     string            `json:"model"` // name of the MC_Persist configuration (W2, W2b, W3)
	// NoDir: the blocklist directory does not exist when the BlockList is built (a fresh install)
	NoDir bool `json:"noDir"`
}

type pArrival struct {
	point int
	ver   uint64
	ret   bool
}

type pWriter struct {
	id      int
	opi     int // next op index
	active  bool
	at      int
	snapVer uint64
	nlines  int // entry lines written to the temp file of the persist in flight (fault_test.go)
	release chan struct{}
}

type fileObs struct {
	Ex    bool     `json:"ex"`
	Hdr   bool     `json:"hdr"`
	Lines []string `json:"lines"` // entry ids (unknown text: "?text")
	raw   []string // canonical strings
}

type pRun struct {
	t        *testing.T
	in       *pInput
	res      *vh.Result
	dir      string
	bl       *blocklist.BlockList
	born     time.Time
	wl       []string
	arrive   chan pArrival
	writers  map[int]*pWriter
	nw       int
	current  *pWriter
	events   []map[string]any
	hist     []string
	snaps    map[uint64][]string // version -> canonical entries in memory at the snapshot
	localVer uint64
	lastLoc  string
	strOf    map[string]string // entry id -> canonical string
	idOf     map[string]string
	seq      int
	universe []string
	tainted  bool
	// refreshed: the schedule waited for New()'s background refresh (1 s after construction) on purpose, as a
	// step of the model (BlRefresh.tla); nothing after it can be disturbed by the timer any more
	refreshed bool
	// faulted: the schedule injected an I/O fault (fault_test.go); the end state is judged by convergedAfterFault
	faulted  bool
	verdicts int // violations recorded by this schedule
}

var plabelRe = regexp.MustCompile(`^(\w+)(?:\((\d+))?`)

func (r *pRun) concrete(n []string) string {
	parts := make([]string, len(n))
	for i, l := range n {
		parts[i] = r.in.Shape[l]
	}
	if len(parts) == 0 {
		return "."
	}
	return strings.Join(parts, ".") + "."
}

func (r *pRun) gate(point int, ver uint64) {
	w := r.current
	if w == nil {
		return
	}
	r.arrive <- pArrival{point: point, ver: ver}
	<-w.release
}

func setKey(ss []string) string { return strings.Join(ss, ",") }

func (r *pRun) ids(ss []string) []string {
	out := make([]string, 0, len(ss))
	for _, s := range ss {
		if id, ok := r.idOf[s]; ok {
			out = append(out, id)
		} else {
			out = append(out, "?"+s)
		}
	}
	sort.Strings(out)
	return out
}

// entries in memory as canonical strings ("x." plain, "*.x." wildcard)
func memEntries(bl *blocklist.BlockList) []string {
	m, wild, _ := bl.VerifLists()
	out := append([]string{}, m...)
	for _, s := range wild {
		out = append(out, "*."+s)
	}
	sort.Strings(out)
	return out
}

func readListFile(path string) (fileObs, error) {
	f, err := os.Open(path)
	if os.IsNotExist(err) {
		return fileObs{}, nil
	}
	if err != nil {
		return fileObs{}, err
	}
	defer f.Close()
	o := fileObs{Ex: true}
	data, err := os.ReadFile(path)
	if err != nil {
		return o, err
	}
	sc := bufio.NewScanner(strings.NewReader(string(data)))
	for sc.Scan() {
		line := sc.Text()
		if strings.HasPrefix(line, "#") {
			o.Hdr = true
			continue
		}
		if strings.TrimSpace(line) == "" {
			continue
		}
		o.raw = append(o.raw, line)
	}
	if len(data) > 0 && data[len(data)-1] != '\n' {
		// an unterminated last line is a partial write (a partial header leaves no entry line to mark)
		if len(o.raw) == 0 {
			o.raw = append(o.raw, "")
		}
		o.raw[len(o.raw)-1] += "<unterminated>"
	}
	sort.Strings(o.raw)
	return o, nil
}

func (r *pRun) observe() (mem []string, local, tmp fileObs, ver, lp uint64, err error) {
	mem = memEntries(r.bl)
	local, err = readListFile(filepath.Join(r.dir, "local"))
	if err != nil {
		return
	}
	local.Lines = r.ids(local.raw)
	tmps, _ := filepath.Glob(filepath.Join(r.dir, "local.tmp.*"))
	if len(tmps) > 1 && r.verdicts == 0 {
		err = fmt.Errorf("%d temp files", len(tmps))
		return
	}
	if len(tmps) >= 1 { // (more than one only after a verdict: a failed persist left its temp file behind)
		tmp, err = readListFile(tmps[len(tmps)-1])
		if err != nil {
			return
		}
	}
	tmp.Lines = r.ids(tmp.raw)
	ver, lp = r.bl.VerifVersions()
	return
}

func (r *pRun) violate(pred, what string, extra map[string]any) {
	if !r.refreshed && time.Since(r.born) > 850*time.Millisecond {
		// New()'s background refresh (1 s after construction) may have re-read
		// the directory behind the schedule: not a verdict, run it again
		r.tainted = true
		return
	}
	rep := map[string]any{"driver": "persist", "schedule": r.hist, "prog": r.in.Prog, "initMem": r.in.InitMem, "shape": r.in.Shape, "events": r.events}
	for k, v := range extra {
		rep[k] = v
	}
	r.verdicts++
	r.res.Violate("persist/"+r.in.Model+"/"+pred, fmt.Sprintf("BlockList %s under schedule %v: %s", pred, r.hist, what), rep)
}

func (r *pRun) pcs() ([]string, []int, int) {
	pcs := make([]string, r.nw)
	opis := make([]int, r.nw)
	hold := 0
	for p := 1; p <= r.nw; p++ {
		w := r.writers[p]
		prog := r.in.Prog[strconv.Itoa(p)]
		switch {
		case w.active:
			pcs[p-1] = gatePC[w.at]
			opis[p-1] = w.opi
			if w.at >= gTempCreated {
				hold = p
			}
		case w.opi >= len(prog):
			pcs[p-1] = "done"
			opis[p-1] = len(prog)
			if len(prog) == 0 {
				opis[p-1] = 1
			}
		default:
			pcs[p-1] = "idle"
			opis[p-1] = w.opi + 1
		}
	}
	return pcs, opis, hold
}

// after a step of writer p (0 = none): record the event and evaluate the
// per-state predicates on the real directory
func (r *pRun) afterStep(p int, a pArrival, ev string) error {
	mem, local, tmp, ver, lp, err := r.observe()
	if err != nil {
		return err
	}
	pcs, opis, hold := r.pcs()
	e := map[string]any{"ev": ev, "p": p, "g": a.point, "ver": a.ver, "mem": r.ids(mem),
		"local": local, "tmp": tmp, "version": ver, "lp": lp, "hold": hold, "pc": pcs, "opi": opis}
	r.events = append(r.events, e)
	if a.point == gEnter && !a.ret {
		r.snaps[a.ver] = mem
		if w := r.writers[p]; w != nil {
			w.snapVer = a.ver
		}
	}
	// PreviousFileKept: "an interruption during persistence leaves the previous complete file" -- no step of a
	// persist (the failure paths after an injected fault included) may take an existing `local` away
	if !local.Ex && r.lastLoc != "absent" {
		r.violate("PreviousFileKept", fmt.Sprintf("the file `local` (it held [%s]) is gone after this step; temp file left behind: %v %v",
			r.lastLoc, tmp.Ex, tmp.raw), map[string]any{"previous": r.lastLoc})
		r.lastLoc = "absent" // reported once
		return nil
	}
	// DiskIsASnapshot
	if local.Ex {
		ok := setKey(local.raw) == setKey(r.initStrings())
		for _, s := range r.snaps {
			if setKey(s) == setKey(local.raw) {
				ok = true
			}
		}
		if !ok {
			r.violate("DiskIsASnapshot", fmt.Sprintf("the file `local` holds %v, which is not the entry set of any complete snapshot taken so far (%v)",
				local.raw, r.snapList()), nil)
			return nil
		}
	}
	// NeverBackwards: the file changed => it was this writer's snapshot that landed
	cur := "absent"
	if local.Ex {
		cur = setKey(local.raw)
	}
	if cur != r.lastLoc || (p != 0 && a.point == gRenamed) {
		if w := r.writers[p]; w != nil {
			if w.snapVer < r.localVer && setKey(r.snaps[w.snapVer]) != setKey(r.snaps[r.localVer]) {
				// the statement only speaks about the end state (Converged /
				// NewestWins decide); a transient roll-back is noted
				r.res.DriftNote("snapshot version %d (%v) replaced the newer version %d on disk under schedule %v",
					w.snapVer, r.snaps[w.snapVer], r.localVer, r.hist)
			}
			r.localVer = w.snapVer
		}
		r.lastLoc = cur
	}
	return nil
}

func (r *pRun) initStrings() []string {
	out := []string{}
	for _, id := range r.in.InitMem {
		out = append(out, r.strOf[id])
	}
	sort.Strings(out)
	return out
}

func (r *pRun) snapList() map[string][]string {
	out := map[string][]string{"initial": r.initStrings()}
	for v, s := range r.snaps {
		out[fmt.Sprint(v)] = s
	}
	return out
}

func (r *pRun) await(w *pWriter) (pArrival, error) {
	select {
	case a := <-r.arrive:
		if a.ret {
			w.active = false
			w.at = 0
		} else {
			w.at = a.point
			if a.point == gTempCreated {
				w.nlines = 0
			} else if a.point == gWroteLine {
				w.nlines++
			}
		}
		return a, nil
	case <-time.After(20 * time.Second):
		return pArrival{}, fmt.Errorf("writer %d did not reach a gate (blocked?)", w.id)
	}
}

func (r *pRun) call(op pOp) {
	keys := make([]string, len(op.Keys))
	for i, id := range op.Keys {
		keys[i] = r.strOf[id]
	}
	switch op.Op {
	case "Set":
		r.bl.Set(keys[0])
	case "Remove":
		r.bl.Remove(keys[0])
	case "SetBatch":
		r.bl.SetBatch(keys)
	case "RemoveBatch":
		r.bl.RemoveBatch(keys)
	default:
		panic("unknown op " + op.Op)
	}
}

func (r *pRun) stepWriter(p int) (bool, error) {
	w := r.writers[p]
	if w == nil {
		return false, nil
	}
	prog := r.in.Prog[strconv.Itoa(p)]
	if !w.active {
		if w.opi >= len(prog) {
			return false, nil
		}
		op := prog[w.opi]
		w.opi++
		w.active = true
		w.at = 0
		r.current = w
		go func() {
			r.call(op)
			r.arrive <- pArrival{ret: true}
		}()
	} else {
		if w.at == gEnter && !r.bl.VerifSaveMuFree() {
			return false, nil // saveMu is held: CreateTemp/PersistSkip not enabled
		}
		r.current = w
		w.release <- struct{}{}
	}
	a, err := r.await(w)
	if err != nil {
		return false, err
	}
	ev := "step"
	if !a.ret && a.point == gSkipped {
		// PersistSkip: the gate sits under saveMu right before the return
		w.release <- struct{}{}
		if a, err = r.await(w); err != nil {
			return false, err
		}
		if !a.ret {
			return false, fmt.Errorf("writer %d reached gate %d after a skipped persist", p, a.point)
		}
		ev = "skip"
	}
	if a.ret {
		a.point = 0
	}
	return true, r.afterStep(p, a, ev)
}

// reference matcher: the STATEMENT over canonical names (label-wise); it is
// checked against TLC's table by TestMatcherReplay's self-check.
func refBlocked(entries []string, wl []string, name string) bool {
	m, wild, w := map[string]bool{}, map[string]bool{}, map[string]bool{}
	for _, e := range entries {
		if strings.HasPrefix(e, "*.") {
			wild[e[2:]] = true
		} else {
			m[e] = true
		}
	}
	for _, e := range wl {
		w[e] = true
	}
	labels := strings.Split(strings.TrimSuffix(name, "."), ".")
	if name == "." {
		labels = nil
	}
	hit := false
	for i := 0; i <= len(labels); i++ {
		suf := strings.Join(labels[i:], ".") + "."
		if i == len(labels) {
			suf = "."
		}
		if w[suf] {
			return false
		}
		if m[suf] || (i > 0 && wild[suf]) {
			hit = true
		}
	}
	return hit
}

func copyDir(src, dst string, only string) error {
	if err := os.MkdirAll(dst, 0o750); err != nil {
		return err
	}
	ents, err := os.ReadDir(src)
	if err != nil {
		return err
	}
	for _, e := range ents {
		if only != "" && e.Name() != only {
			continue
		}
		b, err := os.ReadFile(filepath.Join(src, e.Name()))
		if err != nil {
			return err
		}
		if err := os.WriteFile(filepath.Join(dst, e.Name()), b, 0o640); err != nil {
			return err
		}
	}
	return nil
}

// an interruption: the directory as it is right now, loaded by a fresh BlockList
func (r *pRun) crash() error {
	a := pArrival{}
	if err := r.afterStep(0, a, "crash"); err != nil {
		return err
	}
	r.res.Count("crashes", 1)
	local, err := readListFile(filepath.Join(r.dir, "local"))
	if err != nil {
		return err
	}
	r.seq++
	onlyLocal := filepath.Join(r.dir+"-crash", fmt.Sprintf("%d-local", r.seq))
	full := filepath.Join(r.dir+"-crash", fmt.Sprintf("%d-dir", r.seq))
	if err := copyDir(r.dir, onlyLocal, "local"); err != nil {
		return err
	}
	if err := copyDir(r.dir, full, ""); err != nil {
		return err
	}
	fresh := newBlockList(onlyLocal, r.wl)
	for _, n := range r.universe {
		want := refBlocked(local.raw, r.wl, n)
		if got := fresh.Exists(n); got != want {
			r.violate("CrashLeavesSnapshot", fmt.Sprintf("after an interruption a restart loading `local` (%v) answers Exists(%q) = %v, the snapshot it holds says %v",
				local.raw, n, got, want), map[string]any{"local": local.raw})
			return nil
		}
	}
	fm := memEntries(fresh)
	for _, e := range fm {
		if !contains(local.raw, e) {
			r.violate("CrashLeavesSnapshot", fmt.Sprintf("a restart loading `local` (%v) holds the entry %q that the file does not list", local.raw, e), nil)
			return nil
		}
	}
	// the directory as a whole (what New() really walks): the temp file of the
	// interrupted persist is still there
	fresh2 := newBlockList(full, r.wl)
	for _, n := range r.universe {
		if fresh2.Exists(n) != fresh.Exists(n) {
			r.res.Count("crash_dir_reload_differs", 1)
			tmps, _ := filepath.Glob(filepath.Join(full, "local.tmp.*"))
			what := fmt.Sprintf("a restart walking the whole directory answers Exists(%q) = %v, `local` alone (%v) says %v: the leftover temp file %v of the interrupted persist is loaded too",
				n, fresh2.Exists(n), local.raw, fresh.Exists(n), tmps)
			if r.in.StrictDir {
				r.violate("DirReload", what, nil)
			} else {
				r.res.Sample(map[string]any{"adjacent_finding": what, "schedule": append([]string{}, r.hist...)})
			}
			break
		}
	}
	return nil
}

// staleTempProbe runs one fixed scenario next to the property (reported, not
// judged, unless strictDir): the temp file of an interrupted persist survives
// the restart; a later Remove completes and persists; the next restart loads
// the stale temp file again and the removed entry is back.
func (r *pRun) staleTempProbe() {
	dir := filepath.Join(vh.Scratch(r.t), "c18-persist", fmt.Sprintf("%d-staletmp", os.Getpid()))
	if err := os.MkdirAll(dir, 0o750); err != nil {
		return
	}
	e1, e4 := r.strOf["E1"], r.strOf["E4"]
	if e1 == "" || e4 == "" {
		return
	}
	hdr := "# The file generated by auto. DO NOT EDIT\n"
	_ = os.WriteFile(filepath.Join(dir, "local"), []byte(hdr+e1+"\n"), 0o640)
	// Set(E4) was interrupted between Close and Rename
	_ = os.WriteFile(filepath.Join(dir, "local.tmp.1234567"), []byte(hdr+e1+"\n"+e4+"\n"), 0o600)
	b2 := newBlockList(dir, r.wl) // restart
	removed := b2.Remove(e4)      // completes, persists
	local, _ := readListFile(filepath.Join(dir, "local"))
	b3 := newBlockList(dir, r.wl) // restart again
	if b3.Exists(e4) && !b2.Exists(e4) {
		r.res.Count("stale_temp_resurrects_removed_entry", 1)
		what := fmt.Sprintf("leftover temp file of an interrupted persist: after restart, Remove(%q) = %v completed and `local` lists %v, "+
			"yet the next restart blocks %q again (local.tmp.* is loaded by readBlocklists and never deleted)", e4, removed, local.raw, e4)
		if r.in.StrictDir {
			r.res.Violate("persist/StaleTemp", what, map[string]any{"driver": "persist", "scenario": "stale-temp"})
		} else {
			r.res.Sample(map[string]any{"adjacent_finding": what})
		}
	}
}

func contains(ss []string, s string) bool {
	for _, x := range ss {
		if x == s {
			return true
		}
	}
	return false
}

// every call has returned
func (r *pRun) converged() error {
	mem, local, tmp, ver, lp, err := r.observe()
	if err != nil {
		return err
	}
	if tmp.Ex {
		r.violate("Converged", fmt.Sprintf("every call returned but a temp file is left behind: %v", tmp.raw), nil)
		return nil
	}
	if ver > 0 && !local.Ex {
		r.violate("Converged", fmt.Sprintf("%d snapshots were taken and every call returned, but there is no file `local`", ver), nil)
		return nil
	}
	if setKey(local.raw) != setKey(mem) {
		r.violate("Converged", fmt.Sprintf("every call returned: `local` lists %v, memory holds %v", local.raw, mem), map[string]any{"local": local.raw, "mem": mem})
		return nil
	}
	if ver > 0 {
		_ = lp
		if setKey(local.raw) != setKey(r.snaps[ver]) {
			r.violate("NewestWins", fmt.Sprintf("every call returned: last snapshot is version %d = %v, lastPersisted = %d, `local` lists %v",
				ver, r.snaps[ver], lp, local.raw), nil)
			return nil
		}
	}
	r.seq++
	cp := filepath.Join(r.dir+"-reload", fmt.Sprint(r.seq))
	if err := copyDir(r.dir, cp, ""); err != nil {
		return err
	}
	fresh := newBlockList(cp, r.wl)
	for _, n := range r.universe {
		got, want := fresh.Exists(n), r.bl.Exists(n)
		if got != want || want != refBlocked(mem, r.wl, n) {
			r.violate("Converged", fmt.Sprintf("every call returned: the reloaded list answers Exists(%q) = %v, memory %v, the statement %v (memory %v, `local` %v)",
				n, got, want, refBlocked(mem, r.wl, n), mem, local.raw), nil)
			return nil
		}
	}
	fm := memEntries(fresh)
	for _, e := range fm {
		if !contains(mem, e) {
			r.violate("Converged", fmt.Sprintf("the reloaded list holds %q which memory (%v) does not", e, mem), nil)
			return nil
		}
	}
	for _, e := range mem {
		if !contains(fm, e) {
			// "reloads to EXACTLY the in-memory list": an entry the loader drops because another entry covers it
			// answers Exists alike today, but not after that other entry is removed (Remove(parent) leaves the child
			// blocked in the running process and unblocked after a restart)
			r.violate("Converged", fmt.Sprintf("every call returned: memory holds %v, `local` lists %v, the reloaded list holds %v: %q was dropped by the loader",
				mem, local.raw, fm, e), nil)
			return nil
		}
	}
	return nil
}

var errTainted = fmt.Errorf("schedule outlived the 1 s refresh timer of New()")

func (r *pRun) runSchedule(sched []string) error {
	r.seq++
	r.dir = filepath.Join(vh.Scratch(r.t), "c18-persist", fmt.Sprintf("%d-%d", os.Getpid(), r.seq))
	if r.in.NoDir {
		if err := os.MkdirAll(filepath.Dir(r.dir), 0o750); err != nil {
			return err
		}
	} else if err := os.MkdirAll(r.dir, 0o750); err != nil {
		return err
	}
	r.snaps = map[uint64][]string{}
	r.localVer = 0
	r.lastLoc = "absent"
	r.events = nil
	r.hist = nil
	if len(r.in.InitMem) > 0 {
		var sb strings.Builder
		sb.WriteString("# The file generated by auto. DO NOT EDIT\n")
		for _, s := range r.initStrings() {
			sb.WriteString(s + "\n")
		}
		if err := os.WriteFile(filepath.Join(r.dir, "local"), []byte(sb.String()), 0o640); err != nil {
			return err
		}
		r.lastLoc = setKey(r.initStrings())
	}
	r.current = nil
	r.bl = newBlockList(r.dir, r.wl)
	r.born = time.Now()
	r.writers = map[int]*pWriter{}
	for p := 1; p <= r.nw; p++ {
		r.writers[p] = &pWriter{id: p, release: make(chan struct{})}
	}
	r.events = append(r.events, map[string]any{"ev": "Reset"})
	r.tainted = false
	r.refreshed = false
	r.faulted = false
	r.verdicts = 0
	crashed := false
	for _, lab := range sched {
		m := plabelRe.FindStringSubmatch(lab)
		if m == nil {
			return fmt.Errorf("bad label %q", lab)
		}
		if m[1] == "Crash" {
			r.hist = append(r.hist, "Crash")
			if err := r.crash(); err != nil {
				return err
			}
			crashed = true
			break
		}
		if m[1] == "Refresh" {
			// BlRefresh.tla's Refresh: every writer is parked at a gate (or idle); let the real refreshRemote()
			// of this BlockList run -- it fires one second after New() -- and go on afterwards
			if time.Since(r.born) > 850*time.Millisecond {
				return errTainted // reached too late: the timer may already have fired somewhere earlier
			}
			r.hist = append(r.hist, "Refresh")
			time.Sleep(time.Until(r.born.Add(1600 * time.Millisecond)))
			r.refreshed = true
			r.res.Count("refresh_steps", 1)
			if err := r.afterStep(0, pArrival{}, "refresh"); err != nil {
				return err
			}
			continue
		}
		p, _ := strconv.Atoi(m[2])
		if m[1] == "Vanish" || m[1] == "FailWrite" {
			// an I/O fault of BlRefresh.tla (TempVanish / FailWrite) injected from outside: fault_test.go
			r.hist = append(r.hist, lab)
			ok, err := r.faultStep(m[1], p)
			if err != nil {
				return err
			}
			if !ok {
				r.hist = r.hist[:len(r.hist)-1]
				r.res.Count("steps_not_enabled", 1)
				continue
			}
			r.res.Count("steps", 1)
			if r.verdicts > 0 || r.tainted {
				break
			}
			continue
		}
		// the step is part of the history before it runs: a predicate that
		// fails during it must name it
		r.hist = append(r.hist, fmt.Sprintf("%s(%d)", m[1], p))
		ok, err := r.stepWriter(p)
		if err != nil {
			return err
		}
		if !ok {
			r.hist = r.hist[:len(r.hist)-1]
			r.res.Count("steps_not_enabled", 1)
			continue
		}
		r.res.Count("steps", 1)
		if r.verdicts > 0 || r.tainted {
			break
		}
	}
	_ = crashed
	// drain: the run goes on (a Crash is evaluated on a copy of the directory)
	for guard := 0; guard < 100000; guard++ {
		progress := false
		for p := 1; p <= r.nw; p++ {
			w := r.writers[p]
			if w.active || w.opi < len(r.in.Prog[strconv.Itoa(p)]) {
				r.hist = append(r.hist, fmt.Sprintf("drain(%d)", p))
				ok, err := r.stepWriter(p)
				if err != nil {
					return err
				}
				if ok {
					progress = true
				} else {
					r.hist = r.hist[:len(r.hist)-1]
				}
			}
		}
		if !progress {
			break
		}
	}
	for _, w := range r.writers {
		if w.active {
			return fmt.Errorf("writer %d never returned", w.id)
		}
	}
	if r.tainted || (!r.refreshed && time.Since(r.born) > 850*time.Millisecond) {
		return errTainted
	}
	if r.verdicts > 0 {
		return nil
	}
	if r.faulted {
		// persist is best effort under I/O faults: convergence is owed only when the newest snapshot reached the disk
		if err := r.convergedAfterFault(); err != nil {
			return err
		}
	} else if err := r.converged(); err != nil {
		return err
	}
	if r.tainted {
		return errTainted
	}
	return nil
}

func TestPersistSchedules(t *testing.T) {
	var in pInput
	vh.Input(t, &in)
	res := vh.NewResult()
	defer res.Write(t)
	r := &pRun{t: t, in: &in, res: res, arrive: make(chan pArrival), strOf: map[string]string{}, idOf: map[string]string{}}
	r.nw = len(in.Prog)
	for id, e := range in.Entries {
		s := r.concrete(e.N)
		if e.K == "w" {
			s = "*." + s
		}
		r.strOf[id] = s
		r.idOf[s] = id
	}
	for _, n := range in.WL {
		r.wl = append(r.wl, r.concrete(n))
	}
	for _, n := range in.Universe {
		r.universe = append(r.universe, r.concrete(n))
	}
	blocklist.SetVerifGate(r.gate)
	defer blocklist.SetVerifGate(nil)

	r.staleTempProbe()

	var out *os.File
	if in.TraceOut != "" {
		var err error
		out, err = os.Create(filepath.Clean(in.TraceOut))
		if err != nil {
			t.Fatal(err)
		}
		defer out.Close()
	}
	for si, sched := range in.Schedules {
		var err error
		for attempt := 0; attempt < 5; attempt++ {
			if err = r.runSchedule(sched); err != errTainted {
				break
			}
			res.Count("tainted_retries", 1)
		}
		if err != nil {
			res.Skip("schedule %d: %v", si, err)
			break
		}
		res.Case(strings.Join(r.hist, ";"))
		if si < 2 {
			res.Sample(map[string]any{"schedule": r.hist})
		}
		if out != nil {
			for _, e := range r.events {
				b, _ := json.Marshal(e)
				out.Write(append(b, '\n'))
			}
		}
		res.Count("events", len(r.events))
		if res.NViolations() >= 10 {
			break
		}
	}
}
