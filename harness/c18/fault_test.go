package c18

// I/O faults inside persist(), injected from OUTSIDE the code under test (no hook in the function body): the fault
// steps of tla/Blocklist/BlPersist.tla (TempVanish, FailWrite, RenameFail) that BlRefresh.tla enables with its constant
// Faults.  A schedule of TestPersistSchedules may carry the labels
//
//	Vanish        every writer is parked at a gate; the driver removes the temp file `local.tmp.*` of the persist in
//	              flight from the directory (a tmp cleaner, an operator).  The writer keeps its descriptor: header,
//	              lines, sync and close succeed, os.Rename fails (the model's RenameFail(p) is then an ordinary
//	              "writer p takes its next step": the call returns without reaching the Renamed gate)
//	FailWrite(p)  writer p is parked after CreateTemp / the header / a line and has something left to write: the
//	              driver lowers RLIMIT_FSIZE to three bytes above the present size of the temp file and releases the
//	              writer; its next tmp.WriteString writes three bytes and fails with EFBIG (SIGXFSZ is ignored), so
//	              the temp file holds a PARTIAL header / line (one byte when a Vanish took the name away before: the
//	              write fails outright); the limit is restored as soon as the call has returned
//
// Judged after each of them (afterStep, on the real directory): DiskIsASnapshot and PreviousFileKept -- "an
// interruption during persistence leaves the previous complete file rather than a partial one".  At the end of a
// schedule with a fault: convergedAfterFault.

import (
	"fmt"
	"os"
	"os/signal"
	"path/filepath"
	"sync"
	"syscall"
)

var ignoreXFSZ sync.Once

func (r *pRun) faultStep(kind string, p int) (bool, error) {
	if kind == "Vanish" {
		return r.vanish()
	}
	return r.failWrite(p)
}

func (r *pRun) tempFiles() []string {
	tmps, _ := filepath.Glob(filepath.Join(r.dir, "local.tmp.*"))
	return tmps
}

// TempVanish: enabled while exactly one temp file is in the directory (a writer is between CreateTemp and Rename)
func (r *pRun) vanish() (bool, error) {
	tmps := r.tempFiles()
	if len(tmps) != 1 {
		return false, nil
	}
	if err := os.Remove(tmps[0]); err != nil {
		return false, err
	}
	r.faulted = true
	r.res.Count("fault_vanish", 1)
	return true, r.afterStep(0, pArrival{}, "vanish")
}

// FailWrite(p): enabled while p is parked with the header or an entry line still to be written
func (r *pRun) failWrite(p int) (bool, error) {
	w := r.writers[p]
	if w == nil || !w.active || (w.at != gTempCreated && w.at != gWroteHeader && w.at != gWroteLine) {
		return false, nil
	}
	if w.at != gTempCreated && w.nlines >= len(r.snaps[w.snapVer]) {
		return false, nil // every line is written: the next operation is Sync, which no limit makes fail
	}
	// three bytes above the present size: the write is cut short, the temp file ends in a partial header / line.
	// After a Vanish the file has no name to size it by: a limit of one byte makes the write fail outright.
	limit := uint64(1)
	if tmps := r.tempFiles(); len(tmps) == 1 {
		st, err := os.Stat(tmps[0])
		if err != nil {
			return false, err
		}
		limit = uint64(st.Size()) + 3
	}
	ignoreXFSZ.Do(func() { signal.Ignore(syscall.SIGXFSZ) })
	var old syscall.Rlimit
	if err := syscall.Getrlimit(syscall.RLIMIT_FSIZE, &old); err != nil {
		return false, fmt.Errorf("getrlimit: %v", err)
	}
	if err := syscall.Setrlimit(syscall.RLIMIT_FSIZE, &syscall.Rlimit{Cur: limit, Max: old.Max}); err != nil {
		return false, fmt.Errorf("setrlimit: %v", err)
	}
	r.current = w
	w.release <- struct{}{}
	a, aerr := r.await(w)
	if err := syscall.Setrlimit(syscall.RLIMIT_FSIZE, &old); err != nil {
		return false, fmt.Errorf("restore rlimit: %v", err)
	}
	if aerr != nil {
		return false, aerr
	}
	if !a.ret {
		return false, fmt.Errorf("writer %d reached gate %d although RLIMIT_FSIZE was %d bytes: the write did not fail", p, a.point, limit)
	}
	a.point = 0
	r.faulted = true
	r.res.Count("fault_write", 1)
	return true, r.afterStep(p, a, "failwrite")
}

// every call has returned and at least one persist was hit by an injected fault.  Owed (BlRefresh.tla FaultConverged):
// `local` is the previous complete file (judged step by step), a restart reloads exactly the list it holds, and it IS
// memory whenever the newest snapshot is the one that reached the disk.
func (r *pRun) convergedAfterFault() error {
	mem, local, tmp, ver, lp, err := r.observe()
	if err != nil {
		return err
	}
	if tmp.Ex {
		r.res.DriftNote("a failed persist left its temp file behind (%v) under schedule %v", tmp.raw, r.hist)
	}
	if lp == ver && setKey(local.raw) != setKey(mem) {
		r.violate("Converged", fmt.Sprintf("every call returned and the newest snapshot (version %d) is recorded as persisted: `local` lists %v, memory holds %v",
			ver, local.raw, mem), map[string]any{"local": local.raw, "mem": mem})
		return nil
	}
	if lp != ver {
		r.res.Count("fault_left_file_behind_memory", 1) // best effort: logged, not owed
	}
	if !local.Ex {
		return nil
	}
	r.seq++
	cp := filepath.Join(r.dir+"-reload", fmt.Sprint(r.seq))
	if err := copyDir(r.dir, cp, ""); err != nil {
		return err
	}
	fm := memEntries(newBlockList(cp, r.wl))
	if setKey(fm) != setKey(local.raw) {
		r.violate("PreviousFileKept", fmt.Sprintf("after a failed persist a restart reloads %v, the complete file `local` lists %v", fm, local.raw), nil)
	}
	return nil
}
