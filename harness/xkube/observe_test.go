package xkube

// Directed observations that are reported, not judged (the documentation is silent or says two things), and one
// liveness check of the real rebuild worker (its own timer, no explicit flush).

import (
	"testing"
	"time"

	"github.com/miekg/dns"
	"github.com/semihalev/sdns/verifharness/vh"
)

func TestObserve(t *testing.T) {
	var in inputJ
	vh.Input(t, &in)
	res := vh.NewResult()
	defer res.Write(t)
	obs := map[string]any{}

	hl := &objJ{Kind: "hl", UID: "u1", Ports: [][]any{{"http", "TCP", float64(80)}}}
	cip := &objJ{Kind: "cip", UID: "u1", IPs: []string{"10.96.0.1"}, Ports: [][]any{{"http", "TCP", float64(80)}}}
	sl := &objJ{Label: "a", Owner: "u1", Eps: []epJ{{Host: "w0", Ready: true, Addrs: []string{"10.244.0.1"}}}}
	pod := &objJ{IPs: []string{"10.244.0.1"}}

	// 1. the default chain: as112's empty zones (10.in-addr.arpa ...) stand before kubernetes
	{
		r, err := newRigZones(&in, vh.Scratch(t), true)
		if err != nil {
			t.Fatal(err)
		}
		w := r.newWorld("inline", time.Hour)
		w.c.VerifSetSynced(true)
		_ = w.apply(&stepJ{Op: "svcAdd", NS: "n1", Name: "b", Obj: cip})
		_ = w.apply(&stepJ{Op: "podAdd", NS: "n1", Name: "pa", Obj: pod})
		obs["default_chain_ptr_of_clusterip_10.96.0.1"] = r.ask("1.0.96.10.in-addr.arpa.", dns.TypePTR, false).out
		obs["default_chain_ptr_of_pod_10.244.0.1"] = r.ask("1.0.244.10.in-addr.arpa.", dns.TypePTR, true).out
		obs["default_chain_A_of_the_service"] = r.ask("b.n1.svc.cluster.local.", dns.TypeA, false).out
		w.close()
		r.release()
	}
	r, err := newRig(&in, vh.Scratch(t))
	if err != nil {
		t.Fatal(err)
	}
	defer r.release()
	// 2. before the first sync; empty non-terminals
	{
		w := r.newWorld("inline", time.Hour)
		_ = w.apply(&stepJ{Op: "svcAdd", NS: "n1", Name: "b", Obj: cip})
		obs["unsynced_cluster_name"] = r.ask("b.n1.svc.cluster.local.", dns.TypeA, false).out
		obs["unsynced_cluster_name_raw"] = r.ask("b.n1.svc.cluster.local.", dns.TypeA, true).out
		obs["unsynced_reverse"] = r.ask("1.0.96.10.in-addr.arpa.", dns.TypePTR, false).out
		obs["unsynced_foreign"] = r.ask("example.com.", dns.TypeA, false).out
		w.c.VerifSetSynced(true)
		obs["empty_non_terminal_n1.svc"] = r.ask("n1.svc.cluster.local.", dns.TypeA, false).out
		obs["empty_non_terminal__tcp.b.n1.svc"] = r.ask("_tcp.b.n1.svc.cluster.local.", dns.TypeA, false).out
		obs["zone_apex"] = r.ask("cluster.local.", dns.TypeSOA, false).out
		w.close()
	}
	// 3. the real worker: a slice event is published after the debounce without anybody flushing
	{
		w := r.newWorld("queued", 3*time.Millisecond)
		w.c.VerifSetSynced(true)
		_ = w.apply(&stepJ{Op: "svcAdd", NS: "n1", Name: "a", Obj: hl})
		_ = w.apply(&stepJ{Op: "sliceAdd", NS: "n1", Name: "e1", Obj: sl})
		t0 := time.Now()
		want := "OK{a.n1.svc.cluster.local. " + itoa(in.TTL.Service) + " A 10.244.0.1}"
		got := ""
		for time.Since(t0) < 5*time.Second {
			got = r.ask("a.n1.svc.cluster.local.", dns.TypeA, false).out
			if got == want {
				break
			}
			time.Sleep(time.Millisecond)
		}
		res.Case("worker|" + shape(got))
		if got != want {
			res.Violate("kube/worker-stuck", "5 s after an EndpointSlice event the rebuild worker (debounce 3 ms) has not published it: a.n1.svc A = "+got,
				map[string]any{"driver": "observe"})
		}
		obs["worker_published_after_ms"] = time.Since(t0).Milliseconds()
		// the slice goes away: the worker retracts it
		_ = w.apply(&stepJ{Op: "sliceDelete", NS: "n1", Name: "e1", Obj: sl})
		t0 = time.Now()
		for time.Since(t0) < 5*time.Second {
			got = r.ask("a.n1.svc.cluster.local.", dns.TypeA, true).out
			if got == "OK{}" {
				break
			}
			time.Sleep(time.Millisecond)
		}
		res.Case("worker-retract|" + shape(got))
		if got != "OK{}" {
			res.Violate("kube/worker-stuck", "5 s after an EndpointSlice delete the rebuild worker has not retracted it: a.n1.svc A = "+got,
				map[string]any{"driver": "observe"})
		}
		w.close()
	}
	res.Sample(obs)
}

func itoa(u uint32) string {
	if u == 0 {
		return "0"
	}
	var b []byte
	for u > 0 {
		b = append([]byte{byte('0' + u%10)}, b...)
		u /= 10
	}
	return string(b)
}
