// Package xkube binds tla/KubeRegistry/KubeRegistry.tla to middleware/kubernetes:
// TLC-generated histories of informer callbacks are replayed on the real Client
// + Registry + handler (inside the real default chain, decoded and wire-born
// entries), and after every callback every name of the universe is asked.
package xkube

import (
	"context"
	"fmt"
	"net"
	"sort"
	"strings"
	"sync"
	"time"

	"github.com/miekg/dns"
	"github.com/semihalev/sdns/config"
	"github.com/semihalev/sdns/middleware"
	"github.com/semihalev/sdns/middleware/kubernetes"
	"github.com/semihalev/sdns/server"
	"github.com/semihalev/sdns/verifharness/pipe"
	corev1 "k8s.io/api/core/v1"
	discoveryv1 "k8s.io/api/discovery/v1"
	metav1 "k8s.io/apimachinery/pkg/apis/meta/v1"
	"k8s.io/apimachinery/pkg/types"
	"k8s.io/client-go/tools/cache"
)

// ---- input ---------------------------------------------------------------------------------------

type srvJ struct {
	Port   int    `json:"port"`
	Target string `json:"target"` // name id
}

type glueJ struct {
	Name string `json:"name"` // name id
	IP   string `json:"ip"`
}

// setJ is an answer set of the model (registry.go answerSet), names by id.
type setJ struct {
	Gone  bool     `json:"gone,omitempty"` // "no entry" (histories only)
	A     []string `json:"a,omitempty"`
	AAAA  []string `json:"aaaa,omitempty"`
	CNAME []string `json:"cname,omitempty"`
	SRV   []srvJ   `json:"srv,omitempty"`
	PTR   []string `json:"ptr,omitempty"`
	FB    bool     `json:"fb,omitempty"`
	Extra []glueJ  `json:"extra,omitempty"`
}

type nameJ struct {
	ID    string `json:"id"`
	Kind  string `json:"kind"`  // svc srv ept pod rev
	Q     string `json:"q"`     // canonical lower-case owner name
	Alt   string `json:"alt"`   // the same name in another case
	Alias string `json:"alias"` // second spelling the registry publishes (expanded IPv6 pod label), or ""
	Owner string `json:"owner"` // "ns/name" of the Service whose rebuild the name depends on, or ""
}

type epJ struct {
	Host  string   `json:"host"`
	Ready bool     `json:"ready"`
	Addrs []string `json:"addrs"`
}

type objJ struct {
	Kind  string   `json:"kind,omitempty"` // cip hl ext
	IPs   []string `json:"ips,omitempty"`
	Ports [][]any  `json:"ports,omitempty"` // [name, proto, number]
	Ext   string   `json:"ext,omitempty"`
	UID   string   `json:"uid,omitempty"`
	Label string   `json:"label,omitempty"`
	Owner string   `json:"owner,omitempty"`
	Eps   []epJ    `json:"eps,omitempty"`
}

type stepJ struct {
	Label      string              `json:"label"` // the model's action, for replay files
	Op         string              `json:"op"`
	NS         string              `json:"ns,omitempty"`
	Name       string              `json:"name,omitempty"`
	Obj        *objJ               `json:"obj,omitempty"`
	Old        *objJ               `json:"old,omitempty"`
	Synced     bool                `json:"synced"`
	Model      map[string]setJ     `json:"model"`
	Truth      map[string][]setJ   `json:"truth"`
	Why        map[string][]string `json:"why,omitempty"`
	Pending    []string            `json:"pending,omitempty"`
	Hist       map[string][]setJ   `json:"hist,omitempty"`
	ByIP       map[string]string   `json:"byip,omitempty"`
	PodIP      map[string]string   `json:"podip,omitempty"`
	SvcHolders map[string][]string `json:"svcHolders,omitempty"`
	PodHolders map[string][]string `json:"podHolders,omitempty"`
}

type behJ struct {
	Name  string  `json:"name"`
	Mode  string  `json:"mode"` // inline | queued
	Steps []stepJ `json:"steps"`
}

type outsideJ struct {
	Q      string `json:"q"`
	Type   string `json:"type"`
	Expect string `json:"expect"` // PASS | NX | "" (observe only)
}

type ttlJ struct {
	Service uint32 `json:"service"`
	Pod     uint32 `json:"pod"`
	SRV     uint32 `json:"srv"`
	PTR     uint32 `json:"ptr"`
}

type inputJ struct {
	Domain     string     `json:"domain"` // as configured (any case, maybe a trailing dot)
	TTL        ttlJ       `json:"ttl"`
	Names      []nameJ    `json:"names"`
	Outside    []outsideJ `json:"outside"`
	Types      []string   `json:"types"`
	Behaviours []behJ     `json:"behaviours"`
	BudgetS    int        `json:"budgetS"`
	Queriers   int        `json:"queriers"`
	Strict     bool       `json:"strict"` // free-running: a reply outside the model is a violation (the sequential replay had no drift)
	SelfCheck  []selfJ    `json:"selfcheck"`
}

// selfJ: one Query(n, qt) evaluated by TLC, to pin outcomeOf (this file) to the spec's Outcome.
type selfJ struct {
	Set  setJ   `json:"set"`
	Type string `json:"type"`
	F    string `json:"f"`  // which slot answered: a aaaa cname srv ptr any none
	N    int    `json:"n"`  // number of answer records
	NX   int    `json:"nx"` // number of additional records
}

// ---- the rig -------------------------------------------------------------------------------------

type rig struct {
	in      *inputJ
	cfg     *config.Config
	srv     *server.Server
	tail    *pipe.Tail
	k       *kubernetes.Kubernetes
	release func()
	names   map[string]*nameJ // by id
	byQ     map[string]string // owner name -> id
	qid     uint16
}

func newRig(in *inputJ, dir string) (*rig, error) { return newRigZones(in, dir, false) }

func newRigZones(in *inputJ, dir string, defaultAS112 bool) (*rig, error) {
	r := &rig{in: in, names: map[string]*nameJ{}, byQ: map[string]string{}}
	for i := range in.Names {
		n := &in.Names[i]
		r.names[n.ID] = n
		r.byQ[n.Q] = n.ID
		if n.Alias != "" {
			r.byQ[n.Alias] = n.ID
		}
	}
	cfg := pipe.BaseConfig()
	cfg.Directory = dir
	// the branch of New that builds a registry without dialling a cluster; VerifAttach replaces the demo data
	cfg.Kubernetes.Demo = true
	cfg.Kubernetes.ClusterDomain = in.Domain
	cfg.Kubernetes.TTL = config.KubernetesTTLConfig{Service: in.TTL.Service, Pod: in.TTL.Pod, SRV: in.TTL.SRV, PTR: in.TTL.PTR}
	// as112 stands before kubernetes in the default chain and owns 10.in-addr.arpa etc. by default
	// (reported as an observation by TestChainDefaults); the replay narrows it so that PTR reaches kubernetes
	if !defaultAS112 {
		cfg.EmptyZones = []string{"254.169.in-addr.arpa."}
	}
	r.cfg = cfg
	r.tail = &pipe.Tail{Respond: func(_ context.Context, _ *middleware.Chain, req *dns.Msg) *dns.Msg {
		m := new(dns.Msg)
		m.SetRcode(req, dns.RcodeRefused)
		return m
	}}
	r.srv, r.release = pipe.NewServer(cfg, r.tail, "dns64")
	k, ok := middleware.Get("kubernetes").(*kubernetes.Kubernetes)
	if !ok || k == nil {
		r.release()
		return nil, fmt.Errorf("no kubernetes handler in the chain")
	}
	r.k = k
	return r, nil
}

// world is one fresh registry + Client attached to the handler.
type world struct {
	r      *rig
	c      *kubernetes.Client
	mode   string
	stop   func()
	svc    map[string]*corev1.Service
	slices map[string]*discoveryv1.EndpointSlice
	pods   map[string]*corev1.Pod
	ndel   int
}

func (r *rig) newWorld(mode string, debounce time.Duration) *world {
	w := &world{r: r, mode: mode, svc: map[string]*corev1.Service{}, slices: map[string]*discoveryv1.EndpointSlice{},
		pods: map[string]*corev1.Pod{}}
	w.c = r.k.VerifAttach(r.cfg)
	if mode == "queued" {
		w.stop = w.c.VerifStartWorker(debounce)
	}
	return w
}

func (w *world) close() {
	if w.stop != nil {
		w.stop()
		w.stop = nil
	}
}

func mkService(ns, name string, o *objJ) *corev1.Service {
	s := &corev1.Service{ObjectMeta: metav1.ObjectMeta{Name: name, Namespace: ns, UID: types.UID(o.UID)}}
	switch o.Kind {
	case "hl":
		s.Spec.Type = corev1.ServiceTypeClusterIP
		s.Spec.ClusterIP = "None"
		s.Spec.ClusterIPs = []string{"None"}
	case "ext":
		s.Spec.Type = corev1.ServiceTypeExternalName
		s.Spec.ExternalName = strings.TrimSuffix(o.Ext, ".")
	default:
		s.Spec.Type = corev1.ServiceTypeClusterIP
		s.Spec.ClusterIPs = append([]string(nil), o.IPs...)
		if len(o.IPs) > 0 {
			s.Spec.ClusterIP = o.IPs[0]
		}
		for _, ip := range o.IPs {
			if strings.Contains(ip, ":") {
				s.Spec.IPFamilies = append(s.Spec.IPFamilies, corev1.IPv6Protocol)
			} else {
				s.Spec.IPFamilies = append(s.Spec.IPFamilies, corev1.IPv4Protocol)
			}
		}
	}
	for _, p := range o.Ports {
		num, _ := p[2].(float64)
		s.Spec.Ports = append(s.Spec.Ports, corev1.ServicePort{Name: p[0].(string), Protocol: corev1.Protocol(p[1].(string)), Port: int32(num)})
	}
	return s
}

func mkSlice(ns, name string, o *objJ) *discoveryv1.EndpointSlice {
	e := &discoveryv1.EndpointSlice{ObjectMeta: metav1.ObjectMeta{Name: name, Namespace: ns,
		Labels: map[string]string{discoveryv1.LabelServiceName: o.Label}}, AddressType: discoveryv1.AddressTypeIPv4}
	if o.Owner != "" {
		e.OwnerReferences = []metav1.OwnerReference{{APIVersion: "v1", Kind: "Service", Name: o.Label, UID: types.UID(o.Owner)}}
	}
	for _, ep := range o.Eps {
		ready := ep.Ready
		x := discoveryv1.Endpoint{Addresses: append([]string(nil), ep.Addrs...), Conditions: discoveryv1.EndpointConditions{Ready: &ready}}
		if ep.Host != "" {
			h := ep.Host
			x.Hostname = &h
		}
		e.Endpoints = append(e.Endpoints, x)
	}
	return e
}

func mkPod(ns, name string, o *objJ) *corev1.Pod {
	p := &corev1.Pod{ObjectMeta: metav1.ObjectMeta{Name: name, Namespace: ns}}
	p.Status.Phase = corev1.PodRunning
	if len(o.IPs) > 0 {
		p.Status.PodIP = o.IPs[0]
		for _, ip := range o.IPs {
			p.Status.PodIPs = append(p.Status.PodIPs, corev1.PodIP{IP: ip})
		}
	}
	return p
}

// apply performs one callback exactly as the shared informer would call it.
func (w *world) apply(st *stepJ) error {
	key := st.NS + "/" + st.Name
	c := w.c
	switch st.Op {
	case "svcAdd":
		o := mkService(st.NS, st.Name, st.Obj)
		w.svc[key] = o
		c.VerifServiceAdd(o)
	case "svcUpdate":
		o := mkService(st.NS, st.Name, st.Obj)
		old := w.svc[key]
		w.svc[key] = o
		c.VerifServiceUpdate(old, o)
	case "svcDelete":
		old := w.svc[key]
		if old == nil {
			old = mkService(st.NS, st.Name, st.Obj)
		}
		delete(w.svc, key)
		w.ndel++
		if w.ndel%2 == 0 { // a delete seen only through a relist arrives wrapped
			c.VerifServiceDelete(cache.DeletedFinalStateUnknown{Key: key, Obj: old})
		} else {
			c.VerifServiceDelete(old)
		}
	case "sliceAdd":
		o := mkSlice(st.NS, st.Name, st.Obj)
		w.slices[key] = o
		c.VerifEndpointSliceAdd(o)
	case "sliceUpdate":
		o := mkSlice(st.NS, st.Name, st.Obj)
		old := w.slices[key]
		if old == nil && st.Old != nil {
			old = mkSlice(st.NS, st.Name, st.Old)
		}
		w.slices[key] = o
		c.VerifEndpointSliceUpdate(old, o)
	case "sliceDelete":
		old := w.slices[key]
		if old == nil {
			old = mkSlice(st.NS, st.Name, st.Obj)
		}
		delete(w.slices, key)
		w.ndel++
		if w.ndel%2 == 0 {
			c.VerifEndpointSliceDelete(cache.DeletedFinalStateUnknown{Key: key, Obj: old})
		} else {
			c.VerifEndpointSliceDelete(old)
		}
	case "podAdd":
		o := mkPod(st.NS, st.Name, st.Obj)
		w.pods[key] = o
		c.VerifPodAdd(o)
	case "podUpdate":
		o := mkPod(st.NS, st.Name, st.Obj)
		old := w.pods[key]
		w.pods[key] = o
		c.VerifPodUpdate(old, o)
	case "podDelete":
		old := w.pods[key]
		if old == nil {
			old = mkPod(st.NS, st.Name, st.Obj)
		}
		delete(w.pods, key)
		w.ndel++
		if w.ndel%2 == 0 {
			c.VerifPodDelete(cache.DeletedFinalStateUnknown{Key: key, Obj: old})
		} else {
			c.VerifPodDelete(old)
		}
	case "sync": // Run: WaitForCacheSync, flushRebuilds, synced.Store(true)
		if w.mode == "queued" {
			c.VerifFlush()
		}
		c.VerifSetSynced(true)
	case "flush": // the worker's processPending
		c.VerifFlush()
	default:
		return fmt.Errorf("unknown op %q", st.Op)
	}
	return nil
}

// ---- asking --------------------------------------------------------------------------------------

var qtypes = map[string]uint16{"A": dns.TypeA, "AAAA": dns.TypeAAAA, "CNAME": dns.TypeCNAME, "SRV": dns.TypeSRV,
	"PTR": dns.TypePTR, "TXT": dns.TypeTXT, "ANY": dns.TypeANY}

type reply struct {
	out    string // canonical outcome
	passed bool
	tailQ  string // what the tail saw (pass-through)
	tailT  uint16
	aa, ra bool
	rcode  int
}

var askMu sync.Mutex // the tail's call counter identifies a pass-through: one question at a time per rig in the replay

func rrCanon(rr dns.RR) string {
	h := rr.Header()
	name := strings.ToLower(h.Name)
	switch x := rr.(type) {
	case *dns.A:
		return fmt.Sprintf("%s %d A %s", name, h.Ttl, x.A.String())
	case *dns.AAAA:
		return fmt.Sprintf("%s %d AAAA %s", name, h.Ttl, x.AAAA.String())
	case *dns.CNAME:
		return fmt.Sprintf("%s %d CNAME %s", name, h.Ttl, strings.ToLower(x.Target))
	case *dns.PTR:
		return fmt.Sprintf("%s %d PTR %s", name, h.Ttl, strings.ToLower(x.Ptr))
	case *dns.SRV:
		return fmt.Sprintf("%s %d SRV %d %d %d %s", name, h.Ttl, x.Priority, x.Weight, x.Port, strings.ToLower(x.Target))
	}
	return strings.ToLower(rr.String())
}

func canonMsg(m *dns.Msg) string {
	if m == nil {
		return "NONE"
	}
	switch m.Rcode {
	case dns.RcodeServerFailure:
		return "SERVFAIL"
	case dns.RcodeNameError:
		if len(m.Answer) == 0 {
			return "NX"
		}
	case dns.RcodeSuccess:
	default:
		return "RCODE" + dns.RcodeToString[m.Rcode]
	}
	var ans, ex []string
	for _, rr := range m.Answer {
		ans = append(ans, rrCanon(rr))
	}
	for _, rr := range m.Extra {
		if _, opt := rr.(*dns.OPT); opt {
			continue
		}
		ex = append(ex, rrCanon(rr))
	}
	sort.Strings(ans)
	sort.Strings(ex)
	s := "OK{" + strings.Join(ans, "; ") + "}"
	if m.Rcode == dns.RcodeNameError {
		s = "NX{" + strings.Join(ans, "; ") + "}"
	}
	if len(ex) > 0 {
		s += "+{" + strings.Join(ex, "; ") + "}"
	}
	if len(m.Ns) > 0 {
		s += "ns" + fmt.Sprint(len(m.Ns))
	}
	return s
}

// ask sends one question through the real chain: raw = Server.ServeRaw (wire-born), else Server.ServeMsg.
func (r *rig) ask(q string, qt uint16, raw bool) reply {
	req := new(dns.Msg)
	req.SetQuestion(q, qt)
	r.qid++
	req.Id = r.qid
	before := r.tail.NCalls()
	var m *dns.Msg
	if raw {
		m = pipe.AskRaw(r.srv, req, "udp", "203.0.113.9")
	} else {
		m = pipe.Ask(r.srv, req, "udp", "203.0.113.9")
	}
	rp := reply{}
	if r.tail.NCalls() > before {
		rp.passed = true
		rp.out = "PASS"
		if l := r.tail.Last(); l != nil && len(l.Question) == 1 {
			rp.tailQ, rp.tailT = l.Question[0].Name, l.Question[0].Qtype
		}
		return rp
	}
	rp.out = canonMsg(m)
	if m != nil {
		rp.aa, rp.ra, rp.rcode = m.Authoritative, m.RecursionAvailable, m.Rcode
		if m.Id != req.Id || len(m.Question) != 1 || m.Question[0].Name != q || m.Question[0].Qtype != qt {
			rp.out += " !question"
		}
	}
	return rp
}

// ---- expectations from an answer set (registry.go cachedAnswer + kubernetes.go ServeDNS) --------

func (r *rig) ttlFor(kind, rtype string) uint32 {
	switch rtype {
	case "SRV":
		return r.in.TTL.SRV
	case "PTR":
		return r.in.TTL.PTR
	}
	if kind == "pod" {
		return r.in.TTL.Pod
	}
	return r.in.TTL.Service
}

func (r *rig) qOf(id string) string {
	if n := r.names[id]; n != nil {
		return n.Q
	}
	return "unknown-name-" + id + "."
}

// slot tells which slot of the set answers qt ("none" = NOERROR/NODATA).
func slot(s *setJ, qt string) string {
	rest := "none"
	if s.FB && len(s.CNAME) > 0 {
		rest = "cname"
	}
	switch qt {
	case "A":
		if len(s.A) > 0 {
			return "a"
		}
	case "AAAA":
		if len(s.AAAA) > 0 {
			return "aaaa"
		}
	case "CNAME":
		if len(s.CNAME) > 0 {
			return "cname"
		}
	case "SRV":
		if len(s.SRV) > 0 {
			return "srv"
		}
	case "PTR":
		if len(s.PTR) > 0 {
			return "ptr"
		}
	case "ANY":
		return "any"
	}
	return rest
}

func normIP(s string) string {
	if ip := net.ParseIP(s); ip != nil {
		return ip.String()
	}
	return s
}

// outcomeOf is the canonical reply the handler owes for (owner, qt) when the registry holds s for the name.
func (r *rig) outcomeOf(s *setJ, kind, owner, qt string) string {
	var ans, ex []string
	add := func(sl string) {
		switch sl {
		case "a":
			for _, ip := range s.A {
				ans = append(ans, fmt.Sprintf("%s %d A %s", owner, r.ttlFor(kind, "A"), normIP(ip)))
			}
		case "aaaa":
			for _, ip := range s.AAAA {
				ans = append(ans, fmt.Sprintf("%s %d AAAA %s", owner, r.ttlFor(kind, "AAAA"), normIP(ip)))
			}
		case "cname":
			for _, t := range s.CNAME {
				ans = append(ans, fmt.Sprintf("%s %d CNAME %s", owner, r.ttlFor(kind, "CNAME"), strings.ToLower(t)))
			}
		case "srv":
			for _, x := range s.SRV {
				ans = append(ans, fmt.Sprintf("%s %d SRV 0 100 %d %s", owner, r.ttlFor(kind, "SRV"), x.Port, r.qOf(x.Target)))
			}
		case "ptr":
			for _, t := range s.PTR {
				ans = append(ans, fmt.Sprintf("%s %d PTR %s", owner, r.ttlFor(kind, "PTR"), r.qOf(t)))
			}
		}
	}
	sl := slot(s, qt)
	if sl == "any" {
		for _, x := range []string{"a", "aaaa", "cname", "srv", "ptr"} {
			add(x)
		}
	} else {
		add(sl)
	}
	if sl == "srv" {
		for _, g := range s.Extra {
			t := "A"
			if strings.Contains(g.IP, ":") {
				t = "AAAA"
			}
			ex = append(ex, fmt.Sprintf("%s %d %s %s", r.qOf(g.Name), r.in.TTL.Service, t, normIP(g.IP)))
		}
	}
	sort.Strings(ans)
	sort.Strings(ex)
	out := "OK{" + strings.Join(ans, "; ") + "}"
	if len(ex) > 0 {
		out += "+{" + strings.Join(ex, "; ") + "}"
	}
	return out
}

// missOf: no entry for the name.
func missOf(kind string) string {
	if kind == "rev" {
		return "PASS"
	}
	return "NX"
}

func isEmptySet(s *setJ) bool {
	return len(s.A)+len(s.AAAA)+len(s.CNAME)+len(s.SRV)+len(s.PTR) == 0
}
