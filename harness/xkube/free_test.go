package xkube

// Free-running stage: the callbacks of a TLC history are made by one goroutine per
// independent informer group (pods | services + slices, as the shared informers
// would: each delivers its own events in order, the groups run concurrently) while
// queriers hammer the names through the real chain.  A reply must be the as-built
// model's answer in one of the states the query overlapped ("old or new"), a value
// the model's per-name history of an overlapped callback predicts (the documented
// transient "no entry" = gap, or a modelled intermediate), and nothing else.

import (
	"fmt"
	"sync"
	"sync/atomic"
	"testing"
	"time"

	"github.com/miekg/dns"
	"github.com/semihalev/sdns/verifharness/pipe"
	"github.com/semihalev/sdns/verifharness/vh"
)

var freeID atomic.Uint32

// askC is ask without the tail's call counter (concurrent queriers): the scripted tail answers REFUSED, which the
// kubernetes handler never does, so REFUSED = passed through.
func (r *rig) askC(q string, qt uint16, raw bool) string {
	req := new(dns.Msg)
	req.SetQuestion(q, qt)
	req.Id = uint16(freeID.Add(1))
	var m *dns.Msg
	if raw {
		m = pipe.AskRaw(r.srv, req, "udp", "203.0.113.9")
	} else {
		m = pipe.Ask(r.srv, req, "udp", "203.0.113.9")
	}
	if m != nil && m.Rcode == dns.RcodeRefused {
		return "PASS"
	}
	return canonMsg(m)
}

func podGroup(n *nameJ, podAddr map[string]bool) bool {
	if n.Kind == "pod" {
		return true
	}
	if n.Kind == "rev" {
		return podAddr[n.ID[len("rev/"):]]
	}
	return false
}

type group struct {
	steps       []int // indexes into b.Steps
	begun, done atomic.Int32
}

func TestFree(t *testing.T) {
	var in inputJ
	vh.Input(t, &in)
	res := vh.NewResult()
	defer res.Write(t)
	r, err := newRig(&in, vh.Scratch(t))
	if err != nil {
		t.Fatal(err)
	}
	defer r.release()
	selfCheck(t, r, &in)
	podAddr := map[string]bool{}
	for _, b := range in.Behaviours {
		for _, st := range b.Steps {
			if len(st.Op) > 3 && st.Op[:3] == "pod" && st.Obj != nil {
				for _, ip := range st.Obj.IPs {
					podAddr[ip] = true
				}
			}
		}
	}
	nq := in.Queriers
	if nq <= 0 {
		nq = 4
	}
	t0 := time.Now()
	for bi := range in.Behaviours {
		b := &in.Behaviours[bi]
		if in.BudgetS > 0 && time.Since(t0) > time.Duration(in.BudgetS)*time.Second {
			res.Count("behaviours_cut_by_budget", 1)
			continue
		}
		w := r.newWorld("inline", time.Hour)
		w.c.VerifSetSynced(true)
		var g [2]group // 0 = pods, 1 = services and slices
		for si := range b.Steps {
			op := b.Steps[si].Op
			switch {
			case op == "sync" || op == "flush":
			case len(op) > 3 && op[:3] == "pod":
				g[0].steps = append(g[0].steps, si)
			default:
				g[1].steps = append(g[1].steps, si)
			}
		}
		// names that ever hold a record
		var active []*nameJ
		for ni := range in.Names {
			n := &in.Names[ni]
			for si := range b.Steps {
				if _, ok := b.Steps[si].Model[n.ID]; ok {
					active = append(active, n)
					break
				}
			}
		}
		if len(active) == 0 {
			w.close()
			continue
		}
		// outcome of name n after j events of its group (j = 0: nothing delivered yet)
		stateOut := func(n *nameJ, gi, j int, qt string) string {
			if j == 0 {
				return missOf(n.Kind)
			}
			st := &b.Steps[g[gi].steps[j-1]]
			if s, ok := st.Model[n.ID]; ok {
				return r.outcomeOf(&s, n.Kind, n.Q, qt)
			}
			return missOf(n.Kind)
		}
		var stop atomic.Bool
		var wg, qg sync.WaitGroup
		for qi := 0; qi < nq; qi++ {
			qg.Add(1)
			go func(qi int) {
				defer qg.Done()
				k := qi
				for !stop.Load() {
					n := active[k%len(active)]
					k += nq + 1
					qt := natural(n.Kind)
					if k%5 == 0 {
						qt = in.Types[k%len(in.Types)]
					}
					gi := 1
					if podGroup(n, podAddr) {
						gi = 0
					}
					lo := int(g[gi].done.Load())
					out := r.askC(n.Q, qtypes[qt], k%2 == 0)
					hi := int(g[gi].begun.Load())
					res.Count("queries", 1)
					if hi > lo {
						res.Count("overlapped", 1)
					}
					ok := false
					for j := lo; j <= hi && !ok; j++ {
						ok = stateOut(n, gi, j, qt) == out
					}
					if ok {
						res.Count("old_or_new", 1)
						res.Case("free|" + n.Kind + "|" + qt + "|" + shape(out))
						continue
					}
					// a value the running callback(s) put there on the way
					class := ""
					for j := lo + 1; j <= hi && class == ""; j++ {
						st := &b.Steps[g[gi].steps[j-1]]
						for _, hv := range st.Hist[n.ID] {
							hv := hv
							if hv.Gone {
								if out == missOf(n.Kind) {
									class = "gap"
								}
							} else if r.outcomeOf(&hv, n.Kind, n.Q, qt) == out {
								class = "intermediate"
							}
						}
					}
					if class != "" {
						res.Count(class, 1)
						res.Case("free|" + class + "|" + n.Kind + "|" + qt)
						continue
					}
					var script []string
					for _, st := range b.Steps {
						script = append(script, st.Label)
					}
					what := fmt.Sprintf("%s %s answered %s while callbacks %d..%d of its informer group ran; states %d..%d answer %s .. %s",
						n.Q, qt, out, lo+1, hi, lo, hi, stateOut(n, gi, lo, qt), stateOut(n, gi, hi, qt))
					if in.Strict {
						res.Violate("kube/mixed/"+n.Kind, what, map[string]any{"driver": "free", "mode": "inline", "script": script, "name": n.ID, "qtype": qt})
					} else {
						res.DriftNote("free-running: %s", what)
					}
				}
			}(qi)
		}
		for gi := range g {
			wg.Add(1)
			go func(gi int) {
				defer wg.Done()
				for _, si := range g[gi].steps {
					g[gi].begun.Add(1)
					if err := w.apply(&b.Steps[si]); err != nil {
						res.Skip("%s: %v", b.Name, err)
					}
					g[gi].done.Add(1)
					res.Count("callbacks", 1)
					if si%3 == 0 {
						time.Sleep(50 * time.Microsecond)
					}
				}
			}(gi)
		}
		wg.Wait()
		time.Sleep(200 * time.Microsecond)
		stop.Store(true)
		qg.Wait()
		// quiescent: the final answers are those of the history's last state
		last := &b.Steps[len(b.Steps)-1]
		for _, n := range active {
			qt := natural(n.Kind)
			want := missOf(n.Kind)
			if s, ok := last.Model[n.ID]; ok {
				want = r.outcomeOf(&s, n.Kind, n.Q, qt)
			}
			if got := r.askC(n.Q, qtypes[qt], false); got != want {
				if in.Strict {
					res.Violate("kube/converge/"+n.Kind, fmt.Sprintf("after the concurrent run %s %s answers %s, the sequential history ends with %s", n.Q, qt, got, want),
						map[string]any{"driver": "free", "mode": "inline", "name": n.ID})
				} else {
					res.DriftNote("free-running: final %s %s = %s, sequential %s", n.Q, qt, got, want)
				}
			}
		}
		w.close()
		res.Count("behaviours", 1)
	}
}
