package x02hm

import (
	"encoding/json"
	"fmt"
	"math/rand"
	"os"
	"path/filepath"
	"runtime"
	"sort"
	"strings"
	"sync"
	"testing"
	"time"

	"github.com/semihalev/sdns/middleware/resolver/dnssec"
	"github.com/semihalev/sdns/verifharness/vh"
)

// ---- input ---------------------------------------------------------------------------

type expIn struct {
	Procs map[string]string `json:"procs"` // "1" -> idle | parked | wait | done:ok | done:err
	Memo  map[string][2]int `json:"memo"`  // compartment -> [entries, pending]
}

type stepIn struct {
	A   string `json:"a"` // Start | Release | Refuse
	P   int    `json:"p"`
	Exp *expIn `json:"exp,omitempty"` // the model's (quiescent) state BEFORE the step
}

type schedIn struct {
	Scn   string   `json:"scn"`
	Tag   string   `json:"tag"`
	Steps []stepIn `json:"steps"`
	Final *expIn   `json:"final,omitempty"`
	// NoTrace: a run without model states to compare with is not recorded for the trace spec either
	NoTrace bool `json:"notrace,omitempty"`
}

type scnIn struct {
	Name    string     `json:"name"`
	Procs   []callIn   `json:"procs"`   // process p is Procs[p-1]
	Progs   [][]string `json:"progs"`   // the model's Prog[p] as "<ring>:<owner>"
	Prefill int        `json:"prefill"` // foreign entries put into the required compartment first
}

type pairIn struct {
	First  callIn `json:"first"`
	Second callIn `json:"second"`
}

type freeIn struct {
	Rounds  int      `json:"rounds"`
	Width   int      `json:"width"`
	Refuse  int      `json:"refusePermille"`
	Menu    []callIn `json:"menu"`
	BudgetS float64  `json:"budgetS"`
	Only    int      `json:"only"` // replay: run just this round (1-based)
}

type input struct {
	Scenarios []scnIn   `json:"scenarios"`
	Schedules []schedIn `json:"schedules"`
	Limiter   []pairIn  `json:"limiter"`
	Free      *freeIn   `json:"free"`
	BudgetS   float64   `json:"budgetS"` // wall budget of the gated replay (0 = none)
	TraceDir  string    `json:"traceDir"` // runs that left TLC's own path are recorded here (trace_<scenario>.ndjson)
}

// traceLine is one NDJSON line for Trace_HashMemo.tla.
type traceLine struct {
	Ev    string              `json:"ev"` // reset | step
	A     string              `json:"a,omitempty"`
	P     int                 `json:"p,omitempty"`
	Procs []string            `json:"procs,omitempty"`
	Memo  map[string]memoLine `json:"memo,omitempty"`
}

type memoLine struct {
	N       int         `json:"n"`
	Pending [][2]string `json:"pending"`
}

type traceSink struct {
	mu    sync.Mutex
	lines map[string][]traceLine
}

func (ts *traceSink) add(scn string, run []traceLine) {
	ts.mu.Lock()
	defer ts.mu.Unlock()
	ts.lines[scn] = append(append(ts.lines[scn], traceLine{Ev: "reset"}), run...)
}

func (ts *traceSink) flush(dir string) error {
	for scn, ls := range ts.lines {
		var sb strings.Builder
		for _, l := range append(ls, traceLine{Ev: "reset"}) {
			b, err := json.Marshal(l)
			if err != nil {
				return err
			}
			sb.Write(b)
			sb.WriteByte('\n')
		}
		if err := os.WriteFile(filepath.Join(dir, "trace_"+scn+".ndjson"), []byte(sb.String()), 0o644); err != nil {
			return err
		}
	}
	return nil
}

func (s *session) line(a string, p int, st map[int]string, prefilled int) traceLine {
	l := traceLine{Ev: "step", A: a, P: p, Memo: map[string]memoLine{}}
	for i := range s.procs {
		l.Procs = append(l.Procs, st[i+1])
	}
	for _, m := range []string{"req", "ropt", "copt"} {
		ml := memoLine{N: s.memoShape(m)[0], Pending: [][2]string{}}
		if m == "req" {
			ml.N -= prefilled
		}
		for _, k := range s.pendingKeys(m) {
			ring, owner, ok := strings.Cut(k, ":")
			if !ok {
				ring, owner = "?", k
			}
			ml.Pending = append(ml.Pending, [2]string{ring, owner})
		}
		l.Memo[m] = ml
	}
	return l
}

// ---- judging -------------------------------------------------------------------------

type judge struct {
	k   *kit
	res *vh.Result
	ts  *traceSink
	ref map[string]outcome // the same call run alone, without a memo
	cost map[string]int    // digests that reference run computes
	mu  sync.Mutex
}

func (j *judge) reference(c callIn) outcome {
	key := c.String()
	j.mu.Lock()
	defer j.mu.Unlock()
	if o, ok := j.ref[key]; ok {
		return o
	}
	o := j.k.run(c, plainWork{})
	j.ref[key] = o
	// the reference itself is an execution of the real code
	if o.Accepted && !j.k.truth(c, o.Claim) {
		j.res.Violate("hm/alone/"+c.Kind+"-"+o.Claim, fmt.Sprintf("%s run alone accepts the denial %s although it is false in the zone", c, o.Claim),
			map[string]any{"family": "alone", "call": c})
	}
	return o
}

// verdict judges one concurrent call against the zone's truth (C02) and the reference (drift).
func (j *judge) verdict(family, where string, c callIn, o outcome, refusals int, replay map[string]any) {
	ref := j.reference(c)
	j.res.Case(fmt.Sprintf("%s|%s|%s", family, c, o))
	switch {
	case o.Accepted && !j.k.truth(c, o.Claim):
		replay["call"], replay["outcome"], replay["alone"] = c, o, ref
		what := map[string]string{"NX": "NXDOMAIN accepted for a name that exists / is synthesised", "ND": "NODATA accepted for a type that is present (or a name that does not qualify)",
			"INSEC": "'no DS, delegation is insecure' accepted for a signed delegation", "WC": "the next closer name of a wildcard answer accepted as non-existent although it exists"}[o.Claim]
		j.res.Violate(fmt.Sprintf("hm/fabricated/%s-%s", c.Kind, o.Claim),
			fmt.Sprintf("%s: %s [%s] -- %s from the zone's own genuine NSEC3 ring while sharing the request-tree hash memo (alone: %s)", where, what, c, o, ref), replay)
	case o.Accepted && ref.Accepted && o.Secure && !ref.Secure:
		replay["call"], replay["outcome"], replay["alone"] = c, o, ref
		j.res.Violate(fmt.Sprintf("hm/optout-secure/%s-%s", c.Kind, o.Claim),
			fmt.Sprintf("%s: %s earns secure=true while sharing the hash memo; alone the proof rests on an Opt-Out span (secure=false)", where, c), replay)
	case o.Accepted == ref.Accepted:
		if o.Accepted {
			j.res.Count("accepted_true", 1)
			if o.Secure != ref.Secure {
				j.res.DriftNote("%s: %s secure=%v, alone secure=%v (fail-closed direction)", where, c, o.Secure, ref.Secure)
			}
		} else {
			j.res.Count("rejected_as_alone", 1)
		}
	case o.WorkErr:
		j.res.Count("work_errors", 1)
		if refusals == 0 {
			j.res.Count("work_error_without_refusal", 1)
			j.res.DriftNote("%s: %s fails with a work error (%s) although the governor refused nothing (alone: %s)", where, c, o.Err, ref)
		}
	case !o.Accepted:
		j.res.Count("spurious_rejections", 1)
		j.res.DriftNote("%s: %s rejected (%s) while alone it is accepted (fail-closed)", where, c, o.Err)
	default:
		j.res.DriftNote("%s: %s accepted (true in the zone) while alone it is rejected (%s)", where, c, ref.Err)
	}
}

// ---- gated schedules -----------------------------------------------------------------

func expString(e *expIn) string {
	ks := make([]string, 0, len(e.Procs))
	for k := range e.Procs {
		ks = append(ks, k)
	}
	sort.Strings(ks)
	var sb strings.Builder
	for _, k := range ks {
		fmt.Fprintf(&sb, "%s=%s ", k, e.Procs[k])
	}
	for _, m := range []string{"req", "ropt", "copt"} {
		fmt.Fprintf(&sb, "%s=%v ", m, e.Memo[m])
	}
	return strings.TrimSpace(sb.String())
}

func (s *session) observe(st map[int]string, prefilled int) *expIn {
	e := &expIn{Procs: map[string]string{}, Memo: map[string][2]int{}}
	for id, v := range st {
		e.Procs[fmt.Sprint(id)] = v
	}
	for _, m := range []string{"req", "ropt", "copt"} {
		sh := s.memoShape(m)
		if m == "req" {
			sh[0] -= prefilled
		}
		e.Memo[m] = sh
	}
	return e
}

func hasExp(sc *schedIn) bool {
	for _, st := range sc.Steps {
		if st.Exp != nil {
			return true
		}
	}
	return false
}

type gatedStats struct {
	waits, parks, refusals, notEnabled, mismatches int
}

func runSchedule(j *judge, scn *scnIn, sc *schedIn, idx int) (ok bool) {
	res := j.res
	s := j.k.newSession(64)
	prefilled := 0
	if scn.Prefill > 0 {
		prefilled = s.prefill(scn.Prefill)
		if prefilled != scn.Prefill {
			res.Skip("schedule %s/%d: prefill gave %d entries, wanted %d", sc.Scn, idx, prefilled, scn.Prefill)
			return false
		}
	}
	for i, c := range scn.Procs {
		s.newProc(i+1, c, nil)
	}
	where := fmt.Sprintf("scenario %s schedule %s#%d", sc.Scn, sc.Tag, idx)
	replay := func() map[string]any {
		return map[string]any{"family": "gated", "scenario": sc.Scn, "schedule": sc}
	}
	var stats gatedStats
	mismatch := func(at string, want *expIn, got *expIn) {
		if want == nil {
			return
		}
		if expString(want) != expString(got) {
			stats.mismatches++
			if stats.mismatches == 1 {
				res.Sample(map[string]string{"off_path": where + " " + at, "model": expString(want), "code": expString(got)})
			}
		}
	}
	seenWait := map[int]bool{}
	note := func(st map[int]string) {
		for id, v := range st {
			if v == "wait" && !seenWait[id] {
				seenWait[id] = true
				stats.waits++
			}
		}
	}
	var run []traceLine
	st, settled := s.settle(3 * time.Second)
	for i, step := range sc.Steps {
		if !settled {
			break
		}
		note(st)
		mismatch(fmt.Sprintf("before step %d %s(%d)", i+1, step.A, step.P), step.Exp, s.observe(st, prefilled))
		if step.P < 1 || step.P > len(s.procs) {
			res.Skip("%s: step %d names process %d", where, i+1, step.P)
			return false
		}
		p := s.procs[step.P-1]
		before := stats.notEnabled
		switch step.A {
		case "Start":
			if p.state.Load() == stIdle {
				s.start(p)
			} else {
				stats.notEnabled++
			}
		case "Release", "Refuse":
			if s.answer(p, step.A == "Refuse") {
				stats.parks++
				if step.A == "Refuse" {
					stats.refusals++
				}
			} else {
				stats.notEnabled++
			}
		default:
			res.Skip("%s: unknown step %q", where, step.A)
			return false
		}
		performed := stats.notEnabled == before
		st, settled = s.settle(3 * time.Second)
		if performed && settled {
			run = append(run, s.line(step.A, step.P, st, prefilled))
		}
	}
	if settled {
		note(st)
		mismatch("at the end", sc.Final, s.observe(st, prefilled))
	}
	// drain: admit whatever is still parked until every started validation has returned
	for round := 0; settled && round < 64; round++ {
		moved := false
		for _, p := range s.procs {
			if settled && s.answer(p, false) {
				moved = true
				stats.parks++
				st, settled = s.settle(3 * time.Second)
				note(st)
				if settled {
					run = append(run, s.line("Release", p.id, st, prefilled))
				}
			}
		}
		if !moved {
			break
		}
	}
	hung := 0
	for _, p := range s.procs {
		if v := p.state.Load(); v != stIdle && v != stDone {
			hung++
		}
	}
	if hung > 0 {
		// a validation that never returns: a lost wake-up (the goroutines are abandoned)
		res.Count("hung_validations", hung)
		res.DriftNote("%s: %d validation(s) never returned (state %v, pending req=%v ropt=%v copt=%v): lost wake-up", where, hung, st,
			s.pendingKeys("req"), s.pendingKeys("ropt"), s.pendingKeys("copt"))
	}
	begins := 0
	for _, p := range s.procs {
		if p.state.Load() != stDone {
			continue
		}
		begins += int(p.okBeg.Load())
		j.verdict("gated", where, p.call, p.out, stats.refusals, replay())
	}
	if hung == 0 {
		entries, notes := s.audit()
		for _, n := range notes {
			res.Count("audit_findings", 1)
			res.DriftNote("%s: %s", where, n)
		}
		// one hash unit per distinct digest and compartment (C12, drift level); above the ceiling digests are private
		if prefilled == 0 && begins > entries {
			res.Count("duplicate_computations", begins-entries)
			res.DriftNote("%s: %d admitted computations for %d resident digests", where, begins, entries)
		}
	}
	res.Count("schedules_"+sc.Scn, 1)
	res.Count("steps", len(sc.Steps))
	res.Count("waits_observed", stats.waits)
	res.Count("computations_answered", stats.parks)
	res.Count("refusals", stats.refusals)
	res.Count("steps_not_enabled", stats.notEnabled)
	switch {
	case hung > 0 || !settled:
		res.Count("schedules_stalled", 1)
	case !hasExp(sc) && sc.NoTrace:
		res.Count("schedules_unchecked", 1)
	case stats.mismatches > 0 || stats.notEnabled > 0 || !hasExp(sc):
		// the code left the path TLC drew (or there is none to compare with): Trace_HashMemo.tla decides
		// whether what it did is a behaviour of the model
		res.Count("schedules_off_path", 1)
		j.ts.add(sc.Scn, run)
	default:
		res.Count("schedules_conforming", 1)
	}
	return true
}

// programs: every scenario process run alone WITH a memo; the key under computation at each
// BeginNSEC3Hash is the one pending entry of its Write compartment.
func checkPrograms(j *judge, scn *scnIn) {
	for i, c := range scn.Procs {
		s := j.k.newSession(64)
		var got []string
		p := s.newProc(i+1, c, func(p *proc) (bool, bool) {
			pk := s.pendingKeys(c.Scope)
			if len(pk) == 1 {
				got = append(got, pk[0])
			} else {
				got = append(got, fmt.Sprintf("?%v", pk))
			}
			return false, false
		})
		s.start(p)
		s.wg.Wait()
		want := []string{}
		if i < len(scn.Progs) {
			want = scn.Progs[i]
		}
		if strings.Join(got, " ") != strings.Join(want, " ") {
			j.res.Count("program_mismatch", 1)
			j.res.DriftNote("scenario %s process %d %s: the code asks for digests %v, MC_HashMemo.tla says %v", scn.Name, i+1, c, got, want)
		} else {
			j.res.Count("programs_confirmed", 1)
		}
		ref := j.reference(c)
		if ref.Accepted != p.out.Accepted || ref.Secure != p.out.Secure {
			j.verdict("alone-with-memo", "scenario "+scn.Name+" alone with a memo", c, p.out, 0, map[string]any{"family": "alone", "call": c})
		}
	}
}

// ---- the production park: a saturated resolver-wide crypto limiter ---------------------

func runLimiterPair(j *judge, pr pairIn, idx int) bool {
	res := j.res
	s := j.k.newSession(1)
	hold, ok := s.limiter.TryAcquire()
	if !ok {
		res.Skip("limiter pair %d: cannot take the only crypto slot", idx)
		return false
	}
	pass := func(p *proc) (bool, bool) { return false, false }
	p1 := s.newProc(1, pr.First, pass)
	p2 := s.newProc(2, pr.Second, pass)
	where := fmt.Sprintf("limiter pair #%d", idx)
	s.start(p1)
	st, settled := s.settle(3 * time.Second)
	if settled && st[1] == "limiter" {
		res.Count("limiter_parked", 1)
	}
	if settled {
		s.start(p2)
		st, settled = s.settle(3 * time.Second)
		if settled && st[2] == "wait" {
			res.Count("limiter_waiters", 1)
		}
	}
	hold()
	done := make(chan struct{})
	go func() { s.wg.Wait(); close(done) }()
	select {
	case <-done:
	case <-time.After(5 * time.Second):
		res.Count("hung_validations", 1)
		res.DriftNote("%s: validations did not return after the crypto slot was freed (state %v)", where, st)
		return true
	}
	refusals := 0
	for _, p := range s.procs {
		if p.call.Scope == "ropt" || p.call.Scope == "copt" {
			refusals++ // an optional class facing a saturated limiter is refused by its own adapter
		}
	}
	for _, p := range s.procs {
		j.verdict("limiter", where, p.call, p.out, refusals, map[string]any{"family": "limiter", "pair": pr})
	}
	_, notes := s.audit()
	for _, n := range notes {
		res.Count("audit_findings", 1)
		res.DriftNote("%s: %s", where, n)
	}
	res.Count("limiter_pairs", 1)
	return true
}

// ---- free running --------------------------------------------------------------------

func runFree(j *judge, f *freeIn, seed int64) {
	res := j.res
	t0 := time.Now()
	hungRounds := 0
	for round := 1; round <= f.Rounds; round++ {
		if f.Only > 0 && round != f.Only {
			continue
		}
		if f.BudgetS > 0 && time.Since(t0).Seconds() > f.BudgetS {
			res.Count("free_rounds_cut_by_budget", f.Rounds-round+1)
			break
		}
		rng := rand.New(rand.NewSource(seed*1000003 + int64(round)))
		s := j.k.newSession(uint32(1 + rng.Intn(8)))
		// a round draws its calls around a few hot owners so that the same digests are wanted at the same time
		hot := f.Menu[rng.Intn(len(f.Menu))]
		var calls []callIn
		for len(calls) < f.Width {
			c := f.Menu[rng.Intn(len(f.Menu))]
			if rng.Intn(3) > 0 && (c.Zone != hot.Zone || c.Ring != hot.Ring) {
				continue
			}
			calls = append(calls, c)
		}
		var refusals int32
		var rmu sync.Mutex
		barrier := make(chan struct{})
		for i, c := range calls {
			prng := rand.New(rand.NewSource(rng.Int63()))
			p := s.newProc(i+1, c, func(p *proc) (bool, bool) {
				// hold the computation for a moment: the entry stays pending while siblings look it up
				switch prng.Intn(4) {
				case 0:
				case 1:
					for n := prng.Intn(20); n > 0; n-- {
						runtime.Gosched()
					}
				default:
					time.Sleep(time.Duration(prng.Intn(300)) * time.Microsecond)
				}
				if prng.Intn(1000) < f.Refuse {
					rmu.Lock()
					refusals++
					rmu.Unlock()
					return true, false
				}
				return false, false
			})
			p.state.Store(stRunning)
			s.wg.Add(1)
			go func() {
				defer s.wg.Done()
				<-barrier
				if d := prng.Intn(3); d > 0 {
					time.Sleep(time.Duration(prng.Intn(150)) * time.Microsecond)
				}
				p.out = j.k.run(p.call, gateWork{p})
				p.state.Store(stDone)
			}()
		}
		close(barrier)
		done := make(chan struct{})
		go func() { s.wg.Wait(); close(done) }()
		where := fmt.Sprintf("free-running round %d (%d validations)", round, len(calls))
		select {
		case <-done:
		case <-time.After(10 * time.Second):
			res.Count("hung_validations", 1)
			res.DriftNote("%s: validations did not return within 10 s: lost wake-up", where)
			if hungRounds++; hungRounds >= 2 {
				res.Count("free_rounds_cut_by_hang", f.Rounds-round)
				return
			}
			continue
		}
		// an optional class may also be refused by its own adapter (allowance of 32 digests, busy limiter)
		ref := int(refusals)
		begins, all := 0, 0
		for _, p := range s.procs {
			begins += int(p.okBeg.Load())
			all += int(p.allB.Load())
			if p.call.Scope != "req" && p.out.WorkErr {
				ref++
			}
		}
		for _, p := range s.procs {
			j.verdict("free", where, p.call, p.out, ref, map[string]any{"family": "free", "round": round, "free": f, "calls": calls})
		}
		entries, notes := s.audit()
		for _, n := range notes {
			res.Count("audit_findings", 1)
			res.DriftNote("%s: %s", where, n)
		}
		if begins > entries {
			res.Count("duplicate_computations", begins-entries)
			res.DriftNote("%s: %d admitted computations for %d resident digests", where, begins, entries)
		}
		res.Count("free_rounds", 1)
		res.Count("free_validations", len(calls))
		res.Count("free_computations", begins)
		res.Count("free_begin_calls", all)
		res.Count("free_refusals", int(refusals))
		res.Count("free_digests_shared", lookups(calls, j)-all)
	}
}

// lookups: how many digests the calls of a round would compute if every one ran alone.
func lookups(calls []callIn, j *judge) int {
	n := 0
	for _, c := range calls {
		n += j.soloCost(c)
	}
	return n
}

func (j *judge) soloCost(c callIn) int {
	j.mu.Lock()
	defer j.mu.Unlock()
	if n, ok := j.cost[c.String()]; ok {
		return n
	}
	cw := &countWork{}
	j.k.run(c, cw)
	j.cost[c.String()] = cw.n
	return cw.n
}

type countWork struct{ n int }

func (c *countWork) BeginNSEC3Hash() (func(), error) { c.n++; return func() {}, nil }

// ---- driver --------------------------------------------------------------------------

func TestHashMemo(t *testing.T) {
	var in input
	vh.Input(t, &in)
	res := vh.NewResult()
	defer res.Write(t)
	if dnssec.VerifX02hmBound() != 64 {
		res.DriftNote("the memo's entry ceiling is %d, the scenarios assume 64", dnssec.VerifX02hmBound())
	}
	j := &judge{k: newKit(), res: res, ts: &traceSink{lines: map[string][]traceLine{}}, ref: map[string]outcome{}, cost: map[string]int{}}
	scns := map[string]*scnIn{}
	for i := range in.Scenarios {
		scn := &in.Scenarios[i]
		scns[scn.Name] = scn
		checkPrograms(j, scn)
	}
	t0 := time.Now()
	for i := range in.Schedules {
		sc := &in.Schedules[i]
		scn := scns[sc.Scn]
		if scn == nil {
			res.Skip("schedule %d refers to the unknown scenario %q", i, sc.Scn)
			continue
		}
		if in.BudgetS > 0 && time.Since(t0).Seconds() > in.BudgetS {
			res.Count("schedules_cut_by_budget", len(in.Schedules)-i)
			break
		}
		runSchedule(j, scn, sc, i)
	}
	if in.TraceDir != "" {
		if err := j.ts.flush(in.TraceDir); err != nil {
			res.Skip("cannot write the traces: %v", err)
		}
	}
	for i, pr := range in.Limiter {
		runLimiterPair(j, pr, i)
	}
	if in.Free != nil && in.Free.Rounds > 0 {
		runFree(j, in.Free, vh.Seed())
	}
}
