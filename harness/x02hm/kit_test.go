// Package x02hm binds tla/HashMemo/HashMemo.tla to the real request-tree NSEC3
// hash memo (middleware/resolver/dnssec/nsec3_memo.go): TLC-generated
// schedules (which validation starts when, which parked computation is
// admitted / refused when) are forced on goroutines that run the REAL
// verifiers (VerifyNameErrorForZoneWithWork, VerifyNODATAForZoneWithWork,
// VerifyDelegationForZoneWithWork, VerifyWildcardAnswerForZoneWithWork,
// EvaluateAggressiveNSEC3) over ONE shared memo set, through the production
// NSEC3Work adapters of the three work classes with a gate in front of
// BeginNSEC3Hash.  The property predicate (C02) is judged on the real
// verdicts against the zone's ground truth; the projected state after every
// forced step is compared with the model's (drift).
package x02hm

import (
	"context"
	"encoding/base32"
	"encoding/binary"
	"encoding/hex"
	"errors"
	"fmt"
	"runtime"
	"sort"
	"strings"
	"sync"
	"sync/atomic"
	"time"

	"github.com/miekg/dns"
	"github.com/semihalev/sdns/middleware/cache"
	"github.com/semihalev/sdns/middleware/resolver"
	"github.com/semihalev/sdns/middleware/resolver/dnssec"
	"github.com/semihalev/sdns/verifharness/authkit"
)

// ---- zones ---------------------------------------------------------------------------

type ringKit struct {
	letter string
	salt   string
	iter   uint16
	recs   []dns.RR
	exists map[string]bool // owner names that have an NSEC3 (signed presence)
}

type zoneKit struct {
	name  string
	auth  *authkit.Zone // ground truth (independent of the ring parameters)
	rings map[string]*ringKit
}

type kit struct {
	zones map[string]*zoneKit
	rings map[string]*ringKit // "zone|salt|iter" -> ring
}

func hdr(name string, t uint16) dns.RR_Header {
	return dns.RR_Header{Name: name, Rrtype: t, Class: dns.ClassINET, Ttl: 300}
}

func cut(name string, withDS bool) *authkit.Cut {
	c := &authkit.Cut{Name: name, NS: []dns.RR{&dns.NS{Hdr: hdr(name, dns.TypeNS), Ns: "ns.elsewhere.invalid."}}}
	if withDS {
		c.DS = []dns.RR{&dns.DS{Hdr: hdr(name, dns.TypeDS), KeyTag: 4711, Algorithm: dns.ECDSAP256SHA256,
			DigestType: dns.SHA256, Digest: strings.Repeat("ab", 32)}}
	}
	return c
}

func populate(z *authkit.Zone, which string) {
	n := z.Name
	switch which {
	case "z":
		z.Add("www."+n+" 300 IN A 192.0.2.1", "mail."+n+" 300 IN A 192.0.2.2", "mail."+n+" 300 IN TXT \"x02hm\"",
			"*.wild."+n+" 300 IN A 192.0.2.3", "host.wild."+n+" 300 IN A 192.0.2.4", "deep.ent."+n+" 300 IN A 192.0.2.5")
		z.Delegate(cut("sub."+n, false))
		z.Delegate(cut("sec."+n, true))
	case "oo":
		z.Add("www."+n+" 300 IN A 192.0.2.1", "*.wild."+n+" 300 IN A 192.0.2.3")
		z.Delegate(cut("ins."+n, false))
		z.Delegate(cut("sec."+n, true))
	case "fill":
	}
}

type ringDef struct {
	zone, apex, letter, salt string
	iter                     uint16
	optout                   bool
}

var ringDefs = []ringDef{
	{"z", "zone.test.", "A", "ab", 1, false},
	{"z", "zone.test.", "B", "beef", 1, false}, // re-salted ring: the salt alone differs from A
	{"z", "zone.test.", "C", "ab", 2, false},   // the iteration count alone differs from A
	{"oo", "oo.test.", "O", "c0de", 1, true},
	{"fill", "fill.test.", "F", "", 0, false},
}

func newKit() *kit {
	k := &kit{zones: map[string]*zoneKit{}, rings: map[string]*ringKit{}}
	for _, d := range ringDefs {
		zk := k.zones[d.zone]
		if zk == nil {
			zk = &zoneKit{name: d.apex, rings: map[string]*ringKit{}}
			k.zones[d.zone] = zk
		}
		z := authkit.NewZone(d.apex, false)
		z.NSEC3, z.OptOut, z.Salt, z.Iter = true, d.optout, d.salt, d.iter
		populate(z, d.zone)
		if zk.auth == nil {
			zk.auth = z
		}
		r := &ringKit{letter: d.letter, salt: d.salt, iter: d.iter, exists: map[string]bool{}}
		for _, den := range z.C02NSEC3Ring() {
			r.recs = append(r.recs, den.RR)
			r.exists[den.Owner] = true
		}
		zk.rings[d.letter] = r
		k.rings[fmt.Sprintf("%s|%s|%d", d.apex, d.salt, d.iter)] = r
	}
	return k
}

func (zk *zoneKit) fqdn(rel string) string {
	if rel == "" || rel == "@" {
		return zk.name
	}
	return strings.ToLower(rel) + "." + zk.name
}

// ---- calls ---------------------------------------------------------------------------

type callIn struct {
	Kind  string `json:"kind"`  // NX ND DELEG WC AGG
	Zone  string `json:"zone"`  // z | oo
	Ring  string `json:"ring"`  // A | B | C | O
	Name  string `json:"name"`  // relative owner, "@" = apex
	Qtype string `json:"qtype"` // A TXT DS ...
	Enc   string `json:"enc"`   // WC: the claimed closest encloser (relative)
	Scope string `json:"scope"` // req | ropt | copt
}

func (c callIn) String() string {
	s := fmt.Sprintf("%s(%s/%s %s %s)", c.Kind, c.Zone, c.Ring, c.Name, c.Qtype)
	if c.Scope != "" && c.Scope != "req" {
		s += "@" + c.Scope
	}
	return s
}

type outcome struct {
	Accepted bool   `json:"accepted"`
	Claim    string `json:"claim"` // NX | ND | INSEC | WC
	Secure   bool   `json:"secure"`
	WorkErr  bool   `json:"workErr"`
	Err      string `json:"err,omitempty"`
}

func (o outcome) String() string {
	switch {
	case o.Accepted:
		return fmt.Sprintf("accept %s secure=%v", o.Claim, o.Secure)
	case o.WorkErr:
		return "work error: " + o.Err
	}
	return "reject: " + o.Err
}

func qmsg(name string, qtype uint16, rcode int) *dns.Msg {
	m := new(dns.Msg)
	m.SetQuestion(name, qtype)
	m.Response = true
	m.Rcode = rcode
	return m
}

// run performs one real verifier call.
func (k *kit) run(c callIn, work dnssec.NSEC3Work) outcome {
	zk := k.zones[c.Zone]
	ring := zk.rings[c.Ring]
	recs := append([]dns.RR(nil), ring.recs...)
	qname := zk.fqdn(c.Name)
	qtype := dns.StringToType[c.Qtype]
	if qtype == 0 {
		qtype = dns.TypeA
	}
	var (
		err error
		o   outcome
	)
	switch c.Kind {
	case "NX":
		o.Claim = "NX"
		o.Secure, err = dnssec.VerifyNameErrorForZoneWithWork(qmsg(qname, qtype, dns.RcodeNameError), recs, zk.name, work)
	case "ND":
		o.Claim = "ND"
		o.Secure, err = dnssec.VerifyNODATAForZoneWithWork(qmsg(qname, qtype, dns.RcodeSuccess), recs, zk.name, work)
	case "DELEG":
		o.Claim = "INSEC"
		err = dnssec.VerifyDelegationForZoneWithWork(qname, zk.name, recs, work)
	case "WC":
		// a wildcard-expanded positive answer for qname: the RRSIG's Labels field names the closest encloser
		o.Claim = "WC"
		resp := qmsg(qname, qtype, dns.RcodeSuccess)
		resp.Answer = []dns.RR{
			&dns.A{Hdr: hdr(qname, dns.TypeA), A: []byte{192, 0, 2, 3}},
			&dns.RRSIG{Hdr: hdr(qname, dns.TypeRRSIG), TypeCovered: dns.TypeA, Algorithm: dns.ECDSAP256SHA256,
				Labels: uint8(dns.CountLabel(zk.fqdn(c.Enc))), SignerName: zk.name},
		}
		resp.Ns = recs
		o.Secure, err = dnssec.VerifyWildcardAnswerForZoneWithWork(resp, zk.name, work)
	case "AGG":
		var r dnssec.AggressiveNegativeResult
		r, err = dnssec.EvaluateAggressiveNSEC3(dns.Question{Name: qname, Qtype: qtype, Qclass: dns.ClassINET}, zk.name, recs, work)
		o.Claim = "ND"
		if err == nil && r.Rcode == dns.RcodeNameError {
			o.Claim = "NX"
		}
		o.Secure = err == nil
	default:
		panic("x02hm: unknown call kind " + c.Kind)
	}
	if err != nil {
		o.Secure = false
		o.Err = err.Error()
		o.WorkErr = dnssec.IsWorkError(err)
		return o
	}
	o.Accepted = true
	return o
}

// truth: is the denial `claim` about call c true in the zone?
func (k *kit) truth(c callIn, claim string) bool {
	zk := k.zones[c.Zone]
	qname := zk.fqdn(c.Name)
	qtype := dns.StringToType[c.Qtype]
	if qtype == 0 {
		qtype = dns.TypeA
	}
	switch claim {
	case "NX", "ND":
		_, tr := zk.auth.Answer(dns.Question{Name: qname, Qtype: qtype, Qclass: dns.ClassINET}, false)
		if claim == "NX" {
			return tr.Kind == "nxdomain"
		}
		return tr.Kind == "nodata"
	case "INSEC":
		c, ok := zk.auth.Cuts[qname]
		return ok && len(c.DS) == 0
	case "WC":
		// the next closer name (one label below the claimed closest encloser) does not exist
		enc := zk.fqdn(c.Enc)
		labels := dns.SplitDomainName(qname)
		n := len(labels) - dns.CountLabel(enc) - 1
		if n < 0 {
			return false
		}
		next := strings.ToLower(strings.Join(labels[n:], ".") + ".")
		_, tr := zk.auth.Answer(dns.Question{Name: next, Qtype: dns.TypeA, Qclass: dns.ClassINET}, false)
		// an existing name answers, has no data, or refers; a non-existing one is NXDOMAIN or wildcard-synthesised
		if tr.Kind == "nxdomain" {
			return true
		}
		return !zk.rings[c.Ring].exists[next] && tr.Kind != "referral"
	}
	return false
}

// ---- memo keys -----------------------------------------------------------------------

func wireToName(b []byte) (string, int, bool) {
	var sb strings.Builder
	i := 0
	for {
		if i >= len(b) {
			return "", 0, false
		}
		l := int(b[i])
		i++
		if l == 0 {
			break
		}
		if i+l > len(b) {
			return "", 0, false
		}
		sb.WriteString(strings.ToLower(string(b[i : i+l])))
		sb.WriteByte('.')
		i += l
	}
	if sb.Len() == 0 {
		return ".", i, true
	}
	return sb.String(), i, true
}

// decodeKey maps a memo key to the model's key "<ring>:<relative owner>" and to
// the digest an independent RFC 5155 implementation gives for it.
func (k *kit) decodeKey(key string) (abstract string, digest string, ok bool) {
	b := []byte(key)
	if len(b) < 7 {
		return "", "", false
	}
	iter := binary.BigEndian.Uint16(b[1:3])
	sl := int(binary.BigEndian.Uint16(b[5:7]))
	if 7+sl > len(b) {
		return "", "", false
	}
	salt := hex.EncodeToString(b[7 : 7+sl])
	rest := b[7+sl:]
	zone, n, ok1 := wireToName(rest)
	if !ok1 {
		return "", "", false
	}
	name, m, ok2 := wireToName(rest[n:])
	if !ok2 || n+m != len(rest) {
		return "", "", false
	}
	ring := k.rings[fmt.Sprintf("%s|%s|%d", zone, salt, iter)]
	if ring == nil || !strings.HasSuffix(name, zone) {
		return "", "", false
	}
	rel := strings.TrimSuffix(strings.TrimSuffix(name, zone), ".")
	if rel == "" {
		rel = "@"
	}
	return ring.letter + ":" + rel, authkit.Hash3(name, salt, iter), true
}

var b32 = base32.HexEncoding.WithPadding(base32.NoPadding)

func digestText(v []byte) string { return strings.ToLower(b32.EncodeToString(v)) }

// ---- the gate ------------------------------------------------------------------------

var errRefused = errors.New("x02hm: the work governor refused the NSEC3 hash")

type memoWork interface {
	dnssec.NSEC3Work
	dnssec.NSEC3HashMemoProvider
}

type token struct{ refuse bool }

const (
	stIdle int32 = iota
	stRunning
	stParked
	stDone
)

type proc struct {
	id    int
	call  callIn
	state atomic.Int32
	goid  atomic.Uint64
	gate  chan token
	out   outcome
	okBeg atomic.Int32 // BeginNSEC3Hash calls that were admitted
	allB  atomic.Int32
	// onBegin is called inside BeginNSEC3Hash before the gate (recording / jitter)
	onBegin func(p *proc) (refuse bool, gated bool)
	inner   memoWork
}

// gateWork is the NSEC3Work handed to the verifiers: the gate, then the production adapter.
type gateWork struct{ p *proc }

func (g gateWork) BeginNSEC3Hash() (func(), error) {
	p := g.p
	p.allB.Add(1)
	refuse, gated := false, true
	if p.onBegin != nil {
		refuse, gated = p.onBegin(p)
	}
	if gated {
		p.state.Store(stParked)
		tok := <-p.gate
		refuse = tok.refuse
	}
	if refuse {
		return nil, errRefused
	}
	rel, err := p.inner.BeginNSEC3Hash()
	if err == nil {
		p.okBeg.Add(1)
	}
	return rel, err
}

func (g gateWork) NSEC3HashMemos() dnssec.NSEC3HashMemoAccess { return g.p.inner.NSEC3HashMemos() }

// plainWork: accounting only, no memo (the reference run).
type plainWork struct{}

func (plainWork) BeginNSEC3Hash() (func(), error) { return func() {}, nil }

// session is one request tree: one context carrying the three memo compartments.
type session struct {
	k       *kit
	ctx     context.Context
	limiter *dnssec.CryptoLimiter
	procs   []*proc
	wg      sync.WaitGroup
}

func (k *kit) newSession(limiterCap uint32) *session {
	return &session{k: k, ctx: dnssec.EnsureNSEC3HashMemo(context.Background()), limiter: dnssec.NewCryptoLimiter(limiterCap)}
}

func (s *session) memo(scope string) *dnssec.NSEC3HashMemo {
	switch scope {
	case "ropt":
		return dnssec.NSEC3HashMemoFromContextScope(s.ctx, dnssec.NSEC3HashMemoScopeResolverOptional)
	case "copt":
		return dnssec.NSEC3HashMemoFromContextScope(s.ctx, dnssec.NSEC3HashMemoScopeCacheOptional)
	}
	return dnssec.NSEC3HashMemoFromContextScope(s.ctx, dnssec.NSEC3HashMemoScopeRequired)
}

func (s *session) adapter(scope string) memoWork {
	switch scope {
	case "ropt":
		return resolver.VerifX02hmResolverOptionalWork(s.ctx, s.limiter)
	case "copt":
		return cache.VerifX02hmCacheOptionalWork(s.ctx, s.limiter)
	}
	return resolver.VerifX02hmRequiredWork(s.ctx, s.limiter)
}

func (s *session) newProc(id int, c callIn, onBegin func(p *proc) (bool, bool)) *proc {
	p := &proc{id: id, call: c, gate: make(chan token, 1), onBegin: onBegin, inner: s.adapter(c.Scope)}
	s.procs = append(s.procs, p)
	return p
}

func curGoid() uint64 {
	var buf [64]byte
	n := runtime.Stack(buf[:], false)
	var id uint64
	fmt.Sscanf(string(buf[:n]), "goroutine %d ", &id)
	return id
}

func (s *session) start(p *proc) {
	p.state.Store(stRunning)
	s.wg.Add(1)
	go func() {
		defer s.wg.Done()
		p.goid.Store(curGoid())
		p.out = s.k.run(p.call, gateWork{p})
		p.state.Store(stDone)
	}()
}

// answer admits or refuses a parked computation.
func (s *session) answer(p *proc, refuse bool) bool {
	if p.state.Load() != stParked {
		return false
	}
	p.state.Store(stRunning)
	p.gate <- token{refuse: refuse}
	return true
}

var stackBuf = make([]byte, 4<<20)

// blocked classifies the running processes from one goroutine dump: "wait" = blocked receiving
// from an entry's ready channel inside nsec3_memo.go, "limiter" = blocked in CryptoLimiter.Acquire.
func blocked(ps []*proc) map[int]string {
	out := map[int]string{}
	dump := string(stackBuf[:runtime.Stack(stackBuf, true)])
	for _, blk := range strings.Split(dump, "\n\n") {
		if !strings.HasPrefix(blk, "goroutine ") {
			continue
		}
		var id uint64
		fmt.Sscanf(blk, "goroutine %d ", &id)
		for _, p := range ps {
			if p.goid.Load() != id || id == 0 {
				continue
			}
			first, _, _ := strings.Cut(blk, "\n")
			switch {
			case strings.Contains(first, "[chan receive") && strings.Contains(blk, "nsec3_memo.go"):
				out[p.id] = "wait"
			case strings.Contains(first, "[select") && strings.Contains(blk, "CryptoLimiter"):
				out[p.id] = "limiter"
			}
		}
	}
	return out
}

// settle waits until every started process is parked at the gate, blocked on a pending
// entry (or in the limiter), or done; it returns the projected state per process.
func (s *session) settle(timeout time.Duration) (map[int]string, bool) {
	deadline := time.Now().Add(timeout)
	for spin := 0; ; spin++ {
		st := map[int]string{}
		var running []*proc
		for _, p := range s.procs {
			switch p.state.Load() {
			case stIdle:
				st[p.id] = "idle"
			case stParked:
				st[p.id] = "parked"
			case stDone:
				if p.out.WorkErr {
					st[p.id] = "done:err"
				} else {
					st[p.id] = "done:ok"
				}
			default:
				running = append(running, p)
			}
		}
		if len(running) == 0 {
			return st, true
		}
		if spin > 2 {
			b := blocked(running)
			all := true
			for _, p := range running {
				// the dump stops the world: a process still flagged running and seen blocked there is blocked
				if w, ok := b[p.id]; ok && p.state.Load() == stRunning {
					st[p.id] = w
				} else {
					all = false
				}
			}
			if all {
				return st, true
			}
		}
		if time.Now().After(deadline) {
			for _, p := range running {
				if _, ok := st[p.id]; !ok {
					st[p.id] = "running"
				}
			}
			return st, false
		}
		if spin < 20 {
			runtime.Gosched()
		} else {
			time.Sleep(time.Duration(20+spin) * time.Microsecond)
		}
	}
}

// memoShape is [resident entries, pending entries] of one compartment.
func (s *session) memoShape(scope string) [2]int {
	var sh [2]int
	for _, e := range s.memo(scope).VerifX02hmSnapshot() {
		sh[0]++
		if !e.Ready {
			sh[1]++
		}
	}
	return sh
}

// audit checks the quiescent end state of the compartments (drift level): nothing pending,
// no failed entry resident, every value the RFC 5155 digest of its key, the ceiling respected.
func (s *session) audit() (entries int, notes []string) {
	for _, scope := range []string{"req", "ropt", "copt"} {
		snap := s.memo(scope).VerifX02hmSnapshot()
		entries += len(snap)
		if len(snap) > dnssec.VerifX02hmBound() {
			notes = append(notes, fmt.Sprintf("ceiling: memo %s holds %d entries (> %d)", scope, len(snap), dnssec.VerifX02hmBound()))
		}
		for _, e := range snap {
			abs, want, ok := s.k.decodeKey(e.Key)
			switch {
			case !ok:
				notes = append(notes, fmt.Sprintf("memo %s: key %x does not decode to (parameters, zone, owner) of a known ring", scope, e.Key))
			case !e.Ready:
				notes = append(notes, fmt.Sprintf("memo %s: entry %s still pending after every validation returned", scope, abs))
			case e.Err:
				notes = append(notes, fmt.Sprintf("poison: memo %s keeps a failed entry for %s", scope, abs))
			case digestText(e.Value) != want:
				notes = append(notes, fmt.Sprintf("memo %s: entry %s holds %s, RFC 5155 digest is %s", scope, abs, digestText(e.Value), want))
			}
		}
	}
	sort.Strings(notes)
	return entries, notes
}

// pendingKeys lists the abstract keys of the pending entries of a compartment.
func (s *session) pendingKeys(scope string) []string {
	var out []string
	for _, e := range s.memo(scope).VerifX02hmSnapshot() {
		if !e.Ready {
			abs, _, ok := s.k.decodeKey(e.Key)
			if !ok {
				abs = fmt.Sprintf("?%x", e.Key)
			}
			out = append(out, abs)
		}
	}
	sort.Strings(out)
	return out
}

// prefill registers n (>= 3) foreign entries in the required compartment (ceiling scenarios):
// the first NXDOMAIN proof below the otherwise empty zone fill.test. costs three digests (the
// name, the apex, the wildcard), every further one a single new digest.
func (s *session) prefill(n int) int {
	if n <= 0 {
		return 0
	}
	zk := s.k.zones["fill"]
	w := s.adapter("req")
	for i := 0; len(s.memo("req").VerifX02hmSnapshot()) < n && i < n+8; i++ {
		name := fmt.Sprintf("j%d.%s", i, zk.name)
		_, _ = dnssec.VerifyNameErrorForZoneWithWork(qmsg(name, dns.TypeA, dns.RcodeNameError), zk.rings["F"].recs, zk.name, w)
	}
	return len(s.memo("req").VerifX02hmSnapshot())
}
