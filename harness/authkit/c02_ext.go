package authkit

import "github.com/miekg/dns"

// C02 helpers: the complete NSEC chain / NSEC3 ring of a zone as bare records
// (no signatures), each tagged with the ORIGINAL owner name it was generated
// for.  The C02 conformance driver picks TLC-chosen subsets of these genuine
// records; ordering and hashing are this package's own (CanonLess, Hash3).

// C02Denial is one genuine denial record and the name it belongs to.
type C02Denial struct {
	Owner string // original (unhashed) owner name, lower case, fully qualified
	RR    dns.RR // *dns.NSEC or *dns.NSEC3
}

// C02NSECChain returns the zone's NSEC chain in canonical order.
func (z *Zone) C02NSECChain() []C02Denial {
	z.mu.Lock()
	defer z.mu.Unlock()
	names := z.authNames()
	out := make([]C02Denial, 0, len(names))
	for i := range names {
		out = append(out, C02Denial{Owner: names[i], RR: z.nsecAt(i, names)})
	}
	return out
}

// C02NSEC3Ring returns the zone's NSEC3 ring (current Salt / Iter / OptOut) in hash order.
func (z *Zone) C02NSEC3Ring() []C02Denial {
	z.mu.Lock()
	defer z.mu.Unlock()
	ring := z.nsec3Ring()
	out := make([]C02Denial, 0, len(ring))
	for i := range ring {
		out = append(out, C02Denial{Owner: ring[i].name, RR: z.nsec3At(ring, i)})
	}
	return out
}
