package authkit

import (
	"fmt"
	"net"
	"strings"
	"sync"
	"time"

	"github.com/miekg/dns"
)

// LogEntry is one query a server received.
type LogEntry struct {
	At      time.Time
	Server  string
	Q       dns.Question
	Proto   string
	Nth     int // 1-based count of this (name,type) on this server
	Kind    string
	Cut     string
	Version int
	DO      bool
	OPT     *dns.OPT
}

// Exchange is what a tamper / fault hook sees.
type Exchange struct {
	Server *Server
	Req    *dns.Msg
	Q      dns.Question
	Proto  string
	Nth    int
	Zone   *Zone
	Truth  Truth
	Resp   *dns.Msg // honest response; hooks may replace or modify it
	// Pre: raw datagrams to send before the real reply (UDP only)
	Pre [][]byte
	// Drop: send nothing. Delay: sleep before replying. CloseTCP: reset the stream.
	Drop     bool
	Delay    time.Duration
	CloseTCP bool
	Garbage  bool
}

// Server is one authoritative socket (UDP + TCP on the same port).
type Server struct {
	Label string
	Addr  string

	mu     sync.Mutex
	zones  []*Zone
	log    []LogEntry
	counts map[string]int
	Hook   func(*Exchange) // tamper / fault hook, may be nil
	udp    *dns.Server
	tcp    *dns.Server
}

// StartServer listens on 127.0.0.1:0 (UDP and TCP, same port).
func StartServer(label string, zones ...*Zone) (*Server, error) {
	var pc net.PacketConn
	var l net.Listener
	var err error
	for try := 0; try < 20; try++ {
		pc, err = net.ListenPacket("udp", "127.0.0.1:0")
		if err != nil {
			return nil, err
		}
		l, err = net.Listen("tcp", pc.LocalAddr().String())
		if err == nil {
			break
		}
		pc.Close()
	}
	if err != nil {
		return nil, err
	}
	s := &Server{Label: label, Addr: pc.LocalAddr().String(), zones: zones, counts: map[string]int{}}
	s.udp = &dns.Server{PacketConn: pc, Handler: dns.HandlerFunc(func(w dns.ResponseWriter, r *dns.Msg) { s.handle(w, r, "udp") })}
	s.tcp = &dns.Server{Listener: l, Handler: dns.HandlerFunc(func(w dns.ResponseWriter, r *dns.Msg) { s.handle(w, r, "tcp") })}
	ready := make(chan struct{}, 2)
	s.udp.NotifyStartedFunc = func() { ready <- struct{}{} }
	s.tcp.NotifyStartedFunc = func() { ready <- struct{}{} }
	go func() { _ = s.udp.ActivateAndServe() }()
	go func() { _ = s.tcp.ActivateAndServe() }()
	<-ready
	<-ready
	return s, nil
}

// Stop closes both listeners.
func (s *Server) Stop() {
	_ = s.udp.Shutdown()
	_ = s.tcp.Shutdown()
}

// AddZone hosts another zone on this socket.
func (s *Server) AddZone(z *Zone) {
	s.mu.Lock()
	s.zones = append(s.zones, z)
	s.mu.Unlock()
}

// SetHook installs the tamper / fault hook.
func (s *Server) SetHook(h func(*Exchange)) {
	s.mu.Lock()
	s.Hook = h
	s.mu.Unlock()
}

// Log returns a copy of the query log; ResetLog clears it.
func (s *Server) Log() []LogEntry {
	s.mu.Lock()
	defer s.mu.Unlock()
	return append([]LogEntry(nil), s.log...)
}

func (s *Server) ResetLog() {
	s.mu.Lock()
	s.log = nil
	s.counts = map[string]int{}
	s.mu.Unlock()
}

// Queries is the number of queries received so far.
func (s *Server) Queries() int {
	s.mu.Lock()
	defer s.mu.Unlock()
	return len(s.log)
}

func (s *Server) zoneFor(q dns.Question) *Zone {
	name := lc(q.Name)
	var best, parent *Zone
	for _, z := range s.zones {
		if !IsSub(name, z.Name) {
			continue
		}
		if best == nil || len(z.Name) > len(best.Name) {
			parent = best
			best = z
		} else if parent == nil || len(z.Name) > len(parent.Name) {
			parent = z
		}
	}
	if best != nil && q.Qtype == dns.TypeDS && name == best.Name && parent != nil {
		return parent
	}
	return best
}

func (s *Server) handle(w dns.ResponseWriter, r *dns.Msg, proto string) {
	if len(r.Question) != 1 {
		m := new(dns.Msg)
		m.SetRcode(r, dns.RcodeFormatError)
		_ = w.WriteMsg(m)
		return
	}
	q := r.Question[0]
	do := false
	opt := r.IsEdns0()
	if opt != nil {
		do = opt.Do()
	}
	s.mu.Lock()
	key := fmt.Sprintf("%s/%d", lc(q.Name), q.Qtype)
	s.counts[key]++
	nth := s.counts[key]
	z := s.zoneFor(q)
	hook := s.Hook
	s.mu.Unlock()

	var resp *dns.Msg
	var tr Truth
	if z == nil {
		resp = new(dns.Msg)
		resp.Response = true
		resp.Question = []dns.Question{q}
		resp.Rcode = dns.RcodeRefused
		tr.Kind = "refused"
	} else {
		resp, tr = z.Answer(q, do)
	}
	resp.Id = r.Id
	resp.Opcode = r.Opcode
	resp.RecursionDesired = r.RecursionDesired
	resp.CheckingDisabled = r.CheckingDisabled
	if opt != nil {
		o := &dns.OPT{Hdr: dns.RR_Header{Name: ".", Rrtype: dns.TypeOPT}}
		o.SetUDPSize(1232)
		o.SetDo(do)
		resp.Extra = append(resp.Extra, o)
	}
	ver := 0
	if z != nil {
		ver = z.Version
	}
	s.mu.Lock()
	s.log = append(s.log, LogEntry{At: time.Now(), Server: s.Label, Q: q, Proto: proto, Nth: nth, Kind: tr.Kind, Cut: tr.Cut, Version: ver, DO: do, OPT: opt})
	s.mu.Unlock()

	ex := &Exchange{Server: s, Req: r, Q: q, Proto: proto, Nth: nth, Zone: z, Truth: tr, Resp: resp}
	if hook != nil {
		hook(ex)
	}
	if ex.Delay > 0 {
		time.Sleep(ex.Delay)
	}
	if ex.CloseTCP && proto == "tcp" {
		_ = w.Close()
		return
	}
	if ex.Drop || ex.Resp == nil {
		return
	}
	for _, raw := range ex.Pre {
		if proto == "udp" {
			_, _ = w.Write(raw)
		}
	}
	if ex.Garbage {
		_, _ = w.Write([]byte{0xde, 0xad, 0xbe, 0xef, 1, 2, 3})
		return
	}
	out := ex.Resp
	if proto == "udp" {
		limit := 512
		if opt != nil && int(opt.UDPSize()) > limit {
			limit = int(opt.UDPSize())
		}
		if out.Len() > limit {
			t := new(dns.Msg)
			t.SetReply(r)
			t.Truncated = true
			t.Authoritative = out.Authoritative
			if opt != nil {
				t.Extra = out.Extra[len(out.Extra)-1:]
			}
			out = t
		}
	}
	out.Compress = true
	_ = w.WriteMsg(out)
}

// ---- namespace -----------------------------------------------------------------

// Net is a whole scripted namespace: a root plus delegated zones, each on its
// own socket unless placed on a shared one.
type Net struct {
	mu      sync.Mutex
	Root    *Zone
	RootSrv *Server
	Zones   map[string]*Zone
	Servers map[string]*Server // by zone name
	glue    map[string]string  // advertised "ip:53" -> real loopback addr
	nextIP  int
}

// NewNet starts a (signed or unsigned) root.
func NewNet(signedRoot bool) (*Net, error) {
	root := NewZone(".", signedRoot)
	srv, err := StartServer("root", root)
	if err != nil {
		return nil, err
	}
	return &Net{Root: root, RootSrv: srv, Zones: map[string]*Zone{".": root}, Servers: map[string]*Server{".": srv},
		glue: map[string]string{}, nextIP: 10}, nil
}

// DelegateOpts controls how a child is attached to its parent.
type DelegateOpts struct {
	Signed    bool
	PublishDS bool    // parent publishes the child's DS (ignored when !Signed)
	WrongDS   bool    // parent's DS describes a key the child does not hold
	NSTTL     uint32  // TTL of the NS RRset in the referral (default 3600)
	DSTTL     uint32  // TTL of the DS RRset (default 3600)
	OnServer  *Server // host the child on an existing socket (parent and child on one server)
	NSEC3     bool
	OptOut    bool
	Glueless  string // NS host name outside the zone (no glue in the referral)
	NSHost    string // override the in-zone NS host name
}

// Delegate creates child under its closest existing ancestor zone.
func (n *Net) Delegate(child string, o DelegateOpts) (*Zone, *Server, error) {
	child = lc(child)
	n.mu.Lock()
	defer n.mu.Unlock()
	parent := n.parentOf(child)
	z := NewZone(child, o.Signed)
	z.NSEC3, z.OptOut = o.NSEC3, o.OptOut
	if o.NSEC3 {
		z.Salt, z.Iter = "aabb", 1
	}
	srv := o.OnServer
	if srv == nil {
		var err error
		srv, err = StartServer(child, z)
		if err != nil {
			return nil, nil, err
		}
	} else {
		srv.AddZone(z)
	}
	if o.NSTTL == 0 {
		o.NSTTL = 3600
	}
	if o.DSTTL == 0 {
		o.DSTTL = 3600
	}
	nsHost := "ns." + child
	if o.NSHost != "" {
		nsHost = lc(o.NSHost)
	}
	cut := &Cut{Name: child}
	if o.Glueless != "" {
		nsHost = lc(o.Glueless)
	} else {
		ip := n.allocIP()
		n.glue[net.JoinHostPort(ip.String(), "53")] = srv.Addr
		cut.Glue = []dns.RR{&dns.A{Hdr: hdr(nsHost, dns.TypeA, o.NSTTL), A: ip}}
		// the child also publishes its own NS address
		z.AddRR(&dns.A{Hdr: hdr(nsHost, dns.TypeA, 3600), A: ip})
	}
	cut.NS = []dns.RR{&dns.NS{Hdr: hdr(child, dns.TypeNS, o.NSTTL), Ns: nsHost}}
	// child apex NS must name the same host
	z.Remove(child, dns.TypeNS)
	z.AddRR(&dns.NS{Hdr: hdr(child, dns.TypeNS, 3600), Ns: nsHost})
	if o.Signed && o.PublishDS {
		if o.WrongDS {
			other := NewKey(child, 0)
			ds := other.RR.ToDS(dns.SHA256)
			ds.Hdr.Ttl = o.DSTTL
			cut.DS = []dns.RR{ds}
		} else {
			cut.DS = z.DS(o.DSTTL)
		}
	}
	parent.Delegate(cut)
	n.Zones[child] = z
	n.Servers[child] = srv
	return z, srv, nil
}

func (n *Net) parentOf(child string) *Zone {
	var best *Zone
	for name, z := range n.Zones {
		if name != child && IsSub(child, name) && (best == nil || len(name) > len(best.Name)) {
			best = z
		}
	}
	return best
}

func (n *Net) allocIP() net.IP {
	n.nextIP++
	return net.IPv4(192, 0, 2, byte(n.nextIP))
}

// MapGlue maps an extra advertised address to a server.
func (n *Net) MapGlue(ip string, srv *Server) {
	n.mu.Lock()
	n.glue[net.JoinHostPort(ip, "53")] = srv.Addr
	n.mu.Unlock()
}

// Mapper is the resolveTarget function: advertised address -> loopback socket.
func (n *Net) Mapper() func(string) string {
	return func(addr string) string {
		n.mu.Lock()
		defer n.mu.Unlock()
		if t, ok := n.glue[addr]; ok {
			return t
		}
		return addr
	}
}

// Stop shuts every server down.
func (n *Net) Stop() {
	seen := map[*Server]bool{}
	for _, s := range n.Servers {
		if !seen[s] {
			seen[s] = true
			s.Stop()
		}
	}
}

// AllServers lists the distinct servers.
func (n *Net) AllServers() []*Server {
	seen := map[*Server]bool{}
	var out []*Server
	for _, s := range n.Servers {
		if !seen[s] {
			seen[s] = true
			out = append(out, s)
		}
	}
	return out
}

// TotalQueries sums the queries every server received.
func (n *Net) TotalQueries() int {
	t := 0
	for _, s := range n.AllServers() {
		t += s.Queries()
	}
	return t
}

// ResetLogs clears every server's log.
func (n *Net) ResetLogs() {
	for _, s := range n.AllServers() {
		s.ResetLog()
	}
}

// ZoneOf returns the deepest zone enclosing name.
func (n *Net) ZoneOf(name string) *Zone {
	name = lc(name)
	var best *Zone
	for zn, z := range n.Zones {
		if IsSub(name, zn) && (best == nil || len(zn) > len(best.Name)) {
			best = z
		}
	}
	return best
}

// GroundTruth resolves q against the honest zone data, following delegations
// and in-namespace aliases; it is what an honest resolver must return.
func (n *Net) GroundTruth(q dns.Question) Truth {
	name := lc(q.Name)
	var chain []dns.RR
	secure := true
	for hop := 0; hop < 12; hop++ {
		z := n.ZoneOf(name)
		if q.Qtype == dns.TypeDS && z != nil && z.Name == name && name != "." {
			z = n.parentOf(name)
		}
		if z == nil {
			return Truth{Kind: "refused"}
		}
		_, tr := z.Answer(dns.Question{Name: name, Qtype: q.Qtype, Qclass: q.Qclass}, true)
		if !n.chainSecure(z) {
			secure = false
		}
		if tr.Kind == "referral" {
			// a cut whose child zone is not part of this namespace: unresolvable here
			return Truth{Kind: "lame", Answer: chain, Secure: false}
		}
		chain = append(chain, tr.Answer...)
		// does the chain end in an alias leaving this zone?
		next := ""
		if len(tr.Answer) > 0 {
			if cn, ok := tr.Answer[len(tr.Answer)-1].(*dns.CNAME); ok && q.Qtype != dns.TypeCNAME {
				next = lc(cn.Target)
			}
		}
		if next == "" || tr.Kind != "answer" {
			out := tr
			out.Answer = chain
			out.Secure = secure
			if len(chain) > 0 && tr.Kind == "nodata" {
				out.Kind = "answer-nodata"
			}
			if len(chain) > 0 && tr.Kind == "nxdomain" {
				out.Kind = "answer-nxdomain"
			}
			return out
		}
		if strings.EqualFold(next, name) {
			return Truth{Kind: "loop", Answer: chain}
		}
		name = next
	}
	return Truth{Kind: "loop", Answer: chain}
}

// chainSecure reports whether z is reachable through an unbroken signed chain from a signed root.
func (n *Net) chainSecure(z *Zone) bool {
	for {
		if !z.Signed {
			return false
		}
		if z.Name == "." {
			return true
		}
		p := n.parentOf(z.Name)
		if p == nil {
			return false
		}
		p.mu.Lock()
		c := p.Cuts[z.Name]
		p.mu.Unlock()
		if c == nil || len(c.DS) == 0 {
			return false
		}
		z = p
	}
}
