package authkit

import (
	"sync"
	"time"

	"github.com/miekg/dns"
)

// C08 additions: injected-delay bookkeeping (the lease oracle subtracts delays
// it injected itself from measured latencies) and a detached zone constructor
// for re-pointed delegations.

// DelayLog records every delay a hook injected, so an oracle can tell its own
// sleeps apart from the resolver's latency.
type DelayLog struct {
	mu sync.Mutex
	ev []DelayEvent
}

type DelayEvent struct {
	At    time.Time // when the delayed query arrived
	Delay time.Duration
	Q     dns.Question
}

func (d *DelayLog) Add(at time.Time, delay time.Duration, q dns.Question) {
	d.mu.Lock()
	d.ev = append(d.ev, DelayEvent{At: at, Delay: delay, Q: q})
	d.mu.Unlock()
}

// Between sums the injected delays whose query arrived in (from, to].
func (d *DelayLog) Between(from, to time.Time) time.Duration {
	d.mu.Lock()
	defer d.mu.Unlock()
	var sum time.Duration
	for _, e := range d.ev {
		if e.At.After(from) && !e.At.After(to) {
			sum += e.Delay
		}
	}
	return sum
}

// NewDetachedZone builds a zone that is not (yet) part of the namespace: the
// re-pointed version of an existing child, hosted on its own socket.
func (n *Net) NewDetachedZone(label, name string, signed bool) (*Zone, *Server, error) {
	z := NewZone(name, signed)
	srv, err := n.AddServer(label, z)
	if err != nil {
		return nil, nil, err
	}
	return z, srv, nil
}

// CutFor builds a delegation of child (hosted on srv, NS host ns.<child>) with
// the given NS / DS TTLs; the glue address is freshly allocated and mapped.
func (n *Net) CutFor(child *Zone, srv *Server, nsTTL, dsTTL uint32, withDS bool) *Cut {
	ip := n.AllocGlue(srv)
	host := "ns." + child.Name
	c := &Cut{Name: child.Name,
		NS:   []dns.RR{&dns.NS{Hdr: hdr(child.Name, dns.TypeNS, nsTTL), Ns: host}},
		Glue: []dns.RR{&dns.A{Hdr: hdr(host, dns.TypeA, nsTTL), A: ip}}}
	if withDS && child.Signed {
		c.DS = child.DS(dsTTL)
	}
	// the child publishes the same host for its apex NS
	child.Remove(child.Name, dns.TypeNS)
	child.AddRR(&dns.NS{Hdr: hdr(child.Name, dns.TypeNS, 3600), Ns: host})
	child.Remove(host, dns.TypeA)
	child.AddRR(&dns.A{Hdr: hdr(host, dns.TypeA, 3600), A: ip})
	return c
}
