// Package authkit is a scripted authoritative DNS namespace on loopback: zones
// are declared as data, answered by a small honest authoritative engine
// (referrals, CNAME/DNAME, wildcards, NSEC and NSEC3 denial with on-the-fly
// signing), and every server can then be made to lie (tamper scripts), to
// fail (fault scripts) or to change (mutable zones).  The honest engine and
// the zone data are the ground truth the conformance oracles compare the
// resolver's client-visible replies with.
package authkit

import (
	"crypto"
	"crypto/sha1" //nolint:gosec // NSEC3 uses SHA-1 by specification
	"encoding/base32"
	"fmt"
	"sort"
	"strings"
	"sync"
	"time"

	"github.com/miekg/dns"
)

// Key is one DNSKEY with its private half.
type Key struct {
	RR   *dns.DNSKEY
	Priv crypto.PrivateKey
}

// NewKey generates a key for zone (flags 257, ECDSA P-256 unless alg given).
func NewKey(zone string, alg uint8) *Key {
	if alg == 0 {
		alg = dns.ECDSAP256SHA256
	}
	k := &dns.DNSKEY{
		Hdr:   dns.RR_Header{Name: dns.Fqdn(zone), Rrtype: dns.TypeDNSKEY, Class: dns.ClassINET, Ttl: 3600},
		Flags: 257, Protocol: 3, Algorithm: alg,
	}
	bits := 256
	switch alg {
	case dns.RSASHA256, dns.RSASHA512, dns.RSASHA1:
		bits = 1024
	case dns.ECDSAP384SHA384:
		bits = 384
	}
	for {
		priv, err := k.Generate(bits)
		if err != nil {
			panic(err)
		}
		if k.KeyTag() != 0 { // the library refuses to sign with key tag 0
			return &Key{RR: k, Priv: priv}
		}
	}
}

// Cut is a delegation published by a parent zone.
type Cut struct {
	Name string
	NS   []dns.RR
	DS   []dns.RR // nil = no DS (insecure delegation)
	Glue []dns.RR
}

// Zone is the authoritative content of one zone.
type Zone struct {
	mu      sync.Mutex
	Name    string
	Signed  bool
	NSEC3   bool
	OptOut  bool
	Salt    string
	Iter    uint16
	Keys    []*Key // Keys[0] signs; all are published
	rr      map[string]map[uint16][]dns.RR
	Cuts    map[string]*Cut
	Version int
	sigs    map[string]*dns.RRSIG
	// SigWindow overrides the validity window of generated signatures.
	SigInception, SigExpiration time.Time
}

func lc(s string) string { return strings.ToLower(dns.Fqdn(s)) }

// NewZone creates a zone with SOA and NS at the apex.
func NewZone(name string, signed bool) *Zone {
	name = lc(name)
	z := &Zone{Name: name, Signed: signed, rr: map[string]map[uint16][]dns.RR{}, Cuts: map[string]*Cut{}, sigs: map[string]*dns.RRSIG{}}
	nsName := "ns." + name
	if name == "." {
		nsName = "ns.root-servers.test."
	}
	z.AddRR(&dns.SOA{Hdr: hdr(name, dns.TypeSOA, 600), Ns: nsName, Mbox: "hostmaster." + strings.TrimPrefix(name, "."),
		Serial: 1, Refresh: 3600, Retry: 600, Expire: 86400, Minttl: 60})
	z.AddRR(&dns.NS{Hdr: hdr(name, dns.TypeNS, 3600), Ns: nsName})
	if signed {
		k := NewKey(name, 0)
		z.Keys = []*Key{k}
		z.AddRR(k.RR)
	}
	return z
}

func hdr(name string, t uint16, ttl uint32) dns.RR_Header {
	return dns.RR_Header{Name: name, Rrtype: t, Class: dns.ClassINET, Ttl: ttl}
}

// AddRR adds a record (owner lower-cased).
func (z *Zone) AddRR(rr dns.RR) {
	z.mu.Lock()
	defer z.mu.Unlock()
	rr.Header().Name = lc(rr.Header().Name)
	n := rr.Header().Name
	if z.rr[n] == nil {
		z.rr[n] = map[uint16][]dns.RR{}
	}
	z.rr[n][rr.Header().Rrtype] = append(z.rr[n][rr.Header().Rrtype], rr)
	z.sigs = map[string]*dns.RRSIG{}
}

// Add parses and adds presentation-format records.
func (z *Zone) Add(lines ...string) {
	for _, l := range lines {
		rr, err := dns.NewRR(l)
		if err != nil {
			panic(fmt.Sprintf("authkit: bad RR %q: %v", l, err))
		}
		z.AddRR(rr)
	}
}

// Remove deletes an RRset.
func (z *Zone) Remove(name string, t uint16) {
	z.mu.Lock()
	defer z.mu.Unlock()
	name = lc(name)
	if m := z.rr[name]; m != nil {
		delete(m, t)
		if len(m) == 0 {
			delete(z.rr, name)
		}
	}
	z.sigs = map[string]*dns.RRSIG{}
}

// AddKey publishes an additional DNSKEY.
func (z *Zone) AddKey(k *Key) {
	z.Keys = append(z.Keys, k)
	z.AddRR(k.RR)
}

// Delegate publishes a cut. ds may be nil.
func (z *Zone) Delegate(c *Cut) {
	z.mu.Lock()
	defer z.mu.Unlock()
	c.Name = lc(c.Name)
	z.Cuts[c.Name] = c
	z.sigs = map[string]*dns.RRSIG{}
	z.Version++
}

// Undelegate withdraws a cut.
func (z *Zone) Undelegate(name string) {
	z.mu.Lock()
	defer z.mu.Unlock()
	delete(z.Cuts, lc(name))
	z.sigs = map[string]*dns.RRSIG{}
	z.Version++
}

// DS returns the DS RRset for this zone's first key.
func (z *Zone) DS(ttl uint32) []dns.RR {
	if !z.Signed || len(z.Keys) == 0 {
		return nil
	}
	ds := z.Keys[0].RR.ToDS(dns.SHA256)
	ds.Hdr.Ttl = ttl
	return []dns.RR{ds}
}

// ---- canonical ordering (own implementation: RFC 4034 6.1) -------------------

func labelsOf(name string) []string {
	if name == "." {
		return nil
	}
	return dns.SplitDomainName(name)
}

func unescapeLabel(l string) []byte {
	out := make([]byte, 0, len(l))
	for i := 0; i < len(l); i++ {
		c := l[i]
		if c == '\\' && i+1 < len(l) {
			if i+3 < len(l) && l[i+1] >= '0' && l[i+1] <= '9' {
				v := int(l[i+1]-'0')*100 + int(l[i+2]-'0')*10 + int(l[i+3]-'0')
				out = append(out, byte(v))
				i += 3
				continue
			}
			out = append(out, l[i+1])
			i++
			continue
		}
		if c >= 'A' && c <= 'Z' {
			c += 32
		}
		out = append(out, c)
	}
	return out
}

// CanonLess orders names canonically.
func CanonLess(a, b string) bool {
	la, lb := labelsOf(a), labelsOf(b)
	for i := 1; i <= len(la) && i <= len(lb); i++ {
		x, y := unescapeLabel(la[len(la)-i]), unescapeLabel(lb[len(lb)-i])
		if c := strings.Compare(string(x), string(y)); c != 0 {
			return c < 0
		}
	}
	return len(la) < len(lb)
}

// IsSub reports whether child is at or below parent.
func IsSub(child, parent string) bool {
	child, parent = lc(child), lc(parent)
	if parent == "." {
		return true
	}
	return child == parent || strings.HasSuffix(child, "."+parent)
}

// ---- signing ---------------------------------------------------------------------

func (z *Zone) signWith(k *Key, rrset []dns.RR) *dns.RRSIG {
	h := rrset[0].Header()
	inc, exp := time.Now().Add(-3*time.Hour), time.Now().Add(72*time.Hour)
	if !z.SigInception.IsZero() {
		inc, exp = z.SigInception, z.SigExpiration
	}
	sig := &dns.RRSIG{
		Hdr:         dns.RR_Header{Name: h.Name, Rrtype: dns.TypeRRSIG, Class: h.Class, Ttl: h.Ttl},
		TypeCovered: h.Rrtype, Algorithm: k.RR.Algorithm, Labels: uint8(dns.CountLabel(h.Name)), OrigTtl: h.Ttl,
		Expiration: uint32(exp.Unix()), Inception: uint32(inc.Unix()), KeyTag: k.RR.KeyTag(), SignerName: z.Name,
	}
	if err := sig.Sign(k.Priv.(crypto.Signer), rrset); err != nil {
		panic(fmt.Sprintf("authkit: sign %s/%d: %v", h.Name, h.Rrtype, err))
	}
	return sig
}

// sign returns (cached) the RRSIG over rrset by the zone's first key. Caller holds mu.
func (z *Zone) sign(rrset []dns.RR) *dns.RRSIG {
	var sb strings.Builder
	for _, rr := range rrset {
		sb.WriteString(rr.String())
		sb.WriteByte('\n')
	}
	key := sb.String()
	if s, ok := z.sigs[key]; ok {
		return dns.Copy(s).(*dns.RRSIG)
	}
	s := z.signWith(z.Keys[0], rrset)
	z.sigs[key] = s
	return dns.Copy(s).(*dns.RRSIG)
}

func cp(rrs []dns.RR) []dns.RR {
	out := make([]dns.RR, len(rrs))
	for i, rr := range rrs {
		out[i] = dns.Copy(rr)
	}
	return out
}

// withSig returns copies of rrset followed by its signature when the zone is signed and do is set.
func (z *Zone) withSig(rrset []dns.RR, do bool) []dns.RR {
	out := cp(rrset)
	if z.Signed && do && len(rrset) > 0 {
		out = append(out, z.sign(rrset))
	}
	return out
}

// ---- zone structure --------------------------------------------------------------

// cutFor returns the shallowest cut at or above name (below the apex).
func (z *Zone) cutFor(name string) *Cut {
	labels := labelsOf(name)
	apex := len(labelsOf(z.Name))
	for i := len(labels) - apex - 1; i >= 0; i-- {
		cand := lc(strings.Join(labels[i:], "."))
		if c, ok := z.Cuts[cand]; ok {
			return c
		}
	}
	return nil
}

// authNames lists owner names of authoritative data and cuts (not glue, not below cuts).
func (z *Zone) authNames() []string {
	seen := map[string]bool{}
	for n := range z.rr {
		if z.cutFor(n) == nil {
			seen[n] = true
		}
	}
	for n := range z.Cuts {
		seen[n] = true
	}
	out := make([]string, 0, len(seen))
	for n := range seen {
		out = append(out, n)
	}
	sort.Slice(out, func(i, j int) bool { return CanonLess(out[i], out[j]) })
	return out
}

// exists reports whether name owns data, is a cut, or is an empty non-terminal.
func (z *Zone) exists(name string) (owns, ent bool) {
	if _, ok := z.rr[name]; ok && z.cutFor(name) == nil {
		return true, false
	}
	if _, ok := z.Cuts[name]; ok {
		return true, false
	}
	for _, n := range z.authNames() {
		if n != name && IsSub(n, name) {
			return false, true
		}
	}
	return false, false
}

func (z *Zone) typesAt(name string) []uint16 {
	var ts []uint16
	if c, ok := z.Cuts[name]; ok {
		ts = append(ts, dns.TypeNS)
		if len(c.DS) > 0 {
			ts = append(ts, dns.TypeDS)
		}
	} else {
		for t := range z.rr[name] {
			ts = append(ts, t)
		}
	}
	return ts
}

func bitmap(ts []uint16, extra ...uint16) []uint16 {
	m := map[uint16]bool{}
	for _, t := range append(append([]uint16{}, ts...), extra...) {
		m[t] = true
	}
	out := make([]uint16, 0, len(m))
	for t := range m {
		out = append(out, t)
	}
	sort.Slice(out, func(i, j int) bool { return out[i] < out[j] })
	return out
}

// ---- NSEC ----------------------------------------------------------------------

func (z *Zone) nsecAt(i int, names []string) *dns.NSEC {
	n := names[i]
	next := names[(i+1)%len(names)]
	ts := z.typesAt(n)
	extra := []uint16{dns.TypeNSEC, dns.TypeRRSIG}
	if _, isCut := z.Cuts[n]; isCut && len(z.Cuts[n].DS) == 0 {
		extra = []uint16{dns.TypeNSEC, dns.TypeRRSIG}
	}
	return &dns.NSEC{Hdr: hdr(n, dns.TypeNSEC, z.negTTL()), NextDomain: next, TypeBitMap: bitmap(ts, extra...)}
}

func (z *Zone) negTTL() uint32 {
	if soa, ok := z.rr[z.Name][dns.TypeSOA]; ok {
		return soa[0].(*dns.SOA).Minttl
	}
	return 60
}

// nsecMatch returns the NSEC owned by name; nsecCover the one covering name.
func (z *Zone) nsecMatch(name string) *dns.NSEC {
	names := z.authNames()
	for i, n := range names {
		if n == name {
			return z.nsecAt(i, names)
		}
	}
	return nil
}

func (z *Zone) nsecCover(name string) *dns.NSEC {
	names := z.authNames()
	idx := len(names) - 1 // wrap: last covers everything after it and before the apex
	for i, n := range names {
		if CanonLess(n, name) {
			idx = i
		}
	}
	return z.nsecAt(idx, names)
}

// ---- NSEC3 ---------------------------------------------------------------------

var b32 = base32.HexEncoding.WithPadding(base32.NoPadding)

// Hash3 is RFC 5155 hashing (own implementation).
func Hash3(name, salt string, iter uint16) string {
	wire := make([]byte, 255)
	off, err := dns.PackDomainName(lc(name), wire, 0, nil, false)
	if err != nil {
		panic(err)
	}
	wire = wire[:off]
	var s []byte
	if salt != "" && salt != "-" {
		s = make([]byte, len(salt)/2)
		fmt.Sscanf(salt, "%x", &s)
	}
	h := sha1.Sum(append(append([]byte{}, wire...), s...)) //nolint:gosec
	for i := uint16(0); i < iter; i++ {
		h = sha1.Sum(append(append([]byte{}, h[:]...), s...)) //nolint:gosec
	}
	return strings.ToLower(b32.EncodeToString(h[:]))
}

type n3entry struct {
	hash string
	name string
	ts   []uint16
}

func (z *Zone) nsec3Ring() []n3entry {
	seen := map[string][]uint16{}
	for _, n := range z.authNames() {
		if c, ok := z.Cuts[n]; ok && z.OptOut && len(c.DS) == 0 {
			continue // opt-out: insecure delegations are not in the ring
		}
		seen[n] = z.typesAt(n)
		// empty non-terminals between n and the apex
		labels := labelsOf(n)
		apex := len(labelsOf(z.Name))
		for i := 1; i < len(labels)-apex; i++ {
			ent := lc(strings.Join(labels[i:], "."))
			if _, ok := seen[ent]; !ok {
				if _, owns := z.rr[ent]; !owns {
					seen[ent] = nil
				}
			}
		}
	}
	var ring []n3entry
	for n, ts := range seen {
		ring = append(ring, n3entry{hash: Hash3(n, z.Salt, z.Iter), name: n, ts: ts})
	}
	sort.Slice(ring, func(i, j int) bool { return ring[i].hash < ring[j].hash })
	return ring
}

func (z *Zone) nsec3At(ring []n3entry, i int) *dns.NSEC3 {
	e := ring[i]
	next := ring[(i+1)%len(ring)]
	var flags uint8
	if z.OptOut {
		flags = 1
	}
	var bm []uint16
	if e.ts != nil {
		bm = bitmap(e.ts, dns.TypeRRSIG)
		if _, isCut := z.Cuts[e.name]; isCut && len(z.Cuts[e.name].DS) == 0 {
			bm = bitmap(e.ts)
		}
	}
	owner := e.hash + "." + z.Name
	if z.Name == "." {
		owner = e.hash + "."
	}
	saltLen := uint8(0)
	salt := z.Salt
	if salt != "" && salt != "-" {
		saltLen = uint8(len(salt) / 2)
	} else {
		salt = ""
	}
	return &dns.NSEC3{Hdr: hdr(owner, dns.TypeNSEC3, z.negTTL()), Hash: dns.SHA1, Flags: flags, Iterations: z.Iter,
		SaltLength: saltLen, Salt: salt, HashLength: 20, NextDomain: strings.ToUpper(next.hash), TypeBitMap: bm}
}

func (z *Zone) nsec3Match(name string) *dns.NSEC3 {
	ring := z.nsec3Ring()
	h := Hash3(name, z.Salt, z.Iter)
	for i, e := range ring {
		if e.hash == h {
			return z.nsec3At(ring, i)
		}
	}
	return nil
}

func (z *Zone) nsec3Cover(name string) *dns.NSEC3 {
	ring := z.nsec3Ring()
	h := Hash3(name, z.Salt, z.Iter)
	idx := len(ring) - 1
	for i, e := range ring {
		if e.hash < h {
			idx = i
		}
	}
	return z.nsec3At(ring, idx)
}

// closestEncloser returns the longest existing ancestor-or-self of name inside the zone.
func (z *Zone) closestEncloser(name string) (ce, nextCloser string) {
	labels := labelsOf(name)
	apex := len(labelsOf(z.Name))
	for i := 0; i <= len(labels)-apex; i++ {
		cand := lc(strings.Join(labels[i:], "."))
		if i == len(labels) {
			cand = "."
		}
		owns, ent := z.exists(cand)
		if owns || ent || cand == z.Name {
			nc := name
			if i > 0 {
				nc = lc(strings.Join(labels[i-1:], "."))
			}
			return cand, nc
		}
	}
	return z.Name, name
}
