package authkit

import (
	"crypto"
	"sync"
	"time"

	"github.com/miekg/dns"
)

// SignRRset signs rrset with an arbitrary key / signer name / validity window
// (tamper scripts re-sign forged or re-windowed data with it).
func SignRRset(rrset []dns.RR, signer string, k *Key, inception, expiration time.Time) *dns.RRSIG {
	h := rrset[0].Header()
	sig := &dns.RRSIG{
		Hdr:         dns.RR_Header{Name: h.Name, Rrtype: dns.TypeRRSIG, Class: h.Class, Ttl: h.Ttl},
		TypeCovered: h.Rrtype, Algorithm: k.RR.Algorithm, Labels: uint8(dns.CountLabel(h.Name)), OrigTtl: h.Ttl,
		Expiration: uint32(expiration.Unix()), Inception: uint32(inception.Unix()), KeyTag: k.RR.KeyTag(), SignerName: lc(signer),
	}
	if err := sig.Sign(k.Priv.(crypto.Signer), rrset); err != nil {
		panic(err)
	}
	return sig
}

// Key0 returns the zone's signing key (nil for unsigned zones).
func (z *Zone) Key0() *Key {
	if len(z.Keys) == 0 {
		return nil
	}
	return z.Keys[0]
}

// RRset returns a copy of an authoritative RRset.
func (z *Zone) RRset(name string, t uint16) []dns.RR {
	z.mu.Lock()
	defer z.mu.Unlock()
	return cp(z.rr[lc(name)][t])
}

// NSECFor returns the signed NSEC (or NSEC3 set) this zone would use to deny name/type.
func (z *Zone) DenialFor(name string, nx bool) []dns.RR {
	z.mu.Lock()
	defer z.mu.Unlock()
	if nx {
		return z.denyName(lc(name))
	}
	return z.denyTypeAt(lc(name))
}

var (
	cloneMu    sync.Mutex
	cloneCache = map[uint16]*Key{}
)

// CloneTagKey searches a fresh key for zone with the same key tag as k (same
// algorithm). Returns nil when none is found within the budget.
func CloneTagKey(zone string, k *Key, budget int) *Key {
	want := k.RR.KeyTag()
	cloneMu.Lock()
	defer cloneMu.Unlock()
	if c, ok := cloneCache[want]; ok && c.RR.Hdr.Name == lc(zone) {
		return c
	}
	for i := 0; i < budget; i++ {
		c := NewKey(zone, k.RR.Algorithm)
		if c.RR.KeyTag() == want && c.RR.PublicKey != k.RR.PublicKey {
			cloneCache[want] = c
			return c
		}
	}
	return nil
}
