package authkit_test

import (
	"os"
	"testing"

	"github.com/miekg/dns"
	"github.com/semihalev/sdns/verifharness/authkit"
	"github.com/semihalev/sdns/verifharness/pipe"
)

// Smoke test of the kit itself: an honest signed hierarchy must resolve with AD.
func TestSmokeHonest(t *testing.T) {
	n, err := authkit.NewNet(true)
	if err != nil {
		t.Fatal(err)
	}
	defer n.Stop()
	tz, _, _ := n.Delegate("test.", authkit.DelegateOpts{Signed: true, PublishDS: true})
	ez, _, _ := n.Delegate("example.test.", authkit.DelegateOpts{Signed: true, PublishDS: true})
	iz, _, _ := n.Delegate("insecure.test.", authkit.DelegateOpts{Signed: false})
	nz, _, _ := n.Delegate("n3.test.", authkit.DelegateOpts{Signed: true, PublishDS: true, NSEC3: true})
	_ = tz
	ez.Add("www.example.test. 300 IN A 192.0.2.80", "alias.example.test. 300 IN CNAME www.example.test.",
		"*.wild.example.test. 300 IN A 192.0.2.81", "a.b.c.example.test. 300 IN TXT \"deep\"")
	iz.Add("www.insecure.test. 300 IN A 192.0.2.90")
	nz.Add("www.n3.test. 300 IN A 192.0.2.91", "*.w.n3.test. 300 IN A 192.0.2.92")
	dir, _ := os.MkdirTemp("", "verif-smoke-")
	defer os.RemoveAll(dir)
	s, _ := pipe.NewResolverServer(pipe.ResolverOpts{RootAddr: n.RootSrv.Addr, RootKeys: []string{n.Root.Keys[0].RR.String()},
		DNSSEC: true, Dir: dir, Mapper: n.Mapper()})
	ask := func(name string, qt uint16) *dns.Msg {
		q := new(dns.Msg)
		q.SetQuestion(name, qt)
		q.SetEdns0(1232, true)
		return pipe.Ask(s, q, "udp", "203.0.113.9")
	}
	cases := []struct {
		name  string
		qt    uint16
		rcode int
		ad    bool
		nAns  int
	}{
		{"www.example.test.", dns.TypeA, dns.RcodeSuccess, true, 1},
		{"alias.example.test.", dns.TypeA, dns.RcodeSuccess, true, 2},
		{"x.wild.example.test.", dns.TypeA, dns.RcodeSuccess, true, 1},
		{"nope.example.test.", dns.TypeA, dns.RcodeNameError, true, 0},
		{"www.example.test.", dns.TypeTXT, dns.RcodeSuccess, true, 0},
		{"www.insecure.test.", dns.TypeA, dns.RcodeSuccess, false, 1},
		{"www.n3.test.", dns.TypeA, dns.RcodeSuccess, true, 1},
		{"nope.n3.test.", dns.TypeA, dns.RcodeNameError, true, 0},
		{"www.n3.test.", dns.TypeTXT, dns.RcodeSuccess, true, 0},
		{"q.w.n3.test.", dns.TypeA, dns.RcodeSuccess, true, 1},
	}
	for _, c := range cases {
		r := ask(c.name, c.qt)
		if r == nil {
			t.Errorf("%s/%d: no reply", c.name, c.qt)
			continue
		}
		nAns := 0
		for _, rr := range r.Answer {
			if rr.Header().Rrtype != dns.TypeRRSIG {
				nAns++
			}
		}
		if r.Rcode != c.rcode || r.AuthenticatedData != c.ad || nAns != c.nAns {
			t.Errorf("%s/%s: rcode=%s ad=%v answers=%d, want rcode=%s ad=%v answers=%d\n%v", c.name, dns.TypeToString[c.qt],
				dns.RcodeToString[r.Rcode], r.AuthenticatedData, nAns, dns.RcodeToString[c.rcode], c.ad, c.nAns, r)
		}
	}
}
