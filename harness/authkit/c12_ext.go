package authkit

import (
	"net"
	"time"

	"github.com/miekg/dns"
)

// C12 additions (topology concretisation): extra sockets that belong to the
// namespace's packet count, custom multi-NS cuts, and windowed log views.

// AddServer starts one more socket (hosting the given zones, possibly none) and
// registers it under label so AllServers / TotalQueries / ResetLogs include it.
func (n *Net) AddServer(label string, zones ...*Zone) (*Server, error) {
	srv, err := StartServer(label, zones...)
	if err != nil {
		return nil, err
	}
	n.mu.Lock()
	n.Servers["#"+label] = srv
	n.mu.Unlock()
	return srv, nil
}

// AdoptZone registers a zone created outside Delegate (hosted on srv).
func (n *Net) AdoptZone(z *Zone, srv *Server) {
	n.mu.Lock()
	n.Zones[z.Name] = z
	n.Servers[z.Name] = srv
	n.mu.Unlock()
}

// AllocGlue reserves a fresh advertised address that dials srv.
func (n *Net) AllocGlue(srv *Server) net.IP {
	n.mu.Lock()
	defer n.mu.Unlock()
	n.nextIP++
	// stay clear of the 192.0.2.x block Delegate hands out once it is exhausted
	ip := net.IPv4(198, 51, byte(100+(n.nextIP>>8)&0x3f), byte(n.nextIP&0xff))
	n.glue[net.JoinHostPort(ip.String(), "53")] = srv.Addr
	return ip
}

// NSRR / ARR build records with the kit's header helper.
func NSRR(owner, host string, ttl uint32) dns.RR {
	return &dns.NS{Hdr: hdr(lc(owner), dns.TypeNS, ttl), Ns: lc(host)}
}

func ARR(owner string, ip net.IP, ttl uint32) dns.RR {
	return &dns.A{Hdr: hdr(lc(owner), dns.TypeA, ttl), A: ip}
}

// LogSince returns the entries received at or after t.
func (s *Server) LogSince(t time.Time) []LogEntry {
	s.mu.Lock()
	defer s.mu.Unlock()
	var out []LogEntry
	for _, e := range s.log {
		if !e.At.Before(t) {
			out = append(out, e)
		}
	}
	return out
}

// LogAll concatenates every server's log (unordered across servers).
func (n *Net) LogAll() []LogEntry {
	var out []LogEntry
	for _, s := range n.AllServers() {
		out = append(out, s.Log()...)
	}
	return out
}

// SetNSEC3 switches a signed zone to NSEC3 with the given parameters.
func (z *Zone) SetNSEC3(salt string, iter uint16, optOut bool) {
	z.mu.Lock()
	z.NSEC3, z.Salt, z.Iter, z.OptOut = true, salt, iter, optOut
	z.sigs = map[string]*dns.RRSIG{}
	z.mu.Unlock()
}

// SignWith signs an RRset with one specific key of the zone (extra-RRSIG scripts).
func (z *Zone) SignWith(k *Key, rrset []dns.RR) *dns.RRSIG {
	return z.signWith(k, rrset)
}
