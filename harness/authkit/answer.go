package authkit

import (
	"strings"

	"github.com/miekg/dns"
)

// Truth classifies what the zone really says about a question.
type Truth struct {
	Kind   string   // "answer" | "nodata" | "nxdomain" | "referral" | "refused"
	Answer []dns.RR // the records an honest answer section carries (no RRSIGs)
	Cut    string
	Secure bool // the zone is signed (an honest reply is verifiable)
}

// Answer builds the honest response of this zone to q.
func (z *Zone) Answer(q dns.Question, do bool) (*dns.Msg, Truth) {
	z.mu.Lock()
	defer z.mu.Unlock()
	m := new(dns.Msg)
	m.Response = true
	m.Question = []dns.Question{q}
	name := lc(q.Name)
	tr := Truth{Secure: z.Signed}
	if !IsSub(name, z.Name) || q.Qclass != dns.ClassINET {
		m.Rcode = dns.RcodeRefused
		tr.Kind = "refused"
		return m, tr
	}
	// delegation?
	if c := z.cutFor(name); c != nil && !(name == c.Name && q.Qtype == dns.TypeDS) {
		m.Ns = append(m.Ns, cp(c.NS)...)
		if z.Signed && do {
			if len(c.DS) > 0 {
				m.Ns = append(m.Ns, z.withSig(c.DS, true)...)
			} else {
				m.Ns = append(m.Ns, z.denyTypeAt(c.Name)...)
			}
		}
		m.Extra = append(m.Extra, cp(c.Glue)...)
		tr.Kind, tr.Cut = "referral", c.Name
		return m, tr
	}
	m.Authoritative = true
	// DS at a cut is parent-side data
	if c, ok := z.Cuts[name]; ok && q.Qtype == dns.TypeDS {
		if len(c.DS) > 0 {
			m.Answer = z.withSig(c.DS, do)
			tr.Kind, tr.Answer = "answer", cp(c.DS)
		} else {
			m.Ns = append(m.Ns, z.soaNeg(do)...)
			if z.Signed && do {
				m.Ns = append(m.Ns, z.denyTypeAt(name)...)
			}
			tr.Kind = "nodata"
		}
		return m, tr
	}
	z.answerInto(m, &tr, name, q.Qtype, do, 0)
	return m, tr
}

func (z *Zone) soaNeg(do bool) []dns.RR {
	return z.withSig(z.rr[z.Name][dns.TypeSOA], do)
}

// denyTypeAt returns the signed NSEC/NSEC3 matching name (NODATA / no-DS proof).
func (z *Zone) denyTypeAt(name string) []dns.RR {
	if z.NSEC3 {
		if n3 := z.nsec3Match(name); n3 != nil {
			return z.withSig([]dns.RR{n3}, true)
		}
		// opt-out: the delegation is not in the ring; closest *provable* encloser proof
		labels := labelsOf(name)
		nc := name
		var out []dns.RR
		for i := 1; i <= len(labels); i++ {
			ce := "."
			if i < len(labels) {
				ce = lc(strings.Join(labels[i:], "."))
			}
			if m := z.nsec3Match(ce); m != nil {
				out = append(out, z.withSig([]dns.RR{m}, true)...)
				break
			}
			nc = ce
			if ce == z.Name {
				break
			}
		}
		out = append(out, z.withSig([]dns.RR{z.nsec3Cover(nc)}, true)...)
		return dedupRR(out)
	}
	if n := z.nsecMatch(name); n != nil {
		return z.withSig([]dns.RR{n}, true)
	}
	// empty non-terminal: the covering NSEC proves it
	return z.withSig([]dns.RR{z.nsecCover(name)}, true)
}

func dedupRR(rrs []dns.RR) []dns.RR {
	seen := map[string]bool{}
	var out []dns.RR
	for _, rr := range rrs {
		k := rr.String()
		if !seen[k] {
			seen[k] = true
			out = append(out, rr)
		}
	}
	return out
}

// denyName returns the signed proof that name does not exist (NXDOMAIN) incl. the wildcard denial.
func (z *Zone) denyName(name string) []dns.RR {
	ce, nc := z.closestEncloser(name)
	wc := "*." + ce
	if ce == "." {
		wc = "*."
	}
	var out []dns.RR
	if z.NSEC3 {
		if m := z.nsec3Match(ce); m != nil {
			out = append(out, z.withSig([]dns.RR{m}, true)...)
		}
		out = append(out, z.withSig([]dns.RR{z.nsec3Cover(nc)}, true)...)
		out = append(out, z.withSig([]dns.RR{z.nsec3Cover(wc)}, true)...)
		return dedupRR(out)
	}
	out = append(out, z.withSig([]dns.RR{z.nsecCover(name)}, true)...)
	out = append(out, z.withSig([]dns.RR{z.nsecCover(wc)}, true)...)
	return dedupRR(out)
}

// denyCloser proves that nothing closer than the wildcard matched (wildcard answers).
func (z *Zone) denyCloser(name string) []dns.RR {
	_, nc := z.closestEncloser(name)
	if z.NSEC3 {
		return z.withSig([]dns.RR{z.nsec3Cover(nc)}, true)
	}
	return z.withSig([]dns.RR{z.nsecCover(name)}, true)
}

func retarget(rrs []dns.RR, owner string) []dns.RR {
	out := cp(rrs)
	for _, rr := range out {
		rr.Header().Name = owner
	}
	return out
}

func (z *Zone) answerInto(m *dns.Msg, tr *Truth, name string, qtype uint16, do bool, depth int) {
	if depth > 8 {
		return
	}
	sets, owns := z.rr[name]
	if owns && z.cutFor(name) != nil {
		owns = false
	}
	// DNAME at a strict ancestor inside the zone
	if dn, owner := z.dnameAbove(name); dn != nil {
		m.Answer = append(m.Answer, z.withSig([]dns.RR{dn}, do)...)
		tr.Answer = append(tr.Answer, dns.Copy(dn))
		target := strings.TrimSuffix(name, owner) + lc(dn.Target)
		syn := &dns.CNAME{Hdr: hdr(name, dns.TypeCNAME, dn.Hdr.Ttl), Target: target}
		m.Answer = append(m.Answer, syn)
		tr.Answer = append(tr.Answer, dns.Copy(syn))
		tr.Kind = "answer"
		if IsSub(target, z.Name) && z.cutFor(target) == nil && qtype != dns.TypeCNAME {
			z.answerInto(m, tr, target, qtype, do, depth+1)
		}
		return
	}
	if owns {
		if cn, ok := sets[dns.TypeCNAME]; ok && qtype != dns.TypeCNAME && qtype != dns.TypeNSEC && qtype != dns.TypeRRSIG {
			m.Answer = append(m.Answer, z.withSig(cn, do)...)
			tr.Answer = append(tr.Answer, cp(cn)...)
			tr.Kind = "answer"
			target := lc(cn[0].(*dns.CNAME).Target)
			if IsSub(target, z.Name) && z.cutFor(target) == nil {
				z.answerInto(m, tr, target, qtype, do, depth+1)
			}
			return
		}
		if rrset, ok := sets[qtype]; ok {
			m.Answer = append(m.Answer, z.withSig(rrset, do)...)
			tr.Answer = append(tr.Answer, cp(rrset)...)
			tr.Kind = "answer"
			return
		}
		// NODATA
		if depth == 0 || len(m.Ns) == 0 {
			m.Ns = append(m.Ns, z.soaNeg(do)...)
			if z.Signed && do {
				m.Ns = append(m.Ns, z.denyTypeAt(name)...)
			}
		}
		if tr.Kind == "" {
			tr.Kind = "nodata"
		}
		return
	}
	if _, ent := z.exists(name); ent {
		m.Ns = append(m.Ns, z.soaNeg(do)...)
		if z.Signed && do {
			m.Ns = append(m.Ns, z.denyTypeAt(name)...)
		}
		if tr.Kind == "" {
			tr.Kind = "nodata"
		}
		return
	}
	// wildcard
	ce, _ := z.closestEncloser(name)
	wc := "*." + ce
	if ce == "." {
		wc = "*."
	}
	if wsets, ok := z.rr[wc]; ok && z.cutFor(wc) == nil {
		if cn, ok := wsets[dns.TypeCNAME]; ok && qtype != dns.TypeCNAME {
			m.Answer = append(m.Answer, z.wildSig(cn, name, do)...)
			tr.Answer = append(tr.Answer, retarget(cn, name)...)
			tr.Kind = "answer"
			if z.Signed && do {
				m.Ns = append(m.Ns, z.denyCloser(name)...)
			}
			target := lc(cn[0].(*dns.CNAME).Target)
			if IsSub(target, z.Name) && z.cutFor(target) == nil {
				z.answerInto(m, tr, target, qtype, do, depth+1)
			}
			return
		}
		if rrset, ok := wsets[qtype]; ok {
			m.Answer = append(m.Answer, z.wildSig(rrset, name, do)...)
			tr.Answer = append(tr.Answer, retarget(rrset, name)...)
			tr.Kind = "answer"
			if z.Signed && do {
				m.Ns = append(m.Ns, z.denyCloser(name)...)
			}
			return
		}
		m.Ns = append(m.Ns, z.soaNeg(do)...)
		if z.Signed && do {
			m.Ns = append(m.Ns, z.denyCloser(name)...)
			m.Ns = append(m.Ns, z.denyTypeAt(wc)...)
			m.Ns = dedupRR(m.Ns)
		}
		if tr.Kind == "" {
			tr.Kind = "nodata"
		}
		return
	}
	// NXDOMAIN
	if depth == 0 {
		m.Rcode = dns.RcodeNameError
	}
	m.Ns = append(m.Ns, z.soaNeg(do)...)
	if z.Signed && do {
		m.Ns = append(m.Ns, z.denyName(name)...)
		m.Ns = dedupRR(m.Ns)
	}
	if tr.Kind == "" {
		tr.Kind = "nxdomain"
	}
}

// wildSig returns the wildcard RRset re-owned to name with the wildcard's signature.
func (z *Zone) wildSig(rrset []dns.RR, name string, do bool) []dns.RR {
	out := retarget(rrset, name)
	if z.Signed && do {
		sig := z.sign(rrset)
		sig.Hdr.Name = name
		out = append(out, sig)
	}
	return out
}

func (z *Zone) dnameAbove(name string) (*dns.DNAME, string) {
	labels := labelsOf(name)
	apex := len(labelsOf(z.Name))
	for i := 1; i <= len(labels)-apex; i++ {
		cand := lc(strings.Join(labels[i:], "."))
		if i == len(labels) {
			cand = "."
		}
		if sets, ok := z.rr[cand]; ok && z.cutFor(cand) == nil {
			if dn, ok := sets[dns.TypeDNAME]; ok {
				return dn[0].(*dns.DNAME), cand
			}
		}
	}
	return nil, ""
}
