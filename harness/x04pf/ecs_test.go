package x04pf

import (
	"fmt"
	"net"
	"strings"
	"testing"
	"time"

	"context"
	"github.com/miekg/dns"

	"github.com/semihalev/sdns/middleware"
	mcache "github.com/semihalev/sdns/middleware/cache"
	"github.com/semihalev/sdns/verifharness/pipe"
	"github.com/semihalev/sdns/verifharness/vh"
)

// ================================================ ECS client refreshes a shared entry
// Scenario (observation; the verdict belongs to the ECS / cache-identity properties, not to C04):
// the full default chain (recovery .. edns .. cache, failover) with a scripted tail in the
// resolver's place; [ecs] enabled.  The tail answers a query that carries EDNS0_SUBNET with a
// subnet-specific address and SCOPE = /24, and a query without it with the global address.
//
//	q1  client without ECS                -> global answer, stored under the shared key
//	clock +6 s (TTL 10, prefetch 50 %)     -> the entry is due
//	q2  client with ECS 198.51.100.0/24    -> hits the shared entry, claims the refresh
//	    the refresh runs through the prefetch sub-pipeline (edns .. failover, tail)
//	q3  client without ECS, q4 client with ECS 192.0.2.0/24 -> what do they get?
type ecsInput struct {
	Variants []string `json:"variants"`
	// Judge: evaluate the ECS-audience predicates as violations (for the property that bears them, C19):
	//  (a) the upstream query of a refresh of a SHARED entry carries no EDNS0_SUBNET;
	//  (b) a client outside the authority-declared scope (no ECS, or another subnet) is never served the
	//      subnet-specific rdata.
	// false (what checks/x04pf.py passes): the same facts are reported as an observation.
	Judge bool `json:"judge"`
}

func ecsQuery(name string, id uint16, subnet net.IP) *dns.Msg {
	q := new(dns.Msg)
	q.SetQuestion(name, dns.TypeA)
	q.Id = id
	q.RecursionDesired = true
	if subnet != nil {
		q.SetEdns0(1232, false)
		q.IsEdns0().Option = append(q.IsEdns0().Option,
			&dns.EDNS0_SUBNET{Code: dns.EDNS0SUBNET, Family: 1, SourceNetmask: 24, Address: subnet.To4()})
	}
	return q
}

func subnetOf(m *dns.Msg) (string, bool) {
	if m == nil {
		return "", false
	}
	opt := m.IsEdns0()
	if opt == nil {
		return "", false
	}
	for _, o := range opt.Option {
		if s, ok := o.(*dns.EDNS0_SUBNET); ok {
			return fmt.Sprintf("%s/%d", s.Address, s.SourceNetmask), true
		}
	}
	return "", false
}

func b2i(b bool) int {
	if b {
		return 1
	}
	return 0
}

func firstA(m *dns.Msg) string {
	if m == nil {
		return "<no reply>"
	}
	for _, rr := range m.Answer {
		if a, ok := rr.(*dns.A); ok {
			return fmt.Sprintf("%s ttl=%d", a.A, a.Hdr.Ttl)
		}
	}
	return fmt.Sprintf("<rcode %d, no A>", m.Rcode)
}

func TestPrefetchEcsShared(t *testing.T) {
	var in ecsInput
	vh.Input(t, &in)
	res := vh.NewResult()
	defer res.Write(t)
	const name = "geo.ex."
	global := net.IPv4(10, 0, 0, 1).To4()
	for _, variant := range in.Variants {
		if strings.HasPrefix(variant, "scoped") {
			scopedNeverRefreshed(res, in, variant)
			continue
		}
		cfg := pipe.BaseConfig()
		cfg.Prefetch = 50
		cfg.ECS.Enabled = true
		if variant == "allowlist" {
			cfg.ECS.ClientNetworks = []string{"203.0.113.0/24"}
		}
		tail := &pipe.Tail{}
		tail.Respond = func(ctx context.Context, ch *middleware.Chain, req *dns.Msg) *dns.Msg {
			m := new(dns.Msg)
			m.SetReply(req)
			m.RecursionAvailable = true
			addr := global
			if opt := req.IsEdns0(); opt != nil {
				for _, o := range opt.Option {
					if s, ok := o.(*dns.EDNS0_SUBNET); ok && s.Family == 1 {
						// a geo-aware authority: an address inside the client's subnet, scoped to it
						ip := s.Address.To4()
						addr = net.IPv4(ip[0], ip[1], ip[2], 53).To4()
						m.SetEdns0(1232, false)
						m.IsEdns0().Option = append(m.IsEdns0().Option, &dns.EDNS0_SUBNET{Code: dns.EDNS0SUBNET, Family: 1,
							SourceNetmask: s.SourceNetmask, SourceScope: 24, Address: s.Address})
					}
				}
			}
			m.Answer = []dns.RR{&dns.A{Hdr: dns.RR_Header{Name: req.Question[0].Name, Rrtype: dns.TypeA, Class: dns.ClassINET, Ttl: 10}, A: addr}}
			return m
		}
		srv, release := pipe.NewServer(cfg, tail, "resolver")
		c, ok := middleware.Get("cache").(*mcache.Cache)
		if !ok {
			release()
			res.Skip("variant %s: the cache handler is not in the pipeline", variant)
			return
		}
		log := []string{fmt.Sprintf("config: [ecs] enabled=true client_networks=%v prefetch=50", cfg.ECS.ClientNetworks)}
		say := func(f string, a ...any) { log = append(log, fmt.Sprintf(f, a...)) }
		key := mcache.CacheKey{Question: dns.Question{Name: name, Qtype: dns.TypeA, Qclass: dns.ClassINET}}.Hash()
		r1 := pipe.Ask(srv, ecsQuery(name, 1, nil), "udp", "203.0.113.7")
		say("q1 203.0.113.7 no ECS -> %s; upstream queries so far %d", firstA(r1), tail.NCalls())
		old := c.VerifX04pfStore().VerifX04pfPeek(key)
		if old == nil {
			release()
			res.Skip("variant %s: q1 did not populate the shared key", variant)
			return
		}
		c.VerifX04pfShift(6 * time.Second)
		say("clock +6 s")
		before := tail.NCalls()
		r2 := pipe.Ask(srv, ecsQuery(name, 2, net.IPv4(198, 51, 100, 0)), "udp", "203.0.113.8")
		say("q2 203.0.113.8 ECS 198.51.100.0/24 -> %s (served from the shared entry; claimed=%v)", firstA(r2), old.VerifX04pfClaimed())
		refreshed := waitUntil(func() bool { return tail.NCalls() > before && !old.VerifX04pfClaimed() }, 3*time.Second)
		carried := ""
		if refreshed {
			if sn, ok := subnetOf(tail.Last()); ok {
				carried = sn
			}
			say("refresh: the prefetch sub-pipeline asked upstream with ECS=%q", carried)
		} else {
			say("refresh: no upstream query within 3 s")
		}
		cur := c.VerifX04pfStore().VerifX04pfPeek(key)
		held := "<nothing>"
		if cur != nil {
			_, cd, sc := cur.VerifX04pfIdentity()
			held = fmt.Sprintf("%s (entry replaced=%v, filed under CD=%v scope=%v)", firstA(cur.VerifX04pfStored()), cur != old, cd, sc)
		}
		say("shared key now holds %s", held)
		r3 := pipe.Ask(srv, ecsQuery(name, 3, nil), "udp", "203.0.113.9")
		say("q3 203.0.113.9 no ECS -> %s", firstA(r3))
		r4 := pipe.Ask(srv, ecsQuery(name, 4, net.IPv4(192, 0, 2, 0)), "udp", "203.0.113.10")
		say("q4 203.0.113.10 ECS 192.0.2.0/24 -> %s", firstA(r4))
		noEcsWidened := strings.HasPrefix(firstA(r3), "198.51.100.")
		otherWidened := strings.HasPrefix(firstA(r4), "198.51.100.")
		widened := noEcsWidened || otherWidened
		res.Case("ecs-shared-refresh/" + variant)
		res.Count("variants", 1)
		res.Count("refresh_ran_"+variant, b2i(refreshed))
		res.Count("refresh_carried_client_subnet_"+variant, b2i(carried != ""))
		res.Count("subnet_answer_under_shared_key_"+variant, b2i(cur != nil && strings.HasPrefix(firstA(cur.VerifX04pfStored()), "198.51.100.")))
		res.Count("subnet_answer_served_to_client_without_ecs_"+variant, b2i(noEcsWidened))
		res.Count("subnet_answer_served_to_other_subnet_"+variant, b2i(otherWidened))
		replay := map[string]any{"driver": "x04pf-ecs", "input": map[string]any{"variants": []string{variant}, "judge": true}, "log": log}
		if in.Judge {
			if carried != "" {
				res.Violate("ecs-refresh/"+variant+"/query", fmt.Sprintf(
					"the background refresh of a SHARED cache entry asked upstream with the claiming client's subnet (EDNS0_SUBNET %s): %s",
					carried, strings.Join(log, " | ")), replay)
			}
			if widened {
				res.Violate("ecs-refresh/"+variant, fmt.Sprintf(
					"a subnet-specific answer (authority scope /24 for 198.51.100.0/24) stored by a background refresh under the shared key "+
						"was served outside that subnet (no-ECS client: %v, client in 192.0.2.0/24: %v): %s", noEcsWidened, otherWidened,
					strings.Join(log, " | ")), replay)
			}
		} else if widened || carried != "" {
			res.DriftNote("ECS/%s: a refresh claimed by an ECS client on a shared entry asked upstream with the client subnet (%q) and the "+
				"subnet-specific answer stored under the shared key was served outside the subnet (%v): %s", variant, carried, widened, strings.Join(log, " | "))
		} else {
			res.DriftNote("ECS/%s: not reproduced: %s", variant, strings.Join(log, " | "))
		}
		res.Sample(map[string]any{"variant": variant, "log": log})
		release()
	}
}


// scopedNeverRefreshed: an entry stored under an ECS scope is never handed to the background refresh
// (Prefetch.tla: Eligible; mutant ScopeBug), whichever path the hit is served on.
//
//	q1  client with ECS 198.51.100.0/24   -> subnet answer (scope /24), stored under the scoped key
//	clock +6 s (TTL 10, prefetch 50 %)     -> a shared entry would be due
//	q2  another client of the same subnet  -> hit; NO upstream query may follow
//	q3  the same audience again            -> still the subnet answer
func scopedNeverRefreshed(res *vh.Result, in ecsInput, variant string) {
	const name = "geo2.ex."
	global := net.IPv4(10, 0, 0, 1).To4()
	cfg := pipe.BaseConfig()
	cfg.Prefetch = 50
	cfg.ECS.Enabled = true
	tail := &pipe.Tail{}
	tail.Respond = func(ctx context.Context, ch *middleware.Chain, req *dns.Msg) *dns.Msg {
		m := new(dns.Msg)
		m.SetReply(req)
		m.RecursionAvailable = true
		addr := global
		if opt := req.IsEdns0(); opt != nil {
			for _, o := range opt.Option {
				if s, ok := o.(*dns.EDNS0_SUBNET); ok && s.Family == 1 {
					ip := s.Address.To4()
					addr = net.IPv4(ip[0], ip[1], ip[2], 53).To4()
					m.SetEdns0(1232, false)
					m.IsEdns0().Option = append(m.IsEdns0().Option, &dns.EDNS0_SUBNET{Code: dns.EDNS0SUBNET, Family: 1,
						SourceNetmask: s.SourceNetmask, SourceScope: 24, Address: s.Address})
				}
			}
		}
		m.Answer = []dns.RR{&dns.A{Hdr: dns.RR_Header{Name: req.Question[0].Name, Rrtype: dns.TypeA, Class: dns.ClassINET, Ttl: 10}, A: addr}}
		return m
	}
	srv, release := pipe.NewServer(cfg, tail, "resolver")
	defer release()
	c, ok := middleware.Get("cache").(*mcache.Cache)
	if !ok {
		res.Skip("variant %s: the cache handler is not in the pipeline", variant)
		return
	}
	ask := func(q *dns.Msg, client string) *dns.Msg {
		if variant == "scoped-raw" {
			return pipe.AskRaw(srv, q, "udp", client)
		}
		return pipe.Ask(srv, q, "udp", client)
	}
	log := []string{fmt.Sprintf("config: [ecs] enabled=true prefetch=50, entry path %s", variant)}
	say := func(f string, a ...any) { log = append(log, fmt.Sprintf(f, a...)) }
	sub := net.IPv4(198, 51, 100, 0)
	r1 := ask(ecsQuery(name, 1, sub), "203.0.113.7")
	say("q1 203.0.113.7 ECS 198.51.100.0/24 -> %s; upstream queries so far %d", firstA(r1), tail.NCalls())
	if !strings.HasPrefix(firstA(r1), "198.51.100.") {
		res.Skip("variant %s: q1 was not answered with the subnet answer (%s)", variant, firstA(r1))
		return
	}
	c.VerifX04pfShift(6 * time.Second)
	say("clock +6 s")
	before := tail.NCalls()
	r2 := ask(ecsQuery(name, 2, sub), "203.0.113.8")
	say("q2 203.0.113.8 ECS 198.51.100.0/24 -> %s (upstream queries %d -> %d right after)", firstA(r2), before, tail.NCalls())
	hit := tail.NCalls() == before
	refreshed := waitUntil(func() bool { return tail.NCalls() > before }, 700*time.Millisecond)
	if refreshed {
		sn, _ := subnetOf(tail.Last())
		say("a background query reached upstream after the hit (ECS=%q)", sn)
	}
	r3 := ask(ecsQuery(name, 3, sub), "203.0.113.9")
	say("q3 203.0.113.9 ECS 198.51.100.0/24 -> %s", firstA(r3))
	res.Case("ecs-scoped-never-refreshed/" + variant)
	res.Count("variants", 1)
	res.Count("refresh_ran_"+variant, 1) // (the scenario ran; the vacuity guard of the caller keys on this name)
	res.Count("scoped_hit_"+variant, b2i(hit))
	res.Count("scoped_entry_refreshed_"+variant, b2i(hit && refreshed))
	replay := map[string]any{"driver": "x04pf-ecs", "input": map[string]any{"variants": []string{variant}, "judge": true}, "log": log}
	if in.Judge && hit && refreshed {
		res.Violate("ecs-scoped-refresh/"+variant, fmt.Sprintf(
			"a cache entry stored under an ECS scope was handed to the background refresh after a hit: %s", strings.Join(log, " | ")), replay)
	}
	if in.Judge && hit && !strings.HasPrefix(firstA(r3), "198.51.100.") {
		res.Violate("ecs-scoped-replaced/"+variant, fmt.Sprintf(
			"the audience of a scoped entry no longer gets its subnet answer after a hit inside the prefetch window: %s", strings.Join(log, " | ")), replay)
	}
	res.Sample(map[string]any{"variant": variant, "log": log})
}
